Require Extraction.
Require Import ExtrOcamlBasic.
From PF Require Import Dispatch.
Set Extraction Output Directory ".".
Extraction "model.ml" run.
