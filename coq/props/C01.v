(* C01 -- Flow-direction rasters are decoded faithfully to the D8/LDD/NEXTXY conventions.
   Statements only; every proof is `exact <lemma>` into theories/CodecSpec.v. *)
From Coq Require Import List Arith ZArith Bool Sorted.
Import ListNotations.
From PF Require Import Arr Net Codec CodecSpec.
From PFG Require Import GenTables GenDrdc.
Open Scope Z_scope.

(* the regenerated drdc functions invert the regenerated 3x3 stencils *)
Theorem d8_drdc_table : forall dr dc, In (dr, dc) offsets -> d8_drdc (table_at d8_ds dr dc) = (dr, dc).
Proof. exact CodecSpec.d8_drdc_table. Qed.
Print Assumptions d8_drdc_table.
Theorem ldd_drdc_table : forall dr dc, In (dr, dc) offsets -> ldd_drdc (table_at ldd_ds dr dc) = (dr, dc).
Proof. exact CodecSpec.ldd_drdc_table. Qed.
Print Assumptions ldd_drdc_table.

(* the documented conventions: rows grow southwards, columns eastwards *)
Theorem d8_convention :
  d8_drdc 1 = (0,1) /\ d8_drdc 2 = (1,1) /\ d8_drdc 4 = (1,0) /\ d8_drdc 8 = (1,-1) /\
  d8_drdc 16 = (0,-1) /\ d8_drdc 32 = (-1,-1) /\ d8_drdc 64 = (-1,0) /\ d8_drdc 128 = (-1,1) /\
  d8_drdc 0 = (0,0) /\ d8_drdc 255 = (0,0).
Proof. exact CodecSpec.d8_convention. Qed.
Print Assumptions d8_convention.
Theorem ldd_convention :
  ldd_drdc 6 = (0,1) /\ ldd_drdc 3 = (1,1) /\ ldd_drdc 2 = (1,0) /\ ldd_drdc 1 = (1,-1) /\
  ldd_drdc 4 = (0,-1) /\ ldd_drdc 7 = (-1,-1) /\ ldd_drdc 8 = (-1,0) /\ ldd_drdc 9 = (-1,1) /\
  ldd_drdc 5 = (0,0).
Proof. exact CodecSpec.ldd_convention. Qed.
Print Assumptions ldd_convention.

Theorem d8_all_complete : forall v, In v d8_all <-> In v (stencil_codes d8_ds ++ d8_pv ++ [d8_mv]).
Proof. exact CodecSpec.d8_all_complete. Qed.
Print Assumptions d8_all_complete.
Theorem ldd_all_complete : forall v, In v ldd_all <-> In v (stencil_codes ldd_ds ++ ldd_pv ++ [ldd_mv]).
Proof. exact CodecSpec.ldd_all_complete. Qed.
Print Assumptions ldd_all_complete.

(* every cell decodes to: nodata (= size) iff its code is the nodata code; itself iff pit code /
   target off the raster / target nodata; else the linear index of (row+dr, col+dc), a non-nodata cell.
   For every shape (nrow, ncol >= 0, including 1xN, Nx1) and every assignment of values. *)
Theorem d8_decode_spec : forall nrow ncol flw idx0, (idx0 < nrow * ncol)%nat ->
  cell_spec d8_drdc d8_mv nrow ncol flw idx0 (nth idx0 (d8_from_array nrow ncol flw) (nrow * ncol)%nat).
Proof. exact (decode_spec d8_drdc d8_mv). Qed.
Print Assumptions d8_decode_spec.
Theorem ldd_decode_spec : forall nrow ncol flw idx0, (idx0 < nrow * ncol)%nat ->
  cell_spec ldd_drdc ldd_mv nrow ncol flw idx0 (nth idx0 (ldd_from_array nrow ncol flw) (nrow * ncol)%nat).
Proof. exact (decode_spec ldd_drdc ldd_mv). Qed.
Print Assumptions ldd_decode_spec.
Theorem nextxy_decode_spec : forall nrow ncol nextx nexty idx0, (idx0 < nrow * ncol)%nat ->
  xy_cell_spec nrow ncol nextx nexty idx0 (nth idx0 (nextxy_from_array nrow ncol nextx nexty) (nrow * ncol)%nat).
Proof. exact xy_decode_spec. Qed.
Print Assumptions nextxy_decode_spec.

(* the decoded graph is closed: the downstream cell of a cell of the graph is a cell of the graph *)
Theorem d8_decode_wf : forall nrow ncol flw, wf (d8_from_array nrow ncol flw).
Proof. exact (decode_wf d8_drdc d8_mv). Qed.
Print Assumptions d8_decode_wf.
Theorem ldd_decode_wf : forall nrow ncol flw, wf (ldd_from_array nrow ncol flw).
Proof. exact (decode_wf ldd_drdc ldd_mv). Qed.
Print Assumptions ldd_decode_wf.
Theorem nextxy_decode_wf : forall nrow ncol nextx nexty, wf (nextxy_from_array nrow ncol nextx nexty).
Proof. exact xy_decode_wf. Qed.
Print Assumptions nextxy_decode_wf.

(* reported pits = exactly the self-draining cells, in ascending order *)
Theorem pits_exact : forall ds p, In p (pits_of ds) <-> (p < length ds)%nat /\ nth p ds (length ds) = p.
Proof. exact pits_of_spec. Qed.
Print Assumptions pits_exact.
Theorem pits_sorted : forall ds, StronglySorted lt (pits_of ds).
Proof. exact pits_of_sorted. Qed.
Print Assumptions pits_sorted.

(* masked-out cells carry the nodata code before decoding (hence are excluded, and links
   into them become pits, by the decode theorems) *)
Theorem mask_excluded : forall mv mask flw i, length mask = length flw -> (i < length flw)%nat ->
  nth i (apply_mask mv mask flw) mv = if nth i mask 0 =? 0 then mv else nth i flw mv.
Proof. exact apply_mask_nth. Qed.
Print Assumptions mask_excluded.

Theorem infer_sound : forall tag a b,
  match infer_ftype tag a b with
  | 0 => d8_isvalid tag a = true
  | 1 => d8_isvalid tag a = false /\ ldd_isvalid tag a = true
  | 2 => d8_isvalid tag a = false /\ ldd_isvalid tag a = false /\ nextxy_isvalid tag a b = true
  | _ => d8_isvalid tag a = false /\ ldd_isvalid tag a = false /\ nextxy_isvalid tag a b = false
  end.
Proof. exact CodecSpec.infer_sound. Qed.
Print Assumptions infer_sound.

(* non-vacuity: a concrete 2x2 raster  [[E, S], [nodata, pit]]  decodes to 0->1->3, 2 nodata, 3 pit *)
Example d8_example : d8_from_array 2 2 [1; 4; 247; 0] = [1; 3; 4; 3]%nat.
Proof. vm_compute. reflexivity. Qed.

(* core.pit_indices regenerated from the source IS the model's pit list *)
From PF Require Import GenPitIndicesEq.
From PFG Require Import GenLoops.
Theorem gen_pit_indices_eq : forall ds, gen_pit_indices ds = pits_of ds.
Proof. exact GenPitIndicesEq.gen_pit_indices_eq. Qed.
Print Assumptions gen_pit_indices_eq.

(* the decoders regenerated from the source (generated/GenCodec.v, tools/gen_codec.py) ARE the models: network, pits, size *)
From PF Require Import GenCodecFromEq GenCodecXYEq.
From PFG Require Import GenCodec.
Theorem gen_d8_from_array_eq : forall nrow ncol flw, length flw = (nrow * ncol)%nat ->
  gen_d8_from_array (Z.of_nat nrow, Z.of_nat ncol) flw =
  (d8_from_array nrow ncol flw, pits_of (d8_from_array nrow ncol flw), Z.of_nat (nvalid_of (d8_from_array nrow ncol flw))).
Proof. exact GenCodecFromEq.gen_d8_from_array_eq. Qed.
Print Assumptions gen_d8_from_array_eq.
Theorem gen_ldd_from_array_eq : forall nrow ncol flw, length flw = (nrow * ncol)%nat ->
  gen_ldd_from_array (Z.of_nat nrow, Z.of_nat ncol) flw =
  (ldd_from_array nrow ncol flw, pits_of (ldd_from_array nrow ncol flw), Z.of_nat (nvalid_of (ldd_from_array nrow ncol flw))).
Proof. exact GenCodecFromEq.gen_ldd_from_array_eq. Qed.
Print Assumptions gen_ldd_from_array_eq.
Theorem gen_nextxy_from_array_eq : forall nrow ncol nextx nexty,
  length nextx = (nrow * ncol)%nat -> length nexty = (nrow * ncol)%nat ->
  gen_nextxy_from_array (Z.of_nat nrow, Z.of_nat ncol) (nextx, nexty) =
  (nextxy_from_array nrow ncol nextx nexty, pits_of (nextxy_from_array nrow ncol nextx nexty),
   Z.of_nat (nvalid_of (nextxy_from_array nrow ncol nextx nexty))).
Proof. exact GenCodecXYEq.gen_nextxy_from_array_eq. Qed.
Print Assumptions gen_nextxy_from_array_eq.
