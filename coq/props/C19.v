(* C19 -- Stream vectorisation covers every link exactly once, split at confluences. *)
From Coq Require Import List Arith ZArith QArith Bool.
Import ListNotations.
From Coq Require Import Permutation.
From PF Require Import Arr Net Rank Stream Vect VectSpec VectOnce.
Local Open Scope Z_scope.

(* cutting a stream into pieces (for every length and every max_len): the pieces' links, in order, are
   exactly the stream's links -- none lost, duplicated or reordered; consecutive pieces share a vertex *)
Theorem split_chain : forall idxs max_len, concat (map pairs (cut idxs max_len)) = pairs idxs.
Proof. exact VectSpec.split_chain. Qed.
Print Assumptions split_chain.
Theorem pieces_def : forall n k l, pieces n (S (S k)) l = firstn (S n) l :: pieces n (S k) (skipn n l).
Proof. reflexivity. Qed.
Print Assumptions pieces_def.

(* one stream: its vertices after the first cell are ds(c), ds^2(c), ...: consecutive vertices are
   linked cells; no cell before the last vertex is a pit and no interior vertex is a confluence; the
   stream ends at the first confluence or pit *)
Theorem swalk_spec : forall ds nup fuel cur, let '(dn, vs, pit) := swalk ds nup fuel cur in
  (forall m, (m < length vs)%nat -> nth m vs 0%nat = iter ds (S m) cur) /\
  (forall m, (m < length vs)%nat -> dsf ds (iter ds m cur) <> iter ds m cur) /\
  (forall m, (S m < length vs)%nat -> nth (iter ds (S m) cur) nup 0 <= 1) /\
  (pit = true -> dsf ds (iter ds (length vs) cur) = iter ds (length vs) cur) /\
  (pit = false -> (length vs <= fuel)%nat -> nth (iter ds (length vs) cur) nup 0 > 1) /\
  (pit = false -> vs <> []) /\
  dn = (if pit then vs else removelast vs).
Proof. exact VectSpec.swalk_spec. Qed.
Print Assumptions swalk_spec.

(* THE GLOBAL STATEMENT.  links F = all consecutive vertex pairs of all features, in order.  For every network, every
   topological order, every downstream-closed stream mask and EVERY max_len: the features' links are a permutation of
   { (c, ds c) : c an ordered cell of the mask } -- every link of the masked network lies in exactly one feature, no
   feature contains anything else, and every masked pit p contributes its zero-length link (p, p) exactly once. *)
Theorem links_once : forall ds sq mask max_len, topo ds sq ->
  (forall i, valid ds i -> mget mask i = true -> mget mask (dsf ds i) = true) ->
  Permutation (links (streams ds sq mask max_len)) (map (link ds) (filter (mget mask) (rev sq))).
Proof. exact VectOnce.links_once. Qed.
Print Assumptions links_once.

(* THE LENGTH OF CUT PIECES: with a positive maximum length every feature has at most 1.5 * max_len + 1.5 vertices
   (Python's round() is within one half of its argument: k = round(l / max_len) pieces of n = round(l / k) links; when
   k > max_len the pieces have exactly max_len links and the remainder is at most max_len / 2) *)
Theorem cut_piece_bound : forall idxs m p, 0 < m -> In p (cut idxs m) -> 2 * Z.of_nat (length p) <= 3 * m + 3.
Proof. exact VectSpec.cut_piece_bound. Qed.
Print Assumptions cut_piece_bound.

Theorem streams_piece_bound : forall ds sq mask m p, 0 < m -> In p (streams ds sq mask m) ->
  2 * Z.of_nat (length p) <= 3 * m + 3.
Proof. exact VectSpec.streams_piece_bound. Qed.
Print Assumptions streams_piece_bound.

(* PER-CELL VECTORISATION: one two-vertex feature [cell; its downstream cell] per cell of the network inside the mask, in cell
   order, and nothing else.  FEATURE PROPERTIES: first vertex, last vertex, and the pit flag (last two vertices equal) of
   every path with at least two vertices. *)
Theorem flwdir_tuples_spec : forall nxt mask, flwdir_tuples nxt mask =
  map (fun i => [i; nth i nxt (length nxt)])
      (filter (fun i => (nth i nxt (length nxt) <? length nxt)%nat && mget mask i) (seq 0 (length nxt))).
Proof. exact VectSpec.flwdir_tuples_spec. Qed.
Print Assumptions flwdir_tuples_spec.

Theorem feature_props_spec : forall paths, feature_props paths =
  map (fun p => (hd 0%nat p, last p (hd 0%nat p), (last p (hd 0%nat p) =? last (removelast p) (hd 0%nat p))%nat))
      (filter (fun p => (2 <=? length p)%nat) paths).
Proof. exact VectSpec.feature_props_spec. Qed.
Print Assumptions feature_props_spec.

(* non-vacuity: a Y network 1 -> 0 <- 2, 3 -> 1 ; streams [3;1;0], [2;0], the single-vertex [0] (dropped by features), [0;0]; cutting 5 vertices at max_len 2 *)
Example streams_example : streams [0;0;0;1]%nat [0;1;2;3]%nat None 0 = [[3;1;0]; [2;0]; [0]; [0;0]]%nat
  /\ cut [1;2;3;4;5]%nat 2 = [[1;2;3]; [3;4;5]]%nat.
Proof. vm_compute. auto. Qed.

(* core.flwdir_tuples (behind FlwdirRaster.vectorize) regenerated from the source IS the model *)
From PF Require Import GenFlwdirTuplesEq.
From PFG Require Import GenLoops.
Theorem gen_flwdir_tuples_eq : forall ds mask, gen_flwdir_tuples ds mask = flwdir_tuples ds mask.
Proof. exact GenFlwdirTuplesEq.gen_flwdir_tuples_eq. Qed.
Print Assumptions gen_flwdir_tuples_eq.

(* streams.streams regenerated from the source (generated/GenSeg.v, tools/gen_seg.py; `round` is the model's py_round) IS the model;
   Some _ also says that on a loop-free network the walk of the source ends through its own exit test *)
From PF Require Import GenSegStreamsEq.
From PFG Require Import GenSeg.
Theorem gen_streams_eq : forall ds sq mask max_len, wf ds -> topo ds sq ->
  gen_streams ds sq mask max_len = Some (streams ds sq mask max_len).
Proof. exact GenSegStreamsEq.gen_streams_eq. Qed.
Print Assumptions gen_streams_eq.

(* subgrid.segment_indices (behind FlwdirRaster.streams(idxs_out=...)) regenerated from the source IS the model below: the walk
   from every outlet pixel to the next one, DIVIDED with the same `cut` as streams.streams (repaired: it used to stop after
   max_len cells and drop the remaining links); dividing loses and duplicates no link: for every max_len the links of all
   pieces, in order, are those of the undivided segments *)
From PF Require Import GenSegIndicesEq SegIndicesSpec.
Theorem gen_segment_indices_partial : forall nxt outs mask max_len r,
  gen_segment_indices outs nxt mask max_len = Some r -> r = segment_indices_model nxt outs mask max_len.
Proof. exact GenSegIndicesEq.gen_segment_indices_partial. Qed.
Print Assumptions gen_segment_indices_partial.
Theorem gen_segment_indices_topo : forall nxt outs mask max_len sq, topo nxt sq -> complete nxt sq ->
  gen_segment_indices outs nxt mask max_len = Some (segment_indices_model nxt outs mask max_len).
Proof. exact GenSegIndicesEq.gen_segment_indices_topo. Qed.
Print Assumptions gen_segment_indices_topo.
Theorem segment_indices_links_maxlen : forall nxt outs mask max_len,
  links (segment_indices_model nxt outs mask max_len) = links (segment_indices_model nxt outs mask 0).
Proof. exact SegIndicesSpec.segment_indices_links_maxlen. Qed.
Print Assumptions segment_indices_links_maxlen.
