(* C05 -- Basin delineation partitions cells by the outlet they drain to. *)
From Coq Require Import List Arith ZArith Bool Sorted.
Import ListNotations.
From PF Require Import Arr Net SweepDown Fill FillSpec.
From PF Require Import GenLoopsEq.
From PFG Require Import GenLoops.
Open Scope Z_scope.

(* for every network, every topological order sq of it, every outlet list and id vector:
   label(i) = seeded id of the first outlet cell met walking downstream from i (including i),
   0 when the walk ends in a pit without meeting one; cells outside the order keep their seed *)
Theorem basins_spec : forall ds outs ids sq, topo ds sq ->
  let S := seed (length ds) outs ids in
  let B := basins ds outs sq ids in
  length B = length ds /\
  (forall i, In i sq -> first_on_path ds 0 S i (nth i B 0)) /\
  (forall i, ~ In i sq -> nth i B 0 = nth i S 0).
Proof. exact FillSpec.basins_spec. Qed.
Print Assumptions basins_spec.

(* what the seeds are: nothing outside the outlet list; the listed id at an outlet listed once *)
Theorem seed_notin : forall n outs ids j, ~ In j outs -> nth j (seed n outs ids) 0 = 0.
Proof. exact FillSpec.seed_notin. Qed.
Print Assumptions seed_notin.
Theorem seed_in : forall n outs ids k, NoDup outs -> length ids = length outs -> (k < length outs)%nat ->
  (nth k outs 0%nat < n)%nat -> nth (nth k outs 0%nat) (seed n outs ids) 0 = nth k ids 0.
Proof. exact FillSpec.seed_in. Qed.
Print Assumptions seed_in.

(* default outlets = all pits: every ordered cell carries the id of the pit where its walk ends *)
Theorem basins_default_pits : forall ds outs ids sq, topo ds sq ->
  (forall p, In p outs <-> (p < size ds)%nat /\ dsf ds p = p) -> NoDup outs ->
  length ids = length outs -> (forall v, In v ids -> v <> 0) ->
  forall i, In i sq ->
  exists k idx, (idx < length outs)%nat /\ iter ds k i = nth idx outs 0%nat /\ dsf ds (iter ds k i) = iter ds k i /\
    (forall m, (m < k)%nat -> dsf ds (iter ds m i) <> iter ds m i) /\
    nth i (basins ds outs sq ids) 0 = nth idx ids 0 /\ nth idx ids 0 <> 0.
Proof. exact FillSpec.basins_default_pits. Qed.
Print Assumptions basins_default_pits.

(* (sub)basins are closed under "upstream of" *)
Theorem basins_upstream_closed : forall ds outs ids sq, topo ds sq -> forall i,
  In i sq -> nth i (seed (length ds) outs ids) 0 = 0 -> dsf ds i <> i -> In (dsf ds i) sq ->
  nth i (basins ds outs sq ids) 0 = nth (dsf ds i) (basins ds outs sq ids) 0.
Proof. exact FillSpec.basins_upstream_closed. Qed.
Print Assumptions basins_upstream_closed.

(* user ids are carried through unchanged *)
Theorem basins_ids_passthrough : forall ds outs ids sq, topo ds sq -> forall i, In i sq ->
  nth i (basins ds outs sq ids) 0 = 0 \/ In (nth i (basins ds outs sq ids) 0) ids.
Proof. exact FillSpec.basins_ids_passthrough. Qed.
Print Assumptions basins_ids_passthrough.

(* the outlet query: exactly the labelled cells whose downstream cell lies outside the region or is itself *)
Theorem region_outlets_spec : forall ds regions sq lb idx,
  In (lb, idx) (region_outlets ds regions sq) <->
  In idx sq /\ nth idx regions 0 = lb /\ lb > 0 /\ (dsf ds idx = idx \/ nth (dsf ds idx) regions 0 <> lb).
Proof. exact FillSpec.region_outlets_spec. Qed.
Print Assumptions region_outlets_spec.
Theorem region_outlets_sorted : forall ds regions sq, StronglySorted le_lb (region_outlets ds regions sq).
Proof. exact FillSpec.region_outlets_sorted. Qed.
Print Assumptions region_outlets_sorted.

(* on a basin map (distinct outlets, distinct positive ids): exactly one outlet per basin, the outlet cell *)
Theorem basin_outlets_roundtrip : forall ds outs ids sq, topo ds sq -> NoDup outs -> NoDup ids ->
  length ids = length outs -> (forall v, In v ids -> v > 0) -> (forall p, In p outs -> In p sq) ->
  forall lb idx, In (lb, idx) (region_outlets ds (basins ds outs sq ids) sq) <->
    exists k, (k < length outs)%nat /\ idx = nth k outs 0%nat /\ lb = nth k ids 0.
Proof. exact FillSpec.basin_outlets_roundtrip. Qed.
Print Assumptions basin_outlets_roundtrip.

(* non-vacuity: 0 <- 1 <- 2, 3 <- 4 with outlets {0, 3}: the hypotheses are satisfiable *)
Example basins_example :
  topo [0;0;1;3;3]%nat [0;3;1;4;2]%nat /\ basins [0;0;1;3;3]%nat [0;3]%nat [0;3;1;4;2]%nat [7;9] = [7;7;7;9;9].
Proof. split; [apply check_topo_sound; vm_compute; reflexivity|vm_compute; reflexivity]. Qed.

(* TIE BY TRANSLATION: core.fillnodata_upstream (the kernel behind basins) regenerated from the source IS the model *)
Theorem gen_fillnodata_upstream_eq : forall ds sq data nodata, length data = length ds -> (forall i, In i sq -> valid ds i) ->
  gen_fillnodata_upstream ds sq data nodata = fillnodata_upstream ds sq data nodata.
Proof. exact GenLoopsEq.gen_fillnodata_upstream_eq. Qed.
Print Assumptions gen_fillnodata_upstream_eq.
