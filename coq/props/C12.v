(* C12 -- Results never depend on the history of earlier calls on the same object.
   The object layer is modelled as a state machine over memo slots; kernels are abstract (a value is
   the tag of what it was computed from), so the theorem holds for whatever the kernels compute. *)
From Coq Require Import List Arith Bool.
Import ListNotations.
From PF Require Import Obj ObjSpec.

Theorem Inv_init : forall r c a, Inv (init r c a).
Proof. exact ObjSpec.Inv_init. Qed.
Print Assumptions Inv_init.

(* one step from any state satisfying the invariant: invariant preserved, returned value fresh *)
Theorem step_correct : forall s o, Inv s -> let r := step s o in Inv (fst r) /\ fresh s (op_args o) (snd r).
Proof. exact ObjSpec.step_correct. Qed.
Print Assumptions step_correct.

(* every finite sequence of public queries and mutators (raster and vector objects, cache on and off,
   dump/load in between): each returned value depends only on the network and transform current at that
   moment and on the call's own arguments *)
Theorem history_independent : forall ops s, Inv s ->
  Forall2 (fun (pre : state) (r : state * tag * op) => fresh pre (op_args (snd r)) (snd (fst r)))
          (map fst (combine (s :: map fst (run s ops)) ops))
          (combine (run s ops) ops).
Proof. exact ObjSpec.history_independent. Qed.
Print Assumptions history_independent.
Theorem reachable_inv : forall ops s, Inv s -> Forall (fun r => Inv (fst r)) (run s ops).
Proof. exact ObjSpec.reachable_inv. Qed.
Print Assumptions reachable_inv.

(* mutators take effect: after add_pits / repair_loops with loops / set_transform the version moves on, so
   by the invariant nothing memoised for the old state can be returned afterwards *)
Theorem mutators_take_effect : forall s,
  ver (fst (step s MAddPits)) = S (ver s) /\ ver (fst (step s (MRepair true))) = S (ver s) /\
  tver (fst (step s MSetTransform)) = S (tver s).
Proof. intros s. simpl. destruct (get_pit s) as [s1 t] eqn:E. simpl.
  unfold get_pit in E. destruct (s_pit s); inversion E; subst; simpl; auto. Qed.
Print Assumptions mutators_take_effect.

(* non-vacuity: a history mixing the four repaired patterns *)
Example history_example :
  let ops := [QStrahler 3; QStrahler 0; QMainUp 5; QMain; QRank; MAddPits; QRank; QNnodes; QArea; MSetTransform; QArea; MDumpLoad; QUparea true] in
  forallb (fun r => match r with (s, _) => true end) (run (init true true false) ops) = true /\ Inv (init true true false).
Proof. split; [reflexivity|apply ObjSpec.Inv_init]. Qed.
