(* C18 -- Sub-basin maps are upstream-closed partitions consistent with their outlets. *)
From Coq Require Import List Arith ZArith Bool.
Import ListNotations.
From PF Require Import Arr Net SweepDown Fill FillSpec Rank Stream Subbas SubbasSpec.
Local Open Scope Z_scope.

(* generic: if the seed map carries k+1 exactly at the k-th returned outlet, the filled map satisfies
   the closure statement of the property *)
Theorem outlet_own_label : forall ds sq sb idxs, topo ds sq -> seeded (length ds) sb idxs ->
  (forall x, In x idxs -> In x sq) -> forall k, (k < length idxs)%nat ->
  nth (nth k idxs 0%nat) (fillnodata_upstream ds sq sb 0) 0 = Z.of_nat k + 1.
Proof. exact SubbasSpec.outlet_own_label. Qed.
Print Assumptions outlet_own_label.
Theorem label_first_outlet : forall ds sq sb idxs, topo ds sq -> seeded (length ds) sb idxs ->
  forall i, In i sq ->
  let L := fillnodata_upstream ds sq sb 0 in
  exists m, (forall j, (j < m)%nat -> ~ In (iter ds j i) idxs /\ dsf ds (iter ds j i) <> iter ds j i) /\
    ((exists k, (k < length idxs)%nat /\ iter ds m i = nth k idxs 0%nat /\ nth i L 0 = Z.of_nat k + 1) \/
     (~ In (iter ds m i) idxs /\ dsf ds (iter ds m i) = iter ds m i /\ nth i L 0 = 0)).
Proof. exact SubbasSpec.label_first_outlet. Qed.
Print Assumptions label_first_outlet.

(* the stream-order and the minimum-area method produce seeds of that form *)
Theorem streamorder_seeded : forall ds sq strord mask min_sto, topo ds sq ->
  let ms := if min_sto <? 0 then fold_right Z.max 0 strord + min_sto else min_sto in
  let st := fold_left (sto_step ds strord mask ms) (rev sq) (repeat 0 (length ds), []) in
  seeded (length ds) (fst st) (snd st) /\ (forall x, In x (snd st) -> In x sq) /\
  subbasins_streamorder ds sq strord mask min_sto = (fillnodata_upstream ds sq (fst st) 0, snd st).
Proof. exact SubbasSpec.streamorder_seeded. Qed.
Print Assumptions streamorder_seeded.
Theorem area_seeded : forall ds sq main uparea amin, topo ds sq ->
  let st := fold_left (area_step ds main uparea amin) sq (uparea, repeat 0 (length ds), []) in
  seeded (length ds) (snd (fst st)) (snd st) /\ (forall x, In x (snd st) -> In x sq) /\
  subbasins_area ds sq main uparea amin = (fillnodata_upstream ds sq (snd (fst st)) 0, snd st).
Proof. exact SubbasSpec.area_seeded. Qed.
Print Assumptions area_seeded.

(* stream-order sub-basins start where the order changes downstream, or at a pit, at cells where the optional mask holds
   (mget mask x = true: no mask, or the mask holds at x) *)
Theorem sto_outlet_condition : forall ds strord mask ms l sb idxs x,
  In x (snd (fold_left (sto_step ds strord mask ms) l (sb, idxs))) -> In x idxs \/
  (In x l /\ mget mask x = true /\ ms <= nth x strord 0 /\ (nth x strord 0 <> nth (dsf ds x) strord 0 \/ dsf ds x = x)).
Proof. exact SubbasSpec.sto_outlet_condition. Qed.
Print Assumptions sto_outlet_condition.
(* mask: consider only True cells -- every outlet returned under a mask is a cell where the mask holds *)
Theorem streamorder_outlets_masked : forall ds sq strord m min_sto x,
  In x (snd (subbasins_streamorder ds sq strord (Some m) min_sto)) -> nth x m false = true.
Proof. exact SubbasSpec.streamorder_outlets_masked. Qed.
Print Assumptions streamorder_outlets_masked.

(* minimum-area sub-basins that do not end at a pit drain more than the area threshold *)
Theorem area_outlet_condition : forall ds main uparea amin l upa sb idxs x,
  In x (snd (fold_left (area_step ds main uparea amin) l (upa, sb, idxs))) -> In x idxs \/
  (In x l /\ (dsf ds x = x \/ amin < nth x uparea 0)).
Proof. exact SubbasSpec.area_outlet_condition. Qed.
Print Assumptions area_outlet_condition.

(* AREA SUB-BASINS ARE LARGER THAN THE THRESHOLD: the OWN area of a sub-basin (upstream area at its outlet minus the upstream
   areas of the sub-basins draining into it) exceeds area_min for every returned outlet that is not a pit -- for upstream
   areas that accumulate positive cell weights and for LEVEL orders (the downstream cell of a cell lies one level lower and
   the order is sorted by level), which is what the library's own orders are (proved below for the rank sort).  The
   hypothesis is necessary: area_own_bound_needs_level_order exhibits a 9-cell network and a topological order that is not
   a level order on which a sub-basin keeps exactly area_min (the kernel reads the downstream cell's remaining area, which a
   later tributary of a cell further down still overwrites). *)
From PF Require Import AreaOwnDefs AreaOwn AreaOwnEx.
Theorem area_own_bound : forall ds sq main uparea amin,
  topo ds sq -> upstream_closed ds sq -> level_order ds sq -> length uparea = length ds -> accumulates ds sq uparea ->
  main = main_upstream ds uparea 0 ->
  let r := subbasins_area ds sq main uparea amin in
  forall x, In x (snd r) -> dsf ds x <> x -> amin < own_area ds (fst r) uparea x.
Proof. exact AreaOwn.area_own_bound. Qed.
Print Assumptions area_own_bound.
Theorem area_own_bound_order_sort : forall ds, wf ds -> forall uparea amin, length uparea = length ds ->
  accumulates ds (order_sort ds) uparea ->
  let r := subbasins_area ds (order_sort ds) (main_upstream ds uparea 0) uparea amin in
  forall x, In x (snd r) -> dsf ds x <> x -> amin < own_area ds (fst r) uparea x.
Proof. exact AreaOwnEx.area_own_bound_order_sort. Qed.
Print Assumptions area_own_bound_order_sort.
From PF Require Import AreaOwnWalk.
Theorem idxs_seq_level : forall ds, wf ds -> forall pits, (forall p, In p pits <-> (p < size ds)%nat /\ dsf ds p = p) -> NoDup pits ->
  level_order ds (idxs_seq ds pits).
Proof. exact AreaOwnWalk.idxs_seq_level. Qed.
Print Assumptions idxs_seq_level.
Theorem area_own_bound_idxs_seq : forall ds, wf ds -> forall pits, (forall p, In p pits <-> (p < size ds)%nat /\ dsf ds p = p) -> NoDup pits ->
  forall uparea amin, length uparea = length ds -> accumulates ds (idxs_seq ds pits) uparea ->
  let r := subbasins_area ds (idxs_seq ds pits) (main_upstream ds uparea 0) uparea amin in
  forall x, In x (snd r) -> dsf ds x <> x -> amin < own_area ds (fst r) uparea x.
Proof. exact AreaOwnWalk.area_own_bound_idxs_seq. Qed.
Print Assumptions area_own_bound_idxs_seq.
Theorem area_own_bound_needs_level_order :
  exists ds sq main uparea amin x,
    topo ds sq /\ upstream_closed ds sq /\ length uparea = length ds /\ accumulates ds sq uparea /\
    main = main_upstream ds uparea 0 /\ In x (snd (subbasins_area ds sq main uparea amin)) /\ dsf ds x <> x /\
    ~ amin < own_area ds (fst (subbasins_area ds sq main uparea amin)) uparea x.
Proof. exact AreaOwnEx.area_own_bound_needs_level_order. Qed.
Print Assumptions area_own_bound_needs_level_order.

(* PFAFSTETTER DIGITS: every label of the Pfafstetter map, at every depth >= 1, is 0 (no outlet downstream) or a number
   of exactly `depth` digits each of which is 1..9 -- refining a level adds 1..8 to a digit that is still 1, so there is
   never a zero digit and never a carry into the coarser level (invariant of the work list: a queued label has digits
   1-9 and its not yet refined positions are 1) *)
From PF Require Import PfafDigits GenSubbasEq.
From PFG Require Import GenLoops.
Theorem pfaf_digits : forall ds pits sq main uparea mask depth, 1 <= depth -> forall j,
  let v := nth j (fst (subbasins_pfafstetter ds pits sq main uparea mask depth)) 0 in
  v = 0 \/ (0 < v < 10 ^ depth /\ forall p, 0 <= p < depth -> 1 <= (v / 10 ^ p) mod 10 <= 9).
Proof. exact PfafDigits.pfaf_digits. Qed.
Print Assumptions pfaf_digits.

(* PFAFSTETTER CLOSURE: every returned outlet is labelled, every ordered cell carries the label of the first returned outlet
   on its downstream path, and is unlabelled exactly when its path ends in a pit without meeting one.  For loop-free
   networks whose order lists every valid cell, pits that are pits, and upstream areas that are positive and strictly
   larger downstream (any accumulated positive cell area); any mask and depth >= 1.  The proof is an invariant of the work
   loop: labelled cells that are not outlets are the main upstream cell of a cell with the same label, the cells of one
   label form one chain, labels of queued basins own disjoint unused ranges of codes (freshness), and the second sort
   processes the tributaries of a basin from down- to upstream, which is what the interbasin relabelling needs. *)
From PF Require Import PfafClosure.
Theorem pfaf_closure : forall ds pits sq uparea mask depth,
  topo ds sq -> (forall c, valid ds c -> In c sq) -> 1 <= depth -> NoDup pits ->
  (forall p, In p pits -> In p sq /\ dsf ds p = p) ->
  (forall c, In c sq -> 0 < nth c uparea 0) ->
  (forall c, In c sq -> dsf ds c <> c -> nth c uparea 0 < nth (dsf ds c) uparea 0) ->
  let main := main_upstream ds uparea 0 in
  let r := subbasins_pfafstetter ds pits sq main uparea mask depth in
  let L := fst r in let idxs := snd r in
  (forall o, In o idxs -> In o sq /\ nth o L 0 <> 0) /\
  (forall i, In i sq -> exists m,
     (forall j, (j < m)%nat -> ~ In (iter ds j i) idxs /\ dsf ds (iter ds j i) <> iter ds j i) /\
     ((In (iter ds m i) idxs /\ nth i L 0 = nth (iter ds m i) L 0) \/
      (~ In (iter ds m i) idxs /\ dsf ds (iter ds m i) = iter ds m i /\ nth i L 0 = 0))).
Proof. exact PfafClosure.pfaf_closure. Qed.
Print Assumptions pfaf_closure.

(* ODD DIGITS INCREASE UPSTREAM ALONG THE MAIN STEM: between a labelled cell c and its main upstream cell c' the code either
   stays the same or changes at one level q: all digits above q agree, both digits at q are odd (interbasins) and the
   upstream one is strictly larger.  A returned outlet that is NOT the main upstream cell of its downstream cell (a
   tributary sub-basin) carries an EVEN digit at the level where it leaves the (odd) code of its downstream cell. *)
From PF Require Import PfafStem.
Theorem pfaf_main_stem_odd : forall ds pits sq uparea mask depth,
  topo ds sq -> (forall c, valid ds c -> In c sq) -> 1 <= depth -> NoDup pits ->
  (forall p, In p pits -> In p sq /\ dsf ds p = p) ->
  (forall c, In c sq -> 0 < nth c uparea 0) ->
  (forall c, In c sq -> dsf ds c <> c -> nth c uparea 0 < nth (dsf ds c) uparea 0) ->
  let main := main_upstream ds uparea 0 in
  let L := fst (subbasins_pfafstetter ds pits sq main uparea mask depth) in
  forall c, In c sq -> let c' := nth c main (length ds) in (c' < length ds)%nat ->
    nth c L 0 <> 0 ->
    nth c' L 0 = nth c L 0 \/
    exists q, 0 <= q < depth /\
      (forall p, q < p < depth -> digit p (nth c' L 0) = digit p (nth c L 0)) /\
      Z.odd (digit q (nth c L 0)) = true /\ Z.odd (digit q (nth c' L 0)) = true /\
      digit q (nth c L 0) < digit q (nth c' L 0).
Proof. exact PfafStem.pfaf_main_stem_odd. Qed.
Print Assumptions pfaf_main_stem_odd.
Theorem pfaf_tributary_even : forall ds pits sq uparea mask depth,
  topo ds sq -> (forall c, valid ds c -> In c sq) -> 1 <= depth -> NoDup pits ->
  (forall p, In p pits -> In p sq /\ dsf ds p = p) ->
  (forall c, In c sq -> 0 < nth c uparea 0) ->
  (forall c, In c sq -> dsf ds c <> c -> nth c uparea 0 < nth (dsf ds c) uparea 0) ->
  let main := main_upstream ds uparea 0 in
  let r := subbasins_pfafstetter ds pits sq main uparea mask depth in
  let L := fst r in let idxs := snd r in
  forall o, In o idxs -> dsf ds o <> o -> nth (dsf ds o) main (length ds) <> o ->
    exists q, 0 <= q < depth /\
      (forall p, q < p < depth -> digit p (nth o L 0) = digit p (nth (dsf ds o) L 0)) /\
      Z.odd (digit q (nth (dsf ds o) L 0)) = true /\ Z.even (digit q (nth o L 0)) = true.
Proof. exact PfafStem.pfaf_tributary_even. Qed.
Print Assumptions pfaf_tributary_even.

(* A DEEPER LEVEL REFINES THE SHALLOWER ONE: integer division by 10 of the codes at depth + 1 gives the codes at depth, for
   every ordered cell (simulation of the two runs: in lockstep with labels v |-> 10 v + 1 while the shallow run works, then
   the deep run only adds 0..8 to the last digit of labels whose filled shallow code is already fixed) *)
From PF Require Import PfafRefine.
Theorem pfaf_refines : forall ds pits sq uparea mask depth,
  topo ds sq -> (forall c, valid ds c -> In c sq) -> 1 <= depth -> NoDup pits ->
  (forall p, In p pits -> In p sq /\ dsf ds p = p) ->
  (forall c, In c sq -> 0 < nth c uparea 0) ->
  (forall c, In c sq -> dsf ds c <> c -> nth c uparea 0 < nth (dsf ds c) uparea 0) ->
  let main := main_upstream ds uparea 0 in
  let L1 := fst (subbasins_pfafstetter ds pits sq main uparea mask depth) in
  let L2 := fst (subbasins_pfafstetter ds pits sq main uparea mask (depth + 1)) in
  forall i, In i sq -> nth i L2 0 / 10 = nth i L1 0.
Proof. exact PfafRefine.pfaf_refines. Qed.
Print Assumptions pfaf_refines.

(* non-vacuity *)
Example sto_example : topo [0;0;1;1]%nat [0;1;2;3]%nat /\
  subbasins_streamorder [0;0;1;1]%nat [0;1;2;3]%nat [2;2;1;1] None 1 = ([3;3;2;1], [3;2;0]%nat) /\
  subbasins_streamorder [0;0;1;1]%nat [0;1;2;3]%nat [2;2;1;1] (Some [true;true;false;true]) 1 = ([2;2;2;1], [3;0]%nat).
Proof. split; [apply check_topo_sound; vm_compute; reflexivity|vm_compute; split; reflexivity]. Qed.

(* TIE BY TRANSLATION: basins.subbasins_area and basins.subbasins_streamorder regenerated from the source on every run
   ARE the models above (the source appends the outlet and stores len(idxs), the model stores length + 1 and appends;
   subbasins_streamorder with its optional mask, for every mask) *)
Theorem gen_subbasins_area_eq : forall ds sq main uparea amin, (forall i, In i sq -> valid ds i) ->
  gen_subbasins_area ds sq main uparea amin = subbasins_area ds sq main uparea amin.
Proof. exact GenSubbasEq.gen_subbasins_area_eq. Qed.
Print Assumptions gen_subbasins_area_eq.
Theorem gen_subbasins_streamorder_eq : forall ds sq strord mask min_sto, (forall i, In i sq -> valid ds i) ->
  gen_subbasins_streamorder ds sq strord mask min_sto = subbasins_streamorder ds sq strord mask min_sto.
Proof. exact GenSubbasEq.gen_subbasins_streamorder_eq. Qed.
Print Assumptions gen_subbasins_streamorder_eq.

(* a network with two nested confluences: Pfafstetter codes at depth 1 and 2 (the deeper level refines the shallower) *)
Example pfaf_example :
  let ds := [0;0;0;1;1;2;2;3;3]%nat in let upa := [9;5;3;3;1;1;1;1;1] in
  fst (subbasins_pfafstetter ds [0%nat] (seq 0 9) (main_upstream ds upa 0) upa None 1) = [1; 3; 2; 5; 4; 2; 2; 7; 6] /\
  fst (subbasins_pfafstetter ds [0%nat] (seq 0 9) (main_upstream ds upa 0) upa None 2) = [11; 31; 21; 51; 41; 23; 22; 71; 61].
Proof. vm_compute. split; reflexivity. Qed.

(* basins.subbasins_pfafstetter (with _tributaries) regenerated from the source (generated/GenSeg.v; np.argsort(-x) is the model's
   stable descending sort, a documented modelling decision) IS the model the Pfafstetter theorems above are about *)
From PF Require Import GenSegPfafEq.
From PFG Require Import GenSeg.
Theorem gen_subbasins_pfafstetter_eq : forall ds pits sq main uparea mask depth, topo ds sq -> complete ds sq ->
  (forall x, (nth x main (length ds) < length ds)%nat -> dsf ds (nth x main (length ds)) = x /\ nth x main (length ds) <> x) ->
  (length pits <= 2 * length ds + 8)%nat ->
  gen_subbasins_pfafstetter pits ds sq main uparea mask depth = Some (subbasins_pfafstetter ds pits sq main uparea mask depth).
Proof. exact GenSegPfafEq.gen_subbasins_pfafstetter_eq. Qed.
Print Assumptions gen_subbasins_pfafstetter_eq.
