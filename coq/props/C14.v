(* C14 -- Along-network operators equal their flow-path definitions. *)
From Coq Require Import List Arith ZArith Bool.
Import ListNotations.
From PF Require Import Arr Net SweepDown SweepUp Rank Fill FillSpec Stream Ops OpsSpec.
From PF Require Import GenLoopsEq GenOpsEq GenFloodplainsEq.
From PFG Require Import GenLoops.
Local Open Scope Z_scope.

Theorem downstream_spec : forall ds data i, (i < length ds)%nat ->
  nth i (downstream ds data) 0 = if validb ds i then nth (dsf ds i) data 0 else nth i data 0.
Proof. exact OpsSpec.downstream_spec. Qed.
Print Assumptions downstream_spec.

Theorem upstream_sum_spec : forall ds data nodata, (forall i, nth i data 0 <> nodata) ->
  forall j, (j < size ds)%nat ->
  nth j (upstream_sum ds data nodata) 0 = zsum (map (fun c => nth c data 0) (ups ds j)).
Proof. exact OpsSpec.upstream_sum_spec. Qed.
Print Assumptions upstream_sum_spec.
(* ... and that hypothesis cannot be dropped, not even for cells the missing value has nothing to do with: REFUTED on the chain
   2 -> 1 -> 0 (pit) with the pit's value missing (known finding F14: the kernel writes nodata into the upstream cell of a pair
   with a missing value and later adds to it; the model is the kernel statement by statement, gen_upstream_sum_eq) *)
From PF Require Import UpSumRefuted.
Theorem upstream_sum_nodata_refuted : exists (ds : list nat) (data : list Z) (nodata : Z) (j : nat),
  (j < size ds)%nat /\ nth j data 0 <> nodata /\ (forall c, In c (ups ds j) -> nth c data 0 <> nodata) /\
  nth j (upstream_sum ds data nodata) 0 <> zsum (map (fun c => nth c data 0) (ups ds j)).
Proof. exact UpSumRefuted.upstream_sum_nodata_refuted. Qed.
Print Assumptions upstream_sum_nodata_refuted.

(* direction 'up': the value of the nearest valid cell downstream (first_on_path; shared with C05) *)
Theorem fill_up_spec : forall ds nodata data sq, length data = size ds -> topo ds sq ->
  let out := fillnodata_upstream ds sq data nodata in
  length out = length data /\
  (forall i, In i sq -> first_on_path ds nodata data i (nth i out nodata)) /\
  (forall i, ~ In i sq -> nth i out nodata = nth i data nodata).
Proof. exact FillSpec.fill_up_spec. Qed.
Print Assumptions fill_up_spec.

(* direction 'down'.  Every cell carries (value, holds-a-value) -- fill_pairs; the result is the value component.
   A cell holding a value keeps it; an empty cell gets the merge of the values of exactly those direct upstream cells
   that end up holding a value (in closed form: their min / max / sum), and stays empty iff none does.  Whether a
   merged value happens to equal the nodata value plays no role (repaired defect). *)
Theorem fill_down_pairs : forall ds sq data nodata how, topo ds sq -> length data = size ds ->
  forall j, (j < size ds)%nat ->
  let prs := fill_pairs ds sq data nodata how in
  nth j prs (0, false) =
    if nth j data 0 =? nodata
    then merge_fold how (map (fun c => nth c prs (0, false)) (kids ds (rev sq) j)) (nodata, false)
    else (nth j data 0, true).
Proof. exact OpsSpec.fill_down_pairs. Qed.
Print Assumptions fill_down_pairs.

Theorem merge_fold_closed : forall how vals x, merge_fold how vals (x, false) =
  match filter snd vals with
  | [] => (x, false)
  | v :: vs => (fold_left (fun a w => merge how (fst w) a) vs (fst v), true)
  end.
Proof. exact OpsSpec.merge_fold_closed. Qed.
Print Assumptions merge_fold_closed.

Theorem fill_down_spec : forall ds sq data nodata how, topo ds sq -> length data = size ds ->
  forall j, (j < size ds)%nat ->
  nth j (fillnodata_downstream ds sq data nodata how) 0 =
  if nth j data 0 =? nodata
  then fst (merge_fold how (map (fun c => nth c (fill_pairs ds sq data nodata how) (0, false)) (kids ds (rev sq) j)) (nodata, false))
  else nth j data 0.
Proof. exact OpsSpec.fill_down_spec. Qed.
Print Assumptions fill_down_spec.

(* the window: n cells down (cut at pit / nodata / higher stream order) and n cells up the main stem *)
Theorem window_down_spec : forall ds strord so0 k cur,
  let w := window_down ds strord so0 k cur in
  (length w <= k)%nat /\
  (forall m, (m < length w)%nat -> nth m w 0%nat = iter ds (S m) cur /\ stop_down ds strord so0 (iter ds m cur) = false) /\
  ((length w < k)%nat -> stop_down ds strord so0 (iter ds (length w) cur) = true).
Proof. exact OpsSpec.window_down_spec. Qed.
Print Assumptions window_down_spec.
Theorem window_up_spec : forall ds main k cur,
  let n := size ds in
  let w := window_up n main k cur in
  (length w <= k)%nat /\
  (forall m, (m < length w)%nat -> (nth m w 0 < n)%nat /\
     nth m w 0%nat = nth (match m with O => cur | S m' => nth m' w 0%nat end) main n) /\
  ((length w < k)%nat -> (n <= nth (match length w with O => cur | S m' => nth m' w 0%nat end) main n)%nat).
Proof. exact OpsSpec.window_up_spec. Qed.
Print Assumptions window_up_spec.

Theorem stream_distance_spec : forall ds sq, topo ds sq -> forall mask len k i, In i sq ->
  (forall m, (m < k)%nat -> stopd ds mask (iter ds m i) = false) -> stopd ds mask (iter ds k i) = true ->
  nth i (stream_distance ds sq mask len) 0 = pathlen ds len k i.
Proof. exact OpsSpec.stream_distance_spec. Qed.
Print Assumptions stream_distance_spec.

Theorem hand_spec : forall ds sq, topo ds sq -> forall drain elv k i, In i sq ->
  (forall m, (m < k)%nat -> nth (iter ds m i) drain false = false /\ dsf ds (iter ds m i) <> iter ds m i) ->
  (nth (iter ds k i) drain false = true \/ dsf ds (iter ds k i) = iter ds k i) ->
  nth i (hand ds sq drain elv) 0 = nth i elv 0 - nth (iter ds k i) elv 0.
Proof. exact OpsSpec.hand_spec. Qed.
Print Assumptions hand_spec.

Theorem floodplain_spec : forall ds sq, topo ds sq -> forall stream hmax elv i, In i sq ->
  let T := sweep_down ds (0, 0, 0) (fp_f ds stream hmax elv) sq
             (fold_left (fun a i => upd a i (0, -9999, -9999)) sq (repeat (-1, -9999, -9999) (length ds))) in
  (flag_of T i = 1 <->
   nth i stream false = true \/
   (nth i stream false = false /\ dsf ds i <> i /\ flag_of T (dsf ds i) = 1 /\
    exists s, first_stream ds stream (dsf ds i) s /\ nth i elv 0 - nth s elv 0 <= nth s hmax 0)).
Proof. exact OpsSpec.floodplain_spec. Qed.
Print Assumptions floodplain_spec.

(* non-vacuity *)
Example hand_example : topo [0;0;1]%nat [0;1;2]%nat /\ hand [0;0;1]%nat [0;1;2]%nat [true;false;false] [5;7;12] = [0;2;7].
Proof. split; [apply check_topo_sound; vm_compute; reflexivity|vm_compute; reflexivity]. Qed.

(* TIE BY TRANSLATION: the loops regenerated from core.py / arithmetics.py on every run ARE the models above *)
Theorem gen_upstream_sum_eq : forall ds data nodata, length data = length ds ->
  gen_upstream_sum ds data nodata = upstream_sum ds data nodata.
Proof. exact GenLoopsEq.gen_upstream_sum_eq. Qed.
Print Assumptions gen_upstream_sum_eq.
Theorem gen_fillnodata_upstream_eq : forall ds sq data nodata, length data = length ds -> (forall i, In i sq -> valid ds i) ->
  gen_fillnodata_upstream ds sq data nodata = fillnodata_upstream ds sq data nodata.
Proof. exact GenLoopsEq.gen_fillnodata_upstream_eq. Qed.
Print Assumptions gen_fillnodata_upstream_eq.
(* the downstream fill (two arrays in the source: values and "holds a value" flags; one array of pairs in the model; the
   option how = 'min' | 'max' | 'sum' is 0 | 1 | 2) and the height above the nearest drain *)
Theorem gen_fillnodata_downstream_eq : forall ds sq data nodata how,
  gen_fillnodata_downstream ds sq data nodata how = fillnodata_downstream ds sq data nodata how.
Proof. exact GenOpsEq.gen_fillnodata_downstream_eq. Qed.
Print Assumptions gen_fillnodata_downstream_eq.
Theorem gen_hand_eq : forall ds sq drain elv, length drain = length ds ->
  gen_height_above_nearest_drain ds sq drain elv = hand ds sq drain elv.
Proof. exact GenOpsEq.gen_hand_eq. Qed.
Print Assumptions gen_hand_eq.
(* the stream distance (its step length gis_utils.distance is an abstract function; unit 'cell' is the constant 1) *)
Theorem gen_stream_distance_eq : forall ds sq mask real steplen,
  gen_stream_distance ds sq mask real steplen = stream_distance ds sq mask (if real then steplen else fun _ _ => 1).
Proof. exact GenOpsEq.gen_stream_distance_eq. Qed.
Print Assumptions gen_stream_distance_eq.

(* dem.floodplains regenerated from the source IS the model: the two float expressions of the source, uparea[i] >= upa_min and
   uparea[i] ** b, are abstract operations (fbool Fge, fval Fpow) on an abstract type F of float values; whenever they agree
   with the input fields `stream` and `hmax` of the model on the ordered cells, the generated kernel equals it *)
Theorem gen_floodplains_eq : forall (F : Type) ds sq elv (uparea : list F) (upa_min b fdef : F) fbool fval stream hmax,
  length uparea = length ds ->
  (forall i, In i sq -> fbool Fge (nth i uparea fdef) upa_min = nth i stream false) ->
  (forall i, In i sq -> fval Fpow (nth i uparea fdef) b = nth i hmax 0) ->
  gen_floodplains F ds sq elv uparea upa_min b fdef fbool fval = floodplains ds sq stream hmax elv.
Proof. exact GenFloodplainsEq.gen_floodplains_eq. Qed.
Print Assumptions gen_floodplains_eq.

(* core._window regenerated from the source: its cells (the entries that are not the missing value) ARE the model's window *)
From PF Require Import GenCoreWindowEq.
From PFG Require Import GenCore.
Theorem gen__window_cells : forall (idx0 k : nat) (ds main : list nat) (strord : option (list Z)), (idx0 < size ds)%nat ->
  filter (fun x => Nat.ltb x (size ds)) (gen__window idx0 k ds main strord) = window ds main strord k idx0.
Proof. exact GenCoreWindowEq.gen__window_cells. Qed.
Print Assumptions gen__window_cells.
