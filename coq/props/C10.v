(* C10 -- Unit catchments partition the fine grid by nearest downstream outlet pixel. *)
From Coq Require Import List Arith ZArith Bool.
Import ListNotations.
From PF Require Import Arr Net SweepDown Fill FillSpec Ops Ucat UcatSpec Trace TraceSpec GenUcatEq.
From PFG Require Import GenLoops.
Local Open Scope Z_scope.

(* the seeds: position + 1 at an outlet pixel listed once, 0 elsewhere *)
Theorem ucat_seed_in : forall n outs k j, (k < length outs)%nat -> nth k outs n = j -> (j < n)%nat ->
  (forall k', (k' < length outs)%nat -> k' <> k -> nth k' outs n <> j) ->
  nth j (ucat_seed n outs) 0 = Z.of_nat k + 1.
Proof. exact UcatSpec.ucat_seed_in. Qed.
Print Assumptions ucat_seed_in.
Theorem ucat_seed_notin : forall n outs j, ~ In j outs -> nth j (ucat_seed n outs) 0 = 0.
Proof. exact UcatSpec.ucat_seed_notin. Qed.
Print Assumptions ucat_seed_notin.

(* the unit-catchment map: label = seed of the first outlet pixel on the downstream path, 0 if none *)
Theorem ucat_map_spec : forall ds outs sq area, topo ds sq ->
  let S0 := ucat_seed (length ds) outs in
  let M := fst (ucat_area ds outs sq area) in
  length M = length ds /\
  (forall i, In i sq -> first_on_path ds 0 S0 i (nth i M 0)) /\
  (forall i, ~ In i sq -> nth i M 0 = nth i S0 0).
Proof. exact UcatSpec.ucat_map_spec. Qed.
Print Assumptions ucat_map_spec.

(* the areas: the outlet pixel's own area plus the area of exactly the other ordered cells carrying its
   label (gain = sum over the cells of the order that were unlabelled by the seeding and end with label k+1) *)
Theorem ucat_area_spec : forall ds outs sq area, topo ds sq -> forall k, (k < length outs)%nat ->
  let n := length ds in
  let S0 := ucat_seed n outs in
  let M := fst (ucat_area ds outs sq area) in
  nth k (snd (ucat_area ds outs sq area)) 0 =
    if (nth k outs n <? n)%nat then nth (nth k outs n) area 0 + gain area sq S0 M k
    else -9999 + gain area sq S0 M k.
Proof. exact UcatSpec.ucat_area_spec. Qed.
Print Assumptions ucat_area_spec.
Theorem gain_def : forall area l m m' k,
  gain area l m m' k = zsum (map (fun c => nth c area 0)
                               (filter (fun c => (nth c m 0 =? 0) && (nth c m' 0 =? Z.of_nat k + 1)) l)).
Proof. reflexivity. Qed.
Print Assumptions gain_def.
(* a missing outlet collects nothing (its reported area stays -9999) *)
Theorem ucat_missing_empty : forall ds outs sq area, topo ds sq -> forall k, (k < length outs)%nat ->
  (length ds <= nth k outs (length ds))%nat ->
  (forall k', (k' < length outs)%nat -> (nth k' outs (length ds) < length ds)%nat -> In (nth k' outs (length ds)) sq) ->
  forall c, In c sq -> nth c (fst (ucat_area ds outs sq area)) 0 <> Z.of_nat k + 1.
Proof. exact UcatSpec.ucat_missing_empty. Qed.
Print Assumptions ucat_missing_empty.

(* per-outlet river segments: the walked cells *)
Theorem seg_spec : forall nxt isout maskok incl fuel cur,
  let p := seg nxt isout maskok incl fuel cur in
  (forall m, (m < length p)%nat -> nth m p 0%nat = orbit nxt (S m) cur /\ (nth m p 0 < length nxt)%nat /\ maskok (nth m p 0%nat) = true) /\
  (forall m, (S m < length p)%nat -> isout (nth m p 0%nat) = false) /\
  (incl = false -> forall m, (m < length p)%nat -> isout (nth m p 0%nat) = false).
Proof. exact UcatSpec.seg_spec. Qed.
Print Assumptions seg_spec.

(* non-vacuity: chain 3 -> 2 -> 1 -> 0 with outlets at 0 and 2 *)
Example ucat_example : topo [0;0;1;2]%nat [0;1;2;3]%nat /\
  ucat_area [0;0;1;2]%nat [0;2]%nat [0;1;2;3]%nat [1;1;1;1] = ([1;1;2;2], [2;2]).
Proof. split; [apply check_topo_sound; vm_compute; reflexivity|vm_compute; reflexivity]. Qed.

(* TIE BY TRANSLATION: subgrid.ucat_area (two loops: seeding at the outlet pixels, sweep over the cell order) regenerated
   from the source on every run IS the model above *)
Theorem gen_ucat_area_eq : forall outs ds sq area, gen_ucat_area outs ds sq area = ucat_area ds outs sq area.
Proof. exact GenUcatEq.gen_ucat_area_eq. Qed.
Print Assumptions gen_ucat_area_eq.

(* THE CHANNEL SLOPE (arithmetics.lstsq behind subgrid.segment_slope / fixed_length_slope): over exact rationals the fitted line
   satisfies the normal equations and MINIMISES the squared error among all lines, whenever two points have different
   abscissae (distances along a river strictly increase); the denominator of the source is the sum of the squared pairwise
   differences of the abscissae; points on a line are fitted exactly; with two points the least-squares slope is the
   two-point ('mean') slope *)
From Coq Require Import QArith.
From PF Require Import Lstsq LstsqSpec.
Local Open Scope Q_scope.
Theorem lstsq_optimal : forall pts, ~ lsq_n pts * Sxx pts - Sx pts * Sx pts == 0 ->
  forall a' b', SSE pts (fst (lstsq pts)) (snd (lstsq pts)) <= SSE pts a' b'.
Proof. exact LstsqSpec.lstsq_optimal. Qed.
Print Assumptions lstsq_optimal.
Theorem lstsq_denominator_nonzero_iff : forall pts,
  ~ lsq_n pts * Sxx pts - Sx pts * Sx pts == 0 <-> exists p q, In p pts /\ In q pts /\ ~ fst p == fst q.
Proof. exact LstsqSpec.lstsq_denominator_nonzero_iff. Qed.
Print Assumptions lstsq_denominator_nonzero_iff.
Theorem lstsq_exact_line : forall pts a b, (forall p, In p pts -> snd p == a * fst p + b) ->
  (exists p q, In p pts /\ In q pts /\ ~ fst p == fst q) -> fst (lstsq pts) == a /\ snd (lstsq pts) == b.
Proof. exact LstsqSpec.lstsq_exact_line. Qed.
Print Assumptions lstsq_exact_line.
Theorem lstsq_two_points : forall x1 y1 x2 y2, ~ x1 == x2 ->
  slope_lstsq [(x1, y1); (x2, y2)] == slope_mean [(x1, y1); (x2, y2)].
Proof. exact LstsqSpec.lstsq_two_points. Qed.
Print Assumptions lstsq_two_points.

(* subgrid.segment_length / segment_average / segment_median and subgrid.ucat_volume regenerated from the source ARE the models
   (np.average / np.nanmedian of the collected values are the model's exact weighted mean / median; None = fuel used up) *)
From PF Require Import Net Ucat GenSegWalkEq GenSegUcatEq.
From PFG Require Import GenSeg.
Local Open Scope nat_scope.
Theorem gen_segment_length_topo : forall nxt outs mask distnc nodata sq, topo nxt sq -> complete nxt sq ->
  gen_segment_length outs nxt distnc mask nodata = Some (segment_length nxt outs mask distnc nodata).
Proof. exact GenSegWalkEq.gen_segment_length_topo. Qed.
Print Assumptions gen_segment_length_topo.
Theorem gen_segment_average_topo : forall nxt outs mask data weights nodata sq, length nxt <= length weights ->
  topo nxt sq -> complete nxt sq ->
  gen_segment_average outs nxt data weights mask nodata = Some (segment_average nxt outs mask data weights nodata).
Proof. exact GenSegWalkEq.gen_segment_average_topo. Qed.
Print Assumptions gen_segment_average_topo.
Theorem gen_segment_median_topo : forall nxt outs mask data nodata sq, topo nxt sq -> complete nxt sq ->
  gen_segment_median outs nxt data mask nodata = Some (segment_median nxt outs mask data nodata).
Proof. exact GenSegWalkEq.gen_segment_median_topo. Qed.
Print Assumptions gen_segment_median_topo.
Theorem gen_ucat_volume_eq : forall outs ds sq hand area depths, length area <= length hand ->
  gen_ucat_volume outs ds sq hand area depths = ucat_volume ds outs sq hand area depths.
Proof. exact GenSegUcatEq.gen_ucat_volume_eq. Qed.
Print Assumptions gen_ucat_volume_eq.
