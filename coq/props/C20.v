(* C20 -- Nearest-source spreading returns true least-cost distances and sources. *)
From Coq Require Import List Arith ZArith Bool.
Import ListNotations.
From PF Require Import Arr Spread SpreadSpec.
Local Open Scope Z_scope.

(* soundness, for every raster, mask, non-negative friction and step lengths: observation cells keep their
   value with themselves as source and distance 0; cells outside the mask are never written; every other cell
   is either untouched (source -1, distance 0, own value) or carries the value of the observation cell reported
   as its source; distances are non-negative *)
Theorem spread_sound : forall nrow ncol obs msk nodata frc dx dy hyp,
  0 <= dx -> 0 <= dy -> 0 <= hyp -> (forall i, 0 <= match frc with None => 1 | Some fr => nth i fr 1 end) ->
  length obs = (nrow * ncol)%nat ->
  let '(out, src, dst) := spread2d nrow ncol obs msk nodata frc dx dy hyp in
  length out = (nrow * ncol)%nat /\ length src = (nrow * ncol)%nat /\ length dst = (nrow * ncol)%nat /\
  forall j, (j < nrow * ncol)%nat -> 0 <= nth j dst 0 /\
    ((nth j src 0 = -1 /\ nth j dst 0 = 0 /\ nth j out 0 = nth j obs 0 /\ negb (nth j obs nodata =? nodata) = false) \/
     (exists s, nth j src 0 = Z.of_nat s /\ (s < nrow * ncol)%nat /\ negb (nth s obs nodata =? nodata) = true /\
                nth j out 0 = nth s obs 0 /\
                (negb (nth j obs nodata =? nodata) = true -> s = j /\ nth j dst 0 = 0) /\ (mok msk j = false -> s = j))).
Proof. exact SpreadSpec.spread_sound. Qed.
Print Assumptions spread_sound.

(* smoke / non-vacuity: one observation in the corner of a 2x3 raster with 3-4-5 cells *)
Example spread_example :
  spread2d 2 3 [7;0;0; 0;0;0] None 0 None 3 4 5 = ([7;7;7;7;7;7], [0;0;0;0;0;0], [0;3;6;4;5;8]).
Proof. vm_compute. reflexivity. Qed.
