(* C20 -- Nearest-source spreading returns true least-cost distances and sources. *)
From Coq Require Import List Arith ZArith Bool.
Import ListNotations.
From PF Require Import Arr Spread SpreadSpec SpreadOpt SpreadDissolve.
Local Open Scope Z_scope.

(* soundness, for every raster, mask, non-negative friction and step lengths: observation cells keep their
   value with themselves as source and distance 0; cells outside the mask are never written; every other cell
   is either untouched (source -1, distance 0, own value) or carries the value of the observation cell reported
   as its source; distances are non-negative *)
Theorem spread_sound : forall nrow ncol obs msk nodata frc dx dy hyp,
  0 <= dx -> 0 <= dy -> 0 <= hyp -> (forall i, 0 <= match frc with None => 1 | Some fr => nth i fr 1 end) ->
  length obs = (nrow * ncol)%nat ->
  let '(out, src, dst) := spread2d nrow ncol obs msk nodata frc dx dy hyp in
  length out = (nrow * ncol)%nat /\ length src = (nrow * ncol)%nat /\ length dst = (nrow * ncol)%nat /\
  forall j, (j < nrow * ncol)%nat -> 0 <= nth j dst 0 /\
    ((nth j src 0 = -1 /\ nth j dst 0 = 0 /\ nth j out 0 = nth j obs 0 /\ negb (nth j obs nodata =? nodata) = false) \/
     (exists s, nth j src 0 = Z.of_nat s /\ (s < nrow * ncol)%nat /\ negb (nth s obs nodata =? nodata) = true /\
                nth j out 0 = nth s obs 0 /\
                (negb (nth j obs nodata =? nodata) = true -> s = j /\ nth j dst 0 = 0) /\ (mok msk j = false -> s = j))).
Proof. exact SpreadSpec.spread_sound. Qed.
Print Assumptions spread_sound.

(* OPTIMALITY.  `apath s j D` (SpreadOpt.v): there is a path from the observation cell s (inside the mask) to j through
   cells inside the mask by 8-neighbour steps inside the raster whose accumulated cost -- step length (dx, dy or the
   diagonal) times the friction of the cell stepped FROM -- is D.  For every raster, mask, non-negative friction and
   step lengths:
   (upper)    every cell on such a path is reached (source <> -1) and its reported distance is <= D: no path beats it;
   (attained) the reported distance of a reached cell inside the mask IS the cost of a path from the reported source.
   Together: distance = minimum over paths of the accumulated step cost, attained from the reported source, whose value
   the cell carries (spread_sound).  The queue is proved to run empty within the model's 10 n + 10 pops (every cell is
   expanded at most once; ghost list of expanded cells). *)
Theorem spread_upper : forall nrow ncol obs msk nodata frc dx dy hyp,
  0 <= dx -> 0 <= dy -> 0 <= hyp -> (forall i, 0 <= match frc with None => 1 | Some fr => nth i fr 1 end) ->
  length obs = (nrow * ncol)%nat ->
  let '(out, src, dst) := spread2d nrow ncol obs msk nodata frc dx dy hyp in
  forall s j D, apath nrow ncol obs msk nodata frc dx dy hyp s j D -> nth j src 0 <> -1 /\ nth j dst 0 <= D.
Proof. exact SpreadOpt.spread_upper. Qed.
Print Assumptions spread_upper.

Theorem spread_attained : forall nrow ncol obs msk nodata frc dx dy hyp,
  0 <= dx -> 0 <= dy -> 0 <= hyp -> (forall i, 0 <= match frc with None => 1 | Some fr => nth i fr 1 end) ->
  length obs = (nrow * ncol)%nat ->
  let '(out, src, dst) := spread2d nrow ncol obs msk nodata frc dx dy hyp in
  forall j, (j < nrow * ncol)%nat -> nth j src 0 <> -1 -> mok msk j = true ->
    apath nrow ncol obs msk nodata frc dx dy hyp (Z.to_nat (nth j src 0)) j (nth j dst 0).
Proof. exact SpreadOpt.spread_attained. Qed.
Print Assumptions spread_attained.

(* DISSOLVING REGIONS (regions.region_dissolve, modelled on top of spread2d with the dissolved regions as background):
   only cells of the listed regions change; every cell of a dissolved region gets the label that the spreading result
   carries at the region's location -- the caller's location (idxs=...) or a cell of the region with the smallest
   distance (labels=...) -- and that label belongs to a surviving region, is attained by a path from a surviving cell to
   the location, and no surviving cell has a cheaper path to it. *)
Theorem dissolve_labels_spec : forall nrow ncol regs labels dx dy hyp,
  0 <= dx -> 0 <= dy -> 0 <= hyp -> length regs = (nrow * ncol)%nat -> NoDup labels ->
  let '(out, src, dst) := spread2d nrow ncol (regs0 regs labels) None 0 None dx dy hyp in
  let R := region_dissolve nrow ncol regs labels None dx dy hyp in
  length R = length regs /\
  (forall j, ~ In (nth j regs 0) labels -> nth j R 0 = nth j regs 0) /\
  (forall k, (k < length labels)%nat -> (exists i, (i < length regs)%nat /\ nth i regs 0 = nth k labels 0) ->
     let p := argmin_region regs dst (nth k labels 0) in
     (p < length regs)%nat /\ nth p regs 0 = nth k labels 0 /\
     (forall q, (q < length regs)%nat -> nth q regs 0 = nth k labels 0 -> nth p dst 0 <= nth q dst 0) /\
     (forall j, (j < length regs)%nat -> nth j regs 0 = nth k labels 0 -> nth j R 0 = nth p out 0) /\
     (nth p src 0 <> -1 ->
        let s := Z.to_nat (nth p src 0) in
        nth p out 0 = nth s regs 0 /\ ~ In (nth s regs 0) labels /\ nth s regs 0 <> 0 /\
        apath nrow ncol (regs0 regs labels) None 0 None dx dy hyp s p (nth p dst 0) /\
        forall s' D, apath nrow ncol (regs0 regs labels) None 0 None dx dy hyp s' p D -> nth p dst 0 <= D)).
Proof. exact SpreadDissolve.dissolve_labels_spec. Qed.
Print Assumptions dissolve_labels_spec.

Theorem dissolve_idxs_spec : forall nrow ncol regs pos dx dy hyp,
  0 <= dx -> 0 <= dy -> 0 <= hyp -> length regs = (nrow * ncol)%nat ->
  NoDup (map (fun i => nth i regs 0) pos) -> (forall p, In p pos -> (p < length regs)%nat) ->
  let labels := map (fun i => nth i regs 0) pos in
  let '(out, src, dst) := spread2d nrow ncol (regs0 regs labels) None 0 None dx dy hyp in
  let R := region_dissolve nrow ncol regs [] (Some pos) dx dy hyp in
  length R = length regs /\
  (forall j, ~ In (nth j regs 0) labels -> nth j R 0 = nth j regs 0) /\
  (forall k, (k < length pos)%nat ->
     let p := nth k pos 0%nat in
     (forall j, (j < length regs)%nat -> nth j regs 0 = nth p regs 0 -> nth j R 0 = nth p out 0) /\
     (nth p src 0 <> -1 ->
        let s := Z.to_nat (nth p src 0) in
        nth p out 0 = nth s regs 0 /\ ~ In (nth s regs 0) labels /\ nth s regs 0 <> 0 /\
        apath nrow ncol (regs0 regs labels) None 0 None dx dy hyp s p (nth p dst 0) /\
        forall s' D, apath nrow ncol (regs0 regs labels) None 0 None dx dy hyp s' p D -> nth p dst 0 <= D)).
Proof. exact SpreadDissolve.dissolve_idxs_spec. Qed.
Print Assumptions dissolve_idxs_spec.

(* non-vacuity: region 7 (left) is dissolved into its nearest survivor 5; region 2 stays *)
Example dissolve_example : region_dissolve 1 5 [7;7;5;5;2] [7] None 3 4 5 = [5;5;5;5;2]
  /\ region_dissolve 1 5 [7;7;5;2;2] [] (Some [0%nat; 2%nat]) 3 4 5 = [2;2;2;2;2].
Proof. vm_compute. split; reflexivity. Qed.

(* smoke / non-vacuity: one observation in the corner of a 2x3 raster with 3-4-5 cells *)
Example spread_example :
  spread2d 2 3 [7;0;0; 0;0;0] None 0 None 3 4 5 = ([7;7;7;7;7;7], [0;0;0;0;0;0], [0;3;6;4;5;8]).
Proof. vm_compute. reflexivity. Qed.

(* the premise of the optimality theorems is inhabited: the diagonal step from the observation to cell 4 costs 5 *)
Example apath_example : apath 2 3 [7;0;0; 0;0;0] None 0 None 3 4 5 0 4 5.
Proof.
  change 4%nat with (nbr 3 0 (1, 1)). change 5 with (0 + cost None 3 4 5 0 (1, 1)).
  apply ap_step; [apply ap_src; [simpl; auto with arith|reflexivity|reflexivity]|simpl; tauto|reflexivity|reflexivity].
Qed.

(* gis_utils.spread2d regenerated from the source for projected grids (latlon = False; np.hypot an abstract function that agrees
   with the model's three step costs) IS the model; Some _ also says that the queue of the source runs empty *)
From PF Require Import GenHeapSpreadEq.
From PFG Require Import GenHeap.
Theorem gen_spread2d_total : forall (nrow ncol : nat) (obs : list Z) (msk : option (list bool)) (nodata : Z) (frc : option (list Z))
  (transform : list Z) (hypot : Z -> Z -> Z) (dx dy hyp : Z),
  length obs = (nrow * ncol)%nat -> match frc with Some f => length f = (nrow * ncol)%nat | None => True end ->
  (forall o, In o nb8 -> hypot (fst o * dy) (snd o * dx) = steplen dx dy hyp o) ->
  dx = nth 0 transform 0 -> dy = Z.abs (nth 4 transform 0) -> 0 <= dx -> 0 <= hyp ->
  (forall i, 0 <= match frc with Some fr => nth i fr 1 | None => 1 end) ->
  gen_spread2d nrow ncol obs msk nodata frc transform hypot = Some (spread2d nrow ncol obs msk nodata frc dx dy hyp).
Proof. exact GenHeapSpreadEq.gen_spread2d_total. Qed.
Print Assumptions gen_spread2d_total.
