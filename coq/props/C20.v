(* C20 -- Nearest-source spreading returns true least-cost distances and sources. *)
From Coq Require Import List Arith ZArith Bool.
Import ListNotations.
From PF Require Import Arr Spread SpreadSpec SpreadOpt.
Local Open Scope Z_scope.

(* soundness, for every raster, mask, non-negative friction and step lengths: observation cells keep their
   value with themselves as source and distance 0; cells outside the mask are never written; every other cell
   is either untouched (source -1, distance 0, own value) or carries the value of the observation cell reported
   as its source; distances are non-negative *)
Theorem spread_sound : forall nrow ncol obs msk nodata frc dx dy hyp,
  0 <= dx -> 0 <= dy -> 0 <= hyp -> (forall i, 0 <= match frc with None => 1 | Some fr => nth i fr 1 end) ->
  length obs = (nrow * ncol)%nat ->
  let '(out, src, dst) := spread2d nrow ncol obs msk nodata frc dx dy hyp in
  length out = (nrow * ncol)%nat /\ length src = (nrow * ncol)%nat /\ length dst = (nrow * ncol)%nat /\
  forall j, (j < nrow * ncol)%nat -> 0 <= nth j dst 0 /\
    ((nth j src 0 = -1 /\ nth j dst 0 = 0 /\ nth j out 0 = nth j obs 0 /\ negb (nth j obs nodata =? nodata) = false) \/
     (exists s, nth j src 0 = Z.of_nat s /\ (s < nrow * ncol)%nat /\ negb (nth s obs nodata =? nodata) = true /\
                nth j out 0 = nth s obs 0 /\
                (negb (nth j obs nodata =? nodata) = true -> s = j /\ nth j dst 0 = 0) /\ (mok msk j = false -> s = j))).
Proof. exact SpreadSpec.spread_sound. Qed.
Print Assumptions spread_sound.

(* OPTIMALITY.  `apath s j D` (SpreadOpt.v): there is a path from the observation cell s (inside the mask) to j through
   cells inside the mask by 8-neighbour steps inside the raster whose accumulated cost -- step length (dx, dy or the
   diagonal) times the friction of the cell stepped FROM -- is D.  For every raster, mask, non-negative friction and
   step lengths:
   (upper)    every cell on such a path is reached (source <> -1) and its reported distance is <= D: no path beats it;
   (attained) the reported distance of a reached cell inside the mask IS the cost of a path from the reported source.
   Together: distance = minimum over paths of the accumulated step cost, attained from the reported source, whose value
   the cell carries (spread_sound).  The queue is proved to run empty within the model's 10 n + 10 pops (every cell is
   expanded at most once; ghost list of expanded cells). *)
Theorem spread_upper : forall nrow ncol obs msk nodata frc dx dy hyp,
  0 <= dx -> 0 <= dy -> 0 <= hyp -> (forall i, 0 <= match frc with None => 1 | Some fr => nth i fr 1 end) ->
  length obs = (nrow * ncol)%nat ->
  let '(out, src, dst) := spread2d nrow ncol obs msk nodata frc dx dy hyp in
  forall s j D, apath nrow ncol obs msk nodata frc dx dy hyp s j D -> nth j src 0 <> -1 /\ nth j dst 0 <= D.
Proof. exact SpreadOpt.spread_upper. Qed.
Print Assumptions spread_upper.

Theorem spread_attained : forall nrow ncol obs msk nodata frc dx dy hyp,
  0 <= dx -> 0 <= dy -> 0 <= hyp -> (forall i, 0 <= match frc with None => 1 | Some fr => nth i fr 1 end) ->
  length obs = (nrow * ncol)%nat ->
  let '(out, src, dst) := spread2d nrow ncol obs msk nodata frc dx dy hyp in
  forall j, (j < nrow * ncol)%nat -> nth j src 0 <> -1 -> mok msk j = true ->
    apath nrow ncol obs msk nodata frc dx dy hyp (Z.to_nat (nth j src 0)) j (nth j dst 0).
Proof. exact SpreadOpt.spread_attained. Qed.
Print Assumptions spread_attained.

(* smoke / non-vacuity: one observation in the corner of a 2x3 raster with 3-4-5 cells *)
Example spread_example :
  spread2d 2 3 [7;0;0; 0;0;0] None 0 None 3 4 5 = ([7;7;7;7;7;7], [0;0;0;0;0;0], [0;3;6;4;5;8]).
Proof. vm_compute. reflexivity. Qed.

(* the premise of the optimality theorems is inhabited: the diagonal step from the observation to cell 4 costs 5 *)
Example apath_example : apath 2 3 [7;0;0; 0;0;0] None 0 None 3 4 5 0 4 5.
Proof.
  change 4%nat with (nbr 3 0 (1, 1)). change 5 with (0 + cost None 3 4 5 0 (1, 1)).
  apply ap_step; [apply ap_src; [simpl; auto with arith|reflexivity|reflexivity]|simpl; tauto|reflexivity|reflexivity].
Qed.
