(* C02 -- Re-encoding and cross-format conversion preserve the drainage graph. *)
From Coq Require Import List Arith ZArith Bool.
Import ListNotations.
From PF Require Import Arr Net Codec CodecSpec CodecRT.
From PFG Require Import GenTables GenDrdc GenConv.
Local Open Scope Z_scope.

(* generic: for every closed canonical graph, whenever the D8-style encoder succeeds, decoding its
   output returns the identical graph; it succeeds whenever all links join 8-neighbours *)
Theorem to_d8_roundtrip : forall nrow ncol ds, length ds = (nrow * ncol)%nat -> wf ds ->
  (forall i, (i < nrow * ncol)%nat -> (nth i ds (nrow * ncol) <= nrow * ncol)%nat) ->
  forall y, d8_to_array ncol ds = Some y -> d8_from_array nrow ncol y = ds.
Proof. exact CodecRT.to_d8_roundtrip. Qed.
Print Assumptions to_d8_roundtrip.
Theorem to_ldd_roundtrip : forall nrow ncol ds, length ds = (nrow * ncol)%nat -> wf ds ->
  (forall i, (i < nrow * ncol)%nat -> (nth i ds (nrow * ncol) <= nrow * ncol)%nat) ->
  forall y, ldd_to_array ncol ds = Some y -> ldd_from_array nrow ncol y = ds.
Proof. exact CodecRT.to_ldd_roundtrip. Qed.
Print Assumptions to_ldd_roundtrip.
Theorem to_nextxy_roundtrip : forall nrow ncol ds, length ds = (nrow * ncol)%nat -> wf ds ->
  (forall i, (i < nrow * ncol)%nat -> (nth i ds (nrow * ncol) <= nrow * ncol)%nat) ->
  nextxy_from_array nrow ncol (fst (nextxy_to_array ncol ds)) (snd (nextxy_to_array ncol ds)) = ds.
Proof. exact CodecRT.to_nextxy_roundtrip. Qed.
Print Assumptions to_nextxy_roundtrip.
Theorem to_d8_total : forall nrow ncol ds, length ds = (nrow * ncol)%nat -> nb8 nrow ncol ds ->
  exists y, d8_to_array ncol ds = Some y.
Proof. exact CodecRT.to_d8_total. Qed.
Print Assumptions to_d8_total.
Theorem to_ldd_total : forall nrow ncol ds, length ds = (nrow * ncol)%nat -> nb8 nrow ncol ds ->
  exists y, ldd_to_array ncol ds = Some y.
Proof. exact CodecRT.to_ldd_total. Qed.
Print Assumptions to_ldd_total.

(* the nine (source, target) pairs, for every shape and every legal raster (loops, all-pit, nodata included) *)
Theorem roundtrip_from_d8 : forall nrow ncol flw, legal d8_all flw d8_mv (nrow * ncol) ->
  let ds := d8_from_array nrow ncol flw in
  (exists y, d8_to_array ncol ds = Some y /\ d8_from_array nrow ncol y = ds) /\
  (exists y, ldd_to_array ncol ds = Some y /\ ldd_from_array nrow ncol y = ds) /\
  nextxy_from_array nrow ncol (fst (nextxy_to_array ncol ds)) (snd (nextxy_to_array ncol ds)) = ds.
Proof. exact CodecRT.roundtrip_from_d8. Qed.
Print Assumptions roundtrip_from_d8.
Theorem roundtrip_from_ldd : forall nrow ncol flw, legal ldd_all flw ldd_mv (nrow * ncol) ->
  let ds := ldd_from_array nrow ncol flw in
  (exists y, d8_to_array ncol ds = Some y /\ d8_from_array nrow ncol y = ds) /\
  (exists y, ldd_to_array ncol ds = Some y /\ ldd_from_array nrow ncol y = ds) /\
  nextxy_from_array nrow ncol (fst (nextxy_to_array ncol ds)) (snd (nextxy_to_array ncol ds)) = ds.
Proof. exact CodecRT.roundtrip_from_ldd. Qed.
Print Assumptions roundtrip_from_ldd.
Theorem roundtrip_from_nextxy : forall nrow ncol nextx nexty,
  let ds := nextxy_from_array nrow ncol nextx nexty in
  (forall y, d8_to_array ncol ds = Some y -> d8_from_array nrow ncol y = ds) /\
  (forall y, ldd_to_array ncol ds = Some y -> ldd_from_array nrow ncol y = ds) /\
  (nb8 nrow ncol ds -> (exists y, d8_to_array ncol ds = Some y) /\ (exists y, ldd_to_array ncol ds = Some y)) /\
  nextxy_from_array nrow ncol (fst (nextxy_to_array ncol ds)) (snd (nextxy_to_array ncol ds)) = ds.
Proof. exact CodecRT.roundtrip_from_nextxy. Qed.
Print Assumptions roundtrip_from_nextxy.

(* export to the source format = the documented canonicalisation *)
Theorem export_canonical_d8 : forall nrow ncol flw, legal d8_all flw d8_mv (nrow * ncol) ->
  forall y, d8_to_array ncol (d8_from_array nrow ncol flw) = Some y -> forall i, (i < nrow * ncol)%nat ->
  nth i y d8_mv = if nth i flw d8_mv =? d8_mv then d8_mv
                  else if (nth i (d8_from_array nrow ncol flw) (nrow * ncol) =? i)%nat then table_at d8_ds 0 0
                  else nth i flw d8_mv.
Proof. exact (export_canonical d8_ds d8_drdc d8_mv d8_all d8_tab). Qed.
Print Assumptions export_canonical_d8.
Theorem export_canonical_ldd : forall nrow ncol flw, legal ldd_all flw ldd_mv (nrow * ncol) ->
  forall y, ldd_to_array ncol (ldd_from_array nrow ncol flw) = Some y -> forall i, (i < nrow * ncol)%nat ->
  nth i y ldd_mv = if nth i flw ldd_mv =? ldd_mv then ldd_mv
                   else if (nth i (ldd_from_array nrow ncol flw) (nrow * ncol) =? i)%nat then table_at ldd_ds 0 0
                   else nth i flw ldd_mv.
Proof. exact (export_canonical ldd_ds ldd_drdc ldd_mv ldd_all ldd_tab). Qed.
Print Assumptions export_canonical_ldd.
Theorem primary_pit_codes : table_at d8_ds 0 0 = 0 /\ table_at ldd_ds 0 0 = 5.
Proof. vm_compute. auto. Qed.
Print Assumptions primary_pit_codes.

(* the direct value remapping agrees with conversion through the graph *)
Theorem remap_d8_to_ldd : forall nrow ncol flw, legal d8_all flw d8_mv (nrow * ncol) ->
  ldd_from_array nrow ncol (map d8_to_ldd flw) = d8_from_array nrow ncol flw.
Proof. intros. apply (remap_decode d8_drdc ldd_drdc d8_mv ldd_mv d8_all d8_to_ldd (proj1 d8_to_ldd_ok) (proj2 d8_to_ldd_ok)); auto. Qed.
Print Assumptions remap_d8_to_ldd.
Theorem remap_ldd_to_d8 : forall nrow ncol flw, legal ldd_all flw ldd_mv (nrow * ncol) ->
  d8_from_array nrow ncol (map ldd_to_d8 flw) = ldd_from_array nrow ncol flw.
Proof. intros. apply (remap_decode ldd_drdc d8_drdc ldd_mv d8_mv ldd_all ldd_to_d8 (proj1 ldd_to_d8_ok) (proj2 ldd_to_d8_ok)); auto. Qed.
Print Assumptions remap_ldd_to_d8.
Theorem remap_unknown : (forall v, ~ In v d8_all -> d8_to_ldd v = ldd_mv) /\ (forall v, ~ In v ldd_all -> ldd_to_d8 v = d8_mv).
Proof. split; [exact d8_to_ldd_unknown|exact ldd_to_d8_unknown]. Qed.
Print Assumptions remap_unknown.

(* non-vacuity *)
Example rt_example : d8_to_array 2 (d8_from_array 2 2 [1; 4; 247; 255]) = Some [1; 4; 247; 0]
  /\ ldd_to_array 2 (d8_from_array 2 2 [1; 4; 247; 255]) = Some [6; 2; 255; 5]
  /\ map d8_to_ldd [1; 4; 247; 255; 3] = [6; 2; 255; 5; 255].
Proof. vm_compute. auto. Qed.

(* the encoders regenerated from the source (generated/GenCodec.v, tools/gen_codec.py) ARE the models; None = the ValueError *)
From PF Require Import GenCodecToEq GenCodecXYEq.
From PFG Require Import GenCodec.
Theorem gen_d8_to_array_eq : forall (nrow : Z) (ncol : nat) (ds : list nat),
  gen_d8_to_array ds (nrow, Z.of_nat ncol) = d8_to_array ncol ds.
Proof. exact GenCodecToEq.gen_d8_to_array_eq. Qed.
Print Assumptions gen_d8_to_array_eq.
Theorem gen_ldd_to_array_eq : forall (nrow : Z) (ncol : nat) (ds : list nat),
  gen_ldd_to_array ds (nrow, Z.of_nat ncol) = ldd_to_array ncol ds.
Proof. exact GenCodecToEq.gen_ldd_to_array_eq. Qed.
Print Assumptions gen_ldd_to_array_eq.
Theorem gen_nextxy_to_array_eq : forall (nrow : Z) (ncol : nat) (ds : list nat),
  gen_nextxy_to_array ds (nrow, Z.of_nat ncol) = nextxy_to_array ncol ds.
Proof. exact GenCodecXYEq.gen_nextxy_to_array_eq. Qed.
Print Assumptions gen_nextxy_to_array_eq.
