(* C06 -- Depression filling yields the minimal spill surface draining all cells (max_depth < 0). *)
From Coq Require Import List Arith ZArith Bool.
Import ListNotations.
From PF Require Import Arr Flood FloodSpec.
Local Open Scope Z_scope.

(* for every raster, connectivity, outlet mode: the filled elevation is never below the input; nodata cells
   keep their elevation and are coded 247 in the direction raster *)
Theorem flood_basic : forall nrow ncol elv nodata conn mode pits,
  let '(filled, d8) := fill_depressions nrow ncol elv nodata conn mode pits in
  length filled = (nrow * ncol)%nat /\ length d8 = (nrow * ncol)%nat /\
  forall i, (i < nrow * ncol)%nat ->
    nth i elv 0 <= nth i filled 0 /\
    (isnodata elv nodata i = true -> nth i filled 0 = nth i elv 0 /\ nth i d8 0 = 247).
Proof. exact FloodSpec.flood_basic. Qed.
Print Assumptions flood_basic.

(* non-vacuity / smoke: a 3x3 bowl with a rim of 5 and a centre of 1 is filled to 5 and drains to a rim cell *)
Example flood_example :
  fill_depressions 3 3 [5;5;5; 5;1;5; 5;5;5] (-9999) 8 0 [] = ([5;5;5; 5;5;5; 5;5;5], [0;16;8; 64;32;16; 128;64;32]).
Proof. vm_compute. reflexivity. Qed.
