(* C06 -- Depression filling yields the minimal spill surface draining all cells (max_depth < 0). *)
From Coq Require Import List Arith ZArith Bool.
Import ListNotations.
From PF Require Import Arr Codec Flood FloodSpec FloodTree FloodOpt.
From PFG Require Import GenTables GenDrdc.
Local Open Scope Z_scope.

(* for every raster, connectivity, outlet mode: the filled elevation is never below the input; nodata cells
   keep their elevation and are coded 247 in the direction raster *)
Theorem flood_basic : forall nrow ncol elv nodata conn mode pits,
  let '(filled, d8) := fill_depressions nrow ncol elv nodata conn mode pits in
  length filled = (nrow * ncol)%nat /\ length d8 = (nrow * ncol)%nat /\
  forall i, (i < nrow * ncol)%nat ->
    nth i elv 0 <= nth i filled 0 /\
    (isnodata elv nodata i = true -> nth i filled 0 = nth i elv 0 /\ nth i d8 0 = 247).
Proof. exact FloodSpec.flood_basic. Qed.
Print Assumptions flood_basic.

(* The derived directions form a forest rooted at the outlets.  `reach` (FloodTree.v) is the inductive statement
   "j is a root, or j was reached from a cell p by an offset o of the chosen connectivity (o <> (0,0), inside the
   raster), carries the D8 code of the upstream table at o, its filled level is not below p's, and p is reached";
   roots are finished cells coded 0 (pits).  For every raster, connectivity and outlet mode (user outlet cells
   must be valid cells): every finished valid cell is reached; hence following the codes from any such cell goes
   through allowed neighbours only, never uphill on the filled surface, and ends in a pit. *)
Theorem flood_forest : forall nrow ncol elv nodata conn mode pits,
  (mode = 2 -> forall p, In p pits -> isnodata elv nodata p = false) ->
  let st := flood_state nrow ncol elv nodata conn mode pits in
  fill_depressions nrow ncol elv nodata conn mode pits = (map (filledv elv st) (seq 0 (nrow * ncol)), fd8 st) /\
  forall j, (j < nrow * ncol)%nat -> doneb st j = true -> isnodata elv nodata j = false ->
    reach nrow ncol elv nodata conn (pitroot nrow ncol st) st j.
Proof. exact FloodTree.flood_forest_sec. Qed.
Print Assumptions flood_forest.

(* OPTIMALITY.  `spath j M` (FloodOpt.v): there is a path seed = v0, v1, ..., vk = j of steps allowed by the
   connectivity, inside the raster, through valid cells, whose largest INPUT elevation is M.  Seeds are the cells
   of the initial queue: the edge cells of the valid area (mode 0), the single lowest of them (mode 1), the user's
   cells (mode 2) -- seeds_char.  For every raster, connectivity and outlet mode:
   (upper)    every cell on such a path is finished and its filled level is <= M   (so: every valid cell connected
              to an outlet is drained, and no path does better than the filled level from below);
   (attained) every finished valid cell has such a path -- the one stored in the direction raster -- whose M EQUALS
              its filled level.
   Together: filled level = min over paths of the max input elevation on the path (the lowest level to which water
   must rise to reach an outlet). *)
Theorem flood_upper : forall nrow ncol elv nodata conn mode pits,
  (mode = 2 -> forall p, In p pits -> isnodata elv nodata p = false) ->
  forall j M, spath nrow ncol elv nodata conn mode pits j M ->
  (j < nrow * ncol)%nat /\ isnodata elv nodata j = false /\
  doneb (flood_state nrow ncol elv nodata conn mode pits) j = true /\
  filledv elv (flood_state nrow ncol elv nodata conn mode pits) j <= M.
Proof. exact FloodOpt.flood_upper. Qed.
Print Assumptions flood_upper.

Theorem flood_attained : forall nrow ncol elv nodata conn mode pits,
  (mode = 2 -> forall p, In p pits -> isnodata elv nodata p = false) ->
  forall j, (j < nrow * ncol)%nat -> doneb (flood_state nrow ncol elv nodata conn mode pits) j = true ->
  isnodata elv nodata j = false ->
  exists M, spath nrow ncol elv nodata conn mode pits j M /\ filledv elv (flood_state nrow ncol elv nodata conn mode pits) j = M.
Proof. exact FloodOpt.flood_attained. Qed.
Print Assumptions flood_attained.

Theorem seeds_char : forall nrow ncol elv nodata conn mode pits, mode <> 1 -> forall j,
  In j (seeds nrow ncol elv nodata conn mode pits) <->
  ((j < nrow * ncol)%nat /\ (if mode =? 2 then memb j pits else is_edge nrow ncol elv nodata conn j) = true).
Proof. exact FloodOpt.seeds_char. Qed.
Print Assumptions seeds_char.

(* the code stored for a cell reached by offset o decodes (regenerated drdc) to the step back to its parent *)
Theorem us_points_back : forall o, In o offs8 -> d8_drdc (table_at d8_us (fst o) (snd o)) = (- fst o, - snd o).
Proof. exact FloodTree.us_points_back. Qed.
Print Assumptions us_points_back.

(* the queue model: extract_min returns an element no other element is smaller than, and the rest *)
Theorem extract_min_spec : forall q m rest, extract_min q = Some (m, rest) ->
  (forall x, In x q <-> x = m \/ In x rest) /\ (forall x, In x rest -> key_lt x m = false).
Proof. exact FloodTree.extract_min_spec. Qed.
Print Assumptions extract_min_spec.

(* non-vacuity / smoke: a 3x3 bowl with a rim of 5 and a centre of 1 is filled to 5 and drains to a rim cell *)
Example flood_example :
  fill_depressions 3 3 [5;5;5; 5;1;5; 5;5;5] (-9999) 8 0 [] = ([5;5;5; 5;5;5; 5;5;5], [0;16;8; 64;32;16; 128;64;32]).
Proof. vm_compute. reflexivity. Qed.

(* the premises of flood_forest are met: on that bowl every cell is finished and valid *)
Example flood_forest_applies :
  forallb (fun j => doneb (flood_state 3 3 [5;5;5; 5;1;5; 5;5;5] (-9999) 8 0 []) j
                    && negb (isnodata [5;5;5; 5;1;5; 5;5;5] (-9999) j)) (seq 0 9) = true.
Proof. vm_compute. reflexivity. Qed.

(* IDEMPOTENCE: filling the filled surface again changes no elevation -- for all three outlet modes ('edge' 0, 'min' 1:
   the lowest edge cell keeps its level while every other edge cell can only rise, so the same cell is selected again;
   user cells 2), when no valid cell is filled up exactly to the nodata value (it would count as nodata in the second run).  Follows
   from the minimax characterisation: the stored path of the first run bounds the second fill from above, and every
   path's maximum includes its end point. *)
From PF Require Import FloodIdem.
Theorem fill_idempotent : forall nrow ncol elv nodata conn mode pits,
  length elv = (nrow * ncol)%nat ->
  (mode = 2 -> forall p, In p pits -> isnodata elv nodata p = false) ->
  (forall j, (j < nrow * ncol)%nat -> isnodata elv nodata j = false ->
     filledv elv (flood_state nrow ncol elv nodata conn mode pits) j <> nodata) ->
  fst (fill_depressions nrow ncol (Lv nrow ncol elv nodata conn mode pits) nodata conn mode pits)
  = Lv nrow ncol elv nodata conn mode pits.
Proof. exact FloodIdem.fill_idempotent. Qed.
Print Assumptions fill_idempotent.

(* Lv is the filled elevation returned by the first run *)
Example Lv_is_filled : forall nrow ncol elv nodata conn mode pits,
  Lv nrow ncol elv nodata conn mode pits = fst (fill_depressions nrow ncol elv nodata conn mode pits).
Proof. reflexivity. Qed.

(* non-vacuity for outlets = 'min': a 3x3 bowl whose lowest edge cell is selected in both runs *)
Example idempotent_min_example :
  let elv := [5;4;5; 5;1;5; 5;5;5] in
  fst (fill_depressions 3 3 elv (-9999) 8 1 []) = [5;4;5; 5;4;5; 5;5;5] /\
  fst (fill_depressions 3 3 (fst (fill_depressions 3 3 elv (-9999) 8 1 [])) (-9999) 8 1 []) = [5;4;5; 5;4;5; 5;5;5].
Proof. vm_compute. split; reflexivity. Qed.

(* dem.fill_depressions (with gis_utils.get_edge) regenerated from the source for the modelled options (max_depth = -1, no
   elv_max; generated/GenHeap.v, tools/gen_heap.py: a heapq heap is a list, heappop takes the lexicographically least entry)
   IS the model; Some _ also says that the queue of the source runs empty *)
From PF Require Import GenHeapFloodEq.
From PFG Require Import GenHeap.
Theorem gen_fill_depressions_eq : forall (nrow ncol : nat) (elv : list Z) (nodata conn : Z),
  length elv = (nrow * ncol)%nat -> conn = 4 \/ conn = 8 -> forall (mode : Z) (pits : list nat),
  (mode = 1 -> exists i, (i < nrow * ncol)%nat /\ is_edge nrow ncol elv nodata conn i = true) ->
  gen_fill_depressions nrow ncol elv (mode =? 1) (if mode =? 2 then Some pits else None) nodata conn =
  Some (fill_depressions nrow ncol elv nodata conn mode pits).
Proof. exact GenHeapFloodEq.gen_fill_depressions_eq. Qed.
Print Assumptions gen_fill_depressions_eq.
