(* C15 -- Elevation conditioning makes elevation non-increasing downstream. *)
From Coq Require Import List Arith ZArith Bool.
Import ListNotations.
From PF Require Import Arr Net Elev ElevSpec DigSpec Fix1dSpec Fix1dMono Fix1dContract.
Local Open Scope Z_scope.

(* The raster/tree level, for EVERY network, EVERY complete topological order and EVERY elevation field, and for
   every 1-D fixer F satisfying the contract K (output non-increasing, last value kept, values within the input range,
   identity on non-increasing input):  no cell lower than its downstream cell, cells outside the network untouched,
   values within the input range on the network. *)
Theorem adjust_tree : forall F ds sq elv lo hi, contract F -> topo ds sq -> complete ds sq -> length elv = length ds ->
  (forall i, valid ds i -> lo <= zn elv i <= hi) ->
  let out := adjust F ds sq elv in
  length out = length elv /\
  (forall i, valid ds i -> dsf ds i <> i -> zn out (dsf ds i) <= zn out i) /\
  (forall i, ~ valid ds i -> zn out i = zn elv i) /\
  (forall i, valid ds i -> lo <= zn out i <= hi).
Proof. exact ElevSpec.adjust_tree. Qed.
Print Assumptions adjust_tree.

(* a conforming elevation is returned unchanged ... *)
Theorem adjust_conforming_fixed : forall F ds sq elv, contract F -> topo ds sq -> complete ds sq -> length elv = length ds ->
  (forall i, valid ds i -> dsf ds i <> i -> zn elv (dsf ds i) <= zn elv i) ->
  adjust F ds sq elv = elv.
Proof. exact ElevSpec.adjust_conforming_fixed. Qed.
Print Assumptions adjust_conforming_fixed.

(* ... hence the operation is idempotent *)
Theorem adjust_idempotent : forall F ds sq elv, contract F -> topo ds sq -> complete ds sq -> length elv = length ds ->
  adjust F ds sq (adjust F ds sq elv) = adjust F ds sq elv.
Proof. exact ElevSpec.adjust_idempotent. Qed.
Print Assumptions adjust_idempotent.

(* The 1-D fixer model (dem._adjust_elevation, statement by statement), parametrised by the cost function that selects
   among the repairs (exact |a-b| for floats and signed integers, wrapping difference for unsigned element types: Elev.cost_of).
   Proved for ALL profiles and ALL cost functions: *)
Theorem fix1d_length : forall cost e, length (fix1d cost e) = length e.
Proof. exact Fix1dSpec.fix1d_length. Qed.
Print Assumptions fix1d_length.

Theorem fix1d_identity_on_sorted : forall cost e, nonincr e -> fix1d cost e = e.
Proof. exact Fix1dSpec.fix1d_identity_on_sorted. Qed.
Print Assumptions fix1d_identity_on_sorted.

(* The faithful 1-D fixer satisfies the WHOLE contract, for every profile: the result is non-increasing, keeps the most
   downstream value, stays within the range of the input and fixes non-increasing profiles.  Proof by the loop
   invariant of dem._adjust_elevation: before the first pit the processed prefix is non-increasing; afterwards the
   profile is a non-increasing prefix up to imin followed by a hump that rises to imax and falls again (the pit
   detector, with its stale reads z1 >= e[i-1], cannot miss a rise in the falling part), and each of the three repairs
   (dig, fill, dig-and-fill at every candidate level of the unique-descending scan) turns prefix + hump into a
   non-increasing prefix (Fix1dMono.v: fix_pit_ok, step_inv, last_step). *)
Theorem fix1d_contract : forall cost, contract (fix1d cost).
Proof. exact Fix1dContract.fix1d_contract. Qed.
Print Assumptions fix1d_contract.

Theorem fix1d_contract_all : forall cost l lo hi, l <> [] -> (forall x, In x l -> lo <= x <= hi) ->
  length (fix1d cost l) = length l /\ ninc (fix1d cost l) 0 (length l) /\
  zn (fix1d cost l) (length l - 1) = zn l (length l - 1) /\ (forall k, (k < length l)%nat -> lo <= zn (fix1d cost l) k <= hi).
Proof. exact Fix1dMono.fix1d_contract_all. Qed.
Print Assumptions fix1d_contract_all.

(* hence, for dem.adjust_elevation itself (no hypothesis on the fixer): no cell lower than its downstream cell, cells
   outside the network untouched, values within the input range on the network, idempotent, conforming input unchanged *)
Theorem adjust_elevation_spec : forall cost ds sq elv lo hi, topo ds sq -> complete ds sq -> length elv = length ds ->
  (forall i, valid ds i -> lo <= zn elv i <= hi) ->
  let out := adjust (fix1d cost) ds sq elv in
  length out = length elv /\
  (forall i, valid ds i -> dsf ds i <> i -> zn out (dsf ds i) <= zn out i) /\
  (forall i, ~ valid ds i -> zn out i = zn elv i) /\
  (forall i, valid ds i -> lo <= zn out i <= hi) /\
  adjust (fix1d cost) ds sq out = out /\
  ((forall i, valid ds i -> dsf ds i <> i -> zn elv (dsf ds i) <= zn elv i) -> out = elv).
Proof. exact Fix1dContract.adjust_elevation_spec. Qed.
Print Assumptions adjust_elevation_spec.

(* (kept as an independent cross-check of the above by kernel evaluation: all 97 656 profiles of length <= 7 over {0..4}) *)
Theorem fix1d_contract_bounded : forall l, l <> [] -> (length l <= 7)%nat -> Forall (fun x => 0 <= x <= 4) l ->
  length (fix1d cost_exact l) = length l /\ nonincr (fix1d cost_exact l) /\
  zn (fix1d cost_exact l) (length l - 1) = zn l (length l - 1) /\
  (forall lo hi, within lo hi l -> within lo hi (fix1d cost_exact l)).
Proof. exact Fix1dSpec.fix1d_contract_bounded. Qed.
Print Assumptions fix1d_contract_bounded.

(* D4 digging: never raises, never alters nodata cells, changes only side-neighbours of a considered cell or its pit *)
Theorem dig_d4_spec : forall ds nrow ncol mask nodata mode sq elv out,
  dig_d4 ds nrow ncol mask nodata mode sq elv = Some out ->
  length out = length elv /\
  (forall j, zn out j <= zn elv j) /\
  (forall j, zn elv j = nodata -> zn out j = nodata) /\
  (forall j, zn out j <> zn elv j ->
     exists i, In i sq /\ considered mask i = true /\ (adj4 ncol i j \/ adj4 ncol (dsf ds i) j)).
Proof. exact DigSpec.dig_d4_spec_sec. Qed.
Print Assumptions dig_d4_spec.

(* non-vacuity: a concrete run of the faithful models *)
Example adjust_example :
  adjust (fix1d cost_exact) [1; 2; 2; 3; 3]%nat [2; 3; 1; 4; 0]%nat [5; 1; 7; 3; 4] = [7; 7; 7; 3; 4]
  /\ fix1d cost_exact [9; 4; 6; 5; 7; 2; 3; 1] = [9; 4; 4; 4; 4; 2; 2; 1]
  (* with the wrapping cost of an unsigned 16-bit element type a different (still admissible) repair is selected *)
  /\ fix1d cost_exact [7; 12; 10; 5; 2; 0] = [12; 12; 10; 5; 2; 0]
  /\ fix1d (cost_of 65536) [7; 12; 10; 5; 2; 0] = [7; 7; 7; 5; 2; 0]
  /\ topo [1; 2; 2; 3; 3]%nat [2; 3; 1; 4; 0]%nat.
Proof. split; [vm_compute; reflexivity|]. split; [vm_compute; reflexivity|]. split; [vm_compute; reflexivity|]. split; [vm_compute; reflexivity|]. apply check_topo_sound. vm_compute. reflexivity. Qed.
