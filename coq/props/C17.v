(* C17 -- Cell indices, coordinates, distances and areas are mutually consistent.
   Affine part over Q (exact); lengths and areas over R, about the formulas regenerated from
   gis_utils.py on every run (real-number semantics: rounding is not modelled). *)
From Coq Require Import ZArith QArith Qround Reals List Bool.
Import ListNotations.
From PF Require Import Geo GeoSpec GeoRSpec.
From PFG Require Import GenFormulas.

Local Open Scope Q_scope.
Theorem xy_is_centre : forall t row col,
  fst (xy t row col) == (fst (xy_ul t row col) + fst (xy_lr t row col)) / 2 /\
  snd (xy t row col) == (snd (xy_ul t row col) + snd (xy_lr t row col)) / 2.
Proof. exact GeoSpec.xy_is_centre. Qed.
Print Assumptions xy_is_centre.
Theorem index_xy_roundtrip : forall t row col, ~ ta t == 0 -> ~ te t == 0 ->
  rowcol t (fst (xy t row col)) (snd (xy t row col)) = (row, col).
Proof. exact GeoSpec.index_xy_roundtrip. Qed.
Print Assumptions index_xy_roundtrip.
Theorem idx_coords_roundtrip : forall t nrow ncol idx, ~ ta t == 0 -> ~ te t == 0 -> (0 < ncol)%Z ->
  (0 <= idx < nrow * ncol)%Z ->
  exists x y, idx_to_coords t nrow ncol idx = Some (x, y) /\ coords_to_idx t nrow ncol x y = Some idx.
Proof. exact GeoSpec.idx_coords_roundtrip. Qed.
Print Assumptions idx_coords_roundtrip.
Theorem coords_to_idx_spec : forall t nrow ncol x y,
  let '(r, c) := rowcol t x y in
  ((0 <= r < nrow /\ 0 <= c < ncol)%Z -> coords_to_idx t nrow ncol x y = Some (r * ncol + c)%Z) /\
  (~ (0 <= r < nrow /\ 0 <= c < ncol)%Z -> coords_to_idx t nrow ncol x y = None).
Proof. exact GeoSpec.coords_to_idx_spec. Qed.
Print Assumptions coords_to_idx_spec.
Theorem idx_outside_raises : forall t nrow ncol idx, ~ (0 <= idx < nrow * ncol)%Z -> idx_to_coords t nrow ncol idx = None.
Proof. exact GeoSpec.idx_outside_raises. Qed.
Print Assumptions idx_outside_raises.
Theorem centres_inside_bounds : forall t height width row col, 0 < ta t -> te t < 0 ->
  (0 <= row < height)%Z -> (0 <= col < width)%Z ->
  let '(w, s, e, n) := array_bounds t height width in
  w < fst (xy t row col) /\ fst (xy t row col) < e /\ s < snd (xy t row col) /\ snd (xy t row col) < n.
Proof. exact GeoSpec.centres_inside_bounds. Qed.
Print Assumptions centres_inside_bounds.

Local Open Scope R_scope.
Theorem distance_ew : forall t0 t1 t2 t3 t4 t5 idx0 idx1 ncol,
  (idx1 / ncol = idx0 / ncol)%Z -> (Z.abs (idx1 mod ncol - idx0 mod ncol) = 1)%Z ->
  gen_distance idx0 idx1 ncol false t0 t1 t2 t3 t4 t5 = Rabs t0.
Proof. exact GeoRSpec.distance_ew. Qed.
Print Assumptions distance_ew.
Theorem distance_ns : forall t0 t1 t2 t3 t4 t5 idx0 idx1 ncol,
  (Z.abs (idx1 / ncol - idx0 / ncol) = 1)%Z -> (idx1 mod ncol = idx0 mod ncol)%Z ->
  gen_distance idx0 idx1 ncol false t0 t1 t2 t3 t4 t5 = Rabs t4.
Proof. exact GeoRSpec.distance_ns. Qed.
Print Assumptions distance_ns.
Theorem distance_diag : forall t0 t1 t2 t3 t4 t5 idx0 idx1 ncol,
  (Z.abs (idx1 / ncol - idx0 / ncol) = 1)%Z -> (Z.abs (idx1 mod ncol - idx0 mod ncol) = 1)%Z ->
  gen_distance idx0 idx1 ncol false t0 t1 t2 t3 t4 t5 = sqrt (t0 * t0 + t4 * t4).
Proof. exact GeoRSpec.distance_diag. Qed.
Print Assumptions distance_diag.
Theorem distance_symmetric : forall idx0 idx1 ncol latlon t0 t1 t2 t3 t4 t5,
  gen_distance idx0 idx1 ncol latlon t0 t1 t2 t3 t4 t5 = gen_distance idx1 idx0 ncol latlon t0 t1 t2 t3 t4 t5.
Proof. exact GeoRSpec.distance_symmetric. Qed.
Print Assumptions distance_symmetric.
Theorem geo_distance_ew : forall t0 t1 t2 t3 t4 t5 idx0 idx1 ncol,
  (idx1 / ncol = idx0 / ncol)%Z -> (Z.abs (idx1 mod ncol - idx0 mod ncol) = 1)%Z ->
  gen_distance idx0 idx1 ncol true t0 t1 t2 t3 t4 t5 = Rabs (gen_degree_metres_x (mean_lat t4 t5 idx0 idx1 ncol) * t0).
Proof. exact GeoRSpec.geo_distance_ew. Qed.
Print Assumptions geo_distance_ew.
Theorem geo_distance_ns : forall t0 t1 t2 t3 t4 t5 idx0 idx1 ncol,
  (Z.abs (idx1 / ncol - idx0 / ncol) = 1)%Z -> (idx1 mod ncol = idx0 mod ncol)%Z ->
  gen_distance idx0 idx1 ncol true t0 t1 t2 t3 t4 t5 = Rabs (gen_degree_metres_y (mean_lat t4 t5 idx0 idx1 ncol) * t4).
Proof. exact GeoRSpec.geo_distance_ns. Qed.
Print Assumptions geo_distance_ns.
Theorem area_projected : forall t0 t1 t2 t3 t4 t5, gen_area_projected t0 t1 t2 t3 t4 t5 area_factor_m2 = Rabs (t0 * t4).
Proof. exact GeoRSpec.area_projected. Qed.
Print Assumptions area_projected.
Theorem area_factors : area_factor_m2 = 1 /\ area_factor_ha = 10000 /\ area_factor_km2 = 1000000 /\ area_factor_cell = 1.
Proof. exact GeoRSpec.area_factors. Qed.
Print Assumptions area_factors.
(* spherical cell areas: a column telescopes, a global grid adds up to the sphere *)
Theorem column_area_sum : forall xres yres north, yres < 0 -> forall nrow,
  rsum (fun k => gen_cellarea (lat_of_row yres north k) xres yres) nrow =
  earth_R * earth_R * (Rabs xres * PI / 180) * (sin (edge yres north 0) - sin (edge yres north nrow)).
Proof. exact GeoRSpec.column_area_sum. Qed.
Print Assumptions column_area_sum.
Theorem area_global_sum : forall xres yres north, yres < 0 -> forall nrow ncol,
  north = 90 -> INR nrow * yres = -180 -> INR ncol * Rabs xres = 360 ->
  INR ncol * rsum (fun k => gen_cellarea (lat_of_row yres north k) xres yres) nrow = 4 * PI * (earth_R * earth_R).
Proof. exact GeoRSpec.area_global_sum. Qed.
Print Assumptions area_global_sum.
