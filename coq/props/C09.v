(* C09 -- Upscaling yields a valid coarse D8 network anchored on fine-grid outlet pixels (non-iterative kernels,
   the connection check and the iterative stages of ihu, theories/Ihu.v; see DESIGN.md section 10). *)
From Coq Require Import List Arith ZArith Bool.
Import ListNotations.
From PF Require Import Arr Net Elev ElevSpec Upscale UpscaleSpec UpscaleId UpscaleLoopfree UpscaleD8.

(* shape: with nrow = ceil(subnrow/s), ncol = ceil(subncol/s) every fine pixel has a coarse cell inside the raster *)
Theorem coarse_shape_covers : forall subnrow subncol cs subidx, 0 < cs -> 0 < subncol -> subidx < subnrow * subncol ->
  sub2idx subidx subncol cs (cdiv subncol cs) < cdiv subnrow cs * cdiv subncol cs.
Proof. exact UpscaleSpec.coarse_shape_covers. Qed.
Print Assumptions coarse_shape_covers.

(* representative / exit pixel (dmm: cell-edge pixels, eam / eam_plus: effective-area pixels; pits always): a valid fine
   pixel of positive area lying in its OWN coarse cell, of largest upstream area among the candidates of that cell;
   present whenever a candidate of positive area exists *)
Theorem repcell_spec : forall sds upa subncol cs nrow ncol sel,
  let rep := repcell sds upa subncol cs nrow ncol sel in
  length rep = nrow * ncol /\
  (forall idx, idx < nrow * ncol -> let s := nth idx rep (length sds) in
     s = length sds \/ (candidate sds sel s /\ cellof subncol cs ncol s = idx /\ (0 < nth s upa 0)%Z)) /\
  (forall t, candidate sds sel t -> cellof subncol cs ncol t < nrow * ncol -> (0 < nth t upa 0)%Z ->
     let s := nth (cellof subncol cs ncol t) rep (length sds) in
     s < length sds /\ (nth t upa 0 <= nth s upa 0)%Z).
Proof. exact UpscaleSpec.repcell_spec. Qed.
Print Assumptions repcell_spec.

(* a coarse cell is valid exactly where a pixel is reported *)
Theorem valid_iff_outlet_dmm : forall sds subncol cs nrow ncol,
  (forall t, t < length sds -> cellof subncol cs ncol t < nrow * ncol) ->
  (forall t, t < length sds -> sd sds t < length sds -> sd sds (sd sds t) < length sds) ->
  forall rep idx0, idx0 < nrow * ncol ->
  (forall i, nth i rep (length sds) < length sds -> sd sds (nth i rep (length sds)) < length sds) ->
  (nth idx0 (dmm_nextidx sds subncol cs nrow ncol rep) 0 = nrow * ncol <-> length sds <= nth idx0 rep (length sds)).
Proof. exact UpscaleSpec.valid_iff_outlet_dmm. Qed.
Print Assumptions valid_iff_outlet_dmm.

Theorem valid_iff_outlet_eam : forall sds subncol cs nrow ncol,
  (forall t, t < length sds -> cellof subncol cs ncol t < nrow * ncol) ->
  (forall t, t < length sds -> sd sds t < length sds -> sd sds (sd sds t) < length sds) ->
  forall ea rep idx0, idx0 < nrow * ncol ->
  (forall i, nth i rep (length sds) < length sds -> sd sds (nth i rep (length sds)) < length sds) ->
  (nth idx0 (eam_nextidx sds subncol cs nrow ncol ea rep) 0 = nrow * ncol <-> length sds <= nth idx0 rep (length sds)).
Proof. exact UpscaleSpec.valid_iff_outlet_eam. Qed.
Print Assumptions valid_iff_outlet_eam.

Theorem valid_iff_outlet_eam_plus : forall sds subncol cs nrow ncol,
  (forall t, t < length sds -> cellof subncol cs ncol t < nrow * ncol) ->
  (forall t, t < length sds -> sd sds t < length sds -> sd sds (sd sds t) < length sds) ->
  forall ea out idx0, idx0 < nrow * ncol ->
  (forall i, nth i out (length sds) < length sds -> sd sds (nth i out (length sds)) < length sds) ->
  (nth idx0 (ihu_nextidx sds subncol cs nrow ncol ea out) 0 = nrow * ncol <-> length sds <= nth idx0 out (length sds)).
Proof. exact UpscaleSpec.valid_iff_outlet_eam_plus. Qed.
Print Assumptions valid_iff_outlet_eam_plus.

(* the eam_plus outlet pixel: downstream of the representative pixel, still inside the cell, and the pixel after it lies
   in another cell unless it is a pit *)
Theorem outlet_pixel_spec : forall sds subncol cs (nrow : nat) ncol,
  (forall t, t < length sds -> sd sds t < length sds -> sd sds (sd sds t) < length sds) ->
  forall fuel idx0 s o, s < length sds -> sd sds s < length sds -> cellof subncol cs ncol s = idx0 ->
  out_walk sds subncol cs ncol fuel idx0 s = o -> o <= length sds ->
  o < length sds /\ cellof subncol cs ncol o = idx0 /\ (exists k, iter sds k s = o) /\
  (sd sds o = o \/ cellof subncol cs ncol (sd sds o) <> idx0).
Proof. exact UpscaleSpec.out_walk_spec. Qed.
Print Assumptions outlet_pixel_spec.

(* core._d8_idx, the 8-neighbour helper of the iterative method, returns exactly the cells of the raster whose row and
   column differ by at most one from the given cell's (itself excluded), on every border and corner; _upstream_d8_idx
   those of them that drain into the cell *)
From PF Require Import D8Idx D8IdxSpec.
Theorem d8_idx_spec : forall idx0 nrow ncol j, 0 < ncol ->
  In j (d8_idx idx0 nrow ncol) <-> (j < nrow * ncol /\ j <> idx0 /\ in_d8 idx0 j ncol = true).
Proof. exact D8IdxSpec.d8_idx_spec. Qed.
Print Assumptions d8_idx_spec.
Theorem upstream_d8_idx_spec : forall ds idx0 nrow ncol j, 0 < ncol ->
  In j (upstream_d8_idx ds idx0 nrow ncol) <->
  (j < nrow * ncol /\ j <> idx0 /\ in_d8 idx0 j ncol = true /\ dsf ds j = idx0).
Proof. exact D8IdxSpec.upstream_d8_idx_spec. Qed.
Print Assumptions upstream_d8_idx_spec.

(* every outlet pixel is a DISTINCT fine cell: the exit / representative pixels of dmm and eam, and the outlet pixels of
   eam_plus (ihu step 1), of two different coarse cells differ *)
From PF Require Import UpscaleDistinct.
Theorem rep_pixels_distinct : forall sds upa subncol cs nrow ncol sel idx idx',
  let rep := repcell sds upa subncol cs nrow ncol sel in
  idx < nrow * ncol -> idx' < nrow * ncol -> idx <> idx' ->
  nth idx rep (length sds) < length sds -> nth idx' rep (length sds) < length sds ->
  nth idx rep (length sds) <> nth idx' rep (length sds).
Proof. exact UpscaleDistinct.rep_pixels_distinct. Qed.
Print Assumptions rep_pixels_distinct.
Theorem outlet_pixels_distinct : forall sds upa subncol cs nrow ncol sel idx idx',
  (forall t, t < length sds -> sd sds t < length sds -> sd sds (sd sds t) < length sds) ->
  let rep := repcell sds upa subncol cs nrow ncol sel in
  let out := ihu_outlets sds subncol cs nrow ncol rep in
  idx < nrow * ncol -> idx' < nrow * ncol -> idx <> idx' ->
  nth idx out (length sds) < length sds -> nth idx' out (length sds) < length sds ->
  nth idx out (length sds) <> nth idx' out (length sds).
Proof. exact UpscaleDistinct.outlet_pixels_distinct. Qed.
Print Assumptions outlet_pixels_distinct.

(* the eam_plus link: derived from the next outlet pixel / pit when its cell is an 8-neighbour, else from an
   effective-area pixel (PARTIAL: that the latter's cell is an 8-neighbour is geometric and only checked on outputs) *)
Theorem eam_plus_link_partial : forall sds subncol cs ncol,
  (forall t, t < length sds -> sd sds t < length sds -> sd sds (sd sds t) < length sds) ->
  forall ea out fuel idx0 s fe t, s < length sds -> sd sds s < length sds ->
  (forall x, fe = Some x -> x < length sds /\ eaf ea x = true) ->
  ihu_walk sds subncol cs ncol ea fuel out idx0 s fe = Some t ->
  t < length sds /\
  ((in_d8 idx0 (cellof subncol cs ncol t) ncol = true /\
    (nth (cellof subncol cs ncol t) out (length sds) = t \/ exists p, sd sds p = p /\ t = p)) \/ eaf ea t = true).
Proof. exact UpscaleSpec.ihu_walk_spec. Qed.
Print Assumptions eam_plus_link_partial.

(* the connection check: 255 where the link or the outlet pixel is missing; otherwise 1 exactly when the first outlet
   pixel (or pit) met strictly downstream of the cell's own outlet pixel is the outlet pixel of the cell it points to *)
Theorem upscale_error_spec : forall sds out cds idx0, idx0 < length cds ->
  let n := length cds in
  let flag := nth idx0 (upscale_error sds out cds) 0%Z in
  let s := nth idx0 out (length sds) in
  let d := nth idx0 cds n in
  (n <= d \/ length sds <= s -> flag = 255%Z) /\
  (d < n -> s < length sds ->
     (flag = 1%Z <-> err_walk sds (S (length sds)) (outlet_map sds out) s = nth d out (length sds)) /\
     (flag = 1%Z \/ flag = 0%Z)).
Proof. exact UpscaleSpec.upscale_error_spec. Qed.
Print Assumptions upscale_error_spec.

Theorem first_outlet_downstream : forall sds om fuel s t, err_walk sds fuel om s = t -> t <= length sds ->
  exists k, t = iter sds (S k) s /\
    (nth t om false = true \/ iter sds (S k) s = iter sds k s) /\
    (forall j, j < k -> nth (iter sds (S j) s) om false = false /\ iter sds (S j) s <> iter sds j s).
Proof. exact UpscaleSpec.err_walk_spec. Qed.
Print Assumptions first_outlet_downstream.

Theorem outlet_map_spec : forall sds out t, nth t (outlet_map sds out) false = true <-> (In t out /\ t < length sds).
Proof. exact UpscaleSpec.outlet_map_spec. Qed.
Print Assumptions outlet_map_spec.

(* a scale factor of 1 reproduces the input network (methods eam and eam_plus), for every closed fine network with
   positive upstream areas whose valid pixels are all effective-area pixels (true of upscale.effective_area for
   cellsize 1: ri = ci = 0); eam_plus additionally needs the fine links to join 8-neighbours (D8 / LDD rasters) *)
Theorem eam_scale1 : forall sds upa subnrow subncol ea, 0 < subncol -> length sds = subnrow * subncol ->
  (forall t, t < length sds -> sd sds t < length sds -> sd sds (sd sds t) < length sds) ->
  (forall t, t < length sds -> sd sds t <= length sds) ->
  (forall t, t < length sds -> sd sds t < length sds -> (0 < nth t upa 0)%Z) ->
  (forall t, t < length sds -> sd sds t < length sds -> eaf ea t = true) ->
  fst (fst (up_eam sds upa subnrow subncol 1 ea)) = sds.
Proof. exact UpscaleId.eam_scale1. Qed.
Print Assumptions eam_scale1.

Theorem eam_plus_scale1 : forall sds upa subnrow subncol ea, 0 < subncol -> length sds = subnrow * subncol ->
  (forall t, t < length sds -> sd sds t < length sds -> sd sds (sd sds t) < length sds) ->
  (forall t, t < length sds -> sd sds t <= length sds) ->
  (forall t, t < length sds -> sd sds t < length sds -> (0 < nth t upa 0)%Z) ->
  (forall t, t < length sds -> sd sds t < length sds -> eaf ea t = true) ->
  (forall t, t < length sds -> sd sds t < length sds -> in_d8 t (sd sds t) subncol = true) ->
  fst (fst (up_eam_plus sds upa subnrow subncol 1 ea)) = sds.
Proof. exact UpscaleId.eam_plus_scale1. Qed.
Print Assumptions eam_plus_scale1.

(* 8-NEIGHBOUR LINKS OF THE EFFECTIVE-AREA METHOD.  If the fine links join 8-neighbouring pixels (D8 / LDD rasters) and the
   effective-area map contains the middle rows and columns of every coarse cell (check_cross, evaluated on the map the
   implementation produced, in every case), then every link of eam_nextidx joins a cell with itself or one of its eight
   neighbours: a path moving one pixel at a time cannot get past the middle of a neighbouring cell without stepping on
   its effective area. *)
Theorem eam_links_d8 : forall sds upa subncol cs nrow ncol ea, 0 < cs -> 0 < subncol -> subncol <= ncol * cs ->
  (forall t, t < length sds -> sd sds t < length sds -> sd sds (sd sds t) < length sds) ->
  (forall t, t < length sds -> sd sds t < length sds -> in_d8 t (sd sds t) subncol = true) ->
  check_cross sds ea subncol cs = true ->
  forall idx0, idx0 < nrow * ncol ->
  let s := nth idx0 (repcell sds upa subncol cs nrow ncol (eaf ea)) (length sds) in s < length sds ->
  let r := eam_walk sds subncol cs nrow ncol ea (S (length sds)) idx0 s in r < nrow * ncol ->
  in_d8 idx0 r ncol = true.
Proof. exact UpscaleD8.eam_links_d8_checked. Qed.
Print Assumptions eam_links_d8.

(* ... and so does every link of eam_plus (ihu_nextidx), whichever branch produced it: the next outlet pixel or pit (whose
   cell the code tests explicitly) or the first effective-area pixel downstream (by the same geometry).  This completes
   eam_plus_link_partial: the method links only 8-neighbours. *)
Theorem eam_plus_links_d8 : forall sds subncol cs ncol ea, 0 < cs -> 0 < subncol -> subncol <= ncol * cs ->
  (forall t, t < length sds -> sd sds t < length sds -> sd sds (sd sds t) < length sds) ->
  (forall t, t < length sds -> sd sds t < length sds -> in_d8 t (sd sds t) subncol = true) ->
  check_cross sds ea subncol cs = true ->
  forall out idx0 s t, s < length sds -> sd sds s < length sds -> cellof subncol cs ncol s = idx0 ->
  ihu_walk sds subncol cs ncol ea (S (length sds)) out idx0 s None = Some t -> in_d8 idx0 (cellof subncol cs ncol t) ncol = true.
Proof. exact UpscaleD8.eam_plus_links_d8_checked. Qed.
Print Assumptions eam_plus_links_d8.

(* ... and every link of dmm, when the scale factor is at least 2: the trace stops at most one pixel beyond a window of
   one cell's width centred on a corner of the start cell, which reaches into that cell's three neighbours at the corner
   only.  (With scale factor 1 the window reaches further: known finding F9.) *)
Theorem dmm_links_d8 : forall sds subncol cs nrow ncol, 2 <= cs -> 0 < subncol -> subncol <= ncol * cs ->
  (forall t, t < length sds -> sd sds t < length sds -> sd sds (sd sds t) < length sds) ->
  (forall t, t < length sds -> sd sds t < length sds -> in_d8 t (sd sds t) subncol = true) ->
  forall idx0 s, s < length sds -> sd sds s < length sds -> cellof subncol cs ncol s = idx0 ->
  let r := dmm_walk sds subncol cs nrow ncol (S (length sds)) idx0 s s idx0 in r < nrow * ncol -> in_d8 idx0 r ncol = true.
Proof. exact UpscaleD8.dmm_links_d8. Qed.
Print Assumptions dmm_links_d8.

(* LOOP-FREE COARSE NETWORKS (methods eam and eam_plus).  When the upstream area is positive on the fine network and strictly
   larger at the downstream pixel (true of every accumulation of positive cell areas; a user-supplied field need not be),
   every coarse link either is a coarse pit or leads to a cell whose representative pixel (eam) / outlet pixel (eam_plus)
   has a strictly larger upstream area.  Hence a chain of k >= 1 links that stays inside the coarse raster and returns to
   its start passes a coarse pit: there are no cycles other than the self-links of pits. *)
Theorem eam_link_increases : forall sds upa subncol cs nrow ncol ea,
  (forall t, t < length sds -> sd sds t < length sds -> sd sds (sd sds t) < length sds) ->
  (forall t, t < length sds -> sd sds t < length sds -> (0 < nth t upa 0)%Z) ->
  (forall t, t < length sds -> sd sds t < length sds -> sd sds t <> t -> (nth t upa 0 < nth (sd sds t) upa 0)%Z) ->
  let rep := repcell sds upa subncol cs nrow ncol (eaf ea) in
  forall idx0, idx0 < nrow * ncol -> let s := nth idx0 rep (length sds) in s < length sds ->
  let r := eam_walk sds subncol cs nrow ncol ea (S (length sds)) idx0 s in r < nrow * ncol ->
  r = idx0 \/ (nth r rep (length sds) < length sds /\ (nth s upa 0 < nth (nth r rep (length sds)) upa 0)%Z).
Proof. exact UpscaleLoopfree.eam_link_increases. Qed.
Print Assumptions eam_link_increases.

Theorem eam_loopfree : forall sds upa subncol cs nrow ncol ea,
  (forall t, t < length sds -> sd sds t < length sds -> sd sds (sd sds t) < length sds) ->
  (forall t, t < length sds -> sd sds t < length sds -> (0 < nth t upa 0)%Z) ->
  (forall t, t < length sds -> sd sds t < length sds -> sd sds t <> t -> (nth t upa 0 < nth (sd sds t) upa 0)%Z) ->
  forall idx k, idx < nrow * ncol -> nth idx (repcell sds upa subncol cs nrow ncol (eaf ea)) (length sds) < length sds -> 1 <= k ->
  (forall j, j <= k -> citer sds upa subncol cs nrow ncol ea j idx < nrow * ncol) ->
  citer sds upa subncol cs nrow ncol ea k idx = idx ->
  exists j, j < k /\ cnext sds upa subncol cs nrow ncol ea (citer sds upa subncol cs nrow ncol ea j idx) = citer sds upa subncol cs nrow ncol ea j idx.
Proof. exact UpscaleLoopfree.eam_loopfree. Qed.
Print Assumptions eam_loopfree.

(* cnext / citer are the coarse network returned by the method: *)
Example cnext_is_eam_nextidx : forall sds upa subncol cs nrow ncol ea idx,
  cnext sds upa subncol cs nrow ncol ea idx =
  nth idx (eam_nextidx sds subncol cs nrow ncol ea (repcell sds upa subncol cs nrow ncol (eaf ea))) (nrow * ncol).
Proof. reflexivity. Qed.

Theorem eam_plus_loopfree : forall sds upa subncol cs nrow ncol ea,
  (forall t, t < length sds -> sd sds t < length sds -> sd sds (sd sds t) < length sds) ->
  (forall t, t < length sds -> cellof subncol cs ncol t < nrow * ncol) ->
  (forall t, t < length sds -> sd sds t < length sds -> (0 < nth t upa 0)%Z) ->
  (forall t, t < length sds -> sd sds t < length sds -> sd sds t <> t -> (nth t upa 0 < nth (sd sds t) upa 0)%Z) ->
  (forall idx s, s < length sds -> out_walk sds subncol cs ncol (S (length sds)) idx s <= length sds) ->
  forall idx k, idx < nrow * ncol -> nth idx (repcell sds upa subncol cs nrow ncol (eaf ea)) (length sds) < length sds -> 1 <= k ->
  (forall j, j <= k -> piter sds upa subncol cs nrow ncol ea j idx < nrow * ncol) ->
  piter sds upa subncol cs nrow ncol ea k idx = idx ->
  exists j, j < k /\ pnext sds upa subncol cs nrow ncol ea (piter sds upa subncol cs nrow ncol ea j idx) = piter sds upa subncol cs nrow ncol ea j idx.
Proof. exact UpscaleLoopfree.eam_plus_loopfree. Qed.
Print Assumptions eam_plus_loopfree.

Example pnext_is_ihu_nextidx : forall sds upa subncol cs nrow ncol ea idx,
  pnext sds upa subncol cs nrow ncol ea idx =
  nth idx (ihu_nextidx sds subncol cs nrow ncol ea
             (ihu_outlets sds subncol cs nrow ncol (repcell sds upa subncol cs nrow ncol (eaf ea)))) (nrow * ncol).
Proof. reflexivity. Qed.

(* non-vacuity: a 2x4 raster draining east along the top row, scale factor 2 *)
Example upscale_example :
  up_eam_plus [1; 2; 3; 3; 0; 1; 2; 3]%nat [1; 3; 5; 8; 1; 1; 1; 1]%Z 2 4 2 [true; true; true; true; true; true; true; true]
  = ([1; 1]%nat, [1; 3]%nat, (1, 2)%nat).
Proof. vm_compute. reflexivity. Qed.

(* ... and the same for dmm: from the pixel where the trace stops the flow path reaches, inside the same cell, a pit or a pixel
   on the cell edge (a pixel whose downstream pixel lies in another cell is on the edge) -- a candidate exit pixel of that
   cell with at least the same upstream area -- so the upstream area of the exit pixel strictly increases along every
   link that is not a pit.  All three non-iterative methods return loop-free networks. *)
Theorem dmm_loopfree : forall sds upa subncol cs nrow ncol, 0 < cs -> 0 < subncol -> subncol <= ncol * cs ->
  (forall t, t < length sds -> sd sds t < length sds -> sd sds (sd sds t) < length sds) ->
  (forall t, t < length sds -> sd sds t < length sds -> in_d8 t (sd sds t) subncol = true) ->
  (forall t, t < length sds -> sd sds t < length sds -> (0 < nth t upa 0)%Z) ->
  (forall t, t < length sds -> sd sds t < length sds -> sd sds t <> t -> (nth t upa 0 < nth (sd sds t) upa 0)%Z) ->
  forall idx k, idx < nrow * ncol ->
  nth idx (repcell sds upa subncol cs nrow ncol (fun t => cell_edge t subncol cs)) (length sds) < length sds -> 1 <= k ->
  (forall j, j <= k -> diter sds upa subncol cs nrow ncol j idx < nrow * ncol) ->
  diter sds upa subncol cs nrow ncol k idx = idx ->
  exists j, j < k /\ dnext sds upa subncol cs nrow ncol (diter sds upa subncol cs nrow ncol j idx) = diter sds upa subncol cs nrow ncol j idx.
Proof. exact UpscaleLoopfree.dmm_loopfree. Qed.
Print Assumptions dmm_loopfree.

Example dnext_is_dmm_nextidx : forall sds upa subncol cs nrow ncol idx,
  dnext sds upa subncol cs nrow ncol idx =
  nth idx (dmm_nextidx sds subncol cs nrow ncol (repcell sds upa subncol cs nrow ncol (fun t => cell_edge t subncol cs))) (nrow * ncol).
Proof. reflexivity. Qed.

(* the hypotheses of the loop-freeness theorems are satisfiable: the same raster with an upstream area that is positive
   and strictly increasing downstream *)
Example increasing_area_example :
  let sds := [1; 2; 3; 3; 0; 1; 2; 3]%nat in let upa := [2; 3; 5; 9; 1; 1; 1; 1]%Z in
  (forall t, t < length sds -> sd sds t < length sds -> (0 < nth t upa 0)%Z) /\
  (forall t, t < length sds -> sd sds t < length sds -> sd sds t <> t -> (nth t upa 0 < nth (sd sds t) upa 0)%Z).
Proof.
  cbv zeta. split; intros t Ht; cbn [length] in Ht;
    (do 8 (destruct t as [|t]; [vm_compute; intros; try reflexivity; try congruence|])); exfalso; apply (Nat.lt_irrefl 8); do 8 apply Nat.succ_lt_mono in Ht; inversion Ht.
Qed.

(* UPSCALING SUCCEEDS (eam_plus): when the fine links join 8-neighbouring pixels and the effective-area map contains the middle
   rows and columns of every coarse cell (both checked on every input by kernel 914), the walk from an outlet pixel ALWAYS
   answers -- while no effective-area pixel has been passed the current pixel is still inside the 3 x 3 block of cells around
   the start cell -- so the coarse network of eam_plus holds cell indices and the missing value only, never the error value;
   the 8-neighbour hypothesis cannot be dropped (eam_plus_answers_needs_d8) *)
From PF Require Import UpscaleNoErr.
Theorem eam_plus_answers : forall sds subncol cs ncol ea sq, 0 < cs -> 0 < subncol -> subncol <= ncol * cs ->
  (forall t, t < length sds -> sd sds t < length sds -> in_d8 t (sd sds t) subncol = true) ->
  check_cross sds ea subncol cs = true -> topo sds sq ->
  forall out idx0 s, s < length sds -> sd sds s < length sds -> cellof subncol cs ncol s = idx0 -> In s sq ->
  exists t, ihu_walk sds subncol cs ncol ea (S (length sds)) out idx0 s None = Some t.
Proof. exact UpscaleNoErr.eam_plus_answers. Qed.
Print Assumptions eam_plus_answers.
Theorem up_eam_plus_no_err : forall sds sq upa subnrow subncol cs ea, 0 < cs -> 0 < subncol -> length sds = subnrow * subncol ->
  topo sds sq -> complete sds sq ->
  (forall t, t < length sds -> sd sds t < length sds -> in_d8 t (sd sds t) subncol = true) ->
  check_cross sds ea subncol cs = true ->
  forall x, In x (fst (fst (up_eam_plus sds upa subnrow subncol cs ea))) ->
  (x < cdiv subnrow cs * cdiv subncol cs \/ x = cdiv subnrow cs * cdiv subncol cs) /\ x <> ERR (cdiv subnrow cs) (cdiv subncol cs).
Proof. exact UpscaleNoErr.up_eam_plus_no_err. Qed.
Print Assumptions up_eam_plus_no_err.
Theorem eam_plus_answers_needs_d8 :
  exists sds sq upa subnrow subncol cs ea, topo sds sq /\ complete sds sq /\ length sds = subnrow * subncol /\
    check_cross sds ea subncol cs = true /\ check_d8 sds subncol = false /\
    (let nrow := cdiv subnrow cs in let ncol := cdiv subncol cs in
     fst (fst (up_eam_plus sds upa subnrow subncol cs ea)) = [ERR nrow ncol; 1; 2]).
Proof. exact UpscaleNoErr.eam_plus_answers_needs_d8. Qed.
Print Assumptions eam_plus_answers_needs_d8.

(* THE ITERATIVE METHOD ihu (model theories/Ihu.v: eam_plus, then up to five rounds of outlet relocation, connection check,
   river-length optimisation and error minimisation).  Invariants of the three arrays the stages modify, each preserved by
   every stage, give for the RESULT of up_ihu, under the hypotheses of the first stage (fine links join 8-neighbouring pixels,
   the effective-area map contains the cell crosses, loop-free closed fine network):
   - every coarse link joins a cell with itself or one of its 8 neighbours (up_ihu_links_d8);
   - every reported outlet pixel is a valid fine pixel (up_ihu_outlets_valid_topo) and the outlet pixels of different coarse cells
     differ (up_ihu_outlets_distinct; no hypothesis beyond the loop-free fine network);
   - when the upstream area is positive on the network and no error value is stored: a coarse cell is valid exactly where an
     outlet pixel is reported (up_ihu_valid_iff_outlet), and the coarse cell that CONTAINS an outlet pixel is valid
     (up_ihu_outlet_cell_valid: for ihu a pixel may leave its own cell); without positive areas the latter is false
     (up_ihu_outlet_cell_valid_refuted).  Loop-freeness of what FlwdirRaster.upscale returns is the isvalid gate (C03). *)
From PF Require Import Ihu IhuD8 IhuOut IhuValid IhuDistinct.
Theorem up_ihu_links_d8 : forall sds sq upa subnrow subncol cs ea, 0 < cs -> 0 < subncol -> length sds = subnrow * subncol ->
  topo sds sq -> complete sds sq ->
  (forall t, t < length sds -> sd sds t < length sds -> in_d8 t (sd sds t) subncol = true) ->
  check_cross sds ea subncol cs = true ->
  let '(cds, _, (nrow, ncol)) := up_ihu sds upa subnrow subncol cs ea in
  forall idx0, idx0 < nrow * ncol -> nth idx0 cds (nrow * ncol) < nrow * ncol -> in_d8 idx0 (nth idx0 cds (nrow * ncol)) ncol = true.
Proof. exact IhuD8.up_ihu_links_d8. Qed.
Print Assumptions up_ihu_links_d8.
Theorem up_ihu_outlets_valid_topo : forall sds sq upa subnrow subncol cs ea, topo sds sq -> complete sds sq ->
  let '(_, out, (_, _)) := up_ihu sds upa subnrow subncol cs ea in
  forall idx0, nth idx0 out (length sds) < length sds -> sd sds (nth idx0 out (length sds)) < length sds.
Proof. exact IhuOut.up_ihu_outlets_valid_topo. Qed.
Print Assumptions up_ihu_outlets_valid_topo.
Theorem up_ihu_outlets_distinct : forall sds sq upa subnrow subncol cs ea, 0 < cs -> 0 < subncol -> length sds = subnrow * subncol ->
  topo sds sq -> complete sds sq ->
  let '(_, out, (nrow, ncol)) := up_ihu sds upa subnrow subncol cs ea in
  forall idx idx', idx < nrow * ncol -> idx' < nrow * ncol -> idx <> idx' -> nth idx out (length sds) < length sds ->
  nth idx out (length sds) <> nth idx' out (length sds).
Proof. exact IhuDistinct.up_ihu_outlets_distinct. Qed.
Print Assumptions up_ihu_outlets_distinct.
Theorem up_ihu_valid_iff_outlet : forall sds sq upa subnrow subncol cs ea, 0 < cs -> 0 < subncol -> length sds = subnrow * subncol ->
  topo sds sq -> complete sds sq ->
  (forall t, t < length sds -> sd sds t < length sds -> in_d8 t (sd sds t) subncol = true) ->
  check_cross sds ea subncol cs = true ->
  (forall t, t < length sds -> sd sds t < length sds -> (0 < nth t upa 0)%Z) ->
  let '(cds, out, (nrow, ncol)) := up_ihu sds upa subnrow subncol cs ea in
  no_marker cds (nrow * ncol) ->
  length cds = nrow * ncol /\ length out = nrow * ncol /\
  (forall idx0, idx0 < nrow * ncol ->
     (nth idx0 cds (nrow * ncol) = nrow * ncol <-> nth idx0 out (length sds) = length sds) /\
     (nth idx0 cds (nrow * ncol) < nrow * ncol <-> nth idx0 out (length sds) < length sds)).
Proof. exact IhuValid.up_ihu_valid_iff_outlet. Qed.
Print Assumptions up_ihu_valid_iff_outlet.
Theorem up_ihu_outlet_cell_valid : forall sds sq upa subnrow subncol cs ea, 0 < cs -> 0 < subncol -> length sds = subnrow * subncol ->
  topo sds sq -> complete sds sq ->
  (forall t, t < length sds -> sd sds t < length sds -> in_d8 t (sd sds t) subncol = true) ->
  check_cross sds ea subncol cs = true ->
  (forall t, t < length sds -> sd sds t < length sds -> (0 < nth t upa 0)%Z) ->
  let '(cds, out, (nrow, ncol)) := up_ihu sds upa subnrow subncol cs ea in
  no_marker cds (nrow * ncol) ->
  forall idx0, idx0 < nrow * ncol -> nth idx0 out (length sds) < length sds ->
  sd sds (nth idx0 out (length sds)) < length sds /\
  sub2idx (nth idx0 out (length sds)) subncol cs ncol < nrow * ncol /\
  nth (sub2idx (nth idx0 out (length sds)) subncol cs ncol) cds (nrow * ncol) < nrow * ncol /\
  nth (sub2idx (nth idx0 out (length sds)) subncol cs ncol) out (length sds) < length sds.
Proof. exact IhuValid.up_ihu_outlet_cell_valid. Qed.
Print Assumptions up_ihu_outlet_cell_valid.
Theorem up_ihu_outlet_cell_valid_refuted :
  exists sds sq upa subnrow subncol cs ea, 0 < cs /\ 0 < subncol /\ length sds = subnrow * subncol /\
    check_topo sds sq = true /\ check_complete sds sq = true /\ check_d8 sds subncol = true /\
    check_cross sds ea subncol cs = true /\ check_upa sds upa = false /\
    up_eam_plus sds upa subnrow subncol cs ea = ([2; 0], [2; 1], (1, 2)) /\
    up_ihu sds upa subnrow subncol cs ea = ([2; 1], [2; 0], (1, 2)) /\
    sub2idx (nth 1 [2; 0] 2) subncol cs 2 = 0 /\ nth 0 [2; 1] 2 = 2.
Proof. exact IhuValid.up_ihu_outlet_cell_valid_refuted. Qed.
Print Assumptions up_ihu_outlet_cell_valid_refuted.

(* ihu SUCCEEDS, and a scale factor of 1 reproduces the input.  The model's error flag (1 = a fuelled walk ran out, 2 = the
   Python `assert idx != idx1` of ihu_optimize_rivlen failed) is never set on legal inputs: every walk of the stages ends
   through its own exit test within its fuel, and the assert cannot fail (a rank on the coarse cells that decreases along
   valid links, established by upscale_check and kept by every relinking).  So the two theorems above hold without the
   no-error hypothesis; and with cs = 1 the iterative stages change nothing. *)
From PF Require Import IhuNoMarker IhuScale1.
Theorem up_ihu_no_marker : forall sds sq upa subnrow subncol cs ea, 0 < cs -> 0 < subncol -> length sds = subnrow * subncol ->
  topo sds sq -> complete sds sq ->
  (forall t, t < length sds -> sd sds t < length sds -> in_d8 t (sd sds t) subncol = true) ->
  check_cross sds ea subncol cs = true ->
  (forall t, t < length sds -> sd sds t < length sds -> (0 < nth t upa 0)%Z) ->
  let '(cds, _, (nrow, ncol)) := up_ihu sds upa subnrow subncol cs ea in no_marker cds (nrow * ncol).
Proof. exact IhuNoMarker.up_ihu_no_marker. Qed.
Print Assumptions up_ihu_no_marker.
Theorem up_ihu_valid_iff_outlet_total : forall sds sq upa subnrow subncol cs ea, 0 < cs -> 0 < subncol ->
  length sds = subnrow * subncol -> topo sds sq -> complete sds sq ->
  (forall t, t < length sds -> sd sds t < length sds -> in_d8 t (sd sds t) subncol = true) ->
  check_cross sds ea subncol cs = true ->
  (forall t, t < length sds -> sd sds t < length sds -> (0 < nth t upa 0)%Z) ->
  let '(cds, out, (nrow, ncol)) := up_ihu sds upa subnrow subncol cs ea in
  length cds = nrow * ncol /\ length out = nrow * ncol /\
  (forall idx0, idx0 < nrow * ncol ->
     (nth idx0 cds (nrow * ncol) = nrow * ncol <-> nth idx0 out (length sds) = length sds) /\
     (nth idx0 cds (nrow * ncol) < nrow * ncol <-> nth idx0 out (length sds) < length sds)).
Proof. exact IhuNoMarker.up_ihu_valid_iff_outlet_total. Qed.
Print Assumptions up_ihu_valid_iff_outlet_total.
Theorem up_ihu_scale1 : forall sds upa subnrow subncol ea, 0 < subncol -> length sds = subnrow * subncol ->
  (forall t, t < length sds -> sd sds t < length sds -> sd sds (sd sds t) < length sds) ->
  (forall t, t < length sds -> sd sds t <= length sds) ->
  (forall t, t < length sds -> sd sds t < length sds -> (0 < nth t upa 0)%Z) ->
  (forall t, t < length sds -> sd sds t < length sds -> eaf ea t = true) ->
  (forall t, t < length sds -> sd sds t < length sds -> in_d8 t (sd sds t) subncol = true) ->
  up_ihu sds upa subnrow subncol 1 ea = up_eam_plus sds upa subnrow subncol 1 ea.
Proof. exact IhuScale1.up_ihu_scale1. Qed.
Print Assumptions up_ihu_scale1.
Theorem up_ihu_scale1_net : forall sds upa subnrow subncol ea, 0 < subncol -> length sds = subnrow * subncol ->
  (forall t, t < length sds -> sd sds t < length sds -> sd sds (sd sds t) < length sds) ->
  (forall t, t < length sds -> sd sds t <= length sds) ->
  (forall t, t < length sds -> sd sds t < length sds -> (0 < nth t upa 0)%Z) ->
  (forall t, t < length sds -> sd sds t < length sds -> eaf ea t = true) ->
  (forall t, t < length sds -> sd sds t < length sds -> in_d8 t (sd sds t) subncol = true) ->
  fst (fst (up_ihu sds upa subnrow subncol 1 ea)) = sds.
Proof. exact IhuScale1.up_ihu_scale1_net. Qed.
Print Assumptions up_ihu_scale1_net.

(* KNOWN FINDING F9c: the coarse network of ihu is NOT always loop-free, even for true cell-count upstream areas: two witnesses
   (a 3-cycle made by ihu_optimize_rivlen, a 2-cycle made by ihu_minimize_error), found by random search with the extracted model
   and reproduced against the implementation, where FlwdirRaster.upscale raises 'network is invalid'.  What holds: every cycle of
   the result passes through a coarse cell that the last connection check did not flag as valid (a cell with an upscale error). *)
From PF Require Import IhuLoop IhuLoopFlagged IhuLoopFlaggedIter.
Theorem up_ihu_loop_refuted :
  exists sds sq upa subnrow subncol cs ea, 0 < cs /\ 0 < subncol /\ length sds = subnrow * subncol /\ topo sds sq /\ complete sds sq /\
    (forall t, t < length sds -> sd sds t < length sds -> in_d8 t (sd sds t) subncol = true) /\
    check_cross sds ea subncol cs = true /\
    (forall t, t < length sds -> sd sds t < length sds -> (0 < nth t upa 0)%Z) /\
    (forall t, t < length sds -> sd sds t < length sds -> sd sds t <> t -> (nth t upa 0 < nth (sd sds t) upa 0)%Z) /\
    (forall t, t < length sds -> sd sds t < length sds -> nth t upa 0%Z = acc1 sds upa t) /\
    (let '(cds, _, (nrow, ncol)) := up_ihu sds upa subnrow subncol cs ea in
     no_marker cds (nrow * ncol) /\ length cds = nrow * ncol /\ (exists k i, on_cycle cds (nrow * ncol) k i) /\ ~ loopfree cds (nrow * ncol)).
Proof. exact IhuLoop.up_ihu_loop_refuted. Qed.
Print Assumptions up_ihu_loop_refuted.
Theorem up_ihu_loop_refuted_minimize_error :
  exists sds sq upa subnrow subncol cs ea, 0 < cs /\ 0 < subncol /\ length sds = subnrow * subncol /\ topo sds sq /\ complete sds sq /\
    (forall t, t < length sds -> sd sds t < length sds -> in_d8 t (sd sds t) subncol = true) /\
    check_cross sds ea subncol cs = true /\
    (forall t, t < length sds -> sd sds t < length sds -> (0 < nth t upa 0)%Z) /\
    (forall t, t < length sds -> sd sds t < length sds -> sd sds t <> t -> (nth t upa 0 < nth (sd sds t) upa 0)%Z) /\
    (forall t, t < length sds -> sd sds t < length sds -> nth t upa 0%Z = acc1 sds upa t) /\
    (let '(cds, _, (nrow, ncol)) := up_ihu sds upa subnrow subncol cs ea in
     no_marker cds (nrow * ncol) /\ length cds = nrow * ncol /\
     (exists i j, i <> j /\ i < nrow * ncol /\ j < nrow * ncol /\ nth i cds (nrow * ncol) = j /\ nth j cds (nrow * ncol) = i) /\
     ~ loopfree cds (nrow * ncol)).
Proof. exact IhuLoop.up_ihu_loop_refuted_minimize_error. Qed.
Print Assumptions up_ihu_loop_refuted_minimize_error.
Theorem up_ihu_cycle_through_unflagged : forall sds sq upa subnrow subncol cs ea, 0 < cs -> 0 < subncol ->
  length sds = subnrow * subncol -> topo sds sq -> complete sds sq ->
  (forall t, t < length sds -> sd sds t < length sds -> in_d8 t (sd sds t) subncol = true) ->
  check_cross sds ea subncol cs = true ->
  (forall t, t < length sds -> sd sds t < length sds -> (0 < nth t upa 0)%Z) ->
  let '(cds, out, (nr, ncl)) := up_ihu sds upa subnrow subncol cs ea in
  exists (a1 : A) (p1 : nat),
    let c := upscale_check sds cs nr ncl (a_out a1) (a_cds a1) in
    let a2 := {| a_cds := a_cds a1; a_out := a_out a1; a_st := c_st c;
                 a_err := if c_ok c then a_err a1 else if Nat.eqb (a_err a1) 0 then 1 else a_err a1 |} in
    let res := minimize_error sds upa subncol cs nr ncl (c_fix c) p1 (optimize_rivlen sds upa subncol cs nr ncl (c_valid c) (c_short c) a2) in
    cds = a_cds res /\ out = a_out res /\
    (forall k i, on_cycle cds (nr * ncl) k i -> exists j, j < k /\ nth (iter_ds cds (nr * ncl) j i) (c_valid c) true = false).
Proof. exact IhuLoopFlaggedIter.up_ihu_cycle_through_unflagged. Qed.
Print Assumptions up_ihu_cycle_through_unflagged.

(* TIE BY TRANSLATION: the non-iterative upscaling kernels of upscale.py regenerated from the source on every run
   (generated/GenUpscale.v, tools/gen_upscale.py: `while True ... break` loops become fuelled Fixpoints with the models' fuel and
   error values, the half-cell offsets of dmm_nextidx exact doubled integers, effective_area an abstract selector) ARE the
   models the theorems above are about -- for every network (cycles included) and every array length *)
From PF Require Import GenUpscaleBaseEq GenUpscaleRepEq GenUpscaleWalkEq GenUpscaleIhuEq GenUpscaleErrEq.
From PFG Require Import GenUpscale.
Local Open Scope Z_scope.
Theorem gen_up_subidx_2_idx_eq : forall subidx subncol cs ncol : nat,
  gen_up_subidx_2_idx (Z.of_nat subidx) (Z.of_nat subncol) (Z.of_nat cs) (Z.of_nat ncol) = Z.of_nat (sub2idx subidx subncol cs ncol).
Proof. exact GenUpscaleBaseEq.gen_up_subidx_2_idx_eq. Qed.
Print Assumptions gen_up_subidx_2_idx_eq.
Theorem gen_up_in_d8_eq : forall idx0 idx_ds ncol : nat,
  gen_up_in_d8 (Z.of_nat idx0) (Z.of_nat idx_ds) (Z.of_nat ncol) = in_d8 idx0 idx_ds ncol.
Proof. exact GenUpscaleBaseEq.gen_up_in_d8_eq. Qed.
Print Assumptions gen_up_in_d8_eq.
Theorem gen_up_cell_edge_eq : forall subidx subncol cs : nat,
  gen_up_cell_edge (Z.of_nat subidx) (Z.of_nat subncol) (Z.of_nat cs) = cell_edge subidx subncol cs.
Proof. exact GenUpscaleBaseEq.gen_up_cell_edge_eq. Qed.
Print Assumptions gen_up_cell_edge_eq.
Theorem gen_up_dmm_exitcell_eq : forall (sds : list nat) (upa : list Z) (subnrow : Z) (subncol cs nrow ncol : nat),
  gen_up_dmm_exitcell sds upa (subnrow, Z.of_nat subncol) (Z.of_nat nrow, Z.of_nat ncol) (Z.of_nat cs) =
  repcell sds upa subncol cs nrow ncol (fun s => cell_edge s subncol cs).
Proof. exact GenUpscaleRepEq.gen_up_dmm_exitcell_eq. Qed.
Print Assumptions gen_up_dmm_exitcell_eq.
Theorem gen_up_eam_repcell_eq : forall (sds : list nat) (upa : list Z) (subnrow : Z) (subncol cs nrow ncol : nat) (ea : nat -> bool),
  gen_up_eam_repcell sds upa (subnrow, Z.of_nat subncol) (Z.of_nat nrow, Z.of_nat ncol) (Z.of_nat cs) ea =
  repcell sds upa subncol cs nrow ncol ea.
Proof. exact GenUpscaleRepEq.gen_up_eam_repcell_eq. Qed.
Print Assumptions gen_up_eam_repcell_eq.
Theorem gen_up_dmm_nextidx_eq : forall (sds : list nat) (subnrow : Z) (subncol cs nrow ncol : nat) (rep : list nat),
  gen_up_dmm_nextidx rep sds (subnrow, Z.of_nat subncol) (Z.of_nat nrow, Z.of_nat ncol) (Z.of_nat cs) =
  dmm_nextidx sds subncol cs nrow ncol rep.
Proof. exact GenUpscaleWalkEq.gen_up_dmm_nextidx_eq. Qed.
Print Assumptions gen_up_dmm_nextidx_eq.
Theorem gen_up_eam_nextidx_eq : forall (sds : list nat) (subnrow : Z) (subncol cs nrow ncol : nat) (rep : list nat) (ea : list bool),
  gen_up_eam_nextidx rep sds (subnrow, Z.of_nat subncol) (Z.of_nat nrow, Z.of_nat ncol) (Z.of_nat cs) (eaf ea) =
  eam_nextidx sds subncol cs nrow ncol ea rep.
Proof. exact GenUpscaleWalkEq.gen_up_eam_nextidx_eq. Qed.
Print Assumptions gen_up_eam_nextidx_eq.
Theorem gen_up_ihu_outlets_eq : forall (sds : list nat) (subnrow : Z) (subncol cs nrow ncol : nat) (rep : list nat) (upa : list Z),
  gen_up_ihu_outlets rep sds upa (subnrow, Z.of_nat subncol) (Z.of_nat nrow, Z.of_nat ncol) (Z.of_nat cs) =
  ihu_outlets sds subncol cs nrow ncol rep.
Proof. exact GenUpscaleWalkEq.gen_up_ihu_outlets_eq. Qed.
Print Assumptions gen_up_ihu_outlets_eq.
Theorem gen_up_ihu_nextidx_eq : forall (sds : list nat) (subnrow : Z) (subncol cs nrow ncol : nat) (ea : list bool),
  (length ea <= length sds)%nat -> forall out : list nat,
  fst (gen_up_ihu_nextidx out sds (subnrow, Z.of_nat subncol) (Z.of_nat nrow, Z.of_nat ncol) (Z.of_nat cs) (eaf ea)) =
  ihu_nextidx sds subncol cs nrow ncol ea out.
Proof. exact GenUpscaleIhuEq.gen_up_ihu_nextidx_eq. Qed.
Print Assumptions gen_up_ihu_nextidx_eq.
Theorem gen_up_upscale_error_eq : forall sds out cds : list nat, length out = length cds ->
  option_map fst (gen_up_upscale_error out cds sds) = Some (upscale_error sds out cds).
Proof. exact GenUpscaleErrEq.gen_up_upscale_error_eq. Qed.
Print Assumptions gen_up_upscale_error_eq.
Theorem gen_up_upscale_error_assert : forall sds out cds : list nat, length out <> length cds ->
  gen_up_upscale_error out cds sds = None.
Proof. exact GenUpscaleErrEq.gen_up_upscale_error_assert. Qed.
Print Assumptions gen_up_upscale_error_assert.

(* The ITERATIVE stages regenerated from the source as well (generated/GenIhu.v, tools/gen_ihu.py): next_outlet, outlet_pix,
   upscale_check, new_outlet, ihu_optimize_rivlen, ihu_minimize_error, core._d8_idx / _upstream_d8_idx and the driver loop of
   `ihu` ARE the definitions of theories/Ihu.v (None = the model's error flag; the 10^6-step range of ihu_minimize_error is
   translated as written and proved to agree with the model's cut-off after nc + 2 steps).  In the theorem below
   ihu_relocate_outlets enters the generated driver as a parameter required to behave like the model's `relocate`; further down
   the regenerated ihu_relocate_outlets itself is plugged in and that hypothesis disappears.  The hypothesis
   nomv_cell (the stand-in cell computed for a missing downstream pixel is never the pixel's own cell) holds in particular when
   no pixel of the network drains to a missing pixel. *)
From PF Require Import GenIhuBaseEq GenIhuCheckEq GenIhuOptEq GenIhuMinEq GenIhuDrvEq.
From PFG Require Import GenIhu.
Local Open Scope nat_scope.
Theorem gen_ihu_upscale_check_eq : forall (sds : list nat) (cs nrow ncol : nat) (out cds : list nat),
  length out = nrow * ncol -> length cds = nrow * ncol -> (Z.of_nat (nrow * ncol) <= 2147483648)%Z ->
  gen_ihu_upscale_check (S (length sds)) out cds sds (Z.of_nat cs) =
  (let c := upscale_check sds cs nrow ncol out cds in if c_ok c then Some (c_valid c, c_st c, c_fix c, c_short c) else None).
Proof. exact GenIhuCheckEq.gen_ihu_upscale_check_eq. Qed.
Print Assumptions gen_ihu_upscale_check_eq.
Theorem gen_ihu_optimize_rivlen_eq : forall (sds : list nat) (upa : list Z) (subnrow : Z) (subncol cs nrow ncol : nat)
  (valid : list bool) (short : list nat) (a : A),
  nomv_cell sds subncol cs ncol -> a_err a = 0 -> length (a_cds a) = nrow * ncol ->
  gen_ihu_ihu_optimize_rivlen (S (length sds)) short valid (a_st a) (a_cds a) (a_out a) sds upa (subnrow, Z.of_nat subncol)
    (Z.of_nat nrow, Z.of_nat ncol) (Z.of_nat cs) (Z.of_nat cs) (Z.of_nat (cs * cs)) =
  (let a' := optimize_rivlen sds upa subncol cs nrow ncol valid short a in
   if Nat.eqb (a_err a') 0 then Some (a_cds a', a_out a', a_st a') else None).
Proof. exact GenIhuOptEq.gen_ihu_optimize_rivlen_eq. Qed.
Print Assumptions gen_ihu_optimize_rivlen_eq.
Theorem gen_ihu_minimize_error_eq : forall (sds : list nat) (upa : list Z) (subnrow : Z) (subncol cs nrow ncol : nat)
  (valid : list bool) (fixl : list nat) (poc : nat) (a : A),
  nomv_cell sds subncol cs ncol -> a_err a = 0 -> length (a_cds a) = nrow * ncol ->
  gen_ihu_ihu_minimize_error (S (length sds)) fixl valid (a_st a) (a_cds a) (a_out a) sds upa (subnrow, Z.of_nat subncol)
    (Z.of_nat nrow, Z.of_nat ncol) (Z.of_nat cs) (Z.of_nat cs) (Z.of_nat (cs * cs)) (Z.of_nat poc) =
  (let a' := minimize_error sds upa subncol cs nrow ncol fixl poc a in
   if Nat.eqb (a_err a') 0 then Some (a_cds a', a_out a', a_st a') else None).
Proof. exact GenIhuMinEq.gen_ihu_minimize_error_eq. Qed.
Print Assumptions gen_ihu_minimize_error_eq.
Theorem gen_ihu_ihu_up_ihu : forall (sds : list nat) (upa : list Z) (subnrow subncol cs : nat) (ea : list bool)
  (reloc : list nat -> list nat -> list nat -> list nat -> list Z -> Z * Z -> Z * Z -> Z -> option (list nat * list nat * list nat))
  (rfix : list nat -> list nat -> list nat -> list nat),
  let nrow := cdiv subnrow cs in let ncol := cdiv subncol cs in
  length ea <= length sds -> nomv_cell sds subncol cs ncol -> (Z.of_nat (nrow * ncol) <= 2147483648)%Z ->
  (forall fixl cds out : list nat,
     reloc fixl cds out sds upa (Z.of_nat subnrow, Z.of_nat subncol) (Z.of_nat nrow, Z.of_nat ncol) (Z.of_nat cs) =
     (let a' := relocate sds upa subncol cs nrow ncol fixl {| a_cds := cds; a_out := out; a_st := nil; a_err := 0 |} in
      if Nat.eqb (a_err a') 0 then Some (a_cds a', a_out a', rfix fixl cds out) else None)) ->
  forall (cds out : list nat) (sh : Z * Z),
  gen_ihu_ihu (S (length sds)) sds upa (Z.of_nat subnrow, Z.of_nat subncol) (Z.of_nat cs) 5%Z true true 2%Z (eaf ea) reloc = Some (cds, out, sh) ->
  up_ihu sds upa subnrow subncol cs ea = (cds, out, (nrow, ncol)) /\ sh = (Z.of_nat nrow, Z.of_nat ncol).
Proof. exact GenIhuDrvEq.gen_ihu_ihu_up_ihu. Qed.
Print Assumptions gen_ihu_ihu_up_ihu.

(* ihu_relocate_outlets, the last iterative stage, regenerated from the source as well (tools/gen_ihu.py) and plugged into the
   generated driver: no hypothesis about relocate is left.  relocate_pf pf is Ihu.relocate with the fuel of the loop
   `while len(bottleneck) > nbottlenecks` as a parameter (the model uses S (S (S nc)), the generated text S nsub; the instance
   pf = S (S (S nc)) is the model by reflexivity: GenIhuRelModel).  When the hand model reports no error (up_ihu_no_marker
   proves that under the checked hypotheses) and the fine raster has at least nc + 2 pixels, the fully generated driver
   returns exactly up_ihu (the fuel of the passes does not matter once they succeed: ihu_iter_pf_fuel_mono). *)
From PF Require Import GenIhuRelModel GenIhuRelEq GenIhuRelDrv.
Theorem gen_ihu_relocate_outlets_pf_eq : forall sds upa (subnrow : Z) subncol cs nrow ncol fixl cds out,
  length cds = (nrow * ncol)%nat ->
  gen_ihu_ihu_relocate_outlets (S (length sds)) fixl cds out sds upa (subnrow, Z.of_nat subncol) (Z.of_nat nrow, Z.of_nat ncol)
    (Z.of_nat cs)
  = (let a' := relocate_pf (S (length sds)) sds upa subncol cs nrow ncol fixl (mkA cds out [] 0) in
     if (a_err a' =? 0)%nat
     then Some (a_cds a', a_out a', rel_fix3 sds upa subnrow subncol cs nrow ncol fixl cds out) else None).
Proof. exact GenIhuRelEq.gen_ihu_relocate_outlets_pf_eq. Qed.
Print Assumptions gen_ihu_relocate_outlets_pf_eq.
Theorem gen_ihu_ihu_closed_pf : forall (sds : list nat) (upa : list Z) (subnrow subncol cs : nat) (ea : list bool),
  let nrow := cdiv subnrow cs in
  let ncol := cdiv subncol cs in
  (length ea <= length sds)%nat ->
  nomv_cell sds subncol cs ncol ->
  (Z.of_nat (nrow * ncol) <= 2147483648)%Z ->
  forall cds out sh,
  gen_ihu_ihu (S (length sds)) sds upa (Z.of_nat subnrow, Z.of_nat subncol) (Z.of_nat cs) 5%Z true true 2%Z (eaf ea)
              (gen_ihu_ihu_relocate_outlets (S (length sds)))
  = Some (cds, out, sh) ->
  up_ihu_pf (S (length sds)) sds upa subnrow subncol cs ea = (cds, out, (nrow, ncol)) /\ sh = (Z.of_nat nrow, Z.of_nat ncol).
Proof. exact GenIhuRelDrv.gen_ihu_ihu_closed_pf. Qed.
Print Assumptions gen_ihu_ihu_closed_pf.
Theorem gen_ihu_ihu_closed_noerr : forall (sds : list nat) (upa : list Z) (subnrow subncol cs : nat) (ea : list bool),
  let nrow := cdiv subnrow cs in
  let ncol := cdiv subncol cs in
  (length ea <= length sds)%nat ->
  nomv_cell sds subncol cs ncol ->
  (Z.of_nat (nrow * ncol) <= 2147483648)%Z ->
  (S (S (nrow * ncol)) <= length sds)%nat ->
  (let rep := repcell sds upa subncol cs nrow ncol (eaf ea) in
   let out := ihu_outlets sds subncol cs nrow ncol rep in
   let cds := ihu_nextidx sds subncol cs nrow ncol ea out in
   let fixl := ihu_fix sds subncol cs nrow ncol out in
   a_err (ihu_iter sds upa subncol cs nrow ncol 5 0 (mkA cds out [] 0) fixl) = 0%nat) ->
  forall cds out sh,
  gen_ihu_ihu (S (length sds)) sds upa (Z.of_nat subnrow, Z.of_nat subncol) (Z.of_nat cs) 5%Z true true 2%Z (eaf ea)
              (gen_ihu_ihu_relocate_outlets (S (length sds)))
  = Some (cds, out, sh) ->
  up_ihu sds upa subnrow subncol cs ea = (cds, out, (nrow, ncol)) /\ sh = (Z.of_nat nrow, Z.of_nat ncol).
Proof. exact GenIhuRelDrv.gen_ihu_ihu_closed_noerr. Qed.
Print Assumptions gen_ihu_ihu_closed_noerr.
