(* C16 -- Results do not depend on the integer type used for cell indices (theorem part). *)
From Coq Require Import List Arith ZArith Bool.
Import ListNotations.
From PF Require Import Dtype.
From PFG Require Import GenDtype.
Local Open Scope Z_scope.

(* over the thresholds REGENERATED from pyflwdir.from_array: the selected type represents every index and
   its sentinel is not an index -- for every raster size up to 2^64 - 2 cells *)
Theorem dtype_selection_sound : forall n, 0 <= n < 2 ^ 64 - 1 ->
  let t := select_dtype n in
  representable t (sentinel t) /\ forall i, 0 <= i < n -> representable t i /\ i <> sentinel t.
Proof. exact Dtype.dtype_selection_sound. Qed.
Print Assumptions dtype_selection_sound.
Theorem dtype_thresholds : select_dtype 2147483646 = 0 /\ select_dtype 2147483647 = 1 /\
                           select_dtype 4294967293 = 1 /\ select_dtype 4294967294 = 2.
Proof. vm_compute. auto. Qed.
Print Assumptions dtype_thresholds.

(* a network survives encoding with the type's sentinel and decoding: the models of all other properties
   work on decoded networks, so by construction no model result depends on the sentinel *)
Theorem sentinel_roundtrip : forall t g, (forall d, In d g -> (d <= length g)%nat) -> Z.of_nat (length g) <= hi t ->
  (0 <= t <= 3) -> (forall d, In d g -> (d < length g)%nat -> Z.of_nat d <> sentinel t) ->
  decode_net t (encode_net t g) = g.
Proof. exact Dtype.sentinel_roundtrip. Qed.
Print Assumptions sentinel_roundtrip.
Theorem selected_roundtrip : forall g, Z.of_nat (length g) < 2 ^ 64 - 1 -> (forall d, In d g -> (d <= length g)%nat) ->
  decode_net (select_dtype (Z.of_nat (length g))) (encode_net (select_dtype (Z.of_nat (length g))) g) = g.
Proof. exact Dtype.selected_roundtrip. Qed.
Print Assumptions selected_roundtrip.

(* same-type unsigned subtraction wraps unless the minuend is the larger one *)
Theorem usub_wraps : usub 32 5 7 = 4294967294 /\ Z.abs (5 - 7) = 2.
Proof. exact Dtype.usub_wraps. Qed.
Print Assumptions usub_wraps.
Theorem usub_ok : forall w a b, 0 <= b <= a -> a < 2 ^ w -> usub w a b = a - b.
Proof. exact Dtype.usub_ok. Qed.
Print Assumptions usub_ok.
