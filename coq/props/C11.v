(* C11 -- Path tracing and snapping follow the network and stop exactly where specified. *)
From Coq Require Import List Arith ZArith Bool.
Import ListNotations.
From PF Require Import Arr Net Trace TraceSpec Stream StreamSpec.
Local Open Scope Z_scope.

(* nxt is idxs_ds (downstream) or the main-upstream array (upstream); any mask, maximum length and
   step-length function.  The path is a prefix of the orbit of the start cell, ends at the first cell
   where a stop condition holds (never earlier, never later), and the length is the sum of the steps. *)
Theorem trace_spec : forall nxt mask maxlen len fuel cur d0 p D,
  trace nxt mask maxlen len fuel cur d0 = Some (p, D) ->
  exists k, length p = S k /\
    (forall m, (m <= k)%nat -> nth m p 0%nat = orbit nxt m cur) /\
    (forall m, (m < k)%nat -> stops nxt mask maxlen len (d0 + travelled nxt len m cur) (orbit nxt m cur) = false) /\
    stops nxt mask maxlen len (d0 + travelled nxt len k cur) (orbit nxt k cur) = true /\
    D = d0 + travelled nxt len k cur.
Proof. exact TraceSpec.trace_spec. Qed.
Print Assumptions trace_spec.

(* what a stop condition is *)
Theorem stops_def : forall nxt mask maxlen len dist i,
  stops nxt mask maxlen len dist i =
  masked mask i || ((nx nxt i =? i)%nat || (length nxt <=? nx nxt i)%nat) ||
  match maxlen with None => false | Some M => dist + len i (nx nxt i) >? M end.
Proof. reflexivity. Qed.
Print Assumptions stops_def.

(* it returns (fuel suffices) whenever some cell of the orbit stops within `fuel` steps: in particular on
   every loop-free network with fuel = number of cells, and on any network once a mask / maximum applies *)
Theorem trace_total : forall nxt mask maxlen len fuel cur d0 k, (k <= fuel)%nat ->
  stops nxt mask maxlen len (d0 + travelled nxt len k cur) (orbit nxt k cur) = true ->
  exists r, trace nxt mask maxlen len fuel cur d0 = Some r.
Proof. exact TraceSpec.trace_total. Qed.
Print Assumptions trace_total.

Theorem trace_in_bounds : forall nxt mask maxlen len fuel cur d0 p D, (cur < length nxt)%nat ->
  trace nxt mask maxlen len fuel cur d0 = Some (p, D) -> forall x, In x p -> (x < length nxt)%nat.
Proof. exact TraceSpec.trace_in_bounds. Qed.
Print Assumptions trace_in_bounds.

(* the upstream direction follows, at each step, the upstream neighbour with the largest upstream area *)
Theorem upstream_follows_main : forall ds uparea upa_min d, (d < size ds)%nat ->
  let r := nth d (main_upstream ds uparea upa_min) (size ds) in
  (r = size ds /\ forall c, (c < size ds)%nat -> dsf ds c = d -> c <> d -> nth c uparea 0 <= upa_min) \/
  ((r < size ds)%nat /\ dsf ds r = d /\ r <> d /\ upa_min < nth r uparea 0 /\
   forall c, (c < size ds)%nat -> dsf ds c = d -> c <> d ->
     nth c uparea 0 <= nth r uparea 0 /\ ((c < r)%nat -> nth c uparea 0 < nth r uparea 0)).
Proof. exact StreamSpec.main_upstream_spec. Qed.
Print Assumptions upstream_follows_main.

(* non-vacuity: 3 -> 2 -> 1 -> 0 (pit), mask at 1, unit steps: stops at the mask; with max length 1 after one step *)
Example trace_example :
  trace [0;0;1;2]%nat (Some [false;true;false;false]) None (fun _ _ => 1) 5 3%nat 0 = Some ([3;2;1]%nat, 2) /\
  trace [0;0;1;2]%nat None (Some 1) (fun _ _ => 1) 5 3%nat 0 = Some ([3;2]%nat, 1).
Proof. vm_compute. auto. Qed.

(* core._trace, core.path and core.snap regenerated from the source ARE the model (the step length gis_utils.distance stays an
   abstract function, 1 per step when lengths are counted in cells) *)
From PF Require Import GenCoreTraceEq GenCorePathEq.
From PFG Require Import GenCore.
Theorem gen__trace_eq : forall (fuel idx0 : nat) (nxt : list nat) (ncol_given : bool) (mask : option (list bool)) (maxlen : option Z)
  (real_length : bool) (steplen : nat -> nat -> Z),
  gen__trace fuel idx0 nxt ncol_given mask maxlen real_length steplen =
  trace nxt mask maxlen (fun a b => if (real_length && ncol_given)%bool then steplen a b else 1%Z) fuel idx0 0%Z.
Proof. exact GenCoreTraceEq.gen__trace_eq. Qed.
Print Assumptions gen__trace_eq.
Theorem gen_path_eq : forall (fuel : nat) (idxs0 nxt : list nat) (ncol_given : bool) (mask : option (list bool)) (maxlen : option Z)
  (real_length : bool) (steplen : nat -> nat -> Z),
  gen_path fuel idxs0 nxt ncol_given mask maxlen real_length steplen =
  path_model nxt mask maxlen (fun a b => if (real_length && ncol_given)%bool then steplen a b else 1%Z) fuel idxs0.
Proof. exact GenCorePathEq.gen_path_eq. Qed.
Print Assumptions gen_path_eq.
Theorem gen_snap_eq : forall (fuel : nat) (idxs0 nxt : list nat) (ncol_given : bool) (mask : option (list bool)) (maxlen : option Z)
  (real_length : bool) (steplen : nat -> nat -> Z),
  gen_snap fuel idxs0 nxt ncol_given mask maxlen real_length steplen =
  snap_model nxt mask maxlen (fun a b => if (real_length && ncol_given)%bool then steplen a b else 1%Z) fuel idxs0.
Proof. exact GenCorePathEq.gen_snap_eq. Qed.
Print Assumptions gen_snap_eq.
