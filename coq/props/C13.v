(* C13 -- Operations terminate and stay in bounds: the part that is a theorem (walks along the network). *)
From Coq Require Import List Arith ZArith Bool.
Import ListNotations.
From PF Require Import Arr Net Elev Upscale Trace TraceSpec Rank RankSpec NetBound.

(* From every cell of a topological order a pit is reached in fewer steps than there are cells: every `while True`
   trace that follows idxs_ds on a loop-free network stops within n iterations. *)
Theorem path_bound : forall ds sq, topo ds sq -> forall i, In i sq ->
  exists k, k < length ds /\ pit ds (iter ds k i) /\ (forall j, j < k -> dsf ds (iter ds j i) <> iter ds j i).
Proof. exact NetBound.path_bound. Qed.
Print Assumptions path_bound.

(* core._trace / path / snap downstream: a result with fuel n for every mask, maximum length and step length *)
Theorem trace_terminates : forall ds sq, topo ds sq -> forall mask maxlen len cur d0, In cur sq ->
  exists r, trace ds mask maxlen len (length ds) cur d0 = Some r.
Proof. exact NetBound.trace_terminates. Qed.
Print Assumptions trace_terminates.

(* ... and every visited cell is a cell of the raster *)
Theorem trace_in_bounds : forall nxt mask maxlen len fuel cur d0 p D, cur < length nxt ->
  trace nxt mask maxlen len fuel cur d0 = Some (p, D) -> forall x, In x p -> x < length nxt.
Proof. exact TraceSpec.trace_in_bounds. Qed.
Print Assumptions trace_in_bounds.

(* the connection-check walk (upscale_error; same loop as next_outlet) ends inside the raster *)
Theorem err_walk_terminates : forall ds sq, topo ds sq -> forall om s, In s sq -> err_walk ds (S (length ds)) om s < length ds.
Proof. exact NetBound.err_walk_terminates. Qed.
Print Assumptions err_walk_terminates.

(* core.rank's explicit-stack walk halts on EVERY closed graph, loops included, with a definite answer for every cell *)
Theorem rank_total : forall ds, wf ds -> let ranks := fst (rank ds) in
  length ranks = size ds /\
  forall i, i < size ds ->
    (~ valid ds i -> nth i ranks RU = RU) /\
    (valid ds i -> forall k, steps ds i k <-> nth i ranks RU = Z.of_nat k) /\
    (valid ds i -> (~ drains ds i <-> nth i ranks RU = (-1)%Z)).
Proof. exact RankSpec.rank_spec. Qed.
Print Assumptions rank_total.

(* the `while True` traces of upscale.py (eam_nextidx, ihu_outlets, dmm_nextidx) return on every loop-free fine
   network -- with a coarse cell index / a pixel inside the raster -- before the model's fuel n + 1 is used up *)
Theorem eam_walk_terminates : forall sds sq, topo sds sq -> forall subncol cs nrow ncol ea,
  (forall t, t < length sds -> cellof subncol cs ncol t < nrow * ncol) ->
  forall idx0 s, In s sq -> eam_walk sds subncol cs nrow ncol ea (S (length sds)) idx0 s < nrow * ncol.
Proof. exact NetBound.eam_walk_terminates. Qed.
Print Assumptions eam_walk_terminates.

Theorem out_walk_terminates : forall sds sq, topo sds sq -> forall subncol cs ncol idx0 s, In s sq ->
  out_walk sds subncol cs ncol (S (length sds)) idx0 s < length sds.
Proof. exact NetBound.out_walk_terminates. Qed.
Print Assumptions out_walk_terminates.

Theorem dmm_walk_terminates : forall sds sq, topo sds sq -> forall subncol cs nrow ncol,
  (forall t, t < length sds -> cellof subncol cs ncol t < nrow * ncol) ->
  forall idx0 s0 s, In s sq ->
  dmm_walk sds subncol cs nrow ncol (S (length sds)) idx0 s0 s (cellof subncol cs ncol s) < nrow * ncol.
Proof. exact NetBound.dmm_walk_terminates. Qed.
Print Assumptions dmm_walk_terminates.
