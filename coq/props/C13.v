(* C13 -- Operations terminate and stay in bounds: the part that is a theorem (walks along the network). *)
From Coq Require Import List Arith ZArith Bool.
Import ListNotations.
From PF Require Import Arr Net Elev Upscale Trace TraceSpec Rank RankSpec NetBound.

(* From every cell of a topological order a pit is reached in fewer steps than there are cells: every `while True`
   trace that follows idxs_ds on a loop-free network stops within n iterations. *)
Theorem path_bound : forall ds sq, topo ds sq -> forall i, In i sq ->
  exists k, k < length ds /\ pit ds (iter ds k i) /\ (forall j, j < k -> dsf ds (iter ds j i) <> iter ds j i).
Proof. exact NetBound.path_bound. Qed.
Print Assumptions path_bound.

(* core._trace / path / snap downstream: a result with fuel n for every mask, maximum length and step length *)
Theorem trace_terminates : forall ds sq, topo ds sq -> forall mask maxlen len cur d0, In cur sq ->
  exists r, trace ds mask maxlen len (length ds) cur d0 = Some r.
Proof. exact NetBound.trace_terminates. Qed.
Print Assumptions trace_terminates.

(* ... and every visited cell is a cell of the raster *)
Theorem trace_in_bounds : forall nxt mask maxlen len fuel cur d0 p D, cur < length nxt ->
  trace nxt mask maxlen len fuel cur d0 = Some (p, D) -> forall x, In x p -> x < length nxt.
Proof. exact TraceSpec.trace_in_bounds. Qed.
Print Assumptions trace_in_bounds.

(* the connection-check walk (upscale_error; same loop as next_outlet) ends inside the raster *)
Theorem err_walk_terminates : forall ds sq, topo ds sq -> forall om s, In s sq -> err_walk ds (S (length ds)) om s < length ds.
Proof. exact NetBound.err_walk_terminates. Qed.
Print Assumptions err_walk_terminates.

(* core.rank's explicit-stack walk halts on EVERY closed graph, loops included, with a definite answer for every cell *)
Theorem rank_total : forall ds, wf ds -> let ranks := fst (rank ds) in
  length ranks = size ds /\
  forall i, i < size ds ->
    (~ valid ds i -> nth i ranks RU = RU) /\
    (valid ds i -> forall k, steps ds i k <-> nth i ranks RU = Z.of_nat k) /\
    (valid ds i -> (~ drains ds i <-> nth i ranks RU = (-1)%Z)).
Proof. exact RankSpec.rank_spec. Qed.
Print Assumptions rank_total.

(* the `while True` traces of upscale.py (eam_nextidx, ihu_outlets, dmm_nextidx) return on every loop-free fine
   network -- with a coarse cell index / a pixel inside the raster -- before the model's fuel n + 1 is used up *)
Theorem eam_walk_terminates : forall sds sq, topo sds sq -> forall subncol cs nrow ncol ea,
  (forall t, t < length sds -> cellof subncol cs ncol t < nrow * ncol) ->
  forall idx0 s, In s sq -> eam_walk sds subncol cs nrow ncol ea (S (length sds)) idx0 s < nrow * ncol.
Proof. exact NetBound.eam_walk_terminates. Qed.
Print Assumptions eam_walk_terminates.

Theorem out_walk_terminates : forall sds sq, topo sds sq -> forall subncol cs ncol idx0 s, In s sq ->
  out_walk sds subncol cs ncol (S (length sds)) idx0 s < length sds.
Proof. exact NetBound.out_walk_terminates. Qed.
Print Assumptions out_walk_terminates.

Theorem dmm_walk_terminates : forall sds sq, topo sds sq -> forall subncol cs nrow ncol,
  (forall t, t < length sds -> cellof subncol cs ncol t < nrow * ncol) ->
  forall idx0 s0 s, In s sq ->
  dmm_walk sds subncol cs nrow ncol (S (length sds)) idx0 s0 s (cellof subncol cs ncol s) < nrow * ncol.
Proof. exact NetBound.dmm_walk_terminates. Qed.
Print Assumptions dmm_walk_terminates.

(* ------------------------------------------------------------------------------------------------------------------
   FUEL IS NEVER THE REASON A LOOP STOPS.  Every Python `while` loop is modelled as a Fixpoint over explicit fuel, and
   the model's entry points pass a concrete amount.  The theorems below say that on the documented domain the loop ends
   through its own exit test within that amount: giving it any amount MORE changes nothing (`..._fuel (given + extra) =
   the model`), with the explicit iteration bounds -- the number of cells, or 9 x the number of cells for the spreading
   queue.  `X_fuel` is the model entry point X with its fuel made a parameter (definitions in theories/Term*.v). *)
From PF Require Import Flood Spread Subbas Ucat Vect ElevSpec.
From PF Require Import TermTracem TermSeg TermSwalk TermIhu TermClimb TermRank TermFlood TermSpread TermPfafLoop.
Local Open Scope nat_scope.

(* dem.adjust_elevation: the upstream-to-downstream trace, and the whole pass for every 1-D fixer *)
Theorem tracem_bound : forall ds sq, topo ds sq -> forall mask i, In i sq ->
  let p := tracem ds (length ds) mask i in
  1 <= length p <= length ds /\ NoDup p /\ (forall x, In x p -> x < length ds) /\
  stopb ds mask (last p i) = true /\
  (forall j, S j < length p -> stopb ds mask (nth j p 0) = false /\ nth (S j) p 0 = dsf ds (nth j p 0)).
Proof. exact TermTracem.tracem_bound. Qed.
Print Assumptions tracem_bound.
Theorem adjust_terminates : forall F ds sq, topo ds sq -> forall elv extra,
  adjust_fuel (length ds + extra) F ds sq elv = adjust F ds sq elv.
Proof. exact TermTracem.adjust_terminates. Qed.
Print Assumptions adjust_terminates.

(* subgrid.segment_*: river segment walks;  streams.streams: the vectorisation walk *)
Theorem segment_paths_terminates : forall nxt sq, topo nxt sq -> complete nxt sq -> forall outs mask incl extra,
  segment_paths_fuel (length nxt + extra) nxt outs mask incl = segment_paths nxt outs mask incl.
Proof. exact TermSeg.segment_paths_terminates. Qed.
Print Assumptions segment_paths_terminates.
Theorem segment_paths_short : forall nxt sq, topo nxt sq -> complete nxt sq -> forall outs mask incl p,
  In p (segment_paths nxt outs mask incl) -> length p <= length nxt.
Proof. exact TermSeg.segment_paths_short. Qed.
Print Assumptions segment_paths_short.
Theorem streams_terminates : forall ds sq, topo ds sq -> forall mask max_len extra,
  streams_fuel (length ds + extra) ds sq mask max_len = streams ds sq mask max_len.
Proof. exact TermSwalk.streams_terminates. Qed.
Print Assumptions streams_terminates.

(* upscale.ihu_nextidx (eam_plus): the walk to the next outlet pixel never runs out of fuel; its "no answer" exit is
   characterised exactly (the exit cell is not an 8-neighbour and no effective-area pixel was passed) *)
Theorem up_eam_plus_terminates : forall sds sq, topo sds sq -> complete sds sq -> forall upa subnrow subncol cs ea extra,
  up_eam_plus_fuel (S (length sds) + extra) sds upa subnrow subncol cs ea = up_eam_plus sds upa subnrow subncol cs ea.
Proof. exact TermIhu.up_eam_plus_terminates. Qed.
Print Assumptions up_eam_plus_terminates.
Theorem ihu_walk_none_iff : forall sds subncol cs ncol ea sq, topo sds sq -> forall out idx0 s, In s sq ->
  exists k, k < length sds /\
    (forall j, j < k -> istop sds subncol cs ncol out (iter sds j s) = false) /\
    istop sds subncol cs ncol out (iter sds k s) = true /\
    (ihu_walk sds subncol cs ncol ea (S (length sds)) out idx0 s None = None <->
     in_d8 idx0 (cellof subncol cs ncol (iter sds (S k) s)) ncol = false /\
     (forall j, 1 <= j <= k -> eaf ea (iter sds j s) = false)).
Proof. exact TermIhu.ihu_walk_none_iff. Qed.
Print Assumptions ihu_walk_none_iff.

(* basins.subbasins_pfafstetter: the climbs along main stems and the work loop *)
Theorem climb_fuel : forall ds sq, topo ds sq -> complete ds sq -> forall main,
  (forall x, nth x main (length ds) < length ds -> dsf ds (nth x main (length ds)) = x /\ nth x main (length ds) <> x) ->
  forall stop lab branch cur extra,
  climb (length ds + extra) (length ds) main stop lab branch cur = climb (length ds) (length ds) main stop lab branch cur.
Proof. exact TermClimb.climb_fuel. Qed.
Print Assumptions climb_fuel.
Theorem subbasins_pfafstetter_terminates : forall ds sq, topo ds sq -> forall pits main uparea mask depth extra,
  length pits <= 2 * length ds + 8 ->
  subbasins_pfafstetter_fuel (4 * length ds + 8 + extra) ds pits sq main uparea mask depth =
  subbasins_pfafstetter ds pits sq main uparea mask depth.
Proof. exact TermPfafLoop.subbasins_pfafstetter_terminates. Qed.
Print Assumptions subbasins_pfafstetter_terminates.

(* core.idxs_seq (breadth-first order from the pits) and core.rank (stack walks), on EVERY closed graph, loops included *)
Theorem idxs_seq_fuel : forall ds pits, (forall p, In p pits <-> p < size ds /\ dsf ds p = p) -> NoDup pits ->
  forall extra, bfs ds (size ds + extra) pits nil = idxs_seq ds pits.
Proof. exact TermRank.idxs_seq_fuel. Qed.
Print Assumptions idxs_seq_fuel.
Theorem rank_fuel_terminates : forall ds, wf ds -> forall extra, rank_fuel ds (size ds + extra) = rank ds.
Proof. exact TermRank.rank_fuel_terminates. Qed.
Print Assumptions rank_fuel_terminates.

(* dem.fill_depressions (priority flood): NO hypothesis -- every cell is queued at most once, so after at most
   nrow * ncol pops the queue is empty *)
Theorem flood_iterations : forall nrow ncol elv nodata conn mode pits,
  fq (flood_loop nrow ncol elv conn (nrow * ncol) (flood_init nrow ncol elv nodata conn mode pits)) = nil /\
  (forall fuel, flood_pops nrow ncol elv conn fuel (flood_init nrow ncol elv nodata conn mode pits) <= nrow * ncol).
Proof. exact TermFlood.flood_iterations. Qed.
Print Assumptions flood_iterations.
Theorem fill_depressions_terminates : forall nrow ncol elv nodata conn mode pits extra,
  fill_depressions_fuel (S (nrow * ncol) + extra) nrow ncol elv nodata conn mode pits =
  fill_depressions nrow ncol elv nodata conn mode pits.
Proof. exact TermFlood.fill_depressions_terminates. Qed.
Print Assumptions fill_depressions_terminates.

(* gis_utils.spread2d: with non-negative step lengths and friction at most 9 x the number of cells entries are ever
   popped and the queue runs empty; with a NEGATIVE friction value it does not (refuted below: outside the domain) *)
Theorem spread_iterations : forall nrow ncol obs msk nodata frc dx dy hyp,
  (0 <= dx)%Z -> (0 <= dy)%Z -> (0 <= hyp)%Z ->
  (forall i, (0 <= match frc with Some fr => nth i fr 1%Z | None => 1%Z end)%Z) -> length obs = nrow * ncol ->
  s_q (sloop nrow ncol obs msk frc dx dy hyp (9 * (nrow * ncol)) (spread_init nrow ncol obs msk nodata)) = nil /\
  (forall fuel, spread_pops nrow ncol obs msk frc dx dy hyp fuel (spread_init nrow ncol obs msk nodata) <= 9 * (nrow * ncol)).
Proof. exact TermSpread.spread_iterations. Qed.
Print Assumptions spread_iterations.
Theorem spread2d_terminates : forall nrow ncol obs msk nodata frc dx dy hyp,
  (0 <= dx)%Z -> (0 <= dy)%Z -> (0 <= hyp)%Z ->
  (forall i, (0 <= match frc with Some fr => nth i fr 1%Z | None => 1%Z end)%Z) -> length obs = nrow * ncol ->
  forall extra, spread2d_fuel (10 * (nrow * ncol) + 10 + extra) nrow ncol obs msk nodata frc dx dy hyp =
                spread2d nrow ncol obs msk nodata frc dx dy hyp.
Proof. exact TermSpread.spread2d_terminates. Qed.
Print Assumptions spread2d_terminates.
Theorem spread_negative_friction_refuted :
  exists nrow ncol obs frc dx dy hyp, length obs = nrow * ncol /\ (0 <= dx)%Z /\ (0 <= dy)%Z /\ (0 <= hyp)%Z /\
    s_q (sloop nrow ncol obs None frc dx dy hyp (10 * (nrow * ncol) + 10) (spread_init nrow ncol obs None 0%Z)) <> nil /\
    spread2d_fuel (10 * (nrow * ncol) + 11) nrow ncol obs None 0%Z frc dx dy hyp <> spread2d nrow ncol obs None 0%Z frc dx dy hyp.
Proof. exact TermSpread.spread_negative_friction_refuted. Qed.
Print Assumptions spread_negative_friction_refuted.
