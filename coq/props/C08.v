(* C08 -- Strahler and classic stream orders follow their recursive definitions. *)
From Coq Require Import List Arith ZArith Bool.
Import ListNotations.
From PF Require Import Arr Net SweepDown SweepUp Rank Stream StreamSpec StrahlerBound.
From PF Require Import GenLoopsEq GenCountEq GenOrderEq.
From PFG Require Import GenLoops.
Local Open Scope Z_scope.

(* the three-way update of streams.strahler_order folded over the tributary orders -- any number
   of tributaries, any arrival order -- is: maximum, plus one iff attained at least twice *)
Theorem push_fold : forall os, (forall o, In o os -> 1 <= o) ->
  let st := fold_left spush os (0, 0) in
  (if fst st =? 0 then 1 else fst st) = strahler_combine os.
Proof. exact StreamSpec.push_fold. Qed.
Print Assumptions push_fold.

(* Strahler order, for every network, every topological order, every downstream-closed mask *)
Theorem strahler_spec : forall ds sq mask, topo ds sq ->
  (forall i, valid ds i -> mget mask i = true -> mget mask (dsf ds i) = true) ->
  forall j, (j < size ds)%nat ->
  let so := so_of (strahler_pairs ds sq mask) in
  so j = if in_dec Nat.eq_dec j sq then
           (if mget mask j then strahler_combine (map so (filter (mget mask) (kids ds (rev sq) j))) else 0)
         else 0.
Proof. exact StreamSpec.strahler_spec. Qed.
Print Assumptions strahler_spec.

(* what the inflowing cells are *)
Theorem kids_mem : forall ds P j c, In c (kids ds P j) <-> In c P /\ dsf ds c = j /\ c <> j.
Proof. exact StreamSpec.kids_mem. Qed.
Print Assumptions kids_mem.

(* a cell of Strahler order k has at least 2^(k-1) cells in its catchment, so the order of any network with fewer
   than 2^255 cells fits the uint8 result of streams.strahler_order (no wrap-around is possible; for the CLASSIC
   order there is no such bound: known finding F13) *)
Theorem strahler_fits : forall ds sq mask, topo ds sq ->
  (forall i, valid ds i -> mget mask i = true -> mget mask (dsf ds i) = true) ->
  forall j, In j sq -> mget mask j = true ->
  2 ^ (so_of (strahler_pairs ds sq mask) j - 1) <= 1 + Z.of_nat (length sq).
Proof. exact StrahlerBound.strahler_fits. Qed.
Print Assumptions strahler_fits.

(* classic order *)
Theorem classic_spec : forall ds sq mask main, topo ds sq -> forall i,
  let O := stream_order ds sq main mask in
  let nup := upstream_count ds mask in
  (In i sq -> mget mask i = true -> dsf ds i = i -> nth i O 0 = 1) /\
  (In i sq -> mget mask i = true -> dsf ds i <> i ->
     nth i O 0 = if (nth (dsf ds i) nup 0 >? 1) && negb (nth (dsf ds i) main (length ds) =? i)%nat
                 then nth (dsf ds i) O 0 + 1 else nth (dsf ds i) O 0) /\
  (In i sq -> mget mask i = false -> nth i O 0 = 0) /\
  (~ In i sq -> nth i O 0 = 0).
Proof. exact StreamSpec.classic_spec. Qed.
Print Assumptions classic_spec.

(* the main upstream branch: largest upstream area above the threshold, lowest index among ties *)
Theorem main_upstream_spec : forall ds uparea upa_min d, (d < size ds)%nat ->
  let r := nth d (main_upstream ds uparea upa_min) (size ds) in
  (r = size ds /\ forall c, (c < size ds)%nat -> dsf ds c = d -> c <> d -> nth c uparea 0 <= upa_min) \/
  ((r < size ds)%nat /\ dsf ds r = d /\ r <> d /\ upa_min < nth r uparea 0 /\
   forall c, (c < size ds)%nat -> dsf ds c = d -> c <> d ->
     nth c uparea 0 <= nth r uparea 0 /\ ((c < r)%nat -> nth c uparea 0 < nth r uparea 0)).
Proof. exact StreamSpec.main_upstream_spec. Qed.
Print Assumptions main_upstream_spec.

(* non-vacuity: three order-1 tributaries and one order-2 stream meet: order stays 2; two order-2 make 3 *)
Example combine_examples : strahler_combine [1;1;1;2] = 2 /\ strahler_combine [2;1;2] = 3 /\ strahler_combine [] = 1.
Proof. vm_compute. auto. Qed.
Example strahler_example :
  topo [0;0;0;1;1;2]%nat [0;1;2;3;4;5]%nat /\ strahler_order [0;0;0;1;1;2]%nat [0;1;2;3;4;5]%nat None = [2;2;1;1;1;1].
Proof. split; [apply check_topo_sound; vm_compute; reflexivity|vm_compute; reflexivity]. Qed.

(* TIE BY TRANSLATION: core.main_upstream regenerated from the source on every run IS the model above *)
Theorem gen_main_upstream_eq : forall ds uparea upa_min, gen_main_upstream ds uparea upa_min = main_upstream ds uparea upa_min.
Proof. exact GenLoopsEq.gen_main_upstream_eq. Qed.
Print Assumptions gen_main_upstream_eq.

(* ... and so are streams.strahler_order (two arrays in the source, one array of pairs in the model), streams.stream_order
   (classic order) and core.upstream_count (a counting loop in the source, "number of masked cells draining into the
   cell" in the model; equal on every well-formed network) *)
Theorem gen_strahler_order_eq : forall ds sq mask, gen_strahler_order ds sq mask = strahler_order ds sq mask.
Proof. exact GenOrderEq.gen_strahler_order_eq. Qed.
Print Assumptions gen_strahler_order_eq.

Theorem gen_upstream_count_eq : forall ds mask, wf ds -> gen_upstream_count ds mask = upstream_count ds mask.
Proof. exact GenCountEq.gen_upstream_count_eq. Qed.
Print Assumptions gen_upstream_count_eq.

Theorem gen_stream_order_eq : forall ds sq main mask, wf ds -> gen_stream_order ds sq main mask = stream_order ds sq main mask.
Proof. exact GenOrderEq.gen_stream_order_eq. Qed.
Print Assumptions gen_stream_order_eq.
