(* C03 -- Cell ordering, rank and loop detection are topologically correct. *)
From Coq Require Import List Arith ZArith Bool Sorted.
Import ListNotations.
From PF Require Import Arr Net Rank RankSpec.

(* 'walk' ordering (core.idxs_seq from the complete pit list): a topological order that contains
   exactly the cells that drain to a pit -- every such cell once, after its downstream cell;
   for every closed functional graph, cycles of any length and trees hanging on cycles included *)
Theorem walk_topo : forall ds, wf ds -> forall pits,
  (forall p, In p pits <-> p < size ds /\ dsf ds p = p) -> NoDup pits ->
  topo ds (idxs_seq ds pits) /\ (forall i, In i (idxs_seq ds pits) <-> drains ds i).
Proof. exact RankSpec.walk_topo. Qed.
Print Assumptions walk_topo.

(* 'sort' ordering: ANY arrangement of the ranked cells by non-decreasing rank (whatever the
   unstable argsort does with ties) is topological and contains exactly the draining cells *)
Theorem sort_topo : forall ds, wf ds -> forall s, NoDup s ->
  (forall i, In i s <-> i < size ds /\ (nth i (fst (rank ds)) RU >= 0)%Z) ->
  StronglySorted (le_r (rkn ds)) s ->
  topo ds s /\ (forall i, In i s <-> drains ds i).
Proof. exact RankSpec.sort_topo. Qed.
Print Assumptions sort_topo.
Theorem order_sort_topo : forall ds, wf ds ->
  topo ds (order_sort ds) /\ (forall i, In i (order_sort ds) <-> drains ds i).
Proof. exact RankSpec.order_sort_topo. Qed.
Print Assumptions order_sort_topo.

(* rank: -9999 on nodata; k >= 0 iff the pit is reached in exactly k steps; -1 iff no pit is ever
   reached (member of, or tributary to, a cycle) *)
Theorem rank_spec : forall ds, wf ds -> let ranks := fst (rank ds) in
  length ranks = size ds /\
  forall i, i < size ds ->
    (~ valid ds i -> nth i ranks RU = RU) /\
    (valid ds i -> forall k, steps ds i k <-> nth i ranks RU = Z.of_nat k) /\
    (valid ds i -> (~ drains ds i <-> nth i ranks RU = (-1)%Z)).
Proof. exact RankSpec.rank_spec. Qed.
Print Assumptions rank_spec.

(* the node count excludes loops and nodata: it is the number of ranked cells *)
Theorem nnodes_spec : forall ds, wf ds -> snd (rank ds) = countp (fst (rank ds)).
Proof. exact RankSpec.nnodes_spec. Qed.
Print Assumptions nnodes_spec.

Theorem loops_exact : forall ds, wf ds -> forall i, In i (loop_indices ds) <-> valid ds i /\ ~ drains ds i.
Proof. exact RankSpec.loops_exact. Qed.
Print Assumptions loops_exact.

Theorem isvalid_iff : forall ds, wf ds -> (isvalid ds = true <-> loopfree ds).
Proof. exact RankSpec.isvalid_iff. Qed.
Print Assumptions isvalid_iff.

(* repairing loops: valid network, every previously draining link unchanged *)
Theorem repair_spec : forall ds, wf ds -> let ds' := repair_loops ds in
  size ds' = size ds /\ (forall i, valid ds' i <-> valid ds i) /\
  (forall i, valid ds i -> drains ds i -> dsf ds' i = dsf ds i) /\
  (forall i, valid ds i -> ~ drains ds i -> dsf ds' i = i) /\
  wf ds' /\ loopfree ds'.
Proof. exact RankSpec.repair_spec. Qed.
Print Assumptions repair_spec.

(* the checker applied to the implementation's own idxs_seq in every correspondence run is sound *)
Theorem check_topo_sound : forall ds s, check_topo ds s = true -> topo ds s.
Proof. exact Net.check_topo_sound. Qed.
Print Assumptions check_topo_sound.
Theorem check_complete_sound : forall ds s, check_complete ds s = true -> complete ds s.
Proof. exact Net.check_complete_sound. Qed.
Print Assumptions check_complete_sound.

(* non-vacuity: a 2-cycle {1,2} with tributary 3, and a pit 0 with tributary 4 *)
Example rank_example : wf [0;2;1;1;0] /\ fst (rank [0;2;1;1;0]) = [0; -1; -1; -1; 1]%Z /\
                       idxs_seq [0;2;1;1;0] [0] = [0;4] /\ repair_loops [0;2;1;1;0] = [0;1;2;3;0].
Proof. split; [apply wfb_wf; vm_compute; reflexivity|vm_compute; auto]. Qed.

(* TIE BY TRANSLATION: core.inflow_idxs, core.outflow_idxs, core.headwater_indices and core.confluence_indices regenerated
   from the source on every run ARE the models the correspondence runs (kernels 310-313) *)
From PF Require Import Stream GenExtra GenExtraEq.
From PFG Require Import GenLoops.
Theorem gen_inflow_idxs_eq : forall ds sq region, gen_inflow_idxs ds sq region = inflow_idxs ds sq region.
Proof. exact GenExtraEq.gen_inflow_idxs_eq. Qed.
Print Assumptions gen_inflow_idxs_eq.
Theorem gen_outflow_idxs_eq : forall ds sq region, gen_outflow_idxs ds sq region = outflow_idxs ds sq region.
Proof. exact GenExtraEq.gen_outflow_idxs_eq. Qed.
Print Assumptions gen_outflow_idxs_eq.
Theorem gen_headwater_indices_eq : forall ds mask, wf ds -> gen_headwater_indices ds mask = headwater_indices ds mask.
Proof. exact GenExtraEq.gen_headwater_indices_eq. Qed.
Print Assumptions gen_headwater_indices_eq.
Theorem gen_confluence_indices_eq : forall ds mask, wf ds -> gen_confluence_indices ds mask = confluence_indices ds mask.
Proof. exact GenExtraEq.gen_confluence_indices_eq. Qed.
Print Assumptions gen_confluence_indices_eq.

(* core.rank, core.loop_indices and core.idxs_seq (with upstream_matrix) regenerated from the source (generated/GenCore.v,
   tools/gen_core.py: `while` loops become fuelled Fixpoints, None = fuel used up / pop from an empty list) ARE the models;
   Some _ also says that with the models' fuel the loops of the source end through their own exit tests *)
From PF Require Import GenCoreRankEq GenCoreSeqEq.
From PFG Require Import GenCore.
Theorem gen_rank_eq : forall ds, wf ds -> gen_rank ds = Some (fst (rank ds), Z.of_nat (snd (rank ds))).
Proof. exact GenCoreRankEq.gen_rank_eq. Qed.
Print Assumptions gen_rank_eq.
Theorem gen_loop_indices_eq : forall ds, wf ds -> gen_loop_indices ds = Some (loop_indices ds).
Proof. exact GenCoreRankEq.gen_loop_indices_eq. Qed.
Print Assumptions gen_loop_indices_eq.
Theorem gen_idxs_seq_eq : forall ds pits, wf ds -> (0 < size ds)%nat ->
  (forall p, In p pits -> (p < size ds)%nat /\ dsf ds p = p) -> NoDup pits -> gen_idxs_seq ds pits = Some (idxs_seq ds pits).
Proof. exact GenCoreSeqEq.gen_idxs_seq_eq. Qed.
Print Assumptions gen_idxs_seq_eq.
