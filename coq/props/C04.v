(* C04 -- Accumulation equals the sum over the upstream catchment (mass is conserved). *)
From Coq Require Import List Arith ZArith Bool.
Import ListNotations.
From PF Require Import Arr Net SweepDown Accu AccuSpec.
From PF Require Import GenLoopsEq.
From PFG Require Import GenLoops.
Open Scope Z_scope.

(* streams.accuflux, for every network, every topological order sq, every field and nodata value:
   a cell holding nodata keeps it; any other cell j gets its own value plus the sum over exactly the
   other ordered cells x whose flow path reaches j through cells not holding nodata (both ends included). *)
Theorem accuflux_spec : forall ds nodata data, length data = size ds ->
  forall sq, topo ds sq -> forall j, (j < size ds)%nat ->
  let out := accuflux ds sq data nodata in
  (nth j data 0 = nodata -> nth j out 0 = nodata) /\
  (nth j data 0 <> nodata ->
     exists L, NoDup L /\ (forall x, In x L <-> In x sq /\ x <> j /\ breach ds (holds_nodata nodata data) x j) /\
               nth j out 0 = nth j data 0 + zsum (map (fun x => nth x data 0) L)).
Proof. exact AccuSpec.accuflux_spec. Qed.
Print Assumptions accuflux_spec.

(* without nodata cells "reaches through non-nodata cells" is plain reachability *)
Theorem breach_nonodata : forall ds nodata data x j, (forall y, nth y data 0 <> nodata) ->
  (breach ds (holds_nodata nodata data) x j <-> reaches ds x j).
Proof. exact AccuSpec.breach_nonodata. Qed.
Print Assumptions breach_nonodata.

(* totals at the pits add up to the total over all cells of the order *)
Theorem mass_conserved : forall ds sq data nodata, topo ds sq -> length data = size ds ->
  (forall y, nth y data 0 <> nodata) ->
  zsum (map (fun p => nth p (accuflux ds sq data nodata) 0) (filter (fun p => (dsf ds p =? p)%nat) (rev sq)))
  = zsum (map (fun x => nth x data 0) (rev sq)).
Proof. exact AccuSpec.mass_conserved. Qed.
Print Assumptions mass_conserved.

(* streams.upstream_area (accumulation part): nodata outside the order, catchment sum of cell areas inside *)
Theorem upstream_area_spec : forall ds sq area nodata, topo ds sq -> forall j, (j < size ds)%nat ->
  let out := upstream_area ds sq area nodata in
  (~ In j sq -> nth j out 0 = nodata) /\
  (In j sq -> exists L, NoDup L /\ (forall x, In x L <-> In x sq /\ x <> j /\ reaches ds x j) /\
                        nth j out 0 = nth j area 0 + zsum (map (fun x => nth x area 0) L)).
Proof. exact AccuSpec.upstream_area_spec. Qed.
Print Assumptions upstream_area_spec.

(* downstream accumulation = sum along the flow path to the pit *)
Theorem accuflux_ds_spec : forall ds nodata data, length data = size ds -> forall sq, topo ds sq ->
  forall k i, In i sq ->
  (forall m, (m <= k)%nat -> nth (iter ds m i) data 0 <> nodata) ->
  (forall m, (m < k)%nat -> dsf ds (iter ds m i) <> iter ds m i) ->
  dsf ds (iter ds k i) = iter ds k i ->
  nth i (accuflux_ds ds sq data nodata) 0 = pathsum ds data k i.
Proof. exact AccuSpec.accuflux_ds_spec. Qed.
Print Assumptions accuflux_ds_spec.
Theorem accuflux_ds_blocked : forall ds nodata data, length data = size ds -> forall sq, topo ds sq ->
  forall i, In i sq -> (nth i data 0 = nodata \/ nth (dsf ds i) data 0 = nodata) ->
  nth i (accuflux_ds ds sq data nodata) 0 = nth i data 0.
Proof. exact AccuSpec.accuflux_ds_blocked. Qed.
Print Assumptions accuflux_ds_blocked.

(* Flwdir/FlwdirRaster.upstream_area report cells outside the network as nodata (-9999) *)
Theorem uparea_outside_is_nodata : forall ds sq area j, (j < length ds)%nat -> ~ valid ds j ->
  nth j (flwdir_upstream_area ds sq area) 0 = -9999.
Proof. exact AccuSpec.flwdir_upstream_area_outside. Qed.
Print Assumptions uparea_outside_is_nodata.
Theorem uparea_inside_is_accuflux : forall ds sq area j, valid ds j ->
  nth j (flwdir_upstream_area ds sq area) 0 = nth j (accuflux ds sq area (-9999)) 0.
Proof. exact AccuSpec.flwdir_upstream_area_inside. Qed.
Print Assumptions uparea_inside_is_accuflux.

(* non-vacuity: the chain 0 -> 1 -> 2 with a field whose partial sum equals the nodata value *)
Example accu_example : topo [1;2;2]%nat [2;1;0]%nat /\ accuflux [1;2;2]%nat [2;1;0]%nat [2;3;1] 5 = [2;5;6].
Proof. split; [apply check_topo_sound; vm_compute; reflexivity|vm_compute; reflexivity]. Qed.

(* TIE BY TRANSLATION: the loops regenerated from streams.py on every run ARE the models above *)
Theorem gen_accuflux_eq : forall ds sq data nodata, gen_accuflux ds sq data nodata = accuflux ds sq data nodata.
Proof. exact GenLoopsEq.gen_accuflux_eq. Qed.
Print Assumptions gen_accuflux_eq.
Theorem gen_accuflux_ds_eq : forall ds sq data nodata, gen_accuflux_ds ds sq data nodata = accuflux_ds ds sq data nodata.
Proof. exact GenLoopsEq.gen_accuflux_ds_eq. Qed.
Print Assumptions gen_accuflux_ds_eq.
