(* C18: Pfafstetter codes -- odd digits increase upstream along the main stem; tributary sub-basins get even digits
   (basins.subbasins_pfafstetter). *)
From Coq Require Import List Arith ZArith Bool Lia.
Import ListNotations.
From PF Require Import Arr Net SweepDown Fill FillSpec Rank Stream StreamSpec Subbas PfafDigits.
From PF Require Import PfafClosureA PfafClosureB PfafClosureC PfafClosureD PfafClosureE PfafClosureF PfafClosure.
From PF Require Import PfafStemA PfafStemB PfafStemC PfafStemD.
Local Open Scope Z_scope.

(* the pit loop returns the pits as outlets *)
Lemma pit_fold_idxs n main so depth base : forall rem i b idxs labs,
  snd (fst (fold_left (pit_step n main so depth base) (combine (seq i (length rem)) rem) (b, idxs, labs))) = idxs ++ rem.
Proof.
  induction rem as [|p0 rest IH]; intros i b idxs labs; cbn [length seq combine fold_left fst snd].
  - rewrite app_nil_r. reflexivity.
  - unfold pit_step at 2. rewrite IH. rewrite <- app_assoc. reflexivity.
Qed.

(* the relation in terms of the digits of the returned (mod 10^depth) labels *)
Lemma rel_digits m q x y depth : 0 <= q < depth -> 0 <= x -> 0 <= y -> Rel m q x y ->
  (forall p, q < p < depth -> digit p (y mod 10 ^ depth) = digit p (x mod 10 ^ depth)) /\
  digit q (x mod 10 ^ depth) = digit q x /\ digit q (y mod 10 ^ depth) = digit q y.
Proof.
  intros Hq Hx Hy (R1 & _). split; [|split; apply digit_mod; lia].
  intros p Hp. rewrite !digit_mod by lia. symmetry. apply (hi_digit q); [lia|exact R1].
Qed.

(* ---------- the state reached by the labelling loops ---------- *)
Lemma pfaf_state : forall ds pits sq uparea mask depth,
  topo ds sq -> (forall c, valid ds c -> In c sq) -> 1 <= depth -> NoDup pits ->
  (forall p, In p pits -> In p sq /\ dsf ds p = p) ->
  (forall c, In c sq -> 0 < nth c uparea 0) ->
  (forall c, In c sq -> dsf ds c <> c -> nth c uparea 0 < nth (dsf ds c) uparea 0) ->
  let main := main_upstream ds uparea 0 in
  exists branch idxs,
    subbasins_pfafstetter ds pits sq main uparea mask depth =
      (map (fun v => v mod pow10 depth) (fillnodata_upstream ds sq branch 0), idxs) /\
    INV ds main branch idxs /\ OINV ds main depth branch idxs /\ allok depth branch.
Proof.
  intros ds pits sq uparea mask depth Ht Hcomp Hdepth Hndp Hpits Hpos Hmono main.
  unfold subbasins_pfafstetter.
  set (n := length ds).
  set (so := map (fun v => if v <=? depth + 1 then v else 0) (stream_order ds sq main mask)).
  set (trib := filter (fun i => (nth i so 0 >? 0) && (nth i so 0 >? nth (dsf ds i) so 0)) sq).
  set (pfaf_base := fold_left (fun acc d0 => acc + pow10 (Z.of_nat d0)) (seq 1 (Z.to_nat depth - 1)) 1).
  assert (Hbase : pfaf_base = ones (Z.to_nat depth)).
  { unfold pfaf_base. rewrite (fold_ones (Z.to_nat depth - 1) 1 1) by (cbn; reflexivity). f_equal. lia. }
  clearbody pfaf_base. subst pfaf_base.
  set (rk := fun c : nat => pos c sq).
  assert (Hval : forall c, (c < n)%nat -> (dsf ds c < n)%nat -> In c sq)
    by (intros c H1 H2; apply Hcomp; split; assumption).
  assert (Hrk : forall c, (c < n)%nat -> (dsf ds c < n)%nat -> dsf ds c <> c -> (rk (dsf ds c) < rk c)%nat).
  { intros c H1 H2 H3. unfold rk. apply (topo_pos ds sq c Ht); [apply Hval; assumption|exact H3]. }
  assert (Hrkn : forall c, (c < n)%nat -> (dsf ds c < n)%nat -> (rk c < n)%nat).
  { intros c H1 H2. unfold rk. pose proof (pos_lt c sq (Hval c H1 H2)). pose proof (topo_length ds sq Ht). unfold n. lia. }
  pose proof (main_HM ds uparea 0) as HM. cbv zeta in HM. fold main in HM. fold n in HM.
  assert (Hua : forall c, (c < n)%nat -> (dsf ds c < n)%nat -> dsf ds c <> c -> nth c uparea 0 < nth (dsf ds c) uparea 0).
  { intros c H1 H2 H3. apply Hmono; [apply Hval; assumption|exact H3]. }
  assert (HT : forall t, In t trib -> (t < n)%nat /\ (dsf ds t < n)%nat /\ dsf ds t <> t /\
                nth (dsf ds t) main n <> t /\ (nth (dsf ds t) main n < n)%nat).
  { intros t Hin. unfold trib in Hin. apply filter_In in Hin. destruct Hin as [Hs Hc].
    apply andb_true_iff in Hc. destruct Hc as [C1 C2]. apply Z.gtb_lt in C1. apply Z.gtb_lt in C2.
    destruct (topo_valid ds sq t Ht Hs) as [V1 V2]. unfold size in V1, V2.
    destruct (trib_not_main ds sq main mask depth t Ht Hs ltac:(apply Z.lt_gt; exact C1) ltac:(apply Z.lt_gt; exact C2)) as [N1 N2].
    split; [exact V1|]. split; [exact V2|]. split; [exact N1|]. split; [exact N2|].
    apply main_exists; [exact V1|exact V2|exact N1|apply Hpos; exact Hs]. }
  assert (HTnd : NoDup trib) by (unfold trib; apply NoDup_filter; apply (topo_NoDup ds); exact Ht).
  (* the pit loop *)
  set (init := fold_left _ (combine (seq 0 (length pits)) pits) (repeat 0 n, [], [])).
  assert (Einit : init = fold_left (pit_step n main so depth (ones (Z.to_nat depth)))
                           (combine (seq 0 (length pits)) pits) (repeat 0 n, [], [])) by reflexivity.
  assert (Hp' : forall p, In p pits -> (p < n)%nat /\ dsf ds p = p).
  { intros p Hp. destruct (Hpits p Hp) as [H1 H2]. split; [|exact H2].
    destruct (topo_valid ds sq p Ht H1) as [V1 _]. exact V1. }
  pose proof (pit_fold_inv ds main so HM depth Hdepth (ones (Z.to_nat depth)) (proj1 (ones_bound _))
                pits 0%nat (repeat 0 n) [] [] Hndp (pinv_init ds main depth _ pits Hp')) as HL.
  pose proof (pit_fold_ok n main so depth Hdepth (combine (seq 0 (length pits)) pits) (repeat 0 n, [], [])
                (allok_repeat depth n) ltac:(intros pf d0 [])) as HOK.
  pose proof (pit_fold_idxs n main so depth (ones (Z.to_nat depth)) pits 0%nat (repeat 0 n) [] []) as HIX.
  cbv zeta in HL, HOK. fold n in HL. rewrite <- Einit in HL, HOK, HIX. clear Einit.
  destruct init as [[branch0 idxs0] labs0]. cbn [fst snd app] in HL, HOK, HIX. destruct HOK as [Hb0 Hl0].
  assert (HO0 : OINV ds main depth branch0 idxs0).
  { intros o Ho Hnp. exfalso. rewrite HIX in Ho. destruct (Hp' o Ho) as [_ E]. contradiction. }
  (* the work loop *)
  pose proof (pfaf_loop_inv ds main so rk Hrk Hrkn HM uparea Hua trib HT HTnd depth (4 * n + 8) branch0 idxs0 labs0 HL) as HI.
  pose proof (pfaf_loop_pair ds main so rk Hrk Hrkn HM uparea Hua trib HT HTnd depth (4 * n + 8) branch0 idxs0 labs0 HL HO0 Hb0 Hl0) as HO.
  pose proof (pfaf_loop_ok ds main uparea so trib depth (4 * n + 8) branch0 idxs0 labs0 Hb0 Hl0) as Hgood.
  destruct (pfaf_loop ds main uparea so trib depth (4 * n + 8) branch0 idxs0 labs0) as [branch idxs].
  cbn [fst snd] in HI, HO, Hgood.
  exists branch, idxs. split; [reflexivity|]. split; [exact HI|]. split; [exact HO|exact Hgood].
Qed.

(* ---------- odd digits increase upstream along the main stem ---------- *)
Theorem pfaf_main_stem_odd : forall ds pits sq uparea mask depth,
  topo ds sq -> (forall c, valid ds c -> In c sq) -> 1 <= depth -> NoDup pits ->
  (forall p, In p pits -> In p sq /\ dsf ds p = p) ->
  (forall c, In c sq -> 0 < nth c uparea 0) ->
  (forall c, In c sq -> dsf ds c <> c -> nth c uparea 0 < nth (dsf ds c) uparea 0) ->
  let main := main_upstream ds uparea 0 in
  let L := fst (subbasins_pfafstetter ds pits sq main uparea mask depth) in
  forall c, In c sq -> let c' := nth c main (length ds) in (c' < length ds)%nat ->
    nth c L 0 <> 0 ->
    nth c' L 0 = nth c L 0 \/
    exists q, 0 <= q < depth /\
      (forall p, q < p < depth -> digit p (nth c' L 0) = digit p (nth c L 0)) /\
      Z.odd (digit q (nth c L 0)) = true /\ Z.odd (digit q (nth c' L 0)) = true /\
      digit q (nth c L 0) < digit q (nth c' L 0).
Proof.
  intros ds pits sq uparea mask depth Ht Hcomp Hdepth Hndp Hpits Hpos Hmono main L c Hc c' Hc' HLc.
  destruct (pfaf_state ds pits sq uparea mask depth Ht Hcomp Hdepth Hndp Hpits Hpos Hmono)
    as (branch & idxs & E & HI & HO & Hgood).
  fold main in E, HI, HO. unfold L in *. rewrite E in *. cbn [fst] in *. clear E L.
  pose proof (pow10_pos depth ltac:(lia)) as HD.
  assert (Hmod0 : (fun v : Z => v mod pow10 depth) 0 = 0) by (cbv beta; apply Z.mod_0_l; unfold pow10; lia).
  rewrite !(nth_map0 (fun v => v mod pow10 depth)) in * by exact Hmod0. cbv beta in *. unfold pow10 in *.
  set (Lf := fillnodata_upstream ds sq branch 0) in *.
  assert (Hlen : length branch = length ds) by (apply (inv_len _ _ _ _ HI)).
  destruct (main_HM ds uparea 0 c Hc') as [Hd Hne]. fold main in Hd, Hne. fold c' in Hd, Hne.
  destruct (topo_valid ds sq c Ht Hc) as [Vc _]. unfold size in Vc.
  assert (Hc's : In c' sq) by (apply Hcomp; split; [exact Hc'|unfold size; rewrite Hd; exact Vc]).
  destruct (in_dec Nat.eq_dec c' idxs) as [Y|N].
  - (* c' is a returned outlet: the next interbasin *)
    destruct (inv2 _ _ _ _ HI c' Y) as (_ & Hl' & Hl). rewrite Hd in Hl.
    destruct (HO c' Y ltac:(rewrite Hd; congruence)) as (q & Hq & HR).
    rewrite Hd in HR. fold c' in HR. rewrite Nat.eqb_refl in HR.
    unfold Lf. rewrite (fill_at_seeded ds sq branch Ht Hlen c Hc Hl), (fill_at_seeded ds sq branch Ht Hlen c' Hc's Hl').
    assert (Gc : good depth (nth c branch 0)) by (destruct (Hgood c) as [Z0|G]; [contradiction|exact G]).
    assert (Gc' : good depth (nth c' branch 0)) by (destruct (Hgood c') as [Z0|G]; [contradiction|exact G]).
    destruct (rel_digits true q _ _ depth Hq (proj1 Gc) (proj1 Gc') HR) as (D1 & D2 & D3).
    destruct HR as (_ & R2 & R3 & R4).
    right. exists q. split; [exact Hq|]. split; [exact D1|]. rewrite D2, D3. split; [exact R2|]. split; [exact R3|exact R4].
  - left. destruct (Z.eq_dec (nth c' branch 0) 0) as [Z0|NZ].
    + (* c' carries no label of its own: it is filled from c *)
      unfold Lf. rewrite (fill_step ds sq branch c' Ht Hlen Hc's Z0 ltac:(rewrite Hd; congruence)). rewrite Hd. reflexivity.
    + (* c' continues the stretch of c *)
      destruct (inv1 _ _ _ _ HI c' Hc' NZ N) as (_ & _ & A3). rewrite Hd in A3.
      unfold Lf. rewrite (fill_at_seeded ds sq branch Ht Hlen c' Hc's NZ).
      rewrite (fill_at_seeded ds sq branch Ht Hlen c Hc ltac:(rewrite A3; exact NZ)). rewrite A3. reflexivity.
Qed.
Print Assumptions pfaf_main_stem_odd.

(* ---------- tributary sub-basins carry an even digit ---------- *)
Theorem pfaf_tributary_even : forall ds pits sq uparea mask depth,
  topo ds sq -> (forall c, valid ds c -> In c sq) -> 1 <= depth -> NoDup pits ->
  (forall p, In p pits -> In p sq /\ dsf ds p = p) ->
  (forall c, In c sq -> 0 < nth c uparea 0) ->
  (forall c, In c sq -> dsf ds c <> c -> nth c uparea 0 < nth (dsf ds c) uparea 0) ->
  let main := main_upstream ds uparea 0 in
  let r := subbasins_pfafstetter ds pits sq main uparea mask depth in
  let L := fst r in let idxs := snd r in
  forall o, In o idxs -> dsf ds o <> o -> nth (dsf ds o) main (length ds) <> o ->
    exists q, 0 <= q < depth /\
      (forall p, q < p < depth -> digit p (nth o L 0) = digit p (nth (dsf ds o) L 0)) /\
      Z.odd (digit q (nth (dsf ds o) L 0)) = true /\ Z.even (digit q (nth o L 0)) = true.
Proof.
  intros ds pits sq uparea mask depth Ht Hcomp Hdepth Hndp Hpits Hpos Hmono main r L idxs o Ho Hnp Hnm.
  destruct (pfaf_state ds pits sq uparea mask depth Ht Hcomp Hdepth Hndp Hpits Hpos Hmono)
    as (branch & idxs' & E & HI & HO & Hgood).
  fold main in E, HI, HO. unfold idxs, L, r in *. rewrite E in *. cbn [fst snd] in *. clear E L idxs r.
  pose proof (pow10_pos depth ltac:(lia)) as HD.
  assert (Hmod0 : (fun v : Z => v mod pow10 depth) 0 = 0) by (cbv beta; apply Z.mod_0_l; unfold pow10; lia).
  rewrite !(nth_map0 (fun v => v mod pow10 depth)) by exact Hmod0. cbv beta. unfold pow10.
  assert (Hlen : length branch = length ds) by (apply (inv_len _ _ _ _ HI)).
  destruct (inv2 _ _ _ _ HI o Ho) as (Hon & Hlo & Hlw).
  assert (Hwn : (dsf ds o < length ds)%nat) by (rewrite <- Hlen; apply lab_lt; exact Hlw).
  assert (Hos : In o sq) by (apply Hcomp; split; assumption).
  assert (Hws : In (dsf ds o) sq) by (apply (topo_closed ds sq o Ht Hos)).
  destruct (HO o Ho Hnp) as (q & Hq & HR).
  assert (Em : (nth (dsf ds o) main (length ds) =? o)%nat = false) by (apply Nat.eqb_neq; exact Hnm).
  rewrite Em in HR.
  rewrite (fill_at_seeded ds sq branch Ht Hlen o Hos Hlo), (fill_at_seeded ds sq branch Ht Hlen _ Hws Hlw).
  assert (Go : good depth (nth o branch 0)) by (destruct (Hgood o) as [Z0|G]; [contradiction|exact G]).
  assert (Gw : good depth (nth (dsf ds o) branch 0)) by (destruct (Hgood (dsf ds o)) as [Z0|G]; [contradiction|exact G]).
  destruct (rel_digits false q _ _ depth Hq (proj1 Gw) (proj1 Go) HR) as (D1 & D2 & D3).
  destruct HR as (_ & R2 & R3).
  exists q. split; [exact Hq|]. split; [exact D1|]. rewrite D2, D3. split; [exact R2|exact R3].
Qed.
Print Assumptions pfaf_tributary_even.

(* non-vacuity: the hypotheses hold on the network with two nested confluences of props/C18.v *)
Example pfaf_main_stem_example :
  let ds := [0;0;0;1;1;2;2;3;3]%nat in let upa := [9;5;3;3;1;1;1;1;1] in let sq := seq 0 9 in
  let main := main_upstream ds upa 0 in
  let r := subbasins_pfafstetter ds [0%nat] sq main upa None 2 in
  r = ([11; 31; 21; 51; 41; 23; 22; 71; 61], [0; 2; 1; 4; 3; 8; 7; 6; 5]%nat) /\
  main = [1; 3; 5; 7; 9; 9; 9; 9; 9]%nat /\
  (forall c, In c sq -> let c' := nth c main (length ds) in (c' < length ds)%nat -> nth c (fst r) 0 <> 0 ->
     nth c' (fst r) 0 = nth c (fst r) 0 \/
     exists q, 0 <= q < 2 /\
       (forall p, q < p < 2 -> digit p (nth c' (fst r) 0) = digit p (nth c (fst r) 0)) /\
       Z.odd (digit q (nth c (fst r) 0)) = true /\ Z.odd (digit q (nth c' (fst r) 0)) = true /\
       digit q (nth c (fst r) 0) < digit q (nth c' (fst r) 0)) /\
  (forall o, In o (snd r) -> dsf ds o <> o -> nth (dsf ds o) main (length ds) <> o ->
     exists q, 0 <= q < 2 /\
       (forall p, q < p < 2 -> digit p (nth o (fst r) 0) = digit p (nth (dsf ds o) (fst r) 0)) /\
       Z.odd (digit q (nth (dsf ds o) (fst r) 0)) = true /\ Z.even (digit q (nth o (fst r) 0)) = true).
Proof.
  intros ds upa sq main r. split; [vm_compute; reflexivity|]. split; [vm_compute; reflexivity|].
  assert (H1 : topo ds sq) by (apply check_topo_sound; vm_compute; reflexivity).
  assert (H2 : forall c, valid ds c -> In c sq) by (apply check_complete_sound; vm_compute; reflexivity).
  assert (H3 : NoDup [0%nat]) by (constructor; [intros []|constructor]).
  assert (H4 : forall p, In p [0%nat] -> In p sq /\ dsf ds p = p) by (intros p [<-|[]]; split; [left; reflexivity|reflexivity]).
  assert (H5 : forall c, In c sq -> 0 < nth c upa 0).
  { intros c Hc. unfold sq in Hc. cbn [seq] in Hc.
    repeat (destruct Hc as [<-|Hc]; [vm_compute; reflexivity|]). destruct Hc. }
  assert (H6 : forall c, In c sq -> dsf ds c <> c -> nth c upa 0 < nth (dsf ds c) upa 0).
  { intros c Hc Hnp. unfold sq in Hc. cbn [seq] in Hc.
    repeat (destruct Hc as [<-|Hc]; [try (vm_compute; reflexivity); exfalso; apply Hnp; reflexivity|]). destruct Hc. }
  split.
  - apply (pfaf_main_stem_odd ds [0%nat] sq upa None 2 H1 H2 ltac:(lia) H3 H4 H5 H6).
  - apply (pfaf_tributary_even ds [0%nat] sq upa None 2 H1 H2 ltac:(lia) H3 H4 H5 H6).
Qed.
