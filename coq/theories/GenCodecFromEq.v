(* core_d8.from_array and core_ldd.from_array, REGENERATED from the Python source (generated/GenCodec.v: one pass over the cell
   numbers that stores the downstream cell, appends the pits and counts the cells of the network), equal the hand models of
   Codec.v that the theorems of C01 / C02 are about: the network `decode`, its pits `pits_of` and its size `nvalid_of`.
   Only hypothesis: the raster has nrow * ncol values.  No axioms. *)
From Coq Require Import List Arith ZArith Bool Lia.
Import ListNotations.
From PF Require Import Arr Net Codec CodecSpec GenCodecBaseEq.
From PFG Require Import GenTables GenDrdc GenCodec.
Local Open Scope Z_scope.

Section From.
Variable drdc : Z -> Z * Z.
Variable mv : Z.
Variables nrow ncol : nat.
Variable flw : list Z.
Hypothesis Hlen : length flw = (nrow * ncol)%nat.
Let isnd (i : nat) : bool := nth i flw 0 =? mv.
Let cf := decode_cell drdc mv nrow ncol flw.

Lemma cell0 i : (i < nrow * ncol)%nat -> cell mv flw i = nth i flw 0.
Proof. intros H. unfold cell. apply nth_indep. lia. Qed.

Lemma cf_nodata i : (i < nrow * ncol)%nat -> isnd i = true -> cf i = (nrow * ncol)%nat.
Proof. intros Hi E. unfold cf, decode_cell. rewrite (cell0 i Hi). unfold isnd in E. rewrite E. reflexivity. Qed.

Lemma cf_valid i : (i < nrow * ncol)%nat -> isnd i = false -> (cf i < nrow * ncol)%nat.
Proof. intros Hi E. unfold cf. rewrite <- (decode_nth drdc mv nrow ncol flw i Hi).
  apply decode_valid; [exact Hi|]. rewrite (cell0 i Hi). unfold isnd in E. apply Z.eqb_neq. exact E. Qed.

(* the cell of the hand model in the terms of the loop body of the source *)
Lemma decode_cell_char i dr dc : (i < nrow * ncol)%nat -> isnd i = false -> drdc (nth i flw 0) = (dr, dc) ->
  let r_ds := Z.of_nat i / Z.of_nat ncol + dr in
  let c_ds := Z.of_nat i mod Z.of_nat ncol + dc in
  let idx_ds := c_ds + r_ds * Z.of_nat ncol in
  let b := (((dr =? 0) && (dc =? 0)) || ((((r_ds >=? Z.of_nat nrow) || (c_ds >=? Z.of_nat ncol)) || (r_ds <? 0)) || (c_ds <? 0)))
           || (nth (Z.to_nat idx_ds) flw 0 =? mv) in
  cf i = (if b then i else Z.to_nat idx_ds) /\ (b = false -> Z.to_nat idx_ds <> i).
Proof.
  intros Hi E Edr r_ds c_ds idx_ds b.
  assert (Hcf : cf i = if ((dr =? 0) && (dc =? 0)) || outside nrow ncol r_ds c_ds || (cell mv flw (Z.to_nat idx_ds) =? mv)
                       then i else Z.to_nat idx_ds).
  { unfold cf, decode_cell, target_rc. rewrite (cell0 i Hi). unfold isnd in E. rewrite E, Edr.
    rewrite <- zdiv_nat, <- zmod_nat. reflexivity. }
  subst b. fold (outside nrow ncol r_ds c_ds). rewrite Hcf. clear Hcf.
  destruct ((dr =? 0) && (dc =? 0)) eqn:Epit; cbn [orb]; [split; [reflexivity|discriminate]|].
  destruct (outside nrow ncol r_ds c_ds) eqn:Eout; cbn [orb]; [split; [reflexivity|discriminate]|].
  apply outside_false in Eout. destruct Eout as [Hr Hc].
  destruct (lin_index nrow ncol r_ds c_ds Hr Hc) as (Ht1 & Ht2 & Ht3 & Ht4). fold idx_ds in Ht1, Ht2, Ht3, Ht4.
  rewrite (cell0 _ Ht1). split; [reflexivity|].
  intros _ Heq. rewrite Heq in Ht3, Ht4. unfold r_ds in Ht3. unfold c_ds in Ht4. rewrite zdiv_nat in Ht3. rewrite zmod_nat in Ht4.
  assert (dr = 0) by lia. assert (dc = 0) by lia. subst dr dc. discriminate.
Qed.

Lemma from_result (r : list nat * list nat * Z) :
  r = (filter (fun i => negb (isnd i) && (cf i =? i)%nat) (seq 0 (length flw)),
       map (fun i => if isnd i then length flw else cf i) (seq 0 (length flw)),
       Z.of_nat (length (filter (fun i => negb (isnd i)) (seq 0 (length flw))))) ->
  (let '(p, a, c) := r in (a, p, c)) =
  (decode drdc mv nrow ncol flw, pits_of (decode drdc mv nrow ncol flw), Z.of_nat (nvalid_of (decode drdc mv nrow ncol flw))).
Proof.
  intros ->. rewrite Hlen.
  rewrite (res_cells _ isnd cf cf_nodata), (res_pits _ isnd cf cf_nodata), (res_count _ isnd cf cf_nodata cf_valid).
  reflexivity.
Qed.
End From.

(* the loop body of the source is the step of GenCodecBaseEq.bfold *)
Ltac from_step_tac step drdcf :=
  let Hl := fresh "Hl" in let p := fresh "p" in let a := fresh "a" in let c := fresh "c" in let i := fresh "i" in
  let Hi := fresh "Hi" in let E := fresh "E" in let dr := fresh "dr" in let dc := fresh "dc" in let Edr := fresh "Edr" in
  let H1 := fresh "H1" in let H2 := fresh "H2" in let Eb := fresh "Eb" in
  intros Hl [[p a] c] i Hi; unfold step, bstep; cbv beta iota zeta;
  destruct (nth i _ 0 =? _) eqn:E; [reflexivity|];
  destruct (drdcf (nth i _ 0)) as [dr dc] eqn:Edr;
  match goal with |- context [decode_cell ?f ?m ?nr ?nc ?fl] =>
    destruct (decode_cell_char f m nr nc fl Hl i dr dc) as [H1 H2];
      [rewrite <- Hl; exact Hi|exact E|exact Edr|] end;
  cbv zeta in H1, H2; rewrite H1;
  match type of H1 with _ = (if ?b then _ else _) => destruct b eqn:Eb end;
  [rewrite Nat.eqb_refl; reflexivity|rewrite (proj2 (Nat.eqb_neq _ _) (H2 eq_refl)); reflexivity].

Lemma d8_from_step nrow ncol flw : length flw = (nrow * ncol)%nat -> forall st i, (i < length flw)%nat ->
  gen_d8_from_array_step (Z.of_nat nrow, Z.of_nat ncol) flw st i =
  bstep (fun i => nth i flw 0 =? d8_mv) (fun i => (decode_cell d8_drdc d8_mv nrow ncol flw i =? i)%nat)
        (decode_cell d8_drdc d8_mv nrow ncol flw) st i.
Proof. from_step_tac gen_d8_from_array_step d8_drdc. Qed.

Lemma ldd_from_step nrow ncol flw : length flw = (nrow * ncol)%nat -> forall st i, (i < length flw)%nat ->
  gen_ldd_from_array_step (Z.of_nat nrow, Z.of_nat ncol) flw st i =
  bstep (fun i => nth i flw 0 =? ldd_mv) (fun i => (decode_cell ldd_drdc ldd_mv nrow ncol flw i =? i)%nat)
        (decode_cell ldd_drdc ldd_mv nrow ncol flw) st i.
Proof. from_step_tac gen_ldd_from_array_step ldd_drdc. Qed.

(* core_d8.from_array(flwdir) = (idxs_ds, pits, n) *)
Theorem gen_d8_from_array_eq : forall nrow ncol flw, length flw = (nrow * ncol)%nat ->
  gen_d8_from_array (Z.of_nat nrow, Z.of_nat ncol) flw =
  (d8_from_array nrow ncol flw, pits_of (d8_from_array nrow ncol flw), Z.of_nat (nvalid_of (d8_from_array nrow ncol flw))).
Proof.
  intros nrow ncol flw Hl. unfold gen_d8_from_array, d8_from_array. cbv beta iota zeta.
  rewrite (fold_ext_seq _ _ _ (d8_from_step nrow ncol flw Hl)).
  apply (from_result d8_drdc d8_mv nrow ncol flw Hl). apply bfold0.
Qed.

(* core_ldd.from_array(flwdir) = (idxs_ds, pits, n) *)
Theorem gen_ldd_from_array_eq : forall nrow ncol flw, length flw = (nrow * ncol)%nat ->
  gen_ldd_from_array (Z.of_nat nrow, Z.of_nat ncol) flw =
  (ldd_from_array nrow ncol flw, pits_of (ldd_from_array nrow ncol flw), Z.of_nat (nvalid_of (ldd_from_array nrow ncol flw))).
Proof.
  intros nrow ncol flw Hl. unfold gen_ldd_from_array, ldd_from_array. cbv beta iota zeta.
  rewrite (fold_ext_seq _ _ _ (ldd_from_step nrow ncol flw Hl)).
  apply (from_result ldd_drdc ldd_mv nrow ncol flw Hl). apply bfold0.
Qed.

(* non-vacuity: the 2x2 raster [[E, S], [nodata, pit]]: 0 -> 1 -> 3, cell 2 nodata, cell 3 the only pit, 3 cells *)
Example gen_d8_from_array_ex : gen_d8_from_array (2, 2) [1; 4; 247; 0] = ([1; 3; 4; 3]%nat, [3]%nat, 3).
Proof. vm_compute. reflexivity. Qed.
Example gen_ldd_from_array_ex : gen_ldd_from_array (2, 2) [6; 2; 255; 5] = ([1; 3; 4; 3]%nat, [3]%nat, 3).
Proof. vm_compute. reflexivity. Qed.

Print Assumptions gen_d8_from_array_eq.
Print Assumptions gen_ldd_from_array_eq.
