(* Models of the along-network operators (C14): Flwdir.downstream, arithmetics.upstream_sum,
   core.fillnodata_downstream, core._window, arithmetics.moving_average / moving_median,
   streams.stream_distance, dem.height_above_nearest_drain, dem.floodplains. *)
From Coq Require Import List Arith ZArith QArith Bool Sorting.Mergesort Orders.
Import ListNotations.
From PF Require Import Arr Net SweepDown SweepUp Stream.
Local Open Scope Z_scope.

(* data_out[mask] = data[idxs_ds[mask]] *)
Definition downstream (ds : list nat) (data : list Z) : list Z :=
  map (fun i => if validb ds i then nth (dsf ds i) data 0 else nth i data 0) (seq 0 (length ds)).

(* arithmetics.upstream_sum *)
Definition usum_step (ds : list nat) (data : list Z) (nodata : Z) (a : list Z) (idx0 : nat) : list Z :=
  let d := dsf ds idx0 in
  if (d <? size ds)%nat && negb (d =? idx0)%nat then
    if (nth idx0 data 0 =? nodata) || (nth d data 0 =? nodata) then upd a idx0 nodata
    else upd a d (nth d a 0 + nth idx0 data 0)
  else a.
Definition upstream_sum (ds : list nat) (data : list Z) (nodata : Z) : list Z :=
  fold_left (usum_step ds data nodata) (seq 0 (length ds)) (repeat 0 (length ds)).

(* core.fillnodata_downstream: how = 0 min, 1 max, 2 sum *)
Definition merge (how : Z) (a b : Z) : Z := if how =? 0 then Z.min a b else if how =? 1 then Z.max a b else a + b.
(* every cell carries (value, holds a value): a merged value may itself equal the nodata value *)
Definition fdown_g (ds : list nat) (data : list Z) (nodata how : Z) (i : nat) (acc own : Z * bool) : Z * bool :=
  if (nth (dsf ds i) data 0 =? nodata) && snd own
  then (if snd acc then (merge how (fst own) (fst acc), true) else (fst own, true)) else acc.
Definition fill_pairs (ds : list nat) (sq : list nat) (data : list Z) (nodata how : Z) : list (Z * bool) :=
  sweep_up ds (0, false) (fun _ x => x) (fdown_g ds data nodata how) (rev sq) (map (fun v => (v, negb (v =? nodata))) data).
Definition fillnodata_downstream (ds : list nat) (sq : list nat) (data : list Z) (nodata how : Z) : list Z :=
  map fst (fill_pairs ds sq data nodata how).

(* core._window as a list, upstream-most cell first; main = idxs_us_main with size = none *)
Fixpoint window_down (ds : list nat) (strord : option (list Z)) (so0 : Z) (k : nat) (cur : nat) : list nat :=
  match k with
  | O => []
  | S k' => let d := dsf ds cur in
            if (d =? cur)%nat || (size ds <=? d)%nat ||
               (match strord with None => false | Some s => nth d s 0 >? so0 end)
            then [] else d :: window_down ds strord so0 k' d
  end.
Fixpoint window_up (n : nat) (main : list nat) (k : nat) (cur : nat) : list nat :=
  match k with
  | O => []
  | S k' => let u := nth cur main n in if (n <=? u)%nat then [] else u :: window_up n main k' u
  end.
Definition window (ds : list nat) (main : list nat) (strord : option (list Z)) (k : nat) (idx0 : nat) : list nat :=
  let so0 := match strord with None => 0 | Some s => nth idx0 s 0 end in
  rev (window_up (size ds) main k idx0) ++ [idx0] ++ window_down ds strord so0 k idx0.

(* weighted mean over Q of the window values that are not nodata *)
Definition wmean (vals : list (Z * Z)) (nodata : Z) : option Q :=   (* (value, weight) *)
  let l := filter (fun p => negb (fst p =? nodata)) vals in
  let v := fold_left (fun s p => s + snd p * fst p) l 0 in
  let w := fold_left (fun s p => s + snd p) l 0 in
  if w =? 0 then None else Some (Qred (v # Z.to_pos w)).
Definition moving_average (ds : list nat) (main : list nat) (strord : option (list Z)) (k : nat)
           (data weights : list Z) (nodata : Z) : list (option Q) :=
  map (fun i => if nth i data 0 =? nodata then None
                else wmean (map (fun j => (nth j data 0, nth j weights 1)) (window ds main strord k i)) nodata)
      (seq 0 (length ds)).

Module ZOrder <: TotalLeBool.
  Definition t := Z.
  Definition leb := Z.leb.
  Theorem leb_total : forall a1 a2, leb a1 a2 = true \/ leb a2 a1 = true.
  Proof. intros a b. unfold leb. destruct (Z.leb_spec a b); auto. right. apply Z.leb_le. apply Z.lt_le_incl. assumption. Qed.
End ZOrder.
Module ZSort := Sort ZOrder.

(* np.nanmedian: middle value, or the mean of the two middle values *)
Definition median (vals : list Z) (nodata : Z) : option Q :=
  let l := ZSort.sort (filter (fun v => negb (v =? nodata)) vals) in
  let m := length l in
  if (m =? 0)%nat then None
  else if Nat.even m then Some (Qred ((nth (m / 2 - 1) l 0 + nth (m / 2) l 0) # 2))
  else Some (inject_Z (nth (m / 2) l 0)).
Definition moving_median (ds : list nat) (main : list nat) (strord : option (list Z)) (k : nat)
           (data : list Z) (nodata : Z) : list (option Q) :=
  map (fun i => if nth i data 0 =? nodata then None
                else median (map (fun j => nth j data 0) (window ds main strord k i)) nodata)
      (seq 0 (length ds)).

(* streams.stream_distance with a step-length function (1 for unit 'cell') *)
Definition sdist_f (ds : list nat) (mask : option (list bool)) (len : nat -> nat -> Z) (i : nat) (vds own : Z) : Z :=
  if (dsf ds i =? i)%nat || (match mask with None => false | Some m => nth i m false end) then own
  else vds + len i (dsf ds i).
Definition stream_distance (ds : list nat) (sq : list nat) (mask : option (list bool)) (len : nat -> nat -> Z) : list Z :=
  let init := fold_left (fun a i => upd a i 0) sq (repeat (-9999) (length ds)) in
  sweep_down ds 0 (sdist_f ds mask len) sq init.

(* dem.height_above_nearest_drain *)
Definition hand_f (ds : list nat) (drain : list bool) (elv : list Z) (i : nat) (vds own : Z) : Z :=
  if nth i drain false then own else vds + (nth i elv 0 - nth (dsf ds i) elv 0).
Definition hand (ds : list nat) (sq : list nat) (drain : list bool) (elv : list Z) : list Z :=
  let init := fold_left (fun a i => upd a i 0) sq (repeat (-9999) (length ds)) in
  sweep_down ds 0 (hand_f ds drain elv) sq init.

(* dem.floodplains: per cell (fldpln, drainz, drainh); stream = uparea >= upa_min and
   hmax = uparea ** b are inputs (float power is not modelled) *)
Definition fp_f (ds : list nat) (stream : list bool) (hmax elv : list Z) (i : nat)
           (vds own : Z * Z * Z) : Z * Z * Z :=
  if nth i stream false then (1, nth i elv 0, nth i hmax 0)
  else let '(f, z0, h0) := vds in
       if (f =? 1) && (nth i elv 0 - z0 <=? h0) then (1, z0, h0) else own.
Definition floodplains (ds : list nat) (sq : list nat) (stream : list bool) (hmax elv : list Z) : list Z :=
  let init := fold_left (fun a i => upd a i (0, -9999, -9999)) sq (repeat (-1, -9999, -9999) (length ds)) in
  map (fun t => fst (fst t)) (sweep_down ds (0, 0, 0) (fp_f ds stream hmax elv) sq init).
