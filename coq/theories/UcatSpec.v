(* C10: unit catchments partition the fine grid by nearest downstream outlet pixel. *)
From Coq Require Import List Arith ZArith Lia Bool.
Import ListNotations.
From PF Require Import Arr Net SweepDown Fill FillSpec Ops Ucat.
Local Open Scope Z_scope.

Lemma sweep_down_untouched {A} ds (d : A) f l : forall init i, ~ In i l -> nth i (sweep_down ds d f l init) d = nth i init d.
Proof.
  unfold sweep_down. induction l as [|x l IH]; intros init i H; simpl; auto.
  rewrite IH by (intros Hx; apply H; right; auto). unfold dstep. apply nth_upd_neq. intros ->. apply H. left; auto.
Qed.

Lemma upd_same {A} (l : list A) i d : upd l i (nth i l d) = l.
Proof. revert i; induction l as [|h t IH]; intros [|i]; simpl; auto. f_equal. apply IH. Qed.

Section UcatFold.
Variable ds : list nat.
Variable area : list Z.

(* sum of area over the cells of l that were unlabelled in m and carry label k+1 in m' *)
Definition gain (l : list nat) (m m' : list Z) (k : nat) : Z :=
  zsum (map (fun c => nth c area 0) (filter (fun c => (nth c m 0 =? 0) && (nth c m' 0 =? Z.of_nat k + 1)) l)).

Definition cond (m : list Z) (i : nat) : bool := (nth i m 0 =? 0) && negb (nth (dsf ds i) m 0 =? 0).

Lemma ucat_step_eq m a i : ucat_step ds area (m, a) i =
  (if cond m i then upd m i (nth (dsf ds i) m 0) else m,
   if cond m i then upd a (Z.to_nat (nth (dsf ds i) m 0 - 1)) (nth (Z.to_nat (nth (dsf ds i) m 0 - 1)) a 0 + nth i area 0) else a).
Proof. unfold ucat_step, cond. destruct ((nth i m 0 =? 0) && negb (nth (dsf ds i) m 0 =? 0)); reflexivity. Qed.

Lemma map_step_eq m i : (if cond m i then upd m i (nth (dsf ds i) m 0) else m) = dstep ds 0 (fill_f 0) m i.
Proof. unfold dstep, fill_f, cond. destruct ((nth i m 0 =? 0) && negb (nth (dsf ds i) m 0 =? 0)); auto.
  symmetry. apply upd_same. Qed.

Lemma ucat_fold_inv l : forall m a, NoDup l -> (forall j, 0 <= nth j m 0) -> (forall x, In x l -> (x < length m)%nat) ->
  let st := fold_left (ucat_step ds area) l (m, a) in
  fst st = sweep_down ds 0 (fill_f 0) l m /\
  length (snd st) = length a /\
  forall k, (k < length a)%nat -> nth k (snd st) 0 = nth k a 0 + gain l m (fst st) k.
Proof.
  induction l as [|i l IH]; intros m a Hnd Hpos Hin; cbn [fold_left].
  - simpl. split; auto. split; auto. intros k Hk. unfold gain. simpl. lia.
  - inversion Hnd as [|x l' Hni Hnd']; subst.
    rewrite ucat_step_eq.
    set (u := nth (dsf ds i) m 0).
    set (m1 := if cond m i then upd m i u else m).
    set (a1 := if cond m i then upd a (Z.to_nat (u - 1)) (nth (Z.to_nat (u - 1)) a 0 + nth i area 0) else a).
    assert (Hm1 : m1 = dstep ds 0 (fill_f 0) m i) by (apply map_step_eq).
    assert (Hil : (i < length m)%nat) by (apply Hin; left; auto).
    assert (Hlm1 : length m1 = length m) by (unfold m1; destruct (cond m i); rewrite ?upd_length; auto).
    assert (Hpos1 : forall j, 0 <= nth j m1 0).
    { intros j. unfold m1. destruct (cond m i); auto.
      rewrite nth_upd. destruct ((j =? i)%nat && (i <? length m)%nat); auto. unfold u. apply Hpos. }
    assert (Hin1 : forall x, In x l -> (x < length m1)%nat) by (intros x Hx; rewrite Hlm1; apply Hin; right; auto).
    destruct (IH m1 a1 Hnd' Hpos1 Hin1) as (E1 & E2 & E3).
    set (st := fold_left (ucat_step ds area) l (m1, a1)) in *.
    assert (Hla : length a1 = length a) by (unfold a1; destruct (cond m i); rewrite ?upd_length; auto).
    split; [rewrite E1, Hm1; reflexivity|]. split; [lia|].
    intros k Hk. rewrite E3 by lia.
    assert (Hfi : nth i (fst st) 0 = nth i m1 0) by (rewrite E1; apply sweep_down_untouched; auto).
    assert (Hgl : gain l m1 (fst st) k = gain l m (fst st) k).
    { unfold gain. f_equal. f_equal. apply filter_ext_in. intros c Hc.
      assert (c <> i) by (intros ->; contradiction).
      replace (nth c m1 0) with (nth c m 0); auto.
      unfold m1. destruct (cond m i); auto. rewrite nth_upd_neq; auto. }
    rewrite Hgl. unfold gain at 2. simpl filter. fold (gain l m (fst st) k).
    destruct (cond m i) eqn:Ec.
    + unfold cond in Ec. fold u in Ec. apply andb_true_iff in Ec. destruct Ec as [Ei Eu]. rewrite Ei. cbn [andb].
      apply negb_true_iff, Z.eqb_neq in Eu.
      assert (Hu1 : 1 <= u) by (pose proof (Hpos (dsf ds i)) as H; fold u in H; lia).
      assert (Hl1 : nth i m1 0 = u) by (unfold m1; apply nth_upd_eq; auto).
      rewrite Hfi, Hl1. unfold a1.
      destruct (Z.eqb_spec u (Z.of_nat k + 1)) as [Euk|Euk].
      * simpl. replace (Z.to_nat (u - 1)) with k by lia. rewrite nth_upd_eq by lia. unfold gain. lia.
      * rewrite nth_upd_neq by lia. unfold gain. lia.
    + unfold a1.
      assert (Hno : (nth i m 0 =? 0) && (nth i (fst st) 0 =? Z.of_nat k + 1) = false).
      { rewrite Hfi. unfold m1. unfold cond in Ec. fold u in Ec.
        apply andb_false_iff in Ec. destruct Ec as [Ec|Ec].
        - rewrite Ec. reflexivity.
        - destruct (Z.eqb_spec (nth i m 0) 0) as [E0|E0]; auto. rewrite E0. cbn [andb].
          destruct (Z.eqb_spec 0 (Z.of_nat k + 1)); [lia|reflexivity]. }
      rewrite Hno. unfold gain. lia.
Qed.
End UcatFold.

(* ---------- seeding ---------- *)
Definition useed_step (n : nat) (a : list Z) (p : nat * nat) : list Z :=
  if (snd p <? n)%nat then upd a (snd p) (Z.of_nat (fst p) + 1) else a.

Lemma useed_fold_length n l : forall a, length (fold_left (useed_step n) l a) = length a.
Proof. induction l as [|p l IH]; intros a; simpl; auto. rewrite IH. unfold useed_step. destruct (snd p <? n)%nat; auto. apply upd_length. Qed.

Lemma useed_fold_notin n l j : forall a, ~ In j (map snd l) -> nth j (fold_left (useed_step n) l a) 0 = nth j a 0.
Proof. induction l as [|p l IH]; intros a H; simpl in *; auto. rewrite IH by tauto.
  unfold useed_step. destruct (snd p <? n)%nat; auto. apply nth_upd_neq. intros ->. tauto. Qed.

Lemma useed_fold_nonneg n l : forall a, (forall j, 0 <= nth j a 0) -> forall j, 0 <= nth j (fold_left (useed_step n) l a) 0.
Proof. induction l as [|p l IH]; intros a H j; simpl; auto. apply IH. intros x. unfold useed_step.
  destruct (snd p <? n)%nat; auto. rewrite nth_upd. destruct ((x =? snd p)%nat && (snd p <? length a)%nat); auto. lia. Qed.

Lemma useed_fold_in n (outs : list nat) : forall s k a j, (k < length outs)%nat -> nth k outs n = j -> (j < n)%nat ->
  length a = n -> (forall k', (k' < length outs)%nat -> k' <> k -> nth k' outs n <> j) ->
  nth j (fold_left (useed_step n) (combine (seq s (length outs)) outs) a) 0 = Z.of_nat (s + k) + 1.
Proof.
  induction outs as [|o outs IH]; intros s k a j Hk Ho Hj Ha Hu; simpl in *; [lia|].
  destruct k as [|k]; simpl in *.
  - subst o. rewrite useed_fold_notin.
    + unfold useed_step. simpl. apply Nat.ltb_lt in Hj. rewrite Hj. rewrite nth_upd_eq by (apply Nat.ltb_lt in Hj; lia).
      rewrite Nat.add_0_r. reflexivity.
    + intros Hin. apply in_map_iff in Hin. destruct Hin as ([x y] & E & Hp). simpl in E. subst y.
      apply in_combine_r in Hp. apply (In_nth _ _ n) in Hp. destruct Hp as (q & Hq & Eq).
      apply (Hu (S q)); [lia|lia|exact Eq].
  - replace (s + S k)%nat with (S s + k)%nat by lia. apply IH; auto; try lia.
    + unfold useed_step. simpl. destruct (o <? n)%nat; rewrite ?upd_length; auto.
    + intros k' Hk' Hne. apply (Hu (S k')); lia.
Qed.

Lemma ucat_seed_notin n outs j : ~ In j outs -> nth j (ucat_seed n outs) 0 = 0.
Proof.
  intros H. unfold ucat_seed. change (fun a p => if (snd p <? n)%nat then upd a (snd p) (Z.of_nat (fst p) + 1) else a) with (useed_step n).
  rewrite useed_fold_notin.
  - clear. revert j. induction n as [|n IH]; intros [|j]; simpl; auto.
  - intros Hin. apply H. apply in_map_iff in Hin. destruct Hin as ([x y] & E & Hp). simpl in E. subst y.
    apply in_combine_r in Hp. auto.
Qed.

Lemma ucat_seed_in n outs k j : (k < length outs)%nat -> nth k outs n = j -> (j < n)%nat ->
  (forall k', (k' < length outs)%nat -> k' <> k -> nth k' outs n <> j) ->
  nth j (ucat_seed n outs) 0 = Z.of_nat k + 1.
Proof.
  intros Hk Ho Hj Hu. unfold ucat_seed.
  change (fun a p => if (snd p <? n)%nat then upd a (snd p) (Z.of_nat (fst p) + 1) else a) with (useed_step n).
  rewrite (useed_fold_in n outs 0 k (repeat 0 n) j); auto. apply repeat_length.
Qed.

Lemma ucat_seed_nonneg n outs j : 0 <= nth j (ucat_seed n outs) 0.
Proof.
  unfold ucat_seed. change (fun a p => if (snd p <? n)%nat then upd a (snd p) (Z.of_nat (fst p) + 1) else a) with (useed_step n).
  apply useed_fold_nonneg. intros x. clear. revert x. induction n as [|n IH]; intros [|x]; simpl; auto; lia.
Qed.

Lemma ucat_seed_length n outs : length (ucat_seed n outs) = n.
Proof. unfold ucat_seed. change (fun a p => if (snd p <? n)%nat then upd a (snd p) (Z.of_nat (fst p) + 1) else a) with (useed_step n).
  rewrite useed_fold_length. apply repeat_length. Qed.

(* ---------- the theorems ---------- *)
Section UcatSpec.
Variable ds : list nat.
Variables (outs : list nat) (sq : list nat) (area : list Z).
Hypothesis Ht : topo ds sq.
Let n := length ds.
Let S0 := ucat_seed n outs.
Let M := fst (ucat_area ds outs sq area).
Let A := snd (ucat_area ds outs sq area).

Lemma ucat_inv :
  M = fillnodata_upstream ds sq S0 0 /\ length A = length outs /\
  forall k, (k < length outs)%nat -> nth k A 0 = nth k (ucat_area0 n outs area) 0 + gain area sq S0 M k.
Proof.
  unfold M, A, ucat_area. fold n. fold S0.
  destruct (ucat_fold_inv ds area sq S0 (ucat_area0 n outs area)) as (E1 & E2 & E3).
  - apply (topo_NoDup ds); auto.
  - apply ucat_seed_nonneg.
  - intros x Hx. unfold S0. rewrite ucat_seed_length. destruct (topo_valid ds sq x Ht Hx); auto.
  - split; [exact E1|]. split.
    + rewrite E2. unfold ucat_area0. apply map_length.
    + intros k Hk. apply E3. unfold ucat_area0. rewrite map_length. auto.
Qed.

(* the map: label = 1-based position of the first outlet pixel on the downstream path, 0 if none *)
Theorem ucat_map_spec :
  length M = n /\
  (forall i, In i sq -> first_on_path ds 0 S0 i (nth i M 0)) /\
  (forall i, ~ In i sq -> nth i M 0 = nth i S0 0).
Proof.
  destruct ucat_inv as (E & _). rewrite E.
  destruct (fill_up_spec ds 0 S0 sq) as (H1 & H2 & H3); auto.
  - unfold S0. rewrite ucat_seed_length. reflexivity.
  - split; [rewrite H1; unfold S0; apply ucat_seed_length|]. split; auto.
Qed.

(* the areas: the outlet pixel's own area plus the area of exactly the other ordered cells that carry
   its label; -9999 for a missing outlet *)
Theorem ucat_area_spec k : (k < length outs)%nat ->
  nth k A 0 = if (nth k outs n <? n)%nat
              then nth (nth k outs n) area 0 + gain area sq S0 M k
              else -9999 + gain area sq S0 M k.
Proof.
  intros Hk. destruct ucat_inv as (_ & _ & E). rewrite E by auto. f_equal.
  unfold ucat_area0.
  rewrite (nth_indep _ 0 ((fun o => if (o <? n)%nat then nth o area 0 else -9999) n)) by (rewrite map_length; auto).
  rewrite (map_nth (fun o => if (o <? n)%nat then nth o area 0 else -9999)).
  destruct (nth k outs n <? n)%nat; reflexivity.
Qed.

(* nothing can be labelled with the position of a missing outlet *)
Theorem ucat_missing_empty k : (k < length outs)%nat -> (n <= nth k outs n)%nat ->
  (forall k', (k' < length outs)%nat -> (nth k' outs n < n)%nat -> In (nth k' outs n) sq) ->
  forall c, In c sq -> nth c M 0 <> Z.of_nat k + 1.
Proof.
  intros Hk Hmiss Hin c Hc Habs.
  destruct ucat_map_spec as (_ & H & _). specialize (H c Hc). rewrite Habs in H.
  destruct (first_on_path_passthrough ds 0 S0 c _ H) as [E|(j & E & Hnz)]; [lia|].
  (* the label comes from a seed at j: j = outs[k'] with k' = k: but outs[k] is missing *)
  unfold S0 in E, Hnz.
  destruct (in_dec Nat.eq_dec j outs) as [Y|N]; [|rewrite (ucat_seed_notin n outs j N) in Hnz; contradiction].
  (* find which index wrote the seed: the fold gives some position p with outs[p] = j < n and value p+1 *)
  assert (G : forall l s a, (forall x, nth x a 0 = 0 \/ exists p, (p < s)%nat /\ nth x a 0 = Z.of_nat p + 1 /\ nth p outs n = x /\ (x < n)%nat) ->
              (forall q, (q < length l)%nat -> nth (s + q) outs n = nth q l n) ->
              forall x, nth x (fold_left (useed_step n) (combine (seq s (length l)) l) a) 0 = 0 \/
                        exists p, (p < s + length l)%nat /\ nth x (fold_left (useed_step n) (combine (seq s (length l)) l) a) 0 = Z.of_nat p + 1 /\ nth p outs n = x /\ (x < n)%nat).
  { induction l as [|o l IHl]; intros s a Ha Hl x; simpl.
    - destruct (Ha x) as [H0|(p & Hp & Hv & Ho & Hx)]; auto. right. exists p. repeat split; auto; lia.
    - specialize (IHl (Datatypes.S s) (useed_step n a (s, o))).
      destruct (IHl) with (x := x) as [H0|(p & Hp & Hv & Ho & Hx)]; auto.
      + intros y. unfold useed_step. simpl. destruct (Nat.ltb_spec o n) as [Hon|Hon].
        * rewrite nth_upd. destruct ((y =? o)%nat && (o <? length a)%nat) eqn:Ey.
          -- right. exists s. apply andb_true_iff in Ey. destruct Ey as [Ey _]. apply Nat.eqb_eq in Ey. subst y.
             repeat split; auto. specialize (Hl 0%nat ltac:(simpl; lia)). rewrite Nat.add_0_r in Hl. simpl in Hl. auto.
          -- destruct (Ha y) as [H0|(p & Hp & Hv & Ho & Hx)]; auto. right. exists p. repeat split; auto; lia.
        * destruct (Ha y) as [H0|(p & Hp & Hv & Ho & Hx)]; auto. right. exists p. repeat split; auto; lia.
      + intros q Hq. specialize (Hl (Datatypes.S q) ltac:(simpl; lia)). simpl in Hl. rewrite <- Hl. f_equal. lia.
      + right. exists p. repeat split; auto. lia. }
  destruct (G outs 0%nat (repeat 0 n)) with (x := j) as [H0|(p & Hp & Hv & Ho & Hx)].
  - intros x. left. clear. revert x. induction n as [|m IHm]; intros [|x]; simpl; auto.
  - intros q Hq. reflexivity.
  - unfold ucat_seed in Hnz. change (fun a p => if (snd p <? n)%nat then upd a (snd p) (Z.of_nat (fst p) + 1) else a) with (useed_step n) in Hnz. contradiction.
  - unfold ucat_seed in E. change (fun a p => if (snd p <? n)%nat then upd a (snd p) (Z.of_nat (fst p) + 1) else a) with (useed_step n) in E.
    rewrite Hv in E. assert (p = k) by lia. subst p. lia.
Qed.
End UcatSpec.

(* ---------- segment walks ---------- *)
From PF Require Import Trace TraceSpec.
Section SegSpec.
Variable nxt : list nat.
Variable isout : nat -> bool.
Variable maskok : nat -> bool.
Variable incl : bool.
Notation n := (length nxt).

(* the walked cells are next(o), next^2(o), ... : all inside the raster and inside the mask; none but
   possibly the last is an outlet pixel, and the last one is included only for incl = true (length /
   slope end points), excluded for incl = false (average / median) *)
Theorem seg_spec fuel : forall cur, let p := seg nxt isout maskok incl fuel cur in
  (forall m, (m < length p)%nat -> nth m p 0%nat = orbit nxt (Datatypes.S m) cur /\ (nth m p 0 < n)%nat /\ maskok (nth m p 0%nat) = true) /\
  (forall m, (Datatypes.S m < length p)%nat -> isout (nth m p 0%nat) = false) /\
  (incl = false -> forall m, (m < length p)%nat -> isout (nth m p 0%nat) = false).
Proof.
  induction fuel as [|f IH]; intros cur; simpl.
  - unfold Trace.nx. set (x := nth cur nxt n).
    destruct ((n <=? x)%nat || (x =? cur)%nat || negb (maskok x)) eqn:E; simpl; [repeat split; intros; lia|].
    apply orb_false_iff in E. destruct E as [E E3]. apply orb_false_iff in E. destruct E as [E1 E2].
    apply Nat.leb_gt in E1. apply negb_false_iff in E3.
    destruct (isout x) eqn:Eo; [|simpl; repeat split; intros; lia].
    destruct incl; simpl; [|repeat split; intros; lia].
    split; [intros [|m] Hm; [auto|lia]|]. split; [intros; lia|]. discriminate.
  - unfold Trace.nx. set (x := nth cur nxt n).
    destruct ((n <=? x)%nat || (x =? cur)%nat || negb (maskok x)) eqn:E; simpl; [repeat split; intros; lia|].
    apply orb_false_iff in E. destruct E as [E E3]. apply orb_false_iff in E. destruct E as [E1 E2].
    apply Nat.leb_gt in E1. apply negb_false_iff in E3.
    destruct (isout x) eqn:Eo.
    + destruct incl; simpl; [|repeat split; intros; lia].
      split; [intros [|m] Hm; [auto|lia]|]. split; [intros; lia|]. discriminate.
    + destruct (IH x) as (H1 & H2 & H3). simpl. split; [|split].
      * intros [|m] Hm; [auto|]. apply H1. lia.
      * intros [|m] Hm; [auto|]. apply H2. lia.
      * intros Hi [|m] Hm; [auto|]. apply H3; auto. lia.
Qed.
End SegSpec.
