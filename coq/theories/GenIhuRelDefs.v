(* ihu_relocate_outlets: shared definitions for the equality of the generated gen_ihu_ihu_relocate_outlets (GenIhu.v) with the
   hand model Ihu.relocate.  The generated text keeps the Python names as tuples (including names whose value is never read
   again: idx_ds0, subidx, the write-only idx_ds_lst); the model keeps a record S4.  `core` is what both share. *)
From Coq Require Import List Arith ZArith Bool Lia.
Import ListNotations.
From PF Require Import Arr Upscale D8Idx Ihu.
From PFG Require Import GenUpscale GenIhu.

Definition Core := (list nat * list nat * bool * list nat * list nat * list nat * list nat * list nat)%type.
(* idxs_ds, subidxs_out, nextiter, bottleneck, subidx0_out_lst, idx_out_lst, idx_ds0_lst, idx0_lst *)
Definition core (s : S4) : Core :=
  (s_cds s, s_out s, s_next s, s_bott s, map snd (s_chg_out s), map fst (s_chg_out s), map snd (s_chg_ds s), map fst (s_chg_ds s)).

(* state of @4D (gen_ihu_ihu_relocate_outlets_walk12): idxs_ds, subidxs_out, nextiter, idx_ds0, subidx, bottleneck,
   subidx0_out_lst, idx_out_lst, idx_ds_lst, idx_ds0_lst, idx0_lst, path *)
Definition T12 := (list nat * list nat * bool * Z * nat * list nat * list nat * list nat * list nat * list nat * list nat * list nat)%type.
Definition enc12 (s : S4) (idx_ds0 : Z) (subidx : nat) (dsl path : list nat) : T12 :=
  (s_cds s, s_out s, s_next s, idx_ds0, subidx, s_bott s, map snd (s_chg_out s), map fst (s_chg_out s), dsl,
   map snd (s_chg_ds s), map fst (s_chg_ds s), path).
Definition prj12 (t : T12) : Core := let '(c, o, n, _, _, b, so, io, _, dd, d0, _) := t in (c, o, n, b, so, io, dd, d0).

(* state of @4C (step11): ..., idx0_lst, idx0 *)
Definition T11 := (list nat * list nat * bool * Z * nat * list nat * list nat * list nat * list nat * list nat * list nat * Z)%type.
Definition enc11 (s : S4) (idx_ds0 : Z) (subidx : nat) (dsl : list nat) (idx0 : Z) : T11 :=
  (s_cds s, s_out s, s_next s, idx_ds0, subidx, s_bott s, map snd (s_chg_out s), map fst (s_chg_out s), dsl,
   map snd (s_chg_ds s), map fst (s_chg_ds s), idx0).
Definition prj11 (t : T11) : Core := let '(c, o, n, _, _, b, so, io, _, dd, d0, _) := t in (c, o, n, b, so, io, dd, d0).

(* state of @4A (step9): idxs_ds, subidxs_out, nextiter, idx_ds0, subidx, idx1, bottleneck, subidx0_out_lst, idx_out_lst,
   idx_ds_lst, idx_ds0_lst, idx0_lst, idx0, j0, k0 *)
Definition T15 := (list nat * list nat * bool * Z * nat * Z * list nat * list nat * list nat * list nat * list nat * list nat * Z * Z * Z)%type.
Definition enc15 (s : S4) (idx_ds0 : Z) (subidx : nat) (dsl : list nat) : T15 :=
  (s_cds s, s_out s, s_next s, idx_ds0, subidx, Z.of_nat (s_idx1 s), s_bott s, map snd (s_chg_out s), map fst (s_chg_out s), dsl,
   map snd (s_chg_ds s), map fst (s_chg_ds s), Z.of_nat (s_idx0 s), Z.of_nat (s_j0 s), Z.of_nat (s_k0 s)).
Definition Core15 := (Core * Z * Z * Z * Z)%type.
Definition prj15 (t : T15) : Core15 :=
  let '(c, o, n, _, _, i1, b, so, io, _, dd, d0, i0, j0, k0) := t in ((c, o, n, b, so, io, dd, d0), i1, i0, j0, k0).
Definition core15 (s : S4) : Core15 := (core s, Z.of_nat (s_idx1 s), Z.of_nat (s_idx0 s), Z.of_nat (s_j0 s), Z.of_nat (s_k0 s)).

(* two S4 agree on everything but s_ok-irrelevant parts: nothing; helper: the error flag is sticky *)
Lemma s4_eta s : mkS4 (s_cds s) (s_out s) (s_bott s) (s_next s) (s_chg_ds s) (s_chg_out s) (s_idx0 s) (s_j0 s) (s_k0 s) (s_idx1 s) (s_ok s) = s.
Proof. destruct s; reflexivity. Qed.
