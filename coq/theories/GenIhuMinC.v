(* ihu_minimize_error, part C: the walk along the fine network (walk2 = me_path), the headwater loop (step6 = me_hw) and the
   rounds (step3 = me_rounds) of the generated text equal the model's; stickiness of the error flag and the length of the
   coarse array.  No axioms. *)
From Coq Require Import List Arith ZArith Bool Lia.
Import ListNotations.
From PF Require Import Arr Net Elev Upscale D8Idx Ihu GenCodecBaseEq GenUpscaleBaseEq GenIhuBaseEq GenIhuNewEq GenIhuOptEq
  GenIhuMinA GenIhuMinB.
From PFG Require Import GenUpscale GenIhu.

(* ---------- gen_ihu_obfold ---------- *)
Section Obfold.
Context {S X : Type}.
Variable f : S -> X -> option (S * bool).
Let G := fun (st_ : option (S * bool)) (x_ : X) =>
           match st_ with None => None | Some (s_, b_) => if b_ then st_ else f s_ x_ end.

Lemma obf_none : forall l, fold_left G l None = None.
Proof. induction l as [|x l IH]; cbn [fold_left]; [reflexivity|exact IH]. Qed.

Lemma obf_stay s : forall l, fold_left G l (Some (s, true)) = Some (s, true).
Proof. induction l as [|x l IH]; cbn [fold_left]; [reflexivity|exact IH]. Qed.

Lemma obfold_nil s : gen_ihu_obfold f [] s = Some s.
Proof. reflexivity. Qed.

Lemma obfold_cons x l s :
  gen_ihu_obfold f (x :: l) s
  = match f s x with
    | None => None
    | Some (s', true) => Some s'
    | Some (s', false) => gen_ihu_obfold f l s'
    end.
Proof.
  unfold gen_ihu_obfold. cbn [fold_left]. fold G.
  destruct (f s x) as [[s' b]|]; [|rewrite obf_none; reflexivity].
  destruct b; [rewrite obf_stay; reflexivity|reflexivity].
Qed.
End Obfold.

Lemma zgt0_nat n : (Z.of_nat n >? 0)%Z = negb (n =? 0)%nat.
Proof. destruct n; reflexivity. Qed.

Lemma enc_inv a s c o : enc a = Some (s, c, o) -> a_err a = 0%nat /\ s = a_st a /\ c = a_cds a /\ o = a_out a.
Proof.
  unfold enc. destruct (Nat.eqb_spec (a_err a) 0) as [E|E]; [|discriminate].
  intros H. injection H as <- <- <-. auto.
Qed.

Lemma enc_none_inv a : enc a = None -> a_err a <> 0%nat.
Proof. unfold enc. destruct (Nat.eqb_spec (a_err a) 0) as [E|E]; [discriminate|intros _; exact E]. Qed.

Section Min.
Variable sds : list nat.
Variable upa : list Z.
Variables subncol cs nrow ncol : nat.
Hypothesis Hmv : nomv_cell sds subncol cs ncol.
Notation nsub := (length sds).
Notation nc := (nrow * ncol)%nat.
Notation shape := (Z.of_nat nrow, Z.of_nat ncol).

(* ---------- walk2 = me_path ---------- *)
Lemma walk2_eq st idx0 : forall fuel idxs subidx,
  gen_ihu_ihu_minimize_error_walk2 st sds nsub (Z.of_nat ncol) idx0 fuel idxs subidx
  = me_path sds ncol fuel st idx0 subidx idxs.
Proof.
  induction fuel as [|f IH]; intros idxs subidx; [reflexivity|].
  cbn [gen_ihu_ihu_minimize_error_walk2 me_path]. cbv zeta. unfold sd. cbv zeta beta.
  destruct (_ =? subidx)%nat; [reflexivity|].
  rewrite Z.geb_leb.
  destruct (Z.leb_spec 0 (nth (nth subidx sds nsub) st (-9)%Z)) as [Hge|Hlt]; [|apply IH].
  destruct (Z_of_nat_complete _ Hge) as [k Hk]. rewrite Hk.
  rewrite Nat2Z.id, gen_up_in_d8_eq, zeqb1_nat.
  change 100%Z with (Z.of_nat 100). rewrite zeqb_nat.
  destruct (_ || _); [reflexivity|apply IH].
Qed.

(* ---------- new_outlet: the length of the coarse array ---------- *)
Lemma new_outlet_len a idx0 subidx0 tgt :
  length (a_cds (fst (new_outlet sds upa subncol cs ncol a idx0 subidx0 tgt))) = length (a_cds a).
Proof.
  rewrite new_outlet_unf. cbv zeta.
  destruct (fold_left _ _ _) as [[u b] ok].
  destruct b as [[[so i1] p]|]; cbn [fst a_cds]; [apply upd_length|reflexivity].
Qed.

Lemma new_outlet_gen a idx0 subidx0 tgt : a_err a = 0%nat ->
  gen_ihu_new_outlet (S nsub) idx0 subidx0 (a_st a) (a_cds a) (a_out a) sds upa
                     (Z.of_nat ncol) (Z.of_nat subncol) (Z.of_nat cs) (Z.of_nat cs) (Z.of_nat (cs * cs)) tgt
  = (let r := new_outlet sds upa subncol cs ncol a idx0 subidx0 tgt in
     if (a_err (fst r) =? 0)%nat then Some (a_st (fst r), a_cds (fst r), a_out (fst r), snd r) else None).
Proof.
  intros H. apply gen_ihu_new_outlet_eq; [|exact H].
  intros s Hs Hm Hc. rewrite <- Hc. apply Hmv; assumption.
Qed.

(* ---------- step6 = me_hw ---------- *)
Lemma me_hw_cons a idxs idx t :
  me_hw sds upa subncol cs nrow ncol a idxs (idx :: t)
  = (let '(a1, fixed1) := new_outlet sds upa subncol cs ncol a idx (nth idx (a_out a) nsub)
                            (Some (nth (nth 0 idxs nc) (a_out a) nsub)) in
     if fixed1 then a1 else me_hw sds upa subncol cs nrow ncol a1 idxs t).
Proof. reflexivity. Qed.

Lemma me_hw_nil a idxs : me_hw sds upa subncol cs nrow ncol a idxs [] = a.
Proof. reflexivity. Qed.

Lemma me_hw_sticky idxs : forall hw a, a_err a <> 0%nat -> a_err (me_hw sds upa subncol cs nrow ncol a idxs hw) <> 0%nat.
Proof.
  induction hw as [|x hw IH]; intros a H; [exact H|].
  rewrite me_hw_cons.
  pose proof (new_outlet_sticky sds upa subncol cs ncol a x (nth x (a_out a) nsub) (Some (nth (nth 0 idxs nc) (a_out a) nsub)) H) as Hs.
  destruct (new_outlet _ _ _ _ _ _ _ _ _) as [a1 f1]. cbn [fst] in Hs.
  destruct f1; [exact Hs|apply IH; exact Hs].
Qed.

Lemma me_hw_len idxs : forall hw a, length (a_cds (me_hw sds upa subncol cs nrow ncol a idxs hw)) = length (a_cds a).
Proof.
  induction hw as [|x hw IH]; intros a; [reflexivity|].
  rewrite me_hw_cons.
  pose proof (new_outlet_len a x (nth x (a_out a) nsub) (Some (nth (nth 0 idxs nc) (a_out a) nsub))) as Hl.
  destruct (new_outlet _ _ _ _ _ _ _ _ _) as [a1 f1]. cbn [fst] in Hl.
  destruct f1; [exact Hl|rewrite IH; exact Hl].
Qed.

Definition proj4 (o : option (list Z * list nat * list nat * nat)) : option (list Z * list nat * list nat) :=
  match o with None => None | Some (s, c, o, _) => Some (s, c, o) end.

Lemma hw_eq idxs : forall hw a sub0, a_err a = 0%nat ->
  proj4 (gen_ihu_obfold (gen_ihu_ihu_minimize_error_step6 (S nsub) sds upa (Z.of_nat cs) (Z.of_nat cs) (Z.of_nat (cs * cs)) nsub nc
                           (Z.of_nat subncol) (Z.of_nat ncol) idxs) hw (a_st a, a_cds a, a_out a, sub0))
  = enc (me_hw sds upa subncol cs nrow ncol a idxs hw).
Proof.
  induction hw as [|x hw IH]; intros a sub0 H.
  - rewrite obfold_nil, me_hw_nil, enc_ok by exact H. reflexivity.
  - rewrite obfold_cons, me_hw_cons.
    unfold gen_ihu_ihu_minimize_error_step6 at 1. cbv zeta.
    rewrite new_outlet_gen by exact H. cbv zeta.
    pose proof (me_hw_sticky idxs hw) as Hst.
    destruct (new_outlet _ _ _ _ _ _ _ _ _) as [a1 f1]. cbn [fst snd].
    destruct (Nat.eq_dec (a_err a1) 0) as [E|E].
    + rewrite E. cbn [Nat.eqb].
      destruct f1; [rewrite enc_ok by exact E; reflexivity|].
      apply IH. exact E.
    + pose proof E as E'. apply Nat.eqb_neq in E'. rewrite E'.
      destruct f1; symmetry; apply enc_none; [exact E|apply Hst; exact E].
Qed.

(* ---------- step3 = me_rounds ---------- *)
Variable idx0 : nat.
Variable idxs nb : list nat.
Hypothesis Hnb : forall i, In i nb -> i <> idx0.

Lemma me_rounds_S n a :
  me_rounds sds upa subncol cs nrow ncol (S n) a idxs idx0 nb
  = (let s := me_scan sds upa nrow ncol (a_cds a) (a_out a) idxs idx0 nb in
     let a1 := mkA (sc_cds s) (a_out a) (a_st a) (a_err a) in
     if negb (sc_fixed s) && negb (length (sc_hw s) =? 0)%nat && negb (length idxs =? 0)%nat
     then me_rounds sds upa subncol cs nrow ncol n (me_hw sds upa subncol cs nrow ncol a1 idxs (sc_hw s)) idxs idx0 nb
     else a1).
Proof. reflexivity. Qed.

Lemma me_rounds_sticky : forall n a, a_err a <> 0%nat -> a_err (me_rounds sds upa subncol cs nrow ncol n a idxs idx0 nb) <> 0%nat.
Proof.
  induction n as [|n IH]; intros a H; [exact H|].
  rewrite me_rounds_S. cbv zeta.
  destruct (_ && _ && _); [|exact H].
  apply IH, me_hw_sticky. exact H.
Qed.

Lemma me_rounds_len : forall n a, length (a_cds (me_rounds sds upa subncol cs nrow ncol n a idxs idx0 nb)) = length (a_cds a).
Proof.
  induction n as [|n IH]; intros a; [reflexivity|].
  rewrite me_rounds_S. cbv zeta. rewrite me_scan_unf.
  destruct (_ && _ && _).
  - rewrite IH, me_hw_len. cbn [a_cds]. apply scan_len.
  - cbn [a_cds]. apply scan_len.
Qed.

Notation step3 := (gen_ihu_ihu_minimize_error_step3 (S nsub) sds upa shape (Z.of_nat cs) (Z.of_nat cs) (Z.of_nat (cs * cs)) nsub nc
                     (Z.of_nat subncol) (Z.of_nat ncol) idx0 idxs nb).
Notation step6 := (gen_ihu_ihu_minimize_error_step6 (S nsub) sds upa (Z.of_nat cs) (Z.of_nat cs) (Z.of_nat (cs * cs)) nsub nc
                     (Z.of_nat subncol) (Z.of_nat ncol) idxs).

Lemma step3_fixed st c o sub0 k : step3 (st, c, o, true, sub0) k = Some ((st, c, o, true, sub0), true).
Proof. reflexivity. Qed.

Lemma step3_eq a sub0 k : length (a_cds a) = nc ->
  step3 (a_st a, a_cds a, a_out a, false, sub0) k
  = (let s := me_scan sds upa nrow ncol (a_cds a) (a_out a) idxs idx0 nb in
     if negb (sc_fixed s) && negb (length (sc_hw s) =? 0)%nat && negb (length idxs =? 0)%nat
     then match gen_ihu_obfold step6 (sc_hw s) (a_st a, sc_cds s, a_out a, sub0) with
          | None => None
          | Some (st, c, o, sb) => Some ((st, c, o, sc_fixed s, sb), false)
          end
     else Some ((a_st a, sc_cds s, a_out a, sc_fixed s, sub0), true)).
Proof.
  intros Hlen. unfold gen_ihu_ihu_minimize_error_step3. cbv zeta. cbn [negb].
  pose proof (scan_eq sds upa nrow ncol idxs idx0 (a_out a) nb (mkScan (a_cds a) 999999%Z 0%Z false []) Hnb Hlen) as HS.
  unfold tup at 1 in HS. cbn [sc_cds sc_fixed sc_dist sc_upa sc_hw] in HS. rewrite HS. clear HS.
  rewrite <- me_scan_unf. unfold tup. cbv beta iota.
  rewrite !zgt0_nat.
  destruct (_ && _ && _); [|reflexivity].
  destruct (gen_ihu_obfold _ _ _) as [[[[st c] o] sb]|]; reflexivity.
Qed.

Definition proj5' (o : option (list Z * list nat * list nat * bool * nat)) : option (list Z * list nat * list nat) :=
  match o with None => None | Some (s, c, o, _, _) => Some (s, c, o) end.

Lemma rounds_eq : forall (l : list nat) a sub0, a_err a = 0%nat -> length (a_cds a) = nc ->
  proj5' (gen_ihu_obfold step3 l (a_st a, a_cds a, a_out a, false, sub0))
  = enc (me_rounds sds upa subncol cs nrow ncol (length l) a idxs idx0 nb).
Proof.
  induction l as [|x l IH]; intros a sub0 H Hlen.
  - rewrite obfold_nil. cbn [length proj5']. symmetry. apply enc_ok. exact H.
  - rewrite obfold_cons, step3_eq by exact Hlen. cbn [length]. rewrite me_rounds_S. cbv zeta.
    set (s := me_scan sds upa nrow ncol (a_cds a) (a_out a) idxs idx0 nb).
    set (a1 := mkA (sc_cds s) (a_out a) (a_st a) (a_err a)).
    assert (Hs : length (sc_cds s) = nc) by (unfold s; rewrite me_scan_unf, scan_len; exact Hlen).
    destruct (_ && _ && _) eqn:Ec.
    + assert (Hf : sc_fixed s = false).
      { apply andb_prop in Ec. destruct Ec as [Ec _]. apply andb_prop in Ec. destruct Ec as [Ec _].
        destruct (sc_fixed s); [discriminate Ec|reflexivity]. }
      pose proof (hw_eq idxs (sc_hw s) a1 sub0 H) as HW. cbn [a_st a_cds a_out a1] in HW.
      destruct (gen_ihu_obfold step6 _ _) as [[[[st c] o] sb]|]; cbn [proj4] in HW.
      * symmetry in HW. apply enc_inv in HW. destruct HW as [E [-> [-> ->]]].
        rewrite Hf. apply IH; [exact E|]. rewrite me_hw_len. exact Hs.
      * symmetry in HW. apply enc_none_inv in HW. cbn [proj5']. symmetry. apply enc_none, me_rounds_sticky. exact HW.
    + cbn [proj5']. symmetry. apply (enc_ok a1). exact H.
Qed.
End Min.

Print Assumptions rounds_eq.
Print Assumptions walk2_eq.
