(* The generated subgrid.segment_length / segment_average / segment_median (generated/GenSeg.v, regenerated from the source by
   tools/gen_seg.py) are the hand-written models of Ucat.v.
   The generated `while True` walk is a fuelled Fixpoint that returns None when the fuel n = length nxt is used up; the model
   Ucat.seg stops silently.  So there are two forms:
     partial   gen_f ... = Some r  ->  r = model            (no hypothesis on the network)
     total     gen_f ... = Some model                        when no walk from an outlet pixel takes n steps; in particular
               on a loop-free network (topo / complete, via TermSeg.seg_short). *)
From Coq Require Import List Arith ZArith QArith Bool Lia.
Import ListNotations.
From PF Require Import Arr Net NetBound Ucat Ops TermSeg GenCoreBaseEq GenSegBaseEq.
From PFG Require Import GenCore GenSeg.
Local Open Scope Z_scope.

Section Walk.
Variable nxt outs : list nat.
Variable mask : option (list bool).
Notation n := (length nxt).
Notation isout := (outflag outs).
Notation maskok := (mok mask).
Definition outl := fold_left (ostep n) outs (repeat false n).

Definition walks_end (incl : bool) : Prop :=
  forall o, In o outs -> (o < n)%nat -> (length (seg nxt isout maskok incl n o) < n)%nat.

Lemma walks_end_oseg incl : walks_end incl -> forall i, (i < length outs)%nat -> (nth i outs n < n)%nat ->
  oseg nxt isout maskok incl n (nth i outs n) <> None.
Proof.
  intros H i Hi Ho E. apply oseg_none in E. specialize (H (nth i outs n) (nth_In _ _ Hi) Ho). lia.
Qed.

Lemma topo_walks_end sq incl : topo nxt sq -> complete nxt sq -> walks_end incl.
Proof.
  intros Ht Hc o _ Ho. destruct (seg_short nxt isout maskok incl sq Ht Hc o) as [H|H]; [exact H|].
  rewrite H. cbn [length]. lia.
Qed.

(* ------------------------------------------------------------------ segment_length *)
Section Length.
Variable distnc : list Z.
Variable nodata : Z.

Lemma len_outl : fold_left (gen_segment_length_loop1_step outs nxt distnc mask nodata) outs (repeat false n) = outl.
Proof. reflexivity. Qed.

Lemma len_loop3 : forall fuel cur,
  gen_segment_length_loop3 outs nxt distnc mask nodata outl fuel cur =
  option_map (fun p => last p cur) (oseg nxt isout maskok true fuel cur).
Proof.
  induction fuel as [|f IH]; intros cur; cbn [gen_segment_length_loop3 oseg]; cbv zeta; rewrite mask_test;
    set (x := nth cur nxt n); rewrite <- orb_assoc;
    (destruct (Nat.leb_spec n x) as [Hn|Hn]; cbn [orb]; [reflexivity|]);
    (destruct ((x =? cur)%nat || negb (maskok x)); [reflexivity|]);
    unfold outl; rewrite (outl_spec n outs x Hn); (destruct (isout x); [reflexivity|]).
  - reflexivity.
  - rewrite IH. destruct (oseg nxt isout maskok true f x) as [p|]; [|reflexivity]. cbn [option_map].
    rewrite last_cons_default. reflexivity.
Qed.

Definition len_h (i : nat) : option (option Z) :=
  let o := nth i outs n in
  if (n <=? o)%nat then Some None
  else match oseg nxt isout maskok true n o with
       | None => None
       | Some p => Some (Some (Z.abs (nth (last p o) distnc 0 - nth o distnc 0)))
       end.

Lemma len_step st i : gen_segment_length_loop2_step outs nxt distnc mask nodata outl st i = ustep len_h st i.
Proof.
  unfold gen_segment_length_loop2_step, ustep, len_h. cbv zeta. destruct (n <=? nth i outs n)%nat; [reflexivity|].
  rewrite len_loop3. destruct (oseg nxt isout maskok true n (nth i outs n)); reflexivity.
Qed.

Lemma len_val i : (i < length outs)%nat -> len_h i <> None ->
  uval len_h nodata i =
  (fun p => match p with [] => nodata | o :: _ => Z.abs (nth (last p o) distnc 0 - nth o distnc 0) end)
    ((fun o => if (o <? n)%nat then o :: seg nxt isout maskok true n o else []) (nth i outs n)).
Proof.
  intros Hi. unfold uval, len_h. cbv zeta beta. set (o := nth i outs n).
  destruct (Nat.leb_spec n o) as [Ho|Ho]; destruct (Nat.ltb_spec o n) as [H1|H1]; try (exfalso; lia).
  - reflexivity.
  - destruct (oseg nxt isout maskok true n o) as [p|] eqn:E; [|congruence]. intros _.
    rewrite (oseg_seg _ _ _ _ _ _ _ E), last_cons_default. reflexivity.
Qed.

Lemma len_run : gen_segment_length outs nxt distnc mask nodata =
  ofold (ustep len_h) (seq 0 (length outs)) (repeat nodata (length outs)).
Proof.
  unfold gen_segment_length. cbv zeta. rewrite len_outl.
  assert (E2 : forall l a, ofold (gen_segment_length_loop2_step outs nxt distnc mask nodata outl) l a = ofold (ustep len_h) l a).
  { induction l as [|y l IHl]; intros a; [reflexivity|]. rewrite !ofold_cons, len_step. destruct (ustep len_h a y); [apply IHl|reflexivity]. }
  rewrite E2. destruct (ofold (ustep len_h) (seq 0 (length outs)) (repeat nodata (length outs))); reflexivity.
Qed.

Lemma len_model : (forall i, (i < length outs)%nat -> len_h i <> None) ->
  map (uval len_h nodata) (seq 0 (length outs)) = segment_length nxt outs mask distnc nodata.
Proof.
  intros H. unfold segment_length, segment_paths. rewrite map_map.
  rewrite <- (map_seq_nth (fun o => match (if (o <? n)%nat then o :: seg nxt isout maskok true n o else []) with
                                     | [] => nodata | o0 :: _ => Z.abs (nth (last (if (o <? n)%nat then o :: seg nxt isout maskok true n o else []) o0) distnc 0 - nth o0 distnc 0) end) outs n).
  apply map_ext_in. intros i Hi. apply in_seq in Hi. rewrite len_val by (try apply H; lia). reflexivity.
Qed.

Theorem gen_segment_length_partial r :
  gen_segment_length outs nxt distnc mask nodata = Some r -> r = segment_length nxt outs mask distnc nodata.
Proof.
  rewrite len_run. intros H. rewrite (uloop_partial _ _ _ _ H). apply len_model.
  intros i Hi. eapply uloop_some; [exact H|apply in_seq; lia].
Qed.

Theorem gen_segment_length_eq : walks_end true ->
  gen_segment_length outs nxt distnc mask nodata = Some (segment_length nxt outs mask distnc nodata).
Proof.
  intros Hw. assert (Hh : forall i, (i < length outs)%nat -> len_h i <> None).
  { intros i Hi. unfold len_h. cbv zeta. destruct (Nat.leb_spec n (nth i outs n)); [discriminate|].
    pose proof (walks_end_oseg true Hw i Hi H) as Ho. destruct (oseg nxt isout maskok true n (nth i outs n)); congruence. }
  rewrite len_run, (uloop_total _ _ _ Hh). f_equal. apply len_model. exact Hh.
Qed.
End Length.

(* ------------------------------------------------------------------ the walk of segment_average / segment_median *)
Lemma pairs_map (data weights : list Z) (l : list nat) : (forall j, In j l -> (j < length weights)%nat) ->
  combine (map (fun j_ => nth j_ data 0) l) (map (fun j_ => nth j_ weights 0) l) = map (fun j => (nth j data 0, nth j weights 1)) l.
Proof.
  induction l as [|a l IH]; intros H; [reflexivity|]. cbn [map combine]. rewrite IH by (intros; apply H; right; assumption).
  rewrite (nth_indep weights 0 1) by (apply H; left; reflexivity). reflexivity.
Qed.

Section Average.
Variable data weights : list Z.
Variable nodata : Z.

Lemma avg_loop3 : forall fuel pre cur,
  gen_segment_average_loop3 outs nxt data weights mask nodata outl fuel (pre, cur) =
  option_map (fun p => (pre ++ p, last p cur)) (oseg nxt isout maskok false fuel cur).
Proof.
  induction fuel as [|f IH]; intros pre cur; cbn [gen_segment_average_loop3 oseg]; cbv zeta; rewrite mask_test;
    set (x := nth cur nxt n);
    (destruct (Nat.leb_spec n x) as [Hn|Hn]; cbn [orb option_map]; [rewrite app_nil_r; reflexivity|]);
    unfold outl; rewrite (outl_spec n outs x Hn);
    (destruct (x =? cur)%nat; cbn [orb option_map]; [rewrite app_nil_r; reflexivity|]);
    (destruct (isout x); cbn [orb option_map]; [destruct (negb (maskok x)); cbn [option_map]; rewrite app_nil_r; reflexivity|]);
    (destruct (negb (maskok x)); cbn [option_map]; [rewrite app_nil_r; reflexivity|]).
  - reflexivity.
  - fold outl. rewrite IH. destruct (oseg nxt isout maskok false f x) as [p|]; [|reflexivity]. cbn [option_map].
    rewrite <- app_assoc, last_cons_default. reflexivity.
Qed.

Definition avg_h (i : nat) : option (option (option Q)) :=
  let o := nth i outs n in
  if (n <=? o)%nat then Some None
  else match oseg nxt isout maskok false n o with
       | None => None
       | Some p => Some (Some (wmean (map (fun j => (nth j data 0, nth j weights 1)) (o :: p)) nodata))
       end.

Hypothesis Hw : (n <= length weights)%nat.

Lemma avg_step st i : gen_segment_average_loop2_step outs nxt data weights mask nodata outl st i = ustep avg_h st i.
Proof.
  unfold gen_segment_average_loop2_step, ustep, avg_h. cbv zeta. destruct (Nat.leb_spec n (nth i outs n)) as [Ho|Ho]; [reflexivity|].
  rewrite avg_loop3. destruct (oseg nxt isout maskok false n (nth i outs n)) as [p|] eqn:E; [|reflexivity]. cbn [option_map].
  replace (Z.of_nat (length ([nth i outs n] ++ p)) >? 0) with true by (cbn [app length]; symmetry; apply Z.gtb_lt; lia).
  cbn [app]. rewrite pairs_map; [reflexivity|].
  intros j [<-|Hj]; [lia|]. apply oseg_seg in E. rewrite <- E in Hj. apply seg_lt in Hj. lia.
Qed.

Lemma avg_run : gen_segment_average outs nxt data weights mask nodata =
  ofold (ustep avg_h) (seq 0 (length outs)) (repeat None (length outs)).
Proof.
  unfold gen_segment_average. cbv zeta.
  change (fold_left (gen_segment_average_loop1_step outs nxt data weights mask nodata) outs (repeat false n)) with outl.
  assert (E2 : forall l a, ofold (gen_segment_average_loop2_step outs nxt data weights mask nodata outl) l a = ofold (ustep avg_h) l a).
  { induction l as [|y l IHl]; intros a; [reflexivity|]. rewrite !ofold_cons, avg_step. destruct (ustep avg_h a y); [apply IHl|reflexivity]. }
  rewrite E2. destruct (ofold (ustep avg_h) (seq 0 (length outs)) (repeat None (length outs))); reflexivity.
Qed.

Lemma avg_model : (forall i, (i < length outs)%nat -> avg_h i <> None) ->
  map (uval avg_h None) (seq 0 (length outs)) = segment_average nxt outs mask data weights nodata.
Proof.
  intros H. unfold segment_average, segment_paths. rewrite map_map.
  rewrite <- (map_seq_nth (fun o => match (if (o <? n)%nat then o :: seg nxt isout maskok false n o else []) with
                                     | [] => None | _ :: _ => wmean (map (fun j => (nth j data 0, nth j weights 1)) (if (o <? n)%nat then o :: seg nxt isout maskok false n o else [])) nodata end) outs n).
  apply map_ext_in. intros i Hi. apply in_seq in Hi. specialize (H i ltac:(lia)). revert H. unfold uval, avg_h. cbv zeta.
  set (o := nth i outs n). destruct (Nat.leb_spec n o) as [Ho|Ho]; destruct (Nat.ltb_spec o n) as [H1|H1]; try (exfalso; lia).
  - reflexivity.
  - destruct (oseg nxt isout maskok false n o) as [p|] eqn:E; [|congruence]. intros _.
    rewrite (oseg_seg _ _ _ _ _ _ _ E). reflexivity.
Qed.

Theorem gen_segment_average_partial r :
  gen_segment_average outs nxt data weights mask nodata = Some r -> r = segment_average nxt outs mask data weights nodata.
Proof.
  rewrite avg_run. intros H. rewrite (uloop_partial _ _ _ _ H). apply avg_model.
  intros i Hi. eapply uloop_some; [exact H|apply in_seq; lia].
Qed.

Theorem gen_segment_average_eq : walks_end false ->
  gen_segment_average outs nxt data weights mask nodata = Some (segment_average nxt outs mask data weights nodata).
Proof.
  intros Hwe. assert (Hh : forall i, (i < length outs)%nat -> avg_h i <> None).
  { intros i Hi. unfold avg_h. cbv zeta. destruct (Nat.leb_spec n (nth i outs n)); [discriminate|].
    pose proof (walks_end_oseg false Hwe i Hi H) as Ho. destruct (oseg nxt isout maskok false n (nth i outs n)); congruence. }
  rewrite avg_run, (uloop_total _ _ _ Hh). f_equal. apply avg_model. exact Hh.
Qed.
End Average.

Section Median.
Variable data : list Z.
Variable nodata : Z.

Lemma med_loop3 : forall fuel pre cur,
  gen_segment_median_loop3 outs nxt data mask nodata outl fuel (pre, cur) =
  option_map (fun p => (pre ++ p, last p cur)) (oseg nxt isout maskok false fuel cur).
Proof.
  induction fuel as [|f IH]; intros pre cur; cbn [gen_segment_median_loop3 oseg]; cbv zeta; rewrite mask_test;
    set (x := nth cur nxt n);
    (destruct (Nat.leb_spec n x) as [Hn|Hn]; cbn [orb option_map]; [rewrite app_nil_r; reflexivity|]);
    unfold outl; rewrite (outl_spec n outs x Hn);
    (destruct (x =? cur)%nat; cbn [orb option_map]; [rewrite app_nil_r; reflexivity|]);
    (destruct (isout x); cbn [orb option_map]; [destruct (negb (maskok x)); cbn [option_map]; rewrite app_nil_r; reflexivity|]);
    (destruct (negb (maskok x)); cbn [option_map]; [rewrite app_nil_r; reflexivity|]).
  - reflexivity.
  - fold outl. rewrite IH. destruct (oseg nxt isout maskok false f x) as [p|]; [|reflexivity]. cbn [option_map].
    rewrite <- app_assoc, last_cons_default. reflexivity.
Qed.

Definition med_h (i : nat) : option (option (option Q)) :=
  let o := nth i outs n in
  if (n <=? o)%nat then Some None
  else match oseg nxt isout maskok false n o with
       | None => None
       | Some p => Some (Some (median (map (fun j => nth j data 0) (o :: p)) nodata))
       end.

Lemma med_step st i : gen_segment_median_loop2_step outs nxt data mask nodata outl st i = ustep med_h st i.
Proof.
  unfold gen_segment_median_loop2_step, ustep, med_h. cbv zeta. destruct (Nat.leb_spec n (nth i outs n)) as [Ho|Ho]; [reflexivity|].
  rewrite med_loop3. destruct (oseg nxt isout maskok false n (nth i outs n)) as [p|] eqn:E; [|reflexivity]. cbn [option_map].
  replace (Z.of_nat (length ([nth i outs n] ++ p)) >? 0) with true by (cbn [app length]; symmetry; apply Z.gtb_lt; lia).
  reflexivity.
Qed.

Lemma med_run : gen_segment_median outs nxt data mask nodata =
  ofold (ustep med_h) (seq 0 (length outs)) (repeat None (length outs)).
Proof.
  unfold gen_segment_median. cbv zeta.
  change (fold_left (gen_segment_median_loop1_step outs nxt data mask nodata) outs (repeat false n)) with outl.
  assert (E2 : forall l a, ofold (gen_segment_median_loop2_step outs nxt data mask nodata outl) l a = ofold (ustep med_h) l a).
  { induction l as [|y l IHl]; intros a; [reflexivity|]. rewrite !ofold_cons, med_step. destruct (ustep med_h a y); [apply IHl|reflexivity]. }
  rewrite E2. destruct (ofold (ustep med_h) (seq 0 (length outs)) (repeat None (length outs))); reflexivity.
Qed.

Lemma med_model : (forall i, (i < length outs)%nat -> med_h i <> None) ->
  map (uval med_h None) (seq 0 (length outs)) = segment_median nxt outs mask data nodata.
Proof.
  intros H. unfold segment_median, segment_paths. rewrite map_map.
  rewrite <- (map_seq_nth (fun o => match (if (o <? n)%nat then o :: seg nxt isout maskok false n o else []) with
                                     | [] => None | _ :: _ => median (map (fun j => nth j data 0) (if (o <? n)%nat then o :: seg nxt isout maskok false n o else [])) nodata end) outs n).
  apply map_ext_in. intros i Hi. apply in_seq in Hi. specialize (H i ltac:(lia)). revert H. unfold uval, med_h. cbv zeta.
  set (o := nth i outs n). destruct (Nat.leb_spec n o) as [Ho|Ho]; destruct (Nat.ltb_spec o n) as [H1|H1]; try (exfalso; lia).
  - reflexivity.
  - destruct (oseg nxt isout maskok false n o) as [p|] eqn:E; [|congruence]. intros _.
    rewrite (oseg_seg _ _ _ _ _ _ _ E). reflexivity.
Qed.

Theorem gen_segment_median_partial r :
  gen_segment_median outs nxt data mask nodata = Some r -> r = segment_median nxt outs mask data nodata.
Proof.
  rewrite med_run. intros H. rewrite (uloop_partial _ _ _ _ H). apply med_model.
  intros i Hi. eapply uloop_some; [exact H|apply in_seq; lia].
Qed.

Theorem gen_segment_median_eq : walks_end false ->
  gen_segment_median outs nxt data mask nodata = Some (segment_median nxt outs mask data nodata).
Proof.
  intros Hwe. assert (Hh : forall i, (i < length outs)%nat -> med_h i <> None).
  { intros i Hi. unfold med_h. cbv zeta. destruct (Nat.leb_spec n (nth i outs n)); [discriminate|].
    pose proof (walks_end_oseg false Hwe i Hi H) as Ho. destruct (oseg nxt isout maskok false n (nth i outs n)); congruence. }
  rewrite med_run, (uloop_total _ _ _ Hh). f_equal. apply med_model. exact Hh.
Qed.
End Median.
End Walk.

(* on a loop-free network (a topological order that contains every cell) no walk uses up the fuel *)
Corollary gen_segment_length_topo nxt outs mask distnc nodata sq : topo nxt sq -> complete nxt sq ->
  gen_segment_length outs nxt distnc mask nodata = Some (segment_length nxt outs mask distnc nodata).
Proof. intros Ht Hc. apply gen_segment_length_eq. eapply topo_walks_end; eauto. Qed.

Corollary gen_segment_average_topo nxt outs mask data weights nodata sq : (length nxt <= length weights)%nat ->
  topo nxt sq -> complete nxt sq ->
  gen_segment_average outs nxt data weights mask nodata = Some (segment_average nxt outs mask data weights nodata).
Proof. intros Hw Ht Hc. apply gen_segment_average_eq; [exact Hw|]. eapply topo_walks_end; eauto. Qed.

Corollary gen_segment_median_topo nxt outs mask data nodata sq : topo nxt sq -> complete nxt sq ->
  gen_segment_median outs nxt data mask nodata = Some (segment_median nxt outs mask data nodata).
Proof. intros Ht Hc. apply gen_segment_median_eq. eapply topo_walks_end; eauto. Qed.

(* satisfiable and not vacuous: 6 cells, 5 -> 4 -> 3 -> 2 -> 1 -> 0 (pit), outlet pixels 5 and 2 and a missing one *)
Example seg_walk_example :
  topo [0;0;1;2;3;4]%nat [0;1;2;3;4;5]%nat /\ complete [0;0;1;2;3;4]%nat [0;1;2;3;4;5]%nat /\
  gen_segment_length [5;6;2]%nat [0;0;1;2;3;4]%nat [0;10;20;30;40;55] None (-9999) = Some [35; -9999; 20] /\
  segment_length [0;0;1;2;3;4]%nat [5;6;2]%nat None [0;10;20;30;40;55] (-9999) = [35; -9999; 20] /\
  gen_segment_median [5;6;2]%nat [0;0;1;2;3;4]%nat [7;1;2;3;4;5] None (-9999) =
    Some (segment_median [0;0;1;2;3;4]%nat [5;6;2]%nat None [7;1;2;3;4;5] (-9999)) /\
  gen_segment_average [5;6;2]%nat [0;0;1;2;3;4]%nat [7;1;2;3;4;5] [1;1;1;1;1;1] None (-9999) =
    Some (segment_average [0;0;1;2;3;4]%nat [5;6;2]%nat None [7;1;2;3;4;5] [1;1;1;1;1;1] (-9999)).
Proof.
  split; [apply check_topo_sound; vm_compute; reflexivity|].
  split; [apply check_complete_sound; vm_compute; reflexivity|]. vm_compute. auto.
Qed.

Print Assumptions gen_segment_length_partial.
Print Assumptions gen_segment_length_eq.
Print Assumptions gen_segment_average_partial.
Print Assumptions gen_segment_average_eq.
Print Assumptions gen_segment_median_partial.
Print Assumptions gen_segment_median_eq.
Print Assumptions gen_segment_length_topo.
Print Assumptions gen_segment_average_topo.
Print Assumptions gen_segment_median_topo.
