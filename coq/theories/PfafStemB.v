(* Pfafstetter main stem, part B: what one tributary step of the work loop does to the labels. *)
From Coq Require Import List Arith ZArith Bool Lia.
Import ListNotations.
From PF Require Import Arr Net SweepDown Fill FillSpec Rank Stream Subbas PfafDigits.
From PF Require Import PfafClosureA PfafClosureB PfafClosureC PfafStemA.
Local Open Scope Z_scope.

Section TribFacts.
Variable ds : list nat.
Variable main : list nat.
Variable strord : list Z.
Let n := length ds.
Variable rk : nat -> nat.
Notation mn x := (nth x main n).
Notation dsf := (dsf ds).
Hypothesis Hrk : forall c, (c < n)%nat -> (dsf c < n)%nat -> dsf c <> c -> (rk (dsf c) < rk c)%nat.
Hypothesis Hrkn : forall c, (c < n)%nat -> (dsf c < n)%nat -> (rk c < n)%nat.
Hypothesis HM : forall x, (mn x < n)%nat -> dsf (mn x) = x /\ mn x <> x.
Variable uparea : list Z.
Notation ua c := (nth c uparea 0).
Hypothesis Hua : forall c, (c < n)%nat -> (dsf c < n)%nat -> dsf c <> c -> ua c < ua (dsf c).
Variable trib : list nat.
Hypothesis HT : forall t, In t trib ->
  (t < n)%nat /\ (dsf t < n)%nat /\ dsf t <> t /\ mn (dsf t) <> t /\ (mn (dsf t) < n)%nat.
Variables (b0 : list Z) (idxs0 : list nat) (pfaf0 : Z).
Hypothesis HI0 : INV ds main b0 idxs0.
Hypothesis Hp0 : pfaf0 <> 0.

Notation SINV' := (SINV ds main uparea trib b0 idxs0 pfaf0).
Notation C0' := (C0 ds b0 idxs0 pfaf0).

Lemma trib_core_facts psub pint t0 rest b idxs X :
  SINV' (t0 :: rest) b idxs X -> (forall t, In t rest -> ua (dsf t) <= ua (dsf t0)) -> ~ In t0 rest ->
  psub <> 0 -> pint <> 0 -> X <> pint -> psub <> pint -> X <> psub ->
  (forall c, lab b c <> psub) -> (forall c, lab b c <> pint) ->
  let r := trib_core ds main strord psub pint b idxs X t0 in
  let b' := fst (fst (fst r)) in let idxs' := snd (fst (fst r)) in let X' := snd (fst r) in let cr := snd r in
  let c1 := mn (dsf t0) in
  (forall c, lab b c <> 0 -> lab b' c = lab b c \/ (cr = true /\ lab b c = X /\ lab b' c = pint)) /\
  (forall o, In o idxs -> lab b' o = lab b o) /\
  lab b' t0 = psub /\
  idxs' = (if cr then (idxs ++ [t0]) ++ [c1] else idxs ++ [t0]) /\
  X' = (if cr then pint else X) /\
  (cr = true -> lab b' c1 = pint /\ lab b' (dsf t0) = lab b (dsf t0)) /\
  lab b (dsf t0) <> 0 /\ lab b0 (dsf t0) = pfaf0 /\ dsf c1 = dsf t0 /\ mn (dsf t0) <> t0 /\ dsf t0 <> t0 /\ c1 <> dsf t0.
Proof.
  intros HS Hsort Hnd Hps Hpi HXp Hpp HXs Hf1 Hf2.
  pose proof (s_inv _ _ _ _ _ _ _ _ _ _ _ HS) as HI.
  pose proof (s_x _ _ _ _ _ _ _ _ _ _ _ HS) as HX.
  destruct (s_rem _ _ _ _ _ _ _ _ _ _ _ HS t0 (or_introl eq_refl)) as (Ht0 & Hl0 & Hw0).
  destruct (HT t0 Ht0) as (T1 & T2 & T3 & T4 & T5).
  set (w0 := dsf t0) in *.
  assert (Hlw : lab b w0 <> 0) by (apply (s_f0 _ _ _ _ _ _ _ _ _ _ _ HS); rewrite Hw0; exact Hp0).
  cbv zeta. unfold trib_core. fold n. fold w0.
  destruct (outlet_sub ds main HM (stop_so strord) psub idxs b t0 n HI Hps T1 Hl0 (or_intror Hlw) Hf1) as [HI1 V1].
  fold n in HI1, V1.
  set (b1 := climb n n main (stop_so strord) psub (upd b t0 psub) t0) in *.
  set (idxs1 := idxs ++ [t0]) in *.
  set (c1 := mn w0) in *.
  destruct (HM w0 T5) as [Hd1 Hne1]. fold c1 in Hd1, Hne1.
  assert (K1 : forall c, lab b c <> 0 -> lab b1 c = lab b c).
  { intros c Hc. destruct (V1 c) as [E|[E _]]; [exact E|contradiction]. }
  assert (A_sub : forall o, In o idxs0 -> In o idxs1).
  { intros o Ho. unfold idxs1. apply in_or_app. left. apply (s_sub _ _ _ _ _ _ _ _ _ _ _ HS). exact Ho. }
  assert (A_f2 : forall c, (c < n)%nat -> lab b1 c <> 0 -> ~ In c idxs1 -> lab b0 c = 0 -> lab b0 (dsf c) = 0).
  { intros c Hc Hl Hn Hz.
    assert (Hci : ~ In c idxs) by (intros H; apply Hn; unfold idxs1; apply in_or_app; left; exact H).
    destruct (V1 c) as [E|[E1 E2]].
    - apply (s_f2 _ _ _ _ _ _ _ _ _ _ _ HS c Hc); [rewrite <- E; exact Hl|exact Hci|exact Hz].
    - destruct (inv1 _ _ _ _ HI1 c Hc Hl Hn) as (_ & _ & A3). rewrite E2 in A3.
      destruct (Z.eq_dec (lab b0 (dsf c)) 0) as [Y|N]; [exact Y|exfalso].
      pose proof (s_f0 _ _ _ _ _ _ _ _ _ _ _ HS _ N) as H. apply (Hf1 (dsf c)). rewrite <- (K1 _ H). exact A3. }
  assert (A_h : forall t c, In t (t0 :: rest) -> C0' c -> ua (dsf c) <= ua (dsf t) -> In c idxs1 \/ lab b1 c = X).
  { intros t c Ht HC Hle. destruct (s_h _ _ _ _ _ _ _ _ _ _ _ HS t c Ht HC Hle) as [H|H].
    - left. unfold idxs1. apply in_or_app. left. exact H.
    - right. rewrite K1; [exact H|]. rewrite H. exact HX. }
  assert (A_N : ~ In c1 idxs1 -> lab b1 c1 <> 0 -> lab b1 c1 = X).
  { intros Hn1 Hl1.
    assert (Hz : lab b0 c1 <> 0).
    { intros Hz. pose proof (A_f2 c1 T5 Hl1 Hn1 Hz) as H. rewrite Hd1, Hw0 in H. contradiction. }
    assert (Hn0 : ~ In c1 idxs0) by (intros H; apply Hn1; apply A_sub; exact H).
    destruct (inv1 _ _ _ _ HI0 c1 T5 Hz Hn0) as (_ & _ & A3). rewrite Hd1, Hw0 in A3.
    assert (HC : C0' c1) by (split; [exact Hn0|split; [exact T5|symmetry; exact A3]]).
    destruct (A_h t0 c1 (or_introl eq_refl) HC ltac:(rewrite Hd1; fold w0; lia)) as [H|H]; [contradiction|exact H]. }
  assert (F3a : lab b1 t0 = psub).
  { destruct (V1 t0) as [E|[_ E]]; [|exact E]. exfalso.
    destruct (inv2 _ _ _ _ HI1 t0 ltac:(unfold idxs1; apply in_or_app; right; left; reflexivity)) as (_ & A & _).
    apply A. rewrite E. exact Hl0. }
  assert (Hrest : lab b w0 <> 0 /\ lab b0 w0 = pfaf0 /\ dsf c1 = w0 /\ c1 <> t0 /\ w0 <> t0 /\ c1 <> w0).
  { split; [exact Hlw|]. split; [exact Hw0|]. split; [exact Hd1|]. split; [exact T4|]. split; [exact T3|exact Hne1]. }
  destruct (negb (memb c1 idxs1)) eqn:Em; cbn [fst snd].
  - apply negb_true_iff in Em. apply memb_false in Em.
    assert (Hf2' : forall c, lab b1 c <> pint).
    { intros c. destruct (V1 c) as [E|[_ E]]; rewrite E; [apply Hf2|exact Hpp]. }
    assert (Hlw1 : lab b1 w0 <> 0) by (rewrite K1; exact Hlw).
    destruct (outlet_inter ds main rk Hrk Hrkn HM X pint idxs1 b1 w0 HI1 HX Hpi HXp T2 T5 Em Hlw1 Hf2' (A_N Em))
      as (HI2 & V2 & Vc1).
    fold n in HI2, V2, Vc1. fold c1 in HI2, V2, Vc1.
    set (b2 := climb n n main (stopX X) pint (upd b1 c1 pint) c1) in *.
    assert (F1 : forall c, lab b c <> 0 -> lab b2 c = lab b c \/ (true = true /\ lab b c = X /\ lab b2 c = pint)).
    { intros c Hc. pose proof (K1 c Hc) as E1.
      destruct (V2 c) as [E|[[E|E] E2]].
      - left. rewrite E. exact E1.
      - right. split; [reflexivity|]. split; [rewrite <- E1; exact E|exact E2].
      - right. split; [reflexivity|]. split; [|exact E2]. subst c. rewrite <- E1. apply (A_N Em). rewrite E1. exact Hc. }
    assert (Hc1in : In c1 (idxs1 ++ [c1])) by (apply in_or_app; right; left; reflexivity).
    split; [exact F1|]. split; [|split; [|split; [reflexivity|split; [reflexivity|split; [|exact Hrest]]]]].
    + intros o Ho. destruct (inv2 _ _ _ _ HI o Ho) as (_ & A & _).
      destruct (F1 o A) as [E|(_ & _ & E)]; [exact E|exfalso].
      assert (Ho1 : In o idxs1) by (unfold idxs1; apply in_or_app; left; exact Ho).
      assert (Eo : o = c1).
      { apply (inv5 _ _ _ _ HI2); [apply in_or_app; left; exact Ho1|exact Hc1in|rewrite E, Vc1; reflexivity]. }
      apply Em. rewrite <- Eo. exact Ho1.
    + destruct (V2 t0) as [E|[[E|E] _]]; [rewrite E; exact F3a|exfalso; apply HXs; rewrite <- E; exact F3a|].
      exfalso. apply T4. symmetry. exact E.
    + intros _. split; [exact Vc1|].
      destruct (F1 w0 Hlw) as [E|(_ & _ & E)]; [exact E|exfalso].
      apply (inv4 _ _ _ _ HI2 c1 Hc1in ltac:(rewrite Hd1; congruence)). rewrite Hd1, E, Vc1. reflexivity.
  - split; [intros c Hc; left; apply K1; exact Hc|].
    split; [intros o Ho; apply K1; destruct (inv2 _ _ _ _ HI o Ho) as (_ & A & _); exact A|].
    split; [exact F3a|]. split; [reflexivity|]. split; [reflexivity|]. split; [discriminate|exact Hrest].
Qed.

End TribFacts.
