(* C20: optimality of spread2d (Dijkstra with lazy deletion).  Ghost-instrumented loop: the list of expanded cells. *)
From Coq Require Import List Arith ZArith Lia Bool FinFun.
Import ListNotations.
From PF Require Import Arr ElevSpec Flood FloodTree Spread SpreadSpec.
Local Open Scope Z_scope.

(* ---------- qmin ---------- *)
Lemma qmin_spec q m rest : qmin q = Some (m, rest) ->
  (forall x, In x q <-> x = m \/ In x rest) /\ (forall x, In x rest -> fst m <= fst x) /\
  (NoDup q -> NoDup rest /\ ~ In m rest) /\ length q = S (length rest).
Proof.
  revert m rest. induction q as [|a t IH]; intros m rest H; simpl in H; [discriminate|].
  destruct (qmin t) as [[m' r']|] eqn:E.
  - destruct (IH m' r' eq_refl) as (H1 & H2 & H3 & H4).
    destruct (qlt a m') eqn:Ek; inversion H; subst.
    + split; [intros x; simpl; split; intros [Hx|Hx]; auto|]. split; [|split].
      * intros x Hx. apply H1 in Hx. unfold qlt in Ek. apply orb_true_iff in Ek.
        assert (fst m <= fst m').
        { destruct Ek as [Ek|Ek]; [apply Z.ltb_lt in Ek; lia|apply andb_true_iff in Ek; destruct Ek as [Ek _]; apply Z.eqb_eq in Ek; lia]. }
        destruct Hx as [->|Hx]; [auto|specialize (H2 x Hx); lia].
      * intros Hn. inversion Hn; subst. split; auto.
      * simpl. reflexivity.
    + split; [intros x; simpl; rewrite H1; clear; intuition auto|]. split; [|split].
      * intros x [<-|Hx]; [|auto]. unfold qlt in Ek. apply orb_false_iff in Ek. destruct Ek as [Ek _]. apply Z.ltb_ge in Ek. exact Ek.
      * intros Hn. inversion Hn as [|? ? Hna Hnt]; subst. destruct (H3 Hnt) as [Hr Hm]. split.
        -- constructor; auto. intros Hin. apply Hna. apply H1. right. exact Hin.
        -- intros [Heq|Hin]; [|contradiction]. subst a. apply Hna. apply H1. left. reflexivity.
      * simpl. rewrite H4. reflexivity.
  - inversion H; subst. assert (t = []).
    { destruct t as [|b t']; auto. simpl in E. destruct (qmin t') as [[? ?]|]; [destruct (qlt b p)|]; discriminate. }
    subst t. split; [intros x; simpl; intuition congruence|]. split; [intros x []|]. split; [intros _; split; [constructor|intros []]|reflexivity].
Qed.

Lemma qmin_none q : qmin q = None -> q = [].
Proof. destruct q as [|a t]; auto. simpl. destruct (qmin t) as [[? ?]|]; [destruct (qlt a p)|]; discriminate. Qed.

Section SpreadOpt.
Variables nrow ncol : nat.
Variable obs : list Z.
Variable msk : option (list bool).
Variable nodata : Z.
Variable frc : option (list Z).
Variables dx dy hyp : Z.
Hypothesis Hdx : 0 <= dx.
Hypothesis Hdy : 0 <= dy.
Hypothesis Hhyp : 0 <= hyp.
Hypothesis Hfrc : forall i, 0 <= match frc with None => 1 | Some fr => nth i fr 1 end.
Hypothesis Hobs : length obs = (nrow * ncol)%nat.
Notation sz := (nrow * ncol)%nat.
Notation isobs i := (negb (nth i obs nodata =? nodata)).
Notation mok := (mok msk).
Notation sinv := (sinv nrow ncol obs msk nodata).
Definition fr (i : nat) : Z := match frc with None => 1 | Some f => nth i f 1 end.
Notation relax d0 i0 := (relax nrow ncol obs msk dx dy hyp d0 i0 (fr i0)).
Notation steplen := (steplen dx dy hyp).
Definition cost (u : nat) (o : Z * Z) : Z := steplen o * fr u.
Definition nbr (u : nat) (o : Z * Z) : nat := lin ncol (row ncol u + fst o) (col ncol u + snd o).
Definition nin (u : nat) (o : Z * Z) : bool := inb nrow ncol (row ncol u + fst o) (col ncol u + snd o).

Lemma cost_nonneg u o : 0 <= cost u o.
Proof. unfold cost, Spread.steplen. pose proof (Hfrc u). unfold fr. destruct (fst o =? 0), (snd o =? 0); nia. Qed.

Lemma nbr_ne u o : (u < sz)%nat -> In o nb8 -> nin u o = true -> nbr u o <> u /\ (nbr u o < sz)%nat.
Proof.
  intros Hu Ho Hin. destruct (lin_bound nrow ncol _ _ Hin) as (Hlt & Hr & Hc). split; auto.
  intros Heq. unfold nbr in Heq. rewrite Heq in Hr, Hc.
  assert (fst o = 0 /\ snd o = 0) by lia. destruct o as [a b]. simpl in *. destruct H; subst.
  unfold nb8 in Ho. simpl in Ho. intuition congruence.
Qed.

(* a path from a (masked-in) observation cell through masked-in cells, with its accumulated cost *)
Inductive apath : nat -> nat -> Z -> Prop :=
| ap_src s : (s < sz)%nat -> isobs s = true -> mok s = true -> apath s s 0
| ap_step s u o D : apath s u D -> In o nb8 -> nin u o = true -> mok (nbr u o) = true -> apath s (nbr u o) (D + cost u o).

Definition srcv (st : sstate) (j : nat) : Z := nth j (s_src st) 0.
Definition dstv (st : sstate) (j : nat) : Z := nth j (s_dst st) 0.
Definition relaxedS (st : sstate) (u : nat) : Prop :=
  forall o, In o nb8 -> nin u o = true -> mok (nbr u o) = true ->
    srcv st (nbr u o) <> -1 /\ dstv st (nbr u o) <= dstv st u + cost u o.

(* what one relaxation does *)
Lemma relax_cases d0 i0 st o :
  relax d0 i0 st o = st \/
  (nin i0 o = true /\ mok (nbr i0 o) = true /\
   (srcv st (nbr i0 o) = -1 \/ d0 + cost i0 o < dstv st (nbr i0 o)) /\
   s_src (relax d0 i0 st o) = upd (s_src st) (nbr i0 o) (srcv st i0) /\
   s_dst (relax d0 i0 st o) = upd (s_dst st) (nbr i0 o) (d0 + cost i0 o) /\
   s_out (relax d0 i0 st o) = upd (s_out st) (nbr i0 o) (nth (Z.to_nat (srcv st i0)) obs 0) /\
   s_q (relax d0 i0 st o) = (d0 + cost i0 o, nbr i0 o) :: s_q st).
Proof.
  unfold Spread.relax, nin, nbr, Flood.inb, Flood.lin, Flood.row, Flood.col, srcv, dstv, cost.
  destruct (negb (sinb nrow ncol _ _)) eqn:Eb; [left; reflexivity|]. apply negb_false_iff in Eb.
  destruct (negb (Spread.mok msk _)) eqn:Em; [left; reflexivity|]. apply negb_false_iff in Em.
  destruct (_ || _) eqn:Eu; [|left; reflexivity].
  right. split; [exact Eb|]. split; [exact Em|]. split.
  - apply orb_true_iff in Eu. destruct Eu as [Eu|Eu]; [left; apply Z.eqb_eq; exact Eu|right; apply Z.ltb_lt; exact Eu].
  - simpl. repeat split; reflexivity.
Qed.

Lemma relax_keeps d0 i0 st o : relax d0 i0 st o = st ->
  nin i0 o = true -> mok (nbr i0 o) = true -> srcv st (nbr i0 o) <> -1 /\ dstv st (nbr i0 o) <= d0 + cost i0 o.
Proof.
  unfold Spread.relax, nin, nbr, Flood.inb, Flood.lin, Flood.row, Flood.col, srcv, dstv, cost.
  intros Heq Hin Hm. unfold sinb in *. rewrite Hin in Heq. simpl in Heq. rewrite Hm in Heq. simpl in Heq.
  destruct (_ || _) eqn:Eu.
  - exfalso. apply (f_equal s_q) in Heq. simpl in Heq.
    assert (length ((d0 + Spread.steplen dx dy hyp o * fr i0, Z.to_nat ((Z.of_nat (i0 / ncol) + fst o) * Z.of_nat ncol + (Z.of_nat (i0 mod ncol) + snd o))) :: s_q st) = length (s_q st)) by (rewrite Heq; reflexivity).
    simpl in H. lia.
  - apply orb_false_iff in Eu. destruct Eu as [E1 E2]. apply Z.eqb_neq in E1. apply Z.ltb_ge in E2. split; auto.
Qed.

(* ---------- ghost loop ---------- *)
Fixpoint gloop (fuel : nat) (st : sstate) (E : list nat) : sstate * list nat :=
  match fuel with
  | O => (st, E)
  | S f => match qmin (s_q st) with
           | None => (st, E)
           | Some ((d0, i0), rest) =>
             let st1 := {| s_out := s_out st; s_src := s_src st; s_dst := s_dst st; s_q := rest |} in
             if nth i0 (s_dst st) 0 <? d0 then gloop f st1 E
             else gloop f (fold_left (relax d0 i0) nb8 st1) (i0 :: E)
           end
  end.

Lemma gloop_fst fuel : forall st E, fst (gloop fuel st E) = sloop nrow ncol obs msk frc dx dy hyp fuel st.
Proof.
  induction fuel as [|f IH]; intros st E; simpl; auto.
  destruct (qmin (s_q st)) as [[[d0 i0] rest]|]; auto.
  destruct (nth i0 (s_dst st) 0 <? d0); apply IH.
Qed.

(* ---------- the invariant ---------- *)
Record ginv (dl : Z) (st : sstate) (E L : list nat) : Prop := {
  g_sinv : sinv st;
  g_keys : forall d j, In (d, j) (s_q st) -> dl <= d /\ dstv st j <= d /\ mok j = true /\ (j < sz)%nat /\ srcv st j <> -1;
  g_nd : NoDup (s_q st);
  g_live : forall j, (j < sz)%nat -> srcv st j <> -1 -> mok j = true -> ~ In j L -> In (dstv st j, j) (s_q st);
  g_exp : forall i, In i E -> (i < sz)%nat /\ srcv st i <> -1 /\ mok i = true /\ dstv st i <= dl /\ relaxedS st i;
  g_stale : forall d j, In (d, j) (s_q st) -> In j E -> dstv st j < d;
  g_E : NoDup E;
  g_path : forall j, (j < sz)%nat -> srcv st j <> -1 -> mok j = true -> apath (Z.to_nat (srcv st j)) j (dstv st j) }.

(* the effect of one relaxation on the invariant, while cell i0 (level d0) is being expanded *)
Record xpnd (d0 : Z) (i0 : nat) (st : sstate) (E : list nat) : Prop := {
  e_g : ginv d0 st E (i0 :: E);
  e_i0 : (i0 < sz)%nat /\ srcv st i0 <> -1 /\ mok i0 = true /\ dstv st i0 = d0 /\ ~ In i0 E;
  e_noi0 : forall d, In (d, i0) (s_q st) -> d0 < d }.

Lemma relax_xpnd d0 i0 st E o : In o nb8 -> xpnd d0 i0 st E -> xpnd d0 i0 (relax d0 i0 st o) E.
Proof.
  intros Ho [HG (Hi0 & Hs0 & Hm0 & Hd0 & HnE) Hno].
  assert (Hsinv' : sinv (relax d0 i0 st o)).
  { apply (relax_sinv nrow ncol obs msk nodata frc dx dy hyp Hdx Hdy Hhyp Hfrc Hobs d0 i0 st o (g_sinv _ _ _ _ HG)); [|exact Hi0|exact Hs0].
    destruct (g_sinv _ _ _ _ HG) as (_ & _ & _ & Hd & _). specialize (Hd i0). unfold dstv in Hd0. lia. }
  destruct (relax_cases d0 i0 st o) as [Heq|(Hin & Hm & Hupd & Hsrc & Hdst & Hout & Hq)]; [rewrite Heq; constructor; auto|].
  destruct (nbr_ne i0 o Hi0 Ho Hin) as [Hne Hjlt]. set (jj := nbr i0 o) in *. set (d := d0 + cost i0 o) in *.
  assert (Hcost : 0 <= cost i0 o) by apply cost_nonneg.
  destruct (g_sinv _ _ _ _ HG) as (L1 & L2 & L3 & Hdpos & _ & _).
  set (st' := relax d0 i0 st o) in *.
  assert (S1 : forall x, srcv st' x = if (x =? jj)%nat then srcv st i0 else srcv st x).
  { intros x. unfold srcv. rewrite Hsrc, nth_upd, L2. destruct (Nat.eqb_spec x jj) as [->|]; simpl; auto.
    apply Nat.ltb_lt in Hjlt. rewrite Hjlt. reflexivity. }
  assert (D1 : forall x, dstv st' x = if (x =? jj)%nat then d else dstv st x).
  { intros x. unfold dstv. rewrite Hdst, nth_upd, L3. destruct (Nat.eqb_spec x jj) as [->|]; simpl; auto.
    apply Nat.ltb_lt in Hjlt. rewrite Hjlt. reflexivity. }
  (* the updated cell is not expanded *)
  assert (HjE : ~ In jj E).
  { intros Hin'. destruct (g_exp _ _ _ _ HG jj Hin') as (_ & Hsj & _ & Hdj & _). destruct Hupd as [Hu|Hu]; [contradiction|lia]. }
  (* distances only decrease *)
  assert (Dle : forall x, srcv st x <> -1 -> dstv st' x <= dstv st x).
  { intros x Hx. rewrite D1. destruct (Nat.eqb_spec x jj) as [->|]; [|lia]. destruct Hupd as [Hu|Hu]; [contradiction|lia]. }
  assert (Skeep : forall x, srcv st x <> -1 -> srcv st' x <> -1).
  { intros x Hx. rewrite S1. destruct (Nat.eqb_spec x jj); auto. }
  constructor; [constructor| |].
  - exact Hsinv'.
  - intros d' j Hin'. rewrite Hq in Hin'. destruct Hin' as [Heq|Hin'].
    + inversion Heq; subst d' j. rewrite D1, S1, Nat.eqb_refl. repeat split; auto; lia.
    + destruct (g_keys _ _ _ _ HG d' j Hin') as (A & B & C & D & F). split; auto. split; [pose proof (Dle j F); lia|]. split; auto.
  - rewrite Hq. constructor; [|apply (g_nd _ _ _ _ HG)].
    intros Hin'. destruct (g_keys _ _ _ _ HG d jj Hin') as (_ & B & _ & _ & F). destruct Hupd as [Hu|Hu]; [contradiction|lia].
  - intros j Hj Hs Hmj HnEj. rewrite Hq, D1. destruct (Nat.eqb_spec j jj) as [->|Hnj]; [left; reflexivity|].
    right. apply (g_live _ _ _ _ HG); auto. rewrite S1 in Hs. destruct (Nat.eqb_spec j jj); [contradiction|auto].
  - intros i Hi. destruct (g_exp _ _ _ _ HG i Hi) as (A & B & C & D & R).
    assert (Hij : i <> jj) by (intros ->; contradiction).
    split; auto. split; [apply Skeep; auto|]. split; auto.
    split; [rewrite D1; destruct (Nat.eqb_spec i jj); [contradiction|auto]|].
    intros o' Ho' Hin' Hm'. destruct (R o' Ho' Hin' Hm') as [R1 R2]. split; [apply Skeep; auto|].
    pose proof (Dle _ R1). rewrite (D1 i). destruct (Nat.eqb_spec i jj); [contradiction|lia].
  - intros d' j Hin' HjE'. rewrite Hq in Hin'. destruct Hin' as [Heq|Hin'].
    + inversion Heq; subst. contradiction.
    + pose proof (g_stale _ _ _ _ HG d' j Hin' HjE'). rewrite D1. destruct (Nat.eqb_spec j jj) as [->|]; [contradiction|auto].
  - apply (g_E _ _ _ _ HG).
  - intros j Hj Hs Hmj. rewrite S1, D1 in *. destruct (Nat.eqb_spec j jj) as [->|Hnj].
    + unfold d, jj. apply ap_step; auto. rewrite <- Hd0. apply (g_path _ _ _ _ HG); auto.
    + apply (g_path _ _ _ _ HG); auto.
  - split; auto. split; [apply Skeep; auto|]. split; auto. split; [rewrite D1; destruct (Nat.eqb_spec i0 jj); [congruence|auto]|auto].
  - intros d' Hin'. rewrite Hq in Hin'. destruct Hin' as [Heq|Hin']; [inversion Heq; congruence|apply Hno; auto].
Qed.

Lemma fold_relax_xpnd d0 i0 E l : (forall o, In o l -> In o nb8) -> forall st, xpnd d0 i0 st E -> xpnd d0 i0 (fold_left (relax d0 i0) l st) E.
Proof. induction l as [|o l IH]; intros Hl st H; simpl; auto. apply IH; [intros; apply Hl; right; auto|]. apply relax_xpnd; auto. apply Hl; left; auto. Qed.

(* after relaxing offset o its clause holds, and later relaxations keep it *)
Definition sclause (st : sstate) (d0 : Z) (i0 : nat) (o : Z * Z) : Prop :=
  nin i0 o = true -> mok (nbr i0 o) = true -> srcv st (nbr i0 o) <> -1 /\ dstv st (nbr i0 o) <= d0 + cost i0 o.


Lemma relax_mono d0 i0 st E o : In o nb8 -> xpnd d0 i0 st E ->
  forall x, srcv st x <> -1 -> srcv (relax d0 i0 st o) x <> -1 /\ dstv (relax d0 i0 st o) x <= dstv st x.
Proof.
  intros Ho [HG (Hi0 & Hs0 & Hm0 & Hd0 & HnE) Hno] x Hx.
  destruct (relax_cases d0 i0 st o) as [Heq|(Hin & Hm & Hupd & Hsrc & Hdst & _)]; [rewrite Heq; split; auto; lia|].
  destruct (nbr_ne i0 o Hi0 Ho Hin) as [Hne Hjlt].
  destruct (g_sinv _ _ _ _ HG) as (L1 & L2 & L3 & _).
  unfold srcv, dstv in *. rewrite Hsrc, Hdst, !nth_upd, L2, L3.
  destruct (Nat.eqb_spec x (nbr i0 o)) as [->|]; simpl; [|split; auto; lia].
  apply Nat.ltb_lt in Hjlt. rewrite Hjlt. split; auto. destruct Hupd as [Hu|Hu]; [contradiction|lia].
Qed.

Lemma relax_sclause d0 i0 st E o : In o nb8 -> xpnd d0 i0 st E -> sclause (relax d0 i0 st o) d0 i0 o.
Proof.
  intros Ho HX Hin Hm. destruct HX as [HG (Hi0 & Hs0 & Hm0 & Hd0 & HnE) Hno].
  destruct (relax_cases d0 i0 st o) as [Heq|(_ & _ & Hupd & Hsrc & Hdst & _)].
  - rewrite Heq. apply relax_keeps; auto.
  - destruct (nbr_ne i0 o Hi0 Ho Hin) as [Hne Hjlt]. destruct (g_sinv _ _ _ _ HG) as (L1 & L2 & L3 & _).
    unfold srcv, dstv in *. rewrite Hsrc, Hdst, !nth_upd_eq by lia. split; [exact Hs0|lia].
Qed.

Lemma fold_sclauses d0 i0 E l : (forall o, In o l -> In o nb8) -> forall st, xpnd d0 i0 st E ->
  forall o, In o l -> sclause (fold_left (relax d0 i0) l st) d0 i0 o.
Proof.
  induction l as [|a l IH]; intros Hl st HX o Hin; [destruct Hin|]. simpl.
  assert (Ha : In a nb8) by (apply Hl; left; auto).
  pose proof (relax_xpnd d0 i0 st E a Ha HX) as HX'.
  destruct Hin as [<-|Hin]; [|apply IH; auto; intros; apply Hl; right; auto].
  (* established by this relaxation, kept by the later ones *)
  pose proof (relax_sclause d0 i0 st E a Ha HX) as Hc.
  assert (G : forall l' st', (forall o, In o l' -> In o nb8) -> xpnd d0 i0 st' E -> sclause st' d0 i0 a ->
              sclause (fold_left (relax d0 i0) l' st') d0 i0 a).
  { induction l' as [|b l' IH']; intros st' Hl' HXs Hcs; simpl; auto.
    assert (Hb : In b nb8) by (apply Hl'; left; auto).
    apply IH'; [intros; apply Hl'; right; auto|apply relax_xpnd; auto|].
    intros Hin' Hm'. destruct (Hcs Hin' Hm') as [C1 C2].
    destruct (relax_mono d0 i0 st' E b Hb HXs _ C1) as [M1 M2]. split; auto. lia. }
  apply G; auto. intros; apply Hl; right; auto.
Qed.

Lemma fold_q_length d0 i0 l : forall st, (length (s_q (fold_left (relax d0 i0) l st)) <= length (s_q st) + length l)%nat.
Proof.
  induction l as [|o l IH]; intros st; simpl; [lia|].
  specialize (IH (relax d0 i0 st o)).
  assert (length (s_q (relax d0 i0 st o)) <= S (length (s_q st)))%nat.
  { destruct (relax_cases d0 i0 st o) as [->|(_ & _ & _ & _ & _ & _ & ->)]; simpl; lia. }
  lia.
Qed.

(* ---------- one pop ---------- *)
Definition popq (st : sstate) (rest : list (Z * nat)) : sstate :=
  {| s_out := s_out st; s_src := s_src st; s_dst := s_dst st; s_q := rest |}.

Lemma pop_stale dl st E d0 i0 rest : ginv dl st E E -> qmin (s_q st) = Some ((d0, i0), rest) -> dstv st i0 < d0 ->
  ginv d0 (popq st rest) E E.
Proof.
  intros HG Hq Hst. destruct (qmin_spec _ _ _ Hq) as (Hperm & Hmin & Hnd & _).
  assert (Hm : In (d0, i0) (s_q st)) by (apply Hperm; left; reflexivity).
  destruct (g_keys _ _ _ _ HG d0 i0 Hm) as (Hdl & _).
  constructor; simpl.
  - destruct (g_sinv _ _ _ _ HG) as (L1 & L2 & L3 & Hd & Hqs & Hc). unfold SpreadSpec.sinv. simpl.
    split; [auto|]. split; [auto|]. split; [auto|]. split; [auto|]. split; [|auto]. intros e He. apply Hqs. apply Hperm. right. exact He.
  - intros d j Hin. destruct (g_keys _ _ _ _ HG d j) as (A & B & C & D & F); [apply Hperm; right; exact Hin|].
    split; [specialize (Hmin _ Hin); simpl in Hmin; lia|auto].
  - apply (Hnd (g_nd _ _ _ _ HG)).
  - intros j Hj Hs Hmj HnE. pose proof (g_live _ _ _ _ HG j Hj Hs Hmj HnE) as Hl. apply Hperm in Hl.
    destruct Hl as [Heq|Hl]; [inversion Heq; subst; unfold dstv in *; lia|exact Hl].
  - intros i Hi. destruct (g_exp _ _ _ _ HG i Hi) as (A & B & C & D & R).
    split; [exact A|]. split; [exact B|]. split; [exact C|]. split; [unfold dstv in *; simpl; lia|exact R].
  - intros d j Hin HjE. apply (g_stale _ _ _ _ HG d j); auto. apply Hperm. right. exact Hin.
  - apply (g_E _ _ _ _ HG).
  - apply (g_path _ _ _ _ HG).
Qed.

Lemma pop_expand dl st E d0 i0 rest : ginv dl st E E -> qmin (s_q st) = Some ((d0, i0), rest) -> ~ dstv st i0 < d0 ->
  ginv d0 (fold_left (relax d0 i0) nb8 (popq st rest)) (i0 :: E) (i0 :: E) /\ ~ In i0 E /\ (i0 < sz)%nat.
Proof.
  intros HG Hq Hst. destruct (qmin_spec _ _ _ Hq) as (Hperm & Hmin & Hnd & _).
  assert (Hm : In (d0, i0) (s_q st)) by (apply Hperm; left; reflexivity).
  destruct (g_keys _ _ _ _ HG d0 i0 Hm) as (Hdl & Hle & Hmk & Hi0 & Hs0).
  assert (Hd0 : dstv st i0 = d0) by lia.
  assert (HnE : ~ In i0 E) by (intros Hin; pose proof (g_stale _ _ _ _ HG d0 i0 Hm Hin); lia).
  destruct (Hnd (g_nd _ _ _ _ HG)) as [Hndr Hmr].
  assert (HX : xpnd d0 i0 (popq st rest) E).
  { constructor; [constructor| |]; simpl.
    - destruct (g_sinv _ _ _ _ HG) as (L1 & L2 & L3 & Hd & Hqs & Hc). unfold SpreadSpec.sinv. simpl.
      split; [auto|]. split; [auto|]. split; [auto|]. split; [auto|]. split; [|auto]. intros e He. apply Hqs. apply Hperm. right. exact He.
    - intros d j Hin. destruct (g_keys _ _ _ _ HG d j) as (A & B & C & D & F); [apply Hperm; right; exact Hin|].
      split; [specialize (Hmin _ Hin); simpl in Hmin; lia|auto].
    - exact Hndr.
    - intros j Hj Hs Hmj HnL. assert (HnEj : ~ In j E) by (intros H; apply HnL; right; auto).
      pose proof (g_live _ _ _ _ HG j Hj Hs Hmj HnEj) as Hl. apply Hperm in Hl.
      destruct Hl as [Heq|Hl]; [inversion Heq; subst; exfalso; apply HnL; left; auto|exact Hl].
    - intros i Hi. destruct (g_exp _ _ _ _ HG i Hi) as (A & B & C & D & R).
      split; [exact A|]. split; [exact B|]. split; [exact C|]. split; [unfold dstv in *; simpl; lia|exact R].
    - intros d j Hin HjE. apply (g_stale _ _ _ _ HG d j); auto. apply Hperm. right. exact Hin.
    - apply (g_E _ _ _ _ HG).
    - apply (g_path _ _ _ _ HG).
    - repeat split; auto.
    - intros d Hin. destruct (g_keys _ _ _ _ HG d i0) as (_ & B & _); [apply Hperm; right; exact Hin|].
      assert (d <> d0) by (intros ->; contradiction). unfold dstv in *. lia. }
  pose proof (fold_relax_xpnd d0 i0 E nb8 (fun o H => H) _ HX) as HX2.
  pose proof (fold_sclauses d0 i0 E nb8 (fun o H => H) _ HX) as Hcl.
  set (st2 := fold_left (relax d0 i0) nb8 (popq st rest)) in *.
  destruct HX2 as [HG2 (Hi0' & Hs0' & Hm0' & Hd0' & HnE') Hno2].
  split; [|split; auto]. constructor.
  - apply (g_sinv _ _ _ _ HG2).
  - apply (g_keys _ _ _ _ HG2).
  - apply (g_nd _ _ _ _ HG2).
  - apply (g_live _ _ _ _ HG2).
  - intros i [<-|Hi]; [|apply (g_exp _ _ _ _ HG2); auto].
    split; auto. split; auto. split; auto. split; [lia|].
    intros o Ho Hin Hmo. rewrite Hd0'. apply Hcl; auto.
  - intros d j Hin [<-|HjE]; [rewrite Hd0'; apply Hno2; auto|apply (g_stale _ _ _ _ HG2 d j); auto].
  - constructor; auto. apply (g_E _ _ _ _ HG2).
  - apply (g_path _ _ _ _ HG2).
Qed.

Lemma gloop_ginv fuel : forall st E dl, ginv dl st E E ->
  exists dl', ginv dl' (fst (gloop fuel st E)) (snd (gloop fuel st E)) (snd (gloop fuel st E)).
Proof.
  induction fuel as [|f IH]; intros st E dl HG; cbn [gloop]; [exists dl; exact HG|].
  destruct (qmin (s_q st)) as [[[d0 i0] rest]|] eqn:Eq; [|exists dl; exact HG].
  fold (popq st rest).
  destruct (Z.ltb_spec (nth i0 (s_dst st) 0) d0) as [Hlt|Hge].
  - apply (IH _ _ d0). apply (pop_stale dl st E d0 i0 rest); auto.
  - apply (IH _ _ d0). apply (pop_expand dl st E d0 i0 rest HG Eq). unfold dstv. lia.
Qed.

(* ---------- termination: the queue runs empty ---------- *)
Lemma E_bound dl st E : ginv dl st E E -> (length E <= sz)%nat.
Proof. intros HG. apply (NoDup_bound E sz (g_E _ _ _ _ HG)). intros x Hx. apply (g_exp _ _ _ _ HG x Hx). Qed.

Lemma gloop_empties fuel : forall st E dl, ginv dl st E E -> (length (s_q st) + 8 * (sz - length E) < fuel)%nat ->
  s_q (fst (gloop fuel st E)) = [].
Proof.
  induction fuel as [|f IH]; intros st E dl HG Hm; [lia|]. cbn [gloop].
  destruct (qmin (s_q st)) as [[[d0 i0] rest]|] eqn:Eq; [|apply qmin_none; exact Eq].
  fold (popq st rest).
  destruct (qmin_spec _ _ _ Eq) as (_ & _ & _ & Hlen).
  destruct (Z.ltb_spec (nth i0 (s_dst st) 0) d0) as [Hlt|Hge].
  - apply (IH _ _ d0); [apply (pop_stale dl st E d0 i0 rest); auto|]. change (s_q (popq st rest)) with rest. lia.
  - destruct (pop_expand dl st E d0 i0 rest HG Eq) as (HG2 & HnE & Hi0); [unfold dstv; lia|].
    apply (IH _ _ d0 HG2).
    pose proof (fold_q_length d0 i0 nb8 (popq st rest)) as Hl.
    change (s_q (popq st rest)) with rest in Hl. change (length nb8) with 8%nat in Hl.
    pose proof (E_bound _ _ _ HG2) as Hb. change (length (i0 :: E)) with (S (length E)) in *.
    set (Q := length (s_q (fold_left (relax d0 i0) nb8 (popq st rest)))) in *. lia.
Qed.

(* ---------- initial state and final theorems ---------- *)
Notation init := (spread_init nrow ncol obs msk nodata).

Lemma init_src j : (j < sz)%nat -> srcv init j = if isobs j then Z.of_nat j else -1.
Proof. intros Hj. unfold srcv, spread_init. simpl. apply map_seq_nth'. exact Hj. Qed.
Lemma init_dst j : dstv init j = 0.
Proof. unfold dstv, spread_init. simpl. destruct (Nat.lt_ge_cases j sz); [apply map_seq_nth'; auto|apply nth_overflow; rewrite map_length, seq_length; auto]. Qed.
Lemma init_q d j : In (d, j) (s_q init) <-> d = 0 /\ (j < sz)%nat /\ isobs j = true /\ mok j = true.
Proof.
  unfold spread_init. simpl. rewrite in_map_iff. split.
  - intros [i [Heq Hi]]. inversion Heq; subst. apply filter_In in Hi. destruct Hi as [Hi Hb]. apply in_seq in Hi.
    apply andb_true_iff in Hb. destruct Hb. repeat split; auto; lia.
  - intros (-> & Hj & Ho & Hm). exists j. split; auto. apply filter_In. split; [apply in_seq; lia|rewrite Ho, Hm; reflexivity].
Qed.

Lemma init_ginv : ginv 0 init [] [].
Proof.
  constructor.
  - apply init_sinv. exact Hobs.
  - intros d j Hin. apply init_q in Hin. destruct Hin as (-> & Hj & Ho & Hm). rewrite init_dst, init_src by auto. rewrite Ho.
    repeat split; auto; lia.
  - unfold spread_init. simpl. apply FinFun.Injective_map_NoDup; [intros a b H; inversion H; auto|].
    apply NoDup_filter. apply seq_NoDup.
  - intros j Hj Hs Hm _. rewrite init_dst. apply init_q. rewrite init_src in Hs by auto. destruct (isobs j); [auto|congruence].
  - intros i [].
  - intros d j _ [].
  - constructor.
  - intros j Hj Hs Hm. rewrite init_dst, init_src in * by auto. destruct (isobs j) eqn:Eo; [|congruence].
    rewrite Nat2Z.id. apply ap_src; auto.
Qed.

Lemma init_qlen : (length (s_q init) <= sz)%nat.
Proof. unfold spread_init. simpl. rewrite map_length.
  assert (G : forall (f : nat -> bool) l, (length (filter f l) <= length l)%nat).
  { intros f l. induction l as [|a l IH]; simpl; auto. destruct (f a); simpl; lia. }
  pose proof (G (fun i => isobs i && mok i) (seq 0 sz)) as H. rewrite seq_length in H. exact H. Qed.

Notation final := (sloop nrow ncol obs msk frc dx dy hyp (10 * sz + 10) init).

Lemma final_inv : exists dl E, ginv dl final E E /\ s_q final = [].
Proof.
  destruct (gloop_ginv (10 * sz + 10) init [] 0 init_ginv) as [dl HG].
  rewrite gloop_fst in HG. exists dl, (snd (gloop (10 * sz + 10) init [])). split; auto.
  rewrite <- (gloop_fst (10 * sz + 10) init []). apply (gloop_empties _ _ _ 0 init_ginv).
  pose proof init_qlen as Hl. change (length (@nil nat)) with 0%nat. set (N := (nrow * ncol)%nat) in *. set (Q := length (s_q init)) in *. lia.
Qed.

Lemma apath_end s u D : apath s u D -> (u < sz)%nat /\ mok u = true /\ (s < sz)%nat /\ isobs s = true /\ mok s = true.
Proof. induction 1 as [s Hs Ho Hm|s u o D Hp IH Ho Hin Hm]; [auto|].
  destruct IH as (Hu & _ & Hr). destruct (nbr_ne u o Hu Ho Hin) as [_ Hlt]. auto. Qed.

(* no path from an observation cell is cheaper than the reported distance; every cell on such a path is reached *)
Theorem spread_upper s j D : apath s j D -> srcv final j <> -1 /\ dstv final j <= D.
Proof.
  destruct final_inv as (dl & E & HG & Hq).
  induction 1 as [s Hs Ho Hm|s u o D Hp IH Ho Hin Hm].
  - destruct (g_sinv _ _ _ _ HG) as (_ & _ & _ & _ & _ & Hc).
    destruct (Hc s Hs) as [(_ & _ & _ & Hn)|(s' & Hs' & _ & _ & _ & Hobs' & _)]; [congruence|].
    destruct (Hobs' Ho) as [-> Hz]. unfold srcv, dstv. rewrite Hs', Hz. split; lia.
  - destruct IH as [Hsu Hdu]. destruct (apath_end _ _ _ Hp) as (Hu & Hmu & _).
    assert (HuE : In u E).
    { destruct (in_dec Nat.eq_dec u E) as [H|H]; auto. pose proof (g_live _ _ _ _ HG u Hu Hsu Hmu H) as Hl. rewrite Hq in Hl. destruct Hl. }
    destruct (g_exp _ _ _ _ HG u HuE) as (_ & _ & _ & _ & R). destruct (R o Ho Hin Hm) as [R1 R2]. split; auto. lia.
Qed.

(* ... and the reported distance is the cost of a path from the reported source *)
Theorem spread_attained j : (j < sz)%nat -> srcv final j <> -1 -> mok j = true ->
  apath (Z.to_nat (srcv final j)) j (dstv final j).
Proof. destruct final_inv as (dl & E & HG & _). apply (g_path _ _ _ _ HG). Qed.
End SpreadOpt.
