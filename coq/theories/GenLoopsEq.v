(* The loop kernels REGENERATED from the Python source (generated/GenLoops.v) are the hand-written models that the
   theorems of C04, C05/C14 and C08 are about.  A change of the source that changes the generated text breaks one of
   these proofs. *)
From Coq Require Import List Arith ZArith Bool Lia.
Import ListNotations.
From PF Require Import Arr Net SweepDown Fill Accu Stream Ops AccuSpec.
From PFG Require Import GenLoops.
Local Open Scope Z_scope.

Lemma fold_ext_in {A B} (f g : A -> B -> A) l : forall a, (forall a x, In x l -> f a x = g a x) -> fold_left f l a = fold_left g l a.
Proof. induction l as [|x l IH]; intros a H; simpl; auto. rewrite H by (left; auto). apply IH. intros; apply H; right; auto. Qed.

Lemma fold_ext_len {B} (f g : list Z -> B -> list Z) (n : nat) (fl : forall a x, length (g a x) = length a) l : forall a,
  length a = n -> (forall a x, length a = n -> In x l -> f a x = g a x) -> fold_left f l a = fold_left g l a.
Proof. induction l as [|x l IH]; intros a Ha H; simpl; auto. rewrite H by (auto; left; auto).
  apply IH; [rewrite fl; auto|intros; apply H; auto; right; auto]. Qed.

(* streams.accuflux *)
Theorem gen_accuflux_eq ds sq data nodata : gen_accuflux ds sq data nodata = accuflux ds sq data nodata.
Proof.
  unfold gen_accuflux, accuflux. apply fold_ext. intros a i. unfold gen_accuflux_step, accu_step, dsf, size.
  (* nan = np.isnan(nodata) is false on integer-valued fields: the NaN conjunct `not (nan and (isnan or isnan))` is true.
     The conjunct is matched syntactically first (`change` alone works up to conversion and would also accept `nan or ...`) *)
  cbv zeta. lazymatch goal with |- context [negb (false && (false || false))] => idtac end.
  change (negb (false && (false || false))) with true. rewrite andb_true_r.
  rewrite (Nat.eqb_sym i). reflexivity.
Qed.

(* streams.accuflux_ds *)
Theorem gen_accuflux_ds_eq ds sq data nodata : gen_accuflux_ds ds sq data nodata = accuflux_ds ds sq data nodata.
Proof.
  unfold gen_accuflux_ds, accuflux_ds, sweep_down. apply fold_ext. intros a i.
  unfold gen_accuflux_ds_step, dstep, accu_ds_f, dsf, size.
  cbv zeta. lazymatch goal with |- context [negb (false && (false || false))] => idtac end.
  change (negb (false && (false || false))) with true. rewrite andb_true_r. rewrite (Nat.eqb_sym i).
  destruct (negb (nth i ds (length ds) =? i)%nat && negb (nth (nth i ds (length ds)) data 0 =? nodata) && negb (nth i data 0 =? nodata)).
  - reflexivity.
  - symmetry. apply upd_same.
Qed.

(* core.main_upstream *)
Theorem gen_main_upstream_eq ds uparea upa_min : gen_main_upstream ds uparea upa_min = main_upstream ds uparea upa_min.
Proof.
  unfold gen_main_upstream, main_upstream. f_equal. apply fold_ext. intros [m u] i.
  unfold gen_main_upstream_step, main_step, dsf, size. reflexivity.
Qed.

(* arithmetics.upstream_sum (the field has one value per cell) *)
Theorem gen_upstream_sum_eq ds data nodata : length data = length ds ->
  gen_upstream_sum ds data nodata = upstream_sum ds data nodata.
Proof.
  intros Hl. unfold gen_upstream_sum, upstream_sum. rewrite Hl. apply fold_ext. intros a i.
  unfold gen_upstream_sum_step, usum_step, dsf, size.
  replace (negb (length ds <=? nth i ds (length ds))%nat) with (nth i ds (length ds) <? length ds)%nat
    by (destruct (Nat.ltb_spec (nth i ds (length ds)) (length ds)), (Nat.leb_spec (length ds) (nth i ds (length ds))); simpl; auto; lia).
  reflexivity.
Qed.

(* core.fillnodata_upstream (every ordered cell and its downstream cell are cells of the field) *)
Theorem gen_fillnodata_upstream_eq ds sq data nodata : length data = length ds -> (forall i, In i sq -> valid ds i) ->
  gen_fillnodata_upstream ds sq data nodata = fillnodata_upstream ds sq data nodata.
Proof.
  intros Hl Hv. unfold gen_fillnodata_upstream, fillnodata_upstream, sweep_down.
  apply (fold_ext_len _ _ (length ds)); auto.
  - intros a x. unfold dstep. apply upd_length.
  - intros a i Ha Hi. destruct (Hv i Hi) as [H1 H2]. unfold size, dsf in *.
    unfold gen_fillnodata_upstream_step, dstep, fill_f, dsf, size.
    unfold size in H2.
    rewrite (nth_indep a nodata 0 (n := i)) by lia. rewrite (nth_indep a nodata 0 (n := nth i ds (length ds))) by lia.
    destruct ((nth i a 0 =? nodata) && negb (nth (nth i ds (length ds)) a 0 =? nodata)); [reflexivity|].
    symmetry. apply upd_same.
Qed.
