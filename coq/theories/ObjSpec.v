(* C12: results never depend on the history of earlier calls. *)
From Coq Require Import List Arith Bool Lia.
Import ListNotations.
From PF Require Import Obj.

(* every memoised entry describes the CURRENT network / transform and was computed with default arguments *)
Definition Inv (s : state) : Prop :=
  (forall v, s_pit s = Some v -> v = ver s) /\
  (forall m v, s_seq s = Some (m, v) -> v = ver s) /\
  (forall v, s_nn s = Some v -> v = ver s) /\
  (forall v, c_rank s = Some v -> v = ver s) /\
  (forall v a, c_main s = Some (v, a) -> v = ver s /\ a = 0) /\
  (forall v a, c_so s = Some (v, a) -> v = ver s /\ a = 0) /\
  (forall v t, c_dist s = Some (v, t) -> v = ver s /\ t = tver s) /\
  (forall t, c_area s = Some t -> t = tver s).

(* a returned value is fresh when everything it was computed from is the current network, the current
   transform, and exactly the arguments of the call *)
Definition fresh (s : state) (args : list nat) (t : tag) : Prop :=
  (forall v, In v (t_net t) -> v = ver s) /\ (forall v, In v (t_tr t) -> v = tver s) /\
  (forall a, In a (t_arg t) -> In a args).

Lemma Inv_init r c a : Inv (init r c a).
Proof. unfold Inv, init; simpl. repeat split; intros; try discriminate; try congruence.
  destruct (negb r && a); [congruence|discriminate]. Qed.

(* sub-procedures preserve Inv, leave versions and settings alone, and return fresh values *)
Definition good (s : state) (args : list nat) (r : state * tag) : Prop :=
  Inv (fst r) /\ ver (fst r) = ver s /\ tver (fst r) = tver s /\ raster (fst r) = raster s /\ cacheon (fst r) = cacheon s /\
  fresh s args (snd r).

Ltac break_inv :=
  repeat match goal with
  | H : Inv _ |- _ => destruct H as (?H & ?H & ?H & ?H & ?H & ?H & ?H & ?H)
  | H : good _ _ _ |- _ => destruct H as (?H & ?H & ?H & ?H & ?H & (?H & ?H & ?H))
  end.

Ltac solve_in :=
  repeat match goal with
  | H : In _ (_ ++ _) |- _ => apply in_app_or in H; destruct H
  | H : In _ (_ :: _) |- _ => destruct H as [H|H]; [subst|]
  | H : In _ [] |- _ => destruct H
  | H : _ \/ _ |- _ => destruct H
  | H : False |- _ => destruct H
  end.

Ltac fin :=
  unfold good, fresh, Inv, tjoin, tg; simpl; repeat split; intros; solve_in; subst; simpl in *; solve_in; subst;
  repeat match goal with
         | H : Some _ = Some _ |- _ => inversion H; subst; clear H
         | H : None = Some _ |- _ => discriminate H
         end;
  try congruence; try lia; auto;
  try solve [eauto | eapply proj1; eauto | eapply proj2; eauto];
  repeat match goal with
         | H : ver _ = ver _ |- _ => rewrite H in *; clear H
         | H : tver _ = tver _ |- _ => rewrite H in *; clear H
         end;
  try solve [eauto | eapply proj1; eauto | eapply proj2; eauto | congruence].

Lemma get_pit_good s args : Inv s -> good s args (get_pit s).
Proof.
  intros H. unfold get_pit. destruct (s_pit s) as [v|] eqn:E; break_inv.
  - fin.
  - fin.
Qed.

Lemma order_cells_good s args m : Inv s -> good s args (order_cells s m).
Proof.
  intros H. unfold order_cells. destruct m.
  - break_inv. fin.
  - pose proof (get_pit_good s args H) as G. destruct (get_pit s) as [s1 tp]. simpl in G. break_inv. fin.
Qed.

Lemma get_seq_good s args : Inv s -> good s args (get_seq s).
Proof.
  intros H. unfold get_seq. destruct (s_seq s) as [[m v]|] eqn:E; [break_inv; fin|apply order_cells_good; auto].
Qed.

Lemma get_rank_good s args : Inv s -> good s args (get_rank s).
Proof.
  intros H. unfold get_rank. destruct (c_rank s) as [v|] eqn:E; [break_inv; fin|].
  destruct (cacheon s) eqn:Ec; break_inv; fin.
Qed.

Lemma get_nn_good s args : Inv s -> good s args (get_nn s).
Proof.
  intros H. unfold get_nn. destruct (s_nn s) as [v|] eqn:E; [break_inv; fin|].
  pose proof (get_rank_good s args H) as G. destruct (get_rank s) as [s1 t]. simpl in G.
  destruct (c_rank s) as [v|] eqn:Er; break_inv; fin.
Qed.

Lemma get_area_good s args : Inv s -> good s args (get_area s).
Proof.
  intros H. unfold get_area. destruct (raster s) eqn:Era; [|break_inv; fin].
  destruct (c_area s) as [t|] eqn:E; [break_inv; fin|]. destruct (cacheon s) eqn:Ec; break_inv; fin.
Qed.

Lemma good_chain s args r1 (f : state -> state * tag) :
  good s args r1 -> (forall s', Inv s' -> good s' args (f s')) ->
  good s args (let '(s1, t1) := r1 in let '(s2, t2) := f s1 in (s2, tjoin t1 t2)).
Proof.
  intros G1 Hf. destruct r1 as [s1 t1]. simpl in G1.
  assert (I1 : Inv s1) by (destruct G1; auto).
  pose proof (Hf s1 I1) as G2. destruct (f s1) as [s2 t2]. simpl in G2.
  break_inv. fin.
Qed.

Lemma get_uparea_good s args metric : Inv s -> good s args (get_uparea s metric).
Proof.
  intros H. unfold get_uparea. destruct metric.
  - apply (good_chain s args (get_area s) get_seq); [apply get_area_good; auto|intros; apply get_seq_good; auto].
  - pose proof (get_seq_good s args H) as G. destruct (get_seq s) as [s2 ts]. simpl in G. break_inv. fin.
Qed.

Lemma main_upstream_good s args a : Inv s -> In a args -> good s args (main_upstream s a).
Proof.
  intros H Ha. unfold main_upstream. destruct a as [|a].
  - pose proof (get_uparea_good s args false H) as G. destruct (get_uparea s false) as [s1 t]. simpl in G.
    destruct (cacheon s1) eqn:Ec; break_inv; fin.
  - break_inv. fin.
Qed.

Lemma get_main_good s args : Inv s -> In 0 args -> good s args (get_main s).
Proof.
  intros H Ha. unfold get_main. destruct (c_main s) as [[v a]|] eqn:E.
  - break_inv. match goal with Hm : forall v a, c_main _ = Some _ -> _ |- _ => destruct (Hm _ _ E) as [-> ->] end. fin.
  - apply main_upstream_good; auto.
Qed.

Lemma strahler_good s args m : Inv s -> In m args -> good s args (strahler s m).
Proof.
  intros H Ha. unfold strahler.
  assert (Gen : good s args (let '(s1, t) := get_seq s in
            ((if cacheon s1 && Nat.eqb m 0 then upd_so s1 (Some (ver s1, m)) else s1), tjoin t (tg [ver s1] [] [m])))).
  { pose proof (get_seq_good s args H) as G. destruct (get_seq s) as [s1 t]. simpl in G.
    destruct (cacheon s1 && Nat.eqb m 0) eqn:Ec.
    - apply andb_true_iff in Ec. destruct Ec as [_ Em]. apply Nat.eqb_eq in Em. subst m. break_inv. fin.
    - break_inv. fin. }
  destruct m as [|m]; [|exact Gen].
  destruct (c_so s) as [[v a]|] eqn:E; [|exact Gen].
  break_inv. match goal with Hm : forall v a, c_so _ = Some _ -> _ |- _ => destruct (Hm _ _ E) as [-> ->] end. fin.
Qed.

Lemma classic_good s args m : Inv s -> In m args -> In 0 args -> good s args (classic s m).
Proof.
  intros H Ha H0. unfold classic.
  pose proof (get_seq_good s args H) as G1. destruct (get_seq s) as [s1 t1]. simpl in G1.
  assert (I1 : Inv s1) by (destruct G1; auto).
  pose proof (get_main_good s1 args I1 H0) as G2. destruct (get_main s1) as [s2 t2]. simpl in G2.
  break_inv. fin.
Qed.

Lemma get_dist_good s args : Inv s -> good s args (get_dist s).
Proof.
  intros H. unfold get_dist. destruct (raster s) eqn:Era; [|break_inv; fin].
  destruct (c_dist s) as [[v t]|] eqn:E.
  - break_inv. match goal with Hm : forall v t, c_dist _ = Some _ -> _ |- _ => destruct (Hm _ _ E) as [-> ->] end. fin.
  - pose proof (get_seq_good s args H) as G. destruct (get_seq s) as [s1 ts]. simpl in G.
    destruct (cacheon s1) eqn:Ec; break_inv; fin.
Qed.

Lemma Inv_reset s : Inv s -> Inv (reset_net s).
Proof. intros H. break_inv. unfold reset_net. fin. Qed.

(* arguments a query is entitled to depend on: its own, plus "default" (0) *)
Definition op_args (o : op) : list nat :=
  match o with
  | QMainUp a => [a; 0] | QStrahler m => [m; 0] | QClassic m => [m; 0] | QAccuflux d => [d; 0] | QStreamDist m => [m; 0] | _ => [0]
  end.

(* one step: the invariant is preserved and the returned value is fresh w.r.t. the state the query ran on
   (queries do not change versions; mutators return nothing) *)
Theorem step_correct s o : Inv s -> let r := step s o in Inv (fst r) /\ fresh s (op_args o) (snd r).
Proof.
  intros H. destruct o; simpl.
  - destruct (get_rank_good s [0] H) as (A & _ & _ & _ & _ & B); auto.
  - assert (I : Inv (upd_rank s None)) by (break_inv; fin).
    destruct (get_rank_good _ [0] I) as (A & _ & _ & _ & _ & B). split; auto.
  - destruct (get_pit_good s [0] H) as (A & _ & _ & _ & _ & B); auto.
  - destruct (get_seq_good s [0] H) as (A & _ & _ & _ & _ & B); auto.
  - destruct (get_nn_good s [0] H) as (A & _ & _ & _ & _ & B); auto.
  - destruct (get_main_good s [0] H) as (A & _ & _ & _ & _ & B); simpl; auto.
  - destruct (main_upstream_good s [uparea; 0] uparea H) as (A & _ & _ & _ & _ & B); simpl; auto.
  - destruct (strahler_good s [mask; 0] mask H) as (A & _ & _ & _ & _ & B); simpl; auto.
  - destruct (classic_good s [mask; 0] mask H) as (A & _ & _ & _ & _ & B); simpl; auto.
  - destruct (get_dist_good s [0] H) as (A & _ & _ & _ & _ & B); auto.
  - destruct (get_area_good s [0] H) as (A & _ & _ & _ & _ & B); auto.
  - destruct (get_uparea_good s [0] metric H) as (A & _ & _ & _ & _ & B); auto.
  - pose proof (get_seq_good s [data; 0] H) as G. destruct (get_seq s) as [s1 t]. simpl in G. break_inv. fin.
  - pose proof (get_seq_good s [mask; 0] H) as G. destruct (get_seq s) as [s1 t]. simpl in G. break_inv. fin.
  - pose proof (good_chain s [0] (get_pit s) get_seq (get_pit_good s [0] H) (fun s' I => get_seq_good s' [0] I)) as G.
    destruct (get_pit s) as [s1 t1]. destruct (get_seq s1) as [s2 t2]. destruct G as (A & _ & _ & _ & _ & B). auto.
  - destruct (get_main_good s [0] H) as (A & _ & _ & _ & _ & B); simpl; auto.
  - split; auto. fin.
  - pose proof (get_pit_good s [0] H) as G. destruct (get_pit s) as [s1 t]. simpl in G. split; [apply Inv_reset; destruct G; auto|fin].
  - destruct hasloops; simpl.
    + pose proof (get_pit_good s [0] H) as G. destruct (get_pit s) as [s1 t]. simpl in G. split; [apply Inv_reset; destruct G; auto|fin].
    + split; auto. fin.
  - split; [break_inv; fin|fin].
  - pose proof (order_cells_good s [0] m H) as G. destruct (order_cells s m) as [s1 t]. simpl in *. destruct G as (A & _). split; auto. fin.
  - pose proof (get_nn_good s [0] H) as G. destruct (get_nn s) as [s1 t]. simpl in G.
    destruct (raster s1) eqn:Era; (split; [break_inv; fin|fin]).
Qed.

(* Every reachable state satisfies the invariant, and every value returned along ANY finite history of
   queries and mutators -- on raster and vector objects, with caching on or off, across dump/load -- is
   fresh: computed from the network and transform current at that moment and from the call's own
   arguments only, i.e. what a freshly constructed object holding the same state would compute. *)
Theorem history_independent ops : forall s, Inv s ->
  Forall2 (fun (pre : state) (r : state * tag * op) => fresh pre (op_args (snd r)) (snd (fst r)))
          (map fst (combine (s :: map fst (run s ops)) ops))
          (combine (run s ops) ops).
Proof.
  induction ops as [|o ops IH]; intros s H; simpl; [constructor|].
  destruct (step_correct s o H) as [I F]. constructor; [exact F|]. apply IH. exact I.
Qed.

Theorem reachable_inv ops : forall s, Inv s -> Forall (fun r => Inv (fst r)) (run s ops).
Proof.
  induction ops as [|o ops IH]; intros s H; simpl; [constructor|].
  destruct (step_correct s o H) as [I F]. constructor; auto.
Qed.
