(* The scalar helpers of upscale.py (subidx_2_idx, in_d8, cell_edge), REGENERATED from the Python source
   (generated/GenUpscale.v, integer arithmetic over Z), equal the hand models of Upscale.v (over nat) on natural arguments:
   no other hypothesis (a zero divisor included).  Also the generic facts about the loop shapes of the regenerated kernels
   that GenUpscale{Rep,Walk,Ihu,Err}Eq.v use.  No axioms. *)
From Coq Require Import List Arith ZArith Bool Lia.
Import ListNotations.
From PF Require Import Arr Net Elev Upscale GenCodecBaseEq.
From PFG Require Import GenUpscale.

(* ---------- Z <-> nat ---------- *)
Lemma zeqb_nat a b : (Z.of_nat a =? Z.of_nat b)%Z = (a =? b)%nat.
Proof. destruct (Nat.eqb_spec a b) as [->|H]; [apply Z.eqb_refl|]. apply Z.eqb_neq. lia. Qed.

Lemma zleb_nat a b : (Z.of_nat a <=? Z.of_nat b)%Z = (a <=? b)%nat.
Proof. destruct (Nat.leb_spec a b); [apply Z.leb_le|apply Z.leb_gt]; lia. Qed.

Lemma zabs_absdiff a b : Z.abs (Z.of_nat a - Z.of_nat b) = Z.of_nat (absdiff a b).
Proof. unfold absdiff. lia. Qed.

Lemma nc_nat nrow ncol : Z.to_nat (Z.of_nat nrow * Z.of_nat ncol) = (nrow * ncol)%nat.
Proof. rewrite <- Nat2Z.inj_mul. apply Nat2Z.id. Qed.

(* ---------- the scalar helpers ---------- *)
Theorem gen_up_subidx_2_idx_eq : forall subidx subncol cs ncol : nat,
  gen_up_subidx_2_idx (Z.of_nat subidx) (Z.of_nat subncol) (Z.of_nat cs) (Z.of_nat ncol)
  = Z.of_nat (sub2idx subidx subncol cs ncol).
Proof.
  intros. unfold gen_up_subidx_2_idx, sub2idx. cbv zeta.
  repeat (rewrite zdiv_nat || rewrite zmod_nat). lia.
Qed.

Theorem gen_up_in_d8_eq : forall idx0 idx_ds ncol : nat,
  gen_up_in_d8 (Z.of_nat idx0) (Z.of_nat idx_ds) (Z.of_nat ncol) = in_d8 idx0 idx_ds ncol.
Proof.
  intros. unfold gen_up_in_d8, in_d8. cbv zeta.
  repeat (rewrite zdiv_nat || rewrite zmod_nat). rewrite !zabs_absdiff.
  change 1%Z with (Z.of_nat 1). rewrite !zleb_nat. reflexivity.
Qed.

Theorem gen_up_cell_edge_eq : forall subidx subncol cs : nat,
  gen_up_cell_edge (Z.of_nat subidx) (Z.of_nat subncol) (Z.of_nat cs) = cell_edge subidx subncol cs.
Proof.
  intros. unfold gen_up_cell_edge, cell_edge. cbv zeta.
  repeat (rewrite zdiv_nat || rewrite zmod_nat).
  change 0%Z with (Z.of_nat 0). change 1%Z with (Z.of_nat 1). rewrite <- !Nat2Z.inj_add, !zeqb_nat. reflexivity.
Qed.

(* ---------- a pass over the cells 0 .. m-1 that writes one element per cell into an array of default elements ---------- *)
Section Fill.
Context {A : Type}.
Variables (skip : nat -> bool) (v : nat -> A) (d : A).

Definition fstep (a : list A) (i : nat) : list A := if skip i then a else upd a i (v i).

Lemma ffold : forall m k pre, length pre = k ->
  fold_left fstep (seq k m) (pre ++ repeat d m) = pre ++ map (fun i => if skip i then d else v i) (seq k m).
Proof.
  induction m as [|m IH]; intros k pre Hk; [reflexivity|].
  cbn [seq fold_left repeat map]. unfold fstep at 2.
  destruct (skip k).
  - rewrite (snoc_app pre d (repeat d m)), (IH (S k) (pre ++ [d])) by (rewrite app_length; simpl; lia).
    rewrite <- app_assoc. reflexivity.
  - subst k. rewrite upd_app_len, (snoc_app pre (v (length pre)) (repeat d m)).
    rewrite IH by (rewrite app_length; simpl; lia). rewrite <- app_assoc. reflexivity.
Qed.

(* the array has n elements, the pass visits the first m <= n of them *)
Lemma ffold_tl tl : forall m k pre, length pre = k ->
  fold_left fstep (seq k m) (pre ++ repeat d m ++ tl) = pre ++ map (fun i => if skip i then d else v i) (seq k m) ++ tl.
Proof.
  induction m as [|m IH]; intros k pre Hk; [reflexivity|].
  cbn [seq fold_left repeat map app]. unfold fstep at 2.
  destruct (skip k).
  - rewrite (snoc_app pre d (repeat d m ++ tl)), (IH (S k) (pre ++ [d])) by (rewrite app_length; simpl; lia).
    rewrite <- app_assoc. reflexivity.
  - subst k. rewrite upd_app_len, (snoc_app pre (v (length pre)) (repeat d m ++ tl)).
    rewrite IH by (rewrite app_length; simpl; lia). rewrite <- app_assoc. reflexivity.
Qed.

Lemma ffold_le n m : (m <= n)%nat ->
  fold_left fstep (seq 0 m) (repeat d n) = map (fun i => if (i <? m)%nat then (if skip i then d else v i) else d) (seq 0 n).
Proof.
  intros Hm.
  assert (E : repeat d n = [] ++ repeat d m ++ repeat d (n - m)) by (cbn [app]; rewrite <- repeat_app; f_equal; lia).
  rewrite E, (ffold_tl (repeat d (n - m)) m 0%nat [] eq_refl). cbn [app].
  assert (Es : seq 0 n = seq 0 m ++ seq m (n - m)) by (rewrite <- seq_app; f_equal; lia).
  rewrite Es, map_app. f_equal.
  - apply map_ext_in. intros i Hi. apply in_seq in Hi. destruct (Nat.ltb_spec i m); [reflexivity|lia].
  - assert (H : forall q k, (m <= k)%nat -> repeat d q = map (fun i => if (i <? m)%nat then if skip i then d else v i else d) (seq k q)).
    { induction q as [|q IH]; intros k Hk; [reflexivity|]. cbn [repeat seq map].
      destruct (Nat.ltb_spec k m); [lia|]. f_equal. apply IH. lia. }
    apply H. lia.
Qed.
(* ... and any number m of cells: a write past the end of the array leaves it as it is *)
Lemma ffold_oob : forall l a, (forall i, In i l -> (length a <= i)%nat) -> fold_left fstep l a = a.
Proof.
  induction l as [|x l IH]; intros a H; cbn [fold_left]; [reflexivity|].
  assert (E : fstep a x = a) by (unfold fstep; destruct (skip x); [reflexivity|apply upd_oob, H; left; reflexivity]).
  rewrite E. apply IH. intros i Hi. apply H. right. exact Hi.
Qed.

Lemma ffold_any n m :
  fold_left fstep (seq 0 m) (repeat d n) = map (fun i => if (i <? m)%nat then (if skip i then d else v i) else d) (seq 0 n).
Proof.
  destruct (Nat.le_gt_cases m n) as [H|H]; [apply ffold_le; exact H|].
  assert (Es : seq 0 m = seq 0 n ++ seq n (m - n)) by (rewrite <- seq_app; f_equal; lia).
  rewrite Es, fold_left_app. pose proof (ffold n 0%nat [] eq_refl) as E. cbn [app] in E. rewrite E.
  rewrite ffold_oob.
  - apply map_ext_in. intros i Hi. apply in_seq in Hi. destruct (Nat.ltb_spec i m); [reflexivity|lia].
  - intros i Hi. apply in_seq in Hi. rewrite map_length, seq_length. lia.
Qed.
End Fill.

(* a pass that appends the selected cells to a list *)
Lemma fold_filter (sel : nat -> bool) : forall l acc,
  fold_left (fun a i => if sel i then a ++ [i] else a) l acc = acc ++ filter sel l.
Proof.
  induction l as [|x l IH]; intros acc; cbn [fold_left filter]; [rewrite app_nil_r; reflexivity|].
  rewrite IH. destruct (sel x); [rewrite <- app_assoc; reflexivity|reflexivity].
Qed.

Lemma fold_ext_in {A B} (f g : A -> B -> A) (l : list B) : (forall a x, In x l -> f a x = g a x) ->
  forall a, fold_left f l a = fold_left g l a.
Proof.
  induction l as [|x l IH]; intros H a; cbn [fold_left]; [reflexivity|].
  rewrite H by (left; reflexivity). apply IH. intros a' y Hy. apply H. right. exact Hy.
Qed.

Print Assumptions gen_up_subidx_2_idx_eq.
Print Assumptions gen_up_in_d8_eq.
Print Assumptions gen_up_cell_edge_eq.
