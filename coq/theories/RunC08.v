From Coq Require Import List Arith ZArith Bool.
Import ListNotations.
From PF Require Import Arr Net Rank Accu Stream Glue RunC03.
Open Scope Z_scope.

Definition run_c08 (k : Z) (args : list (list Z)) : list (list Z) :=
  let ds := net_in (arg 0 args) in
  let sq := ns (arg 1 args) in
  if (k =? 801) || (k =? 804) then [strahler_order ds sq (mask_opt (argz 2 args) (arg 3 args))]
  else if k =? 802 then [stream_order ds sq (net_in (arg 4 args)) (mask_opt (argz 2 args) (arg 3 args))]
  else if k =? 803 then [idx_out (length ds) (main_upstream ds (arg 1 args) (argz 2 args))]
  else if k =? 805 then
    (* Flwdir.stream_order('classic'): main upstream from the default upstream area (cells) *)
    let upa := flwdir_upstream_area ds sq (repeat 1 (length ds)) in
    [stream_order ds sq (main_upstream ds upa 0) (mask_opt (argz 2 args) (arg 3 args))]
  else [[-999]].
