(* streams.stream_order (classic order) and streams.strahler_order, REGENERATED from the Python source
   (generated/GenLoops.v), equal the hand-written models Stream.stream_order / Stream.strahler_order that the theorems of
   C08 are about.  The Python code keeps two arrays (strord, strmax); the model sweeps one array of pairs: the two are
   related by `combine`. *)
From Coq Require Import List Arith ZArith Bool Lia.
Import ListNotations.
From PF Require Import Arr Net SweepDown SweepUp Rank Stream AccuSpec GenCountEq.
From PFG Require Import GenLoops.
Local Open Scope Z_scope.

(* ---------- classic order ---------- *)
Theorem gen_stream_order_eq ds sq main mask : wf ds ->
  gen_stream_order ds sq main mask = stream_order ds sq main mask.
Proof.
  intros Hwf. unfold gen_stream_order, stream_order, sweep_down. cbv zeta.
  rewrite (gen_upstream_count_eq ds mask Hwf).
  apply fold_ext. intros a i.
  unfold gen_stream_order_step, dstep, classic_f. change (nth i ds (length ds)) with (dsf ds i).
  destruct (mget mask i); cbn [negb].
  - destruct (Nat.eqb_spec (dsf ds i) i) as [E|E]; [reflexivity|].
    destruct ((nth (dsf ds i) (upstream_count ds mask) 0 >? 1) && negb (nth (dsf ds i) main (length ds) =? i)%nat); reflexivity.
  - symmetry. apply upd_same.
Qed.

(* ---------- Strahler order ---------- *)
Lemma combine_upd (so sm : list Z) i x y : length so = length sm ->
  upd (combine so sm) i (x, y) = combine (upd so i x) (upd sm i y).
Proof.
  revert sm i. induction so as [|a so IH]; intros sm i Hl; destruct sm as [|b sm]; try discriminate; [destruct i; reflexivity|].
  destruct i as [|i]; cbn [upd combine]; [reflexivity|]. f_equal. apply IH. simpl in Hl. lia.
Qed.

Lemma nth_combine (so sm : list Z) i : length so = length sm ->
  nth i (combine so sm) (0, 0) = (nth i so 0, nth i sm 0).
Proof. intros Hl. apply combine_nth. exact Hl. Qed.

Section Strahler.
Variable ds : list nat.
Variable mask : option (list bool).
Notation gstep := (gen_strahler_order_step ds (@nil nat) mask).

Lemma gstep_sq sq st i : gen_strahler_order_step ds sq mask st i = gstep st i.
Proof. reflexivity. Qed.

Lemma gstep_sim so sm i : length so = length sm ->
  let r := gstep (so, sm) i in
  length (fst r) = length (snd r) /\
  ustep ds (0, 0) (sfin mask) (sg mask) (combine so sm) i = combine (fst r) (snd r).
Proof.
  intros Hl. unfold gen_strahler_order_step, ustep. change (nth i ds (length ds)) with (dsf ds i).
  rewrite (nth_combine so sm i Hl).
  unfold sfin, sg. destruct (mget mask i); cbn [negb fst snd].
  - (* a stream cell *)
    set (so1 := if nth i so 0 =? 0 then upd so i 1 else so).
    assert (Hl1 : length so1 = length sm) by (unfold so1; destruct (nth i so 0 =? 0); rewrite ?upd_length; auto).
    assert (Ha1 : upd (combine so sm) i (if nth i so 0 =? 0 then 1 else nth i so 0, nth i sm 0) = combine so1 sm).
    { rewrite (combine_upd so sm i _ _ Hl). rewrite upd_same. unfold so1. destruct (nth i so 0 =? 0); [reflexivity|]. rewrite upd_same. reflexivity. }
    rewrite Ha1.
    assert (Hso1 : (if nth i so 0 =? 0 then (upd so i 1, sm) else (so, sm)) = (so1, sm))
      by (unfold so1; destruct (nth i so 0 =? 0); reflexivity).
    rewrite Hso1. cbv beta iota zeta.
    destruct (Nat.eqb_spec (dsf ds i) i) as [E|E]; cbn [fst snd]; [split; auto|].
    rewrite !(nth_combine so1 sm _ Hl1). cbn [fst snd]. unfold spush. cbv beta iota zeta.
    rewrite (combine_upd so1 sm (dsf ds i) _ _ Hl1).
    destruct (nth (dsf ds i) so1 0 <? nth i so1 0) eqn:C1.
    + destruct (nth (dsf ds i) sm 0 <? nth i so1 0); cbn [fst snd]; rewrite ?upd_length; split; auto.
      rewrite upd_same. reflexivity.
    + destruct ((nth i so1 0 =? nth (dsf ds i) so1 0) && (nth (dsf ds i) sm 0 =? nth i so1 0)) eqn:C2.
      * destruct (nth (dsf ds i) sm 0 <? nth i so1 0); cbn [fst snd]; rewrite ?upd_length; split; auto.
        rewrite upd_same. reflexivity.
      * destruct (nth (dsf ds i) sm 0 <? nth i so1 0); cbn [fst snd]; rewrite ?upd_length; split; auto.
        -- rewrite upd_same. reflexivity.
        -- rewrite !upd_same. reflexivity.
  - (* outside the mask: nothing happens *)
    split; [exact Hl|].
    replace (upd (combine so sm) i (nth i so 0, nth i sm 0)) with (combine so sm)
      by (rewrite <- (nth_combine so sm i Hl); symmetry; apply upd_same).
    destruct (dsf ds i =? i)%nat; [reflexivity|]. apply upd_same.
Qed.

Lemma fold_sim P : forall so sm, length so = length sm ->
  let r := fold_left gstep P (so, sm) in
  length (fst r) = length (snd r) /\
  fold_left (ustep ds (0, 0) (sfin mask) (sg mask)) P (combine so sm) = combine (fst r) (snd r).
Proof.
  induction P as [|i P IH]; intros so sm Hl; cbn [fold_left]; [split; auto|].
  destruct (gstep_sim so sm i Hl) as [Hl' Hs]. cbv zeta in Hl', Hs.
  destruct (gstep (so, sm) i) as [so' sm'] eqn:Eg. cbn [fst snd] in *. rewrite Hs. apply IH. exact Hl'.
Qed.
End Strahler.

Lemma combine_repeat0 n : combine (repeat 0 n) (repeat 0 n) = repeat (0, 0) n.
Proof. induction n as [|n IH]; cbn [repeat combine]; [reflexivity|]. f_equal. exact IH. Qed.

Lemma map_fst_combine (so sm : list Z) : length so = length sm -> map fst (combine so sm) = so.
Proof. revert sm. induction so as [|a so IH]; intros [|b sm] Hl; try discriminate; cbn [combine map fst]; [reflexivity|].
  f_equal. apply IH. simpl in Hl. lia. Qed.

Theorem gen_strahler_order_eq ds sq mask : gen_strahler_order ds sq mask = strahler_order ds sq mask.
Proof.
  unfold gen_strahler_order, strahler_order, strahler_pairs, sweep_up. cbv zeta.
  destruct (fold_sim ds mask (rev sq) (repeat 0 (length ds)) (repeat 0 (length ds)) eq_refl) as [Hl Hs].
  cbv zeta in Hl, Hs. rewrite combine_repeat0 in Hs.
  rewrite (fold_ext _ (gen_strahler_order_step ds [] mask)) by (intros; reflexivity).
  rewrite Hs. symmetry. apply map_fst_combine. exact Hl.
Qed.
