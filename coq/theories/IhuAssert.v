(* C09 / ihu: THE `assert idx != idx1` OF ihu_optimize_rivlen IS UNREACHABLE (error flag 2 of the model, set only in
   Ihu.opt_one), as long as the links between the cells flagged valid by upscale_check decrease a rank (IhuRank.RankInv:
   flagged cells form no cycle) and every link joins 8-neighbours (IhuD8.Inv, needed for the completeness of
   _upstream_d8_idx).  optimize_rivlen preserves both invariants and the length of idxs_ds. *)
From Coq Require Import List Arith ZArith Bool Lia.
Import ListNotations.
From PF Require Import Arr Net Elev Upscale D8Idx D8IdxSpec Ihu IhuD8 IhuRank.

Lemma in_d8_sym i j n : in_d8 i j n = in_d8 j i n.
Proof. unfold in_d8, absdiff. f_equal; f_equal; lia. Qed.

(* fold with the list of elements still to be processed *)
Lemma fold_left_rem {S X : Type} (Q : list X -> S -> Prop) (f : S -> X -> S) (us : list X) :
  (forall h t a, (forall x, In x (h :: t) -> In x us) -> Q (h :: t) a -> Q t (f a h)) ->
  forall l a, (forall x, In x l -> In x us) -> Q l a -> Q [] (fold_left f l a).
Proof.
  intros Hstep. induction l as [|h t IH]; intros a Hsub Ha; cbn [fold_left]; [exact Ha|].
  apply IH; [intros x Hx; apply Hsub; right; exact Hx|]. apply Hstep; assumption.
Qed.

Section IhuAssert.
Variable sds : list nat.
Variable upa : list Z.
Variables subncol cs nrow ncol : nat.
Notation nsub := (length sds).
Notation nc := (nrow * ncol).
Hypothesis Hncol : 0 < ncol.

(* ---------- new_outlet: the link array changes at idx0 at most; the error flag never becomes 2 ---------- *)
Lemma new_outlet_cds a idx0 subidx0 tgt :
  let r := new_outlet sds upa subncol cs ncol a idx0 subidx0 tgt in
  (snd r = false -> a_cds (fst r) = a_cds a) /\
  (exists v, a_cds (fst r) = upd (a_cds a) idx0 v) /\
  (a_err (fst r) = a_err a \/ (a_err a = 0 /\ a_err (fst r) = 1)).
Proof.
  unfold new_outlet. cbv zeta.
  match goal with |- context [fold_left ?f ?l ?i] => destruct (fold_left f l i) as [[u b] ok] end.
  assert (He : forall e, e = (if ok then a_err a else if a_err a =? 0 then 1 else a_err a) ->
               e = a_err a \/ (a_err a = 0 /\ e = 1)).
  { intros e ->. destruct ok; [left; reflexivity|]. destruct (a_err a =? 0) eqn:E; [|left; reflexivity].
    right. apply Nat.eqb_eq in E. split; [exact E|reflexivity]. }
  destruct b as [[[so idx_ds] p]|]; cbn [fst snd a_cds a_err].
  - split; [discriminate|]. split; [exists idx_ds; reflexivity|]. apply He. reflexivity.
  - split; [reflexivity|]. split; [exists (nth idx0 (a_cds a) nc); symmetry; apply upd_same|]. apply He. reflexivity.
Qed.

Lemma new_outlet_err2 a idx0 subidx0 tgt :
  a_err (fst (new_outlet sds upa subncol cs ncol a idx0 subidx0 tgt)) = 2 -> a_err a = 2.
Proof.
  intros H. destruct (new_outlet_cds a idx0 subidx0 tgt) as (_ & _ & [E|[_ E]]); cbv zeta in E; [rewrite <- E; exact H|].
  rewrite E in H. discriminate.
Qed.

(* ---------- opt_one ---------- *)
Definition RankFn (valid : list bool) (cds : list nat) (r : nat -> nat) : Prop :=
  forall i, Flag valid i -> nth i cds nc < nc -> nth i cds nc <> i -> Flag valid (nth i cds nc) -> r (nth i cds nc) < r i.

(* the state of the fold of opt_one over us = _upstream_d8_idx(idx0): c = the original links, r its rank, c1 = the
   links after new_outlet, e1 the flag after new_outlet, l the cells still to be processed *)
Definition FoldInv (valid : list bool) (c : list nat) (r : nat -> nat) (idx0 : nat) (us : list nat) (c1 : list nat) (e1 : nat)
  (l : list nat) (a' : A) : Prop :=
  let idx1 := nth idx0 c nc in
  a_err a' = e1 /\
  length (a_cds a') = nc /\
  (forall i, i <> idx0 -> Flag valid i -> nth i (a_cds a') nc < nc -> nth i (a_cds a') nc <> i ->
             Flag valid (nth i (a_cds a') nc) -> r (nth i (a_cds a') nc) < r i) /\
  (forall i, i <> idx0 -> nth i (a_cds a') nc = nth i c nc \/ nth i (a_cds a') nc = idx1) /\
  (nth idx0 (a_cds a') nc = idx1 \/ nth idx0 (a_cds a') nc = nth idx0 c1 nc) /\
  (forall i, In i us -> Flag valid i -> In i l \/ nth i (a_cds a') nc = idx1).

Lemma opt_one_rank_aux valid a idx0 r :
  Inv nrow ncol (a_cds a) -> length (a_cds a) = nc -> RankFn valid (a_cds a) r ->
  let a' := fst (opt_one sds upa subncol cs nrow ncol valid a idx0) in
  RankInv nc valid (a_cds a') /\ length (a_cds a') = nc /\
  (a_err a' = a_err a \/
   a_err a' = a_err (fst (new_outlet sds upa subncol cs ncol a idx0 (nth idx0 (a_out a) nsub) None))).
Proof.
  intros HI HL HR. unfold opt_one. cbv zeta.
  assert (Hsame : RankInv nc valid (a_cds a)) by (exists r; exact HR).
  match goal with |- context [if ?c then _ else _] => destruct c eqn:Eg end; [cbn [fst]; auto|].
  match goal with |- context [if ?c then _ else _] => destruct c eqn:Hall end; [|cbn [fst]; auto].
  apply orb_false_iff in Eg. destruct Eg as [Eg Ef0]. apply orb_false_iff in Eg. destruct Eg as [Ene Ef1].
  apply Nat.eqb_neq in Ene. apply negb_false_iff in Ef0. apply negb_false_iff in Ef1.
  set (idx1 := nth idx0 (a_cds a) nc) in *.
  destruct (new_outlet_cds a idx0 (nth idx0 (a_out a) nsub) None) as (N1 & [v N2] & _). cbv zeta in N1, N2.
  destruct (new_outlet sds upa subncol cs ncol a idx0 (nth idx0 (a_out a) nsub) None) as [a1 success].
  cbn [fst snd] in N1, N2 |- *.
  destruct success; cbn [fst]; [|rewrite (N1 eq_refl); auto].
  set (us := upstream_d8_idx (a_cds a) idx0 nrow ncol).
  (* facts on the cells of us *)
  assert (Hus : forall i, In i us -> i < nc /\ i <> idx0 /\ nth i (a_cds a) nc = idx0).
  { intros i Hi. apply (upstream_d8_idx_spec (a_cds a) idx0 nrow ncol i Hncol) in Hi.
    destruct Hi as (Q1 & Q2 & _ & Q4). unfold dsf, size in Q4. rewrite HL in Q4. auto. }
  assert (Hrk : forall i, In i us -> Flag valid i -> idx1 < nc -> r idx1 < r i).
  { intros i Hi Fi Hlt. destruct (Hus i Hi) as (Q1 & Q2 & Q3).
    assert (H0 : idx0 < nc).
    { destruct (Nat.lt_ge_cases idx0 nc) as [|Hge]; [assumption|]. unfold idx1 in Hlt.
      rewrite nth_overflow in Hlt by (rewrite HL; exact Hge). lia. }
    assert (R1 : r idx1 < r idx0) by (apply (HR idx0); assumption).
    assert (R2 : r idx0 < r i).
    { pose proof (HR i Fi) as R. rewrite Q3 in R. apply R; [exact H0|intros E; apply Q2; symmetry; exact E|exact Ef0]. }
    lia. }
  match goal with |- context [fold_left ?f us a1] => set (F := f) end.
  assert (HQ : FoldInv valid (a_cds a) r idx0 us (a_cds a1) (a_err a1) [] (fold_left F us a1)).
  { apply (fold_left_rem (FoldInv valid (a_cds a) r idx0 us (a_cds a1) (a_err a1)) F us).
    - (* step *)
      intros h t a' Hsub (I1 & I2 & I3 & I4 & I5 & I6). fold idx1 in I4, I5, I6.
      assert (Hh : In h us) by (apply Hsub; left; reflexivity).
      destruct (Hus h Hh) as (Q1 & Q2 & Q3).
      unfold F. destruct (nth h valid true) eqn:Fh.
      + (* flagged: the assert cannot fail *)
        destruct (h =? idx1) eqn:Eh.
        * exfalso. apply Nat.eqb_eq in Eh. pose proof (Hrk h Hh Fh ltac:(rewrite <- Eh; exact Q1)) as R.
          rewrite Eh in R. lia.
        * apply Nat.eqb_neq in Eh. unfold FoldInv. fold idx1. cbn [set_cds a_cds a_err].
          split; [exact I1|]. split; [rewrite upd_length; exact I2|].
          split; [|split; [|split]].
          -- intros i Hi Fi. rewrite nth_upd. rewrite I2.
             destruct (Nat.eqb_spec i h) as [->|Hne]; cbn [andb].
             ++ apply Nat.ltb_lt in Q1. rewrite Q1. intros Hlt _ _. apply Hrk; assumption.
             ++ apply I3; assumption.
          -- intros i Hi. rewrite nth_upd. destruct (Nat.eqb i h && Nat.ltb h (length (a_cds a'))); [right; reflexivity|].
             apply I4. exact Hi.
          -- rewrite nth_upd_neq by (intros E; apply Q2; symmetry; exact E). exact I5.
          -- intros i Hi Fi. rewrite nth_upd. rewrite I2.
             destruct (Nat.eqb_spec i h) as [->|Hne]; cbn [andb].
             ++ apply Nat.ltb_lt in Q1. rewrite Q1. right. reflexivity.
             ++ destruct (I6 i Hi Fi) as [[E|Hin]|E]; [exfalso; apply Hne; symmetry; exact E|left; exact Hin|right; exact E].
      + (* not flagged *)
        assert (Hrem : forall c', (forall i, i <> h -> nth i c' nc = nth i (a_cds a') nc) ->
                 forall i, In i us -> Flag valid i -> In i t \/ nth i c' nc = idx1).
        { intros c' Hc' i Hi Fi.
          assert (Hne : i <> h) by (intros ->; unfold Flag in Fi; rewrite Fh in Fi; discriminate).
          rewrite (Hc' i Hne).
          destruct (I6 i Hi Fi) as [[E|Hin]|E]; [exfalso; apply Hne; symmetry; exact E|left; exact Hin|right; exact E]. }
        destruct (nth idx0 (a_cds a') nc =? h) eqn:Eu.
        * (* undo *)
          unfold FoldInv. fold idx1. cbn [set_cds set_out set_st a_cds a_err a_out].
          assert (Hoth : forall i, i <> idx0 -> nth i (upd (a_cds a') idx0 idx1) nc = nth i (a_cds a') nc)
            by (intros i Hi; apply nth_upd_neq; exact Hi).
          split; [exact I1|]. split; [rewrite upd_length; exact I2|].
          split; [|split; [|split]].
          -- intros i Hi. rewrite (Hoth i Hi). apply I3. exact Hi.
          -- intros i Hi. rewrite (Hoth i Hi). apply I4. exact Hi.
          -- left. rewrite nth_upd. rewrite Nat.eqb_refl. cbn [andb].
             destruct (Nat.ltb_spec idx0 (length (a_cds a'))) as [|Hge]; [reflexivity|].
             unfold idx1. rewrite !nth_overflow; [reflexivity|lia|lia].
          -- intros i Hi Fi.
             assert (Hne : i <> idx0) by (destruct (Hus i Hi) as (_ & Q & _); exact Q).
             rewrite (Hoth i Hne). apply (Hrem (a_cds a')); [reflexivity|exact Hi|exact Fi].
        * unfold FoldInv. fold idx1. split; [exact I1|]. split; [exact I2|].
          split; [exact I3|]. split; [exact I4|]. split; [exact I5|].
          apply (Hrem (a_cds a')). reflexivity.
    - intros x Hx. exact Hx.
    - (* start *)
      unfold FoldInv. fold idx1. rewrite N2.
      assert (Hoth : forall i, i <> idx0 -> nth i (upd (a_cds a) idx0 v) nc = nth i (a_cds a) nc)
        by (intros i Hi; apply nth_upd_neq; exact Hi).
      split; [reflexivity|]. split; [rewrite upd_length; exact HL|].
      split; [|split; [|split]].
      + intros i Hi. rewrite (Hoth i Hi). apply HR.
      + intros i Hi. left. apply Hoth. exact Hi.
      + right. reflexivity.
      + intros i Hi _. left. exact Hi. }
  destruct HQ as (I1 & I2 & I3 & I4 & I5 & I6). fold idx1 in I4, I5, I6.
  set (af := fold_left F us a1) in *.
  split; [|split; [exact I2|right; exact I1]].
  destruct (Nat.eq_dec (nth idx0 (a_cds af) nc) idx1) as [E1|N1'].
  - (* the link of idx0 is the original one *)
    exists r. intros i Fi. destruct (Nat.eq_dec i idx0) as [->|Hne]; [|apply I3; assumption].
    rewrite E1. apply (HR idx0 Fi).
  - (* the link of idx0 is new: no flagged cell drains to idx0 any more *)
    set (b := nth idx0 (a_cds af) nc) in *.
    exists (fun i => if i =? idx0 then S (r b) else r i). intros i Fi.
    destruct (Nat.eq_dec i idx0) as [->|Hne].
    + fold b. intros _ Hb _. rewrite Nat.eqb_refl. apply Nat.eqb_neq in Hb. rewrite Hb. lia.
    + intros Hlt Hself Fd. apply Nat.eqb_neq in Hne. rewrite Hne. apply Nat.eqb_neq in Hne.
      destruct (Nat.eqb_spec (nth i (a_cds af) nc) idx0) as [Ed|_]; [exfalso|apply I3; assumption].
      rewrite Ed in Hlt.
      destruct (I4 i Hne) as [E|E]; [|apply Ene; rewrite <- E; exact Ed].
      rewrite Ed in E. symmetry in E.
      assert (Hi : i < nc).
      { destruct (Nat.lt_ge_cases i nc) as [|Hge]; [assumption|].
        rewrite nth_overflow in E by (rewrite HL; exact Hge). lia. }
      assert (Hin : In i us).
      { apply (upstream_d8_idx_spec (a_cds a) idx0 nrow ncol i Hncol). split; [exact Hi|]. split; [exact Hne|].
        split; [|unfold dsf, size; rewrite HL; exact E].
        rewrite in_d8_sym. pose proof (HI i) as Hd. rewrite E in Hd. apply Hd. exact Hlt. }
      destruct (I6 i Hin Fi) as [[]|E']. apply Ene. rewrite <- E'. exact Ed.
Qed.

(* (1) one element of the inner loop keeps the rank invariant and never takes the branch `set_err a 2` *)
Theorem opt_one_rank valid a idx0 :
  Inv nrow ncol (a_cds a) -> length (a_cds a) = nc -> RankInv nc valid (a_cds a) ->
  let a' := fst (opt_one sds upa subncol cs nrow ncol valid a idx0) in
  RankInv nc valid (a_cds a') /\ length (a_cds a') = nc /\
  (a_err a' = a_err a \/
   a_err a' = a_err (fst (new_outlet sds upa subncol cs ncol a idx0 (nth idx0 (a_out a) nsub) None))).
Proof. intros HI HL [r HR]. apply (opt_one_rank_aux valid a idx0 r HI HL HR). Qed.

Corollary opt_one_no_assert valid a idx0 :
  Inv nrow ncol (a_cds a) -> length (a_cds a) = nc -> RankInv nc valid (a_cds a) ->
  a_err (fst (opt_one sds upa subncol cs nrow ncol valid a idx0)) = 2 -> a_err a = 2.
Proof.
  intros HI HL HR H. destruct (opt_one_rank valid a idx0 HI HL HR) as (_ & _ & [E|E]); cbv zeta in E; rewrite E in H.
  - exact H.
  - apply new_outlet_err2 in H. exact H.
Qed.

(* the flag after opt_one is the old one, or 1 when it was 0 (fuel) *)
Corollary opt_one_err valid a idx0 :
  Inv nrow ncol (a_cds a) -> length (a_cds a) = nc -> RankInv nc valid (a_cds a) ->
  let a' := fst (opt_one sds upa subncol cs nrow ncol valid a idx0) in
  a_err a' = a_err a \/ (a_err a = 0 /\ a_err a' = 1).
Proof.
  intros HI HL HR. destruct (opt_one_rank valid a idx0 HI HL HR) as (_ & _ & [E|E]); cbv zeta in E |- *; rewrite E.
  - left. reflexivity.
  - destruct (new_outlet_cds a idx0 (nth idx0 (a_out a) nsub) None) as (_ & _ & Q). exact Q.
Qed.

(* ---------- (2) ihu_optimize_rivlen ---------- *)
Definition OptInv (valid : list bool) (a0 a : A) : Prop :=
  Inv nrow ncol (a_cds a) /\ length (a_cds a) = nc /\ RankInv nc valid (a_cds a) /\
  (a_err a = a_err a0 \/ (a_err a0 = 0 /\ a_err a = 1)).

Lemma OptInv_step valid a0 a idx0 : OptInv valid a0 a ->
  OptInv valid a0 (fst (opt_one sds upa subncol cs nrow ncol valid a idx0)).
Proof.
  intros (HI & HL & HR & HE).
  destruct (opt_one_rank valid a idx0 HI HL HR) as (R1 & R2 & _).
  pose proof (opt_one_err valid a idx0 HI HL HR) as R3. cbv zeta in R1, R2, R3.
  split; [apply opt_one_inv; exact HI|]. split; [exact R2|]. split; [exact R1|].
  destruct R3 as [R3|[R3 R4]].
  - rewrite R3. exact HE.
  - destruct HE as [HE|[HE HE']]; [|lia]. right. split; [lia|exact R4].
Qed.

Theorem optimize_rivlen_rank valid short a :
  Inv nrow ncol (a_cds a) -> length (a_cds a) = nc -> RankInv nc valid (a_cds a) ->
  let a' := optimize_rivlen sds upa subncol cs nrow ncol valid short a in
  Inv nrow ncol (a_cds a') /\ length (a_cds a') = nc /\ RankInv nc valid (a_cds a') /\
  (a_err a' = a_err a \/ (a_err a = 0 /\ a_err a' = 1)).
Proof.
  intros HI HL HR. cbv zeta. unfold optimize_rivlen.
  apply (fold_left_inv (OptInv valid a)); [split; [exact HI|split; [exact HL|split; [exact HR|left; reflexivity]]]|].
  intros a' i _ Ha'. cbv zeta.
  pose proof (OptInv_step valid a a' i Ha') as H1.
  destruct (opt_one sds upa subncol cs nrow ncol valid a' i) as [a1 brk]. cbn [fst] in H1.
  destruct brk; [exact H1|]. apply OptInv_step. exact H1.
Qed.

Corollary optimize_rivlen_no_assert valid short a :
  Inv nrow ncol (a_cds a) -> length (a_cds a) = nc -> RankInv nc valid (a_cds a) ->
  a_err (optimize_rivlen sds upa subncol cs nrow ncol valid short a) = 2 -> a_err a = 2.
Proof.
  intros HI HL HR H. destruct (optimize_rivlen_rank valid short a HI HL HR) as (_ & _ & _ & [E|[_ E]]); cbv zeta in E.
  - rewrite <- E. exact H.
  - rewrite E in H. discriminate.
Qed.
End IhuAssert.

(* ---------- example: the first stage's result of corpus case 1437 (IhuD8.ex_sds: 2 x 7 pixels, cell size 3, 1 x 3 cells),
   checked by upscale_check; the links [0; 0; 1] decrease the rank r i = i ---------- *)
Definition ex_cds : list nat := [0; 0; 1].
Definition ex_out : list nat := [1; 10; 13].
Definition ex_chk : Chk := upscale_check ex_sds 3 1 3 ex_out ex_cds.
(* upscale_check finds no short link here; the theorems hold for any list: with this one opt_one moves the outlet of cell 1 *)
Definition ex_short : list nat := [2; 1; 0].
Definition ex_a : A := mkA ex_cds ex_out (c_st ex_chk) 0.

Example ex_no_assert :
  a_err (optimize_rivlen ex_sds ex_upa 7 3 1 3 (c_valid ex_chk) ex_short ex_a) <> 2 /\
  RankInv (1 * 3) (c_valid ex_chk) (a_cds (optimize_rivlen ex_sds ex_upa 7 3 1 3 (c_valid ex_chk) ex_short ex_a)).
Proof.
  assert (HI : Inv 1 3 (a_cds ex_a)).
  { unfold Inv, ex_a, ex_cds. cbn [a_cds]. intros i. destruct i as [|[|[|k]]]; cbn [nth]; intros H; try reflexivity.
    exfalso. destruct k; cbn [nth] in H; lia. }
  assert (HR : RankInv (1 * 3) (c_valid ex_chk) (a_cds ex_a)).
  { exists (fun i => i). unfold ex_a, ex_cds. cbn [a_cds]. intros i _. destruct i as [|[|[|k]]]; cbn [nth]; intros H N _; try lia. }
  pose proof (optimize_rivlen_rank ex_sds ex_upa 7 3 1 3 ltac:(lia) (c_valid ex_chk) ex_short ex_a HI eq_refl HR)
    as (_ & _ & R & E).
  split; [|exact R]. intros H2. apply (optimize_rivlen_no_assert ex_sds ex_upa 7 3 1 3 ltac:(lia) _ _ _ HI eq_refl HR) in H2.
  discriminate H2.
Qed.

Example ex_run_opt :
  let a := optimize_rivlen ex_sds ex_upa 7 3 1 3 (c_valid ex_chk) ex_short ex_a in
  (c_valid ex_chk, a_cds a, a_out a, a_err a) = ([true; true; false], [0; 1; 1], [1; 5; 13], 0).
Proof. vm_compute. reflexivity. Qed.

Print Assumptions opt_one_rank.
Print Assumptions opt_one_no_assert.
Print Assumptions optimize_rivlen_rank.
Print Assumptions optimize_rivlen_no_assert.
Print Assumptions ex_no_assert.
