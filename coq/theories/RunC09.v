From Coq Require Import List Arith ZArith Bool.
Import ListNotations.
From PF Require Import Arr Net Elev Upscale UpscaleD8 D8Idx Ihu Glue RunC15.
Local Open Scope Z_scope.

Definition sent_out (n : nat) (l : list nat) : list Z :=
  map (fun d => if (d =? n)%nat then -1 else if (n <? d)%nat then -7 else Z.of_nat d) l.

Definition pack (sds : list nat) (r : list nat * list nat * (nat * nat)) : list (list Z) :=
  let '(cds, out, (nrow, ncol)) := r in
  [sent_out (nrow * ncol) cds; sent_out (length sds) out; [Z.of_nat nrow; Z.of_nat ncol]].

Definition run_c09 (k : Z) (args : list (list Z)) : list (list Z) :=
  if k =? 900 then [[0]]
  else
  let sds := net_in (arg 0 args) in
  if k =? 901 then pack sds (up_dmm sds (arg 1 args) (argn 2 args) (argn 3 args) (argn 4 args))
  else if k =? 902 then pack sds (up_eam sds (arg 1 args) (argn 2 args) (argn 3 args) (argn 4 args) (bs (arg 5 args)))
  else if k =? 903 then pack sds (up_eam_plus sds (arg 1 args) (argn 2 args) (argn 3 args) (argn 4 args) (bs (arg 5 args)))
  else if k =? 904 then
    (* upscale_error: args fine ds, outlet pixels (-1 = missing), coarse ds (-1 = missing) *)
    let out := net_in_n (length sds) (arg 1 args) in
    let cds := net_in (arg 2 args) in
    [upscale_error sds out cds]
  else if k =? 905 then
    [[zb (RunC15.zlist_eqb (upscale_error sds (net_in_n (length sds) (arg 1 args)) (net_in (arg 2 args))) (arg 3 args))]]
  else if (911 <=? k) && (k <=? 913) then
    (* equality with the implementation's result: coarse ds (arg 6), outlet pixels (arg 7), shape (arg 8) *)
    let r := if k =? 911 then up_dmm sds (arg 1 args) (argn 2 args) (argn 3 args) (argn 4 args)
             else if k =? 912 then up_eam sds (arg 1 args) (argn 2 args) (argn 3 args) (argn 4 args) (bs (arg 5 args))
             else up_eam_plus sds (arg 1 args) (argn 2 args) (argn 3 args) (argn 4 args) (bs (arg 5 args)) in
    match pack sds r with
    | [a; b; c] => [[zb (RunC15.zlist_eqb a (arg 6 args)); zb (RunC15.zlist_eqb b (arg 7 args)); zb (RunC15.zlist_eqb c (arg 8 args))]]
    | _ => [[0]]
    end
  else if k =? 914 then
    (* the effective-area map of the implementation (arg 5) contains the middle rows and columns of every cell, and the fine
       links join 8-neighbouring pixels: the hypotheses of eam_links_d8 *)
    [[zb (check_cross sds (bs (arg 5 args)) (argn 3 args) (argn 4 args));
      zb (forallb (fun t => (length sds <=? sd sds t)%nat || in_d8 t (sd sds t) (argn 3 args)) (seq 0 (length sds)))]]
  else if k =? 916 then
    (* the full iterative method ihu (default options) against the implementation run with a stable argsort: coarse ds (arg 6),
       outlet pixels (arg 7), shape (arg 8) *)
    match pack sds (up_ihu sds (arg 1 args) (argn 2 args) (argn 3 args) (argn 4 args) (bs (arg 5 args))) with
    | [a; b; c] => [[zb (RunC15.zlist_eqb a (arg 6 args)); zb (RunC15.zlist_eqb b (arg 7 args)); zb (RunC15.zlist_eqb c (arg 8 args))]]
    | _ => [[0]]
    end
  else if k =? 915 then
    (* core._d8_idx / core._upstream_d8_idx on every cell of a (coarse) raster: args ds, [nrow], [ncol], then the
       implementation's lists flattened as  idx0, length, neighbours ...  for idx0 = 0 .. min(size, 40) - 1 *)
    let nrow := argn 1 args in let ncol := argn 2 args in
    let m := Nat.min (nrow * ncol) 40 in
    let flat (f : nat -> list nat) := flat_map (fun i => let l := f i in Z.of_nat i :: Z.of_nat (length l) :: map Z.of_nat l) (seq 0 m) in
    [[zb (RunC15.zlist_eqb (flat (fun i => d8_idx i nrow ncol)) (arg 3 args));
      zb (RunC15.zlist_eqb (flat (fun i => upstream_d8_idx sds i nrow ncol)) (arg 4 args))]]
  else [[-999]].
