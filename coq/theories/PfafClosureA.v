(* Pfafstetter closure, part A: list / sort / rank lemmas and the derivation of the closure
   statement from the two structural facts (A) and (B) about the seed map. *)
From Coq Require Import List Arith ZArith Bool Lia.
Import ListNotations.
From PF Require Import Arr Net SweepDown Fill FillSpec Rank Stream Subbas.
Local Open Scope Z_scope.

(* ---------- insertion sort (descending) ---------- *)
Lemma insert_desc_In key x l y : In y (insert_desc key x l) <-> y = x \/ In y l.
Proof.
  induction l as [|h t IH]; cbn [insert_desc].
  - cbn [In]. intuition.
  - destruct (key h <=? key x); cbn [In]; [intuition|]. rewrite IH. intuition.
Qed.

Lemma sort_desc_In key l y : In y (sort_desc key l) <-> In y l.
Proof.
  induction l as [|h t IH]; cbn [sort_desc fold_right]; [tauto|].
  fold (sort_desc key t). rewrite insert_desc_In, IH. cbn [In]. intuition.
Qed.

Lemma insert_desc_NoDup key x l : NoDup l -> ~ In x l -> NoDup (insert_desc key x l).
Proof.
  induction l as [|h t IH]; intros Hnd Hx; cbn [insert_desc].
  - constructor; [intros []|constructor].
  - destruct (key h <=? key x); [constructor; auto|].
    inversion Hnd as [|a l' Hh Ht]; subst. constructor.
    + rewrite insert_desc_In. intros [E|E]; [subst; apply Hx; left; reflexivity|contradiction].
    + apply IH; [exact Ht|]. intros E. apply Hx. right. exact E.
Qed.

Lemma sort_desc_NoDup key l : NoDup l -> NoDup (sort_desc key l).
Proof.
  induction l as [|h t IH]; intros Hnd; cbn [sort_desc fold_right]; [constructor|].
  fold (sort_desc key t). inversion Hnd as [|a l' Hh Ht]; subst.
  apply insert_desc_NoDup; [apply IH; exact Ht|]. rewrite sort_desc_In. exact Hh.
Qed.

Fixpoint sortedd (key : nat -> Z) (l : list nat) : Prop :=
  match l with
  | [] => True
  | h :: t => (forall y, In y t -> key y <= key h) /\ sortedd key t
  end.

Lemma insert_desc_sorted key x l : sortedd key l -> sortedd key (insert_desc key x l).
Proof.
  induction l as [|h t IH]; intros Hs; cbn [insert_desc].
  - cbn [sortedd]. split; [intros y []|exact I].
  - destruct Hs as [Hh Ht]. destruct (Z.leb_spec (key h) (key x)) as [Hle|Hgt].
    + cbn [sortedd]. split; [|split; [exact Hh|exact Ht]].
      intros y [E|Hy]; [subst; exact Hle|]. specialize (Hh y Hy). lia.
    + cbn [sortedd]. split; [|apply IH; exact Ht].
      intros y Hy. apply insert_desc_In in Hy. destruct Hy as [E|Hy]; [subst; lia|apply Hh; exact Hy].
Qed.

Lemma sort_desc_sorted key l : sortedd key (sort_desc key l).
Proof.
  induction l as [|h t IH]; cbn [sort_desc fold_right]; [exact I|].
  fold (sort_desc key t). apply insert_desc_sorted. exact IH.
Qed.

Lemma firstn_In_sub {A} k (l : list A) x : In x (firstn k l) -> In x l.
Proof.
  revert l; induction k as [|k IH]; intros [|h t]; cbn [firstn In]; try tauto.
  intros [E|H]; [left; exact E|right; apply IH; exact H].
Qed.

Lemma firstn_NoDup {A} k (l : list A) : NoDup l -> NoDup (firstn k l).
Proof.
  revert l; induction k as [|k IH]; intros [|h t] Hnd; cbn [firstn]; try constructor.
  - inversion Hnd as [|a l' Hh Ht]; subst. intros E. apply Hh. apply (firstn_In_sub k). exact E.
  - inversion Hnd as [|a l' Hh Ht]; subst. apply IH. exact Ht.
Qed.

(* ---------- rank of a cell: its position in the topological order ---------- *)
Fixpoint pos (c : nat) (l : list nat) : nat :=
  match l with
  | [] => 0%nat
  | h :: t => if (c =? h)%nat then 0%nat else S (pos c t)
  end.

Lemma pos_lt c l : In c l -> (pos c l < length l)%nat.
Proof.
  induction l as [|h t IH]; cbn [In pos length]; [tauto|].
  intros H. destruct (Nat.eqb_spec c h) as [E|E]; [lia|].
  destruct H as [H|H]; [congruence|]. specialize (IH H). lia.
Qed.

Lemma pos_app_in c l r : In c l -> pos c (l ++ r) = pos c l.
Proof.
  induction l as [|h t IH]; cbn [In pos app]; [tauto|].
  intros H. destruct (Nat.eqb_spec c h) as [E|E]; [reflexivity|].
  destruct H as [H|H]; [congruence|]. rewrite IH by exact H. reflexivity.
Qed.

Lemma pos_app_notin c l r : ~ In c l -> pos c (l ++ r) = (length l + pos c r)%nat.
Proof.
  induction l as [|h t IH]; cbn [In pos app length]; [reflexivity|].
  intros H. destruct (Nat.eqb_spec c h) as [E|E]; [exfalso; apply H; left; congruence|].
  rewrite IH by tauto. reflexivity.
Qed.

Lemma topo_pos ds sq c : topo ds sq -> In c sq -> dsf ds c <> c -> (pos (dsf ds c) sq < pos c sq)%nat.
Proof.
  intros Ht. revert c. induction Ht as [|s i Ht IH Hv Hni Hd]; intros c Hc Hnp; [destruct Hc|].
  apply in_app_or in Hc. destruct Hc as [Hc|[E|[]]].
  - assert (Hdc : In (dsf ds c) s) by (apply (topo_closed ds s); assumption).
    rewrite !pos_app_in by assumption. apply IH; assumption.
  - subst c. destruct Hd as [Hd|Hd]; [contradiction|].
    rewrite pos_app_in by exact Hd. rewrite pos_app_notin by exact Hni.
    pose proof (pos_lt _ _ Hd). lia.
Qed.

Lemma topo_length ds sq : topo ds sq -> (length sq <= length ds)%nat.
Proof.
  intros Ht. rewrite <- (seq_length (length ds) 0).
  apply NoDup_incl_length; [apply (topo_NoDup ds); exact Ht|].
  intros c Hc. apply in_seq. destruct (topo_valid ds sq c Ht Hc) as [H _]. unfold size in H. lia.
Qed.

(* ---------- closure statement from (A) and (B) ---------- *)
Section ClosureAB.
Variable ds : list nat.
Variables (sq : list nat) (branch : list Z) (idxs : list nat).
Hypothesis Ht : topo ds sq.
Hypothesis Hlen : length branch = length ds.
Notation lab c := (nth c branch 0).
Hypothesis HA : forall c, In c sq -> lab c <> 0 ->
  In c idxs \/ (dsf ds c <> c /\ lab (dsf ds c) = lab c).
Hypothesis HB : forall o, In o idxs -> In o sq /\ lab o <> 0.
Let Lf := fillnodata_upstream ds sq branch 0.

Lemma walk_down_outlet : forall (r : nat) c, (pos c sq < r)%nat -> In c sq -> lab c <> 0 ->
  exists k, In (iter ds k c) idxs /\ lab (iter ds k c) = lab c /\
    forall j, (j < k)%nat -> ~ In (iter ds j c) idxs /\ dsf ds (iter ds j c) <> iter ds j c.
Proof.
  induction r as [|r IH]; intros c Hr Hc Hl; [lia|].
  destruct (in_dec Nat.eq_dec c idxs) as [Y|N].
  - exists 0%nat. cbn [iter]. split; [exact Y|]. split; [reflexivity|]. intros j Hj. lia.
  - destruct (HA c Hc Hl) as [Y|[Hnp He]]; [contradiction|].
    assert (Hp : (pos (dsf ds c) sq < r)%nat) by (pose proof (topo_pos ds sq c Ht Hc Hnp); lia).
    assert (Hdc : In (dsf ds c) sq) by (apply (topo_closed ds sq); assumption).
    destruct (IH (dsf ds c) Hp Hdc ltac:(rewrite He; exact Hl)) as (k & K1 & K2 & K3).
    exists (S k). cbn [iter]. split; [exact K1|]. split; [rewrite K2; exact He|].
    intros [|j] Hj; cbn [iter]; [split; assumption|]. apply K3. lia.
Qed.

(* a seeded cell keeps its seed *)
Lemma fill_at_seeded o : In o sq -> lab o <> 0 -> nth o Lf 0 = lab o.
Proof.
  intros Ho Hl. destruct (fill_up_spec ds 0 branch sq Hlen Ht) as (_ & H2 & _).
  destruct (H2 o Ho) as (m & Hm1 & Hm2). fold Lf in Hm2. destruct m as [|m].
  - cbn [iter] in Hm2. destruct Hm2 as [[_ E]|(E & _)]; [exact E|contradiction].
  - exfalso. destruct (Hm1 0%nat ltac:(lia)) as [E _]. cbn [iter] in E. contradiction.
Qed.

Theorem closure_AB_outlets o : In o idxs -> In o sq /\ nth o Lf 0 = lab o /\ lab o <> 0.
Proof.
  intros Ho. destruct (HB o Ho) as [H1 H2]. split; [exact H1|]. split; [apply fill_at_seeded; assumption|exact H2].
Qed.

Theorem closure_AB i : In i sq ->
  exists m, (forall j, (j < m)%nat -> ~ In (iter ds j i) idxs /\ dsf ds (iter ds j i) <> iter ds j i) /\
    ((In (iter ds m i) idxs /\ nth i Lf 0 = nth (iter ds m i) Lf 0) \/
     (~ In (iter ds m i) idxs /\ dsf ds (iter ds m i) = iter ds m i /\ nth i Lf 0 = 0)).
Proof.
  intros Hi. destruct (fill_up_spec ds 0 branch sq Hlen Ht) as (_ & H2 & _).
  destruct (H2 i Hi) as (k & Hk1 & Hk2). fold Lf in Hk2.
  assert (Hun : forall j, (j < k)%nat -> ~ In (iter ds j i) idxs).
  { intros j Hj Hin. destruct (Hk1 j Hj) as [E _]. destruct (HB _ Hin) as [_ Hnz]. contradiction. }
  destruct Hk2 as [[Hnz E]|(Hz & Hp & E)].
  - set (c := iter ds k i) in *.
    assert (Hc : In c sq) by (apply topo_closed_iter; assumption).
    destruct (walk_down_outlet (S (pos c sq)) c ltac:(lia) Hc Hnz) as (k2 & K1 & K2 & K3).
    exists (k + k2)%nat. split.
    + intros j Hj. destruct (Nat.lt_ge_cases j k) as [Hlt|Hge].
      * split; [apply Hun; exact Hlt|apply Hk1; exact Hlt].
      * replace j with (k + (j - k))%nat by lia. rewrite iter_add. fold c. apply K3. lia.
    + left. rewrite iter_add. fold c. split; [exact K1|].
      rewrite E. destruct (HB _ K1) as [Hs Hl]. rewrite (fill_at_seeded _ Hs Hl). symmetry. exact K2.
  - exists k. split.
    + intros j Hj. split; [apply Hun; exact Hj|apply Hk1; exact Hj].
    + right. split; [|split; assumption]. intros Hin. destruct (HB _ Hin) as [_ Hnz]. contradiction.
Qed.
End ClosureAB.
