(* C09 / ihu, structural fact 4: THE OUTLET PIXELS OF DIFFERENT COARSE CELLS ARE DIFFERENT -- for the result of the
   iterative method.  Two invariants:
   - InCell: every outlet pixel lies in its own coarse cell.  It holds after eam_plus and is kept by every stage EXCEPT the
     pit branch of ihu_minimize_error, which is only enabled (pit_out_of_cell = 2) in the last call of ihu_minimize_error:
     up to that call outlet pixels are distinct because they lie in distinct cells;
   - K: the outlet pixels are pairwise distinct (Inj) and every outlet pixel is marked with a cell index in `streams`
     (Cover).  upscale_check establishes Cover; new_outlet only picks unmarked pixels (streams = -9) and the pit branch only
     a pit that is not marked (no outlet pixel was met on the way), so both keep K. *)
From Coq Require Import List Arith ZArith Bool Lia.
Import ListNotations.
From PF Require Import Arr Net Elev Upscale UpscaleSpec UpscaleD8 UpscaleNoErr UpscaleDistinct NetBound TermIhu
  D8Idx D8IdxSpec Ihu IhuD8 IhuValid.

Section IhuDistinct.
Variable sds : list nat.
Variable upa : list Z.
Variables subnrow subncol cs : nat.
Notation nsub := (length sds).
Notation nrow := (cdiv subnrow cs).
Notation ncol := (cdiv subncol cs).
Notation nc := (nrow * ncol).
Notation sd := (Upscale.sd sds).
Notation cell s := (sub2idx s subncol cs ncol).

Hypothesis Hcs : 0 < cs.
Hypothesis HW : 0 < subncol.
Hypothesis Hlen : nsub = subnrow * subncol.

(* ================= A. outlet pixels in their own cell ================= *)
Definition CellOk (i p : nat) : Prop := p < nsub -> cell p = i.
Definition InCell (out : list nat) : Prop := forall i, CellOk i (nth i out nsub).

Lemma CellOk_nsub i : CellOk i nsub.
Proof. intros H. lia. Qed.

Lemma InCell_upd out j v : InCell out -> CellOk j v -> InCell (upd out j v).
Proof.
  intros H Hv i. rewrite nth_upd. destruct (Nat.eqb i j && Nat.ltb j (length out)) eqn:E; [|apply H].
  apply andb_true_iff in E. destruct E as [E _]. apply Nat.eqb_eq in E. subst i. exact Hv.
Qed.

Lemma new_outlet_incell a idx0 subidx0 tgt : InCell (a_out a) ->
  InCell (a_out (fst (new_outlet sds upa subncol cs ncol a idx0 subidx0 tgt))).
Proof.
  intros H. unfold new_outlet. cbv zeta.
  match goal with |- context [fold_left ?f ?l ?i] => set (F := f); set (R := fold_left F l i) end.
  assert (HQ : match snd (fst R) with Some (s, _, _) => cell s = idx0 | None => True end).
  { apply fold_left_inv; [exact I|]. intros [[u b] ok] s Hs Hb. unfold F. cbv beta iota. cbn [fst snd] in Hb.
    match goal with |- context [if ?c then _ else _] => destruct c end; [exact Hb|].
    destruct (no_walk sds (S nsub) _ s []) as [[[slast s1] rpath]|]; [|exact Hb].
    match goal with |- context [if ?c then _ else _] => destruct c end; [|exact Hb].
    cbn [fst snd]. apply (outlet_pix_cell sds subnrow subncol cs Hcs HW Hlen). exact Hs. }
  destruct R as [[u b] ok]. cbn [fst snd] in HQ. destruct b as [[[so idx_ds] p]|]; cbn [fst a_out]; [|exact H].
  apply InCell_upd; [exact H|]. intros _. exact HQ.
Qed.

Lemma opt_one_incell valid a idx0 : InCell (a_out a) ->
  InCell (a_out (fst (opt_one sds upa subncol cs nrow ncol valid a idx0))).
Proof.
  intros H. unfold opt_one. cbv zeta.
  match goal with |- context [if ?c then _ else _] => destruct c end; [exact H|].
  match goal with |- context [if ?c then _ else _] => destruct c end; [|exact H].
  pose proof (new_outlet_incell a idx0 (nth idx0 (a_out a) nsub) None H) as H1.
  destruct (new_outlet sds upa subncol cs ncol a idx0 (nth idx0 (a_out a) nsub) None) as [a1 success].
  cbn [fst] in H1. destruct success; [|exact H1]. cbn [fst].
  apply fold_left_inv; [exact H1|]. intros a' idx _ Ha'.
  destruct (nth idx valid true).
  - destruct (idx =? nth idx0 (a_cds a) nc); exact Ha'.
  - destruct (nth idx0 (a_cds a') nc =? idx); [|exact Ha']. cbn [set_cds set_out set_st a_out].
    apply InCell_upd; [exact Ha'|]. apply H.
Qed.

Lemma optimize_rivlen_incell valid short a : InCell (a_out a) ->
  InCell (a_out (optimize_rivlen sds upa subncol cs nrow ncol valid short a)).
Proof.
  intros H. unfold optimize_rivlen. apply fold_left_inv; [exact H|]. intros a' i _ Ha'. cbv zeta.
  pose proof (opt_one_incell valid a' i Ha') as H1.
  destruct (opt_one sds upa subncol cs nrow ncol valid a' i) as [a1 brk]. cbn [fst] in H1.
  destruct brk; [exact H1|]. apply opt_one_incell. exact H1.
Qed.

Lemma me_hw_incell idxs hw : forall a, InCell (a_out a) -> InCell (a_out (me_hw sds upa subncol cs nrow ncol a idxs hw)).
Proof.
  induction hw as [|idx t IH]; intros a H; cbn [me_hw]; [exact H|].
  pose proof (new_outlet_incell a idx (nth idx (a_out a) nsub) (Some (nth (nth 0 idxs nc) (a_out a) nsub)) H) as H1.
  destruct (new_outlet sds upa subncol cs ncol a idx (nth idx (a_out a) nsub) (Some (nth (nth 0 idxs nc) (a_out a) nsub)))
    as [a1 fixed1].
  cbn [fst] in H1. destruct fixed1; [exact H1|]. apply IH. exact H1.
Qed.

Lemma me_rounds_incell idxs idx0 nb n :
  forall a, InCell (a_out a) -> InCell (a_out (me_rounds sds upa subncol cs nrow ncol n a idxs idx0 nb)).
Proof.
  induction n as [|n IH]; intros a H; cbn [me_rounds]; [exact H|]. cbv zeta.
  match goal with |- context [if ?c then _ else _] => destruct c end; [|exact H].
  apply IH. apply me_hw_incell. exact H.
Qed.

(* pit_out_of_cell = 0: the pit branch is switched off *)
Lemma me_one_incell a idx0 : InCell (a_out a) -> InCell (a_out (me_one sds upa subncol cs nrow ncol 0 a idx0)).
Proof.
  intros H. unfold me_one. cbv zeta.
  destruct (me_path sds ncol (S nsub) (a_st a) idx0 (nth idx0 (a_out a) nsub) []) as [[[idxs subidx] subidx_ds]|];
    [|exact H].
  cbn [Nat.ltb Nat.leb andb].
  match goal with |- context [if ?c then new_outlet _ _ _ _ _ _ _ _ _ else _] => destruct c end.
  - pose proof (new_outlet_incell a idx0 (nth idx0 (a_out a) nsub) None H) as H1.
    destruct (new_outlet sds upa subncol cs ncol a idx0 (nth idx0 (a_out a) nsub) None) as [a1 fixed].
    cbn [fst] in H1. destruct fixed; [exact H1|]. apply me_rounds_incell. exact H1.
  - apply me_rounds_incell. exact H.
Qed.

Lemma minimize_error_incell fixl a : InCell (a_out a) ->
  InCell (a_out (minimize_error sds upa subncol cs nrow ncol fixl 0 a)).
Proof.
  intros H. unfold minimize_error. cbv zeta. apply fold_left_inv; [exact H|]. intros a' i0 _ Ha'. apply me_one_incell. exact Ha'.
Qed.

(* ihu_relocate_outlets *)
Definition CLogOk (log : list (nat * nat)) : Prop := Forall (fun p => CellOk (fst p) (snd p)) log.
Definition SCell (s : S4) : Prop := InCell (s_out s) /\ CLogOk (s_chg_out s).

Lemma s4_set_ds_cell s i v : SCell s -> SCell (s4_set_ds nrow ncol s i v).
Proof. intros H. unfold s4_set_ds. destruct (nth i (s_cds s) nc =? v); exact H. Qed.

Lemma s4_set_out_cell s i v : SCell s -> CellOk i v -> SCell (s4_set_out sds s i v).
Proof.
  intros [H1 H2] Hv. unfold s4_set_out. destruct (v =? nth i (s_out s) nsub); [split; assumption|].
  split; cbn [s_out s_chg_out].
  - apply InCell_upd; assumption.
  - apply Forall_app. split; [exact H2|]. constructor; [|constructor]. cbn [fst snd]. apply H1.
Qed.

Lemma s4_unroll_cell s : SCell s -> SCell (s4_unroll s).
Proof.
  intros [H1 H2]. unfold s4_unroll. cbv zeta. split; cbn [s_out s_chg_out]; [|exact H2].
  apply fold_left_inv; [exact H1|]. intros l p Hp Hl. apply InCell_upd; [exact Hl|].
  unfold CLogOk in H2. rewrite Forall_forall in H2. apply H2. exact Hp.
Qed.

Lemma rl_trace_cell fuel cds out : forall subidx idx0 idx_ds0 il sl r, idx0 = cell subidx ->
  Forall2 (fun i s => cell s = i) il sl ->
  rl_trace sds subncol cs nrow ncol fuel cds out subidx idx0 idx_ds0 il sl = Some r ->
  Forall2 (fun i s => cell s = i) (fst (fst r)) (snd (fst r)).
Proof.
  induction fuel as [|f IH]; intros subidx idx0 idx_ds0 il sl r Hc Ht Hr; cbn [rl_trace] in Hr; [discriminate|].
  cbv zeta in Hr.
  match type of Hr with (if ?c then _ else _) = _ => destruct c eqn:Ec end.
  - assert (Ht' : Forall2 (fun i s => cell s = i) (if negb (nc <=? nth idx0 cds nc) then il ++ [idx0] else il)
                           (if negb (nc <=? nth idx0 cds nc) then sl ++ [subidx] else sl)).
    { destruct (negb (nc <=? nth idx0 cds nc)); [|exact Ht].
      apply Forall2_app; [exact Ht|]. constructor; [symmetry; exact Hc|constructor]. }
    match type of Hr with (if ?c then _ else _) = _ => destruct c end.
    + inversion Hr. cbn [fst snd]. exact Ht'.
    + apply (IH _ _ _ _ _ _ eq_refl Ht' Hr).
  - apply orb_false_iff in Ec. destruct Ec as [_ Ec]. apply negb_false_iff, Nat.eqb_eq in Ec.
    apply (IH _ _ _ _ _ _ Ec Ht Hr).
Qed.

Lemma rl_trib_cell fuel : forall s idx0 subidx_ds0 subidx idx_ds0 path, SCell s ->
  (idx_ds0 = cell subidx \/ idx_ds0 = idx0) ->
  SCell (rl_trib sds subncol cs nrow ncol fuel s idx0 subidx_ds0 subidx idx_ds0 path).
Proof.
  induction fuel as [|f IH]; intros s idx0 subidx_ds0 subidx idx_ds0 path H Hds0; cbn [rl_trib]; [exact H|]. cbv zeta.
  match goal with |- context [if ?c then _ else _] => destruct c end.
  - match goal with |- context [if ?c then _ else _] => destruct c end; [exact H|].
    destruct (in_d8 idx0 (cell (sd subidx)) ncol); [|exact H].
    apply s4_set_ds_cell. exact H.
  - match goal with |- context [match ?m with Some s' => s' | None => _ end] => destruct m as [s'|] eqn:Em end;
      [|apply IH; [exact H|left; reflexivity]].
    match type of Em with (if ?c then _ else _) = _ => destruct c eqn:C1 end; [|discriminate].
    destruct (next_outlet sds subncol cs ncol (S nsub) (s_out s) subidx) as [[[x idx_ds00] outlet0]|];
      [|inversion Em; exact H].
    match type of Em with (if ?c then _ else _) = _ => destruct c end; [|discriminate].
    inversion Em.
    apply andb_true_iff in C1. destruct C1 as [C1 _]. apply andb_true_iff in C1. destruct C1 as [C1 _].
    apply andb_true_iff in C1. destruct C1 as [C1 _]. apply andb_true_iff in C1. destruct C1 as [_ C1b].
    apply negb_true_iff, Nat.eqb_neq in C1b. destruct Hds0 as [Hds0|Hds0]; [|contradiction].
    apply s4_set_out_cell; [apply s4_set_ds_cell; apply s4_set_ds_cell; exact H|]. intros _. symmetry. exact Hds0.
Qed.

Lemma rl_main_tribs_cell us0 sds0 s ks : SCell s -> SCell (rl_main_tribs sds subncol cs nrow ncol us0 sds0 s ks).
Proof.
  intros H. unfold rl_main_tribs. apply fold_left_inv; [exact H|]. intros s' k _ Hs'. cbv zeta.
  destruct (in_out s' (nth k us0 nc)); [exact Hs'|]. apply rl_trib_cell; [exact Hs'|right; reflexivity].
Qed.

Section Step4.
Variables il sl us0 sds0 conn conn1 : list nat.
Hypothesis Htr : forall j, CellOk (nth j il nc) (nth j sl nsub).

Lemma rl_step_cell s j : SCell s -> SCell (rl_step sds subncol cs nrow ncol il sl us0 sds0 conn conn1 s j).
Proof.
  intros H. unfold rl_step. destruct (s_next s); [exact H|]. cbv zeta.
  match goal with |- context [if ?c then s4_unroll _ else _] => destruct c end.
  - apply s4_unroll_cell. exact H.
  - match goal with |- context [if ?c then _ else _] => destruct c end; [exact H|].
    match goal with |- context [if ?c then _ else _] => destruct c end.
    + match goal with |- context [rl_main_tribs _ _ _ _ _ _ _ ?s0 ?ks] =>
        assert (Hm : SCell (rl_main_tribs sds subncol cs nrow ncol us0 sds0 s0 ks)) end.
      { apply rl_main_tribs_cell. apply s4_set_out_cell; [|apply Htr]. apply s4_set_ds_cell. exact H. }
      match goal with |- context [if ?c then s4_unroll _ else _] => destruct c end; [apply s4_unroll_cell|]; exact Hm.
    + match goal with |- context [if ?c then _ else _] => destruct c end; exact H.
Qed.

Lemma rl_passes_cell fuel : forall cds out bott idx00 idx1 ok, InCell out ->
  SCell (rl_passes sds subncol cs nrow ncol il sl us0 sds0 conn conn1 fuel cds out bott idx00 idx1 ok).
Proof.
  assert (Hfold : forall cds out bott idx00 idx1 ok, InCell out ->
    SCell (fold_left (rl_step sds subncol cs nrow ncol il sl us0 sds0 conn conn1) (seq 0 (length sl))
            (mkS4 cds out bott false [] [] idx00 0 0 idx1 ok))).
  { intros cds out bott idx00 idx1 ok H. apply fold_left_inv; [split; [exact H|constructor]|].
    intros s j _ Hs. apply rl_step_cell. exact Hs. }
  induction fuel as [|f IH]; intros cds out bott idx00 idx1 ok H; cbn [rl_passes].
  - apply Hfold. exact H.
  - cbv zeta. pose proof (Hfold cds out bott idx00 idx1 ok H) as Hs.
    match goal with |- context [if ?c then _ else _] => destruct c end; [|exact Hs].
    apply IH. destruct Hs as [Hs _]. exact Hs.
Qed.
End Step4.

Lemma rl_one_incell a idx00 : InCell (a_out a) -> InCell (a_out (rl_one sds subncol cs nrow ncol a idx00)).
Proof.
  intros H. unfold rl_one. cbv zeta.
  match goal with |- context [match ?m with Some _ => _ | None => _ end] => destruct m as [[[il sl] sub_end]|] eqn:Et end;
    [|exact H].
  match goal with |- context [if ?c then a else _] => destruct c end; [exact H|].
  cbn [a_out].
  assert (Htr : forall j, CellOk (nth j il nc) (nth j sl nsub)).
  { pose proof (rl_trace_cell _ _ _ _ _ _ _ _ _ eq_refl (Forall2_nil _) Et) as Hf. cbn [fst snd] in Hf.
    intros j. destruct (Nat.lt_ge_cases j (length sl)) as [Hj|Hj].
    - intros _. apply (Forall2_nth _ il sl nc nsub Hf j Hj).
    - rewrite (nth_overflow sl) by exact Hj. apply CellOk_nsub. }
  match goal with |- context [rl_passes _ _ _ _ _ ?a1 ?a2 ?a3 ?a4 ?a5 ?a6 ?a7 ?a8 ?a9 ?a10 ?a11 ?a12 ?a13] =>
    pose proof (rl_passes_cell a1 a2 a3 a4 a5 a6 Htr a7 a8 a9 a10 a11 a12 a13 H) as Hs;
    set (S0 := rl_passes sds subncol cs nrow ncol a1 a2 a3 a4 a5 a6 a7 a8 a9 a10 a11 a12 a13) in * end.
  destruct (in_out S0 (nth (s_idx1 S0) (s_cds S0) nc)).
  - destruct (s4_unroll_cell S0 Hs) as [Hu _]. exact Hu.
  - destruct Hs as [Hs _]. exact Hs.
Qed.

Lemma relocate_incell fixl a : InCell (a_out a) -> InCell (a_out (relocate sds upa subncol cs nrow ncol fixl a)).
Proof.
  intros H. unfold relocate. cbv zeta. apply fold_left_inv; [exact H|]. intros a' i0 _ Ha'. apply rl_one_incell. exact Ha'.
Qed.

(* ================= B. distinct outlet pixels, all marked in streams ================= *)
Definition Inj (out : list nat) : Prop :=
  forall i j, i < nc -> j < nc -> i <> j -> nth i out nsub < nsub -> nth i out nsub <> nth j out nsub.
Definition Cover (st : list Z) (out : list nat) : Prop :=
  forall k, k < nc -> nth k out nsub < nsub -> (0 <= nth (nth k out nsub) st (-9))%Z.
Definition K (a : A) : Prop := length (a_st a) = nsub /\ Inj (a_out a) /\ Cover (a_st a) (a_out a).

Lemma InCell_Inj out : InCell out -> Inj out.
Proof.
  intros H i j _ _ Hne Hi E. apply Hne. rewrite <- (H i Hi). rewrite E in Hi |- *. apply (H j Hi).
Qed.

Definition foldmax (path : list nat) (st : list Z) : list Z :=
  fold_left (fun st p => upd st p (Z.max (nth p st (-9)%Z) (-1)%Z)) path st.

Lemma foldmax_spec path : forall st, length (foldmax path st) = length st /\
  forall s, (0 <= nth s st (-9))%Z -> (0 <= nth s (foldmax path st) (-9))%Z.
Proof.
  induction path as [|p t IH]; intros st; cbn [foldmax fold_left]; [split; [reflexivity|intros s H; exact H]|].
  fold (foldmax t (upd st p (Z.max (nth p st (-9)%Z) (-1)%Z))).
  destruct (IH (upd st p (Z.max (nth p st (-9)%Z) (-1)%Z))) as [L G]. split; [rewrite L; apply upd_length|].
  intros s Hs. apply G. rewrite nth_upd. destruct (Nat.eqb_spec s p) as [->|Hne]; cbn [andb]; [|exact Hs].
  destruct (Nat.ltb p (length st)); [lia|exact Hs].
Qed.

(* the outlet pixel of cell idx0 moves to the pixel p, which is not the outlet pixel of another cell *)
Lemma K_move st out idx0 p : length st = nsub -> Inj out -> Cover st out -> idx0 < nc ->
  (forall k, k < nc -> k <> idx0 -> nth k out nsub < nsub -> nth k out nsub <> p) ->
  length (upd (upd st (nth idx0 out nsub) (-1)%Z) p (Z.of_nat idx0)) = nsub /\
  Inj (upd out idx0 p) /\
  Cover (upd (upd st (nth idx0 out nsub) (-1)%Z) p (Z.of_nat idx0)) (upd out idx0 p).
Proof.
  intros L HI HC Hi0 Hfree. split; [rewrite !upd_length; exact L|]. split.
  - intros i j Hi Hj Hne. rewrite !nth_upd.
    destruct (Nat.eqb_spec i idx0) as [->|Ei]; destruct (Nat.eqb_spec j idx0) as [->|Ej];
      destruct (Nat.ltb idx0 (length out)); cbn [andb]; try (apply HI; assumption); try contradiction.
    + intros Hp E. apply (Hfree j Hj Ej); [rewrite <- E; exact Hp|symmetry; exact E].
    + intros Ho. apply (Hfree i Hi Ei Ho).
  - intros k Hk. rewrite (nth_upd out). 
    destruct (Nat.eqb_spec k idx0) as [->|Ek]; destruct (Nat.ltb_spec idx0 (length out)) as [Hl|Hl]; cbn [andb].
    + intros Hp. rewrite nth_upd_eq by (rewrite upd_length, L; exact Hp). lia.
    + intros Ho. rewrite nth_overflow in Ho by exact Hl. lia.
    + intros Ho. rewrite nth_upd_neq by (apply (Hfree k Hk Ek Ho)).
      rewrite nth_upd_neq by (apply (HI k idx0 Hk Hi0 Ek Ho)). apply (HC k Hk Ho).
    + intros Ho. rewrite nth_upd_neq by (apply (Hfree k Hk Ek Ho)).
      rewrite nth_upd_neq by (apply (HI k idx0 Hk Hi0 Ek Ho)). apply (HC k Hk Ho).
Qed.

Lemma sd_lt s : sd s < nsub -> s < nsub.
Proof.
  intros H. destruct (Nat.lt_ge_cases s nsub) as [Hl|Hg]; [exact Hl|].
  unfold Upscale.sd in H. rewrite nth_overflow in H by exact Hg. lia.
Qed.

Lemma new_outlet_K a idx0 tgt : K a ->
  let r := new_outlet sds upa subncol cs ncol a idx0 (nth idx0 (a_out a) nsub) tgt in
  K (fst r) /\ (forall k, k <> idx0 -> nth k (a_out (fst r)) nsub = nth k (a_out a) nsub) /\ (snd r = true -> idx0 < nc).
Proof.
  intros (L & HI & HC). cbv zeta. unfold new_outlet. cbv zeta.
  set (st' := upd (a_st a) (nth idx0 (a_out a) nsub) (-1)%Z).
  match goal with |- context [fold_left ?f ?l ?i] => set (F := f); set (R := fold_left F l i) end.
  assert (HQ : match snd (fst R) with
               | Some (s, _, _) => nth s st' (-9)%Z = (-9)%Z /\ sd s < nsub /\ cell s = idx0
               | None => True end).
  { apply fold_left_inv; [exact I|]. intros [[u b] ok] s Hs Hb. unfold F. cbv beta iota. cbn [fst snd] in Hb.
    match goal with |- context [if ?c then _ else _] => destruct c eqn:Ec end; [exact Hb|].
    destruct (no_walk sds (S nsub) st' s []) as [[[slast s1] rpath]|]; [|exact Hb].
    match goal with |- context [if ?c then _ else _] => destruct c end; [|exact Hb].
    cbn [fst snd]. apply orb_false_iff in Ec. destruct Ec as [Ec Ec3]. apply orb_false_iff in Ec. destruct Ec as [Ec1 _].
    apply negb_false_iff, Z.eqb_eq in Ec1. apply Nat.leb_gt in Ec3.
    split; [exact Ec1|]. split; [exact Ec3|]. apply (outlet_pix_cell sds subnrow subncol cs Hcs HW Hlen). exact Hs. }
  destruct R as [[u b] ok]. cbn [fst snd] in HQ. destruct b as [[[so idx_ds] p]|]; cbn [fst snd a_out a_st].
  - destruct HQ as (Q1 & Q2 & Q3). pose proof (sd_lt _ Q2) as Hso.
    assert (Hi0 : idx0 < nc) by (rewrite <- Q3; apply (cell_lt sds subnrow subncol cs Hcs HW Hlen); exact Hso).
    assert (Hfree : forall k, k < nc -> k <> idx0 -> nth k (a_out a) nsub < nsub -> nth k (a_out a) nsub <> so).
    { intros k Hk Ek Ho E. pose proof (HC k Hk Ho) as Hc. pose proof (HI k idx0 Hk Hi0 Ek Ho) as Hne.
      unfold st' in Q1. rewrite <- E in Q1. rewrite nth_upd_neq in Q1 by exact Hne. lia. }
    destruct (K_move _ _ idx0 so L HI HC Hi0 Hfree) as (L' & HI' & HC'). fold st' in L', HC'.
    split; [|split; [intros k Hk; apply nth_upd_neq; exact Hk|intros _; exact Hi0]].
    unfold K. cbn [a_st a_out].
    match goal with |- context [fold_left ?f p ?i] => change (fold_left f p i) with (foldmax p i) end.
    destruct (foldmax_spec p (upd st' so (Z.of_nat idx0))) as [Lf Gf].
    split; [rewrite Lf; exact L'|]. split; [exact HI'|]. intros k Hk Ho. apply Gf. apply (HC' k Hk Ho).
  - split; [|split; [intros k _; reflexivity|discriminate]].
    unfold K. cbn [a_st a_out]. unfold st'. rewrite upd_upd. split; [rewrite upd_length; exact L|]. split; [exact HI|].
    intros k Hk Ho. rewrite nth_upd.
    destruct (Nat.eqb (nth k (a_out a) nsub) (nth idx0 (a_out a) nsub) && Nat.ltb (nth idx0 (a_out a) nsub) (length (a_st a)));
      [lia|apply (HC k Hk Ho)].
Qed.

Lemma opt_one_K valid a idx0 : K a -> K (fst (opt_one sds upa subncol cs nrow ncol valid a idx0)).
Proof.
  intros H. unfold opt_one. cbv zeta.
  match goal with |- context [if ?c then _ else _] => destruct c end; [exact H|].
  match goal with |- context [if ?c then _ else _] => destruct c end; [|exact H].
  pose proof (new_outlet_K a idx0 None H) as H1. cbv zeta in H1.
  destruct (new_outlet sds upa subncol cs ncol a idx0 (nth idx0 (a_out a) nsub) None) as [a1 success].
  cbn [fst snd] in H1. destruct H1 as (K1 & F1 & S1). destruct success; [|exact K1]. cbn [fst].
  specialize (S1 eq_refl). destruct H as (L & HI & HC).
  assert (G : K (fold_left (fun a' idx =>
           if nth idx valid true then (if idx =? nth idx0 (a_cds a) nc then set_err a' 2 else set_cds a' idx (nth idx0 (a_cds a) nc))
           else if nth idx0 (a_cds a') nc =? idx then
             set_cds (set_out (set_st (set_st a' (nth idx0 (a_out a') nsub) (-1)%Z) (nth idx0 (a_out a) nsub) (Z.of_nat idx0))
                        idx0 (nth idx0 (a_out a) nsub)) idx0 (nth idx0 (a_cds a) nc)
           else a') (upstream_d8_idx (a_cds a) idx0 nrow ncol) a1) /\
        forall k, k <> idx0 -> nth k (a_out (fold_left (fun a' idx =>
           if nth idx valid true then (if idx =? nth idx0 (a_cds a) nc then set_err a' 2 else set_cds a' idx (nth idx0 (a_cds a) nc))
           else if nth idx0 (a_cds a') nc =? idx then
             set_cds (set_out (set_st (set_st a' (nth idx0 (a_out a') nsub) (-1)%Z) (nth idx0 (a_out a) nsub) (Z.of_nat idx0))
                        idx0 (nth idx0 (a_out a) nsub)) idx0 (nth idx0 (a_cds a) nc)
           else a') (upstream_d8_idx (a_cds a) idx0 nrow ncol) a1)) nsub = nth k (a_out a) nsub).
  { apply (fold_left_inv (fun a' => K a' /\ forall k, k <> idx0 -> nth k (a_out a') nsub = nth k (a_out a) nsub));
      [split; assumption|].
    intros a' idx _ [(L' & HI' & HC') F']. 
    destruct (nth idx valid true).
    - destruct (idx =? nth idx0 (a_cds a) nc); (split; [split; [exact L'|split; assumption]|exact F']).
    - destruct (nth idx0 (a_cds a') nc =? idx); [|split; [split; [exact L'|split; assumption]|exact F']].
      cbn [set_cds set_out set_st a_out a_st]. 
      assert (Hfree : forall k, k < nc -> k <> idx0 -> nth k (a_out a') nsub < nsub ->
                        nth k (a_out a') nsub <> nth idx0 (a_out a) nsub).
      { intros k Hk Ek Ho. rewrite (F' k Ek) in Ho |- *. apply (HI k idx0 Hk S1 Ek Ho). }
      destruct (K_move _ _ idx0 _ L' HI' HC' S1 Hfree) as (L'' & HI'' & HC'').
      split; [split; [exact L''|split; assumption]|]. intros k Ek. rewrite nth_upd_neq by exact Ek. apply F'. exact Ek. }
  destruct G as [G _]. exact G.
Qed.

Lemma optimize_rivlen_K valid short a : K a -> K (optimize_rivlen sds upa subncol cs nrow ncol valid short a).
Proof.
  intros H. unfold optimize_rivlen. apply fold_left_inv; [exact H|]. intros a' i _ Ha'. cbv zeta.
  pose proof (opt_one_K valid a' i Ha') as H1.
  destruct (opt_one sds upa subncol cs nrow ncol valid a' i) as [a1 brk]. cbn [fst] in H1.
  destruct brk; [exact H1|]. apply opt_one_K. exact H1.
Qed.

Lemma me_hw_K idxs hw : forall a, K a -> K (me_hw sds upa subncol cs nrow ncol a idxs hw).
Proof.
  induction hw as [|idx t IH]; intros a H; cbn [me_hw]; [exact H|].
  pose proof (new_outlet_K a idx (Some (nth (nth 0 idxs nc) (a_out a) nsub)) H) as H1. cbv zeta in H1.
  destruct (new_outlet sds upa subncol cs ncol a idx (nth idx (a_out a) nsub) (Some (nth (nth 0 idxs nc) (a_out a) nsub)))
    as [a1 fixed1].
  cbn [fst] in H1. destruct H1 as [H1 _]. destruct fixed1; [exact H1|]. apply IH. exact H1.
Qed.

Lemma me_rounds_K idxs idx0 nb n : forall a, K a -> K (me_rounds sds upa subncol cs nrow ncol n a idxs idx0 nb).
Proof.
  induction n as [|n IH]; intros a H; cbn [me_rounds]; [exact H|]. cbv zeta.
  match goal with |- context [if ?c then _ else _] => destruct c end; [|exact H].
  apply IH. apply me_hw_K. exact H.
Qed.

(* no outlet pixel met on the way: the pixel at which the walk ends is the start pixel or is not marked *)
Lemma me_path_unmarked fuel st idx0 : forall cur idxs r, me_path sds ncol fuel st idx0 cur idxs = Some r ->
  fst (fst r) = [] -> idxs = [] /\ (snd (fst r) = cur \/ ~ (0 <= nth (snd (fst r)) st (-9))%Z).
Proof.
  induction fuel as [|f IH]; intros cur idxs r Hr Hnil; cbn [me_path] in Hr; [discriminate|]. cbv zeta in Hr.
  destruct (sd cur =? cur); [inversion Hr; subst r; cbn [fst snd] in *; split; [exact Hnil|left; reflexivity]|].
  destruct (0 <=? nth (sd cur) st (-9))%Z eqn:Em.
  - exfalso.
    match type of Hr with (if ?c then _ else _) = _ => destruct c end.
    + inversion Hr; subst r. cbn [fst] in Hnil. destruct idxs; discriminate.
    + destruct (IH _ _ _ Hr Hnil) as [E _]. destruct idxs; discriminate.
  - destruct (IH _ _ _ Hr Hnil) as [E [E1|E1]]; (split; [exact E|right]); [|exact E1].
    rewrite E1. apply Z.leb_gt in Em. lia.
Qed.

Lemma me_one_K poc a idx0 : K a -> idx0 < nc -> K (me_one sds upa subncol cs nrow ncol poc a idx0).
Proof.
  intros H Hi0. unfold me_one. cbv zeta.
  destruct (me_path sds ncol (S nsub) (a_st a) idx0 (nth idx0 (a_out a) nsub) []) as [[[idxs subidx] subidx_ds]|] eqn:Ep;
    [|exact H].
  match goal with |- context [if ?c then _ else _] => destruct c eqn:Ec end.
  - cbn [set_out set_cds set_st a_cds a_out a_st]. destruct H as (L & HI & HC).
    apply andb_true_iff in Ec. destruct Ec as [Ec Ec2]. apply andb_true_iff in Ec. destruct Ec as [Ec _].
    apply andb_true_iff in Ec. destruct Ec as [_ Ec]. apply Nat.eqb_eq in Ec.
    assert (Hfree : forall k, k < nc -> k <> idx0 -> nth k (a_out a) nsub < nsub -> nth k (a_out a) nsub <> subidx_ds).
    { intros k Hk Ek Ho. apply orb_true_iff in Ec2. destruct Ec2 as [E2|E2].
      - apply Nat.eqb_eq in E2. rewrite E2. apply (HI k idx0 Hk Hi0 Ek Ho).
      - apply Nat.eqb_eq in E2. apply length_zero_iff_nil in E2.
        destruct (me_path_unmarked _ _ _ _ _ _ Ep E2) as [_ [E3|E3]]; cbn [fst snd] in E3.
        + rewrite Ec, E3. apply (HI k idx0 Hk Hi0 Ek Ho).
        + intros E. apply E3. rewrite <- Ec, <- E. apply (HC k Hk Ho). }
    destruct (K_move _ _ idx0 subidx_ds L HI HC Hi0 Hfree) as (L' & HI' & HC'). split; [exact L'|split; assumption].
  - match goal with |- context [if ?c then new_outlet _ _ _ _ _ _ _ _ _ else _] => destruct c end.
    + pose proof (new_outlet_K a idx0 None H) as H1. cbv zeta in H1.
      destruct (new_outlet sds upa subncol cs ncol a idx0 (nth idx0 (a_out a) nsub) None) as [a1 fixed].
      cbn [fst] in H1. destruct H1 as [H1 _]. destruct fixed; [exact H1|]. apply me_rounds_K. exact H1.
    + apply me_rounds_K. exact H.
Qed.

Lemma minimize_error_K fixl poc a : K a -> (forall x, In x fixl -> x < nc) ->
  K (minimize_error sds upa subncol cs nrow ncol fixl poc a).
Proof.
  intros H Hf. unfold minimize_error. cbv zeta. apply fold_left_inv; [exact H|]. intros a' i0 Hi0 Ha'.
  apply in_rev in Hi0. apply argsort_lt in Hi0. rewrite map_length in Hi0.
  apply me_one_K; [exact Ha'|]. apply Hf. apply nth_In. exact Hi0.
Qed.

(* upscale_check marks every outlet pixel *)
Definition Ge (st st' : list Z) : Prop :=
  length st' = length st /\ forall s, (0 <= nth s st (-9))%Z -> (0 <= nth s st' (-9))%Z.
Lemma Ge_refl st : Ge st st.
Proof. split; [reflexivity|intros s H; exact H]. Qed.
Lemma Ge_trans a b c : Ge a b -> Ge b c -> Ge a c.
Proof. intros [L1 G1] [L2 G2]. split; [congruence|intros s H; apply G2, G1, H]. Qed.
Lemma Ge_upd st s z : ((0 <= nth s st (-9))%Z -> (0 <= z)%Z) -> Ge st (upd st s z).
Proof.
  intros Hz. split; [apply upd_length|]. intros s' H. rewrite nth_upd.
  destruct (Nat.eqb_spec s' s) as [->|Hne]; cbn [andb]; [|exact H]. destruct (Nat.ltb s (length st)); [apply Hz; exact H|exact H].
Qed.

Lemma chk_walk_ge fuel : forall st subidx d, Ge st (fst (fst (fst (chk_walk sds fuel st subidx d)))).
Proof.
  induction fuel as [|f IH]; intros st subidx d; cbn [chk_walk]; [apply Ge_refl|]. cbv zeta.
  match goal with |- context [if ?c then _ else _] => destruct c end; [apply Ge_refl|].
  eapply Ge_trans; [|apply IH]. apply Ge_upd. lia.
Qed.

Lemma streams0_cover out : length (streams0 sds nrow ncol out) = nsub /\
  forall k, k < nc -> nth k out nsub < nsub -> (0 <= nth (nth k out nsub) (streams0 sds nrow ncol out) (-9))%Z.
Proof.
  unfold streams0.
  set (F0 := fun (st : list Z) (idx : nat) => let s := nth idx out nsub in if nsub <=? s then st else upd st s (Z.of_nat idx)).
  assert (G : forall l st0, length st0 = nsub ->
    Ge st0 (fold_left F0 l st0) /\
    forall k, In k l -> nth k out nsub < nsub -> (0 <= nth (nth k out nsub) (fold_left F0 l st0) (-9))%Z).
  { induction l as [|h t IH]; intros st0 L0; cbn [fold_left]; [split; [apply Ge_refl|intros k []]|]. change (F0 st0 h) with (if nsub <=? nth h out nsub then st0 else upd st0 (nth h out nsub) (Z.of_nat h)).
    destruct (Nat.leb_spec nsub (nth h out nsub)) as [Hge|Hlt].
    - destruct (IH st0 L0) as [G1 G2]. split; [exact G1|]. intros k [<-|Hk] Ho; [lia|apply G2; assumption].
    - assert (L1 : length (upd st0 (nth h out nsub) (Z.of_nat h)) = nsub) by (rewrite upd_length; exact L0).
      destruct (IH _ L1) as [G1 G2]. split; [apply (Ge_trans _ (upd st0 (nth h out nsub) (Z.of_nat h))); [apply Ge_upd; lia|exact G1]|].
      intros k [<-|Hk] Ho; [|apply G2; assumption].
      destruct G1 as [_ G1]. apply G1. rewrite nth_upd_eq by (rewrite L0; exact Hlt). lia. }
  destruct (G (seq 0 nc) (repeat (-9)%Z nsub) (repeat_length _ _)) as [[L _] G2].
  split; [rewrite L; apply repeat_length|]. intros k Hk Ho. apply G2; [apply in_seq; lia|exact Ho].
Qed.

Lemma upscale_check_cover cds out :
  Ge (streams0 sds nrow ncol out) (c_st (upscale_check sds cs nrow ncol out cds)) /\
  forall x, In x (c_fix (upscale_check sds cs nrow ncol out cds)) -> x < nc.
Proof.
  unfold upscale_check.
  apply (fold_left_inv (fun c => Ge (streams0 sds nrow ncol out) (c_st c) /\ forall x, In x (c_fix c) -> x < nc)).
  - cbn [c_st c_fix]. split; [apply Ge_refl|intros x []].
  - intros c idx0 Hidx [H1 H2]. apply in_seq in Hidx. cbv zeta.
    destruct (nc <=? nth idx0 cds nc); [split; assumption|].
    pose proof (chk_walk_ge (S nsub) (c_st c) (nth idx0 out nsub) 0) as Hw.
    destruct (chk_walk sds (S nsub) (c_st c) (nth idx0 out nsub) 0) as [[[st s1] d] ok]. cbn [fst] in Hw.
    match goal with |- context [if ?c then _ else _] => destruct c end; cbn [c_st c_fix].
    + split; [apply (Ge_trans _ _ _ H1 Hw)|]. intros x Hx. apply in_app_or in Hx. destruct Hx as [Hx|[<-|[]]]; [apply H2; exact Hx|lia].
    + match goal with |- context [if ?c then _ else _] => destruct c end; cbn [c_st c_fix];
        (split; [apply (Ge_trans _ _ _ H1 Hw)|exact H2]).
Qed.

(* ---------- the iterations ---------- *)
Theorem ihu_iter_distinct n : forall j a fixl, InCell (a_out a) ->
  Inj (a_out (ihu_iter sds upa subncol cs nrow ncol n j a fixl)).
Proof.
  induction n as [|n IH]; intros j a fixl H; cbn [ihu_iter]; [apply InCell_Inj; exact H|]. cbv zeta.
  pose proof (relocate_incell fixl a H) as H1.
  set (a1 := relocate sds upa subncol cs nrow ncol fixl a) in *.
  destruct (upscale_check_cover (a_cds a1) (a_out a1)) as [[Lc Gc] Hfix].
  destruct (streams0_cover (a_out a1)) as [L0 C0].
  set (c := upscale_check sds cs nrow ncol (a_out a1) (a_cds a1)) in *.
  match goal with |- context [optimize_rivlen _ _ _ _ _ _ _ _ ?a2] => set (A2 := a2) end.
  assert (K2 : K A2).
  { unfold K. cbn [A2 a_st a_out]. split; [rewrite Lc; exact L0|]. split; [apply InCell_Inj; exact H1|].
    intros k Hk Ho. apply Gc. apply (C0 k Hk Ho). }
  assert (I2 : InCell (a_out A2)) by exact H1.
  pose proof (optimize_rivlen_K (c_valid c) (c_short c) A2 K2) as K3.
  pose proof (optimize_rivlen_incell (c_valid c) (c_short c) A2 I2) as I3.
  set (A3 := optimize_rivlen sds upa subncol cs nrow ncol (c_valid c) (c_short c) A2) in *.
  match goal with |- context [if ?c then _ else ihu_iter _ _ _ _ _ _ _ _ _ _] => destruct c end.
  - destruct (minimize_error_K (c_fix c) 2 A3 K3 Hfix) as (_ & HI & _). exact HI.
  - apply IH. apply minimize_error_incell. exact I3.
Qed.
End IhuDistinct.

(* ---------- the packaged statement on the model's entry point ---------- *)
Section Packaged.
Variables sds sq : list nat.
Variable upa : list Z.
Variables subnrow subncol cs : nat.
Variable ea : list bool.

Hypothesis Hcs : 0 < cs.
Hypothesis HW : 0 < subncol.
Hypothesis Hlen : length sds = subnrow * subncol.
Hypothesis Ht : topo sds sq.                          (* loop-free ... *)
Hypothesis Hc : complete sds sq.                      (* ... and closed fine network *)

(* eam_plus: every outlet pixel lies in its own cell *)
Lemma ihu_outlets_InCell :
  InCell sds subncol cs (ihu_outlets sds subncol cs (cdiv subnrow cs) (cdiv subncol cs)
                           (repcell sds upa subncol cs (cdiv subnrow cs) (cdiv subncol cs) (eaf ea))).
Proof.
  intros i Ho. destruct (Nat.lt_ge_cases i (cdiv subnrow cs * cdiv subncol cs)) as [Hi|Hi].
  - apply (ihu_outlets_cell sds sq upa subncol cs _ _ (eaf ea) i Ht Hc Hi Ho).
  - rewrite nth_overflow in Ho; [lia|]. unfold ihu_outlets. rewrite map_length, seq_length. exact Hi.
Qed.

Theorem ihu_final_distinct : Inj sds subnrow subncol cs (a_out (ihu_final sds upa subnrow subncol cs ea)).
Proof. unfold ihu_final. cbv zeta. apply (ihu_iter_distinct sds upa subnrow subncol cs Hcs HW Hlen). exact ihu_outlets_InCell. Qed.

(* 4. the outlet pixels of two different coarse cells are different (whatever the error flag) *)
Theorem up_ihu_outlets_distinct :
  let '(cds, out, (nrow, ncol)) := up_ihu sds upa subnrow subncol cs ea in
  forall idx idx', idx < nrow * ncol -> idx' < nrow * ncol -> idx <> idx' ->
  nth idx out (length sds) < length sds -> nth idx out (length sds) <> nth idx' out (length sds).
Proof. rewrite up_ihu_eq. exact ihu_final_distinct. Qed.
End Packaged.

Theorem up_ihu_outlets_distinct_checked sds sq upa subnrow subncol cs ea : 0 < cs -> 0 < subncol ->
  length sds = subnrow * subncol -> check_topo sds sq = true -> check_complete sds sq = true ->
  let '(cds, out, (nrow, ncol)) := up_ihu sds upa subnrow subncol cs ea in
  forall idx idx', idx < nrow * ncol -> idx' < nrow * ncol -> idx <> idx' ->
  nth idx out (length sds) < length sds -> nth idx out (length sds) <> nth idx' out (length sds).
Proof.
  intros Hcs HW Hlen H1 H2.
  apply (up_ihu_outlets_distinct sds sq upa subnrow subncol cs ea Hcs HW Hlen (check_topo_sound sds sq H1)
           (check_complete_sound sds sq H2)).
Qed.

(* example: case 1437 of the regression corpus (see IhuD8.v) *)
Example ex_outlets_distinct : forall idx idx', idx < 1 * 3 -> idx' < 1 * 3 -> idx <> idx' ->
  nth idx [1; 5; 13] 14 < 14 -> nth idx [1; 5; 13] 14 <> nth idx' [1; 5; 13] 14.
Proof.
  pose proof (up_ihu_outlets_distinct_checked ex_sds ex_sq ex_upa 2 7 3 ex_ea) as H.
  destruct ex_run as [E _]. rewrite E in H. apply H; try lia; vm_compute; reflexivity.
Qed.

Print Assumptions ihu_iter_distinct.
Print Assumptions up_ihu_outlets_distinct.
Print Assumptions up_ihu_outlets_distinct_checked.
Print Assumptions ex_outlets_distinct.
