(* upscale.dmm_exitcell and upscale.eam_repcell, REGENERATED from the Python source (generated/GenUpscale.v: one pass over the
   pixels that keeps, per coarse cell, the pixel of largest upstream area among the pits and the selected pixels), equal the
   hand model Upscale.repcell that the theorems of C09 are about.  dmm_exitcell selects with the regenerated cell_edge;
   eam_repcell with effective_area (float square roots), an abstract boolean function in the generated text as in the model.
   No hypothesis: any network, any areas, any shapes (only subshape[1] and shape are used).  No axioms. *)
From Coq Require Import List Arith ZArith Bool Lia.
Import ListNotations.
From PF Require Import Arr Net Elev Upscale GenCodecBaseEq GenUpscaleBaseEq.
From PFG Require Import GenUpscale.

Lemma dmm_exitcell_step sds upa (snr : Z) subncol cs nrow ncol st i :
  gen_up_dmm_exitcell_step sds upa (snr, Z.of_nat subncol) (Z.of_nat nrow, Z.of_nat ncol) (Z.of_nat cs) st i
  = rep_step sds upa subncol cs ncol (fun s => cell_edge s subncol cs) st i.
Proof.
  destruct st as [rep ua]. unfold gen_up_dmm_exitcell_step, rep_step, sd, cellof. cbv beta iota zeta.
  destruct (length sds <=? nth i sds (length sds))%nat; [reflexivity|].
  rewrite gen_up_cell_edge_eq, gen_up_subidx_2_idx_eq, Nat2Z.id, Z.gtb_ltb.
  destruct (_ || _); [|reflexivity]. destruct (_ <? _)%Z; reflexivity.
Qed.

Lemma eam_repcell_step sds upa (snr : Z) subncol cs nrow ncol ea st i :
  gen_up_eam_repcell_step sds upa (snr, Z.of_nat subncol) (Z.of_nat nrow, Z.of_nat ncol) (Z.of_nat cs) ea st i
  = rep_step sds upa subncol cs ncol ea st i.
Proof.
  destruct st as [rep ua]. unfold gen_up_eam_repcell_step, rep_step, sd, cellof. cbv beta iota zeta.
  destruct (length sds <=? nth i sds (length sds))%nat; [reflexivity|].
  rewrite gen_up_subidx_2_idx_eq, Nat2Z.id, Z.gtb_ltb.
  destruct (_ || _); [|reflexivity]. destruct (_ <? _)%Z; reflexivity.
Qed.

(* dmm_exitcell(subidxs_ds, subuparea, subshape, shape, cellsize) *)
Theorem gen_up_dmm_exitcell_eq : forall (sds : list nat) (upa : list Z) (subnrow : Z) (subncol cs nrow ncol : nat),
  gen_up_dmm_exitcell sds upa (subnrow, Z.of_nat subncol) (Z.of_nat nrow, Z.of_nat ncol) (Z.of_nat cs)
  = repcell sds upa subncol cs nrow ncol (fun s => cell_edge s subncol cs).
Proof.
  intros. unfold gen_up_dmm_exitcell, repcell. cbv beta iota zeta. rewrite nc_nat.
  rewrite (fold_ext_in _ _ _ (fun st i _ => dmm_exitcell_step sds upa subnrow subncol cs nrow ncol st i)).
  destruct (fold_left _ _ _); reflexivity.
Qed.

(* eam_repcell(subidxs_ds, subuparea, subshape, shape, cellsize, r_ratio) *)
Theorem gen_up_eam_repcell_eq : forall (sds : list nat) (upa : list Z) (subnrow : Z) (subncol cs nrow ncol : nat) (ea : nat -> bool),
  gen_up_eam_repcell sds upa (subnrow, Z.of_nat subncol) (Z.of_nat nrow, Z.of_nat ncol) (Z.of_nat cs) ea
  = repcell sds upa subncol cs nrow ncol ea.
Proof.
  intros. unfold gen_up_eam_repcell, repcell. cbv beta iota zeta. rewrite nc_nat.
  rewrite (fold_ext_in _ _ _ (fun st i _ => eam_repcell_step sds upa subnrow subncol cs nrow ncol ea st i)).
  destruct (fold_left _ _ _); reflexivity.
Qed.

(* non-vacuity: a 2 x 4 fine raster, cell size 2: pixel 1 (area 5) represents the left cell, the pit 3 the right one *)
Example gen_up_dmm_exitcell_ex :
  gen_up_dmm_exitcell [1; 2; 3; 3; 0; 1; 2; 3]%nat [1; 5; 7; 9; 1; 1; 1; 1]%Z (2, 4)%Z (1, 2)%Z 2%Z = [1; 3]%nat.
Proof. vm_compute. reflexivity. Qed.

Print Assumptions gen_up_dmm_exitcell_eq.
Print Assumptions gen_up_eam_repcell_eq.
