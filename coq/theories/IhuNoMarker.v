(* C09 / ihu: THE ERROR FLAG OF THE ITERATIVE METHOD IS NEVER SET on a loop-free closed fine D8 network:
   no fuelled walk of the stages runs out of fuel (IhuFuel.v) and the modelled `assert idx != idx1` of
   ihu_optimize_rivlen holds (IhuRank.v, IhuAssertInit.v, IhuAssert.v).  Hence up_ihu returns no error value, and the
   hypothesis `no_marker` of IhuValid.up_ihu_valid_iff_outlet / up_ihu_outlet_cell_valid can be dropped. *)
From Coq Require Import List Arith ZArith Bool Lia.
Import ListNotations.
From PF Require Import Arr Net Elev Upscale UpscaleSpec UpscaleD8 UpscaleNoErr D8Idx Ihu IhuD8 IhuValid IhuDistinct
  IhuRank IhuAssert IhuAssertInit IhuFuel.

Section NoMarker.
Variables sds sq : list nat.
Variable upa : list Z.
Variables subnrow subncol cs : nat.
Variable ea : list bool.
Notation nsub := (length sds).
Notation nrow := (cdiv subnrow cs).
Notation ncol := (cdiv subncol cs).
Notation nc := (nrow * ncol).

Hypothesis Hcs : 0 < cs.
Hypothesis HW : 0 < subncol.
Hypothesis Hlen : length sds = subnrow * subncol.
Hypothesis Ht : topo sds sq.                          (* loop-free ... *)
Hypothesis Hc : complete sds sq.                      (* ... and closed fine network *)

Let Hwf := topo_complete_closed sds sq Ht Hc.
Let Hncol : 0 < ncol := ncol_pos sds subnrow subncol cs Hcs HW Hlen.

(* every iteration keeps the flag at 0 *)
Theorem ihu_iter_noerr n : forall j a fixl,
  G0 sds subnrow subncol cs (a_cds a) (a_out a) -> InCell sds subncol cs (a_out a) -> Inv nrow ncol (a_cds a) ->
  (forall x, In x fixl -> Val subnrow subncol cs (a_cds a) x) -> a_err a = 0 ->
  a_err (ihu_iter sds upa subncol cs nrow ncol n j a fixl) = 0.
Proof.
  induction n as [|n IH]; intros j a fixl G HI HV Hf E0; cbn [ihu_iter]; [exact E0|]. cbv zeta.
  destruct (relocate_ok sds upa subnrow subncol cs Hcs HW Hlen Hwf fixl a G Hf) as [G1' M1].
  pose proof (relocate_err sds upa subnrow subncol cs Hcs HW Hlen sq Ht Hc fixl a G Hf) as E1.
  pose proof (relocate_incell sds upa subnrow subncol cs Hcs HW Hlen fixl a HI) as I1.
  pose proof (relocate_inv sds upa subncol cs nrow ncol fixl a HV) as V1.
  set (a1 := relocate sds upa subncol cs nrow ncol fixl a) in *.
  destruct (upscale_check_ok sds subnrow subncol cs Hcs HW Hlen (a_cds a1) (a_out a1) G1') as (Cs & Cf & Csh).
  pose proof (upscale_check_rank_incell sds subnrow subncol cs sq (a_out a1) (a_cds a1) Ht Hc G1' I1) as R1.
  rewrite (upscale_check_fuel sds subnrow subncol cs Hcs HW Hlen sq Ht Hc _ _ G1').
  set (c := upscale_check sds cs nrow ncol (a_out a1) (a_cds a1)) in *.
  match goal with |- context [optimize_rivlen _ _ _ _ _ _ _ _ ?a2] => set (A2 := a2) end.
  assert (H2 : G1 sds subnrow subncol cs A2) by (split; cbn [A2 a_cds a_out a_st]; assumption).
  assert (E2a : a_err A2 = 0) by (cbn [A2 a_err]; rewrite E1; exact E0).
  pose proof (optimize_rivlen_ok sds upa subnrow subncol cs Hcs HW Hlen Hwf (c_valid c) (c_short c) A2 H2 Csh) as H3.
  pose proof (optimize_rivlen_err sds upa subnrow subncol cs Hcs HW Hlen sq Ht Hc (c_valid c) (c_short c) A2) as E3.
  destruct (optimize_rivlen_rank sds upa subncol cs nrow ncol Hncol (c_valid c) (c_short c) A2 V1
              (g_lc _ _ _ _ _ _ G1') R1) as (V3 & _ & _ & E3').
  pose proof (optimize_rivlen_incell sds upa subnrow subncol cs Hcs HW Hlen (c_valid c) (c_short c) A2 I1) as I3.
  cbv zeta in V3, E3'.
  set (A3 := optimize_rivlen sds upa subncol cs nrow ncol (c_valid c) (c_short c) A2) in *.
  assert (E3z : a_err A3 = 0).
  { destruct E3 as [E3|E3]; [rewrite E3; exact E2a|]. destruct E3' as [E3'|[_ E3']]; [rewrite E3'; exact E2a|]. congruence. }
  assert (Hf3 : forall x, In x (c_fix c) -> Val subnrow subncol cs (a_cds A3) x).
  { intros x Hx. destruct H3 as [_ M3]. apply M3. apply Cf. exact Hx. }
  assert (G3 : G1 sds subnrow subncol cs A3) by (destruct H3 as [H3 _]; exact H3).
  assert (E4 : forall p, a_err (minimize_error sds upa subncol cs nrow ncol (c_fix c) p A3) = 0).
  { intros p. rewrite (minimize_error_err sds upa subnrow subncol cs Hcs HW Hlen sq Ht Hc (c_fix c) p A3 G3 Hf3). exact E3z. }
  match goal with |- context [if ?c then _ else ihu_iter _ _ _ _ _ _ _ _ _ _] => destruct c end; [apply E4|].
  destruct (minimize_error_ok sds upa subnrow subncol cs Hcs HW Hlen Hwf (c_fix c) 0 A3 G3 Hf3) as [[G4 _] M4].
  apply IH; [exact G4| | | |apply E4].
  - apply (minimize_error_incell sds upa subnrow subncol cs Hcs HW Hlen). exact I3.
  - apply minimize_error_inv. exact V3.
  - intros x Hx. apply M4. apply Hf3. exact Hx.
Qed.

Hypothesis Hd8 : forall t, t < nsub -> Upscale.sd sds t < nsub -> in_d8 t (Upscale.sd sds t) subncol = true.
Hypothesis Hck : check_cross sds ea subncol cs = true.
Hypothesis Hupa : forall t, t < nsub -> Upscale.sd sds t < nsub -> (0 < nth t upa 0)%Z.

Theorem ihu_final_noerr : a_err (ihu_final sds upa subnrow subncol cs ea) = 0.
Proof.
  unfold ihu_final. cbv zeta. apply ihu_iter_noerr; cbn [a_cds a_out a_err].
  - apply (G0_init sds upa subnrow subncol cs Hcs HW Hlen Hwf sq ea Ht Hc Hd8 Hck Hupa).
  - apply (ihu_outlets_InCell sds sq upa subnrow subncol cs ea); assumption.
  - apply (eam_plus_Inv sds sq upa subnrow subncol cs ea Hcs HW Hlen Ht Hc Hd8 Hck).
  - apply (fix_init sds upa subnrow subncol cs Hcs HW Hlen sq ea Ht Hc Hd8 Hck).
  - reflexivity.
Qed.

(* TARGET 1: the result of up_ihu is the pair of arrays of the final state; it holds no error value *)
Theorem up_ihu_noerr : up_ihu sds upa subnrow subncol cs ea =
  (a_cds (ihu_final sds upa subnrow subncol cs ea), a_out (ihu_final sds upa subnrow subncol cs ea), (nrow, ncol)).
Proof. rewrite up_ihu_eq, ihu_final_noerr. reflexivity. Qed.

Theorem up_ihu_no_marker :
  let '(cds, out, (nrow, ncol)) := up_ihu sds upa subnrow subncol cs ea in no_marker cds (nrow * ncol).
Proof.
  rewrite up_ihu_noerr. intros x Hx.
  pose proof (ihu_final_invariant sds sq upa subnrow subncol cs ea Hcs HW Hlen Ht Hc Hd8 Hck Hupa) as G.
  apply In_nth with (d := nc) in Hx. destruct Hx as [i [_ <-]].
  apply (G0_cds_le sds subnrow subncol cs Hcs HW Hlen _ _ i G).
Qed.

(* the structural theorems of IhuValid.v without their hypothesis `no_marker` *)
Theorem up_ihu_valid_iff_outlet_total :
  let '(cds, out, (nrow, ncol)) := up_ihu sds upa subnrow subncol cs ea in
  length cds = nrow * ncol /\ length out = nrow * ncol /\
  forall idx0, idx0 < nrow * ncol ->
    (nth idx0 cds (nrow * ncol) = nrow * ncol <-> nth idx0 out (length sds) = length sds) /\
    (nth idx0 cds (nrow * ncol) < nrow * ncol <-> nth idx0 out (length sds) < length sds).
Proof.
  pose proof (up_ihu_valid_iff_outlet sds sq upa subnrow subncol cs ea Hcs HW Hlen Ht Hc Hd8 Hck Hupa) as H.
  pose proof up_ihu_no_marker as Hn.
  destruct (up_ihu sds upa subnrow subncol cs ea) as [[cds out] [nr ncl]]. apply H. exact Hn.
Qed.

Theorem up_ihu_outlet_cell_valid_total :
  let '(cds, out, (nrow, ncol)) := up_ihu sds upa subnrow subncol cs ea in
  forall idx0, idx0 < nrow * ncol -> nth idx0 out (length sds) < length sds ->
    Upscale.sd sds (nth idx0 out (length sds)) < length sds /\
    sub2idx (nth idx0 out (length sds)) subncol cs ncol < nrow * ncol /\
    nth (sub2idx (nth idx0 out (length sds)) subncol cs ncol) cds (nrow * ncol) < nrow * ncol /\
    nth (sub2idx (nth idx0 out (length sds)) subncol cs ncol) out (length sds) < length sds.
Proof.
  pose proof (up_ihu_outlet_cell_valid sds sq upa subnrow subncol cs ea Hcs HW Hlen Ht Hc Hd8 Hck Hupa) as H.
  pose proof up_ihu_no_marker as Hn.
  destruct (up_ihu sds upa subnrow subncol cs ea) as [[cds out] [nr ncl]]. apply H. exact Hn.
Qed.
End NoMarker.

(* every hypothesis as a boolean check on the inputs *)
Theorem up_ihu_no_marker_checked sds sq upa subnrow subncol cs ea : 0 < cs -> 0 < subncol ->
  length sds = subnrow * subncol ->
  check_topo sds sq = true -> check_complete sds sq = true -> check_d8 sds subncol = true ->
  check_cross sds ea subncol cs = true -> check_upa sds upa = true ->
  let '(cds, out, (nrow, ncol)) := up_ihu sds upa subnrow subncol cs ea in no_marker cds (nrow * ncol).
Proof.
  intros Hcs HW Hlen H1 H2 H3 H4 H5.
  apply (up_ihu_no_marker sds sq upa subnrow subncol cs ea Hcs HW Hlen (check_topo_sound sds sq H1)
           (check_complete_sound sds sq H2) (check_d8_sound sds subncol H3) H4 (check_upa_sound sds upa H5)).
Qed.

(* example: case 1437 of the regression corpus (IhuD8.v): 2 x 7 pixels, cell size 3 *)
Example ex_no_marker : no_marker [0; 1; 1] (1 * 3).
Proof.
  pose proof (up_ihu_no_marker_checked ex_sds ex_sq ex_upa 2 7 3 ex_ea) as H.
  destruct ex_run as [E _]. rewrite E in H.
  apply H; try lia; vm_compute; reflexivity.
Qed.

Print Assumptions ihu_iter_noerr.
Print Assumptions ihu_final_noerr.
Print Assumptions up_ihu_noerr.
Print Assumptions up_ihu_no_marker.
Print Assumptions up_ihu_valid_iff_outlet_total.
Print Assumptions up_ihu_outlet_cell_valid_total.
Print Assumptions up_ihu_no_marker_checked.
Print Assumptions ex_no_marker.
