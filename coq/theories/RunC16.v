From Coq Require Import List ZArith Bool.
Import ListNotations.
From PF Require Import Dtype Glue.
From PFG Require Import GenDtype.
Local Open Scope Z_scope.
Definition run_c16 (k : Z) (args : list (list Z)) : list (list Z) :=
  if k =? 1600 then [[0]]
  else if k =? 1601 then [[select_dtype (argz 0 args)]]
  else [[-999]].
