(* core.flwdir_tuples, REGENERATED from the Python source (generated/GenLoops.v: gen_flwdir_tuples, one pass over the
   cell numbers that appends the couple [cell, downstream cell] unless the cell has the missing value or is masked
   out), equals the model Vect.flwdir_tuples (a flat_map over the cell numbers) that the theorems of C19 are about.
   No hypothesis on the network or on the mask. *)
From Coq Require Import List Arith ZArith Bool Lia.
Import ListNotations.
From PF Require Import Arr Net Stream Vect GenPitIndicesEq.
From PFG Require Import GenLoops.

Theorem gen_flwdir_tuples_eq : forall ds mask, gen_flwdir_tuples ds mask = flwdir_tuples ds mask.
Proof.
  intros ds mask. unfold gen_flwdir_tuples, flwdir_tuples. cbv zeta.
  rewrite (fold_ext_all _ (fun a i => a ++ (if (nth i ds (length ds) <? length ds)%nat && mget mask i
                                            then [[i; nth i ds (length ds)]] else []))).
  - rewrite fold_app_flat_map. reflexivity.
  - intros a i. unfold gen_flwdir_tuples_step. rewrite Nat.ltb_antisym.
    destruct (length ds <=? nth i ds (length ds))%nat; cbn [negb orb andb]; [rewrite app_nil_r; reflexivity|].
    destruct (mget mask i); cbn [negb]; [reflexivity|rewrite app_nil_r; reflexivity].
Qed.

Print Assumptions gen_flwdir_tuples_eq.
