(* C08: a cell of Strahler order k has at least 2^(k-1) cells in its catchment; hence the order of a network with
   fewer than 2^255 cells always fits the uint8 result of streams.strahler_order.  (The classic order has no such
   bound: it can reach the nesting depth of the network, see known finding F13.) *)
From Coq Require Import List Arith ZArith Lia Bool.
Import ListNotations.
From PF Require Import Arr Net SweepDown SweepUp Rank Stream StreamSpec Accu AccuSpec.
Local Open Scope Z_scope.

(* ---------- the cell count of a catchment satisfies its recursion ---------- *)
Lemma plain_is_ustep ds a i :
  plain_step ds a i = ustep ds 0 (fun _ x => x) (fun _ acc v => acc + v) a i.
Proof.
  unfold plain_step, ustep. rewrite upd_same. reflexivity.
Qed.

Section Count.
Variable ds : list nat.
Variable P : list nat.
Hypothesis HU : utopo ds P.
Notation n := (size ds).
Definition W (j : nat) : Z := nth j (fold_left (plain_step ds) P (repeat 1 n)) 0.

Lemma nth_repeat1 j k : (j < k)%nat -> nth j (repeat 1 k) 0 = 1.
Proof. revert j; induction k as [|k IH]; intros [|j] H; simpl; auto; try lia. apply IH. lia. Qed.

Lemma fold_add_zsum (f : nat -> Z) l a : fold_left (fun acc c => acc + f c) l a = a + zsum (map f l).
Proof. revert a; induction l as [|x l IH]; intros a; simpl; [lia|]. rewrite IH. lia. Qed.

Lemma W_rec j : (j < n)%nat -> In j P -> W j = 1 + zsum (map W (kids ds P j)).
Proof.
  intros Hj Hin. unfold W.
  rewrite (fold_ext _ (ustep ds 0 (fun _ x => x) (fun _ acc v => acc + v))) by (intros; apply plain_is_ustep).
  change (fold_left (ustep ds 0 (fun _ x => x) (fun _ acc v => acc + v)) P (repeat 1 n))
    with (sweep_up ds 0 (fun _ x => x) (fun _ acc v => acc + v) P (repeat 1 n)).
  rewrite (sweep_up_char ds 0 (fun _ x => x) (fun _ acc v => acc + v) P HU (repeat 1 n) (repeat_length _ _) j Hj) at 1.
  unfold fz. destruct (in_dec Nat.eq_dec j P); [|contradiction].
  rewrite fold_add_zsum, nth_repeat1 by auto. reflexivity.
Qed.

Lemma W_pos j : (j < n)%nat -> 1 <= W j.
Proof.
  intros Hj. destruct (plain_accu_spec ds P (repeat 1 n) HU (repeat_length _ _) j) as (L & _ & HL & Hs).
  unfold W. rewrite Hs, nth_repeat1 by auto.
  assert (0 <= zsum (map (fun x => nth x (repeat 1 n) 0) L)).
  { clear. induction L as [|x L IH]; simpl; [lia|].
    assert (0 <= nth x (repeat 1 n) 0).
    { destruct (Nat.lt_ge_cases x n); [rewrite nth_repeat1; auto; lia|rewrite nth_overflow; [lia|rewrite repeat_length; auto]]. }
    lia. }
  lia.
Qed.

(* the count is at most the number of ordered cells *)
Lemma W_le j : (j < n)%nat -> W j <= 1 + Z.of_nat (length P).
Proof.
  intros Hj. destruct (plain_accu_spec ds P (repeat 1 n) HU (repeat_length _ _) j) as (L & Hnd & HL & Hs).
  unfold W. rewrite Hs, nth_repeat1 by auto.
  assert (Hsum : zsum (map (fun x => nth x (repeat 1 n) 0) L) <= Z.of_nat (length L)).
  { clear. induction L as [|x L IH]; simpl; [lia|].
    assert (nth x (repeat 1 n) 0 <= 1).
    { destruct (Nat.lt_ge_cases x n); [rewrite nth_repeat1; auto; lia|rewrite nth_overflow; [lia|rewrite repeat_length; auto]]. }
    lia. }
  assert (Hlen : (length L <= length P)%nat).
  { apply NoDup_incl_length; auto. intros x Hx. apply HL in Hx. tauto. }
  lia.
Qed.
End Count.

(* ---------- Strahler's rule against weights ---------- *)
Lemma smax_In os : os <> [] -> (forall o, In o os -> 1 <= o) -> In (smax os) os.
Proof.
  induction os as [|o os IH]; intros Hne Hpos; [congruence|]. simpl.
  destruct os as [|o2 os'].
  - simpl. left. specialize (Hpos o (or_introl eq_refl)). lia.
  - assert (Hin : In (smax (o2 :: os')) (o2 :: os')) by (apply IH; [discriminate|intros; apply Hpos; right; auto]).
    destruct (Z.max_spec o (smax (o2 :: os'))) as [[_ ->]|[_ ->]]; [right; exact Hin|left; reflexivity].
Qed.

Lemma cnt_In x l : In x l -> (1 <= cnt x l)%nat.
Proof. unfold cnt. induction l as [|o l IH]; intros H; [destruct H|]. simpl. destruct H as [->|H].
  - rewrite Z.eqb_refl. simpl. lia.
  - specialize (IH H). destruct (x =? o); simpl; lia. Qed.

Lemma combine_bound (pairs : list (Z * Z)) :
  (forall p, In p pairs -> 1 <= fst p /\ 2 ^ (fst p - 1) <= snd p) ->
  2 ^ (strahler_combine (map fst pairs) - 1) <= 1 + zsum (map snd pairs).
Proof.
  intros H.
  assert (Hnn : forall l : list (Z * Z), (forall p, In p l -> 0 <= snd p) -> 0 <= zsum (map snd l)).
  { induction l as [|p l IH]; simpl; intros Hp; [lia|]. specialize (Hp p (or_introl eq_refl)) as H0.
    assert (0 <= zsum (map snd l)) by (apply IH; intros; apply Hp; right; auto). lia. }
  assert (Hw : forall p, In p pairs -> 0 <= snd p).
  { intros p Hp. destruct (H p Hp) as [H1 H2]. assert (0 < 2 ^ (fst p - 1)) by (apply Z.pow_pos_nonneg; lia). lia. }
  unfold strahler_combine. destruct pairs as [|p0 rest] eqn:Ep; [simpl; lia|]. rewrite <- Ep in *.
  cbn [map]. set (os := map fst pairs).
  assert (Hos : os <> []) by (unfold os; rewrite Ep; discriminate).
  replace (match os with [] => 1 | _ :: _ => if (2 <=? cnt (smax os) os)%nat then smax os + 1 else smax os end)
    with (if (2 <=? cnt (smax os) os)%nat then smax os + 1 else smax os) by (destruct os; [congruence|reflexivity]).
  set (M := smax os).
  assert (HM : In M os) by (apply smax_In; auto; intros o Ho; unfold os in Ho; apply in_map_iff in Ho; destruct Ho as [p [<- Hp]]; apply H; auto).
  assert (HM1 : 1 <= M).
  { unfold os in HM. apply in_map_iff in HM. destruct HM as [p [<- Hp]]. apply H; auto. }
  (* weights of the entries of order M *)
  assert (G : forall l : list (Z * Z), (forall p, In p l -> 0 <= snd p) -> (forall p, In p l -> 1 <= fst p /\ 2 ^ (fst p - 1) <= snd p) ->
            Z.of_nat (cnt M (map fst l)) * 2 ^ (M - 1) <= zsum (map snd l)).
  { induction l as [|p l IH]; intros Hp1 Hp2; [simpl; lia|].
    assert (IH' : Z.of_nat (cnt M (map fst l)) * 2 ^ (M - 1) <= zsum (map snd l)) by (apply IH; intros; [apply Hp1|apply Hp2]; right; auto).
    unfold cnt in *. simpl. destruct (Z.eqb_spec M (fst p)) as [E|E]; simpl length.
    - destruct (Hp2 p (or_introl eq_refl)) as [_ Hb]. rewrite <- E in Hb. lia.
    - specialize (Hp1 p (or_introl eq_refl)). lia. }
  specialize (G pairs Hw H). fold os in G.
  destruct (Nat.leb_spec 2 (cnt M os)) as [H2|H2].
  - replace (M + 1 - 1) with (Z.succ (M - 1)) by lia. rewrite Z.pow_succ_r by lia.
    assert (2 * 2 ^ (M - 1) <= Z.of_nat (cnt M os) * 2 ^ (M - 1)).
    { apply Z.mul_le_mono_nonneg_r; [apply Z.pow_nonneg; lia|lia]. }
    lia.
  - assert (1 <= cnt M os)%nat by (apply cnt_In; exact HM).
    assert (1 * 2 ^ (M - 1) <= Z.of_nat (cnt M os) * 2 ^ (M - 1)).
    { apply Z.mul_le_mono_nonneg_r; [apply Z.pow_nonneg; lia|lia]. }
    lia.
Qed.

(* ---------- the bound ---------- *)
Section Bound.
Variable ds : list nat.
Variable sq : list nat.
Variable mask : option (list bool).
Hypothesis Ht : topo ds sq.
Hypothesis Hclosed : forall i, valid ds i -> mget mask i = true -> mget mask (dsf ds i) = true.
Notation so := (so_of (strahler_pairs ds sq mask)).
Notation P := (rev sq).
Notation Wc := (W ds (rev sq)).

Lemma HUP : utopo ds (rev sq).
Proof. apply topo_utopo; auto. Qed.

Theorem strahler_pow2 j : In j sq -> mget mask j = true -> 2 ^ (so j - 1) <= Wc j.
Proof.
  (* induction over the processing order: the inflowing cells of a cell come before it *)
  assert (G : forall l1 l2, rev sq = l1 ++ l2 -> forall jj, In jj l1 -> mget mask jj = true -> 2 ^ (so jj - 1) <= Wc jj).
  { induction l1 as [|x l1 IH] using rev_ind; intros l2 Hsplit jj Hj Hm; [destruct Hj|].
    apply in_app_or in Hj. destruct Hj as [Hj|[<-|[]]].
    - apply (IH (x :: l2)); auto. rewrite Hsplit, <- app_assoc. reflexivity.
    - rename x into j0. rewrite <- app_assoc in Hsplit. simpl in Hsplit.
      assert (HinP : In j0 (rev sq)) by (rewrite Hsplit; apply in_or_app; right; left; auto).
      assert (Hinsq : In j0 sq) by (apply in_rev; auto).
      assert (Hjn : (j0 < size ds)%nat) by (destruct (topo_valid ds sq j0 Ht Hinsq); auto).
      rewrite (strahler_spec ds sq mask Ht Hclosed j0 Hjn).
      destruct (in_dec Nat.eq_dec j0 sq); [|contradiction]. rewrite Hm.
      rewrite (W_rec ds (rev sq) HUP j0 Hjn HinP).
      (* the masked inflowing cells lie in l1 *)
      assert (Hsuffix : utopo ds (j0 :: l2)).
      { pose proof HUP as HU. rewrite Hsplit in HU. clear -HU. induction l1 as [|a l1 IHl]; simpl in HU; auto. inversion HU; auto. }
      assert (Hkids : forall c, In c (kids ds (rev sq) j0) -> In c l1).
      { intros c Hc. apply (kids_mem ds (rev sq) j0 c) in Hc. destruct Hc as (Hc & Hdc & Hne). rewrite Hsplit in Hc.
        apply in_app_or in Hc. destruct Hc as [Hc|[Hc|Hc]]; auto; [congruence|].
        exfalso. apply (utopo_head_nokid ds j0 l2 Hsuffix c Hc). exact Hdc. }
      set (K := filter (mget mask) (kids ds (rev sq) j0)).
      assert (Hpairs : forall p, In p (map (fun c => (so c, Wc c)) K) -> 1 <= fst p /\ 2 ^ (fst p - 1) <= snd p).
      { intros p Hp. apply in_map_iff in Hp. destruct Hp as [c [<- Hc]]. unfold K in Hc. apply filter_In in Hc. destruct Hc as [Hc Hmc].
        simpl. split.
        - apply (masked_in_P_pos ds sq mask Ht); auto. apply (kids_mem ds (rev sq) j0 c) in Hc. tauto.
        - apply (IH (j0 :: l2)); auto. }
      pose proof (combine_bound _ Hpairs) as Hcb0. rewrite !map_map in Hcb0.
      assert (Hcb : 2 ^ (strahler_combine (map so K) - 1) <= 1 + zsum (map Wc K)) by exact Hcb0.
      assert (Hle : zsum (map Wc K) <= zsum (map Wc (kids ds (rev sq) j0))).
      { unfold K. clear -Ht. induction (kids ds (rev sq) j0) as [|c l IHl]; simpl; [lia|].
        assert (0 <= Wc c).
        { unfold W. destruct (Nat.lt_ge_cases c (size ds)) as [Hc|Hc].
          - pose proof (W_pos ds (rev sq) HUP c Hc). unfold W in H. lia.
          - rewrite nth_overflow; [lia|]. clear -Hc.
            assert (L : forall P a, length (fold_left (plain_step ds) P a) = length a).
            { induction P as [|x P IHP]; intros a; simpl; auto. rewrite IHP. unfold plain_step. destruct (dsf ds x =? x)%nat; rewrite ?upd_length; auto. }
            rewrite L, repeat_length. exact Hc. }
        destruct (mget mask c); simpl; lia. }
      lia. }
  intros Hj Hm. apply (G (rev sq) []); auto; [rewrite app_nil_r; reflexivity|apply in_rev in Hj; auto].
Qed.

(* a Strahler order of k needs 2^(k-1) cells: the uint8 result cannot overflow below 2^255 cells *)
Theorem strahler_fits j : In j sq -> mget mask j = true -> 2 ^ (so j - 1) <= 1 + Z.of_nat (length sq).
Proof.
  intros Hj Hm. pose proof (strahler_pow2 j Hj Hm) as H.
  assert (Hjn : (j < size ds)%nat) by (destruct (topo_valid ds sq j Ht Hj); auto).
  pose proof (W_le ds (rev sq) HUP j Hjn) as H2. rewrite rev_length in H2. lia.
Qed.
End Bound.
