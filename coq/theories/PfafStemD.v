(* Pfafstetter main stem, part D: the digit relation is an invariant of the fold over the tributaries and of the
   work loop. *)
From Coq Require Import List Arith ZArith Bool Lia.
Import ListNotations.
From PF Require Import Arr Net SweepDown Fill FillSpec Rank Stream Subbas PfafDigits.
From PF Require Import PfafClosureA PfafClosureB PfafClosureC PfafClosureD PfafClosureE.
From PF Require Import PfafStemA PfafStemB PfafStemC.
Local Open Scope Z_scope.

Section Loop.
Variable ds : list nat.
Variable main : list nat.
Variable strord : list Z.
Let n := length ds.
Variable rk : nat -> nat.
Notation mn x := (nth x main n).
Notation dsf := (dsf ds).
Hypothesis Hrk : forall c, (c < n)%nat -> (dsf c < n)%nat -> dsf c <> c -> (rk (dsf c) < rk c)%nat.
Hypothesis Hrkn : forall c, (c < n)%nat -> (dsf c < n)%nat -> (rk c < n)%nat.
Hypothesis HM : forall x, (mn x < n)%nat -> dsf (mn x) = x /\ mn x <> x.
Variable uparea : list Z.
Notation ua c := (nth c uparea 0).
Hypothesis Hua : forall c, (c < n)%nat -> (dsf c < n)%nat -> dsf c <> c -> ua c < ua (dsf c).
Variable trib : list nat.
Hypothesis HT : forall t, In t trib ->
  (t < n)%nat /\ (dsf t < n)%nat /\ dsf t <> t /\ mn (dsf t) <> t /\ (mn (dsf t) < n)%nat.
Hypothesis HTnd : NoDup trib.
Variable depth : Z.
Hypothesis Hdepth : 1 <= depth.

(* every outlet that is not a pit is related to its downstream cell *)
Definition OINV (b : list Z) (idxs : list nat) : Prop :=
  forall o, In o idxs -> dsf o <> o -> exists q, 0 <= q < depth /\
    Rel (mn (dsf o) =? o)%nat q (lab b (dsf o)) (lab b o).

Section Fold.
Variables (b0 : list Z) (idxs0 : list nat) (pfaf0 d0 : Z).
Hypothesis HI0 : INV ds main b0 idxs0.
Hypothesis Hp0 : 0 < pfaf0.
Hypothesis Hd0 : 1 <= d0 <= depth.
Hypothesis Hdig : digit (depth - d0) pfaf0 = 1.
Let q := pow10 (depth - d0).

Notation SINV' := (SINV ds main uparea trib b0 idxs0 pfaf0).
Notation FU' := (FU depth pfaf0 d0 q).
Notation GINV' := (GINV ds main depth b0 pfaf0 d0).

Lemma fold_trib_pair : forall rem (i : nat) b idxs labs X,
  SINV' rem b idxs X -> FU' (2 * Z.of_nat i) (2 * Z.of_nat i) b labs ->
  pfaf0 <= X <= pfaf0 + 2 * Z.of_nat i * q ->
  sortedd (fun t => ua (dsf t)) rem -> NoDup rem -> (i + length rem <= 4)%nat ->
  GINV' b idxs X ->
  let r := fold_left (pfaf_trib ds main strord depth d0 pfaf0) (combine (seq i (length rem)) rem) (b, idxs, labs, X) in
  OINV (fst (fst (fst r))) (snd (fst (fst r))).
Proof.
  pose proof (q_pos ds depth d0 Hd0) as Hq. fold q in Hq.
  pose proof (W_child ds depth d0) as HWc. fold q in HWc.
  induction rem as [|t0 rest IH]; intros i b idxs labs X HS HF HX Hso Hnd Hlen HG.
  - cbn [length seq combine fold_left fst snd]. intros o Ho Hnp.
    destruct (g2 _ _ _ _ _ _ _ _ _ HG o Ho Hnp) as (p & Hp & HR & _). exists p. split; assumption.
  - cbn [length seq combine fold_left].
    pose proof (pfaf_trib_core ds main strord depth d0 pfaf0 b idxs labs X i t0) as EQ. cbv zeta in EQ. rewrite EQ. clear EQ.
    fold q.
    set (iz := Z.of_nat i) in *.
    assert (Hiz : 0 <= iz <= 3) by (cbn [length] in Hlen; unfold iz; lia).
    set (psub := pfaf0 + (iz * 2 + 1) * q).
    set (pint := pfaf0 + (iz + 1) * 2 * q).
    destruct Hso as [Hso1 Hso2]. inversion Hnd as [|x l Hni Hnd']; subst x l.
    assert (Hf1 : forall c, lab b c <> psub).
    { intros c E. destruct (fu4 _ _ _ _ _ _ _ _ HF c ltac:(rewrite E; unfold psub; nia)) as (j & J1 & J2).
      rewrite E in J2. unfold psub in J2. nia. }
    assert (Hf2 : forall c, lab b c <> pint).
    { intros c E. destruct (fu4 _ _ _ _ _ _ _ _ HF c ltac:(rewrite E; unfold pint; nia)) as (j & J1 & J2).
      rewrite E in J2. unfold pint in J2. nia. }
    pose proof (trib_core_struct ds main strord rk Hrk Hrkn HM uparea Hua trib HT b0 idxs0 pfaf0 HI0 ltac:(lia)
                  psub pint t0 rest b idxs X HS Hso1 Hni ltac:(unfold psub; nia) ltac:(unfold pint; nia)
                  ltac:(unfold pint; nia) ltac:(unfold psub, pint; nia) Hf1 Hf2) as HS'.
    pose proof (trib_core_pair ds main strord rk Hrk Hrkn HM uparea trib HT depth b0 idxs0 pfaf0 d0 HI0 Hp0 Hd0 Hdig
                  iz t0 rest b idxs X HS Hso1 Hni Hiz ltac:(fold q; lia) Hf1 Hf2 HG) as HG'.
    pose proof (trib_core_vals ds main strord psub pint b idxs X t0) as HV.
    cbv zeta in HS', HV, HG'. fold q in HG'. fold psub pint in HG'.
    destruct (trib_core ds main strord psub pint b idxs X t0) as [[[b' idxs'] X'] cr]. cbn [fst snd] in HS', HV, HG'.
    destruct HV as (V1 & V2 & V3).
    apply (IH (S i)); [exact HS'| | |exact Hso2|exact Hnd'|cbn [length] in Hlen; lia|exact HG'].
    + replace (2 * Z.of_nat (S i)) with (2 * iz + 2) by (unfold iz; lia).
      assert (HF1 : FU' (2 * iz) (2 * iz + 2) b' labs).
      { apply (fu_vals depth pfaf0 d0 q Hq HWc (2 * iz) (2 * iz) (2 * iz + 2) b b' labs ltac:(lia) ltac:(lia) HF).
        intros c. destruct (V1 c) as [E|[E|[_ E]]]; [left; exact E| |].
        - right. exists (2 * iz + 1). split; [lia|]. split; [lia|]. rewrite E. unfold psub. ring.
        - right. exists (2 * iz + 2). split; [lia|]. split; [lia|]. rewrite E. unfold pint. ring. }
      destruct (Z.ltb_spec d0 depth) as [Hlt|Hge].
      * assert (HF2 : FU' (2 * iz + 1) (2 * iz + 2) b' (labs ++ [(psub, d0 + 1)])).
        { replace psub with (pfaf0 + (2 * iz + 1) * q) by (unfold psub; ring).
          apply (fu_child depth pfaf0 d0 q Hp0 Hq HWc (2 * iz) (2 * iz + 2) (2 * iz + 1) b' labs); [lia|lia|lia|exact HF1]. }
        destruct cr.
        -- replace pint with (pfaf0 + (2 * iz + 2) * q) by (unfold pint; ring).
           apply (fu_child depth pfaf0 d0 q Hp0 Hq HWc (2 * iz + 1) (2 * iz + 2) (2 * iz + 2) b' (labs ++ [(psub, d0 + 1)])); [lia|lia|lia|exact HF2].
        -- apply (fu_weaken depth pfaf0 d0 q (2 * iz + 1) (2 * iz + 2)); [lia|lia|exact HF2].
      * assert (HF3 : FU' (2 * iz + 2) (2 * iz + 2) b' labs)
          by (apply (fu_weaken depth pfaf0 d0 q (2 * iz) (2 * iz + 2)); [lia|lia|exact HF1]).
        destruct cr; exact HF3.
    + replace (Z.of_nat (S i)) with (iz + 1) by (unfold iz; lia).
      destruct cr; [rewrite (V2 eq_refl); unfold pint; nia|rewrite (V3 eq_refl); nia].
Qed.
End Fold.

Lemma pfaf_loop_pair fuel : forall b idxs labs, LINV ds main depth b idxs labs -> OINV b idxs ->
  allok depth b -> labsok depth labs ->
  OINV (fst (pfaf_loop ds main uparea strord trib depth fuel b idxs labs))
       (snd (pfaf_loop ds main uparea strord trib depth fuel b idxs labs)).
Proof.
  induction fuel as [|f IH]; intros b idxs labs (HI & Hok & Hdj) HO Hb Hl; cbn [pfaf_loop]; [exact HO|].
  destruct labs as [|[pfaf0 d0] labs']; [exact HO|].
  destruct (Hok (pfaf0, d0) (or_introl eq_refl)) as (E1 & E2 & E3). cbn [fst snd] in E1, E2, E3.
  destruct Hdj as [Hdj1 Hdj2].
  assert (HL' : LINV ds main depth b idxs labs').
  { split; [exact HI|]. split; [intros e He; apply Hok; right; exact He|exact Hdj2]. }
  assert (Hl' : labsok depth labs') by (intros pf d Hin; apply Hl; right; exact Hin).
  destruct (Hl pfaf0 d0 (or_introl eq_refl)) as [Hd Hu].
  remember (filter (fun idx => (nth idx b 0 =? 0) && (nth (dsf idx) b 0 =? pfaf0)) trib) as tl eqn:Etl.
  destruct tl as [|e0 rs]; [apply IH; assumption|].
  set (key1 := fun i : nat => nth i uparea 0).
  set (key2 := fun i : nat => nth (dsf i) uparea 0).
  set (ordered := sort_desc key2 (firstn 4 (sort_desc key1 (e0 :: rs)))).
  assert (Hin : forall t, In t ordered -> In t trib /\ lab b t = 0 /\ lab b (dsf t) = pfaf0).
  { intros t Ht. unfold ordered in Ht. apply sort_desc_In in Ht. apply firstn_In_sub in Ht. apply sort_desc_In in Ht.
    rewrite Etl in Ht. apply filter_In in Ht. destruct Ht as [H1 H2]. apply andb_true_iff in H2.
    destruct H2 as [H2 H3]. apply Z.eqb_eq in H2. apply Z.eqb_eq in H3. split; [exact H1|split; assumption]. }
  assert (Hnd : NoDup ordered).
  { unfold ordered. apply sort_desc_NoDup. apply firstn_NoDup. apply sort_desc_NoDup. rewrite Etl.
    apply NoDup_filter. exact HTnd. }
  assert (Hso : sortedd key2 ordered) by (unfold ordered; apply sort_desc_sorted).
  assert (Hlen : (0 + length ordered <= 4)%nat).
  { unfold ordered. rewrite sort_desc_length, firstn_length. lia. }
  assert (HS : SINV ds main uparea trib b idxs pfaf0 ordered b idxs pfaf0).
  { constructor.
    - exact HI.
    - lia.
    - intros c Hc. exact Hc.
    - intros o Ho. exact Ho.
    - intros c _ Hlc _ Hz. contradiction.
    - intros t c _ (C1 & C2 & C3) _. right. exact C3.
    - intros o t Ho Hn. contradiction.
    - exact Hin. }
  assert (HF : FU depth pfaf0 d0 (pow10 (depth - d0)) (2 * Z.of_nat 0) (2 * Z.of_nat 0) b labs').
  { constructor.
    - intros e He. apply Hok. right. exact He.
    - exact Hdj2.
    - intros e He. left. destruct (Hdj1 e He) as [H|H]; cbn [fst snd] in H.
      + right. rewrite (W_parent ds depth d0 E2) in H. exact H.
      + left. exact H.
    - intros c Hc. exfalso. apply (E3 c). rewrite (W_parent ds depth d0 E2). exact Hc. }
  assert (Hdig : digit (depth - d0) pfaf0 = 1) by (apply (proj2 Hu); lia).
  pose proof (q_pos ds depth d0 E2) as Hqq.
  assert (HG : GINV ds main depth b pfaf0 d0 b idxs pfaf0).
  { constructor.
    - exists 0. split; [lia|ring].
    - intros c Hc. exists 0. split; [lia|]. split; [rewrite Hc; ring|lia].
    - intros o Ho Hnp. destruct (HO o Ho Hnp) as (p & Hp & HR). exists p. split; [exact Hp|]. split; [exact HR|].
      unfold side.
      destruct (Z.lt_trichotomy (lab b (dsf o)) pfaf0) as [Hlt|[Heq|Hgt]]; [right; left; exact Hlt| |].
      + left. destruct (Z.lt_ge_cases (depth - d0) p) as [Hc|Hc]; [exact Hc|exfalso].
        rewrite Heq in HR.
        assert (Hd1 : digit p pfaf0 = 1) by (apply (proj2 Hu); lia).
        destruct (inv2 _ _ _ _ HI o Ho) as (_ & Hnz & _).
        assert (Hgo : good depth (lab b o)) by (destruct (Hb o) as [E|G]; [contradiction|exact G]).
        pose proof (rel_lt _ p pfaf0 (lab b o) depth Hp Hgo HR Hd1) as Hlt.
        destruct HR as (R1 & _).
        pose proof (rel_range p pfaf0 (lab b o) ltac:(lia) R1 Hlt) as Hr.
        apply (E3 o). unfold W.
        assert (10 ^ (p + 1) <= 10 ^ (depth - d0 + 1)) by (apply Z.pow_le_mono_r; lia). lia.
      + right. right. left. rewrite <- (W_parent ds depth d0 E2).
        destruct (Z.lt_ge_cases (lab b (dsf o)) (pfaf0 + W depth d0)) as [Hc|Hc]; [exfalso; apply (E3 (dsf o)); lia|exact Hc]. }
  pose proof (fold_trib_inv ds main strord rk Hrk Hrkn HM uparea Hua trib HT depth b idxs pfaf0 d0 HI E1 E2
                ordered 0%nat b idxs labs' pfaf0 HS HF ltac:(cbn; lia) Hso Hnd Hlen) as R.
  pose proof (fold_trib_pair b idxs pfaf0 d0 HI E1 E2 Hdig
                ordered 0%nat b idxs labs' pfaf0 HS HF ltac:(cbn; lia) Hso Hnd Hlen HG) as RO.
  pose proof (fold_trib_ok ds main strord depth d0 pfaf0 Hd Hu (combine (seq 0 (length ordered)) ordered) (b, idxs, labs', pfaf0)) as ROK.
  cbn [fst snd] in ROK.
  specialize (ROK ltac:(intros [i x] Hix; apply in_combine_l in Hix; apply in_seq in Hix; cbn [fst]; lia) Hb Hl').
  cbv zeta in R, RO, ROK. fold key2 in R, RO, ROK. cbn [Nat.add] in R, RO.
  destruct (fold_left (pfaf_trib ds main strord depth d0 pfaf0) (combine (seq 0 (length ordered)) ordered) (b, idxs, labs', pfaf0))
    as [[[b' ix] lb] pi].
  cbn [fst snd] in R, RO, ROK. destruct ROK as [Hb2 Hl2]. apply IH; assumption.
Qed.

End Loop.
