(* C09 / ihu: what survives of loop-freeness (the cycles of IhuLoop.v exist).  The rank of IhuRank.RankInv -- decreasing
   along the links between the cells that the last upscale_check flagged valid -- is established by upscale_check
   (IhuAssertInit.v), kept by ihu_optimize_rivlen (IhuAssert.v) and, proved here, kept by ihu_minimize_error: that
   stage relinks only cells of its work list (cells with an upscale error: unflagged), makes a cell a pit, or moves the
   outlet pixel of a HEADWATER cell (no cell drains to it).  Hence in the result of every iteration, and in the result of
   up_ihu, EVERY CYCLE OF THE COARSE NETWORK PASSES THROUGH A CELL THAT THE LAST upscale_check DID NOT FLAG VALID. *)
From Coq Require Import List Arith ZArith Bool Lia.
Import ListNotations.
From PF Require Import Arr Net Elev Upscale D8Idx D8IdxSpec Ihu IhuD8 IhuRank IhuAssert.

Section Flagged.
Variable sds : list nat.
Variable upa : list Z.
Variables subncol cs nrow ncol : nat.
Notation nsub := (length sds).
Notation nc := (nrow * ncol).
Hypothesis Hncol : 0 < ncol.

(* the invariant: 8-neighbour links, length, rank on flagged cells *)
Definition K (valid : list bool) (cds : list nat) : Prop :=
  Inv nrow ncol cds /\ length cds = nc /\ RankInv nc valid cds.
(* a cell that may be relinked freely: unflagged, or no cell at all *)
Definition U (valid : list bool) (j : nat) : Prop := nth j valid true = false \/ nc <= j.

Lemma rank_upd_unflag valid cds j v : length cds = nc -> RankInv nc valid cds -> U valid j \/ v = j ->
  RankInv nc valid (upd cds j v).
Proof.
  intros HL [r Hr] HU. exists r. intros i Fi. rewrite nth_upd.
  destruct (Nat.eqb i j && Nat.ltb j (length cds)) eqn:E; [|apply Hr; exact Fi].
  apply andb_true_iff in E. destruct E as [E1 E2]. apply Nat.eqb_eq in E1. apply Nat.ltb_lt in E2. subst i.
  destruct HU as [[HU|HU]|HU].
  - unfold Flag in Fi. congruence.
  - lia.
  - intros _ Hne. congruence.
Qed.

Lemma rank_upd_head valid cds j v : RankInv nc valid cds -> (forall i, i <> j -> nth i cds nc <> j) ->
  RankInv nc valid (upd cds j v).
Proof.
  intros [r Hr] Hh. exists (fun i => if i =? j then S (r v) else r i). intros i Fi. rewrite nth_upd.
  destruct (Nat.eqb i j && Nat.ltb j (length cds)) eqn:E.
  - apply andb_true_iff in E. destruct E as [E1 _]. apply Nat.eqb_eq in E1. subst i.
    intros _ Hne _. rewrite Nat.eqb_refl. apply Nat.eqb_neq in Hne. rewrite Hne. lia.
  - intros Hlt Hne Fd. destruct (Nat.eq_dec i j) as [->|Hij].
    + rewrite Nat.eqb_refl in E. cbn [andb] in E. apply Nat.ltb_ge in E.
      rewrite nth_overflow in Hlt by exact E. lia.
    + pose proof (Hh i Hij) as Hd. apply Nat.eqb_neq in Hij. rewrite Hij. apply Nat.eqb_neq in Hd. rewrite Hd.
      apply Hr; assumption.
Qed.

(* a cell without upstream cells (the test `len(_upstream_d8_idx(...)) == 0`) can be relinked *)
Lemma rank_upd_nous valid cds j v : K valid cds -> length (upstream_d8_idx cds j nrow ncol) = 0 ->
  RankInv nc valid (upd cds j v).
Proof.
  intros (HI & HL & HR) H0. destruct (Nat.lt_ge_cases j nc) as [Hj|Hj].
  - apply rank_upd_head; [exact HR|]. intros i Hne E.
    assert (Hi : i < nc).
    { destruct (Nat.lt_ge_cases i nc) as [|Hge]; [assumption|]. rewrite nth_overflow in E by (rewrite HL; exact Hge). lia. }
    assert (Hin : In i (upstream_d8_idx cds j nrow ncol)).
    { apply (upstream_d8_idx_spec cds j nrow ncol i Hncol). split; [exact Hi|]. split; [exact Hne|].
      split; [|unfold dsf, size; rewrite HL; exact E].
      rewrite in_d8_sym. pose proof (HI i) as Hd. rewrite E in Hd. apply Hd. exact Hj. }
    destruct (upstream_d8_idx cds j nrow ncol); [destruct Hin|discriminate].
  - apply rank_upd_unflag; [exact HL|exact HR|]. left. right. exact Hj.
Qed.

(* ---------- me_scan ---------- *)
Lemma me_scan_K valid cds out idxs idx0 nb : K valid cds -> U valid idx0 ->
  (forall x, In x nb -> in_d8 idx0 x ncol = true) ->
  let s := me_scan sds upa nrow ncol cds out idxs idx0 nb in
  K valid (sc_cds s) /\
  (sc_fixed s = false -> sc_cds s = cds /\ forall h, In h (sc_hw s) -> length (upstream_d8_idx cds h nrow ncol) = 0).
Proof.
  intros HK HU Hnb. cbv zeta. unfold me_scan.
  apply (fold_left_inv (fun s => K valid (sc_cds s) /\
     (sc_fixed s = false -> sc_cds s = cds /\ forall h, In h (sc_hw s) -> length (upstream_d8_idx cds h nrow ncol) = 0))).
  - cbn [sc_cds sc_fixed sc_hw]. split; [exact HK|]. intros _. split; [reflexivity|intros h []].
  - intros s idx1 Hin (Hs & Hf). cbv zeta.
    destruct (nsub <=? nth idx1 out nsub); [split; assumption|].
    destruct (me_chain nrow ncol (S (S nc)) (sc_cds s) idxs idx0 idx1 0 (sc_dist s)) as [d0| |]; [| |split; assumption].
    + match goal with |- context [if ?c then _ else _] => destruct c end; [|split; assumption].
      match goal with |- context [if ?c then _ else _] => destruct c end; [split; assumption|].
      cbn [sc_cds sc_fixed sc_hw]. split; [|discriminate].
      destruct Hs as (HI & HL & HR). split; [|split].
      * apply Inv_upd; [exact HI|]. intros _. apply Hnb. exact Hin.
      * rewrite upd_length. exact HL.
      * apply rank_upd_unflag; [exact HL|exact HR|left; exact HU].
    + destruct (length (upstream_d8_idx (sc_cds s) idx1 nrow ncol) =? 0) eqn:E0; [|split; assumption].
      cbn [sc_cds sc_fixed sc_hw]. split; [exact Hs|]. intros Hfx. destruct (Hf Hfx) as [Ec Hh]. split; [exact Ec|].
      intros h Hh'. apply in_app_or in Hh'. destruct Hh' as [Hh'|[<-|[]]]; [apply Hh; exact Hh'|].
      apply Nat.eqb_eq in E0. rewrite Ec in E0. exact E0.
Qed.

(* ---------- me_hw: the first headwater cell whose outlet pixel can be moved is relinked ---------- *)
Lemma me_hw_K valid idxs hw : forall a, K valid (a_cds a) ->
  (forall h, In h hw -> length (upstream_d8_idx (a_cds a) h nrow ncol) = 0) ->
  K valid (a_cds (me_hw sds upa subncol cs nrow ncol a idxs hw)).
Proof.
  induction hw as [|idx t IH]; intros a HK Hh; cbn [me_hw]; [exact HK|].
  pose proof (new_outlet_inv sds upa subncol cs nrow ncol a idx (nth idx (a_out a) nsub)
                (Some (nth (nth 0 idxs nc) (a_out a) nsub)) ltac:(destruct HK as [HI _]; exact HI)) as H1.
  destruct (new_outlet_cds sds upa subncol cs nrow ncol a idx (nth idx (a_out a) nsub)
              (Some (nth (nth 0 idxs nc) (a_out a) nsub))) as (N1 & [v N2] & _). cbv zeta in N1, N2.
  destruct (new_outlet sds upa subncol cs ncol a idx (nth idx (a_out a) nsub) (Some (nth (nth 0 idxs nc) (a_out a) nsub)))
    as [a1 fixed1].
  cbn [fst snd] in H1, N1, N2. destruct fixed1.
  - split; [exact H1|]. rewrite N2. split; [rewrite upd_length; destruct HK as (_ & HL & _); exact HL|].
    apply rank_upd_nous; [exact HK|]. apply Hh. left. reflexivity.
  - specialize (N1 eq_refl). apply IH; rewrite N1; [exact HK|]. intros h Hin. apply Hh. right. exact Hin.
Qed.

Lemma me_rounds_K valid idxs idx0 nb n : U valid idx0 -> (forall x, In x nb -> in_d8 idx0 x ncol = true) ->
  forall a, K valid (a_cds a) -> K valid (a_cds (me_rounds sds upa subncol cs nrow ncol n a idxs idx0 nb)).
Proof.
  intros HU Hnb. induction n as [|n IH]; intros a HK; cbn [me_rounds]; [exact HK|]. cbv zeta.
  destruct (me_scan_K valid (a_cds a) (a_out a) idxs idx0 nb HK HU Hnb) as [Hs Hf]. cbv zeta in Hs, Hf.
  match goal with |- context [if ?c then _ else _] => destruct c eqn:Ec end; [|exact Hs].
  apply andb_true_iff in Ec. destruct Ec as [Ec _]. apply andb_true_iff in Ec. destruct Ec as [Ec _].
  apply negb_true_iff in Ec. destruct (Hf Ec) as [E Hh].
  apply IH. apply me_hw_K; cbn [a_cds]; [exact Hs|]. rewrite E. exact Hh.
Qed.

Lemma me_one_K valid poc a idx0 : U valid idx0 -> K valid (a_cds a) ->
  K valid (a_cds (me_one sds upa subncol cs nrow ncol poc a idx0)).
Proof.
  intros HU HK. pose proof (me_one_inv sds upa subncol cs nrow ncol poc a idx0 ltac:(destruct HK as [HI _]; exact HI)) as HInv.
  revert HInv. unfold me_one. cbv zeta.
  destruct (me_path sds ncol (S nsub) (a_st a) idx0 (nth idx0 (a_out a) nsub) []) as [[[idxs subidx] subidx_ds]|];
    [|intros _; exact HK].
  match goal with |- context [if ?c then _ else _] => destruct c end.
  - cbn [set_out set_cds set_st a_cds]. intros HInv. split; [exact HInv|]. destruct HK as (_ & HL & HR).
    split; [rewrite upd_length; exact HL|]. apply rank_upd_unflag; [exact HL|exact HR|right; reflexivity].
  - intros _.
    match goal with |- context [if ?c then new_outlet _ _ _ _ _ _ _ _ _ else _] => destruct c end.
    + pose proof (new_outlet_inv sds upa subncol cs nrow ncol a idx0 (nth idx0 (a_out a) nsub) None
                    ltac:(destruct HK as [HI _]; exact HI)) as H1.
      destruct (new_outlet_cds sds upa subncol cs nrow ncol a idx0 (nth idx0 (a_out a) nsub) None) as (_ & [v N2] & _).
      cbv zeta in N2.
      destruct (new_outlet sds upa subncol cs ncol a idx0 (nth idx0 (a_out a) nsub) None) as [a1 fixed].
      cbn [fst] in H1, N2.
      assert (HK1 : K valid (a_cds a1)).
      { split; [exact H1|]. rewrite N2. destruct HK as (_ & HL & HR). split; [rewrite upd_length; exact HL|].
        apply rank_upd_unflag; [exact HL|exact HR|left; exact HU]. }
      destruct fixed; [exact HK1|]. apply me_rounds_K; [exact HU|apply d8_idx_in_d8|exact HK1].
    + apply me_rounds_K; [exact HU|apply d8_idx_in_d8|exact HK].
Qed.

(* ihu_minimize_error keeps the rank on flagged cells when its work list holds unflagged cells only *)
Theorem minimize_error_K valid fixl poc a : (forall x, In x fixl -> nth x valid true = false) -> K valid (a_cds a) ->
  K valid (a_cds (minimize_error sds upa subncol cs nrow ncol fixl poc a)).
Proof.
  intros Hfix HK. unfold minimize_error. cbv zeta. apply fold_left_inv; [exact HK|]. intros a' i0 _ Ha'.
  apply me_one_K; [|exact Ha'].
  destruct (nth_in_or_default i0 fixl nc) as [Hin|E]; [left; apply Hfix; exact Hin|right; rewrite E; lia].
Qed.

(* ---------- upscale_check: the cells of its work list are exactly unflagged ---------- *)
Lemma upscale_check_fix_unflagged out cds :
  let c := upscale_check sds cs nrow ncol out cds in
  length (c_valid c) = nc /\ forall x, In x (c_fix c) -> nth x (c_valid c) true = false.
Proof.
  clear Hncol. cbv zeta. unfold upscale_check.
  apply (fold_left_inv (fun c => length (c_valid c) = nc /\ forall x, In x (c_fix c) -> nth x (c_valid c) true = false)).
  - cbn [c_valid c_fix]. split; [apply repeat_length|intros x []].
  - intros c idx0 Hin (H1 & H2). cbv zeta. apply in_seq in Hin.
    destruct (nc <=? nth idx0 cds nc); [split; assumption|].
    destruct (chk_walk sds (S nsub) (c_st c) (nth idx0 out nsub) 0) as [[[st s1] d] ok].
    match goal with |- context [if ?c then _ else _] => destruct c end; cbn [c_valid c_fix].
    + split; [rewrite upd_length; exact H1|]. intros x Hx. rewrite nth_upd. rewrite H1.
      apply in_app_or in Hx. destruct Hx as [Hx|[<-|[]]].
      * destruct (Nat.eqb x idx0 && Nat.ltb idx0 nc); [reflexivity|apply H2; exact Hx].
      * rewrite Nat.eqb_refl. cbn [andb]. destruct (Nat.ltb_spec idx0 nc); [reflexivity|lia].
    + match goal with |- context [if ?c then _ else _] => destruct c end; cbn [c_valid c_fix]; split; assumption.
Qed.
End Flagged.

Print Assumptions minimize_error_K.
Print Assumptions upscale_check_fix_unflagged.
