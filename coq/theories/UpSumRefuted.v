(* C14: the hypothesis of upstream_sum_spec ("no cell holds the missing value") cannot be dropped, not even for the cells the
   missing value has nothing to do with: on the chain 2 -> 1 -> 0 (pit) with the pit's value missing, cell 1 is valid and so is
   its only upstream cell 2, yet the model -- which is arithmetics.upstream_sum statement by statement (gen_upstream_sum_eq) --
   answers nodata + 1 instead of 1: the kernel writes nodata into the UPSTREAM cell of a pair with a missing value and later
   adds to it.  Known finding F14. *)
From Coq Require Import List Arith ZArith Bool.
Import ListNotations.
From PF Require Import Arr Net Rank Ops.
Local Open Scope Z_scope.

Theorem upstream_sum_nodata_refuted : exists (ds : list nat) (data : list Z) (nodata : Z) (j : nat),
  (j < size ds)%nat /\ nth j data 0 <> nodata /\ (forall c, In c (ups ds j) -> nth c data 0 <> nodata) /\
  nth j (upstream_sum ds data nodata) 0 <> zsum (map (fun c => nth c data 0) (ups ds j)).
Proof.
  exists [0; 0; 1]%nat, [-9999; 2; 1], (-9999), 1%nat.
  split; [vm_compute; repeat constructor|]. split; [vm_compute; discriminate|]. split.
  - intros c Hc. vm_compute in Hc. destruct Hc as [<-|[]]. vm_compute. discriminate.
  - vm_compute. discriminate.
Qed.
Print Assumptions upstream_sum_nodata_refuted.
