(* core.upstream_matrix and core.idxs_seq REGENERATED from the Python source (generated/GenCore.v).
   gen_upstream_matrix: row x of the 2-D array is Rank.ups x (the upstream cells of x in ascending order) padded with the
   missing value.  gen_idxs_seq: the array used as a FIFO queue with the two cursors i, j, the `while i < size` loop a
   Fixpoint over explicit fuel (the number of cells, as in the model) with the inner `for ... break` over a row of the
   matrix, IS the hand-written model Rank.idxs_seq (bfs with a list as queue) that the theorems of C03 / C13 are about.
   Hypotheses: the network is closed (wf) and not empty (np.max of an empty array is an error in the source), the start
   cells are pits without repetition (else the array overflows).  No axiom. *)
From Coq Require Import List Arith ZArith Bool Lia.
Import ListNotations.
From PF Require Import Arr Net Rank RankSpec Stream GenCountEq GenCoreBaseEq.
From PFG Require Import GenLoops GenCore.
Local Open Scope Z_scope.

Lemma fold_max_ge : forall t a, a <= fold_left Z.max t a /\ forall v, In v t -> v <= fold_left Z.max t a.
Proof.
  induction t as [|h t IH]; intros a; cbn [fold_left]; [split; [lia|intros v []]|].
  destruct (IH (Z.max a h)) as [H1 H2]. split; [lia|]. intros v [<-|Hv]; [lia|auto].
Qed.

Lemma np_max_ge l m : np_max l = Some m -> forall v, In v l -> v <= m.
Proof.
  destruct l as [|h t]; [discriminate|]. cbn [np_max]. intros E; inversion E; subst. clear E.
  destruct (fold_max_ge t h) as [H1 H2]. intros v [<-|Hv]; auto.
Qed.

Lemma filter_true {A} (l : list A) : filter (fun _ => true) l = l.
Proof. induction l as [|x l IH]; cbn [filter]; [reflexivity|]. rewrite IH. reflexivity. Qed.

Section SeqEq.
Variable ds : list nat.
Notation n := (size ds).
Hypothesis Hwf : wf ds.

(* ------------------------------------------------------------------ upstream_matrix *)
(* the upstream cells of x among the first i cells *)
Definition U (i x : nat) : list nat := filter (fun c => (dsf ds c =? x)%nat && negb (c =? x)%nat) (seq 0 i).

Lemma U_n x : U n x = ups ds x.
Proof. reflexivity. Qed.

Lemma U_S i x : U (S i) x = U i x ++ (if (dsf ds i =? x)%nat && negb (i =? x)%nat then [i] else []).
Proof. unfold U. rewrite seq_S, filter_app. cbn [filter Nat.add]. destruct (_ && _); reflexivity. Qed.

Lemma U_len i x : (i <= n)%nat -> (length (U i x) <= length (ups ds x))%nat.
Proof.
  intros Hi. unfold ups, U.
  assert (E : seq 0 n = seq 0 i ++ seq i (n - i)) by (transitivity (seq 0 (i + (n - i))); [f_equal; lia|apply seq_app]).
  rewrite E, filter_app, app_length. lia.
Qed.

Section Matrix.
Variable D : nat.
Hypothesis HD : forall x, (x < n)%nat -> (length (ups ds x) <= D)%nat.

Definition minv (i : nat) (st : list Z * list (list nat)) : Prop :=
  length (fst st) = n /\ length (snd st) = n /\
  forall x, (x < n)%nat -> nth x (fst st) 0 = Z.of_nat (length (U i x)) /\
                           nth x (snd st) [] = U i x ++ repeat n (D - length (U i x)).

Lemma mstep i st : (i < n)%nat -> minv i st -> minv (S i) (gen_upstream_matrix_loop1_step ds st i).
Proof.
  intros Hi. destruct st as [nup M]. intros (Hl1 & Hl2 & H). cbn [fst snd] in *.
  unfold gen_upstream_matrix_loop1_step. cbv zeta. change (nth i ds (length ds)) with (dsf ds i). change (length ds) with n.
  destruct (Nat.eqb_spec (dsf ds i) i) as [Ep|Hnp]; cbn [negb andb].
  - (* a pit *)
    split; [|split]; auto. intros x Hx. rewrite U_S. destruct (H x Hx) as [H1 H2].
    destruct (Nat.eqb_spec (dsf ds i) x) as [E|E]; cbn [andb].
    + assert (Hix : x = i) by congruence. rewrite Hix in *. rewrite Nat.eqb_refl. cbn [negb]. rewrite app_nil_r. auto.
    + rewrite app_nil_r. auto.
  - destruct (Nat.leb_spec n (dsf ds i)) as [Hge|Hlt]; cbn [negb].
    + (* no downstream cell *)
      split; [|split]; auto. intros x Hx. rewrite U_S. destruct (H x Hx) as [H1 H2].
      destruct (Nat.eqb_spec (dsf ds i) x) as [E|E]; cbn [andb]; [lia|]. rewrite app_nil_r. auto.
    + set (d := dsf ds i) in *. cbn [fst snd]. destruct (H d Hlt) as [Hd1 Hd2].
      assert (Hroom : (length (U i d) < D)%nat).
      { pose proof (U_len (S i) d ltac:(lia)) as Hm. rewrite U_S in Hm. fold d in Hm. rewrite Nat.eqb_refl in Hm.
        replace (i =? d)%nat with false in Hm by (symmetry; apply Nat.eqb_neq; auto). cbn [negb andb] in Hm.
        rewrite app_length in Hm. cbn [length] in Hm. pose proof (HD d Hlt). lia. }
      unfold minv. cbn [fst snd]. split; [rewrite upd_length; auto|]. split; [unfold upd2; rewrite upd_length; auto|].
      intros x Hx. rewrite U_S. fold d. destruct (H x Hx) as [H1 H2].
      destruct (Nat.eqb_spec d x) as [E|E]; cbn [andb].
      * subst x. replace (i =? d)%nat with false by (symmetry; apply Nat.eqb_neq; auto). cbn [negb].
        rewrite nth_upd_eq by lia. unfold upd2. rewrite nth_upd_eq by lia. rewrite Hd1, Hd2, Nat2Z.id.
        split; [rewrite app_length; cbn [length]; lia|].
        replace (D - length (U i d))%nat with (S (D - length (U i d ++ [i])))%nat by (rewrite app_length; cbn [length]; lia).
        rewrite upd_app_len. cbn [repeat upd]. rewrite <- app_assoc. reflexivity.
      * rewrite app_nil_r. rewrite nth_upd_neq by auto. unfold upd2. rewrite nth_upd_neq by auto. auto.
Qed.

Lemma mfold k : forall a st, (a + k <= n)%nat -> minv a st ->
  minv (a + k) (fold_left (gen_upstream_matrix_loop1_step ds) (seq a k) st).
Proof.
  induction k as [|k IH]; intros a st Hk Hi; cbn [seq fold_left]; [rewrite Nat.add_0_r; auto|].
  replace (a + S k)%nat with (S a + k)%nat by lia. apply IH; [lia|]. apply mstep; auto. lia.
Qed.
End Matrix.

(* core.upstream_matrix: every row is the list of the upstream cells, padded *)
Theorem gen_upstream_matrix_spec : (0 < n)%nat -> exists M D,
  gen_upstream_matrix ds = Some M /\ length M = n /\
  forall x, (x < n)%nat -> nth x M [] = ups ds x ++ repeat n (D - length (ups ds x)).
Proof.
  intros Hn. unfold gen_upstream_matrix. cbv zeta. rewrite (gen_upstream_count_eq ds None Hwf).
  assert (Hlen : length (upstream_count ds None) = n) by (unfold upstream_count; rewrite map_length, seq_length; reflexivity).
  destruct (np_max (upstream_count ds None)) as [d|] eqn:Ed.
  2:{ destruct (upstream_count ds None); [cbn [length] in Hlen; lia|discriminate]. }
  assert (HD : forall x, (x < n)%nat -> (length (ups ds x) <= Z.to_nat d)%nat).
  { intros x Hx. destruct (validb ds x) eqn:Ev.
    - assert (Hin : In (Z.of_nat (length (ups ds x))) (upstream_count ds None)).
      { unfold upstream_count. apply in_map_iff. exists x. rewrite Ev, filter_true. split; [reflexivity|apply in_seq; lia]. }
      pose proof (np_max_ge _ _ Ed _ Hin). lia.
    - (* nothing drains into a cell outside the network *)
      assert (E : ups ds x = []).
      { unfold ups. apply filter_none. intros c Hc. apply in_seq in Hc.
        destruct (Nat.eqb_spec (dsf ds c) x) as [E|E]; [|reflexivity].
        assert (Hvc : valid ds c) by (split; [lia|rewrite E; auto]).
        pose proof (Hwf c Hvc) as Hvx. rewrite E in Hvx. apply validb_valid in Hvx. congruence. }
      rewrite E. cbn [length]. lia. }
  rewrite Hlen. change (length ds) with n.
  pose proof (mfold (Z.to_nat d) HD n 0%nat (repeat 0 n, repeat (repeat n (Z.to_nat d)) n) ltac:(lia)) as Hm.
  destruct (fold_left _ (seq 0 n) _) as [nup M]. exists M, (Z.to_nat d). split; [reflexivity|].
  destruct Hm as (_ & Hl2 & H).
  - split; [apply repeat_length|]. split; [apply repeat_length|]. intros x Hx. cbn [fst snd U seq filter length app Nat.sub].
    rewrite !nth_repeat_lt by auto. rewrite Nat.sub_0_r. split; reflexivity.
  - cbn [fst snd Nat.add] in *. split; auto. intros x Hx. destruct (H x Hx) as [_ H2]. rewrite H2, U_n. reflexivity.
Qed.

(* ------------------------------------------------------------------ idxs_seq *)
Variable pits : list nat.
Variable M : list (list nat).
Variable D : nat.
Hypothesis HM : forall x, (x < n)%nat -> nth x M [] = ups ds x ++ repeat n (D - length (ups ds x)).

(* for idx in <row>: if idx == mv: break; idxs_seq[j] = idx; j += 1     -- the cells are written after the j cells in place *)
Lemma put_row : forall Ul pad A r, (forall x, In x Ul -> (x < n)%nat) -> (length Ul <= r)%nat ->
  gen_idxs_seq_loop3 ds pits (Ul ++ repeat n pad) (Z.of_nat (length A), A ++ repeat n r) =
  (Z.of_nat (length A + length Ul), A ++ Ul ++ repeat n (r - length Ul)).
Proof.
  induction Ul as [|x Ul IH]; intros pad A r Hb Hr.
  - cbn [app length]. rewrite Nat.add_0_r, Nat.sub_0_r. destruct pad as [|pad]; [reflexivity|].
    cbn [repeat gen_idxs_seq_loop3]. cbv zeta. change (length ds) with n. rewrite Nat.leb_refl. reflexivity.
  - cbn [app gen_idxs_seq_loop3]. cbv zeta. change (length ds) with n.
    replace (n <=? x)%nat with false by (symmetry; apply Nat.leb_gt; apply Hb; left; auto).
    cbn [length] in Hr. destruct r as [|r]; [lia|].
    rewrite Nat2Z.id. rewrite upd_app_len. cbn [repeat upd].
    change (A ++ x :: repeat n r) with (A ++ [x] ++ repeat n r). rewrite app_assoc.
    replace (Z.of_nat (length A) + 1) with (Z.of_nat (length (A ++ [x]))) by (rewrite app_length; cbn [length]; lia).
    rewrite (IH pad (A ++ [x]) r) by (try (intros; apply Hb; right; auto); lia).
    rewrite app_length. cbn [length Nat.sub]. rewrite <- app_assoc. f_equal. f_equal. lia.
Qed.

(* for idx in idxs_pit: idxs_seq[j] = idx; j += 1 *)
Lemma put_pits : forall P A r, (length P <= r)%nat ->
  fold_left (gen_idxs_seq_loop1_step ds pits) P (Z.of_nat (length A), A ++ repeat n r) =
  (Z.of_nat (length A + length P), A ++ P ++ repeat n (r - length P)).
Proof.
  induction P as [|x P IH]; intros A r Hr.
  - cbn [app length fold_left]. rewrite Nat.add_0_r, Nat.sub_0_r. reflexivity.
  - cbn [fold_left]. unfold gen_idxs_seq_loop1_step at 2. cbv zeta.
    cbn [length] in Hr. destruct r as [|r]; [lia|].
    rewrite Nat2Z.id. rewrite upd_app_len. cbn [repeat upd].
    change (A ++ x :: repeat n r) with (A ++ [x] ++ repeat n r). rewrite app_assoc.
    replace (Z.of_nat (length A) + 1) with (Z.of_nat (length (A ++ [x]))) by (rewrite app_length; cbn [length]; lia).
    rewrite (IH (A ++ [x]) r) by lia.
    rewrite app_length. cbn [length Nat.sub app]. rewrite <- app_assoc. f_equal. f_equal. lia.
Qed.

Lemma binv_len queue acc : binv ds queue acc -> (length acc + length queue <= n)%nat.
Proof.
  intros Hb.
  assert (Hl : (length (rev acc ++ queue) <= length (seq 0 n))%nat).
  { apply NoDup_incl_length; [destruct Hb as (_ & H & _); auto|].
    intros y Hy. apply in_seq. pose proof (binv_bound ds _ _ y Hb Hy). lia. }
  rewrite app_length, rev_length, seq_length in Hl. exact Hl.
Qed.

(* the array with its two cursors is the queue of the model *)
Lemma loop2_bfs : forall fuel queue acc, binv ds queue acc -> (n <= fuel + length acc)%nat ->
  exists i j a,
    gen_idxs_seq_loop2 ds pits M fuel
      (Z.of_nat (length acc), Z.of_nat (length acc + length queue),
       (rev acc ++ queue) ++ repeat n (n - (length acc + length queue))) = Some (i, j, a) /\
    firstn (Z.to_nat i) a = bfs ds fuel queue acc.
Proof.
  induction fuel as [|f IH]; intros queue acc Hb Hf; pose proof (binv_len _ _ Hb) as Hlen.
  - assert (length acc = n /\ queue = []) as [Ha ->] by (destruct queue; cbn [length] in *; split; auto; lia).
    cbn [gen_idxs_seq_loop2 bfs]. cbv zeta. rewrite !app_length, rev_length, repeat_length. cbn [length].
    replace (Z.of_nat (length acc) <? _) with false by (symmetry; apply Z.ltb_ge; lia).
    eexists _, _, _. split; [reflexivity|]. rewrite Nat2Z.id, Nat.add_0_r, Ha, Nat.sub_diag. cbn [repeat].
    rewrite !app_nil_r. rewrite <- Ha, <- rev_length. apply firstn_all.
  - cbn [gen_idxs_seq_loop2 bfs]. cbv zeta. rewrite !app_length, rev_length, repeat_length.
    destruct queue as [|x q].
    + cbn [length]. rewrite Nat.add_0_r, app_nil_r.
      destruct (Z.of_nat (length acc) <? _) eqn:Ec; [apply Z.ltb_lt in Ec|apply Z.ltb_ge in Ec].
      * rewrite Nat2Z.id. rewrite app_nth2 by (rewrite rev_length; lia). rewrite rev_length, Nat.sub_diag.
        rewrite nth_repeat_lt by lia. change (length ds) with n. rewrite Nat.leb_refl.
        eexists _, _, _. split; [reflexivity|]. rewrite Nat2Z.id.
        rewrite <- (rev_length acc). rewrite firstn_app, firstn_all, Nat.sub_diag. cbn [firstn]. apply app_nil_r.
      * eexists _, _, _. split; [reflexivity|]. rewrite Nat2Z.id.
        assert (length acc = n) by lia. replace (n - length acc)%nat with 0%nat by lia. cbn [repeat]. rewrite app_nil_r.
        rewrite <- (rev_length acc). apply firstn_all.
    + cbn [length] in *.
      assert (Hx : (x < n)%nat) by (apply (binv_bound ds (x :: q) acc); auto; apply in_or_app; right; left; auto).
      pose proof (binv_step ds x q acc Hx Hb) as Hb'. pose proof (binv_len _ _ Hb') as Hlen'.
      rewrite app_length in Hlen'. cbn [length] in Hlen'.
      replace (Z.of_nat (length acc) <? _) with true by (symmetry; apply Z.ltb_lt; lia).
      rewrite Nat2Z.id. rewrite <- app_assoc. rewrite app_nth2 by (rewrite rev_length; lia). rewrite rev_length, Nat.sub_diag.
      cbn [app nth]. change (length ds) with n. replace (n <=? x)%nat with false by (symmetry; apply Nat.leb_gt; auto).
      rewrite HM by auto.
      change (rev acc ++ x :: q ++ repeat n (n - (length acc + S (length q))))
        with (rev acc ++ (x :: q) ++ repeat n (n - (length acc + S (length q)))).
      rewrite app_assoc.
      replace (length acc + S (length q))%nat with (length (rev acc ++ x :: q)) by (rewrite app_length, rev_length; reflexivity).
      rewrite put_row.
      * destruct (IH (q ++ ups ds x) (x :: acc) Hb' ltac:(cbn [length]; lia)) as (i & j & a & E & Hfn).
        exists i, j, a. split; [|exact Hfn]. rewrite <- E.
        replace (Z.of_nat (length acc) + 1) with (Z.of_nat (length (x :: acc))) by (cbn [length]; lia).
        replace (length (rev acc ++ x :: q) + length (ups ds x))%nat with (length (x :: acc) + length (q ++ ups ds x))%nat
          by (rewrite !app_length, rev_length; cbn [length]; lia).
        replace (n - length (rev acc ++ x :: q) - length (ups ds x))%nat with (n - (length (x :: acc) + length (q ++ ups ds x)))%nat
          by (rewrite !app_length, rev_length; cbn [length]; lia).
        cbn [rev]. rewrite <- !app_assoc. reflexivity.
      * intros y Hy. apply ups_In in Hy. lia.
      * rewrite app_length, rev_length. cbn [length]. lia.
Qed.
End SeqEq.

(* core.idxs_seq *)
Theorem gen_idxs_seq_eq : forall ds pits, wf ds -> (0 < size ds)%nat ->
  (forall p, In p pits -> (p < size ds)%nat /\ dsf ds p = p) -> NoDup pits ->
  gen_idxs_seq ds pits = Some (idxs_seq ds pits).
Proof.
  intros ds pits Hwf Hn Hp Hnd. unfold gen_idxs_seq, idxs_seq. cbv zeta.
  destruct (gen_upstream_matrix_spec ds Hwf Hn) as (M & D & EM & _ & HM). rewrite EM.
  assert (Hb : binv ds pits []).
  { split; [constructor|]. split; [exact Hnd|]. split.
    - intros c Hc. apply Hp in Hc. destruct Hc as [Hc Hd]. split; [split; auto; rewrite Hd; auto|left; auto].
    - intros c _ _ []. }
  pose proof (binv_len ds _ _ Hb) as Hlen. cbn [length Nat.add] in Hlen.
  change (length ds) with (size ds).
  pose proof (put_pits ds pits pits [] (size ds) Hlen) as Hpp. cbn [length app Nat.add] in Hpp.
  change (Z.of_nat 0) with 0 in Hpp. rewrite Hpp.
  destruct (loop2_bfs ds pits M D HM (size ds) pits [] Hb ltac:(lia)) as (i & j & a & E & Hfn).
  cbn [length rev app Nat.add] in E. change (Z.of_nat 0) with 0 in E. rewrite E. rewrite Hfn. reflexivity.
Qed.

Print Assumptions gen_upstream_matrix_spec.
Print Assumptions gen_idxs_seq_eq.

(* non-vacuity: pit 0 with tributaries 1, 2; 3 drains to 1; 4 is nodata *)
Example gen_idxs_seq_example :
  wf [0;0;0;1;5]%nat /\ gen_upstream_matrix [0;0;0;1;5]%nat = Some [[1;2]; [3;5]; [5;5]; [5;5]; [5;5]]%nat /\
  gen_idxs_seq [0;0;0;1;5]%nat [0]%nat = Some [0;1;2;3]%nat.
Proof. split; [apply wfb_wf; vm_compute; reflexivity|vm_compute; auto]. Qed.
