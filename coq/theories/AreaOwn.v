(* basins.subbasins_area over a level order: every returned outlet that is not a pit has an OWN AREA
   (its upstream area minus the upstream areas of the outlets of the sub-basins draining into it)
   above the threshold.  The statement fails for topological orders that are not level orders
   (counterexample at the end). *)
From Coq Require Import List Arith ZArith Lia Bool Sorted Permutation.
Import ListNotations.
From PF Require Import Arr Net SweepDown Fill FillSpec Rank RankSpec Stream StreamSpec Subbas SubbasSpec AreaOwnDefs AreaOwnInv.
Local Open Scope Z_scope.

Lemma zsum_perm (f : nat -> Z) l l' : Permutation l l' -> zsum (map f l) = zsum (map f l').
Proof.
  induction 1 as [|x l l' Hp IH|x y l|l l' l'' H1 IH1 H2 IH2]; unfold zsum in *; cbn [map fold_right]; lia.
Qed.

(* ---------- the ghost array `own` is the own area of the specification ---------- *)
Section Link.
Variables (ds sq main : list nat) (uparea : list Z) (amin : Z) (lev : nat -> nat).
Hypothesis Ht : topo ds sq.
Hypothesis Hlev : forall c, In c sq -> dsf ds c <> c -> lev c = S (lev (dsf ds c)).
Variables (U : list Z) (os lab : list nat) (own sb : list Z).
Hypothesis HI : Inv ds sq main uparea amin lev sq U os lab own.
Hypothesis Hs : seeded (length ds) sb os.
Notation L := (fillnodata_upstream ds sq sb 0).
Notation lb c := (nth c lab 0%nat).
Notation dsf := (dsf ds).

Lemma lk_os_sq x : In x os -> In x sq.
Proof. apply (iv_sub _ _ _ _ _ _ _ _ _ _ _ HI). Qed.

Lemma lk_notsq i : ~ In i sq -> nth i L 0 = 0.
Proof.
  intros Hn. destruct Hs as (Hl & _ & _ & Ho).
  destruct (fill_up_spec ds 0 sb sq Hl Ht) as (_ & _ & H3). rewrite (H3 i Hn). apply Ho.
  intros Hi. apply Hn. apply lk_os_sq. exact Hi.
Qed.

Lemma lk_lab_iter i m : In i sq -> (forall j, (j < m)%nat -> ~ In (iter ds j i) os) -> lb i = lb (iter ds m i).
Proof.
  intros Hi. induction m as [|m IH]; intros H; [reflexivity|].
  rewrite IH by (intros j Hj; apply H; lia). rewrite iter_S.
  destruct (iv_lab _ _ _ _ _ _ _ _ _ _ _ HI (iter ds m i) (topo_closed_iter ds sq i m Ht Hi)) as (_ & _ & H3).
  apply H3. apply H. lia.
Qed.

Lemma lk_L_lab i : In i sq -> exists k, (k < length os)%nat /\ lb i = nth k os 0%nat /\ nth i L 0 = Z.of_nat k + 1.
Proof.
  intros Hi. destruct (label_first_outlet ds sq sb os Ht Hs i Hi) as (m & Hm & [(k & Hk & E1 & E2)|(N & Ep & _)]).
  - exists k. split; auto. split; auto. rewrite (lk_lab_iter i m Hi) by (intros j Hj; apply (Hm j Hj)).
    rewrite <- E1.
    destruct (iv_lab _ _ _ _ _ _ _ _ _ _ _ HI (iter ds m i) (topo_closed_iter ds sq i m Ht Hi)) as (_ & H2 & _).
    apply H2. rewrite E1. apply nth_In. exact Hk.
  - exfalso. apply N. apply (iv_pit _ _ _ _ _ _ _ _ _ _ _ HI); auto. apply topo_closed_iter; auto.
Qed.

Lemma lk_nz i : In i sq -> nth i L 0 <> 0.
Proof. intros Hi. destruct (lk_L_lab i Hi) as (k & _ & _ & E). lia. Qed.

Lemma lk_lab_self x : In x os -> lb x = x.
Proof.
  intros Hx. destruct (iv_lab _ _ _ _ _ _ _ _ _ _ _ HI x (lk_os_sq x Hx)) as (_ & H2 & _). auto.
Qed.

Lemma lk_eq_iff i x : In i sq -> In x os -> (nth i L 0 = nth x L 0 <-> lb i = x).
Proof.
  intros Hi Hx. destruct (lk_L_lab i Hi) as (k & Hk & E1 & E2).
  destruct (lk_L_lab x (lk_os_sq x Hx)) as (k' & Hk' & E1' & E2'). rewrite (lk_lab_self x Hx) in E1'.
  assert (Hnd : NoDup os) by apply (iv_nd _ _ _ _ _ _ _ _ _ _ _ HI).
  split.
  - intros E. assert (k = k') by lia. subst k'. congruence.
  - intros E. assert (k = k'); [|subst k'; lia].
    apply (proj1 (NoDup_nth os 0%nat) Hnd); auto. congruence.
Qed.

Lemma lk_members x c : In x os ->
  (In c (filter (drains_into ds L (nth x L 0)) (seq 0 (length ds))) <-> In c (filter (inp ds lab x) os)).
Proof.
  intros Hx. rewrite !filter_In. unfold drains_into, inp. split.
  - intros [Hc H]. apply andb_true_iff in H. destruct H as [H H3]. apply andb_true_iff in H. destruct H as [H1 H2].
    apply Z.eqb_eq in H1. apply negb_true_iff, Z.eqb_neq in H2. apply negb_true_iff, Z.eqb_neq in H3.
    assert (Hcs : In c sq).
    { destruct (in_dec Nat.eq_dec c sq) as [Y|N]; auto. exfalso. apply H3. apply lk_notsq. exact N. }
    assert (Hds : In (dsf c) sq) by (apply topo_closed; auto).
    assert (E1 : lb (dsf c) = x) by (apply (lk_eq_iff (dsf c) x Hds Hx); exact H1).
    assert (E2 : lb c <> x) by (intros E; apply H2; apply (lk_eq_iff c x Hcs Hx); exact E).
    assert (Np : dsf c <> c) by (intros E; rewrite E in H1; contradiction).
    assert (Oc : In c os).
    { destruct (in_dec Nat.eq_dec c os) as [Y|N]; auto. exfalso. apply E2.
      destruct (iv_lab _ _ _ _ _ _ _ _ _ _ _ HI c Hcs) as (_ & _ & H4). rewrite (H4 N). exact E1. }
    split; auto. apply andb_true_iff. split.
    + apply negb_true_iff, Nat.eqb_neq. exact Np.
    + apply Nat.eqb_eq. exact E1.
  - intros [Oc H]. apply andb_true_iff in H. destruct H as [H1 H2].
    apply negb_true_iff, Nat.eqb_neq in H1. apply Nat.eqb_eq in H2.
    assert (Hcs := lk_os_sq c Oc). assert (Hds : In (dsf c) sq) by (apply topo_closed; auto).
    assert (Hne : c <> x).
    { intros ->. assert (Lx := Hlev x Hcs H1).
      destruct (iv_lablev _ _ _ _ _ _ _ _ _ _ _ HI (dsf x) Hds) as [E|E]; [rewrite H2 in E|rewrite H2 in E; lia].
      rewrite <- E in Lx. lia. }
    split; [apply in_seq; destruct (topo_valid ds sq c Ht Hcs) as [Hv _]; unfold size in Hv; lia|].
    apply andb_true_iff. split; [apply andb_true_iff; split|].
    + apply Z.eqb_eq. apply (lk_eq_iff (dsf c) x Hds Hx). exact H2.
    + apply negb_true_iff, Z.eqb_neq. intros E. apply Hne. rewrite <- (lk_lab_self c Oc).
      apply (lk_eq_iff c x Hcs Hx). exact E.
    + apply negb_true_iff, Z.eqb_neq. apply lk_nz. exact Hcs.
Qed.

Theorem own_area_ghost x : In x os -> own_area ds L uparea x = nth x own 0.
Proof.
  intros Hx. unfold own_area. rewrite (iv_own _ _ _ _ _ _ _ _ _ _ _ HI x Hx). unfold fsum. f_equal.
  apply zsum_perm. apply NoDup_Permutation.
  - apply NoDup_filter. apply seq_NoDup.
  - apply NoDup_filter. apply (iv_nd _ _ _ _ _ _ _ _ _ _ _ HI).
  - intros c. apply lk_members. exact Hx.
Qed.
End Link.

(* ---------- the theorem under the abstract hypotheses ---------- *)
Theorem area_own_bound_gen ds sq main uparea amin (lev : nat -> nat) :
  topo ds sq ->
  (forall c, (c < length ds)%nat -> In (dsf ds c) sq -> In c sq) ->
  length uparea = length ds ->
  (forall d l, In d sq -> NoDup l -> (forall c, In c l -> child ds c d) ->
     zsum (map (fun c => nth c uparea 0) l) < nth d uparea 0) ->
  (forall d c, In d sq -> child ds c d ->
     nth d main (length ds) = c \/
     (child ds (nth d main (length ds)) d /\ nth c uparea 0 <= nth (nth d main (length ds)) uparea 0)) ->
  (forall c, In c sq -> dsf ds c <> c -> lev c = S (lev (dsf ds c))) ->
  StronglySorted (fun x y => (lev x <= lev y)%nat) sq ->
  let r := subbasins_area ds sq main uparea amin in
  forall x, In x (snd r) -> dsf ds x <> x -> amin < own_area ds (fst r) uparea x.
Proof.
  intros Ht Hcl Hlen Hacc Hmain Hlev Hsorted r x Hx Np.
  destruct (area_seeded ds sq main uparea amin Ht) as (Hs & Hin & Er).
  assert (HI := afold_final ds sq main uparea amin lev Ht Hcl Hlen Hacc Hmain Hlev Hsorted). cbv zeta in HI.
  assert (Hv : forall y, In y sq -> (dsf ds y < length ds)%nat).
  { intros y Hy. destruct (topo_valid ds sq y Ht Hy) as [_ H]. exact H. }
  destruct (afold_sim ds main uparea amin sq uparea (repeat 0 (length ds)) [] (repeat 0%nat (length ds))
              (repeat 0 (length ds)) Hlen Hv) as [_ Eo].
  fold (ginit ds uparea) in Eo.
  unfold r in *. rewrite Er in *. cbn [fst snd] in *.
  set (st := fold_left (area_step ds main uparea amin) sq (uparea, repeat 0 (length ds), [])) in *.
  set (s := fold_left (astep ds main uparea amin) sq (ginit ds uparea)) in *.
  rewrite <- Eo in HI.
  rewrite (own_area_ghost ds sq main uparea amin lev Ht Hlev (gU s) (snd st) (gL s) (gW s) (snd (fst st)) HI Hs x Hx).
  apply (iv_I6 _ _ _ _ _ _ _ _ _ _ _ HI x Hx Np).
Qed.

(* by-product: which cells are returned.  Every tributary (not the main upstream cell of its downstream cell)
   whose upstream area exceeds the threshold is a returned outlet; a returned outlet that is not a pit exceeds the
   threshold and is such a tributary, or a main upstream cell that leaves at most the threshold at its confluence *)
Theorem area_outlets_gen ds sq main uparea amin (lev : nat -> nat) :
  topo ds sq ->
  (forall c, (c < length ds)%nat -> In (dsf ds c) sq -> In c sq) ->
  length uparea = length ds ->
  (forall d l, In d sq -> NoDup l -> (forall c, In c l -> child ds c d) ->
     zsum (map (fun c => nth c uparea 0) l) < nth d uparea 0) ->
  (forall d c, In d sq -> child ds c d ->
     nth d main (length ds) = c \/
     (child ds (nth d main (length ds)) d /\ nth c uparea 0 <= nth (nth d main (length ds)) uparea 0)) ->
  (forall c, In c sq -> dsf ds c <> c -> lev c = S (lev (dsf ds c))) ->
  StronglySorted (fun x y => (lev x <= lev y)%nat) sq ->
  let r := subbasins_area ds sq main uparea amin in
  (forall t, In t sq -> dsf ds t <> t -> amin < nth t uparea 0 -> nth (dsf ds t) main (length ds) <> t -> In t (snd r)) /\
  (forall x, In x (snd r) -> dsf ds x = x \/
     (amin < nth x uparea 0 /\
      (nth (dsf ds x) main (length ds) <> x \/ nth (dsf ds x) uparea 0 - nth x uparea 0 <= amin))).
Proof.
  intros Ht Hcl Hlen Hacc Hmain Hlev Hsorted r.
  destruct (area_seeded ds sq main uparea amin Ht) as (Hs & Hin & Er).
  assert (HI := afold_final ds sq main uparea amin lev Ht Hcl Hlen Hacc Hmain Hlev Hsorted). cbv zeta in HI.
  assert (Hv : forall y, In y sq -> (dsf ds y < length ds)%nat).
  { intros y Hy. destruct (topo_valid ds sq y Ht Hy) as [_ H]. exact H. }
  destruct (afold_sim ds main uparea amin sq uparea (repeat 0 (length ds)) [] (repeat 0%nat (length ds))
              (repeat 0 (length ds)) Hlen Hv) as [_ Eo].
  fold (ginit ds uparea) in Eo.
  unfold r in *. rewrite Er in *. cbn [fst snd] in *. rewrite <- Eo in HI. split.
  - apply (iv_I2 _ _ _ _ _ _ _ _ _ _ _ HI).
  - apply (iv_I4 _ _ _ _ _ _ _ _ _ _ _ HI).
Qed.

(* ---------- the hypotheses that real inputs satisfy ---------- *)
(* uparea is the accumulation of positive cell weights over the ordered cells *)
Definition accumulates (ds sq : list nat) (uparea : list Z) : Prop :=
  exists w : nat -> Z, forall d, In d sq ->
    0 < w d /\ nth d uparea 0 = w d + zsum (map (fun c => nth c uparea 0) (ups ds d)).

(* the order lists the cells by their number of steps to the pit *)
Definition level_order (ds sq : list nat) : Prop :=
  exists lev : nat -> nat,
    (forall c, In c sq -> dsf ds c <> c -> lev c = S (lev (dsf ds c))) /\
    StronglySorted (fun x y => (lev x <= lev y)%nat) sq.

(* the order is closed upstream (it is: it lists all cells that drain to a pit) *)
Definition upstream_closed (ds sq : list nat) : Prop :=
  forall c, (c < length ds)%nat -> In (dsf ds c) sq -> In c sq.

Lemma zsum_sub (f : nat -> Z) (l l' : list nat) : NoDup l -> (forall c, In c l -> In c l') ->
  (forall c, In c l' -> 0 <= f c) -> zsum (map f l) <= zsum (map f l').
Proof.
  revert l'. induction l as [|h t IH]; intros l' Hnd Hin Hpos.
  - cbn [map zsum fold_right]. clear Hin. induction l' as [|h' t' IH']; cbn [map zsum fold_right]; [lia|].
    assert (0 <= f h') by (apply Hpos; left; reflexivity).
    assert (0 <= zsum (map f t')) by (apply IH'; intros c Hc; apply Hpos; right; exact Hc).
    unfold zsum in *. lia.
  - inversion Hnd as [|h0 t0 Hh Ht0]; subst.
    destruct (in_split h l' (Hin h (or_introl eq_refl))) as (l1 & l2 & ->).
    rewrite map_app, zsum_app. cbn [map zsum fold_right].
    assert (H : zsum (map f t) <= zsum (map f (l1 ++ l2))).
    { apply IH; auto.
      - intros c Hc. assert (Hc' := Hin c (or_intror Hc)). apply in_app_or in Hc'.
        apply in_or_app. destruct Hc' as [Hc'|[Hc'|Hc']]; auto. subst c. contradiction.
      - intros c Hc. apply Hpos. apply in_app_or in Hc. apply in_or_app. destruct Hc as [Hc|Hc]; auto. right. right. exact Hc. }
    rewrite map_app, zsum_app in H. unfold zsum in *. lia.
Qed.

Section Real.
Variables (ds sq : list nat) (uparea : list Z).
Hypothesis Ht : topo ds sq.
Hypothesis Hcl : upstream_closed ds sq.
Hypothesis Hac : accumulates ds sq uparea.
Notation a c := (nth c uparea 0).

Lemma ups_sq d c : In d sq -> In c (ups ds d) -> In c sq.
Proof. intros Hd Hc. apply ups_In in Hc. destruct Hc as (H1 & H2 & _). apply Hcl; [exact H1|rewrite H2; exact Hd]. Qed.

(* positivity, from the upstream end of the order *)
Lemma acc_pos_suffix s2 : forall s1, sq = s1 ++ s2 -> forall d, In d s2 -> 0 < a d.
Proof.
  destruct Hac as (w & Hw).
  induction s2 as [|x s2 IH]; intros s1 E d Hd; [destruct Hd|].
  assert (IH' : forall c, In c s2 -> 0 < a c).
  { apply (IH (s1 ++ [x])). rewrite <- app_assoc. exact E. }
  destruct Hd as [<-|Hd]; [|apply IH'; exact Hd].
  assert (Hx : In x sq) by (rewrite E; apply in_or_app; right; left; reflexivity).
  destruct (Hw x Hx) as [Hw1 Hw2]. rewrite Hw2.
  assert (0 <= zsum (map (fun c => a c) (ups ds x))); [|lia].
  assert (Hk : forall c, In c (ups ds x) -> 0 <= a c).
  { intros c Hc. assert (Hcs := ups_sq x c Hx Hc). apply ups_In in Hc. destruct Hc as (_ & H2 & H3).
    assert (Ht1 : topo ds (s1 ++ [x])).
    { apply (topo_app_l ds (s1 ++ [x]) s2). rewrite <- app_assoc. cbn [app]. rewrite <- E. exact Ht. }
    destruct (topo_last ds s1 x Ht1) as (_ & Nx & _).
    rewrite E in Hcs. apply in_app_or in Hcs. destruct Hcs as [Hc1|[Hc1|Hc1]].
    - exfalso. apply Nx. rewrite <- H2. apply (topo_closed ds s1 c (topo_app_l ds s1 [x] Ht1) Hc1).
    - exfalso. apply H3. auto.
    - assert (H := IH' c Hc1). lia. }
  clear - Hk. induction (ups ds x) as [|h t IHt]; cbn [map zsum fold_right]; [lia|].
  assert (0 <= a h) by (apply Hk; left; reflexivity).
  assert (0 <= zsum (map (fun c => a c) t)) by (apply IHt; intros c Hc; apply Hk; right; exact Hc).
  unfold zsum in *. lia.
Qed.

Lemma acc_pos d : In d sq -> 0 < a d.
Proof. apply (acc_pos_suffix sq []). reflexivity. Qed.

Lemma acc_sub d l : In d sq -> NoDup l -> (forall c, In c l -> child ds c d) ->
  zsum (map (fun c => nth c uparea 0) l) < a d.
Proof.
  intros Hd Hnd Hl. destruct Hac as (w & Hw). destruct (Hw d Hd) as [Hw1 Hw2]. rewrite Hw2.
  assert (zsum (map (fun c => a c) l) <= zsum (map (fun c => a c) (ups ds d))); [|lia].
  apply zsum_sub; auto.
  - intros c Hc. apply ups_In. apply Hl. exact Hc.
  - intros c Hc. assert (H := acc_pos c (ups_sq d c Hd Hc)). lia.
Qed.

Lemma main_sub d c : In d sq -> child ds c d ->
  let m := nth d (main_upstream ds uparea 0) (length ds) in
  m = c \/ (child ds m d /\ a c <= a m).
Proof.
  intros Hd Hc m. destruct (topo_valid ds sq d Ht Hd) as [Hdn _].
  destruct Hc as (C1 & C2 & C3).
  assert (Hcs : In c sq) by (apply Hcl; [exact C1|rewrite C2; exact Hd]).
  destruct (main_upstream_spec ds uparea 0 d Hdn) as [[_ H]|(H1 & H2 & H3 & _ & H5)]; unfold size in *.
  - exfalso. assert (Hp := acc_pos c Hcs). assert (Hle := H c C1 C2 C3). lia.
  - right. fold m in H1, H2, H3, H5. split; [split; auto|]. apply (H5 c C1 C2 C3).
Qed.
End Real.

(* ---------- TARGET ---------- *)
Theorem area_own_bound ds sq main uparea amin :
  topo ds sq ->
  upstream_closed ds sq ->
  level_order ds sq ->
  length uparea = length ds ->
  accumulates ds sq uparea ->
  main = main_upstream ds uparea 0 ->
  let r := subbasins_area ds sq main uparea amin in
  forall x, In x (snd r) -> dsf ds x <> x -> amin < own_area ds (fst r) uparea x.
Proof.
  intros Ht Hcl (lev & Hlev & Hsorted) Hlen Hac ->.
  apply (area_own_bound_gen ds sq (main_upstream ds uparea 0) uparea amin lev); auto.
  - intros d l. apply acc_sub; auto.
  - intros d c. apply main_sub; auto.
Qed.

Theorem area_outlets ds sq main uparea amin :
  topo ds sq ->
  upstream_closed ds sq ->
  level_order ds sq ->
  length uparea = length ds ->
  accumulates ds sq uparea ->
  main = main_upstream ds uparea 0 ->
  let r := subbasins_area ds sq main uparea amin in
  (forall t, In t sq -> dsf ds t <> t -> amin < nth t uparea 0 -> nth (dsf ds t) main (length ds) <> t -> In t (snd r)) /\
  (forall x, In x (snd r) -> dsf ds x = x \/
     (amin < nth x uparea 0 /\
      (nth (dsf ds x) main (length ds) <> x \/ nth (dsf ds x) uparea 0 - nth x uparea 0 <= amin))).
Proof.
  intros Ht Hcl (lev & Hlev & Hsorted) Hlen Hac ->.
  apply (area_outlets_gen ds sq (main_upstream ds uparea 0) uparea amin lev); auto.
  - intros d l. apply acc_sub; auto.
  - intros d c. apply main_sub; auto.
Qed.

Print Assumptions area_own_bound.
Print Assumptions area_outlets.
