(* C09 / ihu, structural facts 2 and 3b: A COARSE CELL IS VALID EXACTLY WHERE AN OUTLET PIXEL IS REPORTED, and THE OUTLET
   PIXEL OF A CELL LIES IN A VALID COARSE CELL -- for the result of the iterative method.
   Invariant G0 of the two arrays (idxs_ds, subidxs_out), both of length nc:
     pi  every cell has either no link and no outlet pixel, or a link to a cell index and an outlet pixel that is a valid
         fine pixel;
     dc  the downstream cell of a valid cell is a valid cell;
     oc  the cell in which the outlet pixel of a cell lies is valid (the pixel may lie outside its own cell: pit_out_of_cell);
     pv  every coarse cell that contains a pit is valid.
   The stages that use `streams` also keep  StOK: streams has length nsub and every pixel marked with a cell index (>= 0)
   lies in a valid cell.  Every store of the stages is an instance of one lemma (W_both); ihu_relocate_outlets'
   s4_unroll restores EXACTLY the arrays of the start of the pass (replay lemmas), which is why undoing keeps the invariant.
   Validity of a cell is never lost (mono), so the cells listed by upscale_check stay valid while they are processed. *)
From Coq Require Import List Arith ZArith Bool Lia.
Import ListNotations.
From PF Require Import Arr Net Elev Upscale UpscaleSpec UpscaleD8 UpscaleNoErr UpscaleDistinct NetBound TermIhu
  D8Idx D8IdxSpec Ihu IhuD8.

(* ---------- lists ---------- *)
Lemma upd_upd {A} (c : list A) i a b : upd (upd c i a) i b = upd c i b.
Proof. revert i; induction c as [|h t IH]; intros [|i]; cbn [upd]; try reflexivity. f_equal. apply IH. Qed.

Lemma upd_comm {A} (c : list A) i j a b : i <> j -> upd (upd c i a) j b = upd (upd c j b) i a.
Proof.
  revert i j; induction c as [|h t IH]; intros [|i] [|j] H; cbn [upd]; try reflexivity; try congruence.
  f_equal. apply IH. congruence.
Qed.

Definition replay (l : list (nat * nat)) (c : list nat) : list nat := fold_left (fun l p => upd l (fst p) (snd p)) l c.

Lemma replay_app l1 l2 c : replay (l1 ++ l2) c = replay l2 (replay l1 c).
Proof. unfold replay. apply fold_left_app. Qed.

Lemma replay_length l : forall c, length (replay l c) = length c.
Proof. induction l as [|p t IH]; intros c; cbn [replay fold_left]; [reflexivity|]. fold (replay t (upd c (fst p) (snd p))).
  rewrite IH. apply upd_length. Qed.

Lemma replay_notin l i v : ~ In i (map fst l) -> forall c, replay l (upd c i v) = upd (replay l c) i v.
Proof.
  induction l as [|p t IH]; intros Hn c; [reflexivity|]. cbn [replay fold_left].
  fold (replay t (upd (upd c i v) (fst p) (snd p))). fold (replay t (upd c (fst p) (snd p))).
  cbn [map In] in Hn. rewrite upd_comm by (intros E; apply Hn; left; symmetry; exact E).
  apply IH. intros H. apply Hn. right. exact H.
Qed.

Lemma replay_nth_notin l i d : ~ In i (map fst l) -> forall c, nth i (replay l c) d = nth i c d.
Proof.
  induction l as [|p t IH]; intros Hn c; [reflexivity|]. cbn [replay fold_left]. fold (replay t (upd c (fst p) (snd p))).
  cbn [map In] in Hn. rewrite IH by (intros H; apply Hn; right; exact H).
  apply nth_upd_neq. intros E. apply Hn. left. symmetry. exact E.
Qed.

Lemma replay_absorb l i b : forall c a, upd (replay l (upd c i a)) i b = upd (replay l c) i b.
Proof.
  induction l as [|[j x] t IH]; intros c a; cbn [replay fold_left fst snd]; [apply upd_upd|].
  fold (replay t (upd (upd c i a) j x)). fold (replay t (upd c j x)).
  destruct (Nat.eq_dec i j) as [->|Hne].
  - rewrite upd_upd. reflexivity.
  - rewrite upd_comm by exact Hne. apply IH.
Qed.

Lemma replay_idem l : forall c, replay l (replay l c) = replay l c.
Proof.
  induction l as [|[i a] t IH] using rev_ind; intros c; [reflexivity|].
  rewrite !replay_app. cbn [replay fold_left fst snd]. rewrite replay_absorb. rewrite IH. reflexivity.
Qed.

Lemma In_ins_key k v l p : In p (ins_key k v l) -> p = (k, v) \/ In p l.
Proof.
  induction l as [|[k' v'] t IH]; cbn [ins_key]; [intros [H|[]]; left; symmetry; exact H|].
  destruct (k <? k')%Z; cbn [In]; [intros [H|H]; [left; symmetry; exact H|right; exact H]|].
  intros [H|H]; [right; left; exact H|]. destruct (IH H) as [E|E]; [left; exact E|right; right; exact E].
Qed.

Lemma argsort_lt keys i : In i (argsort keys) -> i < length keys.
Proof.
  unfold argsort. intros H. apply in_map_iff in H. destruct H as [[k j] [E H]]. cbn [snd] in E. subst j.
  assert (G : forall L acc, In (k, i) (fold_left (fun acc kv => ins_key (fst kv) (snd kv) acc) L acc) ->
              In (k, i) L \/ In (k, i) acc).
  { induction L as [|[k1 v1] t IH]; intros acc Hin; cbn [fold_left] in Hin; [right; exact Hin|].
    destruct (IH _ Hin) as [E|E]; [left; right; exact E|]. cbn [fst snd] in E.
    destruct (In_ins_key _ _ _ _ E) as [E1|E1]; [left; left; symmetry; exact E1|right; exact E1]. }
  destruct (G _ _ H) as [E|[]]. apply in_combine_r in E. apply in_seq in E. lia.
Qed.

Lemma In_ins_uniq y l x : In x (ins_uniq y l) -> x = y \/ In x l.
Proof.
  induction l as [|h t IH]; cbn [ins_uniq]; [intros [H|[]]; left; symmetry; exact H|].
  destruct (y <? h); [intros [H|H]; [left; symmetry; exact H|right; exact H]|].
  destruct (y =? h); [intros H; right; exact H|].
  intros [H|H]; [right; left; exact H|]. destruct (IH H) as [E|E]; [left; exact E|right; right; exact E].
Qed.

Lemma In_uniq_sorted l x : In x (uniq_sorted l) -> In x l.
Proof.
  unfold uniq_sorted.
  assert (G : forall L acc, In x (fold_left (fun acc y => ins_uniq y acc) L acc) -> In x L \/ In x acc).
  { induction L as [|h t IH]; intros acc Hin; cbn [fold_left] in Hin; [right; exact Hin|].
    destruct (IH _ Hin) as [E|E]; [left; right; exact E|].
    destruct (In_ins_uniq _ _ _ E) as [E1|E1]; [left; left; symmetry; exact E1|right; exact E1]. }
  intros H. destruct (G _ _ H) as [E|[]]. exact E.
Qed.

Lemma Forall2_nth {A B} (P : A -> B -> Prop) l1 l2 d1 d2 : Forall2 P l1 l2 ->
  forall j, j < length l2 -> P (nth j l1 d1) (nth j l2 d2).
Proof.
  intros H. induction H as [|x y l1 l2 Hxy H IH]; intros j Hj; cbn [length] in Hj; [lia|].
  destruct j as [|j]; cbn [nth]; [exact Hxy|]. apply IH. lia.
Qed.

Section IhuValid.
Variable sds : list nat.
Variable upa : list Z.
Variables subnrow subncol cs : nat.
Notation nsub := (length sds).
Notation nrow := (cdiv subnrow cs).
Notation ncol := (cdiv subncol cs).
Notation nc := (nrow * ncol).
Notation sd := (Upscale.sd sds).
Notation cell s := (sub2idx s subncol cs ncol).

Hypothesis Hcs : 0 < cs.
Hypothesis HW : 0 < subncol.
Hypothesis Hlen : nsub = subnrow * subncol.
(* closed fine network *)
Hypothesis Hwf : forall t, t < nsub -> sd t < nsub -> sd (sd t) < nsub.

Lemma ncol_pos : 0 < ncol.
Proof. destruct (cdiv_bound subncol cs Hcs) as [H _]. nia. Qed.

Lemma cell_lt s : s < nsub -> cell s < nc.
Proof. intros H. apply coarse_shape_covers; [exact Hcs|exact HW|rewrite <- Hlen; exact H]. Qed.

Definition VPix (s : nat) : Prop := s < nsub /\ sd s < nsub.
Lemma VPix_sd s : VPix s -> VPix (sd s).
Proof. intros [H1 H2]. split; [exact H2|apply Hwf; assumption]. Qed.
Lemma VPix_of_sd s : sd s < nsub -> VPix s.
Proof.
  intros H. split; [|exact H]. destruct (Nat.lt_ge_cases s nsub) as [Hl|Hg]; [exact Hl|].
  unfold Upscale.sd in H. rewrite nth_overflow in H by exact Hg. lia.
Qed.

Definition Val (cds : list nat) (i : nat) : Prop := nth i cds nc < nc.
Definition mono (cds cds' : list nat) : Prop := forall i, Val cds i -> Val cds' i.

Lemma mono_refl c : mono c c.
Proof. intros i H. exact H. Qed.
Lemma mono_trans c1 c2 c3 : mono c1 c2 -> mono c2 c3 -> mono c1 c3.
Proof. intros H1 H2 i H. apply H2, H1, H. Qed.

Record G0 (cds out : list nat) : Prop := mkG0 {
  g_lc : length cds = nc;
  g_lo : length out = nc;
  g_pi : forall i, i < nc -> (nth i cds nc = nc /\ nth i out nsub = nsub) \/ (nth i cds nc < nc /\ VPix (nth i out nsub));
  g_dc : forall i, Val cds i -> Val cds (nth i cds nc);
  g_oc : forall i, i < nc -> nth i out nsub < nsub -> Val cds (cell (nth i out nsub));
  g_pv : forall t, t < nsub -> sd t = t -> Val cds (cell t) }.

Lemma Val_lt cds i : length cds = nc -> Val cds i -> i < nc.
Proof.
  intros Hl H. destruct (Nat.lt_ge_cases i nc) as [Hi|Hi]; [exact Hi|].
  unfold Val in H. rewrite nth_overflow in H by (rewrite Hl; exact Hi). lia.
Qed.

Lemma G0_vpix cds out i : G0 cds out -> Val cds i -> VPix (nth i out nsub).
Proof.
  intros G H. destruct (g_pi _ _ G i (Val_lt _ _ (g_lc _ _ G) H)) as [[E _]|[_ E]]; [unfold Val in H; lia|exact E].
Qed.

Lemma G0_val_of_out cds out i : G0 cds out -> i < nc -> nth i out nsub < nsub -> Val cds i.
Proof. intros G Hi H. destruct (g_pi _ _ G i Hi) as [[_ E]|[E _]]; [lia|exact E]. Qed.

(* the one store: cell x gets the link v and the outlet pixel p *)
Lemma W_both cds out x v p : G0 cds out -> x < nc -> v < nc -> (v = x \/ Val cds v) -> VPix p ->
  (cell p = x \/ Val cds (cell p)) -> G0 (upd cds x v) (upd out x p) /\ mono cds (upd cds x v).
Proof.
  intros G Hx Hv Hvv Hp Hcp.
  assert (Hm : mono cds (upd cds x v)).
  { intros i Hi. unfold Val. rewrite nth_upd. destruct (Nat.eqb i x && Nat.ltb x (length cds)); [exact Hv|exact Hi]. }
  assert (Hxv : Val (upd cds x v) x).
  { unfold Val. rewrite nth_upd_eq by (rewrite (g_lc _ _ G); exact Hx). exact Hv. }
  split; [|exact Hm]. constructor.
  - rewrite upd_length. apply (g_lc _ _ G).
  - rewrite upd_length. apply (g_lo _ _ G).
  - intros i Hi. destruct (Nat.eq_dec i x) as [->|Hne].
    + right. rewrite !nth_upd_eq by (rewrite ?(g_lc _ _ G), ?(g_lo _ _ G); exact Hx). split; assumption.
    + rewrite !nth_upd_neq by exact Hne. apply (g_pi _ _ G i Hi).
  - intros i Hi. destruct (Nat.eq_dec i x) as [->|Hne].
    + rewrite nth_upd_eq by (rewrite (g_lc _ _ G); exact Hx). destruct Hvv as [->|Hvv]; [exact Hxv|apply Hm; exact Hvv].
    + unfold Val in Hi. rewrite nth_upd_neq in * by exact Hne. apply Hm. apply (g_dc _ _ G). exact Hi.
  - intros i Hi Ho. destruct (Nat.eq_dec i x) as [->|Hne].
    + rewrite nth_upd_eq by (rewrite (g_lo _ _ G); exact Hx). destruct Hcp as [->|Hcp]; [exact Hxv|apply Hm; exact Hcp].
    + rewrite nth_upd_neq in * by exact Hne. apply Hm. apply (g_oc _ _ G i Hi Ho).
  - intros t Ht Hpit. apply Hm. apply (g_pv _ _ G t Ht Hpit).
Qed.

Lemma W_cds cds out x v : G0 cds out -> Val cds x -> Val cds v -> G0 (upd cds x v) out /\ mono cds (upd cds x v).
Proof.
  intros G Hx Hv. pose proof (Val_lt _ _ (g_lc _ _ G) Hx) as Hxl. pose proof (Val_lt _ _ (g_lc _ _ G) Hv) as Hvl.
  rewrite <- (upd_same out x nsub) at 1.
  apply W_both; [exact G|exact Hxl|exact Hvl|right; exact Hv|apply (G0_vpix _ _ _ G Hx)|right].
  apply (g_oc _ _ G x Hxl). apply (G0_vpix _ _ _ G Hx).
Qed.

Lemma W_out cds out x p : G0 cds out -> Val cds x -> VPix p -> (cell p = x \/ Val cds (cell p)) -> G0 cds (upd out x p).
Proof.
  intros G Hx Hp Hcp. pose proof (Val_lt _ _ (g_lc _ _ G) Hx) as Hxl.
  rewrite <- (upd_same cds x nc).
  apply W_both; [exact G|exact Hxl|exact Hx|right; apply (g_dc _ _ G); exact Hx|exact Hp|exact Hcp].
Qed.

Ltac split_andb H :=
  repeat match type of H with
  | (_ && _) = true => let H1 := fresh H in apply andb_true_iff in H; destruct H as [H H1]
  end.

(* ---------- ihu_relocate_outlets, STEP 4: the arrays and the logs ---------- *)
Lemma replay_cons p l c : replay (p :: l) c = replay l (upd c (fst p) (snd p)).
Proof. reflexivity. Qed.

Lemma s4_set_ds_cds s i v : s_cds (s4_set_ds nrow ncol s i v) = upd (s_cds s) i v.
Proof.
  unfold s4_set_ds. destruct (Nat.eqb_spec (nth i (s_cds s) nc) v) as [E|E]; cbn [s_cds]; [|reflexivity].
  rewrite <- E. symmetry. apply upd_same.
Qed.
Lemma s4_set_ds_out s i v : s_out (s4_set_ds nrow ncol s i v) = s_out s.
Proof. unfold s4_set_ds. destruct (nth i (s_cds s) nc =? v); reflexivity. Qed.
Lemma s4_set_ds_chg_out s i v : s_chg_out (s4_set_ds nrow ncol s i v) = s_chg_out s.
Proof. unfold s4_set_ds. destruct (nth i (s_cds s) nc =? v); reflexivity. Qed.
Lemma in_out_set_ds s i v j : in_out (s4_set_ds nrow ncol s i v) j = in_out s j.
Proof. unfold in_out. rewrite s4_set_ds_chg_out. reflexivity. Qed.

Lemma s4_set_out_out s i v : s_out (s4_set_out sds s i v) = upd (s_out s) i v.
Proof.
  unfold s4_set_out. destruct (Nat.eqb_spec v (nth i (s_out s) nsub)) as [E|E]; cbn [s_out]; [|reflexivity].
  rewrite E. symmetry. apply upd_same.
Qed.
Lemma s4_set_out_cds s i v : s_cds (s4_set_out sds s i v) = s_cds s.
Proof. unfold s4_set_out. destruct (v =? nth i (s_out s) nsub); reflexivity. Qed.
Lemma s4_set_out_chg_ds s i v : s_chg_ds (s4_set_out sds s i v) = s_chg_ds s.
Proof. unfold s4_set_out. destruct (v =? nth i (s_out s) nsub); reflexivity. Qed.

Definition RD (c0 : list nat) (s : S4) : Prop := replay (rev (s_chg_ds s)) (s_cds s) = c0.
Definition RO (o0 : list nat) (s : S4) : Prop := replay (s_chg_out s) (s_out s) = o0.

Lemma RD_set_ds c0 s i v : RD c0 s -> RD c0 (s4_set_ds nrow ncol s i v).
Proof.
  unfold RD, s4_set_ds. intros H. destruct (nth i (s_cds s) nc =? v); [exact H|]. cbn [s_chg_ds s_cds].
  rewrite rev_app_distr. cbn [rev app]. rewrite replay_cons. cbn [fst snd]. rewrite upd_upd, upd_same. exact H.
Qed.
Lemma RD_set_out c0 s i v : RD c0 s -> RD c0 (s4_set_out sds s i v).
Proof. unfold RD. rewrite s4_set_out_cds, s4_set_out_chg_ds. intros H; exact H. Qed.
Lemma RO_set_ds o0 s i v : RO o0 s -> RO o0 (s4_set_ds nrow ncol s i v).
Proof. unfold RO. rewrite s4_set_ds_out, s4_set_ds_chg_out. intros H; exact H. Qed.
Lemma RO_set_out o0 s i v : in_out s i = false -> RO o0 s -> RO o0 (s4_set_out sds s i v).
Proof.
  unfold RO, s4_set_out, in_out. intros Hn H. apply memb_false in Hn.
  destruct (v =? nth i (s_out s) nsub); [exact H|]. cbn [s_chg_out s_out].
  rewrite replay_app. rewrite replay_notin by exact Hn. rewrite replay_cons. cbn [fst snd replay fold_left].
  rewrite upd_upd. rewrite <- (replay_nth_notin _ i nsub Hn (s_out s)). rewrite upd_same. exact H.
Qed.

Lemma s4_unroll_cds s : s_cds (s4_unroll s) = replay (rev (s_chg_ds s)) (s_cds s).
Proof. reflexivity. Qed.
Lemma s4_unroll_out s : s_out (s4_unroll s) = replay (s_chg_out s) (s_out s).
Proof. reflexivity. Qed.

Lemma next_outlet_spec fuel out : forall subidx r, VPix subidx ->
  next_outlet sds subncol cs ncol fuel out subidx = Some r ->
  VPix (fst (fst r)) /\ snd (fst r) = cell (fst (fst r)) /\ snd r = (fst (fst r) =? nth (snd (fst r)) out nsub).
Proof.
  induction fuel as [|f IH]; intros subidx r Hp Hr; cbn [next_outlet] in Hr; [discriminate|]. cbv zeta in Hr.
  match type of Hr with (if ?c then _ else _) = _ => destruct c end.
  - inversion Hr. cbn [fst snd]. split; [apply VPix_sd; exact Hp|split; reflexivity].
  - apply (IH _ _ (VPix_sd _ Hp) Hr).
Qed.

Section Pass.
Variables cA c0 o0 : list nat.       (* the link array at the start of rl_one; the arrays at the start of the pass *)
Hypothesis GA0 : mono cA c0.
Hypothesis G00 : G0 c0 o0.

Definition SI (s : S4) : Prop := G0 (s_cds s) (s_out s) /\ mono c0 (s_cds s) /\ RD c0 s /\ RO o0 s.

Lemma SI_set_ds s i v : SI s -> Val (s_cds s) i -> Val (s_cds s) v -> SI (s4_set_ds nrow ncol s i v).
Proof.
  intros (G & M & D & O) Hi Hv. unfold SI. rewrite s4_set_ds_cds, s4_set_ds_out.
  destruct (W_cds _ _ i v G Hi Hv) as [G' M'].
  split; [exact G'|]. split; [apply (mono_trans _ _ _ M M')|]. split; [apply RD_set_ds; exact D|apply RO_set_ds; exact O].
Qed.

Lemma SI_set_out s i p : SI s -> in_out s i = false -> Val (s_cds s) i -> VPix p ->
  (cell p = i \/ Val (s_cds s) (cell p)) -> SI (s4_set_out sds s i p).
Proof.
  intros (G & M & D & O) Hn Hi Hp Hcp. unfold SI. rewrite s4_set_out_cds, s4_set_out_out.
  split; [apply W_out; assumption|]. split; [exact M|]. split; [apply RD_set_out; exact D|apply RO_set_out; assumption].
Qed.

(* the outlet pixel of a headwater cell x is moved onto the path of the tributary cell i0 *)
Lemma SI_move s i0 x v p : SI s -> in_out s x = false -> x <> i0 -> Val (s_cds s) i0 -> x < nc -> Val (s_cds s) v ->
  VPix p -> cell p = x -> SI (s4_set_out sds (s4_set_ds nrow ncol (s4_set_ds nrow ncol s i0 x) x v) x p).
Proof.
  intros (G & M & D & O) Hn Hne Hi0 Hx Hv Hp Hcp. unfold SI.
  rewrite s4_set_out_cds, s4_set_out_out, !s4_set_ds_cds, !s4_set_ds_out.
  rewrite upd_comm by (intros E; apply Hne; symmetry; exact E).
  pose proof (Val_lt _ _ (g_lc _ _ G) Hv) as Hvl.
  destruct (W_both _ _ x v p G Hx Hvl (or_intror Hv) Hp (or_introl Hcp)) as [G1 M1].
  assert (Hxv : Val (upd (s_cds s) x v) x).
  { unfold Val. rewrite nth_upd_eq by (rewrite (g_lc _ _ G); exact Hx). exact Hvl. }
  destruct (W_cds _ _ i0 x G1 (M1 _ Hi0) Hxv) as [G2 M2].
  split; [exact G2|]. split; [apply (mono_trans _ _ _ M (mono_trans _ _ _ M1 M2))|].
  split.
  - apply RD_set_out. apply RD_set_ds. apply RD_set_ds. exact D.
  - apply RO_set_out; [rewrite !in_out_set_ds; exact Hn|]. apply RO_set_ds. apply RO_set_ds. exact O.
Qed.

Lemma SI_unroll s : SI s -> SI (s4_unroll s).
Proof.
  intros (G & M & D & O). unfold SI, RD, RO in *. rewrite s4_unroll_cds, s4_unroll_out.
  change (s_chg_ds (s4_unroll s)) with (s_chg_ds s). change (s_chg_out (s4_unroll s)) with (s_chg_out s).
  rewrite !replay_idem. rewrite D, O. split; [exact G00|]. split; [apply mono_refl|]. split; reflexivity.
Qed.

Lemma rl_trib_SI fuel : forall s idx0 subidx_ds0 subidx idx_ds0 path, SI s -> Val c0 idx0 -> VPix subidx ->
  (idx_ds0 = cell subidx \/ idx_ds0 = idx0) ->
  SI (rl_trib sds subncol cs nrow ncol fuel s idx0 subidx_ds0 subidx idx_ds0 path).
Proof.
  induction fuel as [|f IH]; intros s idx0 subidx_ds0 subidx idx_ds0 path H Hi0 Hp Hds0; cbn [rl_trib]; [exact H|].
  cbv zeta. pose proof (VPix_sd _ Hp) as Hp1.
  assert (Hi0s : Val (s_cds s) idx0) by (destruct H as (_ & M & _); apply M; exact Hi0).
  destruct ((sd subidx =? nth (cell (sd subidx)) (s_out s) nsub) || (sd subidx =? subidx)) eqn:Ec.
  - match goal with |- context [if ?c then s4_bottleneck _ _ else _] => destruct c eqn:Eb end; [exact H|].
    destruct (in_d8 idx0 (cell (sd subidx)) ncol) eqn:E8; [|exact H].
    destruct (sd subidx =? nth (cell (sd subidx)) (s_out s) nsub) eqn:Eo.
    + apply Nat.eqb_eq in Eo. apply SI_set_ds; [exact H|exact Hi0s|].
      destruct H as (G & _). apply (G0_val_of_out _ _ _ G); [apply cell_lt; apply Hp1|]. rewrite <- Eo. apply Hp1.
    + cbn [orb] in Ec. rewrite Ec in Eb. cbn [negb andb orb] in Eb. try rewrite orb_true_r in Eb. discriminate.
  - match goal with |- context [match ?m with Some s' => s' | None => _ end] => destruct m as [s'|] eqn:Em end;
      [|apply IH; [exact H|exact Hi0|exact Hp1|left; reflexivity]].
    match type of Em with (if ?c then _ else _) = _ => destruct c eqn:C1 end; [|discriminate].
    destruct (next_outlet sds subncol cs ncol (S nsub) (s_out s) subidx) as [[[x idx_ds00] outlet0]|] eqn:En;
      [|inversion Em; exact H].
    match type of Em with (if ?c then _ else _) = _ => destruct c eqn:C2 end; [|discriminate].
    inversion Em. clear Em.
    destruct (next_outlet_spec _ _ _ _ Hp En) as (Hx & Hi00 & Ho0). cbn [fst snd] in Hx, Hi00, Ho0.
    apply andb_true_iff in C1. destruct C1 as [C1 C1e]. apply andb_true_iff in C1. destruct C1 as [C1 C1d].
    apply andb_true_iff in C1. destruct C1 as [C1 C1c]. apply andb_true_iff in C1. destruct C1 as [C1a C1b].
    apply andb_true_iff in C2. destruct C2 as [C2 C2e]. apply andb_true_iff in C2. destruct C2 as [C2 C2d].
    apply andb_true_iff in C2. destruct C2 as [C2 C2c]. apply andb_true_iff in C2. destruct C2 as [C2a C2b].
    apply negb_true_iff in C1b. apply Nat.eqb_neq in C1b. apply negb_true_iff in C1d.
    destruct Hds0 as [Hds0|Hds0]; [|contradiction].
    apply SI_move; [exact H|exact C1d|exact C1b|exact Hi0s|subst idx_ds0; apply cell_lt; apply Hp| |exact Hp|symmetry; exact Hds0].
    destruct H as (G & _). rewrite Ho0 in C2b. apply Nat.eqb_eq in C2b.
    apply (G0_val_of_out _ _ _ G); [subst idx_ds00; apply cell_lt; apply Hx|]. rewrite <- C2b. apply Hx.
Qed.

Lemma rl_main_tribs_SI us0 sds0 s ks : SI s -> (forall k, In k ks -> Val cA (nth k us0 nc)) ->
  SI (rl_main_tribs sds subncol cs nrow ncol us0 sds0 s ks).
Proof.
  intros H Hks. unfold rl_main_tribs. apply fold_left_inv; [exact H|]. intros s' k Hk Hs'. cbv zeta.
  destruct (in_out s' (nth k us0 nc)); [exact Hs'|].
  assert (Hv0 : Val c0 (nth k us0 nc)) by (apply GA0, Hks, Hk).
  apply rl_trib_SI; [exact Hs'|exact Hv0| |right; reflexivity].
  destruct Hs' as (G & M & _). apply (G0_vpix _ _ _ G). apply M. exact Hv0.
Qed.

Section Step4v.
Variables il sl us0 sds0 conn conn1 : list nat.
Hypothesis Htr : forall j, j < length sl ->
  Val cA (nth j il nc) /\ VPix (nth j sl nsub) /\ cell (nth j sl nsub) = nth j il nc.
Hypothesis Hus : forall k, k < length conn -> Val cA (nth k us0 nc).

Definition SJ (s : S4) : Prop := SI s /\ Val cA (s_idx0 s).

Lemma rl_step_SJ s j : j < length sl -> SJ s -> SJ (rl_step sds subncol cs nrow ncol il sl us0 sds0 conn conn1 s j).
Proof.
  intros Hj [H Hi]. unfold rl_step. destruct (s_next s); [split; assumption|]. cbv zeta.
  destruct (Htr j Hj) as (T1 & T2 & T3).
  match goal with |- context [if ?c then s4_unroll _ else _] => destruct c end.
  - split; [apply SI_unroll; exact H|exact Hi].
  - match goal with |- context [if ?c then _ else _] => destruct c end; [split; [exact H|exact Hi]|].
    match goal with |- context [if ?c then _ else _] => destruct c eqn:E end.
    + unfold in_out in E. cbn [s_chg_out s_bott s_idx0] in E.
      destruct (memb (nth j il nc) (map fst (s_chg_out s))) eqn:Hio.
      { exfalso. cbn [orb andb] in E. discriminate. }
      assert (V0 : Val (s_cds s) (s_idx0 s)) by (destruct H as (_ & M & _); apply M, GA0, Hi).
      assert (V1 : Val (s_cds s) (nth j il nc)) by (destruct H as (_ & M & _); apply M, GA0, T1).
      match goal with |- context [s4_set_ds _ _ ?X (s_idx0 s) (nth j il nc)] =>
        assert (H1 : SI (s4_set_ds nrow ncol X (s_idx0 s) (nth j il nc))) by (apply SI_set_ds; [exact H|exact V0|exact V1]);
        set (S1 := s4_set_ds nrow ncol X (s_idx0 s) (nth j il nc)) in *;
        assert (Hio1 : in_out S1 (nth j il nc) = false) by (unfold S1; rewrite in_out_set_ds; exact Hio)
      end.
      assert (H2 : SI (s4_set_out sds S1 (nth j il nc) (nth j sl nsub))).
      { apply SI_set_out; [exact H1|exact Hio1| |exact T2|left; exact T3].
        destruct H1 as (_ & M1 & _). apply M1, GA0, T1. }
      match goal with |- context [rl_main_tribs _ _ _ _ _ _ _ ?s0 ?ks] =>
        assert (Hm : SI (rl_main_tribs sds subncol cs nrow ncol us0 sds0 s0 ks)) end.
      { apply rl_main_tribs_SI; [exact H2|]. intros k Hk. apply filter_In in Hk. destruct Hk as [Hk _].
        apply in_seq in Hk. apply Hus. lia. }
      match goal with |- context [if ?c then s4_unroll _ else _] => destruct c end.
      * split; [apply SI_unroll; exact Hm|exact T1].
      * split; [exact Hm|exact T1].
    + match goal with |- context [if ?c then _ else _] => destruct c end; split; assumption.
Qed.
End Step4v.
End Pass.

Lemma rl_passes_ok cA il sl us0 sds0 conn conn1 :
  (forall j, j < length sl -> Val cA (nth j il nc) /\ VPix (nth j sl nsub) /\ cell (nth j sl nsub) = nth j il nc) ->
  (forall k, k < length conn -> Val cA (nth k us0 nc)) ->
  forall fuel cds out bott idx00 idx1 ok, G0 cds out -> mono cA cds -> Val cA idx00 ->
  exists c0 o0, G0 c0 o0 /\ mono cA c0 /\
    SI c0 o0 (rl_passes sds subncol cs nrow ncol il sl us0 sds0 conn conn1 fuel cds out bott idx00 idx1 ok).
Proof.
  intros Htr Hus.
  assert (Hfold : forall cds out bott idx00 idx1 ok, G0 cds out -> mono cA cds -> Val cA idx00 ->
    SJ cA cds out (fold_left (rl_step sds subncol cs nrow ncol il sl us0 sds0 conn conn1) (seq 0 (length sl))
            (mkS4 cds out bott false [] [] idx00 0 0 idx1 ok))).
  { intros cds out bott idx00 idx1 ok G M V. apply fold_left_inv.
    - split; [|exact V]. split; [exact G|]. split; [apply mono_refl|]. split; reflexivity.
    - intros s j Hj Hs. apply in_seq in Hj. apply (rl_step_SJ cA cds out M G il sl us0 sds0 conn conn1 Htr Hus); [lia|exact Hs]. }
  induction fuel as [|f IH]; intros cds out bott idx00 idx1 ok G M V; cbn [rl_passes].
  - exists cds, out. split; [exact G|]. split; [exact M|]. destruct (Hfold cds out bott idx00 idx1 ok G M V) as [Hs _]. exact Hs.
  - cbv zeta. destruct (Hfold cds out bott idx00 idx1 ok G M V) as [Hs _].
    match goal with |- context [if ?c then _ else _] => destruct c end.
    + destruct Hs as (G' & M' & _). apply IH; [exact G'|apply (mono_trans _ _ _ M M')|exact V].
    + exists cds, out. split; [exact G|]. split; [exact M|exact Hs].
Qed.

(* STEP 1: the alternative outlet pixels are valid pixels, each in the (valid) cell listed with it *)
Definition TrOK (cds il sl : list nat) : Prop := Forall2 (fun i s => Val cds i /\ VPix s /\ cell s = i) il sl.

Lemma rl_trace_ok fuel cds out : forall subidx idx0 idx_ds0 il sl r, VPix subidx -> idx0 = cell subidx -> TrOK cds il sl ->
  rl_trace sds subncol cs nrow ncol fuel cds out subidx idx0 idx_ds0 il sl = Some r -> TrOK cds (fst (fst r)) (snd (fst r)).
Proof.
  induction fuel as [|f IH]; intros subidx idx0 idx_ds0 il sl r Hp Hc Ht Hr; cbn [rl_trace] in Hr; [discriminate|].
  cbv zeta in Hr.
  match type of Hr with (if ?c then _ else _) = _ => destruct c eqn:Ec end.
  - assert (Ht' : TrOK cds (if negb (nc <=? nth idx0 cds nc) then il ++ [idx0] else il)
                           (if negb (nc <=? nth idx0 cds nc) then sl ++ [subidx] else sl)).
    { destruct (nc <=? nth idx0 cds nc) eqn:El; cbn [negb]; [exact Ht|]. apply Nat.leb_gt in El.
      apply Forall2_app; [exact Ht|]. constructor; [|constructor]. split; [exact El|]. split; [exact Hp|symmetry; exact Hc]. }
    match type of Hr with (if ?c then _ else _) = _ => destruct c end.
    + inversion Hr. cbn [fst snd]. exact Ht'.
    + apply (IH _ _ _ _ _ _ (VPix_sd _ Hp) eq_refl Ht' Hr).
  - apply orb_false_iff in Ec. destruct Ec as [_ Ec]. apply negb_false_iff, Nat.eqb_eq in Ec.
    apply (IH _ _ _ _ _ _ (VPix_sd _ Hp) Ec Ht Hr).
Qed.

Lemma Forall2_In_l {A B} (P : A -> B -> Prop) l1 l2 x : Forall2 P l1 l2 -> In x l1 -> exists y, P x y.
Proof.
  intros H. induction H as [|a b l1 l2 Hab H IH]; intros Hx; [destruct Hx|].
  destruct Hx as [<-|Hx]; [exists b; exact Hab|apply IH; exact Hx].
Qed.

(* STEP 2: the tributary cells are valid cells *)
Lemma rl_tribs_val cds out idx00 il sl x : length cds = nc -> (forall i, In i il -> i < nc) ->
  In x (rl_tribs sds nrow ncol cds out idx00 il sl) -> Val cds x.
Proof.
  intros Hl Hil Hx. unfold rl_tribs in Hx. apply in_flat_map in Hx. destruct Hx as [idx_ds [Hd Hx]].
  apply filter_In in Hx. destruct Hx as [Hx _].
  apply (upstream_d8_idx_spec cds idx_ds nrow ncol x ncol_pos) in Hx. destruct Hx as (_ & _ & _ & Hx).
  unfold Val. unfold dsf, size in Hx. rewrite Hl in Hx. rewrite Hx. apply Hil. apply In_uniq_sorted. exact Hd.
Qed.

Lemma rl_one_ok a idx00 : G0 (a_cds a) (a_out a) -> Val (a_cds a) idx00 ->
  G0 (a_cds (rl_one sds subncol cs nrow ncol a idx00)) (a_out (rl_one sds subncol cs nrow ncol a idx00)) /\
  mono (a_cds a) (a_cds (rl_one sds subncol cs nrow ncol a idx00)).
Proof.
  intros G V. unfold rl_one. cbv zeta.
  match goal with |- context [match ?m with Some _ => _ | None => _ end] => destruct m as [[[il sl] sub_end]|] eqn:Et end;
    [|split; [exact G|apply mono_refl]].
  match goal with |- context [if ?c then a else _] => destruct c end; [split; [exact G|apply mono_refl]|].
  cbn [a_cds a_out].
  assert (Ht : TrOK (a_cds a) il sl).
  { refine (rl_trace_ok _ _ _ _ _ _ _ _ _ _ eq_refl (Forall2_nil _) Et). apply VPix_sd. apply (G0_vpix _ _ _ G V). }
  cbn [fst snd] in Ht.
  assert (Htr : forall j, j < length sl ->
            Val (a_cds a) (nth j il nc) /\ VPix (nth j sl nsub) /\ cell (nth j sl nsub) = nth j il nc).
  { intros j Hj. apply (Forall2_nth _ il sl nc nsub Ht j Hj). }
  assert (Hil : forall i, In i il -> i < nc).
  { intros i Hi. destruct (Forall2_In_l _ _ _ _ Ht Hi) as [y [Hy _]]. apply (Val_lt _ _ (g_lc _ _ G) Hy). }
  set (tribs := rl_tribs sds nrow ncol (a_cds a) (a_out a) idx00 il sl).
  set (conns := map (rl_conn_of sds subncol cs ncol (a_out a) sl) tribs).
  set (seq1 := argsort (map Z.of_nat (map (fun c => fst (fst c)) conns))).
  assert (Hus : forall k, k < length (map (fun i => nth i (map (fun c => fst (fst c)) conns) 0) seq1) ->
                Val (a_cds a) (nth k (map (fun i => nth i tribs nc) seq1) nc)).
  { intros k Hk. rewrite map_length in Hk.
    rewrite (nth_indep _ nc ((fun i => nth i tribs nc) 0)) by (rewrite map_length; exact Hk).
    rewrite (map_nth (fun i => nth i tribs nc)).
    apply (rl_tribs_val (a_cds a) (a_out a) idx00 il sl _ (g_lc _ _ G) Hil). apply nth_In.
    pose proof (argsort_lt _ _ (nth_In seq1 0 Hk)) as Hlt. unfold conns in Hlt. rewrite !map_length in Hlt. exact Hlt. }
  match goal with |- context [rl_passes _ _ _ _ _ ?a1 ?a2 ?a3 ?a4 ?a5 ?a6 ?a7 ?a8 ?a9 ?a10 ?a11 ?a12 ?a13] =>
    destruct (rl_passes_ok (a_cds a) a1 a2 a3 a4 a5 a6 Htr Hus a7 a8 a9 a10 a11 a12 a13 G (mono_refl _) V)
      as (c0 & o0 & G00 & M0 & Hs);
    set (S0 := rl_passes sds subncol cs nrow ncol a1 a2 a3 a4 a5 a6 a7 a8 a9 a10 a11 a12 a13) in * end.
  destruct (in_out S0 (nth (s_idx1 S0) (s_cds S0) nc)).
  - destruct (SI_unroll c0 o0 G00 S0 Hs) as (G' & M' & _). split; [exact G'|apply (mono_trans _ _ _ M0 M')].
  - destruct Hs as (G' & M' & _). split; [exact G'|apply (mono_trans _ _ _ M0 M')].
Qed.

Lemma relocate_ok fixl a : G0 (a_cds a) (a_out a) -> (forall x, In x fixl -> Val (a_cds a) x) ->
  G0 (a_cds (relocate sds upa subncol cs nrow ncol fixl a)) (a_out (relocate sds upa subncol cs nrow ncol fixl a)) /\
  mono (a_cds a) (a_cds (relocate sds upa subncol cs nrow ncol fixl a)).
Proof.
  intros G Hf. unfold relocate. cbv zeta.
  apply (fold_left_inv (fun a' => G0 (a_cds a') (a_out a') /\ mono (a_cds a) (a_cds a'))); [split; [exact G|apply mono_refl]|].
  intros a' i0 Hi0 [G' M']. apply argsort_lt in Hi0. rewrite map_length in Hi0.
  destruct (rl_one_ok a' (nth i0 fixl nc) G') as [G'' M'']; [apply M', Hf, nth_In, Hi0|].
  split; [exact G''|apply (mono_trans _ _ _ M' M'')].
Qed.

(* ---------- streams ---------- *)
Definition StOK (cds : list nat) (st : list Z) : Prop :=
  length st = nsub /\ forall s, (0 <= nth s st (-9))%Z -> Val cds (cell s).

Lemma StOK_mono cds cds' st : mono cds cds' -> StOK cds st -> StOK cds' st.
Proof. intros M [L H]. split; [exact L|]. intros s Hs. apply M, H, Hs. Qed.

Lemma StOK_upd_val cds st s z : StOK cds st -> (s < nsub -> Val cds (cell s)) -> StOK cds (upd st s z).
Proof.
  intros [L H] Hv. split; [rewrite upd_length; exact L|]. intros s'. rewrite nth_upd.
  destruct (Nat.eqb_spec s' s) as [->|Hne]; cbn [andb]; [|apply H].
  destruct (Nat.ltb_spec s (length st)) as [Hlt|Hge]; [intros _; apply Hv; lia|apply H].
Qed.

Lemma StOK_upd_neg cds st s z : (z < 0)%Z -> StOK cds st -> StOK cds (upd st s z).
Proof.
  intros Hz [L H]. split; [rewrite upd_length; exact L|]. intros s'. rewrite nth_upd.
  destruct (Nat.eqb s' s && Nat.ltb s (length st)); [lia|apply H].
Qed.

Lemma StOK_upd_max cds st s : StOK cds st -> StOK cds (upd st s (Z.max (nth s st (-9)%Z) (-1)%Z)).
Proof.
  intros [L H]. split; [rewrite upd_length; exact L|]. intros s'. rewrite nth_upd.
  destruct (Nat.eqb_spec s' s) as [->|Hne]; cbn [andb]; [|apply H].
  destruct (Nat.ltb s (length st)); [|apply H]. intros Hm. apply H. lia.
Qed.

Lemma StOK_fold_max cds path : forall st, StOK cds st ->
  StOK cds (fold_left (fun st p => upd st p (Z.max (nth p st (-9)%Z) (-1)%Z)) path st).
Proof. induction path as [|p t IH]; intros st H; cbn [fold_left]; [exact H|]. apply IH. apply StOK_upd_max. exact H. Qed.

Definition G1 (a : A) : Prop := G0 (a_cds a) (a_out a) /\ StOK (a_cds a) (a_st a).
Definition Step (a a' : A) : Prop := G1 a' /\ mono (a_cds a) (a_cds a').

Lemma Step_refl a : G1 a -> Step a a.
Proof. intros H. split; [exact H|apply mono_refl]. Qed.
Lemma Step_trans a b c : Step a b -> Step b c -> Step a c.
Proof. intros [_ M1] [G M2]. split; [exact G|apply (mono_trans _ _ _ M1 M2)]. Qed.

(* ---------- upscale_check ---------- *)
Lemma chk_walk_st cds fuel : forall st subidx d, StOK cds st ->
  StOK cds (fst (fst (fst (chk_walk sds fuel st subidx d)))).
Proof.
  induction fuel as [|f IH]; intros st subidx d H; cbn [chk_walk]; [exact H|]. cbv zeta.
  match goal with |- context [if ?c then _ else _] => destruct c end; [exact H|].
  apply IH. apply StOK_upd_max. exact H.
Qed.

Lemma streams0_ok cds out : G0 cds out -> StOK cds (streams0 sds nrow ncol out).
Proof.
  intros G. unfold streams0. apply fold_left_inv.
  - split; [apply repeat_length|]. intros s Hs. exfalso. rewrite nth_repeat in Hs. lia.
  - intros st idx Hidx H. apply in_seq in Hidx. cbv zeta.
    destruct (Nat.leb_spec nsub (nth idx out nsub)) as [Hge|Hlt]; [exact H|].
    apply StOK_upd_val; [exact H|]. intros _. apply (g_oc _ _ G idx); [lia|exact Hlt].
Qed.

Lemma upscale_check_ok cds out : G0 cds out ->
  let c := upscale_check sds cs nrow ncol out cds in
  StOK cds (c_st c) /\ (forall x, In x (c_fix c) -> Val cds x) /\ (forall x, In x (c_short c) -> Val cds x).
Proof.
  intros G. cbv zeta. unfold upscale_check.
  apply (fold_left_inv (fun c => StOK cds (c_st c) /\ (forall x, In x (c_fix c) -> Val cds x) /\
                                  (forall x, In x (c_short c) -> Val cds x))).
  - cbn [c_st c_fix c_short]. split; [apply streams0_ok; exact G|]. split; intros x [].
  - intros c idx0 _ (H1 & H2 & H3). cbv zeta.
    destruct (Nat.leb_spec nc (nth idx0 cds nc)) as [Hge|Hlt]; [split; [exact H1|split; assumption]|].
    pose proof (chk_walk_st cds (S nsub) (c_st c) (nth idx0 out nsub) 0 H1) as Hw.
    destruct (chk_walk sds (S nsub) (c_st c) (nth idx0 out nsub) 0) as [[[st s1] d] ok]. cbn [fst] in Hw.
    assert (Hsn : forall l x, (forall y, In y l -> Val cds y) -> In x (l ++ [idx0]) -> Val cds x).
    { intros l x Hl Hx. apply in_app_or in Hx. destruct Hx as [Hx|[<-|[]]]; [apply Hl; exact Hx|exact Hlt]. }
    match goal with |- context [if ?c then _ else _] => destruct c end; cbn [c_st c_fix c_short].
    + split; [exact Hw|]. split; [intros x; apply Hsn; exact H2|exact H3].
    + match goal with |- context [if ?c then _ else _] => destruct c end; cbn [c_st c_fix c_short].
      * split; [exact Hw|]. split; [exact H2|intros x; apply Hsn; exact H3].
      * split; [exact Hw|]. split; assumption.
Qed.

(* ---------- new_outlet ---------- *)
Lemma no_walk_spec fuel st : forall s rpath r, VPix s -> no_walk sds fuel st s rpath = Some r ->
  VPix (snd (fst r)) /\ ((0 <= nth (snd (fst r)) st (-9))%Z \/ sd (snd (fst r)) = snd (fst r)).
Proof.
  induction fuel as [|f IH]; intros s rpath r Hp Hr; cbn [no_walk] in Hr; [discriminate|]. cbv zeta in Hr.
  destruct ((0 <=? nth (sd s) st (-9))%Z || (s =? sd s)) eqn:Ec.
  - inversion Hr. cbn [fst snd]. split; [apply VPix_sd; exact Hp|].
    apply orb_true_iff in Ec. destruct Ec as [Ec|Ec]; [left; apply Z.leb_le; exact Ec|right].
    apply Nat.eqb_eq in Ec. congruence.
  - apply (IH _ _ _ (VPix_sd _ Hp) Hr).
Qed.

Lemma outlet_pix_cell idx0 s : In s (outlet_pix sds subncol cs ncol idx0) -> cell s = idx0.
Proof.
  unfold outlet_pix. cbv zeta. intros H. apply in_flat_map in H. destruct H as [ci [Hci H]]. apply in_seq in Hci.
  destruct (Nat.leb_spec subncol (idx0 mod ncol * cs + ci)) as [Hge|Hc]; [destruct H|].
  apply in_flat_map in H. destruct H as [ri [Hri H]]. apply in_seq in Hri.
  match type of H with In _ (if ?c then _ else _) => destruct c end; [destruct H|].
  assert (E : s = (idx0 / ncol * cs + ri) * subncol + idx0 mod ncol * cs + ci).
  { match type of H with In _ (if ?c then _ else _) => destruct c end; [destruct H as [H|[]]; symmetry; exact H|].
    match type of H with In _ (if ?c then _ else _) => destruct c end; [destruct H as [H|[]]; symmetry; exact H|destruct H]. }
  clear H. unfold sub2idx.
  destruct (divmod_unique (idx0 / ncol * cs + ri) (idx0 mod ncol * cs + ci) subncol s Hc ltac:(lia)) as [D1 M1].
  rewrite D1, M1.
  destruct (divmod_unique (idx0 / ncol) ri cs (idx0 / ncol * cs + ri) ltac:(lia) eq_refl) as [D2 _].
  destruct (divmod_unique (idx0 mod ncol) ci cs (idx0 mod ncol * cs + ci) ltac:(lia) eq_refl) as [D3 _].
  rewrite D2, D3. pose proof (Nat.div_mod idx0 ncol ltac:(pose proof ncol_pos; lia)). lia.
Qed.

Lemma new_outlet_ok a idx0 tgt : G1 a -> idx0 < nc ->
  Step a (fst (new_outlet sds upa subncol cs ncol a idx0 (nth idx0 (a_out a) nsub) tgt)).
Proof.
  intros [G St] Hi0. unfold new_outlet. cbv zeta.
  set (st' := upd (a_st a) (nth idx0 (a_out a) nsub) (-1)%Z).
  assert (S' : StOK (a_cds a) st') by (apply StOK_upd_neg; [lia|exact St]).
  match goal with |- context [fold_left ?f ?l ?i] => set (F := f); set (R := fold_left F l i) end.
  assert (HQ : match snd (fst R) with
               | Some (s, idx1, _) => VPix s /\ cell s = idx0 /\ idx1 < nc /\ (idx1 = idx0 \/ Val (a_cds a) idx1)
               | None => True end).
  { apply fold_left_inv; [exact I|]. intros [[u b] ok] s Hs Hb. unfold F. cbv beta iota. cbn [fst snd] in Hb.
    match goal with |- context [if ?c then _ else _] => destruct c eqn:Ec end; [exact Hb|].
    destruct (no_walk sds (S nsub) st' s []) as [[[slast s1] rpath]|] eqn:En; [|exact Hb].
    match goal with |- context [if ?c then _ else _] => destruct c eqn:E end; [|exact Hb].
    cbn [fst snd]. apply orb_false_iff in Ec. destruct Ec as [_ Ec]. apply Nat.leb_gt in Ec.
    pose proof (VPix_of_sd _ Ec) as Hps.
    destruct (no_walk_spec _ _ _ _ _ Hps En) as [Hp1 Hm]. cbn [fst snd] in Hp1, Hm.
    split; [exact Hps|]. split; [apply outlet_pix_cell; exact Hs|].
    apply andb_true_iff in E. destruct E as [_ E]. apply orb_true_iff in E. destruct E as [E|E].
    - split; [apply cell_lt; apply Hp1|]. right.
      destruct Hm as [Hm|Hm]; [destruct S' as [_ S']; apply S'; exact Hm|apply (g_pv _ _ G); [apply Hp1|exact Hm]].
    - apply andb_true_iff in E. destruct E as [_ E]. apply Nat.eqb_eq in E. rewrite <- E. split; [exact Hi0|left; reflexivity]. }
  destruct R as [[u b] ok]. cbn [fst snd] in HQ. destruct b as [[[so idx_ds] p]|]; cbn [fst].
  - destruct HQ as (Q1 & Q2 & Q3 & Q4).
    destruct (W_both _ _ idx0 idx_ds so G Hi0 Q3 Q4 Q1 (or_introl Q2)) as [G' M'].
    split; [|exact M']. split; cbn [a_cds a_out a_st]; [exact G'|].
    apply StOK_fold_max. apply StOK_upd_val; [apply (StOK_mono _ _ _ M' S')|]. intros _. rewrite Q2.
    unfold Val. rewrite nth_upd_eq by (rewrite (g_lc _ _ G); exact Hi0). exact Q3.
  - split; [|apply mono_refl]. split; cbn [a_cds a_out a_st]; [exact G|].
    apply StOK_upd_val; [exact S'|]. intros Hlt. apply (g_oc _ _ G idx0 Hi0 Hlt).
Qed.

(* ---------- ihu_optimize_rivlen ---------- *)
Lemma us8_val cds out idx0 idx : G0 cds out -> Val cds idx0 -> In idx (upstream_d8_idx cds idx0 nrow ncol) ->
  Val cds idx /\ nth idx cds nc = idx0.
Proof.
  intros G V H. apply (upstream_d8_idx_spec cds idx0 nrow ncol idx ncol_pos) in H. destruct H as (_ & _ & _ & H).
  unfold dsf, size in H. rewrite (g_lc _ _ G) in H. split; [|exact H]. unfold Val. rewrite H.
  apply (Val_lt _ _ (g_lc _ _ G) V).
Qed.

Lemma opt_one_ok valid a idx0 : G1 a -> Val (a_cds a) idx0 ->
  Step a (fst (opt_one sds upa subncol cs nrow ncol valid a idx0)).
Proof.
  intros H V. pose proof H as [G St]. pose proof (Val_lt _ _ (g_lc _ _ G) V) as Hi0. unfold opt_one. cbv zeta.
  match goal with |- context [if ?c then _ else _] => destruct c end; [apply Step_refl; exact H|].
  match goal with |- context [if ?c then _ else _] => destruct c end; [|apply Step_refl; exact H].
  pose proof (new_outlet_ok a idx0 None H Hi0) as H1.
  destruct (new_outlet sds upa subncol cs ncol a idx0 (nth idx0 (a_out a) nsub) None) as [a1 success].
  cbn [fst] in H1. destruct success; [|exact H1]. cbn [fst].
  pose proof (g_dc _ _ G idx0 V) as V1.
  apply (fold_left_inv (Step a)); [exact H1|]. intros a' idx Hidx [[G' S'] M'].
  destruct (us8_val _ _ _ _ G V Hidx) as [Vi _].
  destruct (nth idx valid true).
  - destruct (idx =? nth idx0 (a_cds a) nc); [split; [split; assumption|exact M']|]. cbn [set_cds].
    destruct (W_cds _ _ idx (nth idx0 (a_cds a) nc) G' (M' _ Vi) (M' _ V1)) as [G'' M''].
    split; [|cbn [a_cds]; apply (mono_trans _ _ _ M' M'')]. split; cbn [a_cds a_out a_st]; [exact G''|].
    apply (StOK_mono _ _ _ M'' S').
  - destruct (nth idx0 (a_cds a') nc =? idx); [|split; [split; assumption|exact M']].
    cbn [set_cds set_out set_st a_cds a_out a_st].
    pose proof (G0_vpix _ _ _ G V) as Hp0.
    assert (Hc0 : Val (a_cds a') (cell (nth idx0 (a_out a) nsub))) by (apply M'; apply (g_oc _ _ G idx0 Hi0); apply Hp0).
    destruct (W_both _ _ idx0 (nth idx0 (a_cds a) nc) (nth idx0 (a_out a) nsub) G' Hi0
                (Val_lt _ _ (g_lc _ _ G) V1) (or_intror (M' _ V1)) Hp0 (or_intror Hc0)) as [G'' M''].
    split; [|apply (mono_trans _ _ _ M' M'')]. split; [exact G''|].
    apply StOK_upd_val; [apply StOK_upd_neg; [lia|apply (StOK_mono _ _ _ M'' S')]|]. intros _. apply M''. exact Hc0.
Qed.

Lemma optimize_rivlen_ok valid short a : G1 a -> (forall x, In x short -> Val (a_cds a) x) ->
  Step a (optimize_rivlen sds upa subncol cs nrow ncol valid short a).
Proof.
  intros H Hs. unfold optimize_rivlen. apply (fold_left_inv (Step a)); [apply Step_refl; exact H|].
  intros a' i Hi [H' M']. cbv zeta.
  assert (Vi : Val (a_cds a') i) by (apply M', Hs, Hi).
  assert (V2 : Val (a_cds a') (nth i (a_cds a') nc)) by (destruct H' as [G' _]; apply (g_dc _ _ G'); exact Vi).
  pose proof (opt_one_ok valid a' i H' Vi) as H1.
  destruct (opt_one sds upa subncol cs nrow ncol valid a' i) as [a1 brk]. cbn [fst] in H1.
  destruct brk; [apply (Step_trans _ _ _ (conj H' M') H1)|].
  destruct H1 as [H1 M1]. pose proof (opt_one_ok valid a1 (nth i (a_cds a') nc) H1 (M1 _ V2)) as H2.
  apply (Step_trans _ _ _ (conj H' M')). apply (Step_trans _ _ _ (conj H1 M1) H2).
Qed.

(* ---------- ihu_minimize_error ---------- *)
Lemma me_path_spec fuel st idx0 : forall subidx idxs r, VPix subidx ->
  me_path sds ncol fuel st idx0 subidx idxs = Some r -> VPix (snd (fst r)) /\ snd r = sd (snd (fst r)).
Proof.
  induction fuel as [|f IH]; intros subidx idxs r Hp Hr; cbn [me_path] in Hr; [discriminate|]. cbv zeta in Hr.
  destruct (sd subidx =? subidx); [inversion Hr; split; [exact Hp|reflexivity]|].
  destruct (0 <=? nth (sd subidx) st (-9))%Z.
  - match type of Hr with (if ?c then _ else _) = _ => destruct c end; [inversion Hr; split; [exact Hp|reflexivity]|].
    apply (IH _ _ _ (VPix_sd _ Hp) Hr).
  - apply (IH _ _ _ (VPix_sd _ Hp) Hr).
Qed.

Lemma me_scan_ok cds out idxs idx0 nb : G0 cds out -> Val cds idx0 -> (forall x, In x nb -> x < nc) ->
  let s := me_scan sds upa nrow ncol cds out idxs idx0 nb in
  G0 (sc_cds s) out /\ mono cds (sc_cds s) /\ (forall x, In x (sc_hw s) -> In x nb).
Proof.
  intros G V Hnb. cbv zeta. unfold me_scan.
  apply (fold_left_inv (fun s => G0 (sc_cds s) out /\ mono cds (sc_cds s) /\ (forall x, In x (sc_hw s) -> In x nb))).
  - cbn [sc_cds sc_hw]. split; [exact G|]. split; [apply mono_refl|intros x []].
  - intros s idx1 Hin (G' & M' & Hh). cbv zeta.
    destruct (Nat.leb_spec nsub (nth idx1 out nsub)) as [Hge|Hlt]; [split; [exact G'|split; assumption]|].
    destruct (me_chain nrow ncol (S (S nc)) (sc_cds s) idxs idx0 idx1 0 (sc_dist s)) as [d0| |];
      [| |split; [exact G'|split; assumption]].
    + match goal with |- context [if ?c then _ else _] => destruct c end; [|split; [exact G'|split; assumption]].
      match goal with |- context [if ?c then _ else _] => destruct c end; [split; [exact G'|split; assumption]|].
      cbn [sc_cds sc_hw].
      destruct (W_cds _ _ idx0 idx1 G' (M' _ V) (G0_val_of_out _ _ _ G' (Hnb _ Hin) Hlt)) as [G'' M''].
      split; [exact G''|]. split; [apply (mono_trans _ _ _ M' M'')|exact Hh].
    + match goal with |- context [if ?c then _ else _] => destruct c end; [|split; [exact G'|split; assumption]].
      cbn [sc_cds sc_hw]. split; [exact G'|]. split; [exact M'|].
      intros x Hx. apply in_app_or in Hx. destruct Hx as [Hx|[<-|[]]]; [apply Hh; exact Hx|exact Hin].
Qed.

Lemma me_hw_ok idxs hw : forall a, G1 a -> (forall x, In x hw -> x < nc) ->
  Step a (me_hw sds upa subncol cs nrow ncol a idxs hw).
Proof.
  induction hw as [|idx t IH]; intros a H Hh; cbn [me_hw]; [apply Step_refl; exact H|].
  pose proof (new_outlet_ok a idx (Some (nth (nth 0 idxs nc) (a_out a) nsub)) H (Hh _ (or_introl eq_refl))) as H1.
  destruct (new_outlet sds upa subncol cs ncol a idx (nth idx (a_out a) nsub) (Some (nth (nth 0 idxs nc) (a_out a) nsub)))
    as [a1 fixed1].
  cbn [fst] in H1. destruct fixed1; [exact H1|].
  apply (Step_trans _ _ _ H1). apply IH; [destruct H1 as [H1 _]; exact H1|]. intros x Hx. apply Hh. right. exact Hx.
Qed.

Lemma me_rounds_ok idxs idx0 nb n : (forall x, In x nb -> x < nc) ->
  forall a, G1 a -> Val (a_cds a) idx0 -> Step a (me_rounds sds upa subncol cs nrow ncol n a idxs idx0 nb).
Proof.
  intros Hnb. induction n as [|n IH]; intros a H V; cbn [me_rounds]; [apply Step_refl; exact H|]. cbv zeta.
  destruct H as [G St].
  destruct (me_scan_ok (a_cds a) (a_out a) idxs idx0 nb G V Hnb) as (Gs & Ms & Hh).
  set (s := me_scan sds upa nrow ncol (a_cds a) (a_out a) idxs idx0 nb) in *.
  assert (H1 : Step a (mkA (sc_cds s) (a_out a) (a_st a) (a_err a))).
  { split; [|exact Ms]. split; cbn [a_cds a_out a_st]; [exact Gs|apply (StOK_mono _ _ _ Ms St)]. }
  match goal with |- context [if ?c then _ else _] => destruct c end; [|exact H1].
  assert (H2 : Step (mkA (sc_cds s) (a_out a) (a_st a) (a_err a))
                    (me_hw sds upa subncol cs nrow ncol (mkA (sc_cds s) (a_out a) (a_st a) (a_err a)) idxs (sc_hw s))).
  { apply me_hw_ok; [destruct H1 as [H1 _]; exact H1|]. intros x Hx. apply Hnb, Hh, Hx. }
  apply (Step_trans _ _ _ H1). apply (Step_trans _ _ _ H2).
  apply IH; [destruct H2 as [H2 _]; exact H2|]. destruct H2 as [_ M2]. apply M2. cbn [a_cds]. apply Ms. exact V.
Qed.

Lemma d8_idx_lt idx0 x : In x (d8_idx idx0 nrow ncol) -> x < nc.
Proof. intros H. apply (d8_idx_spec idx0 nrow ncol x ncol_pos) in H. tauto. Qed.

Lemma me_one_ok poc a idx0 : G1 a -> Val (a_cds a) idx0 -> Step a (me_one sds upa subncol cs nrow ncol poc a idx0).
Proof.
  intros H V. pose proof H as [G St]. pose proof (Val_lt _ _ (g_lc _ _ G) V) as Hi0. unfold me_one. cbv zeta.
  destruct (me_path sds ncol (S nsub) (a_st a) idx0 (nth idx0 (a_out a) nsub) []) as [[[idxs subidx] subidx_ds]|] eqn:Ep;
    [|split; [exact H|apply mono_refl]].
  destruct (me_path_spec _ _ _ _ _ _ (G0_vpix _ _ _ G V) Ep) as [Hps Eds]. cbn [fst snd] in Hps, Eds.
  match goal with |- context [if ?c then _ else _] => destruct c eqn:Ec end.
  - cbn [set_out set_cds set_st a_cds a_out a_st].
    apply andb_true_iff in Ec. destruct Ec as [Ec _]. apply andb_true_iff in Ec. destruct Ec as [Ec _].
    apply andb_true_iff in Ec. destruct Ec as [_ Ec]. apply Nat.eqb_eq in Ec.
    assert (Hpit : sd subidx_ds = subidx_ds) by congruence.
    assert (Hp : VPix subidx_ds) by (rewrite Ec; exact Hps).
    assert (Hc : Val (a_cds a) (cell subidx_ds)) by (apply (g_pv _ _ G); [apply Hp|exact Hpit]).
    destruct (W_both _ _ idx0 idx0 subidx_ds G Hi0 Hi0 (or_introl eq_refl) Hp (or_intror Hc)) as [G' M'].
    split; [|exact M']. split; cbn [a_cds a_out a_st]; [exact G'|].
    apply StOK_upd_val; [apply StOK_upd_neg; [lia|apply (StOK_mono _ _ _ M' St)]|]. intros _. apply M'. exact Hc.
  - match goal with |- context [if ?c then new_outlet _ _ _ _ _ _ _ _ _ else _] => destruct c end.
    + pose proof (new_outlet_ok a idx0 None H Hi0) as H1.
      destruct (new_outlet sds upa subncol cs ncol a idx0 (nth idx0 (a_out a) nsub) None) as [a1 fixed].
      cbn [fst] in H1. destruct fixed; [exact H1|]. apply (Step_trans _ _ _ H1).
      destruct H1 as [H1 M1]. apply me_rounds_ok; [apply d8_idx_lt|exact H1|apply M1; exact V].
    + apply me_rounds_ok; [apply d8_idx_lt|exact H|exact V].
Qed.

Lemma minimize_error_ok fixl poc a : G1 a -> (forall x, In x fixl -> Val (a_cds a) x) ->
  Step a (minimize_error sds upa subncol cs nrow ncol fixl poc a).
Proof.
  intros H Hf. unfold minimize_error. cbv zeta. apply (fold_left_inv (Step a)); [apply Step_refl; exact H|].
  intros a' i0 Hi0 [H' M']. apply in_rev in Hi0. apply argsort_lt in Hi0. rewrite map_length in Hi0.
  apply (Step_trans _ _ _ (conj H' M')). apply me_one_ok; [exact H'|]. apply M', Hf, nth_In, Hi0.
Qed.

(* ---------- the iterations ---------- *)
Theorem ihu_iter_ok n : forall j a fixl, G0 (a_cds a) (a_out a) -> (forall x, In x fixl -> Val (a_cds a) x) ->
  G0 (a_cds (ihu_iter sds upa subncol cs nrow ncol n j a fixl)) (a_out (ihu_iter sds upa subncol cs nrow ncol n j a fixl)).
Proof.
  induction n as [|n IH]; intros j a fixl G Hf; cbn [ihu_iter]; [exact G|]. cbv zeta.
  destruct (relocate_ok fixl a G Hf) as [G1' M1].
  set (a1 := relocate sds upa subncol cs nrow ncol fixl a) in *.
  destruct (upscale_check_ok (a_cds a1) (a_out a1) G1') as (Cs & Cf & Csh).
  set (c := upscale_check sds cs nrow ncol (a_out a1) (a_cds a1)) in *.
  match goal with |- context [optimize_rivlen _ _ _ _ _ _ _ _ ?a2] => set (A2 := a2) end.
  assert (H2 : G1 A2) by (split; cbn [A2 a_cds a_out a_st]; assumption).
  assert (H3 : Step A2 (optimize_rivlen sds upa subncol cs nrow ncol (c_valid c) (c_short c) A2))
    by (apply optimize_rivlen_ok; [exact H2|exact Csh]).
  set (A3 := optimize_rivlen sds upa subncol cs nrow ncol (c_valid c) (c_short c) A2) in *.
  assert (H4 : forall p, Step A3 (minimize_error sds upa subncol cs nrow ncol (c_fix c) p A3)).
  { intros p. apply minimize_error_ok; [destruct H3 as [H3 _]; exact H3|]. intros x Hx. destruct H3 as [_ M3]. apply M3. apply Cf. exact Hx. }
  match goal with |- context [if ?c then _ else ihu_iter _ _ _ _ _ _ _ _ _ _] => destruct c end.
  - destruct (H4 2) as [[G4 _] _]. exact G4.
  - destruct (H4 0) as [[G4 _] M4]. apply IH; [exact G4|]. intros x Hx. apply M4. destruct H3 as [_ M3]. apply M3. apply Cf. exact Hx.
Qed.

(* ---------- the first stage (eam_plus) establishes the invariant ---------- *)
Section Init.
Variable sq : list nat.
Variable ea : list bool.
Hypothesis Ht : topo sds sq.
Hypothesis Hc : complete sds sq.
Hypothesis Hd8 : forall t, t < nsub -> sd t < nsub -> in_d8 t (sd t) subncol = true.
Hypothesis Hck : check_cross sds ea subncol cs = true.
(* the upstream area of a valid pixel is positive (it counts the pixel itself) *)
Hypothesis Hupa : forall t, t < nsub -> sd t < nsub -> (0 < nth t upa 0)%Z.

Let rep0 := repcell sds upa subncol cs nrow ncol (eaf ea).
Let out0 := ihu_outlets sds subncol cs nrow ncol rep0.
Let cds0 := ihu_nextidx sds subncol cs nrow ncol ea out0.

Lemma entry0 i : i < nc ->
  (nth i cds0 nc = nc /\ nsub <= nth i out0 nsub) \/ (nth i cds0 nc < nc /\ nth i out0 nsub < nsub).
Proof.
  intros Hi. pose proof (nextidx_length sds upa subnrow subncol cs ea) as Hl.
  destruct (up_eam_plus_entry sds sq upa subnrow subncol cs ea Hcs HW Hlen Ht Hc Hd8 Hck i Hi) as [[E1 E2]|[E1 [_ E2]]];
    cbv zeta in E1; [left|right]; (split; [|exact E2]);
    change (nth i cds0 nc) with (nth i (fst (fst (up_eam_plus sds upa subnrow subncol cs ea))) nc);
    rewrite (nth_indep _ nc 0) by (rewrite Hl; exact Hi); exact E1.
Qed.

Lemma out0_in_sq i : nth i out0 nsub < nsub -> In (nth i out0 nsub) sq.
Proof. apply (ihu_outlets_in_sq sds sq Ht Hc upa subncol cs nrow ncol (eaf ea) i). Qed.

Lemma candidate_in_sq t : candidate sds (eaf ea) t -> In t sq.
Proof. intros (H1 & H2 & _). apply Hc. split; assumption. Qed.

(* a cell that contains a pit or a valid effective-area pixel has an outlet pixel *)
Lemma candidate_out t : candidate sds (eaf ea) t -> nth (cell t) out0 nsub < nsub.
Proof.
  intros Hcand. pose proof Hcand as (H1 & H2 & _). pose proof (cell_lt t H1) as Hcl.
  destruct (repcell_spec sds upa subncol cs nrow ncol (eaf ea)) as (_ & Hin & Hmax).
  destruct (Hmax t Hcand Hcl (Hupa t H1 H2)) as [Hr _]. unfold cellof in Hr. fold rep0 in Hr.
  unfold out0. rewrite (ihu_outlets_nth sds subncol cs nrow ncol rep0 (cell t) Hcl). cbv zeta.
  destruct (Nat.leb_spec nsub (nth (cell t) rep0 nsub)) as [Hge|_]; [lia|].
  apply (out_walk_terminates sds sq Ht). apply candidate_in_sq.
  destruct (Hin (cell t) Hcl) as [E|[E _]]; [fold rep0 in E; lia|exact E].
Qed.

Lemma val_of_out0 i : i < nc -> nth i out0 nsub < nsub -> Val cds0 i.
Proof. intros Hi Ho. destruct (entry0 i Hi) as [[_ E]|[E _]]; [lia|exact E]. Qed.

Lemma candidate_val t : candidate sds (eaf ea) t -> Val cds0 (cell t).
Proof.
  intros Hcand. pose proof Hcand as (H1 & _). apply val_of_out0; [apply cell_lt; exact H1|apply candidate_out; exact Hcand].
Qed.

Lemma ihu_walk_vpix out fuel idx0 : forall s fe t, VPix s -> (forall x, fe = Some x -> VPix x) ->
  ihu_walk sds subncol cs ncol ea fuel out idx0 s fe = Some t -> VPix t.
Proof.
  induction fuel as [|f IH]; intros s fe t Hp Hfe Hw; cbn [ihu_walk] in Hw; [discriminate|].
  match type of Hw with (if ?c then _ else _) = _ => destruct c end.
  - destruct (in_d8 idx0 (cellof subncol cs ncol (sd s)) ncol); [inversion Hw; subst t; apply VPix_sd; exact Hp|].
    apply Hfe. exact Hw.
  - apply (IH _ _ _ (VPix_sd _ Hp)) in Hw; [exact Hw|].
    intros x Hx. destruct fe as [y|]; [apply Hfe; exact Hx|].
    destruct (eaf ea (sd s)); [|discriminate]. inversion Hx; subst x. apply VPix_sd; exact Hp.
Qed.

Lemma G0_init : G0 cds0 out0.
Proof.
  constructor.
  - apply (nextidx_length sds upa subnrow subncol cs ea).
  - unfold out0, ihu_outlets. rewrite map_length, seq_length. reflexivity.
  - intros i Hi. destruct (entry0 i Hi) as [[E1 E2]|[E1 E2]].
    + left. split; [exact E1|]. revert E2. unfold out0.
      rewrite (ihu_outlets_nth sds subncol cs nrow ncol rep0 i Hi). cbv zeta.
      destruct (Nat.leb_spec nsub (nth i rep0 nsub)) as [_|Hlt]; [reflexivity|]. intros E2. exfalso.
      destruct (repcell_spec sds upa subncol cs nrow ncol (eaf ea)) as (_ & Hin & _).
      destruct (Hin i Hi) as [E|[E _]]; [fold rep0 in E; lia|].
      pose proof (out_walk_terminates sds sq Ht subncol cs ncol i _ (candidate_in_sq _ E)) as Hw. fold rep0 in Hw. lia.
    + right. split; [exact E1|]. apply (topo_valid sds sq _ Ht (out0_in_sq i E2)).
  - intros i Hv. pose proof (Val_lt _ _ (nextidx_length sds upa subnrow subncol cs ea) Hv) as Hi.
    assert (He : nth i cds0 nc = (if nsub <=? nth i out0 nsub then nc else
                match ihu_walk sds subncol cs ncol ea (S nsub) out0 i (nth i out0 nsub) None with
                | Some sd' => cellof subncol cs ncol sd' | None => ERR nrow ncol end)).
    { pose proof (nextidx_length sds upa subnrow subncol cs ea) as Hl.
      change (length cds0 = nc) in Hl.
      rewrite (nth_indep cds0 nc 0) by (rewrite Hl; exact Hi).
      unfold cds0, ihu_nextidx. rewrite (per_cell_spec sds nrow ncol out0 _ i Hi). reflexivity. }
    unfold Val in Hv. rewrite He in Hv |- *. clear He.
    destruct (Nat.leb_spec nsub (nth i out0 nsub)) as [Hge|Hlt]; [lia|].
    destruct (ihu_walk sds subncol cs ncol ea (S nsub) out0 i (nth i out0 nsub) None) as [t|] eqn:Ew;
      [|unfold ERR in Hv; lia].
    pose proof (topo_valid sds sq _ Ht (out0_in_sq i Hlt)) as Hp0.
    assert (Hnone : forall x : nat, @None nat = Some x -> VPix x) by (intros x Hx; discriminate).
    pose proof (ihu_walk_vpix _ _ _ _ _ _ Hp0 Hnone Ew) as Hpt.
    destruct Hp0 as [Hs1 Hs2].
    destruct (ihu_walk_spec sds subncol cs ncol Hwf ea out0 (S nsub) i _ None t Hs1 Hs2 ltac:(intros x Hx; discriminate) Ew)
      as [Htl [[_ [E|[p [Hpit ->]]]]|E]]; unfold cellof in *.
    + apply val_of_out0; [apply cell_lt; exact Htl|]. rewrite E. exact Htl.
    + apply candidate_val. split; [apply Hpt|]. split; [apply Hpt|left; exact Hpit].
    + apply candidate_val. split; [apply Hpt|]. split; [apply Hpt|right; exact E].
  - intros i Hi Ho. pose proof (ihu_outlets_cell sds sq upa subncol cs nrow ncol (eaf ea) i Ht Hc Hi Ho) as E.
    unfold cellof in E. fold rep0 in E. fold out0 in E. rewrite E. apply val_of_out0; assumption.
  - intros t Htl Hpit. apply candidate_val. split; [exact Htl|]. split; [rewrite Hpit; exact Htl|left; exact Hpit].
Qed.

Lemma fix_init x : In x (ihu_fix sds subncol cs nrow ncol out0) -> Val cds0 x.
Proof.
  unfold ihu_fix. intros H. apply filter_In in H. destruct H as [Hx H]. apply in_seq in Hx. cbv zeta in H.
  destruct (Nat.leb_spec nsub (nth x out0 nsub)) as [_|Hlt]; [discriminate|]. apply val_of_out0; [lia|exact Hlt].
Qed.

Theorem ihu_final_G0 : G0 (a_cds (ihu_final sds upa subnrow subncol cs ea)) (a_out (ihu_final sds upa subnrow subncol cs ea)).
Proof. unfold ihu_final. cbv zeta. apply ihu_iter_ok; cbn [a_cds a_out]; [exact G0_init|exact fix_init]. Qed.
End Init.

(* ---------- what the invariant says, in the form of the final statements ---------- *)
Lemma G0_valid_iff cds out : G0 cds out ->
  length cds = nrow * ncol /\ length out = nrow * ncol /\
  forall idx0, idx0 < nrow * ncol ->
    (nth idx0 cds (nrow * ncol) = nrow * ncol <-> nth idx0 out nsub = nsub) /\
    (nth idx0 cds (nrow * ncol) < nrow * ncol <-> nth idx0 out nsub < nsub).
Proof.
  intros G. split; [apply (g_lc _ _ G)|]. split; [apply (g_lo _ _ G)|].
  intros idx0 Hi. destruct (g_pi _ _ G idx0 Hi) as [[E1 E2]|[E1 [E2 _]]]; split; split; intros; lia.
Qed.

Lemma G0_outlet_cell cds out : G0 cds out ->
  forall idx0, idx0 < nrow * ncol -> nth idx0 out nsub < nsub ->
    sd (nth idx0 out nsub) < nsub /\
    cell (nth idx0 out nsub) < nrow * ncol /\
    nth (cell (nth idx0 out nsub)) cds (nrow * ncol) < nrow * ncol /\
    nth (cell (nth idx0 out nsub)) out nsub < nsub.
Proof.
  intros G idx0 Hi Ho.
  pose proof (g_oc _ _ G idx0 Hi Ho) as Hv.
  pose proof (Val_lt _ _ (g_lc _ _ G) Hv) as Hl.
  split; [|split; [exact Hl|split; [exact Hv|]]].
  - destruct (g_pi _ _ G idx0 Hi) as [[_ E]|[_ [_ E]]]; [lia|exact E].
  - apply (G0_vpix _ _ _ G Hv).
Qed.
End IhuValid.

(* the result carries no error marker: every entry is a cell index or the missing value *)
Definition no_marker (cds : list nat) (ncoarse : nat) : Prop := forall x, In x cds -> x <= ncoarse.

Lemma no_marker_err (e ncoarse : nat) (l : list nat) : no_marker (if e =? 0 then l else [ncoarse + e]) ncoarse ->
  (if e =? 0 then l else [ncoarse + e]) = l.
Proof. destruct e as [|e]; [reflexivity|]. cbn [Nat.eqb]. intros H. specialize (H _ (or_introl eq_refl)). lia. Qed.

(* ---------- the packaged statements on the model's entry point ---------- *)
Section Packaged.
Variables sds sq : list nat.
Variable upa : list Z.
Variables subnrow subncol cs : nat.
Variable ea : list bool.
Notation nsub := (length sds).

Hypothesis Hcs : 0 < cs.
Hypothesis HW : 0 < subncol.
Hypothesis Hlen : length sds = subnrow * subncol.
Hypothesis Ht : topo sds sq.                          (* loop-free ... *)
Hypothesis Hc : complete sds sq.                      (* ... and closed fine network *)
Hypothesis Hd8 : forall t, t < nsub -> Upscale.sd sds t < nsub -> in_d8 t (Upscale.sd sds t) subncol = true.
Hypothesis Hck : check_cross sds ea subncol cs = true.
(* the upstream area of a valid pixel is positive *)
Hypothesis Hupa : forall t, t < nsub -> Upscale.sd sds t < nsub -> (0 < nth t upa 0)%Z.

Theorem ihu_final_invariant :
  G0 sds subnrow subncol cs (a_cds (ihu_final sds upa subnrow subncol cs ea)) (a_out (ihu_final sds upa subnrow subncol cs ea)).
Proof.
  apply (ihu_final_G0 sds upa subnrow subncol cs Hcs HW Hlen (topo_complete_closed sds sq Ht Hc) sq ea Ht Hc Hd8 Hck Hupa).
Qed.

(* 2. a coarse cell is valid exactly where an outlet pixel is reported; both arrays have one entry per coarse cell *)
Theorem up_ihu_valid_iff_outlet :
  let '(cds, out, (nrow, ncol)) := up_ihu sds upa subnrow subncol cs ea in
  no_marker cds (nrow * ncol) ->
  length cds = nrow * ncol /\ length out = nrow * ncol /\
  forall idx0, idx0 < nrow * ncol ->
    (nth idx0 cds (nrow * ncol) = nrow * ncol <-> nth idx0 out (length sds) = length sds) /\
    (nth idx0 cds (nrow * ncol) < nrow * ncol <-> nth idx0 out (length sds) < length sds).
Proof.
  rewrite up_ihu_eq. intros Hno. rewrite (no_marker_err _ _ _ Hno). apply (G0_valid_iff sds subnrow subncol cs Hcs HW Hlen _ _ ihu_final_invariant).
Qed.

(* 3b. the outlet pixel of a valid cell is a valid fine pixel, and the coarse cell in which it lies is valid (the pixel may
   lie outside its own cell: the pit branch of ihu_minimize_error with pit_out_of_cell = 2) *)
Theorem up_ihu_outlet_cell_valid :
  let '(cds, out, (nrow, ncol)) := up_ihu sds upa subnrow subncol cs ea in
  no_marker cds (nrow * ncol) ->
  forall idx0, idx0 < nrow * ncol -> nth idx0 out (length sds) < length sds ->
    Upscale.sd sds (nth idx0 out (length sds)) < length sds /\
    sub2idx (nth idx0 out (length sds)) subncol cs ncol < nrow * ncol /\
    nth (sub2idx (nth idx0 out (length sds)) subncol cs ncol) cds (nrow * ncol) < nrow * ncol /\
    nth (sub2idx (nth idx0 out (length sds)) subncol cs ncol) out (length sds) < length sds.
Proof.
  rewrite up_ihu_eq. intros Hno. rewrite (no_marker_err _ _ _ Hno). apply (G0_outlet_cell sds subnrow subncol cs Hcs HW Hlen _ _ ihu_final_invariant).
Qed.

(* the downstream cell of a valid cell is valid, and every coarse cell that contains a pit is valid *)
Theorem up_ihu_downstream_valid :
  let '(cds, out, (nrow, ncol)) := up_ihu sds upa subnrow subncol cs ea in
  no_marker cds (nrow * ncol) ->
  (forall idx0, nth idx0 cds (nrow * ncol) < nrow * ncol ->
     nth (nth idx0 cds (nrow * ncol)) cds (nrow * ncol) < nrow * ncol) /\
  (forall t, t < length sds -> Upscale.sd sds t = t -> nth (sub2idx t subncol cs ncol) cds (nrow * ncol) < nrow * ncol).
Proof.
  rewrite up_ihu_eq. intros Hno. rewrite (no_marker_err _ _ _ Hno).
  pose proof ihu_final_invariant as G. split; [apply (g_dc _ _ _ _ _ _ G)|apply (g_pv _ _ _ _ _ _ G)].
Qed.
End Packaged.

(* the same with every hypothesis as a boolean check on the inputs *)
Definition check_upa (sds : list nat) (upa : list Z) : bool :=
  forallb (fun t => negb (validb sds t) || (0 <? nth t upa 0)%Z) (seq 0 (length sds)).

Lemma check_upa_sound sds upa : check_upa sds upa = true ->
  forall t, t < length sds -> Upscale.sd sds t < length sds -> (0 < nth t upa 0)%Z.
Proof.
  unfold check_upa. intros H t H1 H2. rewrite forallb_forall in H. specialize (H t ltac:(apply in_seq; lia)).
  assert (Hv : validb sds t = true) by (apply validb_valid; split; assumption).
  rewrite Hv in H. cbn [negb orb] in H. apply Z.ltb_lt. exact H.
Qed.

Theorem up_ihu_valid_iff_outlet_checked sds sq upa subnrow subncol cs ea : 0 < cs -> 0 < subncol ->
  length sds = subnrow * subncol ->
  check_topo sds sq = true -> check_complete sds sq = true -> check_d8 sds subncol = true ->
  check_cross sds ea subncol cs = true -> check_upa sds upa = true ->
  let '(cds, out, (nrow, ncol)) := up_ihu sds upa subnrow subncol cs ea in
  no_marker cds (nrow * ncol) ->
  length cds = nrow * ncol /\ length out = nrow * ncol /\
  forall idx0, idx0 < nrow * ncol ->
    (nth idx0 cds (nrow * ncol) = nrow * ncol <-> nth idx0 out (length sds) = length sds) /\
    (nth idx0 cds (nrow * ncol) < nrow * ncol <-> nth idx0 out (length sds) < length sds).
Proof.
  intros Hcs HW Hlen H1 H2 H3 H4 H5.
  apply (up_ihu_valid_iff_outlet sds sq upa subnrow subncol cs ea Hcs HW Hlen (check_topo_sound sds sq H1)
           (check_complete_sound sds sq H2) (check_d8_sound sds subncol H3) H4 (check_upa_sound sds upa H5)).
Qed.

Theorem up_ihu_outlet_cell_valid_checked sds sq upa subnrow subncol cs ea : 0 < cs -> 0 < subncol ->
  length sds = subnrow * subncol ->
  check_topo sds sq = true -> check_complete sds sq = true -> check_d8 sds subncol = true ->
  check_cross sds ea subncol cs = true -> check_upa sds upa = true ->
  let '(cds, out, (nrow, ncol)) := up_ihu sds upa subnrow subncol cs ea in
  no_marker cds (nrow * ncol) ->
  forall idx0, idx0 < nrow * ncol -> nth idx0 out (length sds) < length sds ->
    Upscale.sd sds (nth idx0 out (length sds)) < length sds /\
    sub2idx (nth idx0 out (length sds)) subncol cs ncol < nrow * ncol /\
    nth (sub2idx (nth idx0 out (length sds)) subncol cs ncol) cds (nrow * ncol) < nrow * ncol /\
    nth (sub2idx (nth idx0 out (length sds)) subncol cs ncol) out (length sds) < length sds.
Proof.
  intros Hcs HW Hlen H1 H2 H3 H4 H5.
  apply (up_ihu_outlet_cell_valid sds sq upa subnrow subncol cs ea Hcs HW Hlen (check_topo_sound sds sq H1)
           (check_complete_sound sds sq H2) (check_d8_sound sds subncol H3) H4 (check_upa_sound sds upa H5)).
Qed.

(* FINDING (model): without the hypothesis on the upstream areas fact 3b is false, and so is "the downstream cell of a
   valid cell is valid" already for the first stage.  One row of two pixels, cell size 1; pixel 1 drains to the pit 0,
   whose upstream area is 0: cell 0 gets no representative pixel, hence no outlet pixel; eam_plus links cell 1 to the
   invalid cell 0, and ihu_minimize_error moves the outlet pixel of cell 1 onto the pit, which lies in the invalid cell 0.
   (Fact 2, valid iff outlet, still holds on this input; it was not refuted on 140 000 random inputs with arbitrary
   upstream areas.)  Every other hypothesis of the theorems holds. *)
Theorem up_ihu_outlet_cell_valid_refuted :
  exists sds sq upa subnrow subncol cs ea,
    0 < cs /\ 0 < subncol /\ length sds = subnrow * subncol /\
    check_topo sds sq = true /\ check_complete sds sq = true /\ check_d8 sds subncol = true /\
    check_cross sds ea subncol cs = true /\ check_upa sds upa = false /\
    up_eam_plus sds upa subnrow subncol cs ea = ([2; 0], [2; 1], (1, 2)) /\
    up_ihu sds upa subnrow subncol cs ea = ([2; 1], [2; 0], (1, 2)) /\
    (* the outlet pixel of cell 1 is pixel 0, which lies in cell 0, which is not valid *)
    sub2idx (nth 1 [2; 0] 2) subncol cs 2 = 0 /\ nth 0 [2; 1] 2 = 2.
Proof.
  exists [0; 0], [0; 1], [0; 1]%Z, 1, 2, 1, [true; true]. vm_compute. repeat split; lia.
Qed.

(* ---------- example: case 1437 of the regression corpus (see IhuD8.v) ---------- *)
Example ex_valid_iff_outlet :
  length [0; 1; 1] = 1 * 3 /\ length [1; 5; 13] = 1 * 3 /\
  forall idx0, idx0 < 1 * 3 ->
    (nth idx0 [0; 1; 1] (1 * 3) = 1 * 3 <-> nth idx0 [1; 5; 13] 14 = 14) /\
    (nth idx0 [0; 1; 1] (1 * 3) < 1 * 3 <-> nth idx0 [1; 5; 13] 14 < 14).
Proof.
  pose proof (up_ihu_valid_iff_outlet_checked ex_sds ex_sq ex_upa 2 7 3 ex_ea) as H.
  destruct ex_run as [E _]. rewrite E in H.
  apply H; try lia; try (vm_compute; reflexivity). intros x Hx. cbn [In] in Hx. lia.
Qed.

Example ex_outlet_cell_valid : forall idx0, idx0 < 1 * 3 -> nth idx0 [1; 5; 13] 14 < 14 ->
    Upscale.sd ex_sds (nth idx0 [1; 5; 13] 14) < 14 /\
    sub2idx (nth idx0 [1; 5; 13] 14) 7 3 3 < 1 * 3 /\
    nth (sub2idx (nth idx0 [1; 5; 13] 14) 7 3 3) [0; 1; 1] (1 * 3) < 1 * 3 /\
    nth (sub2idx (nth idx0 [1; 5; 13] 14) 7 3 3) [1; 5; 13] 14 < 14.
Proof.
  pose proof (up_ihu_outlet_cell_valid_checked ex_sds ex_sq ex_upa 2 7 3 ex_ea) as H.
  destruct ex_run as [E _]. rewrite E in H.
  apply H; try lia; try (vm_compute; reflexivity). intros x Hx. cbn [In] in Hx. lia.
Qed.

Print Assumptions ihu_iter_ok.
Print Assumptions ihu_final_invariant.
Print Assumptions up_ihu_valid_iff_outlet.
Print Assumptions up_ihu_outlet_cell_valid.
Print Assumptions up_ihu_downstream_valid.
Print Assumptions up_ihu_valid_iff_outlet_checked.
Print Assumptions up_ihu_outlet_cell_valid_checked.
Print Assumptions up_ihu_outlet_cell_valid_refuted.
Print Assumptions ex_valid_iff_outlet.
Print Assumptions ex_outlet_cell_valid.
