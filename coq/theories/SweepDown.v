(* Generic down-sweep:   for i in seq:  a[i] := f i a[ds i] a[i]
   (seq ordered down- to upstream).  Ten kernels are instances. *)
From Coq Require Import List Arith Lia Bool.
Import ListNotations.
From PF Require Import Arr Net.

Section Down.
Variable ds : list nat.
Notation n := (size ds).
Notation dsf := (dsf ds).
Context {A : Type} (d : A).
Variable f : nat -> A -> A -> A.    (* f i (value at ds i) (own current value) *)

Definition dstep (a : list A) (i : nat) : list A := upd a i (f i (nth (dsf i) a d) (nth i a d)).
Definition sweep_down (seq : list nat) (init : list A) : list A := fold_left dstep seq init.

(* the value obtained by recursion along the downstream path *)
Inductive val (init : list A) : nat -> A -> Prop :=
| val_pit i : dsf i = i -> val init i (f i (nth i init d) (nth i init d))
| val_step i v : dsf i <> i -> val init (dsf i) v -> val init i (f i v (nth i init d)).

Lemma val_fun init i v1 v2 : val init i v1 -> val init i v2 -> v1 = v2.
Proof. intros H1; revert v2; induction H1 as [i Hp|i v Hn H IH]; intros v2 H2; inversion H2; subst; try congruence.
  f_equal. apply IH. assumption. Qed.

Lemma val_inv_pit init i v : val init i v -> dsf i = i -> v = f i (nth i init d) (nth i init d).
Proof. intros H Hp. inversion H; subst; auto. contradiction. Qed.

Lemma val_inv_step init i v : val init i v -> dsf i <> i ->
  exists v', val init (dsf i) v' /\ v = f i v' (nth i init d).
Proof. intros H Hp. inversion H; subst; [contradiction|]. eauto. Qed.

Lemma sweep_down_length seq init : length (sweep_down seq init) = length init.
Proof. unfold sweep_down. revert init; induction seq as [|x s IH]; intros; simpl; auto.
  rewrite IH. unfold dstep. apply upd_length. Qed.

Lemma sweep_down_snoc seq i init : sweep_down (seq ++ [i]) init = dstep (sweep_down seq init) i.
Proof. unfold sweep_down. rewrite fold_left_app. reflexivity. Qed.

Theorem sweep_down_spec seq init :
  length init = n -> topo ds seq ->
  (forall i, In i seq -> val init i (nth i (sweep_down seq init) d)) /\
  (forall i, ~ In i seq -> nth i (sweep_down seq init) d = nth i init d).
Proof.
  intros Hlen Ht. induction Ht as [|s i Ht IH Hv Hni Hds].
  - split; [intros i []|reflexivity].
  - destruct IH as [IH1 IH2]. rewrite sweep_down_snoc. unfold dstep.
    assert (Hl : length (sweep_down s init) = n) by (rewrite sweep_down_length; auto).
    split.
    + intros j Hj. apply in_app_or in Hj. destruct Hj as [Hj|[<-|[]]].
      * rewrite nth_upd_neq by (intros ->; contradiction). auto.
      * rewrite nth_upd_eq by (destruct Hv; lia).
        rewrite (IH2 i Hni).
        destruct Hds as [Hp|Hin].
        -- rewrite Hp. rewrite (IH2 i Hni). apply val_pit; auto.
        -- destruct (Nat.eq_dec (dsf i) i) as [E|E].
           ++ rewrite E in Hin. contradiction.
           ++ apply val_step; auto.
    + intros j Hj. rewrite nth_upd_neq. apply IH2. intros H; apply Hj, in_or_app; auto.
      intros ->. apply Hj, in_or_app. right; left; auto.
Qed.
End Down.
