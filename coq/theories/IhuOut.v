(* C09 / ihu, structural fact 3a: THE OUTLET PIXELS OF THE ITERATIVE METHOD ARE VALID FINE PIXELS.
   Invariant of the state `A` (Ihu.v):  OutV (a_out a) := every entry s of a_out is `Pix`: s < nsub -> sd s < nsub
   (the entry is the missing value, or a pixel with a downstream pixel).  On a closed fine network Pix is stable under
   one step downstream, and every pixel the stages store into subidxs_out is
   - a pixel of outlet_pix that passed the test `subidxs_ds[subidx] != mv` (new_outlet),
   - a pit (ihu_minimize_error's pit branch),
   - a pixel downstream of an outlet pixel (the trace of ihu_relocate_outlets, the walk of a tributary),
   - or a value saved earlier (the undo of opt_one, the unroll log). *)
From Coq Require Import List Arith ZArith Bool Lia.
Import ListNotations.
From PF Require Import Arr Net Elev Upscale UpscaleSpec UpscaleD8 UpscaleNoErr UpscaleDistinct D8Idx D8IdxSpec Ihu IhuD8.

Section IhuOut.
Variable sds : list nat.
Variable upa : list Z.
Variables subncol cs nrow ncol : nat.
Notation nsub := (length sds).
Notation nc := (nrow * ncol).
Notation sd := (Upscale.sd sds).

(* closed fine network: the downstream pixel of a valid pixel is valid *)
Hypothesis Hwf : forall t, t < nsub -> sd t < nsub -> sd (sd t) < nsub.

Definition Pix (s : nat) : Prop := s < nsub -> sd s < nsub.
Definition OutV (out : list nat) : Prop := forall i, Pix (nth i out nsub).

Lemma Pix_nsub : Pix nsub.
Proof. intros H. lia. Qed.

Lemma Pix_sd s : Pix s -> Pix (sd s).
Proof.
  intros H Hs. destruct (Nat.lt_ge_cases s nsub) as [Hlt|Hge].
  - apply Hwf; [exact Hlt|exact Hs].
  - unfold Upscale.sd in Hs. rewrite nth_overflow in Hs by exact Hge. lia.
Qed.

Lemma Pix_pit s : sd s = s -> Pix s.
Proof. intros E H. rewrite E. exact H. Qed.

Lemma OutV_upd out j v : OutV out -> Pix v -> OutV (upd out j v).
Proof.
  intros H Hv i. rewrite nth_upd. destruct (Nat.eqb i j && Nat.ltb j (length out)); [exact Hv|apply H].
Qed.

(* ---------- new_outlet ---------- *)
Lemma new_outlet_out a idx0 subidx0 tgt : OutV (a_out a) ->
  OutV (a_out (fst (new_outlet sds upa subncol cs ncol a idx0 subidx0 tgt))).
Proof.
  intros H. unfold new_outlet. cbv zeta.
  match goal with |- context [fold_left ?f ?l ?i] => set (F := f); set (R := fold_left F l i) end.
  assert (HQ : match snd (fst R) with Some (s, _, _) => sd s < nsub | None => True end).
  { apply fold_left_inv; [exact I|]. intros [[u b] ok] s _ Hb. unfold F. cbv beta iota. cbn [fst snd] in Hb.
    match goal with |- context [if ?c then _ else _] => destruct c eqn:Ec end; [exact Hb|].
    destruct (no_walk sds (S nsub) _ s []) as [[[slast s1] rpath]|]; [|exact Hb].
    match goal with |- context [if ?c then _ else _] => destruct c end; [|exact Hb].
    cbn [fst snd]. apply orb_false_iff in Ec. destruct Ec as [_ Ec]. apply Nat.leb_gt in Ec. exact Ec. }
  destruct R as [[u b] ok]. cbn [fst snd] in HQ. destruct b as [[[so idx_ds] p]|]; cbn [fst a_out]; [|exact H].
  apply OutV_upd; [exact H|]. intros _. exact HQ.
Qed.

(* ---------- ihu_optimize_rivlen ---------- *)
Lemma opt_one_out valid a idx0 : OutV (a_out a) ->
  OutV (a_out (fst (opt_one sds upa subncol cs nrow ncol valid a idx0))).
Proof.
  intros H. unfold opt_one. cbv zeta.
  match goal with |- context [if ?c then _ else _] => destruct c end; [exact H|].
  match goal with |- context [if ?c then _ else _] => destruct c end; [|exact H].
  pose proof (new_outlet_out a idx0 (nth idx0 (a_out a) nsub) None H) as H1.
  destruct (new_outlet sds upa subncol cs ncol a idx0 (nth idx0 (a_out a) nsub) None) as [a1 success].
  cbn [fst] in H1. destruct success; [|exact H1]. cbn [fst].
  apply fold_left_inv; [exact H1|]. intros a' idx _ Ha'.
  destruct (nth idx valid true).
  - destruct (idx =? nth idx0 (a_cds a) nc); exact Ha'.
  - destruct (nth idx0 (a_cds a') nc =? idx); [|exact Ha']. cbn [set_cds set_out set_st a_out].
    apply OutV_upd; [exact Ha'|]. apply H.
Qed.

Lemma optimize_rivlen_out valid short a : OutV (a_out a) ->
  OutV (a_out (optimize_rivlen sds upa subncol cs nrow ncol valid short a)).
Proof.
  intros H. unfold optimize_rivlen. apply fold_left_inv; [exact H|]. intros a' i _ Ha'. cbv zeta.
  pose proof (opt_one_out valid a' i Ha') as H1.
  destruct (opt_one sds upa subncol cs nrow ncol valid a' i) as [a1 brk]. cbn [fst] in H1.
  destruct brk; [exact H1|]. apply opt_one_out. exact H1.
Qed.

(* ---------- ihu_minimize_error ---------- *)
Lemma me_path_ds fuel st idx0 : forall subidx idxs r, me_path sds ncol fuel st idx0 subidx idxs = Some r ->
  snd r = sd (snd (fst r)).
Proof.
  induction fuel as [|f IH]; intros subidx idxs r Hr; cbn [me_path] in Hr; [discriminate|]. cbv zeta in Hr.
  destruct (sd subidx =? subidx); [inversion Hr; reflexivity|].
  destruct (0 <=? nth (sd subidx) st (-9))%Z.
  - match type of Hr with (if ?c then _ else _) = _ => destruct c end; [inversion Hr; reflexivity|].
    apply (IH _ _ _ Hr).
  - apply (IH _ _ _ Hr).
Qed.

Lemma me_hw_out idxs hw : forall a, OutV (a_out a) -> OutV (a_out (me_hw sds upa subncol cs nrow ncol a idxs hw)).
Proof.
  induction hw as [|idx t IH]; intros a H; cbn [me_hw]; [exact H|].
  pose proof (new_outlet_out a idx (nth idx (a_out a) nsub) (Some (nth (nth 0 idxs nc) (a_out a) nsub)) H) as H1.
  destruct (new_outlet sds upa subncol cs ncol a idx (nth idx (a_out a) nsub) (Some (nth (nth 0 idxs nc) (a_out a) nsub)))
    as [a1 fixed1].
  cbn [fst] in H1. destruct fixed1; [exact H1|]. apply IH. exact H1.
Qed.

Lemma me_rounds_out idxs idx0 nb n :
  forall a, OutV (a_out a) -> OutV (a_out (me_rounds sds upa subncol cs nrow ncol n a idxs idx0 nb)).
Proof.
  induction n as [|n IH]; intros a H; cbn [me_rounds]; [exact H|]. cbv zeta.
  match goal with |- context [if ?c then _ else _] => destruct c end; [|exact H].
  apply IH. apply me_hw_out. exact H.
Qed.

Lemma me_one_out poc a idx0 : OutV (a_out a) -> OutV (a_out (me_one sds upa subncol cs nrow ncol poc a idx0)).
Proof.
  intros H. unfold me_one. cbv zeta.
  destruct (me_path sds ncol (S nsub) (a_st a) idx0 (nth idx0 (a_out a) nsub) []) as [[[idxs subidx] subidx_ds]|] eqn:Ep;
    [|exact H].
  match goal with |- context [if ?c then _ else _] => destruct c eqn:Ec end.
  - cbn [set_out set_cds set_st a_out]. apply OutV_upd; [exact H|].
    pose proof (me_path_ds _ _ _ _ _ _ Ep) as Eds. cbn [fst snd] in Eds.
    apply andb_true_iff in Ec. destruct Ec as [Ec _]. apply andb_true_iff in Ec. destruct Ec as [Ec _].
    apply andb_true_iff in Ec. destruct Ec as [_ Ec]. apply Nat.eqb_eq in Ec.
    apply Pix_pit. congruence.
  - match goal with |- context [if ?c then new_outlet _ _ _ _ _ _ _ _ _ else _] => destruct c end.
    + pose proof (new_outlet_out a idx0 (nth idx0 (a_out a) nsub) None H) as H1.
      destruct (new_outlet sds upa subncol cs ncol a idx0 (nth idx0 (a_out a) nsub) None) as [a1 fixed].
      cbn [fst] in H1. destruct fixed; [exact H1|]. apply me_rounds_out. exact H1.
    + apply me_rounds_out. exact H.
Qed.

Lemma minimize_error_out fixl poc a : OutV (a_out a) ->
  OutV (a_out (minimize_error sds upa subncol cs nrow ncol fixl poc a)).
Proof.
  intros H. unfold minimize_error. cbv zeta. apply fold_left_inv; [exact H|]. intros a' i0 _ Ha'. apply me_one_out. exact Ha'.
Qed.

(* ---------- ihu_relocate_outlets ---------- *)
Definition OLogOk (log : list (nat * nat)) : Prop := Forall (fun p => Pix (snd p)) log.
Definition SOut (s : S4) : Prop := OutV (s_out s) /\ OLogOk (s_chg_out s).

Lemma s4_set_ds_out s i v : SOut s -> SOut (s4_set_ds nrow ncol s i v).
Proof. intros H. unfold s4_set_ds. destruct (nth i (s_cds s) nc =? v); exact H. Qed.

Lemma s4_set_out_out s i v : SOut s -> Pix v -> SOut (s4_set_out sds s i v).
Proof.
  intros [H1 H2] Hv. unfold s4_set_out. destruct (v =? nth i (s_out s) nsub); [split; assumption|].
  split; cbn [s_out s_chg_out].
  - apply OutV_upd; assumption.
  - apply Forall_app. split; [exact H2|]. constructor; [|constructor]. cbn [snd]. apply H1.
Qed.

Lemma s4_unroll_out s : SOut s -> SOut (s4_unroll s).
Proof.
  intros [H1 H2]. unfold s4_unroll. cbv zeta. split; cbn [s_out s_chg_out]; [|exact H2].
  apply fold_left_inv; [exact H1|]. intros l p Hp Hl. apply OutV_upd; [exact Hl|].
  unfold OLogOk in H2. rewrite Forall_forall in H2. apply H2. exact Hp.
Qed.

(* the trace: every alternative outlet pixel is a pixel downstream of the outlet pixel of idx00 *)
Lemma rl_trace_pix fuel cds out : forall subidx idx0 idx_ds0 il sl r, Pix subidx -> Forall Pix sl ->
  rl_trace sds subncol cs nrow ncol fuel cds out subidx idx0 idx_ds0 il sl = Some r -> Forall Pix (snd (fst r)).
Proof.
  induction fuel as [|f IH]; intros subidx idx0 idx_ds0 il sl r Hp Hsl Hr; cbn [rl_trace] in Hr; [discriminate|].
  cbv zeta in Hr.
  match type of Hr with (if ?c then _ else _) = _ => destruct c end.
  - assert (Hsl' : Forall Pix (if negb (nc <=? nth idx0 cds nc) then sl ++ [subidx] else sl)).
    { destruct (negb (nc <=? nth idx0 cds nc)); [|exact Hsl]. apply Forall_app. split; [exact Hsl|]. constructor; [exact Hp|constructor]. }
    match type of Hr with (if ?c then _ else _) = _ => destruct c end.
    + inversion Hr. cbn [fst snd]. exact Hsl'.
    + apply (IH _ _ _ _ _ _ (Pix_sd _ Hp) Hsl' Hr).
  - apply (IH _ _ _ _ _ _ (Pix_sd _ Hp) Hsl Hr).
Qed.

Lemma rl_trib_out fuel : forall s idx0 subidx_ds0 subidx idx_ds0 path, SOut s -> Pix subidx ->
  SOut (rl_trib sds subncol cs nrow ncol fuel s idx0 subidx_ds0 subidx idx_ds0 path).
Proof.
  induction fuel as [|f IH]; intros s idx0 subidx_ds0 subidx idx_ds0 path H Hp; cbn [rl_trib]; [exact H|]. cbv zeta.
  match goal with |- context [if ?c then _ else _] => destruct c end.
  - match goal with |- context [if ?c then _ else _] => destruct c end; [exact H|].
    destruct (in_d8 idx0 (sub2idx (sd subidx) subncol cs ncol) ncol); [|exact H].
    apply s4_set_ds_out. exact H.
  - match goal with |- context [match ?m with Some s' => s' | None => _ end] => destruct m as [s'|] eqn:Em end;
      [|apply IH; [exact H|apply Pix_sd; exact Hp]].
    match type of Em with (if ?c then _ else _) = _ => destruct c end; [|discriminate].
    destruct (next_outlet sds subncol cs ncol (S nsub) (s_out s) subidx) as [[[x idx_ds00] outlet0]|];
      [|inversion Em; exact H].
    match type of Em with (if ?c then _ else _) = _ => destruct c end; [|discriminate].
    inversion Em. apply s4_set_out_out; [|exact Hp]. apply s4_set_ds_out. apply s4_set_ds_out. exact H.
Qed.

Lemma rl_main_tribs_out us0 sds0 s ks : SOut s -> SOut (rl_main_tribs sds subncol cs nrow ncol us0 sds0 s ks).
Proof.
  intros H. unfold rl_main_tribs. apply fold_left_inv; [exact H|]. intros s' k _ Hs'. cbv zeta.
  destruct (in_out s' (nth k us0 nc)); [exact Hs'|]. apply rl_trib_out; [exact Hs'|]. destruct Hs' as [Hs' _]. apply Hs'.
Qed.

Section Step4.
Variables il sl us0 sds0 conn conn1 : list nat.
Hypothesis Hsl : forall j, Pix (nth j sl nsub).

Lemma rl_step_out s j : SOut s -> SOut (rl_step sds subncol cs nrow ncol il sl us0 sds0 conn conn1 s j).
Proof.
  intros H. unfold rl_step. destruct (s_next s); [exact H|]. cbv zeta.
  match goal with |- context [if ?c then s4_unroll _ else _] => destruct c end.
  - apply s4_unroll_out. exact H.
  - match goal with |- context [if ?c then _ else _] => destruct c end; [exact H|].
    match goal with |- context [if ?c then _ else _] => destruct c end.
    + match goal with |- context [rl_main_tribs _ _ _ _ _ _ _ ?s0 ?ks] =>
        assert (Hm : SOut (rl_main_tribs sds subncol cs nrow ncol us0 sds0 s0 ks)) end.
      { apply rl_main_tribs_out. apply s4_set_out_out; [|apply Hsl]. apply s4_set_ds_out. exact H. }
      match goal with |- context [if ?c then s4_unroll _ else _] => destruct c end; [apply s4_unroll_out|]; exact Hm.
    + match goal with |- context [if ?c then _ else _] => destruct c end; exact H.
Qed.

Lemma rl_passes_out fuel : forall cds out bott idx00 idx1 ok, OutV out ->
  SOut (rl_passes sds subncol cs nrow ncol il sl us0 sds0 conn conn1 fuel cds out bott idx00 idx1 ok).
Proof.
  assert (Hfold : forall cds out bott idx00 idx1 ok, OutV out ->
    SOut (fold_left (rl_step sds subncol cs nrow ncol il sl us0 sds0 conn conn1) (seq 0 (length sl))
            (mkS4 cds out bott false [] [] idx00 0 0 idx1 ok))).
  { intros cds out bott idx00 idx1 ok H. apply fold_left_inv; [split; [exact H|constructor]|].
    intros s j _ Hs. apply rl_step_out. exact Hs. }
  induction fuel as [|f IH]; intros cds out bott idx00 idx1 ok H; cbn [rl_passes].
  - apply Hfold. exact H.
  - cbv zeta. pose proof (Hfold cds out bott idx00 idx1 ok H) as Hs.
    match goal with |- context [if ?c then _ else _] => destruct c end; [|exact Hs].
    apply IH. destruct Hs as [Hs _]. exact Hs.
Qed.
End Step4.

Lemma rl_one_out a idx00 : OutV (a_out a) -> OutV (a_out (rl_one sds subncol cs nrow ncol a idx00)).
Proof.
  intros H. unfold rl_one. cbv zeta.
  match goal with |- context [match ?m with Some _ => _ | None => _ end] => destruct m as [[[il sl] sub_end]|] eqn:Et end;
    [|exact H].
  match goal with |- context [if ?c then a else _] => destruct c end; [exact H|].
  cbn [a_out].
  assert (Hsl : forall j, Pix (nth j sl nsub)).
  { pose proof (rl_trace_pix _ _ _ _ _ _ _ _ _ (Pix_sd _ (H idx00)) (Forall_nil _) Et) as Hf. cbn [fst snd] in Hf.
    intros j. destruct (Nat.lt_ge_cases j (length sl)) as [Hj|Hj].
    - rewrite Forall_forall in Hf. apply Hf. apply nth_In. exact Hj.
    - rewrite nth_overflow by exact Hj. apply Pix_nsub. }
  match goal with |- context [rl_passes _ _ _ _ _ ?a1 ?a2 ?a3 ?a4 ?a5 ?a6 ?a7 ?a8 ?a9 ?a10 ?a11 ?a12 ?a13] =>
    pose proof (rl_passes_out a1 a2 a3 a4 a5 a6 Hsl a7 a8 a9 a10 a11 a12 a13 H) as Hs;
    set (S0 := rl_passes sds subncol cs nrow ncol a1 a2 a3 a4 a5 a6 a7 a8 a9 a10 a11 a12 a13) in * end.
  destruct (in_out S0 (nth (s_idx1 S0) (s_cds S0) nc)).
  - destruct (s4_unroll_out S0 Hs) as [Hu _]. exact Hu.
  - destruct Hs as [Hs _]. exact Hs.
Qed.

Lemma relocate_out fixl a : OutV (a_out a) -> OutV (a_out (relocate sds upa subncol cs nrow ncol fixl a)).
Proof.
  intros H. unfold relocate. cbv zeta. apply fold_left_inv; [exact H|]. intros a' i0 _ Ha'. apply rl_one_out. exact Ha'.
Qed.

(* ---------- the iterations ---------- *)
Theorem ihu_iter_out n : forall j a fixl, OutV (a_out a) -> OutV (a_out (ihu_iter sds upa subncol cs nrow ncol n j a fixl)).
Proof.
  induction n as [|n IH]; intros j a fixl H; cbn [ihu_iter]; [exact H|]. cbv zeta.
  pose proof (relocate_out fixl a H) as H1.
  set (a1 := relocate sds upa subncol cs nrow ncol fixl a) in *.
  match goal with |- context [minimize_error _ _ _ _ _ _ ?f ?p (optimize_rivlen _ _ _ _ _ _ ?v ?sh ?a2)] =>
    assert (H4 : forall p', OutV (a_out (minimize_error sds upa subncol cs nrow ncol f p'
                                         (optimize_rivlen sds upa subncol cs nrow ncol v sh a2)))) end.
  { intros p'. apply minimize_error_out. apply optimize_rivlen_out. cbn [a_out]. exact H1. }
  match goal with |- context [if ?c then _ else ihu_iter _ _ _ _ _ _ _ _ _ _] => destruct c end.
  - apply H4.
  - apply IH. apply H4.
Qed.
End IhuOut.

(* ---------- the first stage establishes the invariant; the packaged statement on the model's entry point ---------- *)
Section Packaged.
Variable sds : list nat.
Variable upa : list Z.
Variables subnrow subncol cs : nat.
Variable ea : list bool.
Notation nsub := (length sds).
Notation nrow := (cdiv subnrow cs).
Notation ncol := (cdiv subncol cs).
Notation nc := (nrow * ncol).

(* the only hypothesis: the fine network is closed (no valid pixel drains to a nodata pixel) *)
Hypothesis Hwf : forall t, t < nsub -> Upscale.sd sds t < nsub -> Upscale.sd sds (Upscale.sd sds t) < nsub.

Lemma out_walk_pix ncl fuel idx0 : forall s, Pix sds s -> Pix sds (out_walk sds subncol cs ncl fuel idx0 s).
Proof.
  induction fuel as [|f IH]; intros s Hs; cbn [out_walk]; [intros H; lia|]. cbv zeta.
  match goal with |- context [if ?c then _ else _] => destruct c end; [exact Hs|].
  apply IH. apply Pix_sd; assumption.
Qed.

Lemma ihu_outlets_OutV : OutV sds (ihu_outlets sds subncol cs nrow ncol (repcell sds upa subncol cs nrow ncol (eaf ea))).
Proof.
  intros i. destruct (Nat.lt_ge_cases i nc) as [Hi|Hi].
  - rewrite (UpscaleDistinct.ihu_outlets_nth sds subncol cs nrow ncol _ i Hi). cbv zeta.
    destruct (nsub <=? nth i (repcell sds upa subncol cs nrow ncol (eaf ea)) nsub); [apply Pix_nsub|].
    apply out_walk_pix.
    destruct (repcell_spec sds upa subncol cs nrow ncol (eaf ea)) as (_ & Hin & _).
    destruct (Hin i Hi) as [E|[[_ [Hd _]] _]]; [rewrite E; apply Pix_nsub|]. intros _. exact Hd.
  - rewrite nth_overflow; [apply Pix_nsub|]. unfold ihu_outlets. rewrite map_length, seq_length. exact Hi.
Qed.

Theorem ihu_final_OutV : OutV sds (a_out (ihu_final sds upa subnrow subncol cs ea)).
Proof. unfold ihu_final. cbv zeta. apply ihu_iter_out; [exact Hwf|]. cbn [a_out]. exact ihu_outlets_OutV. Qed.

(* every outlet pixel reported by the iterative method is a pixel of the raster that has a downstream pixel (or is a pit):
   never a nodata pixel *)
Theorem up_ihu_outlets_valid :
  let '(cds, out, (nrow, ncol)) := up_ihu sds upa subnrow subncol cs ea in
  forall idx0, nth idx0 out (length sds) < length sds -> Upscale.sd sds (nth idx0 out (length sds)) < length sds.
Proof. rewrite up_ihu_eq. intros idx0. apply ihu_final_OutV. Qed.
End Packaged.

Theorem up_ihu_outlets_valid_topo sds sq upa subnrow subncol cs ea : topo sds sq -> complete sds sq ->
  let '(cds, out, (nrow, ncol)) := up_ihu sds upa subnrow subncol cs ea in
  forall idx0, nth idx0 out (length sds) < length sds -> Upscale.sd sds (nth idx0 out (length sds)) < length sds.
Proof. intros Ht Hc. apply up_ihu_outlets_valid. apply (topo_complete_closed sds sq Ht Hc). Qed.

Theorem up_ihu_outlets_valid_checked sds upa subnrow subncol cs ea : wfb sds = true ->
  let '(cds, out, (nrow, ncol)) := up_ihu sds upa subnrow subncol cs ea in
  forall idx0, nth idx0 out (length sds) < length sds -> Upscale.sd sds (nth idx0 out (length sds)) < length sds.
Proof.
  intros H. apply up_ihu_outlets_valid. intros t H1 H2.
  apply wfb_wf in H. destruct (H t (conj H1 H2)) as [_ H3]. exact H3.
Qed.

(* the closedness hypothesis cannot be dropped: 2 x 2 pixels, one coarse cell; pixel 0 drains to pixel 1, pixel 1 drains
   to a nodata pixel (index 4 = nodata), pixels 2 and 3 are nodata: the outlet pixel of the cell is pixel 1 *)
Theorem up_ihu_outlets_valid_needs_closed :
  up_ihu [1; 4; 4; 4] [1; 1; 1; 1]%Z 2 2 2 [true; true; true; true] = ([1], [1], (1, 1)) /\
  nth 0 [1] 4 < 4 /\ Upscale.sd [1; 4; 4; 4] (nth 0 [1] 4) = 4 /\ wfb [1; 4; 4; 4] = false.
Proof. vm_compute. repeat split; lia. Qed.

Example ex_outlets_valid : forall idx0, nth idx0 [1; 5; 13] 14 < 14 -> Upscale.sd ex_sds (nth idx0 [1; 5; 13] 14) < 14.
Proof.
  pose proof (up_ihu_outlets_valid_checked ex_sds ex_upa 2 7 3 ex_ea) as H.
  destruct ex_run as [E _]. rewrite E in H. apply H. vm_compute. reflexivity.
Qed.

Print Assumptions ihu_iter_out.
Print Assumptions up_ihu_outlets_valid.
Print Assumptions up_ihu_outlets_valid_topo.
Print Assumptions up_ihu_outlets_valid_checked.
Print Assumptions up_ihu_outlets_valid_needs_closed.
Print Assumptions ex_outlets_valid.
