(* C13 / termination, target 7: the lazy-deletion Dijkstra loop of gis_utils.spread2d, `sloop` (Spread.v), run by
   `spread2d` with fuel 10 * sz + 10 (sz = nrow * ncol).  For non-negative step lengths and friction a cell is expanded at
   most once (SpreadOpt.ginv: keys pop in non-decreasing order), an expansion pushes at most 8 entries, so at most
   |initial queue| + 8 sz <= 9 sz entries are ever popped: the loop ends because the queue is EMPTY, never because the fuel
   is used up.  Potential:  |queue| + 8 * (sz - #expanded cells).
   With NEGATIVE friction the claim is false (and the Python loop does not terminate): see the end of the file. *)
From Coq Require Import List Arith ZArith Bool Lia.
Import ListNotations.
From PF Require Import Arr Spread SpreadSpec SpreadOpt.
Local Open Scope nat_scope.

Section TermSpread.
Variables nrow ncol : nat.
Variable obs : list Z.
Variable msk : option (list bool).
Variable nodata : Z.
Variable frc : option (list Z).
Variables dx dy hyp : Z.
Hypothesis Hdx : (0 <= dx)%Z.
Hypothesis Hdy : (0 <= dy)%Z.
Hypothesis Hhyp : (0 <= hyp)%Z.
Hypothesis Hfrc : forall i, (0 <= match frc with None => 1 | Some fr => nth i fr 1 end)%Z.
Hypothesis Hobs : length obs = nrow * ncol.
Notation sz := (nrow * ncol).
Notation loop := (sloop nrow ncol obs msk frc dx dy hyp).
Notation ginv := (ginv nrow ncol obs msk nodata frc dx dy hyp).
Notation init := (spread_init nrow ncol obs msk nodata).

(* the state after popping (d0, i0) *)
Definition snext (st : sstate) (d0 : Z) (i0 : nat) (rest : list (Z * nat)) : sstate :=
  if (nth i0 (s_dst st) 0 <? d0)%Z then popq st rest
  else fold_left (relax nrow ncol obs msk dx dy hyp d0 i0 (fr frc i0)) nb8 (popq st rest).

Lemma sloop_S f st : loop (S f) st =
  match qmin (s_q st) with None => st | Some ((d0, i0), rest) => loop f (snext st d0 i0 rest) end.
Proof.
  cbn [sloop]. destruct (qmin (s_q st)) as [[[d0 i0] rest]|]; [|reflexivity].
  unfold snext, popq, fr. destruct (nth i0 (s_dst st) 0 <? d0)%Z; reflexivity.
Qed.

Definition smeas (st : sstate) (E : list nat) : nat := length (s_q st) + 8 * (sz - length E).

Lemma spread_step dl st E d0 i0 rest : ginv dl st E E -> qmin (s_q st) = Some ((d0, i0), rest) ->
  exists E', ginv d0 (snext st d0 i0 rest) E' E' /\ S (smeas (snext st d0 i0 rest) E') <= smeas st E.
Proof.
  intros HG Eq. destruct (qmin_spec _ _ _ Eq) as (_ & _ & _ & Hlen). unfold snext, smeas.
  destruct (Z.ltb_spec (nth i0 (s_dst st) 0%Z) d0) as [Hlt|Hge].
  - exists E. split; [apply (pop_stale nrow ncol obs msk nodata frc dx dy hyp Hobs dl st E d0 i0 rest); auto|].
    change (s_q (popq st rest)) with rest. lia.
  - destruct (pop_expand nrow ncol obs msk nodata frc dx dy hyp Hdx Hdy Hhyp Hfrc Hobs dl st E d0 i0 rest HG Eq)
      as (HG2 & HnE & Hi0); [unfold dstv; lia|].
    exists (i0 :: E). split; [exact HG2|].
    pose proof (fold_q_length nrow ncol obs msk frc dx dy hyp Hobs d0 i0 nb8 (popq st rest)) as Hl.
    change (s_q (popq st rest)) with rest in Hl. change (length nb8) with 8 in Hl.
    pose proof (E_bound _ _ _ _ _ _ _ _ _ _ _ _ HG2) as Hb. change (length (i0 :: E)) with (S (length E)) in *.
    set (Q := length (s_q (fold_left (relax nrow ncol obs msk dx dy hyp d0 i0 (fr frc i0)) nb8 (popq st rest)))) in *. lia.
Qed.

(* fuel >= potential: the queue ends empty, and extra fuel changes nothing *)
Lemma sloop_empty_gen : forall fuel st E dl, ginv dl st E E -> smeas st E <= fuel -> s_q (loop fuel st) = [].
Proof.
  induction fuel as [|f IH]; intros st E dl HG Hm.
  - cbn [sloop]. unfold smeas in Hm. destruct (s_q st); [reflexivity|simpl in Hm; lia].
  - rewrite sloop_S. destruct (qmin (s_q st)) as [[[d0 i0] rest]|] eqn:Eq; [|apply qmin_none; exact Eq].
    destruct (spread_step dl st E d0 i0 rest HG Eq) as [E' [HG' Hm']]. apply (IH _ E' d0 HG'). lia.
Qed.

Lemma sloop_fuel_gen : forall fuel st E dl extra, ginv dl st E E -> smeas st E <= fuel -> loop (fuel + extra) st = loop fuel st.
Proof.
  induction fuel as [|f IH]; intros st E dl extra HG Hm.
  - cbn [Nat.add]. assert (Hq : s_q st = []) by (unfold smeas in Hm; destruct (s_q st); [reflexivity|simpl in Hm; lia]).
    destruct extra as [|e]; [reflexivity|]. rewrite sloop_S, Hq. reflexivity.
  - cbn [Nat.add]. rewrite !sloop_S. destruct (qmin (s_q st)) as [[[d0 i0] rest]|] eqn:Eq; [|reflexivity].
    destruct (spread_step dl st E d0 i0 rest HG Eq) as [E' [HG' Hm']]. apply (IH _ E' d0 extra HG'). lia.
Qed.

(* number of pops (stale entries included) *)
Fixpoint spread_pops (fuel : nat) (st : sstate) : nat :=
  match fuel with
  | O => 0
  | S f => match qmin (s_q st) with None => 0 | Some ((d0, i0), rest) => S (spread_pops f (snext st d0 i0 rest)) end
  end.

Lemma spread_pops_le : forall fuel st E dl, ginv dl st E E -> spread_pops fuel st <= smeas st E.
Proof.
  induction fuel as [|f IH]; intros st E dl HG; cbn [spread_pops]; [lia|].
  destruct (qmin (s_q st)) as [[[d0 i0] rest]|] eqn:Eq; [|lia].
  destruct (spread_step dl st E d0 i0 rest HG Eq) as [E' [HG' Hm']]. specialize (IH _ E' d0 HG'). lia.
Qed.

Lemma init_smeas : smeas init [] <= 9 * sz.
Proof.
  unfold smeas. pose proof (init_qlen nrow ncol obs msk nodata Hobs) as H. change (length (@nil nat)) with 0.
  set (Q := length (s_q init)) in *. set (N := nrow * ncol) in *. lia.
Qed.

(* with the model's fuel 10 sz + 10 the final state has an empty queue *)
Theorem spread_queue_empty : s_q (loop (10 * sz + 10) init) = [].
Proof.
  apply (sloop_empty_gen _ _ [] 0%Z (init_ginv nrow ncol obs msk nodata frc dx dy hyp Hobs)). pose proof init_smeas. lia.
Qed.

(* ... already with fuel 9 sz; at most 9 sz entries are popped, whatever the fuel *)
Theorem spread_iterations : s_q (loop (9 * sz) init) = [] /\ forall fuel, spread_pops fuel init <= 9 * sz.
Proof.
  pose proof init_smeas as Hm. pose proof (init_ginv nrow ncol obs msk nodata frc dx dy hyp Hobs) as HG. split.
  - apply (sloop_empty_gen _ _ [] 0%Z HG). exact Hm.
  - intros fuel. pose proof (spread_pops_le fuel _ [] 0%Z HG). lia.
Qed.

(* more fuel gives the same final state *)
Theorem spread_fuel extra : loop (10 * sz + 10 + extra) init = loop (10 * sz + 10) init.
Proof.
  apply (sloop_fuel_gen _ _ [] 0%Z extra (init_ginv nrow ncol obs msk nodata frc dx dy hyp Hobs)). pose proof init_smeas. lia.
Qed.
End TermSpread.

(* the public entry with a fuel parameter *)
Definition spread2d_fuel (fuel : nat) (nrow ncol : nat) (obs : list Z) (msk : option (list bool)) (nodata : Z)
           (frc : option (list Z)) (dx dy hyp : Z) : list Z * list Z * list Z :=
  let st := sloop nrow ncol obs msk frc dx dy hyp fuel (spread_init nrow ncol obs msk nodata) in (s_out st, s_src st, s_dst st).

Theorem spread2d_terminates nrow ncol obs msk nodata frc dx dy hyp :
  (0 <= dx)%Z -> (0 <= dy)%Z -> (0 <= hyp)%Z -> (forall i, (0 <= match frc with None => 1 | Some fr => nth i fr 1 end)%Z) ->
  length obs = nrow * ncol ->
  forall extra, spread2d_fuel (10 * (nrow * ncol) + 10 + extra) nrow ncol obs msk nodata frc dx dy hyp
                = spread2d nrow ncol obs msk nodata frc dx dy hyp.
Proof.
  intros H1 H2 H3 H4 H5 extra. unfold spread2d_fuel, spread2d. cbv zeta.
  rewrite (spread_fuel nrow ncol obs msk nodata frc dx dy hyp H1 H2 H3 H4 H5 extra). reflexivity.
Qed.

(* satisfiable: a 2 x 3 raster, sources in two corners, friction 1..3, steps 3-4-5 *)
Example spread_example :
  let obs := [7; 0; 0; 0; 0; 9]%Z in let frc := Some [1; 2; 3; 1; 2; 3]%Z in
  length obs = 2 * 3 /\ (forall i, (0 <= match frc with None => 1 | Some fr => nth i fr 1 end)%Z) /\
  s_q (sloop 2 3 obs None frc 3 4 5 70 (spread_init 2 3 obs None 0)) = [] /\
  spread_pops 2 3 obs None frc 3 4 5 1000 (spread_init 2 3 obs None 0) = 7 /\
  spread2d_fuel 1000 2 3 obs None 0 frc 3 4 5 = spread2d 2 3 obs None 0 frc 3 4 5.
Proof.
  cbv zeta. split; [reflexivity|]. split; [|vm_compute; auto].
  intros i. do 6 (destruct i as [|i]; [cbn; lia|]). cbn. destruct i; lia.
Qed.

(* FINDING / boundary of the domain: with a negative friction value the documented-input hypothesis fails and the claim is
   FALSE: on a 1 x 2 raster (source in cell 0, friction -1) the two cells lower each other's distance for ever; with
   the model's fuel 10 * 2 + 10 = 30 the queue is still non-empty, and one more unit of fuel changes the result. *)
Theorem spread_negative_friction_refuted :
  exists nrow ncol obs frc dx dy hyp, length obs = nrow * ncol /\ (0 <= dx)%Z /\ (0 <= dy)%Z /\ (0 <= hyp)%Z /\
    s_q (sloop nrow ncol obs None frc dx dy hyp (10 * (nrow * ncol) + 10) (spread_init nrow ncol obs None 0)) <> [] /\
    spread2d_fuel (10 * (nrow * ncol) + 11) nrow ncol obs None 0 frc dx dy hyp <> spread2d nrow ncol obs None 0 frc dx dy hyp.
Proof.
  exists 1, 2, [5; 0]%Z, (Some [-1; -1]%Z), 1%Z, 1%Z, 1%Z.
  split; [reflexivity|]. split; [lia|]. split; [lia|]. split; [lia|]. split; vm_compute; discriminate.
Qed.

Print Assumptions spread_queue_empty.
Print Assumptions spread_iterations.
Print Assumptions spread_fuel.
Print Assumptions spread2d_terminates.
Print Assumptions spread_negative_friction_refuted.
