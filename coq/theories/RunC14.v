From Coq Require Import List Arith ZArith QArith Bool.
Import ListNotations.
From PF Require Import Arr Net Rank Accu Fill Stream Ops Glue RunC03.
Local Open Scope Z_scope.

Definition oq_out (l : list (option Q)) : list Z :=
  flat_map (fun o => match o with None => [0; 0; 1] | Some q => [1; Qnum q; Zpos (Qden q)] end) l.
Definition so_opt (has : Z) (l : list Z) : option (list Z) := if has =? 0 then None else Some l.
Definition ones (n : nat) : list Z := repeat 1 n.

(* step length on a regular projected grid: |xres| along a row, |yres| along a column, hyp diagonally *)
Definition grid_len (ncol : nat) (xres yres hyp : Z) (i j : nat) : Z :=
  let dr := Z.abs (Z.of_nat (j / ncol) - Z.of_nat (i / ncol)) in
  let dc := Z.abs (Z.of_nat (j mod ncol) - Z.of_nat (i mod ncol)) in
  if (dr =? 0) && (dc =? 0) then 0 else if dr =? 0 then Z.abs xres * dc else if dc =? 0 then Z.abs yres * dr else hyp.

Definition run_c14 (k : Z) (args : list (list Z)) : list (list Z) :=
  let ds := net_in (arg 0 args) in
  if k =? 1401 then [downstream ds (arg 1 args)]
  else if k =? 1402 then [upstream_sum ds (arg 1 args) (argz 2 args)]
  else if k =? 1403 then
    if argz 4 args =? 0 then [fillnodata_upstream ds (ns (arg 1 args)) (arg 2 args) (argz 3 args)]
    else [fillnodata_downstream ds (ns (arg 1 args)) (arg 2 args) (argz 3 args) (argz 5 args)]
  else if k =? 1404 then
    let w := match arg 6 args with [] => ones (length ds) | l => l end in
    [oq_out (moving_average ds (net_in (arg 1 args)) (so_opt (argz 2 args) (arg 3 args)) (argn 4 args) (arg 5 args) w (argz 7 args))]
  else if k =? 1405 then
    [oq_out (moving_median ds (net_in (arg 1 args)) (so_opt (argz 2 args) (arg 3 args)) (argn 4 args) (arg 5 args) (argz 7 args))]
  else if k =? 1406 then [stream_distance ds (ns (arg 1 args)) (mask_opt (argz 2 args) (arg 3 args)) (fun _ _ => 1)]
  else if k =? 1407 then [hand ds (ns (arg 1 args)) (bs (arg 2 args)) (arg 3 args)]
  else if k =? 1408 then [floodplains ds (ns (arg 1 args)) (bs (arg 2 args)) (arg 3 args) (arg 4 args)]
  else if k =? 1409 then
    [idx_out (length ds) (window ds (net_in (arg 1 args)) (so_opt (argz 2 args) (arg 3 args)) (argn 4 args) (argn 5 args))]
  else if k =? 1410 then
    (* Flwdir.moving_average / moving_median(data, n, restrict_strord): main upstream from the default
       upstream area, Strahler order computed on the fly when restricting *)
    let sq := ns (arg 1 args) in
    (* arg 6: the node areas of a vector object in quarters (empty = unit areas); only their ranking matters *)
    let upa := flwdir_upstream_area ds sq (match arg 6 args with [] => ones (length ds) | w => w end) in
    let main := main_upstream ds upa 0 in
    let so := if argz 2 args =? 0 then None else Some (strahler_order ds sq None) in
    if argz 3 args =? 0
    then [oq_out (moving_average ds main so (argn 4 args) (arg 5 args) (ones (length ds)) (argz 7 args))]
    else [oq_out (moving_median ds main so (argn 4 args) (arg 5 args) (argz 7 args))]
  else if k =? 1411 then
    [stream_distance ds (ns (arg 1 args)) (mask_opt (argz 2 args) (arg 3 args))
                     (grid_len (argn 4 args) (argz 5 args) (argz 6 args) (argz 7 args))]
  else [[-999]].
