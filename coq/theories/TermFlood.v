(* C13 / termination, target 6: the Wang & Liu priority flood of dem.fill_depressions, `flood_loop` (Flood.v), run by
   `fill_depressions` with fuel S sz (sz = nrow * ncol).  Every cell is pushed at most once (it is flagged when pushed),
   so at most sz cells are ever popped: the loop ends because the queue is EMPTY, never because the fuel is used up.
   The potential  meas st = |queue| + #{cells not yet flagged}  (FloodOpt.v) is constant during a visit and drops by one at
   each pop.  Holds for every raster, every nodata value, connectivity, outlet mode and pit list (no hypothesis). *)
From Coq Require Import List Arith ZArith Bool Lia.
Import ListNotations.
From PF Require Import Arr Codec Flood FloodSpec FloodTree FloodOpt.
Local Open Scope nat_scope.

Section TermFlood.
Variables nrow ncol : nat.
Variable elv : list Z.
Variable nodata : Z.
Variable conn : Z.
Notation sz := (nrow * ncol).
Notation loop := (flood_loop nrow ncol elv conn).
Notation binv := (binv nrow ncol elv nodata).

(* number of pops (loop iterations that do work) *)
Fixpoint flood_pops (fuel : nat) (st : fstate) : nat :=
  match fuel with
  | O => 0
  | S f => match extract_min (fq st) with
           | None => 0
           | Some ((z0, _, i0), rest) =>
             S (flood_pops f (fold_left (visit nrow ncol elv z0 i0) (offs conn) (popped st rest)))
           end
  end.

Lemma pop_step st z0 b0 i0 rest : binv st -> extract_min (fq st) = Some ((z0, b0, i0), rest) ->
  let st' := fold_left (visit nrow ncol elv z0 i0) (offs conn) (popped st rest) in
  binv st' /\ S (meas st') = meas st.
Proof.
  intros Hb Ex st'.
  assert (Hb1 : binv (popped st rest)).
  { destruct Hb as (L1 & L2 & L3 & L4 & Hp & Hn). exact (conj L1 (conj L2 (conj L3 (conj L4 (conj Hp Hn))))). }
  split; [apply fold_visit_binv; exact Hb1|].
  unfold st'. rewrite (fold_meas nrow ncol elv nodata z0 i0 (offs conn) (popped st rest) Hb1).
  unfold meas. cbn [popped fq fqd]. pose proof (extract_min_length _ _ _ Ex). lia.
Qed.

(* fuel >= potential: extra fuel changes nothing *)
Lemma flood_fuel_gen : forall fuel st extra, binv st -> meas st <= fuel -> loop (fuel + extra) st = loop fuel st.
Proof.
  induction fuel as [|f IH]; intros st extra Hb Hm.
  - cbn [Nat.add flood_loop]. assert (Hq : fq st = []) by (unfold meas in Hm; destruct (fq st); [reflexivity|simpl in Hm; lia]).
    destruct extra as [|e]; [reflexivity|]. cbn [flood_loop]. rewrite Hq. reflexivity.
  - cbn [Nat.add flood_loop].
    destruct (extract_min (fq st)) as [[[[z0 b0] i0] rest]|] eqn:Ex; [|reflexivity].
    destruct (pop_step st z0 b0 i0 rest Hb Ex) as [Hb' Hm']. cbv zeta in Hb', Hm'.
    apply IH; [exact Hb'|]. unfold popped in Hm'. lia.
Qed.

Lemma flood_pops_le : forall fuel st, binv st -> flood_pops fuel st <= meas st.
Proof.
  induction fuel as [|f IH]; intros st Hb; cbn [flood_pops]; [lia|].
  destruct (extract_min (fq st)) as [[[[z0 b0] i0] rest]|] eqn:Ex; [|lia].
  destruct (pop_step st z0 b0 i0 rest Hb Ex) as [Hb' Hm']. cbv zeta in Hb', Hm'.
  specialize (IH _ Hb'). lia.
Qed.

Lemma flood_empty_gen : forall fuel st, binv st -> meas st <= fuel -> fq (loop fuel st) = [].
Proof.
  induction fuel as [|f IH]; intros st Hb Hm.
  - cbn [flood_loop]. unfold meas in Hm. destruct (fq st); [reflexivity|simpl in Hm; lia].
  - cbn [flood_loop]. destruct (extract_min (fq st)) as [[[[z0 b0] i0] rest]|] eqn:Ex; [|apply extract_min_none; auto].
    destruct (pop_step st z0 b0 i0 rest Hb Ex) as [Hb' Hm']. cbv zeta in Hb', Hm'.
    apply IH; [exact Hb'|]. unfold popped in Hm'. lia.
Qed.

Variable mode : Z.
Variable pits : list nat.
Notation init := (flood_init nrow ncol elv nodata conn mode pits).

(* with the model's fuel S sz the final state has an empty queue *)
Theorem flood_queue_empty : fq (loop (S sz) init) = [].
Proof. apply flood_empty_gen; [apply init_binv|]. pose proof (init_meas nrow ncol elv nodata conn mode pits). lia. Qed.

(* ... already with fuel sz; at most sz cells are popped, whatever the fuel *)
Theorem flood_iterations : fq (loop sz init) = [] /\ forall fuel, flood_pops fuel init <= sz.
Proof.
  pose proof (init_meas nrow ncol elv nodata conn mode pits) as Hm. split.
  - apply flood_empty_gen; [apply init_binv|exact Hm].
  - intros fuel. pose proof (flood_pops_le fuel init (init_binv nrow ncol elv nodata conn mode pits)). lia.
Qed.

(* more fuel gives the same final state *)
Theorem flood_fuel extra : loop (S sz + extra) init = loop (S sz) init.
Proof. apply flood_fuel_gen; [apply init_binv|]. pose proof (init_meas nrow ncol elv nodata conn mode pits). lia. Qed.
End TermFlood.

(* the public entry with a fuel parameter *)
Definition fill_depressions_fuel (fuel : nat) (nrow ncol : nat) (elv : list Z) (nodata conn mode : Z) (pits : list nat) :=
  let sz := nrow * ncol in
  let st := flood_loop nrow ncol elv conn fuel (flood_init nrow ncol elv nodata conn mode pits) in
  (map (fun i => (nth i elv 0 + nth i (fdelv st) 0)%Z) (seq 0 sz), fd8 st).

Theorem fill_depressions_terminates nrow ncol elv nodata conn mode pits extra :
  fill_depressions_fuel (S (nrow * ncol) + extra) nrow ncol elv nodata conn mode pits
  = fill_depressions nrow ncol elv nodata conn mode pits.
Proof. unfold fill_depressions_fuel, fill_depressions. cbv zeta. rewrite flood_fuel. reflexivity. Qed.

(* a 3 x 3 raster with a one-cell depression in the centre: 9 pops, empty queue, centre raised to 5 *)
Example flood_example :
  let elv := [5;5;5; 5;1;5; 5;5;5]%Z in
  fq (flood_loop 3 3 elv 8 10 (flood_init 3 3 elv (-9999) 8 0 [])) = [] /\
  flood_pops 3 3 elv 8 100 (flood_init 3 3 elv (-9999) 8 0 []) = 9 /\
  fst (fill_depressions 3 3 elv (-9999) 8 0 []) = [5;5;5; 5;5;5; 5;5;5]%Z.
Proof. vm_compute. auto. Qed.

Print Assumptions flood_queue_empty.
Print Assumptions flood_iterations.
Print Assumptions flood_fuel.
Print Assumptions fill_depressions_terminates.
