(* C09 / "upscaling succeeds" for eam_plus (ihu with niter = 0): the trace `ihu_walk` ALWAYS has an answer, so the model's
   ERR value never appears in the coarse next-index array of up_eam_plus.
   Geometry (same as the fall-back branch of UpscaleD8.eam_plus_links_d8): as long as no effective-area pixel has been met,
   the current pixel is on the near side of the middle lines of the neighbouring cells (`side` in both coordinates); one
   more D8 step from such a pixel ends in the start cell or one of its eight neighbours (`near`).  Hence at the exit of the
   loop either the exit cell is an 8-neighbour (answer: the exit pixel) or an effective-area pixel was remembered (answer:
   that pixel).  Partial last cells need no extra hypothesis: the invariant is about pixel coordinates, not about cells. *)
From Coq Require Import List Arith ZArith Bool Lia.
Import ListNotations.
From PF Require Import Arr Net Elev ElevSpec Upscale UpscaleSpec UpscaleD8 NetBound TermIhu.

Section Answers.
Variable sds : list nat.
Variables subncol cs ncol : nat.
Variable ea : list bool.
Variable sq : list nat.
Notation nsub := (length sds).
Notation sd := (Upscale.sd sds).
Notation cellof := (cellof subncol cs ncol).
Notation prow t := (t / subncol).
Notation pcol t := (t mod subncol).

Hypothesis Hcs : 0 < cs.
Hypothesis HW : 0 < subncol.
Hypothesis Hnc : subncol <= ncol * cs.
Hypothesis Hd8 : forall t, t < nsub -> sd t < nsub -> in_d8 t (sd t) subncol = true.
Hypothesis Hcross : forall t, t < nsub -> sd t < nsub -> mid cs (prow t) \/ mid cs (pcol t) -> eaf ea t = true.
Hypothesis Ht : topo sds sq.

Lemma sq_valid s : In s sq -> s < nsub /\ sd s < nsub.
Proof. intros Hs. exact (topo_valid sds sq s Ht Hs). Qed.

Lemma sq_iter k s : In s sq -> In (iter sds k s) sq.
Proof. intros Hs. apply topo_closed_iter; assumption. Qed.

(* one step from a pixel on the near side of the middle lines: still there, or on a middle line and then in the effective area;
   in both cases the new pixel is in the 3 x 3 block of cells around (R0, C0) *)
Lemma side_one_step R0 C0 p : In p sq -> side cs R0 (prow p) -> side cs C0 (pcol p) ->
  (near cs R0 (prow (sd p)) /\ near cs C0 (pcol (sd p))) /\
  ((side cs R0 (prow (sd p)) /\ side cs C0 (pcol (sd p))) \/ eaf ea (sd p) = true).
Proof.
  intros Hp Sr Sc. destruct (sq_valid p Hp) as [Hp1 Hp2].
  assert (Hdp : In (sd p) sq) by (apply (sq_iter 1 p Hp)).
  destruct (sq_valid (sd p) Hdp) as [Hd1 Hd2].
  destruct (pixel_step sds subncol cs ncol Hcs HW Hnc Hd8 p Hp1 Hp2) as (P1 & P2 & P3 & P4).
  destruct (side_step cs Hcs R0 (prow p) (prow (sd p)) Sr P1 P2) as [Sr'|[Mr Nr]];
  destruct (side_step cs Hcs C0 (pcol p) (pcol (sd p)) Sc P3 P4) as [Sc'|[Mc Ncn]].
  - split; [split; apply side_near; assumption|left; split; assumption].
  - split; [split; [apply side_near; assumption|exact Ncn]|right; apply Hcross; auto].
  - split; [split; [exact Nr|apply side_near; assumption]|right; apply Hcross; auto].
  - split; [split; assumption|right; apply Hcross; auto].
Qed.

(* the invariant of the trace, in closed form over the number of steps *)
Lemma trace_inv R0 C0 s : In s sq -> side cs R0 (prow s) -> side cs C0 (pcol s) ->
  forall k, (exists j, 1 <= j <= k /\ eaf ea (iter sds j s) = true) \/
            (side cs R0 (prow (iter sds k s)) /\ side cs C0 (pcol (iter sds k s))).
Proof.
  intros Hs Sr Sc. induction k as [|k IH].
  - right. cbn [iter]. split; assumption.
  - destruct IH as [[j [Hj He]]|[Sr' Sc']].
    + left. exists j. split; [lia|exact He].
    + destruct (side_one_step R0 C0 (iter sds k s) (sq_iter k s Hs) Sr' Sc') as [_ [[A B]|E]].
      * right. rewrite iter_S. split; assumption.
      * left. exists (S k). split; [lia|]. rewrite iter_S. exact E.
Qed.

(* THE TARGET: the walk always answers.  (Only `In s sq` and the cell of s are needed of the start pixel: it need not be the
   outlet pixel of its cell, and `out` is arbitrary.) *)
Theorem eam_plus_answers_core out idx0 s : In s sq -> cellof s = idx0 ->
  exists t, ihu_walk sds subncol cs ncol ea (S nsub) out idx0 s None = Some t.
Proof.
  intros Hs Hc. apply (ihu_walk_some sds subncol cs ncol ea sq Ht out idx0 s Hs).
  intros k _.
  pose proof (ccol_lt subncol cs ncol Hcs HW Hnc s) as HC0. rewrite cellof_eq in Hc.
  destruct (trace_inv (band cs (prow s)) (band cs (pcol s)) s Hs ltac:(left; reflexivity) ltac:(left; reflexivity) k)
    as [Hea|[Sr Sc]]; [right; exact Hea|left].
  destruct (side_one_step _ _ (iter sds k s) (sq_iter k s Hs) Sr Sc) as [[N1 N2] _].
  rewrite iter_S. rewrite <- Hc. apply (near_in_d8 subncol cs ncol Hcs HW Hnc); assumption.
Qed.
End Answers.

(* in the shape of UpscaleD8.eam_plus_links_d8_checked (whose closedness hypothesis follows here from `topo`) *)
Theorem eam_plus_answers sds subncol cs ncol ea sq : 0 < cs -> 0 < subncol -> subncol <= ncol * cs ->
  (forall t, t < length sds -> Upscale.sd sds t < length sds -> in_d8 t (Upscale.sd sds t) subncol = true) ->
  check_cross sds ea subncol cs = true ->
  topo sds sq ->
  forall out idx0 s, s < length sds -> Upscale.sd sds s < length sds -> cellof subncol cs ncol s = idx0 -> In s sq ->
  exists t, ihu_walk sds subncol cs ncol ea (S (length sds)) out idx0 s None = Some t.
Proof.
  intros Hcs HW Hnc Hd8 Hck Ht out idx0 s _ _ Hc Hs.
  apply (eam_plus_answers_core sds subncol cs ncol ea sq Hcs HW Hnc Hd8 (check_cross_sound sds ea subncol cs Hck) Ht out idx0 s Hs Hc).
Qed.

(* closedness along a topological order is only available for the listed pixels; for the packaged statement below the
   order is complete, which gives closedness of the whole network *)
Lemma topo_complete_closed sds sq : topo sds sq -> complete sds sq ->
  forall t, t < length sds -> Upscale.sd sds t < length sds -> Upscale.sd sds (Upscale.sd sds t) < length sds.
Proof.
  intros Ht Hc t H1 H2.
  assert (Hin : In t sq) by (apply Hc; split; assumption).
  pose proof (topo_closed sds sq t Ht Hin) as Hd.
  destruct (topo_valid sds sq _ Ht Hd) as [_ H]. exact H.
Qed.

(* ... and the answer is a pixel of the raster whose cell is the start cell or one of its eight neighbours *)
Theorem eam_plus_answers_d8 sds subncol cs ncol ea sq : 0 < cs -> 0 < subncol -> subncol <= ncol * cs ->
  (forall t, t < length sds -> Upscale.sd sds t < length sds -> in_d8 t (Upscale.sd sds t) subncol = true) ->
  check_cross sds ea subncol cs = true ->
  topo sds sq -> complete sds sq ->
  forall out idx0 s, cellof subncol cs ncol s = idx0 -> In s sq ->
  exists t, ihu_walk sds subncol cs ncol ea (S (length sds)) out idx0 s None = Some t /\
            t < length sds /\ in_d8 idx0 (cellof subncol cs ncol t) ncol = true.
Proof.
  intros Hcs HW Hnc Hd8 Hck Ht Hc out idx0 s Hcell Hs.
  destruct (topo_valid sds sq s Ht Hs) as [Hs1 Hs2].
  pose proof (topo_complete_closed sds sq Ht Hc) as Hwf.
  destruct (eam_plus_answers sds subncol cs ncol ea sq Hcs HW Hnc Hd8 Hck Ht out idx0 s Hs1 Hs2 Hcell Hs) as [t Hw].
  exists t. split; [exact Hw|]. split.
  - destruct (ihu_walk_spec sds subncol cs ncol Hwf ea out (S (length sds)) idx0 s None t Hs1 Hs2
                ltac:(intros x Hx; discriminate) Hw) as [Htl _]. exact Htl.
  - apply (eam_plus_links_d8_checked sds subncol cs ncol ea Hcs HW Hnc Hwf Hd8 Hck out idx0 s t Hs1 Hs2 Hcell Hw).
Qed.

(* a boolean check of "the links join 8-neighbouring pixels" *)
Definition check_d8 (sds : list nat) (subncol : nat) : bool :=
  forallb (fun t => (length sds <=? Upscale.sd sds t) || in_d8 t (Upscale.sd sds t) subncol) (seq 0 (length sds)).

Lemma check_d8_sound sds subncol : check_d8 sds subncol = true ->
  forall t, t < length sds -> Upscale.sd sds t < length sds -> in_d8 t (Upscale.sd sds t) subncol = true.
Proof.
  unfold check_d8. intros H t Ht Hd. rewrite forallb_forall in H. specialize (H t ltac:(apply in_seq; lia)).
  assert (E1 : (length sds <=? Upscale.sd sds t) = false) by (apply Nat.leb_gt; exact Hd). rewrite E1 in H. exact H.
Qed.

(* any map that contains the cross (middle rows and columns) passes check_cross *)
Lemma check_cross_of_cross sds ea subncol cs :
  (forall t, t < length sds -> midb cs (t / subncol) || midb cs (t mod subncol) = true -> eaf ea t = true) ->
  check_cross sds ea subncol cs = true.
Proof.
  intros H. unfold check_cross. apply forallb_forall. intros t Hin. apply in_seq in Hin.
  destruct (length sds <=? Upscale.sd sds t); [reflexivity|]. cbn [orb].
  destruct (midb cs (t / subncol) || midb cs (t mod subncol)) eqn:E; [|reflexivity].
  cbn [negb orb]. apply H; [lia|exact E].
Qed.

(* ---------- the outlet pixels handed to ihu_nextidx by the pipeline ---------- *)
Lemma ihu_outlets_cell sds sq upa subncol cs nrow ncol sel idx0 : topo sds sq -> complete sds sq ->
  let out := ihu_outlets sds subncol cs nrow ncol (repcell sds upa subncol cs nrow ncol sel) in
  idx0 < nrow * ncol -> nth idx0 out (length sds) < length sds ->
  cellof subncol cs ncol (nth idx0 out (length sds)) = idx0.
Proof.
  intros Ht Hc out Hi Hlt.
  unfold out, ihu_outlets in *.
  set (g := fun idx0 => let s := nth idx0 (repcell sds upa subncol cs nrow ncol sel) (length sds) in
                        if length sds <=? s then length sds else out_walk sds subncol cs ncol (S (length sds)) idx0 s) in *.
  rewrite (nth_indep _ (length sds) (g 0)) in * by (rewrite map_length, seq_length; exact Hi).
  rewrite (map_nth g) in *. rewrite seq_nth in * by exact Hi. unfold g in *. cbv zeta in *. cbn [Nat.add] in *.
  destruct (Nat.leb_spec (length sds) (nth idx0 (repcell sds upa subncol cs nrow ncol sel) (length sds))) as [H|H]; [lia|].
  destruct (repcell_spec sds upa subncol cs nrow ncol sel) as (_ & Hin & _).
  destruct (Hin idx0 Hi) as [E|[[H1 [H2 _]] [H3 _]]]; [lia|].
  destruct (out_walk_spec sds subncol cs nrow ncol (topo_complete_closed sds sq Ht Hc) (S (length sds)) idx0 _ _ H1 H2 H3 eq_refl
              ltac:(lia)) as (_ & Hcell & _).
  exact Hcell.
Qed.

(* ---------- the packaged statement on the model's entry point ---------- *)
Section Packaged.
Variables sds sq : list nat.
Variable upa : list Z.
Variables subnrow subncol cs : nat.
Variable ea : list bool.
Notation nrow := (cdiv subnrow cs).
Notation ncol := (cdiv subncol cs).
Notation nc := (nrow * ncol).
Notation nextidx := (fst (fst (up_eam_plus sds upa subnrow subncol cs ea))).
Notation outlets := (snd (fst (up_eam_plus sds upa subnrow subncol cs ea))).

Hypothesis Hcs : 0 < cs.
Hypothesis HW : 0 < subncol.
Hypothesis Hlen : length sds = subnrow * subncol.
Hypothesis Ht : topo sds sq.                          (* loop-free ... *)
Hypothesis Hc : complete sds sq.                      (* ... and closed fine network *)
Hypothesis Hd8 : forall t, t < length sds -> Upscale.sd sds t < length sds -> in_d8 t (Upscale.sd sds t) subncol = true.
Hypothesis Hck : check_cross sds ea subncol cs = true.

(* cell by cell: the entry is the missing value exactly where the cell has no outlet pixel; otherwise it is a cell index
   of the coarse raster, the cell itself or one of its eight neighbours -- never ERR *)
Theorem up_eam_plus_entry idx0 : idx0 < nc ->
  let e := nth idx0 nextidx 0 in
  (e = nc /\ length sds <= nth idx0 outlets (length sds)) \/
  (e < nc /\ in_d8 idx0 e ncol = true /\ nth idx0 outlets (length sds) < length sds).
Proof.
  intros Hi. unfold up_eam_plus. cbv zeta. cbn [fst snd]. unfold ihu_nextidx.
  rewrite per_cell_spec by exact Hi.
  set (out := ihu_outlets sds subncol cs nrow ncol (repcell sds upa subncol cs nrow ncol (eaf ea))).
  destruct (Nat.leb_spec (length sds) (nth idx0 out (length sds))) as [H|H]; [left; split; [reflexivity|exact H]|right].
  pose proof (ihu_outlets_in_sq sds sq Ht Hc upa subncol cs nrow ncol (eaf ea) idx0 H) as Hin. fold out in Hin.
  pose proof (ihu_outlets_cell sds sq upa subncol cs nrow ncol (eaf ea) idx0 Ht Hc Hi H) as Hcell. fold out in Hcell.
  destruct (topo_valid sds sq _ Ht Hin) as [Hs1 Hs2].
  destruct (cdiv_bound subncol cs Hcs) as [Hnc _].
  destruct (eam_plus_answers sds subncol cs ncol ea sq Hcs HW Hnc Hd8 Hck Ht out idx0 _ Hs1 Hs2 Hcell Hin) as [t Hw].
  rewrite Hw.
  pose proof (topo_complete_closed sds sq Ht Hc) as Hwf.
  destruct (ihu_walk_spec sds subncol cs ncol Hwf ea out (S (length sds)) idx0 _ None t Hs1 Hs2 ltac:(intros x Hx; discriminate) Hw)
    as [Htl _].
  split; [|split; [|exact H]].
  - apply coarse_shape_covers; [exact Hcs|exact HW|rewrite <- Hlen; exact Htl].
  - apply (eam_plus_links_d8_checked sds subncol cs ncol ea Hcs HW Hnc Hwf Hd8 Hck out idx0 _ t Hs1 Hs2 Hcell Hw).
Qed.

Lemma nextidx_length : length nextidx = nc.
Proof. unfold up_eam_plus. cbv zeta. cbn [fst]. unfold ihu_nextidx, per_cell. rewrite map_length, seq_length. reflexivity. Qed.

(* every entry is a cell index or the missing value, never ERR *)
Theorem up_eam_plus_no_err x : In x nextidx -> (x < nc \/ x = nc) /\ x <> ERR nrow ncol.
Proof.
  intros Hx. destruct (In_nth _ _ 0 Hx) as [i [Hi Hn]]. rewrite nextidx_length in Hi.
  destruct (up_eam_plus_entry i Hi) as [[E _]|[E _]]; rewrite Hn in E; unfold ERR; lia.
Qed.

Corollary up_eam_plus_forall : Forall (fun x => x <= nc) nextidx /\ ~ In (ERR nrow ncol) nextidx.
Proof.
  split.
  - apply Forall_forall. intros x Hx. destruct (up_eam_plus_no_err x Hx) as [H _]. lia.
  - intros Hx. destruct (up_eam_plus_no_err _ Hx) as [_ H]. apply H. reflexivity.
Qed.
End Packaged.

(* the same with every hypothesis as a boolean check on the inputs *)
Theorem up_eam_plus_no_err_checked sds sq upa subnrow subncol cs ea : 0 < cs -> 0 < subncol ->
  length sds = subnrow * subncol ->
  check_topo sds sq = true -> check_complete sds sq = true -> check_d8 sds subncol = true ->
  check_cross sds ea subncol cs = true ->
  let nrow := cdiv subnrow cs in let ncol := cdiv subncol cs in
  forall x, In x (fst (fst (up_eam_plus sds upa subnrow subncol cs ea))) ->
  (x < nrow * ncol \/ x = nrow * ncol) /\ x <> ERR nrow ncol.
Proof.
  intros Hcs HW Hlen H1 H2 H3 H4 nrow ncol x Hx.
  apply (up_eam_plus_no_err sds sq upa subnrow subncol cs ea Hcs HW Hlen (check_topo_sound sds sq H1)
           (check_complete_sound sds sq H2) (check_d8_sound sds subncol H3) H4 x Hx).
Qed.

(* ---------- the effective-area map of the implementation, in integers ----------
   upscale.effective_area: R = cs / 2, ri = |row offset - (R - 0.5)|, ci likewise,
   inside <-> sqrt ri + sqrt ci <= sqrt R  or  ri <= 0.5  or  ci <= 0.5.
   With a = 2 ri, b = 2 ci (integers): sqrt ri + sqrt ci <= sqrt R <-> a + b <= cs /\ 4 a b <= (cs - a - b)^2.
   Only the cross (a <= 1 or b <= 1) matters for the theorems; the astroid part is carried along for the example. *)
Definition ea_pix (cs subncol t : nat) : bool :=
  let a := absdiff (2 * ((t / subncol) mod cs)) (cs - 1) in
  let b := absdiff (2 * ((t mod subncol) mod cs)) (cs - 1) in
  ((a + b <=? cs) && (4 * a * b <=? (cs - a - b) * (cs - a - b))) || (a <=? 1) || (b <=? 1).
Definition ea_int (cs subncol n : nat) : list bool := map (ea_pix cs subncol) (seq 0 n).

Lemma eaf_ea_int cs subncol n t : t < n -> eaf (ea_int cs subncol n) t = ea_pix cs subncol t.
Proof.
  intros Ht. unfold eaf, ea_int.
  rewrite (nth_indep _ false (ea_pix cs subncol 0)) by (rewrite map_length, seq_length; exact Ht).
  rewrite (map_nth (ea_pix cs subncol)). rewrite seq_nth by exact Ht. reflexivity.
Qed.

Lemma midb_absdiff cs x : 0 < cs -> midb cs x = true -> (absdiff (2 * (x mod cs)) (cs - 1) <=? 1) = true.
Proof.
  intros Hcs H. unfold midb in H. apply andb_true_iff in H. destruct H as [H1 H2].
  apply Nat.leb_le in H1. apply Nat.leb_le in H2. apply Nat.leb_le. unfold absdiff. lia.
Qed.

Lemma ea_int_cross sds subncol cs : 0 < cs -> check_cross sds (ea_int cs subncol (length sds)) subncol cs = true.
Proof.
  intros Hcs. apply check_cross_of_cross. intros t Ht Hm. rewrite eaf_ea_int by exact Ht.
  unfold ea_pix. cbv zeta. apply orb_true_iff in Hm. destruct Hm as [Hm|Hm].
  - rewrite (midb_absdiff cs _ Hcs Hm). rewrite orb_true_r. reflexivity.
  - rewrite (midb_absdiff cs _ Hcs Hm). rewrite orb_true_r. reflexivity.
Qed.

(* with the implementation's own effective-area map no hypothesis on the map is left *)
Theorem up_eam_plus_no_err_ea_int sds sq upa subnrow subncol cs : 0 < cs -> 0 < subncol ->
  length sds = subnrow * subncol -> topo sds sq -> complete sds sq ->
  (forall t, t < length sds -> Upscale.sd sds t < length sds -> in_d8 t (Upscale.sd sds t) subncol = true) ->
  let nrow := cdiv subnrow cs in let ncol := cdiv subncol cs in
  forall x, In x (fst (fst (up_eam_plus sds upa subnrow subncol cs (ea_int cs subncol (length sds))))) ->
  (x < nrow * ncol \/ x = nrow * ncol) /\ x <> ERR nrow ncol.
Proof.
  intros Hcs HW Hlen Ht Hc Hd8 nrow ncol x Hx.
  apply (up_eam_plus_no_err sds sq upa subnrow subncol cs _ Hcs HW Hlen Ht Hc Hd8 (ea_int_cross sds subncol cs Hcs) x Hx).
Qed.

(* ---------- example: 4 x 10 pixels, cell size 3, hence 2 x 4 coarse cells whose last row and last column of cells are
   one pixel wide (no middle line of those cells lies inside the raster).  Row 0 flows east into a pit at its last pixel
   (pixel 9, cell 3); every other pixel is a pit; pixels 24 and 27 (cells 1 and 2) carry a large upstream area, so the
   outlet pixels of cells 1 and 2 are NOT on the row-0 stream.  The trace of cell 0 therefore runs through cells 1 and 2
   without meeting an outlet pixel and leaves at the pit in cell 3, which is not an 8-neighbour of cell 0: the fall-back
   answer (first effective-area pixel, pixel 4 on the middle column of cell 1) is used and links cell 0 to cell 1. ---------- *)
Definition ex_sds : list nat :=
  [1;2;3;4;5;6;7;8;9;9] ++ seq 10 30.
Definition ex_sq : list nat := rev (seq 10 30) ++ [9;8;7;6;5;4;3;2;1;0].
Definition ex_upa : list Z :=
  [1;2;3;4;5;6;7;8;9;10; 1;1;1;1;1;1;1;1;1;1; 1;1;1;1;100;1;1;100;1;1; 1;1;1;1;1;1;1;1;1;1]%Z.
Definition ex_ea : list bool := ea_int 3 10 40.

Example ex_ea_map : ex_ea =
  [false;true;false;false;true;false;false;true;false;false;
   true; true;true; true; true;true; true; true;true; true;
   false;true;false;false;true;false;false;true;false;false;
   false;true;false;false;true;false;false;true;false;false].
Proof. vm_compute. reflexivity. Qed.

Example ex_run :
  up_eam_plus ex_sds ex_upa 4 10 3 ex_ea =
  ([1; 1; 2; 3; 4; 5; 6; 7],            (* nextidx: cell 0 -> cell 1 by the fall-back branch; no ERR = 9 *)
   [2; 24; 27; 9; 30; 33; 36; 39],      (* outlet pixels *)
   (2, 4)) /\
  (* the trace of cell 0 from its outlet pixel 2: exit at pixel 9 (cell 3, not an 8-neighbour), answer = pixel 4 *)
  ihu_walk ex_sds 10 3 4 ex_ea 41 [2; 24; 27; 9; 30; 33; 36; 39] 0 2 None = Some 4 /\
  in_d8 0 (cellof 10 3 4 9) 4 = false.
Proof. vm_compute. auto. Qed.

Example ex_no_err : forall x, In x (fst (fst (up_eam_plus ex_sds ex_upa 4 10 3 ex_ea))) ->
  (x < 8 \/ x = 8) /\ x <> 9.
Proof.
  apply (up_eam_plus_no_err_checked ex_sds ex_sq ex_upa 4 10 3 ex_ea); try lia; vm_compute; reflexivity.
Qed.

(* the same through the theorem for the integer effective-area map (no check_cross to evaluate) *)
Example ex_no_err' : forall x, In x (fst (fst (up_eam_plus ex_sds ex_upa 4 10 3 (ea_int 3 10 (length ex_sds))))) ->
  (x < 8 \/ x = 8) /\ x <> 9.
Proof.
  apply (up_eam_plus_no_err_ea_int ex_sds ex_sq ex_upa 4 10 3); try lia.
  - reflexivity.
  - apply check_topo_sound. vm_compute. reflexivity.
  - apply check_complete_sound. vm_compute. reflexivity.
  - apply check_d8_sound. vm_compute. reflexivity.
Qed.

(* the D8 hypothesis on the fine links cannot be dropped: one row of three pixels, cell size 1, pixel 0 linked directly to
   the pit 2 (not an 8-neighbour), every pixel in the effective area (check_cross holds): the trace of cell 0 exits at once
   in cell 2 with no effective-area pixel remembered, and the pipeline stores ERR *)
Theorem eam_plus_answers_needs_d8 :
  exists sds sq upa subnrow subncol cs ea,
    topo sds sq /\ complete sds sq /\ length sds = subnrow * subncol /\ check_cross sds ea subncol cs = true /\
    check_d8 sds subncol = false /\
    let nrow := cdiv subnrow cs in let ncol := cdiv subncol cs in
    fst (fst (up_eam_plus sds upa subnrow subncol cs ea)) = [ERR nrow ncol; 1; 2].
Proof.
  exists [2;1;2], [2;1;0], [1;1;2]%Z, 1, 3, 1, [true;true;true].
  split; [apply check_topo_sound; vm_compute; reflexivity|].
  split; [apply check_complete_sound; vm_compute; reflexivity|].
  vm_compute. auto.
Qed.

Print Assumptions eam_plus_answers_core.
Print Assumptions eam_plus_answers.
Print Assumptions eam_plus_answers_d8.
Print Assumptions up_eam_plus_entry.
Print Assumptions up_eam_plus_no_err.
Print Assumptions up_eam_plus_forall.
Print Assumptions up_eam_plus_no_err_checked.
Print Assumptions up_eam_plus_no_err_ea_int.
Print Assumptions ex_run.
Print Assumptions ex_no_err.
Print Assumptions ex_no_err'.
Print Assumptions eam_plus_answers_needs_d8.
