(* basins.subbasins_pfafstetter, REGENERATED from the Python source (generated/GenSeg.v), equals the hand model
   Subbas.subbasins_pfafstetter that the Pfaf*.v theorems are about.
   The generated `while` loops return None when their fuel runs out, the model's `climb` / `pfaf_loop` silently stop:
     - partial correctness (gen_subbasins_pfafstetter_sound): whenever the generated function returns a value, it is
       the model's value;
     - total form (gen_subbasins_pfafstetter_eq): on a loop-free network with a well-formed `main` array (the hypotheses
       of TermClimb.v / TermPfafLoop.v) the generated function does return a value. *)
From Coq Require Import List Arith ZArith Bool Lia.
Import ListNotations.
From PF Require Import Arr Net NetBound SweepDown Fill Rank Stream Subbas AccuSpec GenCoreBaseEq GenLoopsEq GenOrderEq.
From PF Require Import TermClimb TermPfafLoop GenSegTribEq.
From PFG Require Import GenLoops GenCore GenSeg.
Local Open Scope Z_scope.

(* ---------- generic: loops that may fail, `for i, x in enumerate(A)` ---------- *)
Lemma ofold_sound {S B} (f : S -> B -> option S) (g : S -> B -> S) l :
  (forall st x st', f st x = Some st' -> st' = g st x) ->
  forall st r, ofold f l st = Some r -> r = fold_left g l st.
Proof.
  intros H. induction l as [|x l IH]; intros st r E.
  - rewrite ofold_nil in E. inversion E. reflexivity.
  - rewrite ofold_cons in E. destruct (f st x) as [s|] eqn:Ef; [|discriminate].
    cbn [fold_left]. rewrite <- (H _ _ _ Ef). apply IH. exact E.
Qed.

Lemma ofold_total_in {S B} (P : S -> Prop) (f : S -> B -> option S) (g : S -> B -> S) l :
  (forall st x, P st -> In x l -> f st x = Some (g st x) /\ P (g st x)) ->
  forall st, P st -> ofold f l st = Some (fold_left g l st) /\ P (fold_left g l st).
Proof.
  induction l as [|x l IH]; intros H st Hst; [split; [reflexivity|exact Hst]|].
  rewrite ofold_cons. destruct (H st x Hst (or_introl eq_refl)) as [E HP]. rewrite E. cbn [fold_left].
  apply IH; [|exact HP]. intros s y Hs Hy. apply H; [exact Hs|right; exact Hy].
Qed.

Lemma combine_seq_map {A} (d : A) (l : list A) : forall s,
  combine (seq s (length l)) l = map (fun i => (i, nth (i - s) l d)) (seq s (length l)).
Proof.
  induction l as [|h t IH]; intros s; [reflexivity|].
  cbn [length seq combine map]. rewrite Nat.sub_diag. cbn [nth]. f_equal.
  rewrite IH. apply map_ext_in. intros i Hi. apply in_seq in Hi.
  replace (i - s)%nat with (S (i - S s)) by lia. reflexivity.
Qed.

Lemma fold_enum {S A} (d : A) (g : S -> nat * A -> S) (l : list A) st :
  fold_left g (combine (seq 0 (length l)) l) st = fold_left (fun st i => g st (i, nth i l d)) (seq 0 (length l)) st.
Proof.
  rewrite (combine_seq_map d l 0). generalize (seq 0 (length l)). intros s. revert st.
  induction s as [|i s IH]; intros st; [reflexivity|]. cbn [map fold_left]. rewrite Nat.sub_0_r. apply IH.
Qed.

(* ---------- the climb, None when the fuel runs out (the generated convention: fuel f allows f + 1 tests) ---------- *)
Fixpoint oclimb (fuel : nat) (n : nat) (main : list nat) (stop : list Z -> nat -> bool) (lab : Z) (branch : list Z) (cur : nat)
  : option (list Z * nat) :=
  let u := nth cur main n in
  if (n <=? u)%nat || stop branch u then Some (branch, u)
  else match fuel with O => None | S f => oclimb f n main stop lab (upd branch u lab) u end.

Lemma oclimb_sound n main stop lab : forall fuel branch cur r u,
  oclimb fuel n main stop lab branch cur = Some (r, u) -> climb fuel n main stop lab branch cur = r.
Proof.
  induction fuel as [|f IH]; intros branch cur r u; cbn [oclimb climb].
  - destruct ((n <=? nth cur main n)%nat || stop branch (nth cur main n)); [|discriminate].
    intros E. inversion E. reflexivity.
  - destruct ((n <=? nth cur main n)%nat || stop branch (nth cur main n)); [intros E; inversion E; reflexivity|].
    apply IH.
Qed.

Lemma climb_length n main stop lab : forall fuel branch cur, length (climb fuel n main stop lab branch cur) = length branch.
Proof.
  induction fuel as [|f IH]; intros branch cur; cbn [climb]; [reflexivity|].
  destruct ((n <=? nth cur main n)%nat || stop branch (nth cur main n)); [reflexivity|]. rewrite IH. apply upd_length.
Qed.

(* the three generated climbing loops are oclimb *)
Lemma gen_loop3_eq pits ds sq main uparea mask depth so lab : forall fuel b cur,
  gen_subbasins_pfafstetter_loop3 pits ds sq main uparea mask depth so lab fuel (b, cur)
  = oclimb fuel (length ds) main (stop_so so) lab b cur.
Proof.
  induction fuel as [|f IH]; intros b cur; cbn [gen_subbasins_pfafstetter_loop3 oclimb]; unfold stop_so;
    destruct ((length ds <=? nth cur main (length ds))%nat || (nth (nth cur main (length ds)) so 0 =? 0)); try reflexivity.
  apply IH.
Qed.

Lemma gen_loop6_eq pits ds sq main uparea mask depth so lab : forall fuel b cur,
  gen_subbasins_pfafstetter_loop6 pits ds sq main uparea mask depth so lab fuel (b, cur)
  = oclimb fuel (length ds) main (stop_so so) lab b cur.
Proof.
  induction fuel as [|f IH]; intros b cur; cbn [gen_subbasins_pfafstetter_loop6 oclimb]; unfold stop_so;
    destruct ((length ds <=? nth cur main (length ds))%nat || (nth (nth cur main (length ds)) so 0 =? 0)); try reflexivity.
  apply IH.
Qed.

Lemma gen_loop7_eq pits ds sq main uparea mask depth X lab : forall fuel b cur,
  gen_subbasins_pfafstetter_loop7 pits ds sq main uparea mask depth X lab fuel (b, cur)
  = oclimb fuel (length ds) main (fun br u => negb (nth u br 0 =? X)) lab b cur.
Proof.
  induction fuel as [|f IH]; intros b cur; cbn [gen_subbasins_pfafstetter_loop7 oclimb];
    destruct ((length ds <=? nth cur main (length ds))%nat || negb (nth (nth cur main (length ds)) b 0 =? X)); try reflexivity.
  apply IH.
Qed.

(* every climb with the model's fuel n stops by its own test *)
Definition climbs_ok (n : nat) (main : list nat) : Prop :=
  forall stop lab b cur, exists u, oclimb n n main stop lab b cur = Some (climb n n main stop lab b cur, u).

(* ---------- one tributary ---------- *)
Section Trib.
Variables (pits ds sq main : list nat) (uparea : list Z) (mask : option (list bool)) (depth : Z) (so : list Z).
Notation n := (length ds).

Lemma step5_sound pfaf0 d0 A st i st' :
  gen_subbasins_pfafstetter_loop5_step pits ds sq main uparea mask depth so pfaf0 d0 A st i = Some st' ->
  st' = pfaf_trib ds main so depth d0 pfaf0 st (i, nth i A n).
Proof.
  destruct st as [[[b ix] lb] X]. unfold gen_subbasins_pfafstetter_loop5_step, pfaf_trib, pow10. cbv zeta.
  rewrite gen_loop6_eq. change (nth (nth i A n) ds n) with (dsf ds (nth i A n)).
  destruct (oclimb _ _ _ _ _ _ _) as [[b1 u1]|] eqn:E1; [|discriminate]. apply oclimb_sound in E1. rewrite E1.
  destruct (negb (memb _ _)).
  - rewrite gen_loop7_eq.
    destruct (oclimb _ _ _ _ _ _ _) as [[b2 u2]|] eqn:E2; [|discriminate]. apply oclimb_sound in E2. rewrite E2.
    destruct (d0 <? depth); intros E; inversion E; reflexivity.
  - destruct (d0 <? depth); intros E; inversion E; reflexivity.
Qed.

Lemma step5_total pfaf0 d0 A st i : climbs_ok n main ->
  gen_subbasins_pfafstetter_loop5_step pits ds sq main uparea mask depth so pfaf0 d0 A st i
  = Some (pfaf_trib ds main so depth d0 pfaf0 st (i, nth i A n)).
Proof.
  intros HC. destruct st as [[[b ix] lb] X]. unfold gen_subbasins_pfafstetter_loop5_step, pfaf_trib, pow10. cbv zeta.
  rewrite gen_loop6_eq. change (nth (nth i A n) ds n) with (dsf ds (nth i A n)).
  match goal with |- context [oclimb n n main ?s ?l ?b0 ?c] => destruct (HC s l b0 c) as [u1 E1]; rewrite E1 end.
  destruct (negb (memb _ _)).
  - rewrite gen_loop7_eq.
    match goal with |- context [oclimb n n main ?s ?l ?b0 ?c] => destruct (HC s l b0 c) as [u2 E2]; rewrite E2 end.
    destruct (d0 <? depth); reflexivity.
  - destruct (d0 <? depth); reflexivity.
Qed.
End Trib.

(* ---------- the work-list loop ---------- *)
Section Loop.
Variables (pits ds sq main : list nat) (uparea : list Z) (mask : option (list bool)) (depth : Z) (so : list Z) (trib : list nat).
Notation n := (length ds).
Notation gloop := (gen_subbasins_pfafstetter_loop4 pits ds sq main uparea mask depth so trib).
Notation ploop := (pfaf_loop ds main uparea so trib depth).

Lemma len_pos {A} (x : A) l : (Z.of_nat (length (x :: l)) >? 0) = true.
Proof. apply Z.gtb_lt. cbn [length]. lia. Qed.
Lemma len_nz {A} (x : A) l : (Z.of_nat (length (x :: l)) =? 0) = false.
Proof. apply Z.eqb_neq. cbn [length]. lia. Qed.

Lemma loop4_sound : forall fuel b ix lb p0 b' ix' lb' p',
  gloop fuel (b, ix, lb, p0) = Some (b', ix', lb', p') -> ploop fuel b ix lb = (b', ix').
Proof.
  induction fuel as [|f IH]; intros b ix lb p0 b' ix' lb' p'; cbn [gen_subbasins_pfafstetter_loop4 pfaf_loop];
    (destruct lb as [|[pf d0] lb]; [cbn [length Z.of_nat Z.gtb Z.compare]; intros E; inversion E; reflexivity|]);
    rewrite len_pos; change (nth ?i ds n) with (dsf ds i); change (Z.to_nat 4) with 4%nat.
  - destruct (filter _ trib) as [|e0 rest]; [cbn [length Z.of_nat Z.eqb]; discriminate|]. rewrite len_nz.
    destruct (ofold _ _ _) as [[[[b1 ix1] lb1] X1]|]; discriminate.
  - destruct (filter _ trib) as [|e0 rest]; [cbn [length Z.of_nat Z.eqb]; apply IH|]. rewrite len_nz.
    destruct (ofold _ _ _) as [[[[b1 ix1] lb1] X1]|] eqn:EF; [|discriminate].
    match type of EF with ofold (gen_subbasins_pfafstetter_loop5_step _ _ _ _ _ _ _ _ _ _ ?A) _ _ = _ => set (ordered := A) in * end.
    apply (ofold_sound _ (fun st i => pfaf_trib ds main so depth d0 pf st (i, nth i ordered n))) in EF;
      [|intros st x st'; apply step5_sound].
    rewrite (fold_enum n), <- EF. apply IH.
Qed.

(* potential |labs| + 2 #unlabelled <= fuel (TermPfafLoop.v): the generated loop ends with an empty work list *)
Hypothesis HC : climbs_ok n main.
Hypothesis Htrib : forall idx, In idx trib -> (idx < n)%nat.
Hypothesis Hnd : NoDup trib.

Lemma loop4_total : forall fuel b ix lb p0, length b = n -> allpos lb -> (length lb + 2 * zc n b <= fuel)%nat ->
  exists lb' p', gloop fuel (b, ix, lb, p0) = Some (fst (ploop fuel b ix lb), snd (ploop fuel b ix lb), lb', p').
Proof.
  induction fuel as [|f IH]; intros b ix lb p0 Hlen Hpos Hm.
  - destruct lb as [|x lb]; [|cbn [length] in Hm; lia]. exists [], p0. reflexivity.
  - cbn [gen_subbasins_pfafstetter_loop4 pfaf_loop]. destruct lb as [|[pfaf0 d0] lb]; [exists [], p0; reflexivity|].
    rewrite len_pos. change (Z.to_nat 4) with 4%nat.
    assert (Hp0 : 0 < pfaf0) by (apply (Hpos pfaf0 d0); left; reflexivity).
    assert (Hpos' : allpos lb) by (intros p d H; apply (Hpos p d); right; exact H).
    cbn [length] in Hm.
    change (filter (fun idx => (nth idx b 0 =? 0) && (nth (nth idx ds n) b 0 =? pfaf0)) trib)
      with (filter (fun idx => (nth idx b 0 =? 0) && (nth (dsf ds idx) b 0 =? pfaf0)) trib).
    destruct (filter (fun idx => (nth idx b 0 =? 0) && (nth (dsf ds idx) b 0 =? pfaf0)) trib) as [|e0 rest] eqn:E0.
    + cbn [length Z.of_nat Z.eqb]. apply IH; auto. lia.
    + rewrite len_nz.
      change (sort_desc (fun j_ => nth (nth j_ ds n) uparea 0) (firstn 4 (sort_desc (fun k_ => nth k_ uparea 0) (e0 :: rest))))
        with (sort_desc (fun i => nth (dsf ds i) uparea 0) (firstn 4 (sort_desc (fun i => nth i uparea 0) (e0 :: rest)))).
      set (ordered := sort_desc (fun i => nth (dsf ds i) uparea 0) (firstn 4 (sort_desc (fun i => nth i uparea 0) (e0 :: rest)))).
      rewrite (ofold_total _ (fun st i => pfaf_trib ds main so depth d0 pfaf0 st (i, nth i ordered n)))
        by (intros a x; apply step5_total; exact HC).
      rewrite <- (fold_enum n).
      assert (Hin0 : forall x, In x ordered -> In x trib /\ nth x b 0 = 0).
      { intros x Hx. unfold ordered in Hx. apply (Permutation.Permutation_in _ (sort_desc_perm _ _)) in Hx.
        apply firstn_incl in Hx. apply (Permutation.Permutation_in _ (sort_desc_perm _ _)) in Hx. rewrite <- E0 in Hx.
        apply filter_In in Hx. destruct Hx as [Hx Hb]. apply andb_true_iff in Hb. destruct Hb as [Hb _].
        apply Z.eqb_eq in Hb. split; auto. }
      assert (Hndo : NoDup ordered).
      { unfold ordered. apply (Permutation.Permutation_NoDup (Permutation.Permutation_sym (sort_desc_perm _ _))). apply firstn_NoDup.
        apply (Permutation.Permutation_NoDup (Permutation.Permutation_sym (sort_desc_perm _ _))). rewrite <- E0. apply NoDup_filter. exact Hnd. }
      destruct (fold_left (pfaf_trib ds main so depth d0 pfaf0) (combine (seq 0 (length ordered)) ordered) (b, ix, lb, pfaf0))
        as [[[b' ix'] lb'] pint'] eqn:EF.
      destruct (pfaf_fold ds main so depth d0 pfaf0 Hp0 _ b ix lb pfaf0
                 (fun p H => Htrib _ (proj1 (Hin0 _ (combine_seq_snd ordered 0%nat p H)))) Hlen Hpos' _ _ _ _ EF) as (B1 & B2 & B3 & B4).
      assert (Hcl : length (combine (seq 0 (length ordered)) ordered) = length ordered)
        by (rewrite combine_length, seq_length; apply Nat.min_id).
      rewrite Hcl in B3.
      assert (Hz : (zc n b' + length ordered <= zc n b)%nat).
      { apply zc_drop; auto. intros j Hj. destruct (Hin0 j Hj) as [Hjt Hjb]. split; [apply Htrib; exact Hjt|]. split; [exact Hjb|].
        destruct (combine_seq_all ordered 0%nat j Hj) as [i Hi]. apply (B2 (i, j) Hi). }
      apply IH; [destruct B1 as [B1 _]; lia|exact B4|lia].
Qed.
End Loop.

(* ---------- on a loop-free network with a well-formed `main`, every climb stops by its own test (cf. TermClimb.v) ---------- *)
Section ClimbTotal.
Variable ds : list nat.
Variable sq : list nat.
Hypothesis Ht : topo ds sq.
Hypothesis Hc : complete ds sq.
Variable main : list nat.
Notation n := (length ds).
Hypothesis Hmain : forall x, (nth x main n < n)%nat -> dsf ds (nth x main n) = x /\ nth x main n <> x.
Variable stop : list Z -> nat -> bool.
Variable lab : Z.

Lemma oclimb_total_gen : forall fuel d cur branch, (cur < n)%nat ->
  (forall j, (j < d)%nat -> dsf ds (iter ds j cur) <> iter ds j cur) -> (n <= d + fuel + 1)%nat ->
  exists u, oclimb fuel n main stop lab branch cur = Some (climb fuel n main stop lab branch cur, u).
Proof.
  assert (Hup : forall d cur, (cur < n)%nat -> (forall j, (j < d)%nat -> dsf ds (iter ds j cur) <> iter ds j cur) ->
                (nth cur main n < n)%nat -> (S d < n)%nat /\
                forall j, (j < S d)%nat -> dsf ds (iter ds j (nth cur main n)) <> iter ds j (nth cur main n)).
  { intros d cur Hcur Hd Hu. destruct (Hmain cur Hu) as [H1 H2].
    assert (Hnp : forall j, (j < S d)%nat -> dsf ds (iter ds j (nth cur main n)) <> iter ds j (nth cur main n)).
    { intros [|j] Hj; cbn [iter]; [rewrite H1; auto|]. rewrite H1. apply Hd. lia. }
    split; [|exact Hnp].
    assert (Hv : valid ds (nth cur main n)) by (split; [exact Hu|rewrite H1; exact Hcur]).
    destruct (path_bound ds sq Ht _ (Hc _ Hv)) as [k [Hk [[_ Hp] _]]].
    destruct (Nat.lt_ge_cases k (S d)) as [Hlt|Hge]; [exfalso; apply (Hnp k Hlt); exact Hp|lia]. }
  induction fuel as [|f IH]; intros d cur branch Hcur Hd Hn; cbn [oclimb climb];
    (destruct (Nat.leb_spec n (nth cur main n)) as [Hu|Hu]; [eexists; reflexivity|]); cbn [orb];
    (destruct (stop branch (nth cur main n)); [eexists; reflexivity|]).
  - destruct (Hup d cur Hcur Hd Hu) as [Hlt _]. lia.
  - destruct (Hup d cur Hcur Hd Hu) as [_ Hnp]. apply (IH (S d)); [exact Hu|exact Hnp|lia].
Qed.

Lemma oclimb_dead : forall fuel u branch, (u < n)%nat -> (n <= dsf ds u)%nat ->
  exists u', oclimb fuel n main stop lab branch u = Some (branch, u').
Proof.
  intros fuel u branch Hu Hd. destruct fuel as [|f]; cbn [oclimb];
    (destruct (Nat.leb_spec n (nth u main n)) as [Hu'|Hu']; [eexists; reflexivity|]); exfalso;
    destruct (Hmain u Hu') as [H1 _];
    assert (Hv : valid ds (nth u main n)) by (split; [exact Hu'|rewrite H1; exact Hu]);
    pose proof (topo_closed ds sq _ Ht (Hc _ Hv)) as Hin; rewrite H1 in Hin;
    destruct (topo_valid ds sq u Ht Hin) as [_ Hlt]; unfold size in Hlt; lia.
Qed.

Theorem oclimb_total branch cur :
  exists u, oclimb n n main stop lab branch cur = Some (climb n n main stop lab branch cur, u).
Proof.
  destruct (Nat.lt_ge_cases cur n) as [Hcur|Hcur].
  - apply (oclimb_total_gen n 0 cur branch Hcur); [intros j Hj; lia|lia].
  - destruct n as [|m] eqn:En; [cbn [oclimb climb Nat.leb orb]; eexists; reflexivity|].
    cbn [oclimb climb]. rewrite <- En in *.
    destruct (Nat.leb_spec n (nth cur main n)) as [Hu|Hu]; [eexists; reflexivity|]. cbn [orb].
    destruct (stop branch (nth cur main n)); [eexists; reflexivity|].
    destruct (Hmain cur Hu) as [H1 _].
    assert (Hd : (n <= dsf ds (nth cur main n))%nat) by (rewrite H1; exact Hcur).
    destruct (oclimb_dead m (nth cur main n) (upd branch (nth cur main n) lab) Hu Hd) as [u' E]. rewrite E.
    rewrite (TermClimb.climb_dead ds sq Ht Hc main Hmain); [eexists; reflexivity|exact Hu|exact Hd].
Qed.
End ClimbTotal.

Lemma climbs_ok_topo ds sq main : topo ds sq -> complete ds sq ->
  (forall x, (nth x main (length ds) < length ds)%nat -> dsf ds (nth x main (length ds)) = x /\ nth x main (length ds) <> x) ->
  climbs_ok (length ds) main.
Proof. intros Ht Hc Hm stop lab b cur. apply (oclimb_total ds sq Ht Hc main Hm). Qed.

(* ---------- lengths (for fillnodata_upstream) ---------- *)
Lemma fold_len {S B} (len : S -> nat) (g : S -> B -> S) : (forall st x, len (g st x) = len st) ->
  forall l st, len (fold_left g l st) = len st.
Proof. intros H. induction l as [|x l IH]; intros st; cbn [fold_left]; [reflexivity|]. rewrite IH. apply H. Qed.

Lemma pfaf_trib_length ds main so depth d0 p st ix :
  length (fst (fst (fst (pfaf_trib ds main so depth d0 p st ix)))) = length (fst (fst (fst st))).
Proof.
  destruct st as [[[b i] l] X], ix as [i0 idx]. unfold pfaf_trib. cbv zeta.
  destruct (negb _); cbn [fst]; repeat (rewrite climb_length || rewrite upd_length); reflexivity.
Qed.

Lemma pfaf_loop_length ds main uparea so trib depth : forall fuel b ix lb,
  length (fst (pfaf_loop ds main uparea so trib depth fuel b ix lb)) = length b.
Proof.
  induction fuel as [|f IH]; intros b ix lb; cbn [pfaf_loop]; [reflexivity|].
  destruct lb as [|[p d] lb]; [reflexivity|].
  destruct (filter _ trib) as [|e0 rest]; [apply IH|].
  match goal with |- context [fold_left ?g ?l ?s] =>
    pose proof (fold_len (fun st : list Z * list nat * list (Z * Z) * Z => length (fst (fst (fst st)))) g
                  (fun st x => pfaf_trib_length ds main so depth d p st x) l s) as HL;
    destruct (fold_left g l s) as [[[b' ix'] lb'] X'] end.
  cbn [fst] in HL. rewrite IH. exact HL.
Qed.

(* ---------- the loop over the outlets ---------- *)
Definition pit_stepM (n : nat) (main : list nat) (so : list Z) (depth base : Z)
  (st : list Z * list nat * list (Z * Z)) (ip : nat * nat) : list Z * list nat * list (Z * Z) :=
  let '(branch, idxs, labs) := st in
  let '(i, idx) := ip in
  let pfaf1 := base + (Z.of_nat i + 1) * pow10 depth in
  (climb n n main (stop_so so) pfaf1 (upd branch idx pfaf1) idx, idxs ++ [idx], labs ++ [(pfaf1, 1)]).

Lemma pit_stepM_length n main so depth base st ip : length (fst (fst (pit_stepM n main so depth base st ip))) = length (fst (fst st)).
Proof. destruct st as [[b i] l], ip as [i0 idx]. cbn [pit_stepM fst]. rewrite climb_length. apply upd_length. Qed.

Lemma step2_sound pits ds sq main uparea mask depth so base st i st' :
  gen_subbasins_pfafstetter_loop2_step pits ds sq main uparea mask depth so base st i = Some st' ->
  st' = pit_stepM (length ds) main so depth base st (i, nth i pits (length ds)).
Proof.
  destruct st as [[b ix] lb]. unfold gen_subbasins_pfafstetter_loop2_step, pit_stepM, pow10. cbv zeta.
  rewrite gen_loop3_eq. destruct (oclimb _ _ _ _ _ _ _) as [[b1 u1]|] eqn:E1; [|discriminate].
  apply oclimb_sound in E1. rewrite E1. intros E; inversion E; reflexivity.
Qed.

Lemma step2_total pits ds sq main uparea mask depth so base st i : climbs_ok (length ds) main ->
  gen_subbasins_pfafstetter_loop2_step pits ds sq main uparea mask depth so base st i
  = Some (pit_stepM (length ds) main so depth base st (i, nth i pits (length ds))).
Proof.
  intros HC. destruct st as [[b ix] lb]. unfold gen_subbasins_pfafstetter_loop2_step, pit_stepM, pow10. cbv zeta.
  rewrite gen_loop3_eq.
  match goal with |- context [oclimb _ _ main ?s ?l ?b0 ?c] => destruct (HC s l b0 c) as [u1 E1]; rewrite E1 end.
  reflexivity.
Qed.

(* ---------- partial correctness: a value returned by the generated function is the model's value ---------- *)
Theorem gen_subbasins_pfafstetter_sound ds pits sq main uparea mask depth r :
  wf ds -> (forall i, In i sq -> valid ds i) ->
  gen_subbasins_pfafstetter pits ds sq main uparea mask depth = Some r ->
  r = subbasins_pfafstetter ds pits sq main uparea mask depth.
Proof.
  intros Hwf Hv. unfold gen_subbasins_pfafstetter, subbasins_pfafstetter. cbv zeta.
  rewrite (gen_stream_order_eq ds sq main mask Hwf), gen__tributaries_eq.
  set (so := map (fun v => if v <=? depth + 1 then v else 0) (stream_order ds sq main mask)).
  set (trib := filter (fun i => (nth i so 0 >? 0) && (nth i so 0 >? nth (dsf ds i) so 0)) sq).
  change (Z.to_nat 1) with 1%nat.
  set (base := fold_left (gen_subbasins_pfafstetter_loop1_step pits ds sq main uparea mask depth) (seq 1 (Z.to_nat depth - 1)) 1).
  change (fold_left (fun acc d0 => acc + pow10 (Z.of_nat d0)) (seq 1 (Z.to_nat depth - 1)) 1) with base.
  set (init := fold_left _ (combine (seq 0 (length pits)) pits) (repeat 0 (length ds), [], [])).
  assert (Einit : init = fold_left (pit_stepM (length ds) main so depth base)
                           (combine (seq 0 (length pits)) pits) (repeat 0 (length ds), [], [])) by reflexivity.
  destruct (ofold _ (seq 0 (length pits)) _) as [[[b0 ix0] lb0]|] eqn:E2; [|discriminate].
  apply (ofold_sound _ (fun st i => pit_stepM (length ds) main so depth base st (i, nth i pits (length ds)))) in E2;
    [|intros st x st'; apply step2_sound].
  rewrite <- (fold_enum (length ds)), <- Einit in E2.
  assert (Hl0 : length b0 = length ds).
  { pose proof (fold_len (fun st : list Z * list nat * list (Z * Z) => length (fst (fst st))) _
                  (pit_stepM_length (length ds) main so depth base) (combine (seq 0 (length pits)) pits)
                  (repeat 0 (length ds), [], [])) as HL.
    rewrite <- Einit, <- E2 in HL. cbn [fst] in HL. rewrite HL. apply repeat_length. }
  rewrite <- E2.
  destruct (gen_subbasins_pfafstetter_loop4 _ _ _ _ _ _ _ _ _ _ _) as [[[[b1 ix1] lb1] p1]|] eqn:E4; [|discriminate].
  apply loop4_sound in E4.
  pose proof (pfaf_loop_length ds main uparea so trib depth (4 * length ds + 8) b0 ix0 lb0) as Hl1.
  rewrite E4 in *. cbn [fst] in Hl1.
  intros E. inversion E. rewrite gen_fillnodata_upstream_eq; [reflexivity|congruence|exact Hv].
Qed.

(* ---------- total form: on a loop-free network with a well-formed `main` no fuel is exhausted ---------- *)
Theorem gen_subbasins_pfafstetter_eq ds pits sq main uparea mask depth :
  topo ds sq -> complete ds sq ->
  (forall x, (nth x main (length ds) < length ds)%nat -> dsf ds (nth x main (length ds)) = x /\ nth x main (length ds) <> x) ->
  (length pits <= 2 * length ds + 8)%nat ->
  gen_subbasins_pfafstetter pits ds sq main uparea mask depth
  = Some (subbasins_pfafstetter ds pits sq main uparea mask depth).
Proof.
  intros Ht Hc Hm Hpits.
  assert (Hwf : wf ds).
  { intros i Hi. apply (topo_valid ds sq _ Ht). apply (topo_closed ds sq _ Ht). apply Hc. exact Hi. }
  assert (Hv : forall i, In i sq -> valid ds i) by (intros i Hi; apply (topo_valid ds sq i Ht Hi)).
  pose proof (climbs_ok_topo ds sq main Ht Hc Hm) as HC.
  unfold gen_subbasins_pfafstetter, subbasins_pfafstetter. cbv zeta.
  rewrite (gen_stream_order_eq ds sq main mask Hwf), gen__tributaries_eq.
  set (so := map (fun v => if v <=? depth + 1 then v else 0) (stream_order ds sq main mask)).
  set (trib := filter (fun i => (nth i so 0 >? 0) && (nth i so 0 >? nth (dsf ds i) so 0)) sq).
  change (Z.to_nat 1) with 1%nat.
  set (base := fold_left (gen_subbasins_pfafstetter_loop1_step pits ds sq main uparea mask depth) (seq 1 (Z.to_nat depth - 1)) 1).
  change (fold_left (fun acc d0 => acc + pow10 (Z.of_nat d0)) (seq 1 (Z.to_nat depth - 1)) 1) with base.
  set (init := fold_left _ (combine (seq 0 (length pits)) pits) (repeat 0 (length ds), [], [])).
  assert (Einit : init = fold_left (pit_stepM (length ds) main so depth base)
                           (combine (seq 0 (length pits)) pits) (repeat 0 (length ds), [], [])) by reflexivity.
  rewrite (ofold_total _ (fun st i => pit_stepM (length ds) main so depth base st (i, nth i pits (length ds))))
    by (intros a x; apply step2_total; exact HC).
  rewrite <- (fold_enum (length ds)), <- Einit.
  assert (Hg : forall b ix lb i idx, exists p, 0 < p /\ pit_stepM (length ds) main so depth base (b, ix, lb) (i, idx) =
            (climb (length ds) (length ds) main (stop_so so) p (upd b idx p) idx, ix ++ [idx], lb ++ [(p, 1)])).
  { intros b ix lb i idx. eexists. split; [|reflexivity].
    assert (0 < base) by (apply (base_pos (seq 1 (Z.to_nat depth - 1)) 1); lia).
    pose proof (pow10_nonneg depth). nia. }
  destruct init as [[b0 ix0] lb0].
  destruct (init_fold (length ds) main (stop_so so) _ Hg _ _ _ _ (repeat_length 0 (length ds))
              (fun p d (H : In (p, d) []) => match H with end) _ _ _ (eq_sym Einit)) as (A & B & C).
  assert (Htrib : forall idx, In idx trib -> (idx < length ds)%nat).
  { intros idx Hin. apply filter_In in Hin. destruct Hin as [Hin _]. destruct (Hv idx Hin) as [H _]. exact H. }
  assert (Hnd : NoDup trib) by (apply NoDup_filter; apply (topo_NoDup ds sq Ht)).
  assert (Hpot : (length lb0 + 2 * zc (length ds) b0 <= 4 * length ds + 8)%nat).
  { rewrite C, combine_length, seq_length, Nat.min_id. pose proof (zc_le (length ds) b0). cbn [length]. lia. }
  destruct (loop4_total pits ds sq main uparea mask depth so trib HC Htrib Hnd (4 * length ds + 8) b0 ix0 lb0 base A B Hpot)
    as [lb' [p' E4]].
  rewrite E4.
  pose proof (pfaf_loop_length ds main uparea so trib depth (4 * length ds + 8) b0 ix0 lb0) as Hl1.
  destruct (pfaf_loop ds main uparea so trib depth (4 * length ds + 8) b0 ix0 lb0) as [b1 ix1]. cbn [fst snd] in *.
  rewrite gen_fillnodata_upstream_eq; [reflexivity|congruence|exact Hv].
Qed.

(* satisfiable: 0 pit; 1 -> 0; 2 -> 1; 3 -> 1; 4 -> 3; main upstream 0 <- 1 <- 3 <- 4 (5 = missing); depth 2 *)
Example gen_subbasins_pfafstetter_example :
  topo [0;0;1;1;3]%nat [0;1;2;3;4]%nat /\ complete [0;0;1;1;3]%nat [0;1;2;3;4]%nat /\
  (forall x, (nth x [1;3;5;4;5]%nat 5%nat < 5)%nat ->
     dsf [0;0;1;1;3]%nat (nth x [1;3;5;4;5]%nat 5%nat) = x /\ nth x [1;3;5;4;5]%nat 5%nat <> x) /\
  (length [0%nat] <= 2 * 5 + 8)%nat /\
  gen_subbasins_pfafstetter [0]%nat [0;0;1;1;3]%nat [0;1;2;3;4]%nat [1;3;5;4;5]%nat [5;4;1;2;1] None 2
    = Some ([11; 11; 21; 31; 31], [0; 2; 3]%nat) /\
  subbasins_pfafstetter [0;0;1;1;3]%nat [0]%nat [0;1;2;3;4]%nat [1;3;5;4;5]%nat [5;4;1;2;1] None 2
    = ([11; 11; 21; 31; 31], [0; 2; 3]%nat).
Proof.
  split; [apply check_topo_sound; vm_compute; reflexivity|].
  split; [apply check_complete_sound; vm_compute; reflexivity|].
  split; [|split; [cbn; lia|split; vm_compute; reflexivity]].
  intros x. do 5 (destruct x as [|x]; [cbn [nth]; intros H; first [lia | split; [vm_compute; reflexivity|discriminate]]|]).
  cbn [nth]. destruct x; lia.
Qed.

Print Assumptions gen_subbasins_pfafstetter_sound.
Print Assumptions gen_subbasins_pfafstetter_eq.
