(* Pfafstetter refinement, part D (phase 2): once the shallower run has finished, the deeper run only pops entries of
   the deepest level; every label p + k (1 <= k <= 8) it writes lands on cells whose filled label of the shallower
   run is p / 10. *)
From Coq Require Import List Arith ZArith Bool Lia.
Import ListNotations.
From PF Require Import Arr Net SweepDown Fill FillSpec Rank Stream Subbas PfafDigits.
From PF Require Import PfafClosureA PfafClosureB PfafClosureC PfafClosureD PfafClosureE PfafClosureF.
From PF Require Import PfafRefineA PfafRefineB PfafRefineC.
Local Open Scope Z_scope.

Lemma div10_same p k : p mod 10 = 1 -> 0 <= k <= 8 -> (p + k) / 10 = p / 10.
Proof.
  intros Hm Hk. pose proof (Z.div_mod p 10 ltac:(lia)) as H. rewrite Hm in H.
  rewrite H at 1. replace (10 * (p / 10) + 1 + k) with ((1 + k) + (p / 10) * 10) by ring.
  rewrite Z.div_add by lia. rewrite (Z.div_small (1 + k)) by lia. lia.
Qed.

Section Phase2.
Variable ds : list nat.
Variable main : list nat.
Variable strord : list Z.
Let n := length ds.
Variable rk : nat -> nat.
Notation mn x := (nth x main n).
Notation dsf := (dsf ds).
Hypothesis Hrk : forall c, (c < n)%nat -> (dsf c < n)%nat -> dsf c <> c -> (rk (dsf c) < rk c)%nat.
Hypothesis Hrkn : forall c, (c < n)%nat -> (dsf c < n)%nat -> (rk c < n)%nat.
Hypothesis HM : forall x, (mn x < n)%nat -> dsf (mn x) = x /\ mn x <> x.
Variable uparea : list Z.
Notation ua c := (nth c uparea 0).
Hypothesis Hua : forall c, (c < n)%nat -> (dsf c < n)%nat -> dsf c <> c -> ua c < ua (dsf c).
Variable trib : list nat.
Hypothesis HT : forall t, In t trib ->
  (t < n)%nat /\ (dsf t < n)%nat /\ dsf t <> t /\ mn (dsf t) <> t /\ (mn (dsf t) < n)%nat.
Hypothesis HTnd : NoDup trib.
Variable depth : Z.
Hypothesis Hdepth : 1 <= depth.

(* the finished shallower run *)
Variables (sq : list nat) (B1 : list Z).
Hypothesis Ht : topo ds sq.
Hypothesis Hcomp : forall c, (c < n)%nat -> (dsf c < n)%nat -> In c sq.
Hypothesis HlenB1 : length B1 = length ds.
Let F1 := fillnodata_upstream ds sq B1 0.

Definition REF (b : list Z) : Prop :=
  (forall c, lab b c <> 0 -> lab b c / 10 = lab F1 c) /\ (forall c, lab B1 c <> 0 -> lab b c <> 0).

Lemma F1_step c : (c < n)%nat -> (dsf c < n)%nat -> dsf c <> c -> lab B1 c = 0 -> lab F1 c = lab F1 (dsf c).
Proof.
  intros H1 H2 H3 H4. unfold F1. apply (fill_unlabelled_step ds sq B1 Ht HlenB1 c); [apply Hcomp; assumption|exact H4|exact H3].
Qed.

Lemma REF_step b0 idxs0 pfaf0 : INV ds main b0 idxs0 -> 0 < pfaf0 -> pfaf0 mod 10 = 1 -> REF b0 ->
  Estep ds main strord uparea trib depth REF b0 idxs0 pfaf0 depth.
Proof.
  intros HI0 Hp0 Hm HR0. unfold Estep. intros t0 rest b idxs X i HS Hi. cbv zeta.
  rewrite Z.sub_diag. replace (pow10 0) with 1 by reflexivity.
  set (psub := pfaf0 + (Z.of_nat i * 2 + 1) * 1). set (pint := pfaf0 + (Z.of_nat i + 1) * 2 * 1).
  intros HX Hf1 Hf2 [HRi HRii].
  set (v := pfaf0 / 10).
  assert (Hdk : forall k, 0 <= k <= 8 -> (pfaf0 + k) / 10 = v) by (intros k Hk; apply div10_same; assumption).
  assert (Hps : psub / 10 = v) by (unfold psub; rewrite <- (Hdk (Z.of_nat i * 2 + 1)) by lia; f_equal; ring).
  assert (Hpi : pint / 10 = v) by (unfold pint; rewrite <- (Hdk ((Z.of_nat i + 1) * 2)) by lia; f_equal; ring).
  assert (HXv : X / 10 = v) by (rewrite <- (Hdk (X - pfaf0)) by lia; f_equal; ring).
  pose proof (trib_core_detail ds main strord rk Hrk Hrkn HM uparea trib HT b0 idxs0 pfaf0 HI0 ltac:(lia)
                psub pint t0 rest b idxs X HS ltac:(unfold psub; lia) ltac:(unfold pint; lia)
                ltac:(unfold pint; lia) ltac:(unfold psub, pint; lia) Hf1 Hf2) as D.
  cbv zeta in D. fold n in D.
  destruct D as (HI1 & V1 & (T1 & T2 & T3 & T5 & Hd1 & Hne1 & Hl0 & Hw0 & Hlw) & D2).
  pose proof (s_inv _ _ _ _ _ _ _ _ _ _ _ HS) as HI.
  unfold trib_core. fold n.
  set (w0 := dsf t0) in *.
  set (c1 := mn w0) in *.
  set (b1 := climb n n main (stop_so strord) psub (upd b t0 psub) t0) in *.
  set (idxs1 := idxs ++ [t0]) in *.
  assert (HF1w : lab F1 w0 = v).
  { destruct HR0 as [H0i _]. rewrite <- (H0i w0) by (rewrite Hw0; lia). rewrite Hw0. reflexivity. }
  assert (HB1z : forall c, lab b c = 0 -> lab B1 c = 0).
  { intros c Hz. destruct (Z.eq_dec (lab B1 c) 0) as [Y|N]; [exact Y|]. exfalso. apply (HRii c N). exact Hz. }
  assert (Hlen1 : length b1 = n) by (apply (inv_len _ _ _ _ HI1)).
  (* after the sub-basin climb *)
  assert (HA : forall (r : nat) c, (rk c < r)%nat -> lab b c = 0 -> lab b1 c = psub -> lab F1 c = v).
  { induction r as [|r IH]; intros c Hr Hz Hc; [lia|].
    assert (Hcn : (c < n)%nat) by (rewrite <- Hlen1; apply lab_lt; rewrite Hc; unfold psub; lia).
    destruct (Nat.eq_dec c t0) as [->|Hct].
    - rewrite (F1_step t0 T1 T2 T3 (HB1z t0 Hz)). exact HF1w.
    - assert (Hn1 : ~ In c idxs1).
      { unfold idxs1. intros Hin. apply in_app_or in Hin. destruct Hin as [Hin|[Hin|[]]]; [|congruence].
        destruct (inv2 _ _ _ _ HI c Hin) as (_ & A & _). contradiction. }
      destruct (inv1 _ _ _ _ HI1 c Hcn ltac:(rewrite Hc; unfold psub; lia) Hn1) as (A1 & A2 & A3).
      rewrite Hc in A3.
      assert (Hdn : (dsf c < n)%nat) by (rewrite <- Hlen1; apply lab_lt; rewrite A3; unfold psub; lia).
      assert (Hdz : lab b (dsf c) = 0).
      { destruct (V1 (dsf c)) as [Ev|[Ev _]]; [|exact Ev]. exfalso. apply (Hf1 (dsf c)). rewrite <- Ev. exact A3. }
      pose proof (Hrk c Hcn Hdn A2) as Hlt.
      rewrite (F1_step c Hcn Hdn A2 (HB1z c Hz)). apply IH; [lia|exact Hdz|exact A3]. }
  assert (HR1 : REF b1).
  { split.
    - intros c Hc. destruct (V1 c) as [Ev|[Ez Ev]].
      + rewrite Ev. apply HRi. rewrite <- Ev. exact Hc.
      + rewrite Ev, Hps. symmetry. apply (HA (S (rk c)) c); [lia|exact Ez|exact Ev].
    - intros c Hc. destruct (V1 c) as [Ev|[Ez Ev]]; [rewrite Ev; apply HRii; exact Hc|].
      rewrite Ev. unfold psub. lia. }
  destruct (negb (memb c1 idxs1)) eqn:Em; cbn [fst]; [|exact HR1].
  apply negb_true_iff in Em. apply memb_false in Em.
  destruct (D2 Em) as (HI2 & V2 & Vc1 & AN).
  destruct HR1 as [HR1i HR1ii].
  assert (Hxnz : X <> 0) by lia.
  split.
  - intros c Hc. destruct (V2 c) as [Ev|[Ew Ev]].
    + rewrite Ev. apply HR1i. rewrite <- Ev. exact Hc.
    + rewrite Ev, Hpi.
      assert (Hcase : lab b1 c = X \/ (c = c1 /\ lab b1 c1 = 0)).
      { destruct Ew as [Ew|Ew]; [left; exact Ew|]. subst c.
        destruct (Z.eq_dec (lab b1 c1) 0) as [Y|N]; [right; split; [reflexivity|exact Y]|left; apply AN; exact N]. }
      destruct Hcase as [Ex|[-> Ez]].
      * rewrite <- HXv, <- Ex. apply HR1i. rewrite Ex. exact Hxnz.
      * assert (Hz1 : lab B1 c1 = 0).
        { destruct (Z.eq_dec (lab B1 c1) 0) as [Y|N]; [exact Y|]. exfalso. apply (HR1ii c1 N). exact Ez. }
        rewrite (F1_step c1 T5 ltac:(rewrite Hd1; exact T2) ltac:(rewrite Hd1; congruence) Hz1). rewrite Hd1. symmetry. exact HF1w.
  - intros c Hc. destruct (V2 c) as [Ev|[_ Ev]]; rewrite Ev; [apply HR1ii; exact Hc|unfold pint; lia].
Qed.

Lemma phase2 fuel : forall b idxs labs, LINV ds main depth b idxs labs -> allok depth b -> labsok depth labs ->
  (forall e, In e labs -> snd e = depth) -> REF b ->
  REF (fst (pfaf_loop ds main uparea strord trib depth fuel b idxs labs)).
Proof.
  induction fuel as [|f IH]; intros b idxs labs HL Hb Hl Hlev HR; [exact HR|].
  destruct labs as [|[pfaf0 d0] labs']; [exact HR|].
  rewrite pfaf_loop_S.
  assert (Ed : d0 = depth) by (apply (Hlev (pfaf0, d0)); left; reflexivity). subst d0.
  destruct HL as (HI & Hok & Hdj).
  destruct (Hok (pfaf0, depth) (or_introl eq_refl)) as (E1 & E2 & E3). cbn [fst snd] in E1, E2, E3.
  destruct (Hl pfaf0 depth (or_introl eq_refl)) as [_ [_ Hu]].
  assert (Hm : pfaf0 mod 10 = 1).
  { specialize (Hu 0 ltac:(lia)). unfold digit in Hu. rewrite Z.pow_0_r, Z.div_1_r in Hu. exact Hu. }
  pose proof (pop_linvE ds main strord rk Hrk Hrkn HM uparea Hua trib HT HTnd depth REF b idxs pfaf0 depth labs'
                (conj HI (conj Hok Hdj)) HR (REF_step b idxs pfaf0 HI E1 Hm HR)) as [R1 R2].
  pose proof (pop_ok ds main uparea strord trib depth b idxs pfaf0 depth labs' Hb Hl) as [R3 R4].
  destruct (pop_labs ds main uparea strord trib depth b idxs pfaf0 depth labs') as (ch & R5 & _ & R6).
  cbv zeta in R1, R2, R3, R4, R5.
  destruct (pfaf_pop ds main uparea strord trib depth b idxs pfaf0 depth labs') as [[b' ix] lb]. cbn [fst snd] in *.
  apply IH; [exact R1|exact R3|exact R4| |exact R2].
  rewrite R5, (R6 ltac:(lia)), app_nil_r. intros e He. apply Hlev. right. exact He.
Qed.

(* the start of phase 2, and the state when both runs run out of fuel together *)
Lemma REF_map : REF (map fz B1).
Proof.
  split.
  - intros c Hc. rewrite nth_map_fz in Hc |- *. assert (Hnz : lab B1 c <> 0) by (intros E; apply Hc; rewrite E; reflexivity).
    unfold F1. rewrite (fill_labelled ds sq B1 Ht HlenB1 c Hnz). rewrite fz_pos by exact Hnz.
    replace (10 * lab B1 c + 1) with (1 + lab B1 c * 10) by ring. rewrite Z.div_add by lia. reflexivity.
  - intros c Hc. rewrite nth_map_fz. intros E. apply (proj1 (fz_nz _)) in E. contradiction.
Qed.

(* the conclusion for the filled maps *)
Lemma REF_fill b : length b = length ds -> REF b ->
  forall i, In i sq -> nth i (fillnodata_upstream ds sq b 0) 0 / 10 = nth i F1 0.
Proof.
  intros Hlen [HRi HRii] i Hi.
  destruct (fill_up_spec ds 0 b sq Hlen Ht) as (_ & H2 & _).
  destruct (H2 i Hi) as (k & Hk1 & Hk2). clear H2.
  assert (Hwalk : forall k i, In i sq ->
            (forall m, (m < k)%nat -> lab b (iter ds m i) = 0 /\ dsf (iter ds m i) <> iter ds m i) ->
            lab F1 i = lab F1 (iter ds k i)).
  { intros k0. induction k0 as [|k0 IH]; intros i0 Hi0 Hm; [reflexivity|].
    destruct (Hm 0%nat ltac:(lia)) as [Z0 N0]. cbn [iter] in Z0, N0.
    destruct (topo_valid ds sq i0 Ht Hi0) as [V1 V2]. unfold size in V1, V2. fold n in V1, V2.
    assert (Hz : lab B1 i0 = 0).
    { destruct (Z.eq_dec (lab B1 i0) 0) as [Y|N]; [exact Y|]. exfalso. apply (HRii i0 N). exact Z0. }
    rewrite (F1_step i0 V1 V2 N0 Hz). cbn [iter]. apply IH; [apply (topo_closed ds sq); assumption|].
    intros m Hlt. apply (Hm (S m)). lia. }
  rewrite (Hwalk k i Hi Hk1).
  destruct Hk2 as [[Hnz Ev]|(Hz & Hp & Ev)].
  - rewrite Ev. apply HRi. exact Hnz.
  - rewrite Ev.
    assert (Hc : In (iter ds k i) sq) by (apply topo_closed_iter; assumption).
    assert (Hz1 : lab B1 (iter ds k i) = 0).
    { destruct (Z.eq_dec (lab B1 (iter ds k i)) 0) as [Y|N]; [exact Y|]. exfalso. apply (HRii _ N). exact Hz. }
    unfold F1. rewrite (fill_unlabelled_pit ds sq B1 Ht HlenB1 _ Hc Hz1 Hp). reflexivity.
Qed.

End Phase2.
