(* Model: core._trace / path / snap.  nxt = idxs_ds (downstream) or idxs_us_main (upstream);
   lengths are integers (the harness scales half-integers by 2). *)
From Coq Require Import List Arith ZArith Bool.
Import ListNotations.
From PF Require Import Arr Net.
Local Open Scope Z_scope.

Section Trace.
Variable nxt : list nat.
Let n := length nxt.
Variable mask : option (list bool).
Variable maxlen : option Z.
Variable len : nat -> nat -> Z.

Definition masked (i : nat) : bool := match mask with None => false | Some m => nth i m false end.
Definition nx (i : nat) : nat := nth i nxt n.
Definition at_end (i : nat) : bool := (nx i =? i)%nat || (n <=? nx i)%nat.       (* pit / no next cell *)
Definition too_far (dist : Z) (i : nat) : bool :=
  match maxlen with None => false | Some M => dist + len i (nx i) >? M end.
Definition stops (dist : Z) (i : nat) : bool := masked i || at_end i || too_far dist i.

(* None = out of fuel (excluded by trace_total) *)
Fixpoint trace (fuel : nat) (cur : nat) (dist : Z) : option (list nat * Z) :=
  if stops dist cur then Some ([cur], dist)
  else match fuel with
       | O => None
       | S f => match trace f (nx cur) (dist + len cur (nx cur)) with
                | Some (p, D) => Some (cur :: p, D)
                | None => None
                end
       end.
End Trace.
