(* basins._tributaries, REGENERATED from the Python source (generated/GenSeg.v), is the filter that the hand model
   Subbas.subbasins_pfafstetter uses for its `trib` list: the cells of positive (cut) stream order whose order exceeds
   that of their downstream cell, in the order of `sq`. *)
From Coq Require Import List Arith ZArith Bool Lia.
Import ListNotations.
From PF Require Import Arr Net.
From PFG Require Import GenSeg.
Local Open Scope Z_scope.

(* a loop that appends the elements passing a test is a filter *)
Lemma fold_append_filter {A} (p : A -> bool) l : forall acc,
  fold_left (fun acc x => if p x then acc ++ [x] else acc) l acc = acc ++ filter p l.
Proof.
  induction l as [|x l IH]; intros acc; cbn [fold_left filter]; [rewrite app_nil_r; reflexivity|].
  rewrite IH. destruct (p x); [rewrite <- app_assoc; reflexivity|reflexivity].
Qed.

Theorem gen__tributaries_eq ds sq so :
  gen__tributaries ds sq so = filter (fun i => (nth i so 0 >? 0) && (nth i so 0 >? nth (dsf ds i) so 0)) sq.
Proof.
  unfold gen__tributaries. cbv zeta.
  rewrite <- (app_nil_l (filter _ sq)). rewrite <- fold_append_filter. reflexivity.
Qed.

(* 0 pit; 1 -> 0; 2 -> 1; 3 -> 1; 4 -> 3 with classic orders 1 1 2 1 2: cells 2 and 4 are the tributaries *)
Example gen__tributaries_example :
  gen__tributaries [0;0;1;1;3]%nat [0;1;2;3;4]%nat [1;1;2;1;2] = [2;4]%nat /\
  filter (fun i => (nth i [1;1;2;1;2] 0 >? 0) && (nth i [1;1;2;1;2] 0 >? nth (dsf [0;0;1;1;3]%nat i) [1;1;2;1;2] 0)) [0;1;2;3;4]%nat = [2;4]%nat.
Proof. split; vm_compute; reflexivity. Qed.

Print Assumptions gen__tributaries_eq.
