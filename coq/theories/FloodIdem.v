(* C06: filling an already filled surface changes no elevation (all three outlet modes). *)
From Coq Require Import List Arith ZArith Lia Bool.
Import ListNotations.
From PF Require Import Arr Codec Flood FloodSpec FloodTree FloodOpt.
From PFG Require Import GenTables.
Local Open Scope Z_scope.

(* ---------- the lowest queue entry keeps its index when other keys only grow ---------- *)
Lemma key_lt_lex za ia zb ib : key_lt (za, 1, ia) (zb, 1, ib) = (za <? zb) || ((za =? zb) && (ia <? ib)%nat).
Proof. unfold key_lt. rewrite Z.ltb_irrefl, Z.eqb_refl. reflexivity. Qed.

Lemma extract_min_some q : q <> [] -> exists m r, extract_min q = Some (m, r).
Proof. destruct q as [|x t]; [congruence|]. intros _. cbn [extract_min].
  destruct (extract_min t) as [[m r]|]; [destruct (key_lt x m)|]; eauto. Qed.

Lemma extract_min_index (kx ky : nat -> Z) E s r : (forall i, In i E -> kx i <= ky i) ->
  extract_min (map (fun i => (kx i, 1, i)) E) = Some ((kx s, 1, s), r) -> ky s = kx s ->
  exists r', extract_min (map (fun i => (ky i, 1, i)) E) = Some ((ky s, 1, s), r').
Proof.
  intros Hle Hex Hs.
  destruct (extract_min_spec _ _ _ Hex) as [Hperm Hmin].
  assert (HsE : In s E).
  { assert (Hin : In (kx s, 1, s) (map (fun i => (kx i, 1, i)) E)) by (apply Hperm; left; reflexivity).
    apply in_map_iff in Hin. destruct Hin as [i [Heq Hi]]. inversion Heq; subst. exact Hi. }
  destruct (extract_min_some (map (fun i => (ky i, 1, i)) E)) as [m' [r' Hex']]; [destruct E; [destruct HsE|discriminate]|].
  destruct (extract_min_spec _ _ _ Hex') as [Hperm' Hmin'].
  assert (Hm' : In m' (map (fun i => (ky i, 1, i)) E)) by (apply Hperm'; left; reflexivity).
  apply in_map_iff in Hm'. destruct Hm' as [t [<- Ht]].
  destruct (Nat.eq_dec t s) as [->|Hne]; [exists r'; exact Hex'|]. exfalso.
  (* t is not below s for the old keys, s is not below t for the new ones *)
  assert (H1 : key_lt (kx t, 1, t) (kx s, 1, s) = false).
  { apply Hmin. assert (Hin : In (kx t, 1, t) (map (fun i => (kx i, 1, i)) E)) by (apply in_map_iff; exists t; auto).
    apply Hperm in Hin. destruct Hin as [Heq|Hin]; [inversion Heq; congruence|exact Hin]. }
  assert (H2 : key_lt (ky s, 1, s) (ky t, 1, t) = false).
  { apply Hmin'. assert (Hin : In (ky s, 1, s) (map (fun i => (ky i, 1, i)) E)) by (apply in_map_iff; exists s; auto).
    apply Hperm' in Hin. destruct Hin as [Heq|Hin]; [inversion Heq; congruence|exact Hin]. }
  rewrite key_lt_lex in H1, H2. pose proof (Hle t Ht) as Hlt.
  destruct (Z.ltb_spec (kx t) (kx s)), (Z.eqb_spec (kx t) (kx s)), (Nat.ltb_spec t s),
           (Z.ltb_spec (ky s) (ky t)), (Z.eqb_spec (ky s) (ky t)), (Nat.ltb_spec s t); cbn in H1, H2; try discriminate; lia.
Qed.

Section Idem.
Variables nrow ncol : nat.
Variable elv : list Z.
Variable nodata conn mode : Z.
Variable pits : list nat.
Notation sz := (nrow * ncol)%nat.
Hypothesis Hlen : length elv = sz.
Hypothesis Hpits : mode = 2 -> forall p, In p pits -> isnodata elv nodata p = false.

Notation st := (flood_state nrow ncol elv nodata conn mode pits).
Definition Lv : list Z := map (filledv elv st) (seq 0 sz).
(* no valid cell is filled up to the nodata value itself *)
Hypothesis Hnd : forall j, (j < sz)%nat -> isnodata elv nodata j = false -> filledv elv st j <> nodata.

Lemma Lv_nth j d : (j < sz)%nat -> nth j Lv d = filledv elv st j.
Proof. intros Hj. unfold Lv. apply map_seq_nth. exact Hj. Qed.

Lemma Lv_len : length Lv = sz.
Proof. unfold Lv. rewrite map_length, seq_length. reflexivity. Qed.

Lemma binv_st : binv nrow ncol elv nodata st.
Proof. apply loop_binv. apply init_binv. Qed.

Lemma isnd_same j : isnodata Lv nodata j = isnodata elv nodata j.
Proof.
  unfold isnodata. destruct (Nat.lt_ge_cases j sz) as [Hj|Hj].
  - rewrite Lv_nth by auto. destruct (Z.eqb_spec (nth j elv nodata) nodata) as [E|E].
    + destruct binv_st as (_ & _ & _ & _ & _ & Hn).
      assert (Hi : isnodata elv nodata j = true) by (unfold isnodata; apply Z.eqb_eq; exact E).
      destruct (Hn j Hj Hi) as (_ & Hd & _). unfold filledv. rewrite Hd.
      rewrite (nth_indep elv 0 nodata) by (rewrite Hlen; auto). rewrite E. apply Z.eqb_eq. lia.
    + apply Z.eqb_neq. apply Hnd; auto. unfold isnodata. apply Z.eqb_neq. exact E.
  - rewrite !nth_overflow by (rewrite ?Lv_len, ?Hlen; auto). reflexivity.
Qed.

Lemma is_edge_same j : is_edge nrow ncol Lv nodata conn j = is_edge nrow ncol elv nodata conn j.
Proof. unfold is_edge. rewrite isnd_same. f_equal. f_equal. f_equal.
  induction (offs conn) as [|o l IH]; simpl; [reflexivity|]. rewrite isnd_same, IH. reflexivity. Qed.

(* outlets = 'min': the single lowest edge cell (first in index order among equals) *)
Definition q0 (X : list Z) : list (Z * Z * nat) :=
  map (fun i => (nth i X 0, 1, i)) (filter (fun i => nth i (map (is_edge nrow ncol X nodata conn) (seq 0 sz)) false) (seq 0 sz)).

Lemma seeds_mode1 X : mode = 1 -> seeds nrow ncol X nodata conn mode pits =
  match extract_min (q0 X) with None => [] | Some ((_, _, i), _) => [i] end.
Proof.
  intros ->. unfold seeds, flood_init. change (1 =? 2) with false. change (1 =? 1) with true. cbv iota. fold (q0 X).
  destruct (extract_min (q0 X)) as [[[[z b] i] r]|]; reflexivity.
Qed.

Lemma edge_cells_same : filter (fun i => nth i (map (is_edge nrow ncol Lv nodata conn) (seq 0 sz)) false) (seq 0 sz) =
                        filter (fun i => nth i (map (is_edge nrow ncol elv nodata conn) (seq 0 sz)) false) (seq 0 sz).
Proof. apply filter_ext_in. intros i Hi. apply in_seq in Hi. rewrite !map_seq_nth by lia. apply is_edge_same. Qed.

Lemma seeds_same j : In j (seeds nrow ncol Lv nodata conn mode pits) <-> In j (seeds nrow ncol elv nodata conn mode pits).
Proof.
  destruct (Z.eq_dec mode 1) as [Hm1|Hm1]; [|rewrite !seeds_char by auto; rewrite is_edge_same; reflexivity].
  rewrite !seeds_mode1 by auto. unfold q0. rewrite edge_cells_same.
  set (E := filter (fun i => nth i (map (is_edge nrow ncol elv nodata conn) (seq 0 sz)) false) (seq 0 sz)).
  destruct (extract_min (map (fun i => (nth i elv 0, 1, i)) E)) as [[[[z b] s] r]|] eqn:Ex.
  - (* the seed keeps its level, every other edge cell can only rise *)
    destruct (extract_min_spec _ _ _ Ex) as [Hperm _].
    assert (Hin : In (z, b, s) (map (fun i => (nth i elv 0, 1, i)) E)) by (apply Hperm; left; reflexivity).
    apply in_map_iff in Hin. destruct Hin as [s' [Heq HsE]]. inversion Heq; subst s' b z. clear Heq.
    assert (Hs_lt : (s < sz)%nat) by (unfold E in HsE; apply filter_In in HsE; destruct HsE as [Hs _]; apply in_seq in Hs; lia).
    assert (Hseed : In s (seeds nrow ncol elv nodata conn mode pits)) by (rewrite seeds_mode1 by auto; fold E; unfold q0; fold E; rewrite Ex; left; reflexivity).
    destruct (final_invs nrow ncol elv nodata conn mode pits Hpits) as (_ & HY & _).
    destruct (y_seed _ _ _ _ _ _ _ HY s Hseed) as [_ Hdv].
    destruct (extract_min_index (fun i => nth i elv 0) (fun i => nth i Lv 0) E s r) as [r' Hex'].
    + intros i Hi. unfold E in Hi. apply filter_In in Hi. destruct Hi as [Hi _]. apply in_seq in Hi.
      rewrite Lv_nth by lia. unfold filledv. destruct binv_st as (_ & _ & _ & _ & Hpos & _). specialize (Hpos i). lia.
    + exact Ex.
    + rewrite Lv_nth by auto. unfold filledv. rewrite Hdv. lia.
    + cbv beta in Hex'. rewrite Hex'. reflexivity.
  - assert (HE : E = []) by (destruct E as [|e E']; [reflexivity|cbn [map extract_min] in Ex; destruct (extract_min (map _ E')) as [[m r]|]; [destruct (key_lt _ m)|]; discriminate]).
    rewrite HE. cbn [map extract_min]. reflexivity.
Qed.

Lemma Hpits' : mode = 2 -> forall p, In p pits -> isnodata Lv nodata p = false.
Proof. intros Hm p Hp. rewrite isnd_same. auto. Qed.

Notation st2 := (flood_state nrow ncol Lv nodata conn mode pits).
Notation E2 j := (nth j Lv 0).

(* the stored path of the first run is a path of the second run whose largest (filled) elevation is the cell's own level *)
Lemma tree_path j : (j < sz)%nat -> doneb st j = true -> isnodata elv nodata j = false ->
  spath nrow ncol Lv nodata conn mode pits j (filledv elv st j).
Proof.
  intros Hj Hd Hn. destruct (final_invs nrow ncol elv nodata conn mode pits Hpits) as (HL & HY & _).
  pose proof (l_reach _ _ _ _ _ _ HL j Hj Hd Hn) as Hr.
  destruct binv_st as (_ & _ & _ & _ & _ & Hndinv).
  clear Hj Hd Hn. induction Hr as [r Hroot|j' o p Ho Hne Hg Hd' Hn' H8 Hlev Hp IH].
  - assert (Hrn : isnodata elv nodata r = false).
    { destruct Hroot as (Hr1 & Hr2 & Hr3). destruct (isnodata elv nodata r) eqn:En; auto. destruct (Hndinv r Hr1 En) as (_ & _ & H247). congruence. }
    pose proof (y_root _ _ _ _ _ _ _ HY r Hroot Hrn) as Hs. destruct Hroot as (Hr1 & _).
    rewrite <- (Lv_nth r 0 Hr1). apply sp_seed; auto; [apply seeds_same; exact Hs|rewrite isnd_same; exact Hrn].
  - assert (Hj' : (j' < sz)%nat) by (destruct Hg as (_ & Hin & ->); apply (lin_bound nrow ncol _ _ Hin)).
    replace (filledv elv st j') with (Z.max (filledv elv st p) (E2 j')).
    + apply (sp_step nrow ncol Lv nodata conn mode pits p j' o); auto. rewrite isnd_same. exact Hn'.
    + rewrite (Lv_nth j' 0 Hj'). rewrite Hlev. lia.
Qed.

Lemma spath_end j M : spath nrow ncol Lv nodata conn mode pits j M -> E2 j <= M.
Proof. induction 1; lia. Qed.

(* paths of the second run are paths of the first *)
Lemma spath_back j M : spath nrow ncol Lv nodata conn mode pits j M -> exists M', spath nrow ncol elv nodata conn mode pits j M'.
Proof.
  induction 1 as [s Hs Hlt Hn|u v o M Hp [M' IH] Ho Hg Hn].
  - exists (nth s elv 0). apply sp_seed; auto; [apply seeds_same; exact Hs|rewrite <- isnd_same; exact Hn].
  - exists (Z.max M' (nth v elv 0)). apply (sp_step nrow ncol elv nodata conn mode pits u v o); auto. rewrite <- isnd_same. exact Hn.
Qed.

Theorem fill_idempotent :
  fst (fill_depressions nrow ncol Lv nodata conn mode pits) = Lv.
Proof.
  unfold fill_depressions. cbn [fst]. fold st2.
  apply (nth_ext_len _ _ 0); [rewrite map_length, seq_length, Lv_len; reflexivity|].
  intros j Hj. rewrite map_length, seq_length in Hj. rewrite map_seq_nth by auto.
  change (E2 j + nth j (fdelv st2) 0) with (filledv Lv st2 j).
  destruct (final_invs nrow ncol Lv nodata conn mode pits Hpits') as (HL2 & HY2 & _).
  destruct (isnodata Lv nodata j) eqn:En2.
  - (* nodata cells are untouched *)
    assert (Hb2 : binv nrow ncol Lv nodata st2) by (apply loop_binv; apply init_binv).
    destruct Hb2 as (_ & _ & _ & _ & _ & Hn2). destruct (Hn2 j Hj En2) as (_ & Hd & _). unfold filledv. rewrite Hd. lia.
  - destruct (doneb st2 j) eqn:Ed2.
    + destruct (flood_attained nrow ncol Lv nodata conn mode pits Hpits' j Hj Ed2 En2) as [M [Hsp HM]].
      pose proof (spath_end j M Hsp) as Hge.
      destruct (spath_back j M Hsp) as [M' Hsp1].
      destruct (flood_upper nrow ncol elv nodata conn mode pits Hpits j M' Hsp1) as (_ & Hn1 & Hd1 & _).
      pose proof (tree_path j Hj Hd1 Hn1) as Htp.
      destruct (flood_upper nrow ncol Lv nodata conn mode pits Hpits' j _ Htp) as (_ & _ & _ & Hle).
      rewrite (Lv_nth j 0 Hj) in *. lia.
    + pose proof (l_fresh _ _ _ _ _ _ HL2 j Ed2) as Hz. unfold filledv. rewrite Hz. lia.
Qed.
End Idem.
