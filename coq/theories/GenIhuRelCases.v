(* The REGENERATED driver of upscale.ihu with the REGENERATED ihu_relocate_outlets plugged in as the parameter `relocate`
   (generated/GenIhu.v: gen_ihu_ihu and gen_ihu_ihu_relocate_outlets, fuel S nsub: every stage of ihu is now text generated from
   the Python source) reproduces the results of the Python implementation on the 20 cases of the regression corpus IhuCases.v:
   checked by computation.  A test of the translation (tools/gen_ihu.py), independent of the equality proofs GenIhuRel*.v. *)
From Coq Require Import List Arith ZArith Bool.
Import ListNotations.
From PF Require Import Arr Upscale Ihu IhuCases.
From PFG Require Import GenUpscale GenIhu.

Definition grcase_ok (c : Case) : bool :=
  match gen_ihu_ihu (S (length (k_sds c))) (k_sds c) (k_upa c) (Z.of_nat (k_nr c), Z.of_nat (k_nc c)) (Z.of_nat (k_cs c))
                    5 true true 2 (eaf (k_ea c)) (gen_ihu_ihu_relocate_outlets (S (length (k_sds c)))) with
  | Some (cds, out, (nr, nc)) =>
    nat_list_eqb cds (k_cds c) && nat_list_eqb out (k_out c) && (nr =? Z.of_nat (fst (k_shape c)))%Z
    && (nc =? Z.of_nat (snd (k_shape c)))%Z
  | None => false
  end.

Lemma gen_ihu_rel_cases_agree : forallb grcase_ok ihu_cases = true.
Proof. vm_compute. reflexivity. Qed.

Print Assumptions gen_ihu_rel_cases_agree.
