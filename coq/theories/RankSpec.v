(* C03: the BFS order is topological and complete; rank-sorted orders are topological;
   rank = number of steps to the pit, -1 exactly on cells that never reach one. *)
From Coq Require Import List Arith ZArith Lia Bool Sorted Permutation.
Import ListNotations.
From PF Require Import Arr Net Rank.

Lemma NoDup_app_disj {A} (l u : list A) :
  NoDup l -> NoDup u -> (forall c, In c u -> ~ In c l) -> NoDup (l ++ u).
Proof.
  intros Hl Hu Hd. induction Hl as [|a l Ha Hl IH]; simpl; auto.
  constructor.
  - intros H. apply in_app_or in H. destruct H as [H|H]; [contradiction|]. apply (Hd a H). left; auto.
  - apply IH. intros c Hc H. apply (Hd c Hc). right; auto.
Qed.

Section Order.
Variable ds : list nat.
Notation n := (size ds).
Notation dsf := (dsf ds).
Hypothesis Hwf : wf ds.

(* ---------- steps to the pit ---------- *)
Definition steps (i k : nat) : Prop :=
  dsf (iter ds k i) = iter ds k i /\ forall m, m < k -> dsf (iter ds m i) <> iter ds m i.

Lemma steps_fun i k1 k2 : steps i k1 -> steps i k2 -> k1 = k2.
Proof. intros [H1 H2] [H3 H4]. destruct (Nat.lt_trichotomy k1 k2) as [H|[H|H]]; auto.
  - exfalso. apply (H4 k1 H). auto.
  - exfalso. apply (H2 k2 H). auto. Qed.

Lemma steps_S i k : dsf i <> i -> steps (dsf i) k -> steps i (S k).
Proof. intros Hn [H1 H2]. split; [exact H1|]. intros [|m] Hm; simpl; auto. apply H2. lia. Qed.

Lemma steps_0 i : dsf i = i -> steps i 0.
Proof. intros H. split; [exact H|]. intros m Hm. lia. Qed.

Lemma steps_drains i k : valid ds i -> steps i k -> drains ds i.
Proof. intros Hv [H _]. exists k. split; auto. apply iter_valid; auto. Qed.

Lemma drains_steps i : drains ds i -> exists k, steps i k.
Proof.
  intros [k [_ Hk]]. revert i Hk. induction k as [|k IH]; intros i Hk.
  - exists 0. apply steps_0. exact Hk.
  - destruct (Nat.eq_dec (dsf i) i) as [E|E]; [exists 0; apply steps_0; auto|].
    destruct (IH (dsf i) Hk) as [k' Hk']. exists (S k'). apply steps_S; auto.
Qed.

Lemma drains_ds i : dsf i <> i -> drains ds i -> drains ds (dsf i).
Proof. intros Hn [[|k] [Hv Hk]]; simpl in *; [contradiction|]. exists k. split; auto. Qed.

Lemma drains_up i : valid ds i -> drains ds (dsf i) -> drains ds i.
Proof. intros Hv [k Hk]. exists (S k). exact Hk. Qed.

(* ---------- upstream cells ---------- *)
Lemma ups_In x c : In c (ups ds x) <-> c < n /\ dsf c = x /\ c <> x.
Proof. unfold ups. rewrite filter_In, in_seq, andb_true_iff, negb_true_iff, Nat.eqb_eq, Nat.eqb_neq. lia. Qed.

Lemma ups_NoDup x : NoDup (ups ds x).
Proof. unfold ups. apply NoDup_filter. apply seq_NoDup. Qed.

(* ---------- BFS from the pits ---------- *)
Definition binv (queue acc : list nat) : Prop :=
  topo ds (rev acc) /\ NoDup (rev acc ++ queue) /\
  (forall c, In c queue -> valid ds c /\ (dsf c = c \/ In (dsf c) acc)) /\
  (* completeness bookkeeping: children of dequeued cells are dequeued or queued *)
  (forall c, c < n -> dsf c <> c -> In (dsf c) acc -> In c acc \/ In c queue).

Lemma binv_step x q acc : x < n -> binv (x :: q) acc -> binv (q ++ ups ds x) (x :: acc).
Proof.
  intros Hx (I1 & I2 & I3 & I4).
  assert (Hxq : valid ds x /\ (dsf x = x \/ In (dsf x) acc)) by (apply I3; left; auto).
  destruct Hxq as [Hxv Hxd].
  assert (Hxa : ~ In x (rev acc)).
  { intros H. apply NoDup_remove_2 in I2. apply I2. apply in_or_app. left. exact H. }
  assert (T : topo ds (rev (x :: acc))).
  { simpl. constructor; auto. destruct Hxd as [H|H]; auto. right. rewrite <- in_rev. auto. }
  split; [exact T|]. split; [|split].
  - simpl. rewrite <- app_assoc. simpl.
    assert (E : rev acc ++ x :: q ++ ups ds x = (rev acc ++ x :: q) ++ ups ds x) by (rewrite <- app_assoc; reflexivity).
    rewrite E. clear E.
    assert (Hdisj : forall c, In c (ups ds x) -> ~ In c (rev acc ++ x :: q)).
    { intros c Hc Hin. apply ups_In in Hc. destruct Hc as (Hcn & Hcd & Hcx).
      apply in_app_or in Hin. destruct Hin as [Hin|[Hin|Hin]].
      - (* c already dequeued: then its downstream cell x was dequeued before it *)
        pose proof (topo_closed ds (rev acc) c I1 Hin) as H. rewrite Hcd in H. contradiction.
      - congruence.
      - destruct (I3 c (or_intror Hin)) as [_ [H|H]]; [congruence|]. rewrite Hcd in H.
        apply Hxa. rewrite <- in_rev. exact H. }
    apply NoDup_app_disj; auto. apply ups_NoDup.
  - intros c Hc. apply in_app_or in Hc. destruct Hc as [Hc|Hc].
    + destruct (I3 c (or_intror Hc)) as [Hv Hd]. split; auto. destruct Hd; [left|right; right]; auto.
    + apply ups_In in Hc. destruct Hc as (Hcn & Hcd & Hcx). split.
      * split; auto. rewrite Hcd. exact Hx.
      * right. left. auto.
  - intros c Hc Hnp Hd. destruct Hd as [Hd|Hd].
    + right. apply in_or_app. right. apply ups_In. repeat split; auto. intros ->. congruence.
    + destruct (I4 c Hc Hnp Hd) as [H|[H|H]].
      * left. right. auto.
      * left. left. auto.
      * right. apply in_or_app. left. auto.
Qed.

Lemma binv_bound queue acc x : binv queue acc -> In x (rev acc ++ queue) -> x < n.
Proof. intros (I1 & I2 & I3 & I4) H. apply in_app_or in H. destruct H as [H|H].
  - destruct (topo_valid ds _ _ I1 H); auto.
  - destruct (I3 x H) as [[Hx _] _]; auto. Qed.

Lemma bfs_topo fuel : forall queue acc, binv queue acc -> topo ds (bfs ds fuel queue acc).
Proof.
  induction fuel as [|f IH]; intros queue acc Hb; simpl.
  - destruct Hb; auto.
  - destruct queue as [|x q]; [destruct Hb; auto|].
    apply IH. apply binv_step; auto. apply (binv_bound (x :: q) acc); auto.
    apply in_or_app. right. left. auto.
Qed.

Lemma bfs_final fuel : forall queue acc, binv queue acc -> n <= fuel + length acc ->
  exists acc', bfs ds fuel queue acc = rev acc' /\ binv [] acc' /\ incl acc acc' /\ incl queue acc'.
Proof.
  induction fuel as [|f IH]; intros queue acc Hb Hn; simpl.
  - assert (queue = []).
    { destruct queue as [|x q]; auto. exfalso.
      assert (Hl : length (rev acc ++ x :: q) <= length (seq 0 n)).
      { apply NoDup_incl_length; [destruct Hb as (_ & H & _); auto|].
        intros y Hy. apply in_seq. pose proof (binv_bound _ _ y Hb Hy). lia. }
      rewrite app_length, rev_length, seq_length in Hl. simpl in Hl. lia. }
    subst. exists acc. repeat split; try apply Hb; auto using incl_refl. intros y [].
  - destruct queue as [|x q].
    + exists acc. repeat split; try apply Hb; auto using incl_refl. intros y [].
    + assert (Hx : x < n) by (apply (binv_bound (x :: q) acc); auto; apply in_or_app; right; left; auto).
      destruct (IH (q ++ ups ds x) (x :: acc)) as (acc' & E & Hb' & Hi1 & Hi2).
      * apply binv_step; auto.
      * simpl. lia.
      * exists acc'. split; auto. split; auto. split.
        -- intros y Hy. apply Hi1. right. auto.
        -- intros y [<-|Hy]; [apply Hi1; left; auto|apply Hi2; apply in_or_app; left; auto].
Qed.

(* core.idxs_seq from the complete pit list is a topological order of exactly the draining cells *)
Theorem walk_topo pits : (forall p, In p pits <-> p < n /\ dsf p = p) -> NoDup pits ->
  topo ds (idxs_seq ds pits) /\ (forall i, In i (idxs_seq ds pits) <-> drains ds i).
Proof.
  intros Hp Hnd.
  assert (Hb : binv pits []).
  { split; [constructor|]. split; [exact Hnd|]. split.
    - intros c Hc. apply Hp in Hc. destruct Hc as [Hc Hd]. split; [split; auto; rewrite Hd; auto|left; auto].
    - intros c _ _ []. }
  split; [apply bfs_topo; auto|].
  intros i. split; [apply topo_drains; apply bfs_topo; auto|].
  intros Hd. unfold idxs_seq.
  destruct (bfs_final n pits [] Hb) as (acc' & E & (J1 & J2 & J3 & J4) & _ & Hi2); [simpl; lia|].
  rewrite E. rewrite <- in_rev.
  assert (Hiv : valid ds i) by (apply drains_valid; auto).
  destruct (drains_steps i Hd) as [k Hk]. clear Hd.
  revert i Hiv Hk. induction k as [|k IH]; intros i Hiv [H1 H2].
  - simpl in H1. apply Hi2. apply Hp. destruct Hiv; auto.
  - assert (Hnp : dsf i <> i) by (apply (H2 0); lia).
    destruct (J4 i) as [H|[]]; auto; [destruct Hiv; auto|].
    apply IH; [apply Hwf; auto|]. split; [exact H1|]. intros m Hm. apply (H2 (S m)). lia.
Qed.
End Order.

(* ---------- any rank-sorted order is topological ---------- *)
Section SortTopo.
Variable ds : list nat.
Variable r : nat -> nat.     (* a rank: strictly smaller on the downstream cell *)

Definition le_r (a b : nat) : Prop := r a <= r b.

Lemma sorted_snoc_inv (s : list nat) x : StronglySorted le_r (s ++ [x]) ->
  StronglySorted le_r s /\ forall y, In y s -> r y <= r x.
Proof.
  induction s as [|a s IH]; simpl; intros H.
  - split; [constructor|intros y []].
  - inversion H as [|a' l Hs Hf]; subst. destruct (IH Hs) as [H1 H2]. split.
    + constructor; auto. rewrite Forall_forall in *. intros y Hy. apply Hf. apply in_or_app. left; auto.
    + intros y [<-|Hy]; auto. rewrite Forall_forall in Hf. apply Hf. apply in_or_app. right. left. auto.
Qed.

Theorem sorted_topo (s : list nat) : NoDup s -> (forall i, In i s -> valid ds i) ->
  StronglySorted le_r s ->
  (forall i, In i s -> dsf ds i = i \/ (In (dsf ds i) s /\ r (dsf ds i) < r i)) ->
  topo ds s.
Proof.
  induction s as [|x s IH] using rev_ind; intros Hnd Hv Hs Hc; [constructor|].
  apply sorted_snoc_inv in Hs. destruct Hs as [Hs Hle].
  assert (Hnd' : NoDup s /\ ~ In x s).
  { apply NoDup_remove in Hnd. rewrite app_nil_r in Hnd. exact Hnd. }
  destruct Hnd' as [Hnds Hxs].
  constructor; auto.
  - apply IH; auto.
    + intros i Hi. apply Hv. apply in_or_app. left; auto.
    + intros i Hi. destruct (Hc i) as [H|[H1 H2]]; [apply in_or_app; left; auto|left; auto|right].
      split; auto. apply in_app_or in H1. destruct H1 as [H1|[H1|[]]]; auto.
      exfalso. specialize (Hle i Hi). rewrite <- H1 in H2. lia.
  - apply Hv. apply in_or_app. right. left. auto.
  - destruct (Hc x) as [H|[H1 H2]]; [apply in_or_app; right; left; auto|left; auto|right].
    apply in_app_or in H1. destruct H1 as [H1|[H1|[]]]; auto. rewrite <- H1 in H2. lia.
Qed.
End SortTopo.

(* ---------- core.rank ---------- *)
Section RankProof.
Variable ds : list nat.
Notation n := (size ds).
Notation dsf := (dsf ds).
Hypothesis Hwf : wf ds.
Local Open Scope Z_scope.

Definition rk_ok (ranks : list Z) (i : nat) : Prop :=
  nth i ranks RU = RU \/
  (exists k, nth i ranks RU = Z.of_nat k /\ steps ds i k) \/
  (nth i ranks RU = -1 /\ valid ds i /\ ~ drains ds i).

Definition rinv (ranks : list Z) : Prop :=
  length ranks = n /\ (forall i, (i < n)%nat -> rk_ok ranks i) /\
  (forall i, ~ valid ds i -> nth i ranks RU = RU).

Fixpoint chain (l : list nat) : Prop :=
  match l with
  | a :: ((b :: _) as t) => a = dsf b /\ dsf b <> b /\ chain t
  | _ => True
  end.

Lemma rk_ok_upd_other ranks c v i : i <> c -> rk_ok ranks i -> rk_ok (upd ranks c v) i.
Proof. intros Hne H. unfold rk_ok in *. rewrite nth_upd_neq by auto. exact H. Qed.

Lemma assign_ok stack : forall ranks k, chain stack -> NoDup stack -> rinv ranks ->
  (forall c, In c stack -> valid ds c) ->
  (match stack with [] => True | a :: _ => steps ds a k end) ->
  let r' := assign ranks stack (Z.of_nat k) in
  rinv r' /\ (forall c, In c stack -> nth c r' RU >= 0) /\ (forall j, ~ In j stack -> nth j r' RU = nth j ranks RU).
Proof.
  induction stack as [|a t IH]; intros ranks k Hc Hnd Hr Hv Hs; simpl.
  - split; auto. split; [intros c []|auto].
  - inversion Hnd as [|x l Ha Hnd']; subst.
    assert (Hav : valid ds a) by (apply Hv; left; auto).
    assert (Hr1 : rinv (upd ranks a (Z.of_nat k))).
    { destruct Hr as (Hl & Hok & Hnv). split; [rewrite upd_length; auto|]. split.
      - intros i Hi. destruct (Nat.eq_dec i a) as [->|Hne].
        + right. left. exists k. split; auto. apply nth_upd_eq. destruct Hav. lia.
        + apply rk_ok_upd_other; auto.
      - intros i Hi. rewrite nth_upd_neq; auto. intros ->. contradiction. }
    assert (Hs' : match t with [] => True | b :: _ => steps ds b (S k) end).
    { destruct t as [|b t']; auto. destruct Hc as (E & Hnp & _). apply steps_S; auto. rewrite <- E. auto. }
    assert (Hc' : chain t) by (destruct t as [|b t']; [exact I|destruct Hc as (_ & _ & H); exact H]).
    replace (Z.of_nat k + 1) with (Z.of_nat (S k)) by lia.
    destruct (IH (upd ranks a (Z.of_nat k)) (S k) Hc' Hnd' Hr1 (fun c H => Hv c (or_intror H)) Hs') as (I1 & I2 & I3).
    split; auto. split.
    + intros c [<-|Hc0]; auto. rewrite I3 by auto. rewrite nth_upd_eq; [lia|]. destruct Hr as (Hl & _). destruct Hav. lia.
    + intros j Hj. rewrite I3 by (intros H; apply Hj; right; exact H). apply nth_upd_neq. intros ->. apply Hj. left. reflexivity.
Qed.

Lemma mark_ok stack : forall ranks, NoDup stack -> rinv ranks ->
  (forall c, In c stack -> valid ds c /\ ~ drains ds c) ->
  let r' := mark ranks stack in
  rinv r' /\ (forall c, In c stack -> nth c r' RU = -1) /\ (forall j, ~ In j stack -> nth j r' RU = nth j ranks RU).
Proof.
  induction stack as [|a t IH]; intros ranks Hnd Hr Hv; simpl.
  - split; auto. split; [intros c []|auto].
  - inversion Hnd as [|x l Ha Hnd']; subst.
    destruct (Hv a (or_introl eq_refl)) as [Hav Had].
    assert (Hr1 : rinv (upd ranks a (-1))).
    { destruct Hr as (Hl & Hok & Hnv). split; [rewrite upd_length; auto|]. split.
      - intros i Hi. destruct (Nat.eq_dec i a) as [->|Hne].
        + right. right. split; auto. apply nth_upd_eq. destruct Hav. lia.
        + apply rk_ok_upd_other; auto.
      - intros i Hi. rewrite nth_upd_neq; auto. intros ->. contradiction. }
    destruct (IH (upd ranks a (-1)) Hnd' Hr1 (fun c H => Hv c (or_intror H))) as (I1 & I2 & I3).
    split; auto. split.
    + intros c [<-|Hc0]; auto. rewrite I3 by auto. apply nth_upd_eq. destruct Hr as (Hl & _). destruct Hav. lia.
    + intros j Hj. rewrite I3 by (intros H; apply Hj; right; exact H). apply nth_upd_neq. intros ->. apply Hj. left. reflexivity.
Qed.

Lemma chain_nodrain stack : chain stack ->
  (match stack with [] => True | a :: _ => ~ drains ds a end) -> forall c, In c stack -> ~ drains ds c.
Proof.
  induction stack as [|a t IH]; intros Hc Ha c Hin; [destruct Hin|].
  destruct Hin as [<-|Hin]; auto.
  destruct t as [|b t']; [destruct Hin|]. simpl in Hc. destruct Hc as (E & Hnp & Hc').
  apply IH; auto. intros Hd. apply Ha. rewrite E. apply drains_ds; auto.
Qed.

Lemma chain_closed cur rest : chain (cur :: rest) -> forall c, In c rest -> In (dsf c) (cur :: rest) /\ dsf c <> c.
Proof.
  revert cur. induction rest as [|b t IH]; intros cur Hc c Hin; [destruct Hin|].
  simpl in Hc. destruct Hc as (E & Hnp & Hc').
  destruct Hin as [<-|Hin].
  - split; auto. left. auto.
  - destruct (IH b Hc' c Hin) as [H1 H2]. split; auto. right. auto.
Qed.

Definition walk_post (ranks r' : list Z) (start : nat) : Prop :=
  rinv r' /\ nth start r' RU <> RU /\ (forall j, nth j ranks RU <> RU -> nth j r' RU = nth j ranks RU).

Section Stop.
Variables (ranks : list Z) (rest : list nat) (cur start : nat).
Hypothesis Hr : rinv ranks.
Hypothesis Hc : chain (cur :: rest).
Hypothesis Hnd : NoDup (cur :: rest).
Hypothesis Hst : forall c, In c (cur :: rest) -> valid ds c /\ nth c ranks RU = RU.
Hypothesis Hstart : In start (cur :: rest).
Let d := dsf cur.
Let rnk := nth d ranks RU.

Lemma Hcv : valid ds cur. Proof. apply Hst; left; auto. Qed.
Lemma Hdn : (d < n)%nat. Proof. destruct Hcv; auto. Qed.
Lemma Hokd : rk_ok ranks d. Proof. destruct Hr as (_ & H & _). apply H. apply Hdn. Qed.
Lemma Hkeep r' : (forall j, ~ In j (cur :: rest) -> nth j r' RU = nth j ranks RU) ->
  forall j, nth j ranks RU <> RU -> nth j r' RU = nth j ranks RU.
Proof. intros H j Hj. apply H. intros Hin. apply Hst in Hin. tauto. Qed.

Lemma stop_ranked : rnk >= 0 -> walk_post ranks (assign ranks (cur :: rest) (rnk + 1)) start.
Proof.
  intros Hge. destruct Hokd as [E|[(k & E & Hk)|(E & _)]]; fold rnk in E; [unfold RU in E; lia| |lia].
  assert (Hnp : dsf cur <> cur).
  { intros Ep. destruct (Hst cur (or_introl eq_refl)) as [_ H]. fold d in Ep. rewrite <- Ep in H. fold rnk in H. unfold RU in H. lia. }
  replace (rnk + 1) with (Z.of_nat (S k)) by lia.
  destruct (assign_ok (cur :: rest) ranks (S k) Hc Hnd Hr (fun c H => proj1 (Hst c H))) as (I1 & I2 & I3).
  - apply steps_S; auto.
  - split; [exact I1|]. split; [specialize (I2 start Hstart); unfold RU in *; lia|apply Hkeep; auto].
Qed.

Lemma stop_pit : d = cur -> walk_post ranks (assign ranks (cur :: rest) 0) start.
Proof.
  intros Ep.
  destruct (assign_ok (cur :: rest) ranks 0%nat Hc Hnd Hr (fun c H => proj1 (Hst c H))) as (I1 & I2 & I3).
  - apply steps_0; auto.
  - cbn [Z.of_nat] in I1, I2, I3. split; [exact I1|]. split; [specialize (I2 start Hstart); unfold RU in *; lia|apply Hkeep; auto].
Qed.

Lemma stop_loop : d <> cur -> rnk = -1 \/ In d (cur :: rest) -> walk_post ranks (mark ranks (cur :: rest)) start.
Proof.
  intros Hnp Hl.
  assert (Hnd' : forall c, In c (cur :: rest) -> valid ds c /\ ~ drains ds c).
  { intros c Hin. split; [apply Hst; auto|]. destruct Hl as [El|El].
    - destruct Hokd as [E|[(k & E & Hk)|(E & _ & Hnd0)]]; fold rnk in E; [unfold RU in E; lia|lia|].
      apply (chain_nodrain (cur :: rest) Hc); auto.
      intros Hd. apply Hnd0. apply drains_ds; auto.
    - assert (Hcl : forall c, In c (cur :: rest) -> In (dsf c) (cur :: rest) /\ dsf c <> c).
      { intros c0 [<-|Hc0]; [split; auto|apply (chain_closed cur rest Hc); auto]. }
      assert (Hit : forall k c0, In c0 (cur :: rest) -> In (iter ds k c0) (cur :: rest)).
      { induction k as [|k IHk]; intros c0 Hc0; simpl; auto. apply IHk. apply Hcl. auto. }
      intros [k [_ Hk]]. destruct (Hcl _ (Hit k c Hin)) as [_ H]. contradiction. }
  destruct (mark_ok (cur :: rest) ranks Hnd Hr Hnd') as (I1 & I2 & I3).
  split; [exact I1|]. split; [rewrite (I2 start Hstart); unfold RU in *; lia|apply Hkeep; auto].
Qed.

Lemma walk_stop_ok :
  match walk_stop ds ranks (cur :: rest) cur with
  | Some r => walk_post ranks (fst r) start
  | None => nth d ranks RU = RU /\ ~ In d (cur :: rest) /\ d <> cur
  end.
Proof.
  unfold walk_stop. fold d. fold rnk.
  destruct (Z.geb_spec rnk 0) as [Hge|Hlt]; [apply stop_ranked; lia|].
  destruct (Nat.eqb_spec d cur) as [Ep|Hnp]; [apply stop_pit; auto|].
  destruct ((rnk =? -1) || memb d (cur :: rest)) eqn:Eloop.
  - apply stop_loop; auto. apply orb_true_iff in Eloop. destruct Eloop as [E|E].
    + left. apply Z.eqb_eq; auto.
    + right. apply memb_In; auto.
  - apply orb_false_iff in Eloop. destruct Eloop as [En1 Em]. apply memb_false in Em. apply Z.eqb_neq in En1.
    split; [|split; auto].
    destruct Hokd as [E|[(k & E & Hk)|(E & _)]]; auto; fold rnk in E; lia.
Qed.
End Stop.

Lemma walk_ok fuel : forall ranks rest cur start,
  rinv ranks -> chain (cur :: rest) -> NoDup (cur :: rest) ->
  (forall c, In c (cur :: rest) -> valid ds c /\ nth c ranks RU = RU) ->
  In start (cur :: rest) ->
  (n <= fuel + length (cur :: rest))%nat ->
  walk_post ranks (fst (walk ds fuel ranks (cur :: rest) cur)) start.
Proof.
  induction fuel as [|f IH]; intros ranks rest cur start Hr Hc Hnd Hst Hstart Hfuel;
    pose proof (walk_stop_ok ranks rest cur start Hr Hc Hnd Hst Hstart) as Hs;
    cbn [walk]; destruct (walk_stop ds ranks (cur :: rest) cur) as [r|]; auto;
    destruct Hs as (Ed & Em & Hnp);
    (assert (Hcv' : valid ds cur) by (apply Hst; left; auto)).
  - (* out of fuel: impossible, the stack would hold more than n distinct cells *)
    exfalso.
    assert (Hl : (length (dsf cur :: cur :: rest) <= length (seq 0 n))%nat).
    { apply NoDup_incl_length; [constructor; auto|].
      intros y [<-|Hy]; apply in_seq; [destruct Hcv'; lia|]. destruct (Hst y Hy) as [[H _] _]. lia. }
    rewrite seq_length in Hl. simpl in *. lia.
  - apply IH; auto.
    + simpl. split; auto.
    + constructor; auto.
    + intros c [<-|Hc0]; [split; auto; apply Hwf; auto|apply Hst; auto].
    + right. auto.
    + simpl in *. lia.
Qed.

Definition oinv (st : list Z * nat) (i : nat) : Prop :=
  rinv (fst st) /\ forall j, (j < i)%nat -> valid ds j -> nth j (fst st) RU <> RU.

Lemma outer_step st i : (i < n)%nat -> oinv st i -> oinv (rank_outer ds st i) (S i).
Proof.
  intros Hi [Hr Hdone]. destruct st as [ranks cnt]. unfold rank_outer. simpl fst in *.
  destruct (validb ds i) eqn:Ev; simpl.
  - apply validb_valid in Ev. destruct (Z.eqb_spec (nth i ranks RU) RU) as [E|E].
    + pose proof (walk_ok n ranks [] i i Hr I) as H.
      destruct (walk ds n ranks [i] i) as [r' c] eqn:Ew. simpl fst in *.
      destruct H as (H1 & H2 & H3).
      * constructor; [intros []|constructor].
      * intros c0 [<-|[]]. split; auto.
      * left; auto.
      * simpl. lia.
      * split; auto. intros j Hj Hv. destruct (Nat.eq_dec j i) as [->|Hne]; auto.
        rewrite H3; apply Hdone; auto; lia.
    + split; auto. simpl. intros j Hj Hv. destruct (Nat.eq_dec j i) as [->|Hne]; auto. apply Hdone; auto. lia.
  - split; auto. simpl. intros j Hj Hv. destruct (Nat.eq_dec j i) as [->|Hne].
    + apply validb_valid in Hv. congruence.
    + apply Hdone; auto. lia.
Qed.

Lemma outer_fold k : forall st a, (a + k <= n)%nat -> oinv st a ->
  oinv (fold_left (rank_outer ds) (seq a k) st) (a + k).
Proof.
  induction k as [|k IH]; intros st a Hk Hi; simpl.
  - rewrite Nat.add_0_r. auto.
  - replace (a + S k)%nat with (S a + k)%nat by lia. apply IH; [lia|]. apply outer_step; auto. lia.
Qed.

Lemma rinv_init : rinv (repeat RU n).
Proof.
  assert (H : forall i, nth i (repeat RU n) RU = RU).
  { intros i. generalize n. intros m. revert i. induction m as [|m IH]; intros [|i]; simpl; auto. }
  split; [apply repeat_length|]. split; [intros i _; left; apply H|intros i _; apply H].
Qed.

Lemma rank_oinv : oinv (rank ds) n.
Proof. unfold rank. apply (outer_fold n (repeat RU n, 0%nat) 0%nat); [lia|].
  split; [apply rinv_init|intros j Hj; lia]. Qed.

(* rank = number of steps to the pit; -1 exactly on the cells that never reach a pit (members of,
   or tributaries to, a cycle); -9999 exactly on nodata *)
Theorem rank_spec : let ranks := fst (rank ds) in
  length ranks = n /\
  forall i, (i < n)%nat ->
    (~ valid ds i -> nth i ranks RU = RU) /\
    (valid ds i -> forall k, steps ds i k <-> nth i ranks RU = Z.of_nat k) /\
    (valid ds i -> (~ drains ds i <-> nth i ranks RU = -1)).
Proof.
  intros ranks. destruct rank_oinv as [(Hl & Hok & Hnv) Hdone]. fold ranks in Hl, Hok, Hnv, Hdone.
  split; auto. intros i Hi. split; [apply Hnv|]. split.
  - intros Hv k. specialize (Hdone i Hi Hv). destruct (Hok i Hi) as [E|[(k' & E & Hk')|(E & _ & Hnd)]]; [contradiction| |].
    + split; [intros Hk; rewrite (steps_fun ds i k k' Hk Hk'); auto|intros E2; assert (k = k') by lia; subst; auto].
    + split; [intros Hk; exfalso; apply Hnd; apply (steps_drains ds Hwf i k); auto|intros E2; lia].
  - intros Hv. specialize (Hdone i Hi Hv). destruct (Hok i Hi) as [E|[(k' & E & Hk')|(E & _ & Hnd)]]; [contradiction| |].
    + split; [intros Hnd; exfalso; apply Hnd; apply (steps_drains ds Hwf i k'); auto|intros E2; lia].
    + split; auto.
Qed.

Lemma rank_cases i : valid ds i ->
  (exists k, steps ds i k /\ nth i (fst (rank ds)) RU = Z.of_nat k) \/
  (~ drains ds i /\ nth i (fst (rank ds)) RU = -1).
Proof.
  intros Hv. destruct rank_oinv as [(Hl & Hok & Hnv) Hdone].
  assert (Hi : (i < n)%nat) by (destruct Hv; auto).
  specialize (Hdone i Hi Hv). destruct (Hok i Hi) as [E|[(k' & E & Hk')|(E & _ & Hnd)]]; [contradiction| |].
  - left. eauto.
  - right. auto.
Qed.

(* the reported loop cells are exactly the cells that never reach a pit *)
Theorem loops_exact i : In i (loop_indices ds) <-> valid ds i /\ ~ drains ds i.
Proof.
  unfold loop_indices. rewrite filter_In, in_seq, Z.eqb_eq. split.
  - intros [Hi E]. destruct rank_oinv as [(Hl & Hok & Hnv) _].
    assert (Hv : valid ds i).
    { destruct (validb ds i) eqn:Ev; [apply validb_valid; auto|]. exfalso.
      assert (~ valid ds i) by (intros H; apply validb_valid in H; congruence).
      rewrite (Hnv i H) in E. unfold RU in E. lia. }
    split; auto. destruct (rank_cases i Hv) as [(k & _ & Ek)|[H _]]; auto. lia.
  - intros [Hv Hnd]. split; [destruct Hv; lia|].
    destruct (rank_cases i Hv) as [(k & Hk & _)|[_ E]]; auto.
    exfalso. apply Hnd. apply (steps_drains ds Hwf i k); auto.
Qed.

(* a network is reported valid iff every cell reaches a pit *)
Theorem isvalid_iff : isvalid ds = true <-> loopfree ds.
Proof.
  unfold isvalid. rewrite forallb_forall. split.
  - intros H i Hv. destruct (rank_cases i Hv) as [(k & Hk & _)|[_ E]].
    + apply (steps_drains ds Hwf i k); auto.
    + exfalso. destruct rank_oinv as [(Hl & _) _].
      assert (Hin : In (nth i (fst (rank ds)) RU) (fst (rank ds))) by (apply nth_In; destruct Hv; lia).
      specialize (H _ Hin). rewrite E in H. discriminate.
  - intros Hlf v Hin. apply negb_true_iff, Z.eqb_neq. intros ->.
    destruct (In_nth _ _ RU Hin) as (i & Hi & E).
    destruct rank_oinv as [(Hl & Hok & Hnv) _]. rewrite Hl in Hi.
    destruct (validb ds i) eqn:Ev.
    + apply validb_valid in Ev. destruct (rank_cases i Ev) as [(k & _ & Ek)|[Hnd _]]; [lia|]. apply Hnd. apply Hlf. auto.
    + assert (~ valid ds i) by (intros H; apply validb_valid in H; congruence).
      rewrite (Hnv i H) in E. unfold RU in E. lia.
Qed.

(* every order that lists exactly the ranked cells by non-decreasing rank is topological and lists
   exactly the draining cells -- whatever (unstable) sorting routine produced it *)
Definition rkn (i : nat) : nat := Z.to_nat (nth i (fst (rank ds)) RU).

Theorem sort_topo s : NoDup s ->
  (forall i, In i s <-> (i < n)%nat /\ nth i (fst (rank ds)) RU >= 0) ->
  StronglySorted (le_r rkn) s ->
  topo ds s /\ (forall i, In i s <-> drains ds i).
Proof.
  intros Hnd Hin Hs.
  assert (Hranked : forall i, In i s -> valid ds i /\ exists k, steps ds i k /\ nth i (fst (rank ds)) RU = Z.of_nat k).
  { intros i Hi. apply Hin in Hi. destruct Hi as [Hi Hge].
    destruct rank_oinv as [(Hl & Hok & Hnv) _].
    assert (Hv : valid ds i).
    { destruct (validb ds i) eqn:Ev; [apply validb_valid; auto|]. exfalso.
      assert (~ valid ds i) by (intros H; apply validb_valid in H; congruence).
      rewrite (Hnv i H) in Hge. unfold RU in Hge. lia. }
    split; auto. destruct (rank_cases i Hv) as [H|[_ E]]; auto. lia. }
  assert (Hback : forall i k, valid ds i -> steps ds i k -> In i s /\ rkn i = k).
  { intros i k Hv Hk. destruct (rank_cases i Hv) as [(k' & Hk' & E)|[Hnd' _]].
    - rewrite (steps_fun ds i k k' Hk Hk'). split; [apply Hin; split; [destruct Hv; auto|lia]|unfold rkn; rewrite E; lia].
    - exfalso. apply Hnd'. apply (steps_drains ds Hwf i k); auto. }
  split.
  - apply (sorted_topo ds rkn); auto.
    + intros i Hi. apply Hranked; auto.
    + intros i Hi. destruct (Hranked i Hi) as (Hv & k & Hk & E).
      destruct (Nat.eq_dec (dsf i) i) as [Ep|Hnp]; [left; auto|right].
      destruct k as [|k]; [exfalso; apply Hnp; destruct Hk as [H _]; exact H|].
      assert (Hk' : steps ds (dsf i) k).
      { destruct Hk as [H1 H2]. split; [exact H1|]. intros m Hm. apply (H2 (S m)). lia. }
      destruct (Hback (dsf i) k (Hwf i Hv) Hk') as [H1 H2]. split; auto.
      rewrite H2. unfold rkn. rewrite E. lia.
  - intros i. split.
    + intros Hi. destruct (Hranked i Hi) as (Hv & k & Hk & _). apply (steps_drains ds Hwf i k); auto.
    + intros Hd. destruct (drains_steps ds i Hd) as [k Hk]. apply (Hback i k); auto. apply drains_valid; auto.
Qed.
End RankProof.


(* ---------- the model's own sort, the node count, loop repair ---------- *)
Section RankMore.
Variable ds : list nat.
Notation n := (size ds).
Notation dsf := (dsf ds).
Hypothesis Hwf : wf ds.
Local Open Scope Z_scope.

Lemma insert_rk_In rk x l y : In y (insert_rk rk x l) <-> y = x \/ In y l.
Proof. induction l as [|h t IH]; simpl; [intuition|].
  destruct (rk x <? rk h); simpl; rewrite ?IH; intuition. Qed.

Lemma insert_rk_NoDup rk x l : ~ In x l -> NoDup l -> NoDup (insert_rk rk x l).
Proof.
  induction l as [|h t IH]; simpl; intros Hx Hnd; [constructor; auto|].
  destruct (rk x <? rk h); [constructor; auto|].
  inversion Hnd; subst. constructor.
  - rewrite insert_rk_In. intros [->|H]; [apply Hx; left; auto|contradiction].
  - apply IH; auto.
Qed.

Lemma insert_rk_sorted (rk : nat -> Z) x l :
  StronglySorted (fun a b => rk a <= rk b) l -> StronglySorted (fun a b => rk a <= rk b) (insert_rk rk x l).
Proof.
  induction 1 as [|h t Hs IH Hf]; simpl; [repeat constructor|].
  destruct (Z.ltb_spec (rk x) (rk h)) as [Hlt|Hge].
  - constructor; [constructor; auto|]. constructor; [lia|].
    apply Forall_forall. intros y Hy. rewrite Forall_forall in Hf. specialize (Hf y Hy). simpl in *. lia.
  - constructor; auto. apply Forall_forall. intros y Hy. apply insert_rk_In in Hy.
    destruct Hy as [->|Hy]; [lia|]. rewrite Forall_forall in Hf. auto.
Qed.

Lemma sorted_weaken {A} (R R' : A -> A -> Prop) l : (forall a b, R a b -> R' a b) ->
  StronglySorted R l -> StronglySorted R' l.
Proof. intros H. induction 1 as [|h t Hs IH Hf]; constructor; auto.
  rewrite Forall_forall in *. auto. Qed.

Lemma isort_In rk l y : In y (fold_right (insert_rk rk) [] l) <-> In y l.
Proof. induction l as [|h t IH]; simpl; [tauto|]. rewrite insert_rk_In, IH. intuition. Qed.

Lemma isort_NoDup rk l : NoDup l -> NoDup (fold_right (insert_rk rk) [] l).
Proof. induction 1 as [|x l Hx Hl IH]; simpl; [constructor|]. apply insert_rk_NoDup; auto.
  rewrite isort_In. auto. Qed.

Lemma isort_sorted (rk : nat -> Z) l : StronglySorted (fun a b => rk a <= rk b) (fold_right (insert_rk rk) [] l).
Proof. induction l as [|h t IH]; simpl; [constructor|]. apply insert_rk_sorted. auto. Qed.

Theorem order_sort_topo : topo ds (order_sort ds) /\ (forall i, In i (order_sort ds) <-> drains ds i).
Proof.
  apply (sort_topo ds Hwf); unfold order_sort.
  - apply isort_NoDup. apply NoDup_filter. apply seq_NoDup.
  - intros i. rewrite isort_In, filter_In, in_seq, Z.geb_le. lia.
  - apply (sorted_weaken (fun a b => nth a (fst (rank ds)) RU <= nth b (fst (rank ds)) RU)).
    + intros a b H. unfold le_r, rkn. lia.
    + apply isort_sorted.
Qed.

(* node count returned by core.rank = number of ranked cells *)
Definition countp (ranks : list Z) : nat := length (filter (fun v => v >=? 0) ranks).

Lemma countp_upd ranks c v : (c < length ranks)%nat -> nth c ranks RU < 0 ->
  countp (upd ranks c v) = (countp ranks + (if v >=? 0 then 1 else 0))%nat.
Proof.
  revert c. induction ranks as [|h t IH]; intros [|c] Hc Hneg; simpl in *; try lia.
  - unfold countp. simpl. destruct (Z.geb_spec h 0); [lia|]. destruct (v >=? 0); simpl; lia.
  - unfold countp in *. simpl. specialize (IH c ltac:(lia) Hneg).
    destruct (h >=? 0); simpl; rewrite IH; lia.
Qed.

Lemma assign_count stack : forall ranks r, NoDup stack -> r >= 0 ->
  (forall c, In c stack -> (c < length ranks)%nat /\ nth c ranks RU < 0) ->
  countp (assign ranks stack r) = (countp ranks + length stack)%nat.
Proof.
  induction stack as [|a t IH]; intros ranks r Hnd Hr Hst; simpl; [lia|].
  inversion Hnd; subst. destruct (Hst a (or_introl eq_refl)) as [Ha1 Ha2].
  rewrite IH; auto; [|lia|].
  - rewrite countp_upd by auto. destruct (Z.geb_spec r 0); lia.
  - intros c Hc. rewrite upd_length. destruct (Hst c (or_intror Hc)). split; auto.
    rewrite nth_upd_neq; auto. intros ->. contradiction.
Qed.

Lemma mark_count stack : forall ranks, NoDup stack ->
  (forall c, In c stack -> (c < length ranks)%nat /\ nth c ranks RU < 0) ->
  countp (mark ranks stack) = countp ranks.
Proof.
  induction stack as [|a t IH]; intros ranks Hnd Hst; simpl; auto.
  inversion Hnd; subst. destruct (Hst a (or_introl eq_refl)) as [Ha1 Ha2].
  rewrite IH; auto.
  - rewrite countp_upd by auto. simpl. lia.
  - intros c Hc. rewrite upd_length. destruct (Hst c (or_intror Hc)). split; auto.
    rewrite nth_upd_neq; auto. intros ->. contradiction.
Qed.

Lemma walk_count fuel : forall ranks stack cur, length ranks = n -> NoDup stack -> In cur stack ->
  (forall c, In c stack -> valid ds c /\ nth c ranks RU < 0) ->
  countp (fst (walk ds fuel ranks stack cur)) = (countp ranks + snd (walk ds fuel ranks stack cur))%nat.
Proof.
  induction fuel as [|f IH]; intros ranks stack cur Hl Hnd Hcur Hst; cbn [walk]; unfold walk_stop;
    (assert (Hst' : forall c, In c stack -> (c < length ranks)%nat /\ nth c ranks RU < 0)
       by (intros c Hc; destruct (Hst c Hc) as [[H _] H2]; rewrite Hl; auto));
    destruct (Z.geb_spec (nth (dsf cur) ranks RU) 0) as [Hge|Hlt]; cbn [fst snd];
    try (apply assign_count; auto; lia);
    destruct (Nat.eqb_spec (dsf cur) cur) as [Ep|Hnp]; cbn [fst snd];
    try (apply assign_count; auto; lia);
    destruct ((nth (dsf cur) ranks RU =? -1) || memb (dsf cur) stack) eqn:El; cbn [fst snd];
    try (rewrite mark_count; auto; lia); try lia.
  apply orb_false_iff in El. destruct El as [_ Em]. apply memb_false in Em.
  apply IH; auto.
  - constructor; auto.
  - left; auto.
  - intros c [<-|Hc]; [|apply Hst; auto]. split; [apply Hwf; apply Hst; auto|lia].
Qed.

Theorem nnodes_spec : snd (rank ds) = countp (fst (rank ds)).
Proof.
  unfold rank.
  assert (H : forall k a st, (a + k <= n)%nat -> oinv ds st a -> snd st = countp (fst st) ->
              let st' := fold_left (rank_outer ds) (seq a k) st in snd st' = countp (fst st')).
  { induction k as [|k IH]; intros a st Hk Hr Hc; simpl; auto.
    apply IH; [lia| |].
    - apply outer_step; auto. lia.
    - destruct Hr as [Hr _]. destruct st as [ranks cnt]. unfold rank_outer. simpl in *.
      destruct (validb ds a) eqn:Ev; simpl; auto.
      destruct (Z.eqb_spec (nth a ranks RU) RU) as [E|E]; simpl; auto.
      pose proof (walk_count n ranks [a] a) as Hw.
      destruct (walk ds n ranks [a] a) as [r' c] eqn:Ew. simpl in *. rewrite Hw; auto; try lia.
      + destruct Hr; auto.
      + constructor; [intros []|constructor].
      + intros c0 [<-|[]]. split; [apply validb_valid; auto|rewrite E; unfold RU; lia]. }
  apply (H n 0%nat (repeat RU n, 0%nat)); [lia| |].
  - split; [apply rinv_init|intros j Hj; lia].
  - simpl. unfold countp. generalize n. intros m. induction m as [|m IH]; simpl; auto.
Qed.
End RankMore.

(* ---------- add_pits / repair_loops ---------- *)
Lemma add_pits_length idxs : forall ds, length (add_pits ds idxs) = length ds.
Proof. unfold add_pits. induction idxs as [|i t IH]; intros ds; simpl; auto. rewrite IH. apply upd_length. Qed.

Lemma add_pits_nth idxs : forall ds j d,
  nth j (add_pits ds idxs) d = if in_dec Nat.eq_dec j idxs then (if j <? length ds then j else nth j ds d) else nth j ds d.
Proof.
  unfold add_pits. induction idxs as [|i t IH]; intros ds j d; simpl; auto.
  rewrite IH. rewrite upd_length.
  destruct (Nat.eq_dec i j) as [->|Hne].
  - assert (E : nth j (upd ds j j) d = if j <? length ds then j else nth j ds d).
    { destruct (Nat.ltb_spec j (length ds)); [apply nth_upd_eq; auto|rewrite upd_oob; auto]. }
    destruct (in_dec Nat.eq_dec j t); auto.
    destruct (Nat.ltb_spec j (length ds)); auto; try (rewrite upd_oob; auto).
  - rewrite (nth_upd_neq ds j i) by auto.
    destruct (in_dec Nat.eq_dec j t); auto.
Qed.

Section Repair.
Variable ds : list nat.
Notation n := (size ds).
Hypothesis Hwf : wf ds.
Let ds' := repair_loops ds.

Lemma repair_size : size ds' = n.
Proof. unfold ds', repair_loops, size. apply add_pits_length. Qed.

Lemma repair_dsf i : dsf ds' i = if in_dec Nat.eq_dec i (loop_indices ds) then i else dsf ds i.
Proof.
  unfold dsf. rewrite repair_size. unfold ds', repair_loops. rewrite add_pits_nth.
  destruct (in_dec Nat.eq_dec i (loop_indices ds)) as [H|H]; auto.
  apply loops_exact in H; auto. destruct H as [[Hi _] _]. unfold size in Hi.
  apply Nat.ltb_lt in Hi. rewrite Hi. reflexivity.
Qed.

Lemma repair_keep i : valid ds i -> drains ds i -> dsf ds' i = dsf ds i.
Proof. intros Hv Hd. rewrite repair_dsf. destruct (in_dec Nat.eq_dec i (loop_indices ds)) as [H|H]; auto.
  apply loops_exact in H; auto. tauto. Qed.

Lemma repair_pit i : valid ds i -> ~ drains ds i -> dsf ds' i = i.
Proof. intros Hv Hd. rewrite repair_dsf. destruct (in_dec Nat.eq_dec i (loop_indices ds)) as [H|H]; auto.
  exfalso. apply H. apply loops_exact; auto. Qed.

Lemma repair_nodata i : ~ valid ds i -> dsf ds' i = dsf ds i.
Proof. intros Hv. rewrite repair_dsf. destruct (in_dec Nat.eq_dec i (loop_indices ds)) as [H|H]; auto.
  apply loops_exact in H; auto. tauto. Qed.

Lemma repair_valid i : valid ds' i <-> valid ds i.
Proof.
  unfold valid. rewrite repair_size, repair_dsf.
  destruct (in_dec Nat.eq_dec i (loop_indices ds)) as [H|H]; [|tauto].
  apply loops_exact in H; auto. destruct H as [[H1 H2] _]. tauto.
Qed.

(* repairing loops yields a valid (loop-free, closed) network in which every cell that
   drained before keeps its link; exactly the non-draining cells become pits; nodata stays *)
Theorem repair_spec :
  size ds' = n /\ (forall i, valid ds' i <-> valid ds i) /\
  (forall i, valid ds i -> drains ds i -> dsf ds' i = dsf ds i) /\
  (forall i, valid ds i -> ~ drains ds i -> dsf ds' i = i) /\
  wf ds' /\ loopfree ds'.
Proof.
  split; [apply repair_size|]. split; [apply repair_valid|]. split; [apply repair_keep|]. split; [apply repair_pit|].
  assert (Hwf' : wf ds').
  { intros i Hv. apply repair_valid in Hv. apply repair_valid.
    rewrite repair_dsf. destruct (in_dec Nat.eq_dec i (loop_indices ds)); auto. }
  split; auto.
  intros i Hv. apply repair_valid in Hv.
  destruct (rank_cases ds Hwf i Hv) as [(k & Hk & _)|[Hnd _]].
  - clear -Hk Hv Hwf Hwf'. revert i Hv Hk. induction k as [|k IH]; intros i Hv Hk.
    + exists 0%nat. simpl. split; [apply repair_valid; auto|]. rewrite repair_keep; auto.
      * destruct Hk; auto.
      * apply (steps_drains ds Hwf i 0); auto.
    + assert (Hd : drains ds i) by (apply (steps_drains ds Hwf i (S k)); auto).
      assert (Hnp : dsf ds i <> i) by (destruct Hk as [_ H]; apply (H 0%nat); lia).
      assert (Hk' : steps ds (dsf ds i) k).
      { destruct Hk as [H1 H2]. split; [exact H1|]. intros m Hm. apply (H2 (S m)). lia. }
      destruct (IH (dsf ds i) (Hwf i Hv) Hk') as [k' Hk2].
      exists (S k'). simpl. rewrite repair_keep; auto.
  - exists 0%nat. simpl. split; [apply repair_valid; auto|]. apply repair_pit; auto.
Qed.
End Repair.
