(* The invariant of the instrumented fold of basins.subbasins_area over a LEVEL order, and its
   consequence: every returned outlet that is not a pit keeps an own area above the threshold. *)
From Coq Require Import List Arith ZArith Lia Bool Sorted.
Import ListNotations.
From PF Require Import Arr Net Subbas AreaOwnDefs.
Local Open Scope Z_scope.

Lemma NoDup_app_disj2 {A} (l u : list A) :
  NoDup l -> NoDup u -> (forall c, In c l -> ~ In c u) -> NoDup (l ++ u).
Proof.
  intros Hl Hu Hd. induction Hl as [|x l Hx Hl IH]; cbn [app]; auto.
  constructor.
  - intros H. apply in_app_or in H. destruct H as [H|H]; [contradiction|]. apply (Hd x); [left; reflexivity|exact H].
  - apply IH. intros c Hc. apply Hd. right. exact Hc.
Qed.

Section AreaInv.
Variables (ds sq main : list nat) (uparea : list Z) (amin : Z) (lev : nat -> nat).
Notation n := (length ds).
Notation a c := (nth c uparea 0).
Notation dsf := (dsf ds).
Notation mo d := (nth d main n).
Notation asum := (fsum (fun c => nth c uparea 0)).

Definition child (c d : nat) : Prop := (c < n)%nat /\ dsf c = d /\ c <> d.

Hypothesis Ht : topo ds sq.
Hypothesis Hcl : forall c, (c < n)%nat -> In (dsf c) sq -> In c sq.
Hypothesis Hlen : length uparea = n.
Hypothesis Hacc : forall d l, In d sq -> NoDup l -> (forall c, In c l -> child c d) ->
  zsum (map (fun c => nth c uparea 0) l) < a d.
Hypothesis Hmain : forall d c, In d sq -> child c d -> mo d = c \/ (child (mo d) d /\ a c <= a (mo d)).
Hypothesis Hlev : forall c, In c sq -> dsf c <> c -> lev c = S (lev (dsf c)).
Hypothesis Hsorted : StronglySorted (fun x y => (lev x <= lev y)%nat) sq.

(* predicates of the three sums *)
Definition tribp (d y : nat) : bool := (dsf y =? d)%nat && negb (y =? d)%nat && negb (y =? mo d)%nat.
Definition kidp (d y : nat) : bool := (dsf y =? d)%nat && negb (y =? d)%nat.
Definition inp (lab : list nat) (x y : nat) : bool := negb (dsf y =? y)%nat && (nth (dsf y) lab 0%nat =? x)%nat.

Lemma sq_valid x : In x sq -> (x < n)%nat /\ (dsf x < n)%nat.
Proof. intros H. exact (topo_valid ds sq x Ht H). Qed.

Lemma a_pos d : In d sq -> 0 < a d.
Proof. intros H. apply (Hacc d [] H); [constructor|intros c []]. Qed.

Lemma child_sq c d : In d sq -> child c d -> In c sq.
Proof. intros Hd (Hc & E & _). apply Hcl; auto. rewrite E. exact Hd. Qed.

Lemma a_mono c d : In d sq -> child c d -> a c < a d.
Proof.
  intros Hd Hc. assert (H := Hacc d [c] Hd). cbn [map zsum fold_right] in H.
  assert (a c + 0 < a d); [|lia]. apply H; [constructor; [intros []|constructor]|].
  intros c' [<-|[]]. exact Hc.
Qed.

Lemma a_two c1 c2 d : In d sq -> child c1 d -> child c2 d -> c1 <> c2 -> a c1 + a c2 < a d.
Proof.
  intros Hd H1 H2 Hne. assert (H := Hacc d [c1; c2] Hd). cbn [map zsum fold_right] in H.
  assert (a c1 + (a c2 + 0) < a d); [|lia]. apply H.
  - constructor; [intros [E|[]]; auto|constructor; [intros []|constructor]].
  - intros c' [<-|[<-|[]]]; assumption.
Qed.

Lemma acc_bound d g extra os : In d sq -> NoDup os -> NoDup extra ->
  (forall c, In c extra -> child c d) ->
  (forall c, In c extra -> In c os -> g c = false) ->
  (forall y, In y os -> g y = true -> child y d) ->
  zsum (map (fun c => nth c uparea 0) extra) + asum g os < a d.
Proof.
  intros Hd Hnd Hne Hex Hdis Hg. unfold fsum. rewrite <- zsum_app, <- map_app. apply Hacc; auto.
  - apply NoDup_app_disj2; auto; [apply NoDup_filter; exact Hnd|].
    intros c Hc Hf. apply filter_In in Hf. destruct Hf as [Hf1 Hf2]. rewrite (Hdis c Hc Hf1) in Hf2. discriminate.
  - intros c Hc. apply in_app_or in Hc. destruct Hc as [Hc|Hc]; [apply Hex; exact Hc|].
    apply filter_In in Hc. destruct Hc as [Hc1 Hc2]. apply Hg; auto.
Qed.

Lemma kidp_child d y : In y sq -> kidp d y = true -> child y d.
Proof.
  intros Hy H. unfold kidp in H. apply andb_true_iff in H. destruct H as [H1 H2].
  apply Nat.eqb_eq in H1. apply negb_true_iff, Nat.eqb_neq in H2.
  split; [apply (sq_valid y Hy)|]. split; auto.
Qed.

Lemma tribp_kidp d y : tribp d y = true -> kidp d y = true /\ y <> mo d.
Proof.
  unfold tribp, kidp. intros H. apply andb_true_iff in H. destruct H as [H1 H2].
  split; auto. apply negb_true_iff, Nat.eqb_neq in H2. exact H2.
Qed.

(* ---------- the invariant ---------- *)
Record Inv (pre : list nat) (U : list Z) (os lab : list nat) (own : list Z) : Prop := {
  iv_lenU : length U = n;
  iv_lenL : length lab = n;
  iv_lenW : length own = n;
  iv_nd : NoDup os;
  iv_sub : forall x, In x os -> In x pre;
  iv_pit : forall x, In x pre -> dsf x = x -> In x os;
  iv_lab : forall c, In c pre ->
     In (nth c lab 0%nat) os /\ (In c os -> nth c lab 0%nat = c) /\
     (~ In c os -> nth c lab 0%nat = nth (dsf c) lab 0%nat);
  iv_lablev : forall c, In c pre -> nth c lab 0%nat = c \/ (lev (nth c lab 0%nat) < lev c)%nat;
  iv_own : forall x, In x os -> nth x own 0 = a x - asum (inp lab x) os;
  iv_I1 : forall d, In d sq -> a d - asum (tribp d) os <= nth d U 0;
  iv_I2 : forall t, In t pre -> dsf t <> t -> amin < a t -> mo (dsf t) <> t -> In t os;
  iv_I4 : forall x, In x os -> dsf x = x \/ (amin < a x /\ (mo (dsf x) <> x \/ a (dsf x) - a x <= amin));
  iv_I3 : forall d c, In d pre -> child c d -> ~ In c pre -> amin < a c ->
     nth d U 0 <= nth (nth d lab 0%nat) own 0;
  iv_I8 : forall d c, In d pre -> child c d -> ~ In c pre -> amin < a c ->
     a d - asum (kidp d) os <= nth (nth d lab 0%nat) own 0;
  iv_I7 : forall c, In c sq -> ~ In c pre ->
     nth c U 0 = a c \/
     (In (dsf c) pre /\ mo (dsf c) = c /\ nth c U 0 = nth (dsf c) U 0 /\
      exists t, In t pre /\ dsf t = dsf c /\ t <> dsf c);
  iv_I6 : forall x, In x os -> dsf x <> x -> amin < nth x own 0
}.

Lemma Inv_init : Inv [] uparea [] (repeat 0%nat n) (repeat 0 n).
Proof.
  constructor; try (intros; match goal with H : In _ [] |- _ => destruct H end).
  - exact Hlen.
  - apply repeat_length.
  - apply repeat_length.
  - constructor.
  - intros d Hd. rewrite fsum_nil. lia.
  - intros c _ _. left. reflexivity.
Qed.

(* ---------- one step ---------- *)
Section OneStep.
Variables (pre post : list nat) (idx : nat).
Hypothesis Hsq : sq = pre ++ idx :: post.
Variables (U : list Z) (os lab : list nat) (own : list Z).
Hypothesis HI : Inv pre U os lab own.
Notation u d := (nth d U 0).
Notation lb c := (nth c lab 0%nat).
Notation ow x := (nth x own 0).

Lemma idx_sq : In idx sq.
Proof. rewrite Hsq. apply in_or_app. right. left. reflexivity. Qed.

Lemma pre_sq y : In y pre -> In y sq.
Proof. intros H. rewrite Hsq. apply in_or_app. left. exact H. Qed.

Lemma sq_split c : In c sq -> In c pre \/ c = idx \/ In c post.
Proof. rewrite Hsq. intros H. apply in_app_or in H. destruct H as [H|[H|H]]; auto. Qed.

Lemma topo_pre1 : topo ds (pre ++ [idx]).
Proof. apply (topo_app_l ds (pre ++ [idx]) post). rewrite <- app_assoc. cbn [app]. rewrite <- Hsq. exact Ht. Qed.

Lemma topo_pre : topo ds pre.
Proof. apply (topo_app_l ds pre [idx]). exact topo_pre1. Qed.

Lemma idx_notpre : ~ In idx pre.
Proof. destruct (topo_last ds pre idx topo_pre1) as (_ & H & _). exact H. Qed.

Lemma idx_ds : dsf idx = idx \/ In (dsf idx) pre.
Proof. destruct (topo_last ds pre idx topo_pre1) as (_ & _ & H). exact H. Qed.

Lemma idx_lt : (idx < n)%nat /\ (dsf idx < n)%nat.
Proof. apply sq_valid. exact idx_sq. Qed.

Lemma pre_closed y : In y pre -> In (dsf y) pre.
Proof. intros H. apply (topo_closed ds pre y topo_pre H). Qed.

Lemma pre_ne_idx y : In y pre -> y <> idx.
Proof. intros H E. subst y. exact (idx_notpre H). Qed.

Lemma lev_pre y : In y pre -> (lev y <= lev idx)%nat.
Proof.
  intros H. rewrite Hsq in Hsorted. apply (sorted_app_le lev pre (idx :: post) Hsorted); auto. left. reflexivity.
Qed.

Lemma lev_post c : In c sq -> ~ In c pre -> (lev idx <= lev c)%nat.
Proof.
  intros H Hn. destruct (sq_split c H) as [H1|[->|H1]]; [contradiction|lia|].
  assert (Hs : StronglySorted (fun x y => (lev x <= lev y)%nat) ((pre ++ [idx]) ++ post)).
  { rewrite <- app_assoc. cbn [app]. rewrite <- Hsq. exact Hsorted. }
  apply (sorted_app_le lev (pre ++ [idx]) post Hs); auto. apply in_or_app. right. left. reflexivity.
Qed.

Lemma os_pre x : In x os -> In x pre.
Proof. apply (iv_sub _ _ _ _ _ HI). Qed.

Lemma os_sq x : In x os -> In x sq.
Proof. intros H. apply pre_sq, os_pre, H. Qed.

Lemma idx_notos : ~ In idx os.
Proof. intros H. exact (idx_notpre (os_pre idx H)). Qed.

Lemma os_pos y : In y os -> 0 <= a y.
Proof. intros H. assert (H1 := a_pos y (os_sq y H)). lia. Qed.

Lemma lab_os c : In c pre -> In (lb c) os.
Proof. intros H. destruct (iv_lab _ _ _ _ _ HI c H) as (H1 & _). exact H1. Qed.

Lemma lab_in c : In c pre -> In c os -> lb c = c.
Proof. intros H. destruct (iv_lab _ _ _ _ _ HI c H) as (_ & H1 & _). exact H1. Qed.

Lemma lab_out c : In c pre -> ~ In c os -> lb c = lb (dsf c).
Proof. intros H. destruct (iv_lab _ _ _ _ _ HI c H) as (_ & _ & H1). exact H1. Qed.

Lemma lab_ne_idx c : In c pre -> lb c <> idx.
Proof. intros H E. apply idx_notos. rewrite <- E. apply lab_os. exact H. Qed.

Lemma notos_nonpit c : In c pre -> ~ In c os -> dsf c <> c.
Proof. intros H Hn E. apply Hn. apply (iv_pit _ _ _ _ _ HI c H E). Qed.

(* big cells of the processed part with the same outlet and the same level coincide *)
Lemma uniq k : forall d1 d2, lev d1 = k -> lev d2 = k -> In d1 pre -> In d2 pre ->
  amin < a d1 -> amin < a d2 -> lb d1 = lb d2 -> d1 = d2.
Proof.
  induction k as [|k IH]; intros d1 d2 L1 L2 P1 P2 B1 B2 E.
  - destruct (in_dec Nat.eq_dec d1 os) as [O1|O1]; destruct (in_dec Nat.eq_dec d2 os) as [O2|O2].
    + rewrite (lab_in d1 P1 O1), (lab_in d2 P2 O2) in E. exact E.
    + rewrite (lab_in d1 P1 O1) in E. destruct (iv_lablev _ _ _ _ _ HI d2 P2) as [H|H]; [congruence|].
      rewrite <- E in H. lia.
    + rewrite (lab_in d2 P2 O2) in E. destruct (iv_lablev _ _ _ _ _ HI d1 P1) as [H|H]; [congruence|].
      rewrite E in H. lia.
    + exfalso. assert (H := Hlev d1 (pre_sq d1 P1) (notos_nonpit d1 P1 O1)). lia.
  - destruct (in_dec Nat.eq_dec d1 os) as [O1|O1]; destruct (in_dec Nat.eq_dec d2 os) as [O2|O2].
    + rewrite (lab_in d1 P1 O1), (lab_in d2 P2 O2) in E. exact E.
    + rewrite (lab_in d1 P1 O1) in E. destruct (iv_lablev _ _ _ _ _ HI d2 P2) as [H|H]; [congruence|].
      rewrite <- E in H. lia.
    + rewrite (lab_in d2 P2 O2) in E. destruct (iv_lablev _ _ _ _ _ HI d1 P1) as [H|H]; [congruence|].
      rewrite E in H. lia.
    + assert (N1 := notos_nonpit d1 P1 O1). assert (N2 := notos_nonpit d2 P2 O2).
      assert (S1 := Hlev d1 (pre_sq d1 P1) N1). assert (S2 := Hlev d2 (pre_sq d2 P2) N2).
      assert (Q1 := pre_closed d1 P1). assert (Q2 := pre_closed d2 P2).
      assert (C1 : child d1 (dsf d1)).
      { split; [apply (sq_valid d1 (pre_sq d1 P1))|]. split; auto. }
      assert (C2 : child d2 (dsf d2)).
      { split; [apply (sq_valid d2 (pre_sq d2 P2))|]. split; auto. }
      assert (M1 := a_mono d1 (dsf d1) (pre_sq _ Q1) C1). assert (M2 := a_mono d2 (dsf d2) (pre_sq _ Q2) C2).
      assert (Eq : dsf d1 = dsf d2).
      { apply IH; auto; try lia. rewrite <- (lab_out d1 P1 O1), <- (lab_out d2 P2 O2). exact E. }
      destruct (Nat.eq_dec d1 d2) as [|Hne]; auto. exfalso.
      destruct (Nat.eq_dec (mo (dsf d1)) d1) as [Em|Em].
      * apply O2. apply (iv_I2 _ _ _ _ _ HI d2 P2 N2 B2). rewrite <- Eq. congruence.
      * apply O1. apply (iv_I2 _ _ _ _ _ HI d1 P1 N1 B1). exact Em.
Qed.

(* ... hence a big processed cell of the sub-basin of p = ds idx that still has an unprocessed child is p or a
   child of p that is not an outlet *)
Lemma uniq2 d c : dsf idx <> idx -> amin < a idx -> In d pre -> child c d -> ~ In c pre -> amin < a c ->
  lb d = lb (dsf idx) -> d = dsf idx \/ (child d (dsf idx) /\ ~ In d os).
Proof.
  intros Np Bi Pd Cc Nc Bc E.
  assert (Pp : In (dsf idx) pre) by (destruct idx_ds as [H|H]; [contradiction|exact H]).
  assert (Sd : In d sq) by (apply pre_sq; exact Pd).
  assert (Sc : In c sq) by (apply (child_sq c d Sd Cc)).
  assert (Lc : lev c = S (lev d)).
  { destruct Cc as (_ & Ec & Hne). rewrite <- Ec. apply Hlev; auto. congruence. }
  assert (Li : lev idx = S (lev (dsf idx))) by (apply Hlev; [exact idx_sq|exact Np]).
  assert (G1 := lev_post c Sc Nc). assert (G2 := lev_pre d Pd).
  assert (Bd : amin < a d) by (assert (H := a_mono c d Sd Cc); lia).
  assert (Ci : child idx (dsf idx)) by (split; [apply idx_lt|split; auto]).
  assert (Bp : amin < a (dsf idx)) by (assert (H := a_mono idx (dsf idx) (pre_sq _ Pp) Ci); lia).
  destruct (Nat.eq_dec (lev d) (lev (dsf idx))) as [El|Nl].
  - left. apply (uniq (lev d)); auto.
  - right. assert (El : lev d = S (lev (dsf idx))) by lia.
    assert (Od : ~ In d os).
    { intros Od. rewrite (lab_in d Pd Od) in E.
      destruct (iv_lablev _ _ _ _ _ HI (dsf idx) Pp) as [H|H]; [rewrite H in E; rewrite E in El; lia|].
      rewrite <- E in H. lia. }
    split; auto.
    assert (Nd := notos_nonpit d Pd Od).
    assert (Sdd := Hlev d Sd Nd). assert (Qd := pre_closed d Pd).
    assert (Cd : child d (dsf d)) by (split; [apply (sq_valid d Sd)|split; auto]).
    assert (Md := a_mono d (dsf d) (pre_sq _ Qd) Cd).
    assert (Eq : dsf d = dsf idx).
    { apply (uniq (lev (dsf d))); auto; try lia. rewrite <- (lab_out d Pd Od). exact E. }
    rewrite <- Eq. exact Cd.
Qed.


(* ---------- bookkeeping shared by the five cases ---------- *)
Lemma in_pre1 y : In y (pre ++ [idx]) -> In y pre \/ y = idx.
Proof. intros H. apply in_app_or in H. destruct H as [H|[H|[]]]; auto. Qed.

Lemma notin_pre1 c : ~ In c (pre ++ [idx]) -> ~ In c pre /\ c <> idx.
Proof. intros H. split; [intros H1; apply H, in_or_app; left; exact H1|intros ->; apply H, in_or_app; right; left; reflexivity]. Qed.

Lemma pre1_l y : In y pre -> In y (pre ++ [idx]).
Proof. intros H. apply in_or_app. left. exact H. Qed.

Lemma pre1_r : In idx (pre ++ [idx]).
Proof. apply in_or_app. right. left. reflexivity. Qed.

Lemma in_os1 y : In y (os ++ [idx]) -> In y os \/ y = idx.
Proof. intros H. apply in_app_or in H. destruct H as [H|[H|[]]]; auto. Qed.

Lemma os_ne_idx y : In y os -> y <> idx.
Proof. intros H E. subst y. exact (idx_notos H). Qed.

Lemma lenL : length lab = n. Proof. exact (iv_lenL _ _ _ _ _ HI). Qed.
Lemma lenW : length own = n. Proof. exact (iv_lenW _ _ _ _ _ HI). Qed.
Lemma lenU : length U = n. Proof. exact (iv_lenU _ _ _ _ _ HI). Qed.

Lemma os1_pos y : In y (os ++ [idx]) -> 0 <= a y.
Proof. intros H. destruct (in_os1 y H) as [H1| ->]; [apply os_pos; exact H1|]. assert (H2 := a_pos idx idx_sq). lia. Qed.

Lemma cut_nd : NoDup (os ++ [idx]).
Proof. apply NoDup_snoc; [exact (iv_nd _ _ _ _ _ HI)|exact idx_notos]. Qed.

Lemma cut_sub x : In x (os ++ [idx]) -> In x (pre ++ [idx]).
Proof. intros H. destruct (in_os1 x H) as [H1| ->]; [apply pre1_l, os_pre, H1|exact pre1_r]. Qed.

Lemma cut_pitf x : In x (pre ++ [idx]) -> dsf x = x -> In x (os ++ [idx]).
Proof.
  intros H E. destruct (in_pre1 x H) as [H1| ->]; apply in_or_app; [left; apply (iv_pit _ _ _ _ _ HI x H1 E)|right; left; reflexivity].
Qed.

Lemma cut_I2 t : In t (pre ++ [idx]) -> dsf t <> t -> amin < a t -> mo (dsf t) <> t -> In t (os ++ [idx]).
Proof.
  intros H N B M. destruct (in_pre1 t H) as [H1| ->]; apply in_or_app; [left; apply (iv_I2 _ _ _ _ _ HI t H1 N B M)|right; left; reflexivity].
Qed.

Lemma cut_I4 : (dsf idx = idx \/ (amin < a idx /\ (mo (dsf idx) <> idx \/ a (dsf idx) - a idx <= amin))) ->
  forall x, In x (os ++ [idx]) -> dsf x = x \/ (amin < a x /\ (mo (dsf x) <> x \/ a (dsf x) - a x <= amin)).
Proof. intros Hi x H. destruct (in_os1 x H) as [H1| ->]; [apply (iv_I4 _ _ _ _ _ HI x H1)|exact Hi]. Qed.

(* labels when idx becomes an outlet *)
Lemma cut_lab c : In c (pre ++ [idx]) ->
  In (nth c (upd lab idx idx) 0%nat) (os ++ [idx]) /\
  (In c (os ++ [idx]) -> nth c (upd lab idx idx) 0%nat = c) /\
  (~ In c (os ++ [idx]) -> nth c (upd lab idx idx) 0%nat = nth (dsf c) (upd lab idx idx) 0%nat).
Proof.
  intros H. destruct (in_pre1 c H) as [H1| ->].
  - assert (Hne := pre_ne_idx c H1). rewrite (nth_upd_neq lab c idx idx 0%nat Hne). split; [|split].
    + apply in_or_app. left. apply lab_os. exact H1.
    + intros H2. destruct (in_os1 c H2) as [H3|H3]; [apply lab_in; auto|contradiction].
    + intros H2. rewrite (nth_upd_neq lab (dsf c) idx idx 0%nat (pre_ne_idx _ (pre_closed c H1))).
      apply lab_out; auto. intros H3. apply H2, in_or_app. left. exact H3.
  - rewrite (nth_upd_eq lab idx idx 0%nat) by (rewrite lenL; apply idx_lt). split; [|split].
    + apply in_or_app. right. left. reflexivity.
    + reflexivity.
    + intros H2. exfalso. apply H2, in_or_app. right. left. reflexivity.
Qed.

Lemma cut_lablev c : In c (pre ++ [idx]) ->
  nth c (upd lab idx idx) 0%nat = c \/ (lev (nth c (upd lab idx idx) 0%nat) < lev c)%nat.
Proof.
  intros H. destruct (in_pre1 c H) as [H1| ->].
  - rewrite (nth_upd_neq lab c idx idx 0%nat (pre_ne_idx c H1)). apply (iv_lablev _ _ _ _ _ HI c H1).
  - left. apply nth_upd_eq. rewrite lenL. apply idx_lt.
Qed.

(* labels when idx joins the sub-basin of its downstream cell *)
Lemma keep_lab c : dsf idx <> idx -> In c (pre ++ [idx]) ->
  In (nth c (upd lab idx (lb (dsf idx))) 0%nat) os /\
  (In c os -> nth c (upd lab idx (lb (dsf idx))) 0%nat = c) /\
  (~ In c os -> nth c (upd lab idx (lb (dsf idx))) 0%nat = nth (dsf c) (upd lab idx (lb (dsf idx))) 0%nat).
Proof.
  intros Np H. assert (Pp : In (dsf idx) pre) by (destruct idx_ds as [H0|H0]; [contradiction|exact H0]).
  destruct (in_pre1 c H) as [H1| ->].
  - assert (Hne := pre_ne_idx c H1). rewrite (nth_upd_neq lab c idx _ 0%nat Hne). split; [|split].
    + apply lab_os. exact H1.
    + apply lab_in. exact H1.
    + intros H2. rewrite (nth_upd_neq lab (dsf c) idx _ 0%nat (pre_ne_idx _ (pre_closed c H1))).
      apply lab_out; auto.
  - rewrite (nth_upd_eq lab idx _ 0%nat) by (rewrite lenL; apply idx_lt). split; [|split].
    + apply lab_os. exact Pp.
    + intros H2. exfalso. exact (idx_notos H2).
    + intros _. rewrite (nth_upd_neq lab (dsf idx) idx _ 0%nat Np). reflexivity.
Qed.

Lemma keep_lablev c : dsf idx <> idx -> In c (pre ++ [idx]) ->
  nth c (upd lab idx (lb (dsf idx))) 0%nat = c \/ (lev (nth c (upd lab idx (lb (dsf idx))) 0%nat) < lev c)%nat.
Proof.
  intros Np H. assert (Pp : In (dsf idx) pre) by (destruct idx_ds as [H0|H0]; [contradiction|exact H0]).
  destruct (in_pre1 c H) as [H1| ->].
  - rewrite (nth_upd_neq lab c idx _ 0%nat (pre_ne_idx c H1)). apply (iv_lablev _ _ _ _ _ HI c H1).
  - right. rewrite (nth_upd_eq lab idx _ 0%nat) by (rewrite lenL; apply idx_lt).
    assert (Li := Hlev idx idx_sq Np).
    destruct (iv_lablev _ _ _ _ _ HI (dsf idx) Pp) as [E|E]; [rewrite E|]; lia.
Qed.

(* own areas *)
Lemma inp_upd_old v x y : In y os -> inp (upd lab idx v) x y = inp lab x y.
Proof.
  intros H. unfold inp. rewrite (nth_upd_neq lab (dsf y) idx v 0%nat (pre_ne_idx _ (pre_closed y (os_pre y H)))). reflexivity.
Qed.

Lemma keep_own v x : In x os -> ow x = a x - asum (inp (upd lab idx v) x) os.
Proof.
  intros H. rewrite (fsum_ext _ (inp (upd lab idx v) x) (inp lab x) os); [apply (iv_own _ _ _ _ _ HI x H)|].
  intros y Hy. apply inp_upd_old. exact Hy.
Qed.

Lemma inp_idx_os : asum (inp lab idx) os = 0.
Proof.
  apply fsum_false. intros y Hy. unfold inp. apply andb_false_iff. right. apply Nat.eqb_neq.
  apply lab_ne_idx. apply pre_closed, os_pre, Hy.
Qed.

Lemma cut_own_pit : dsf idx = idx -> forall x, In x (os ++ [idx]) ->
  nth x (upd own idx (a idx)) 0 = a x - asum (inp (upd lab idx idx) x) (os ++ [idx]).
Proof.
  intros Ep x H. rewrite fsum_snoc. cbv beta.
  assert (Ei : inp (upd lab idx idx) x idx = false).
  { unfold inp. rewrite Ep, Nat.eqb_refl. reflexivity. }
  rewrite Ei. rewrite (fsum_ext _ (inp (upd lab idx idx) x) (inp lab x) os) by (intros y Hy; apply inp_upd_old; exact Hy).
  destruct (in_os1 x H) as [H1| ->].
  - rewrite (nth_upd_neq own x idx _ 0 (os_ne_idx x H1)). rewrite (iv_own _ _ _ _ _ HI x H1). lia.
  - rewrite (nth_upd_eq own idx _ 0) by (rewrite lenW; apply idx_lt). rewrite inp_idx_os. lia.
Qed.

Lemma own_cut_old w x : In x os ->
  nth x (upd (upd own (lb (dsf idx)) w) idx (a idx)) 0 = if (x =? lb (dsf idx))%nat then w else ow x.
Proof.
  intros H. rewrite (nth_upd_neq _ x idx _ 0 (os_ne_idx x H)).
  destruct (Nat.eqb_spec x (lb (dsf idx))) as [E|E].
  - rewrite E. apply nth_upd_eq. rewrite lenW. rewrite <- E. apply (sq_valid x (os_sq x H)).
  - apply nth_upd_neq. exact E.
Qed.

Lemma own_cut_new w : nth idx (upd (upd own (lb (dsf idx)) w) idx (a idx)) 0 = a idx.
Proof. apply nth_upd_eq. rewrite upd_length, lenW. apply idx_lt. Qed.

Lemma cut_own : dsf idx <> idx -> forall x, In x (os ++ [idx]) ->
  nth x (upd (upd own (lb (dsf idx)) (ow (lb (dsf idx)) - a idx)) idx (a idx)) 0 =
  a x - asum (inp (upd lab idx idx) x) (os ++ [idx]).
Proof.
  intros Np x H. assert (Pp : In (dsf idx) pre) by (destruct idx_ds as [H0|H0]; [contradiction|exact H0]).
  rewrite fsum_snoc. cbv beta.
  rewrite (fsum_ext _ (inp (upd lab idx idx) x) (inp lab x) os) by (intros y Hy; apply inp_upd_old; exact Hy).
  assert (Ei : inp (upd lab idx idx) x idx = (lb (dsf idx) =? x)%nat).
  { unfold inp. rewrite (nth_upd_neq lab (dsf idx) idx idx 0%nat Np).
    destruct (Nat.eqb_spec (dsf idx) idx) as [E|E]; [contradiction|]. reflexivity. }
  rewrite Ei. destruct (in_os1 x H) as [H1| ->].
  - rewrite (own_cut_old _ x H1). rewrite (Nat.eqb_sym (lb (dsf idx)) x).
    destruct (Nat.eqb_spec x (lb (dsf idx))) as [E|E].
    + rewrite <- E. rewrite (iv_own _ _ _ _ _ HI x H1). lia.
    + rewrite (iv_own _ _ _ _ _ HI x H1). lia.
  - rewrite own_cut_new. rewrite inp_idx_os.
    destruct (Nat.eqb_spec (lb (dsf idx)) idx) as [E|E]; [exfalso; exact (lab_ne_idx _ Pp E)|]. lia.
Qed.

(* the sums of the downstream-cell invariants when idx is appended *)
Lemma tribp_idx d : tribp d idx = true -> d = dsf idx /\ dsf idx <> idx /\ mo (dsf idx) <> idx.
Proof.
  unfold tribp. intros H. apply andb_true_iff in H. destruct H as [H H3]. apply andb_true_iff in H. destruct H as [H1 H2].
  apply Nat.eqb_eq in H1. apply negb_true_iff, Nat.eqb_neq in H2. apply negb_true_iff, Nat.eqb_neq in H3.
  subst d. auto.
Qed.

Lemma kidp_idx d : kidp d idx = true -> d = dsf idx /\ dsf idx <> idx.
Proof.
  unfold kidp. intros H. apply andb_true_iff in H. destruct H as [H1 H2].
  apply Nat.eqb_eq in H1. apply negb_true_iff, Nat.eqb_neq in H2. subst d. auto.
Qed.

Lemma tribsum_same d : (d <> dsf idx \/ dsf idx = idx \/ mo (dsf idx) = idx) ->
  asum (tribp d) (os ++ [idx]) = asum (tribp d) os.
Proof.
  intros H. rewrite fsum_snoc. destruct (tribp d idx) eqn:E; [|lia].
  destruct (tribp_idx d E) as (H1 & H2 & H3). exfalso. destruct H as [H|[H|H]]; auto.
Qed.

Lemma kidsum_same d : (d <> dsf idx \/ dsf idx = idx) -> asum (kidp d) (os ++ [idx]) = asum (kidp d) os.
Proof.
  intros H. rewrite fsum_snoc. destruct (kidp d idx) eqn:E; [|lia].
  destruct (kidp_idx d E) as (H1 & H2). exfalso. destruct H as [H|H]; auto.
Qed.

Lemma tribsum1_nonneg d : 0 <= asum (tribp d) (os ++ [idx]).
Proof. apply fsum_nonneg. intros y Hy. apply os1_pos. exact Hy. Qed.
Lemma kidsum1_nonneg d : 0 <= asum (kidp d) (os ++ [idx]).
Proof. apply fsum_nonneg. intros y Hy. apply os1_pos. exact Hy. Qed.
Lemma tribsum_nonneg d : 0 <= asum (tribp d) os.
Proof. apply fsum_nonneg. intros y Hy. apply os_pos. exact Hy. Qed.
Lemma kidsum_nonneg d : 0 <= asum (kidp d) os.
Proof. apply fsum_nonneg. intros y Hy. apply os_pos. exact Hy. Qed.

(* what is left at the downstream cell exceeds the area of any child that is not an outlet yet *)
Section NonPit.
Hypothesis Np : dsf idx <> idx.

Lemma Pp : In (dsf idx) pre.
Proof. destruct idx_ds as [H0|H0]; [contradiction|exact H0]. Qed.

Lemma Ci : child idx (dsf idx).
Proof. split; [apply idx_lt|split; auto]. Qed.

Lemma trib_bound : a idx + asum (tribp (dsf idx)) os < a (dsf idx).
Proof.
  assert (H := acc_bound (dsf idx) (tribp (dsf idx)) [idx] os (pre_sq _ Pp) (iv_nd _ _ _ _ _ HI)).
  cbn [map zsum fold_right] in H. assert (a idx + 0 + asum (tribp (dsf idx)) os < a (dsf idx)); [|lia].
  apply H.
  - constructor; [intros []|constructor].
  - intros c [<-|[]]. exact Ci.
  - intros c [<-|[]] Hc. exfalso. exact (idx_notos Hc).
  - intros y Hy Hg. apply kidp_child; [apply os_sq; exact Hy|]. apply tribp_kidp. exact Hg.
Qed.

Lemma kid_bound : a idx + asum (kidp (dsf idx)) os < a (dsf idx).
Proof.
  assert (H := acc_bound (dsf idx) (kidp (dsf idx)) [idx] os (pre_sq _ Pp) (iv_nd _ _ _ _ _ HI)).
  cbn [map zsum fold_right] in H. assert (a idx + 0 + asum (kidp (dsf idx)) os < a (dsf idx)); [|lia].
  apply H.
  - constructor; [intros []|constructor].
  - intros c [<-|[]]. exact Ci.
  - intros c [<-|[]] Hc. exfalso. exact (idx_notos Hc).
  - intros y Hy Hg. apply kidp_child; [apply os_sq; exact Hy|exact Hg].
Qed.

Lemma up_lb : a idx < u (dsf idx).
Proof. assert (H1 := iv_I1 _ _ _ _ _ HI (dsf idx) (pre_sq _ Pp)). assert (H2 := trib_bound). lia. Qed.

Lemma main_of_trib : mo (dsf idx) <> idx -> child (mo (dsf idx)) (dsf idx) /\ a idx <= a (mo (dsf idx)).
Proof. intros Hm. destruct (Hmain (dsf idx) idx (pre_sq _ Pp) Ci) as [H|H]; [contradiction|exact H]. Qed.

Lemma trib_bound2 : mo (dsf idx) <> idx -> a idx + a (mo (dsf idx)) + asum (tribp (dsf idx)) os < a (dsf idx).
Proof.
  intros Hm. destruct (main_of_trib Hm) as [Cm _].
  assert (H := acc_bound (dsf idx) (tribp (dsf idx)) [idx; mo (dsf idx)] os (pre_sq _ Pp) (iv_nd _ _ _ _ _ HI)).
  cbn [map zsum fold_right] in H.
  assert (a idx + (a (mo (dsf idx)) + 0) + asum (tribp (dsf idx)) os < a (dsf idx)); [|lia].
  apply H.
  - constructor; [intros [E|[]]; auto|constructor; [intros []|constructor]].
  - intros c [<-|[<-|[]]]; [exact Ci|exact Cm].
  - intros c [<-|[<-|[]]] Hc; [exfalso; exact (idx_notos Hc)|].
    unfold tribp. rewrite Nat.eqb_refl. cbn [negb]. apply andb_false_r.
  - intros y Hy Hg. apply kidp_child; [apply os_sq; exact Hy|]. apply tribp_kidp. exact Hg.
Qed.

Lemma kid_bound2 : mo (dsf idx) <> idx -> ~ In (mo (dsf idx)) os ->
  a idx + a (mo (dsf idx)) + asum (kidp (dsf idx)) os < a (dsf idx).
Proof.
  intros Hm Hno. destruct (main_of_trib Hm) as [Cm _].
  assert (H := acc_bound (dsf idx) (kidp (dsf idx)) [idx; mo (dsf idx)] os (pre_sq _ Pp) (iv_nd _ _ _ _ _ HI)).
  cbn [map zsum fold_right] in H.
  assert (a idx + (a (mo (dsf idx)) + 0) + asum (kidp (dsf idx)) os < a (dsf idx)); [|lia].
  apply H.
  - constructor; [intros [E|[]]; auto|constructor; [intros []|constructor]].
  - intros c [<-|[<-|[]]]; [exact Ci|exact Cm].
  - intros c [<-|[<-|[]]] Hc; exfalso; [exact (idx_notos Hc)|exact (Hno Hc)].
  - intros y Hy Hg. apply kidp_child; [apply os_sq; exact Hy|exact Hg].
Qed.

(* a big tributary always passes the test of the algorithm *)
Lemma trib_passes : mo (dsf idx) <> idx -> amin < a idx -> amin < u (dsf idx) - a idx.
Proof.
  intros Hm Hb. destruct (main_of_trib Hm) as [_ Hle].
  assert (H1 := iv_I1 _ _ _ _ _ HI (dsf idx) (pre_sq _ Pp)). assert (H2 := trib_bound2 Hm). lia.
Qed.
End NonPit.


(* ---------- case 1: idx is a pit ---------- *)
Lemma step_pit : dsf idx = idx -> Inv (pre ++ [idx]) U (os ++ [idx]) (upd lab idx idx) (upd own idx (a idx)).
Proof.
  intros Ep. constructor.
  - exact lenU.
  - rewrite upd_length. exact lenL.
  - rewrite upd_length. exact lenW.
  - exact cut_nd.
  - exact cut_sub.
  - exact cut_pitf.
  - exact cut_lab.
  - exact cut_lablev.
  - exact (cut_own_pit Ep).
  - intros d Hd. rewrite tribsum_same by auto. apply (iv_I1 _ _ _ _ _ HI d Hd).
  - exact cut_I2.
  - apply cut_I4. left. exact Ep.
  - intros d c Hd Cc Nc Bc. destruct (notin_pre1 c Nc) as [Nc1 Nc2]. destruct (in_pre1 d Hd) as [Hd1| ->].
    + rewrite (nth_upd_neq lab d idx idx 0%nat (pre_ne_idx d Hd1)).
      rewrite (nth_upd_neq own _ idx _ 0 (lab_ne_idx d Hd1)). apply (iv_I3 _ _ _ _ _ HI d c Hd1 Cc Nc1 Bc).
    + rewrite (nth_upd_eq lab idx idx 0%nat) by (rewrite lenL; apply idx_lt).
      rewrite (nth_upd_eq own idx _ 0) by (rewrite lenW; apply idx_lt).
      destruct (iv_I7 _ _ _ _ _ HI idx idx_sq idx_notpre) as [E|(H1 & _)]; [lia|].
      exfalso. rewrite Ep in H1. exact (idx_notpre H1).
  - intros d c Hd Cc Nc Bc. destruct (notin_pre1 c Nc) as [Nc1 Nc2]. destruct (in_pre1 d Hd) as [Hd1| ->].
    + rewrite (nth_upd_neq lab d idx idx 0%nat (pre_ne_idx d Hd1)).
      rewrite (nth_upd_neq own _ idx _ 0 (lab_ne_idx d Hd1)). rewrite kidsum_same by auto.
      apply (iv_I8 _ _ _ _ _ HI d c Hd1 Cc Nc1 Bc).
    + rewrite (nth_upd_eq lab idx idx 0%nat) by (rewrite lenL; apply idx_lt).
      rewrite (nth_upd_eq own idx _ 0) by (rewrite lenW; apply idx_lt).
      assert (H := kidsum1_nonneg idx). lia.
  - intros c Hc Nc. destruct (notin_pre1 c Nc) as [Nc1 Nc2].
    destruct (iv_I7 _ _ _ _ _ HI c Hc Nc1) as [E|(H1 & H2 & H3 & t & H4 & H5)]; [left; exact E|right].
    split; [apply pre1_l; exact H1|]. split; auto. split; auto. exists t. split; [apply pre1_l; exact H4|exact H5].
  - intros x Hx Nx. destruct (in_os1 x Hx) as [H1| ->]; [|contradiction].
    rewrite (nth_upd_neq own x idx _ 0 (os_ne_idx x H1)). apply (iv_I6 _ _ _ _ _ HI x H1 Nx).
Qed.

(* ---------- case 2: the test fails, idx joins the sub-basin of its downstream cell ---------- *)
Lemma step_else : dsf idx <> idx -> (u (dsf idx) - a idx <= amin \/ a idx <= amin) ->
  Inv (pre ++ [idx]) (upd U idx (u (dsf idx))) os (upd lab idx (lb (dsf idx))) own.
Proof.
  intros Np Hc. assert (PP := Pp Np). constructor.
  - rewrite upd_length. exact lenU.
  - rewrite upd_length. exact lenL.
  - exact lenW.
  - exact (iv_nd _ _ _ _ _ HI).
  - intros x Hx. apply pre1_l, os_pre, Hx.
  - intros x Hx Ex. destruct (in_pre1 x Hx) as [H1| ->]; [apply (iv_pit _ _ _ _ _ HI x H1 Ex)|contradiction].
  - intros c Hcc. apply keep_lab; auto.
  - intros c Hcc. apply keep_lablev; auto.
  - intros x Hx. apply keep_own. exact Hx.
  - intros d Hd. destruct (Nat.eq_dec d idx) as [->|Hne].
    + rewrite (nth_upd_eq U idx _ 0) by (rewrite lenU; apply idx_lt).
      assert (H1 := up_lb Np). assert (H2 := tribsum_nonneg idx). lia.
    + rewrite (nth_upd_neq U d idx _ 0 Hne). apply (iv_I1 _ _ _ _ _ HI d Hd).
  - intros t Ht' Nt Bt Mt. destruct (in_pre1 t Ht') as [H1| ->]; [apply (iv_I2 _ _ _ _ _ HI t H1 Nt Bt Mt)|].
    exfalso. assert (H := trib_passes Np Mt Bt). lia.
  - exact (iv_I4 _ _ _ _ _ HI).
  - intros d c Hd Cc Nc Bc. destruct (notin_pre1 c Nc) as [Nc1 Nc2]. destruct (in_pre1 d Hd) as [Hd1| ->].
    + rewrite (nth_upd_neq lab d idx _ 0%nat (pre_ne_idx d Hd1)). rewrite (nth_upd_neq U d idx _ 0 (pre_ne_idx d Hd1)).
      apply (iv_I3 _ _ _ _ _ HI d c Hd1 Cc Nc1 Bc).
    + rewrite (nth_upd_eq lab idx _ 0%nat) by (rewrite lenL; apply idx_lt).
      rewrite (nth_upd_eq U idx _ 0) by (rewrite lenU; apply idx_lt).
      apply (iv_I3 _ _ _ _ _ HI (dsf idx) idx PP (Ci Np) idx_notpre).
      assert (H := a_mono c idx idx_sq Cc). lia.
  - intros d c Hd Cc Nc Bc. destruct (notin_pre1 c Nc) as [Nc1 Nc2]. destruct (in_pre1 d Hd) as [Hd1| ->].
    + rewrite (nth_upd_neq lab d idx _ 0%nat (pre_ne_idx d Hd1)). apply (iv_I8 _ _ _ _ _ HI d c Hd1 Cc Nc1 Bc).
    + rewrite (nth_upd_eq lab idx _ 0%nat) by (rewrite lenL; apply idx_lt).
      assert (Bi : amin < a idx) by (assert (H := a_mono c idx idx_sq Cc); lia).
      assert (H1 := iv_I8 _ _ _ _ _ HI (dsf idx) idx PP (Ci Np) idx_notpre Bi).
      assert (H2 := kid_bound Np). assert (H3 := kidsum_nonneg idx). lia.
  - intros c Hcs Nc. destruct (notin_pre1 c Nc) as [Nc1 Nc2]. rewrite (nth_upd_neq U c idx _ 0 Nc2).
    destruct (iv_I7 _ _ _ _ _ HI c Hcs Nc1) as [E|(H1 & H2 & H3 & t & H4 & H5)]; [left; exact E|right].
    split; [apply pre1_l; exact H1|]. split; auto. split.
    + rewrite (nth_upd_neq U (dsf c) idx _ 0 (pre_ne_idx _ H1)). exact H3.
    + exists t. split; [apply pre1_l; exact H4|exact H5].
  - exact (iv_I6 _ _ _ _ _ HI).
Qed.

(* ---------- case 3: main stem at a confluence: no new sub-basin, upa_out[idx] is left alone ---------- *)
Lemma step_keep : dsf idx <> idx -> amin < a idx -> mo (dsf idx) = idx ->
  Inv (pre ++ [idx]) U os (upd lab idx (lb (dsf idx))) own.
Proof.
  intros Np Bi Hm. assert (PP := Pp Np). constructor.
  - exact lenU.
  - rewrite upd_length. exact lenL.
  - exact lenW.
  - exact (iv_nd _ _ _ _ _ HI).
  - intros x Hx. apply pre1_l, os_pre, Hx.
  - intros x Hx Ex. destruct (in_pre1 x Hx) as [H1| ->]; [apply (iv_pit _ _ _ _ _ HI x H1 Ex)|contradiction].
  - intros c Hcc. apply keep_lab; auto.
  - intros c Hcc. apply keep_lablev; auto.
  - intros x Hx. apply keep_own. exact Hx.
  - exact (iv_I1 _ _ _ _ _ HI).
  - intros t Ht' Nt Bt Mt. destruct (in_pre1 t Ht') as [H1| ->]; [apply (iv_I2 _ _ _ _ _ HI t H1 Nt Bt Mt)|contradiction].
  - exact (iv_I4 _ _ _ _ _ HI).
  - intros d c Hd Cc Nc Bc. destruct (notin_pre1 c Nc) as [Nc1 Nc2]. destruct (in_pre1 d Hd) as [Hd1| ->].
    + rewrite (nth_upd_neq lab d idx _ 0%nat (pre_ne_idx d Hd1)). apply (iv_I3 _ _ _ _ _ HI d c Hd1 Cc Nc1 Bc).
    + rewrite (nth_upd_eq lab idx _ 0%nat) by (rewrite lenL; apply idx_lt).
      destruct (iv_I7 _ _ _ _ _ HI idx idx_sq idx_notpre) as [E|(_ & _ & E & _)].
      * assert (H1 := iv_I8 _ _ _ _ _ HI (dsf idx) idx PP (Ci Np) idx_notpre Bi).
        assert (H2 := kid_bound Np). lia.
      * rewrite E. apply (iv_I3 _ _ _ _ _ HI (dsf idx) idx PP (Ci Np) idx_notpre Bi).
  - intros d c Hd Cc Nc Bc. destruct (notin_pre1 c Nc) as [Nc1 Nc2]. destruct (in_pre1 d Hd) as [Hd1| ->].
    + rewrite (nth_upd_neq lab d idx _ 0%nat (pre_ne_idx d Hd1)). apply (iv_I8 _ _ _ _ _ HI d c Hd1 Cc Nc1 Bc).
    + rewrite (nth_upd_eq lab idx _ 0%nat) by (rewrite lenL; apply idx_lt).
      assert (H1 := iv_I8 _ _ _ _ _ HI (dsf idx) idx PP (Ci Np) idx_notpre Bi).
      assert (H2 := kid_bound Np). assert (H3 := kidsum_nonneg idx). lia.
  - intros c Hcs Nc. destruct (notin_pre1 c Nc) as [Nc1 Nc2].
    destruct (iv_I7 _ _ _ _ _ HI c Hcs Nc1) as [E|(H1 & H2 & H3 & t & H4 & H5)]; [left; exact E|right].
    split; [apply pre1_l; exact H1|]. split; auto. split; auto.
    exists t. split; [apply pre1_l; exact H4|exact H5].
  - exact (iv_I6 _ _ _ _ _ HI).
Qed.


(* ---------- case 4: main stem without a confluence: a new sub-basin starts at idx ---------- *)
Lemma maincut_absurd d c : dsf idx <> idx -> amin < a idx -> a (dsf idx) - a idx <= amin ->
  In d pre -> child c d -> ~ In c (pre ++ [idx]) -> amin < a c -> lb d = lb (dsf idx) -> False.
Proof.
  intros Np Bi Hnc Hd Cc Nc Bc E. destruct (notin_pre1 c Nc) as [Nc1 Nc2]. assert (PP := Pp Np).
  destruct (uniq2 d c Np Bi Hd Cc Nc1 Bc E) as [->|[Cd Od]].
  - assert (H := a_two c idx (dsf idx) (pre_sq _ PP) Cc (Ci Np) Nc2). lia.
  - assert (H := a_two d idx (dsf idx) (pre_sq _ PP) Cd (Ci Np) (pre_ne_idx d Hd)).
    assert (H1 := a_mono c d (pre_sq d Hd) Cc). lia.
Qed.

Lemma step_maincut : dsf idx <> idx -> amin < u (dsf idx) - a idx -> amin < a idx -> mo (dsf idx) = idx ->
  a (dsf idx) - a idx <= amin ->
  Inv (pre ++ [idx]) (upd U idx (a idx)) (os ++ [idx]) (upd lab idx idx)
      (upd (upd own (lb (dsf idx)) (ow (lb (dsf idx)) - a idx)) idx (a idx)).
Proof.
  intros Np Hpass Bi Hm Hnc. assert (PP := Pp Np). constructor.
  - rewrite upd_length. exact lenU.
  - rewrite upd_length. exact lenL.
  - rewrite !upd_length. exact lenW.
  - exact cut_nd.
  - exact cut_sub.
  - exact cut_pitf.
  - exact cut_lab.
  - exact cut_lablev.
  - exact (cut_own Np).
  - intros d Hd. rewrite tribsum_same by auto. destruct (Nat.eq_dec d idx) as [->|Hne].
    + rewrite (nth_upd_eq U idx _ 0) by (rewrite lenU; apply idx_lt). assert (H := tribsum_nonneg idx). lia.
    + rewrite (nth_upd_neq U d idx _ 0 Hne). apply (iv_I1 _ _ _ _ _ HI d Hd).
  - exact cut_I2.
  - apply cut_I4. right. split; auto.
  - intros d c Hd Cc Nc Bc. destruct (notin_pre1 c Nc) as [Nc1 Nc2]. destruct (in_pre1 d Hd) as [Hd1| ->].
    + rewrite (nth_upd_neq lab d idx idx 0%nat (pre_ne_idx d Hd1)). rewrite (nth_upd_neq U d idx _ 0 (pre_ne_idx d Hd1)).
      rewrite (own_cut_old _ _ (lab_os d Hd1)).
      destruct (Nat.eqb_spec (lb d) (lb (dsf idx))) as [E|E].
      * exfalso. exact (maincut_absurd d c Np Bi Hnc Hd1 Cc Nc Bc E).
      * apply (iv_I3 _ _ _ _ _ HI d c Hd1 Cc Nc1 Bc).
    + rewrite (nth_upd_eq lab idx idx 0%nat) by (rewrite lenL; apply idx_lt).
      rewrite own_cut_new. rewrite (nth_upd_eq U idx _ 0) by (rewrite lenU; apply idx_lt). lia.
  - intros d c Hd Cc Nc Bc. destruct (notin_pre1 c Nc) as [Nc1 Nc2]. destruct (in_pre1 d Hd) as [Hd1| ->].
    + rewrite (nth_upd_neq lab d idx idx 0%nat (pre_ne_idx d Hd1)).
      rewrite (own_cut_old _ _ (lab_os d Hd1)).
      destruct (Nat.eqb_spec (lb d) (lb (dsf idx))) as [E|E].
      * exfalso. exact (maincut_absurd d c Np Bi Hnc Hd1 Cc Nc Bc E).
      * rewrite kidsum_same; [apply (iv_I8 _ _ _ _ _ HI d c Hd1 Cc Nc1 Bc)|]. left. intros ->. apply E. reflexivity.
    + rewrite (nth_upd_eq lab idx idx 0%nat) by (rewrite lenL; apply idx_lt).
      rewrite own_cut_new. assert (H := kidsum1_nonneg idx). lia.
  - intros c Hcs Nc. destruct (notin_pre1 c Nc) as [Nc1 Nc2]. rewrite (nth_upd_neq U c idx _ 0 Nc2).
    destruct (iv_I7 _ _ _ _ _ HI c Hcs Nc1) as [E|(H1 & H2 & H3 & t & H4 & H5)]; [left; exact E|right].
    split; [apply pre1_l; exact H1|]. split; auto. split.
    + rewrite (nth_upd_neq U (dsf c) idx _ 0 (pre_ne_idx _ H1)). exact H3.
    + exists t. split; [apply pre1_l; exact H4|exact H5].
  - intros x Hx Nx. destruct (in_os1 x Hx) as [H1| ->].
    + rewrite (own_cut_old _ x H1). destruct (Nat.eqb_spec x (lb (dsf idx))) as [E|E].
      * assert (H := iv_I3 _ _ _ _ _ HI (dsf idx) idx PP (Ci Np) idx_notpre Bi). lia.
      * apply (iv_I6 _ _ _ _ _ HI x H1 Nx).
    + rewrite own_cut_new. exact Bi.
Qed.

(* ---------- case 5: a tributary above the threshold: a new sub-basin, cut off from what is left downstream ---------- *)
Section TribCut.
Hypothesis Np : dsf idx <> idx.
Hypothesis Hpass : amin < u (dsf idx) - a idx.
Hypothesis Bi : amin < a idx.
Hypothesis Hm : mo (dsf idx) <> idx.
Notation pp := (dsf idx).
Notation mm := (mo (dsf idx)).
Notation vv := (u (dsf idx) - a idx).
Notation U' := (upd (upd (upd U idx (a idx)) (dsf idx) (u (dsf idx) - a idx)) (mo (dsf idx)) (u (dsf idx) - a idx)).

Lemma Cm : child mm pp. Proof. apply (main_of_trib Np Hm). Qed.
Lemma m_lt : (mm < n)%nat. Proof. apply Cm. Qed.
Lemma m_ne_p : mm <> pp. Proof. apply Cm. Qed.

Lemma tc_m : nth mm U' 0 = vv.
Proof. apply nth_upd_eq. rewrite !upd_length, lenU. exact m_lt. Qed.
Lemma tc_p : nth pp U' 0 = vv.
Proof.
  rewrite nth_upd_neq by (intros E; apply m_ne_p; auto). apply nth_upd_eq. rewrite upd_length, lenU. apply idx_lt.
Qed.
Lemma tc_idx : nth idx U' 0 = a idx.
Proof.
  rewrite nth_upd_neq by (intros E; apply Hm; auto). rewrite nth_upd_neq by (intros E; apply Np; auto).
  apply nth_upd_eq. rewrite lenU. apply idx_lt.
Qed.
Lemma tc_other d : d <> mm -> d <> pp -> d <> idx -> nth d U' 0 = u d.
Proof. intros H1 H2 H3. rewrite !nth_upd_neq; auto. Qed.

Lemma m_sq : In mm sq. Proof. apply (child_sq mm pp (pre_sq _ (Pp Np)) Cm). Qed.

(* if the main upstream cell has been processed it is not an outlet *)
Lemma m_notos : ~ In mm os.
Proof.
  intros Ho. destruct (iv_I4 _ _ _ _ _ HI mm Ho) as [E|(B & [E|E])].
  - destruct Cm as (_ & E1 & E2). rewrite E1 in E. apply E2. auto.
  - destruct Cm as (_ & E1 & _). rewrite E1 in E. apply E. reflexivity.
  - destruct Cm as (_ & E1 & _). rewrite E1 in E.
    assert (H := a_two idx mm pp (pre_sq _ (Pp Np)) (Ci Np) Cm (fun X => Hm (eq_sym X))). lia.
Qed.

(* the processed big cells of the sub-basin of p with an unprocessed big child: p and the main upstream cell of p *)
Lemma tc_who d c : In d pre -> child c d -> ~ In c pre -> amin < a c -> lb d = lb pp -> d = pp \/ (d = mm /\ In mm pre).
Proof.
  intros Hd Cc Nc Bc E. destruct (uniq2 d c Np Bi Hd Cc Nc Bc E) as [->|[Cd Od]]; [left; reflexivity|right].
  destruct (Nat.eq_dec mm d) as [Em|Em]; [split; [auto|rewrite Em; exact Hd]|]. exfalso. apply Od.
  destruct Cd as (Cd1 & Cd2 & Cd3).
  apply (iv_I2 _ _ _ _ _ HI d Hd); [rewrite Cd2; auto| |rewrite Cd2; exact Em].
  assert (H := a_mono c d (pre_sq d Hd) Cc). lia.
Qed.

Lemma tc_lab_m : In mm pre -> lb mm = lb pp.
Proof. intros H. rewrite (lab_out mm H m_notos). destruct Cm as (_ & E & _). rewrite E. reflexivity. Qed.

Lemma step_tribcut :
  Inv (pre ++ [idx]) U' (os ++ [idx]) (upd lab idx idx)
      (upd (upd own (lb (dsf idx)) (ow (lb (dsf idx)) - a idx)) idx (a idx)).
Proof.
  assert (PP := Pp Np). assert (CM := Cm). assert (Hle : a idx <= a mm) by apply (main_of_trib Np Hm).
  assert (Tp : tribp pp idx = true).
  { unfold tribp. rewrite Nat.eqb_refl. destruct (Nat.eqb_spec idx pp) as [E|E]; [exfalso; apply Np; auto|].
    destruct (Nat.eqb_spec idx mm) as [E1|E1]; [exfalso; apply Hm; auto|]. reflexivity. }
  assert (Kp : kidp pp idx = true).
  { unfold kidp. rewrite Nat.eqb_refl. destruct (Nat.eqb_spec idx pp) as [E|E]; [exfalso; apply Np; auto|]. reflexivity. }
  constructor.
  - rewrite !upd_length. exact lenU.
  - rewrite upd_length. exact lenL.
  - rewrite !upd_length. exact lenW.
  - exact cut_nd.
  - exact cut_sub.
  - exact cut_pitf.
  - exact cut_lab.
  - exact cut_lablev.
  - exact (cut_own Np).
  - intros d Hd. destruct (Nat.eq_dec d mm) as [->|N1]; [|destruct (Nat.eq_dec d pp) as [->|N2]; [|destruct (Nat.eq_dec d idx) as [->|N3]]].
    + rewrite tc_m. assert (H1 := iv_I1 _ _ _ _ _ HI pp (pre_sq _ PP)). assert (H2 := trib_bound2 Np Hm).
      assert (H3 := tribsum1_nonneg mm). lia.
    + rewrite tc_p. rewrite fsum_snoc, Tp. assert (H1 := iv_I1 _ _ _ _ _ HI pp (pre_sq _ PP)). lia.
    + rewrite tc_idx. assert (H3 := tribsum1_nonneg idx). lia.
    + rewrite (tc_other d N1 N2 N3). rewrite tribsum_same by auto. apply (iv_I1 _ _ _ _ _ HI d Hd).
  - exact cut_I2.
  - apply cut_I4. right. split; auto.
  - intros d c Hd Cc Nc Bc. destruct (notin_pre1 c Nc) as [Nc1 Nc2]. destruct (in_pre1 d Hd) as [Hd1| ->].
    + rewrite (nth_upd_neq lab d idx idx 0%nat (pre_ne_idx d Hd1)). rewrite (own_cut_old _ _ (lab_os d Hd1)).
      assert (H3 := iv_I3 _ _ _ _ _ HI pp idx PP (Ci Np) idx_notpre Bi).
      destruct (Nat.eqb_spec (lb d) (lb pp)) as [E|E].
      * destruct (tc_who d c Hd1 Cc Nc1 Bc E) as [->|[-> _]]; [rewrite tc_p|rewrite tc_m]; lia.
      * assert (N1 : d <> mm) by (intros ->; apply E; apply tc_lab_m; exact Hd1).
        assert (N2 : d <> pp) by (intros ->; apply E; reflexivity).
        rewrite (tc_other d N1 N2 (pre_ne_idx d Hd1)). apply (iv_I3 _ _ _ _ _ HI d c Hd1 Cc Nc1 Bc).
    + rewrite (nth_upd_eq lab idx idx 0%nat) by (rewrite lenL; apply idx_lt). rewrite own_cut_new, tc_idx. lia.
  - intros d c Hd Cc Nc Bc. destruct (notin_pre1 c Nc) as [Nc1 Nc2]. destruct (in_pre1 d Hd) as [Hd1| ->].
    + rewrite (nth_upd_neq lab d idx idx 0%nat (pre_ne_idx d Hd1)). rewrite (own_cut_old _ _ (lab_os d Hd1)).
      assert (H8 := iv_I8 _ _ _ _ _ HI pp idx PP (Ci Np) idx_notpre Bi).
      destruct (Nat.eqb_spec (lb d) (lb pp)) as [E|E].
      * destruct (tc_who d c Hd1 Cc Nc1 Bc E) as [->|[-> _]].
        -- rewrite fsum_snoc, Kp. lia.
        -- assert (H2 := kid_bound2 Np Hm m_notos). assert (H3 := kidsum1_nonneg mm). lia.
      * rewrite kidsum_same; [apply (iv_I8 _ _ _ _ _ HI d c Hd1 Cc Nc1 Bc)|]. left. intros ->. apply E. reflexivity.
    + rewrite (nth_upd_eq lab idx idx 0%nat) by (rewrite lenL; apply idx_lt).
      rewrite own_cut_new. assert (H := kidsum1_nonneg idx). lia.
  - intros c Hcs Nc. destruct (notin_pre1 c Nc) as [Nc1 Nc2].
    assert (Ncp : c <> pp) by (intros ->; exact (Nc1 PP)).
    destruct (Nat.eq_dec c mm) as [->|Ncm].
    + right. destruct CM as (_ & E1 & E2). rewrite E1. split; [apply pre1_l; exact PP|]. split; [reflexivity|].
      split; [rewrite tc_m, tc_p; reflexivity|]. exists idx. split; [exact pre1_r|]. split; auto.
    + rewrite (tc_other c Ncm Ncp Nc2).
      destruct (iv_I7 _ _ _ _ _ HI c Hcs Nc1) as [E|(H1 & H2 & H3 & t & H4 & H5 & H6)]; [left; exact E|right].
      split; [apply pre1_l; exact H1|]. split; auto. split.
      * rewrite tc_other; auto.
        -- intros Em. (* a child of the main upstream cell processed before idx: impossible in a level order *)
           assert (Lt : lev t = S (lev mm)).
           { assert (X : lev t = S (lev (dsf t))) by (apply Hlev; [apply pre_sq; exact H4|intros X; apply H6; congruence]).
             rewrite X, H5, Em. reflexivity. }
           assert (Lm : lev mm = S (lev pp)).
           { destruct CM as (_ & E1 & E2).
             assert (X : lev mm = S (lev (dsf mm))) by (apply Hlev; [exact m_sq|rewrite E1; auto]).
             rewrite E1 in X. exact X. }
           assert (Li := Hlev idx idx_sq Np). assert (Lp := lev_pre t H4). lia.
        -- intros Ep. apply Ncm. rewrite <- Ep. auto.
        -- apply pre_ne_idx. exact H1.
      * exists t. split; [apply pre1_l; exact H4|]. split; auto.
  - intros x Hx Nx. destruct (in_os1 x Hx) as [H1| ->].
    + rewrite (own_cut_old _ x H1). destruct (Nat.eqb_spec x (lb pp)) as [E|E].
      * assert (H := iv_I3 _ _ _ _ _ HI pp idx PP (Ci Np) idx_notpre Bi). lia.
      * apply (iv_I6 _ _ _ _ _ HI x H1 Nx).
    + rewrite own_cut_new. exact Bi.
Qed.
End TribCut.


(* ---------- the five cases are the five branches of the step ---------- *)
Lemma astep_inv :
  let s' := astep ds main uparea amin (U, os, lab, own) idx in
  Inv (pre ++ [idx]) (gU s') (gO s') (gL s') (gW s').
Proof.
  unfold astep, gU, gO, gL, gW.
  destruct (Nat.eqb_spec (dsf idx) idx) as [Ep|Np]; [cbn [fst snd]; exact (step_pit Ep)|].
  destruct (Z.gtb_spec (u (dsf idx) - a idx) amin) as [H1|H1]; cbn [andb].
  - destruct (Z.gtb_spec (a idx) amin) as [H2|H2].
    + destruct (Nat.eqb_spec (mo (dsf idx)) idx) as [Hm|Hm]; cbn [negb].
      * destruct (Z.gtb_spec (a (dsf idx) - a idx) amin) as [H3|H3]; cbn [fst snd].
        -- exact (step_keep Np H2 Hm).
        -- exact (step_maincut Np H1 H2 Hm H3).
      * cbn [fst snd]. exact (step_tribcut Np H1 H2 Hm).
    + cbn [fst snd]. apply (step_else Np). right. exact H2.
  - cbn [fst snd]. apply (step_else Np). left. exact H1.
Qed.

End OneStep.

(* ---------- the invariant holds after every prefix of the level order ---------- *)
Definition ginit : gstate := (uparea, [], repeat 0%nat n, repeat 0 n).

Lemma afold_inv pre : forall post, sq = pre ++ post ->
  let s := fold_left (astep ds main uparea amin) pre ginit in
  Inv pre (gU s) (gO s) (gL s) (gW s).
Proof.
  induction pre as [|idx pre IH] using rev_ind; intros post Hsq.
  - cbn [fold_left]. unfold ginit, gU, gO, gL, gW. cbn [fst snd]. exact Inv_init.
  - rewrite <- app_assoc in Hsq. cbn [app] in Hsq. specialize (IH (idx :: post) Hsq). cbv zeta in IH.
    rewrite fold_left_app. cbn [fold_left].
    destruct (fold_left (astep ds main uparea amin) pre ginit) as [[[U os] lab] own].
    unfold gU, gO, gL, gW in IH. cbn [fst snd] in IH.
    exact (astep_inv pre post idx Hsq U os lab own IH).
Qed.

Theorem afold_final :
  let s := fold_left (astep ds main uparea amin) sq ginit in
  Inv sq (gU s) (gO s) (gL s) (gW s).
Proof. apply (afold_inv sq []). rewrite app_nil_r. reflexivity. Qed.
End AreaInv.

Print Assumptions afold_final.
