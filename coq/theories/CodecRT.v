(* C02: re-encoding and cross-format conversion preserve the drainage graph. *)
From Coq Require Import List Arith ZArith Lia Bool.
Import ListNotations.
From PF Require Import Arr Net Codec CodecSpec.
From PFG Require Import GenTables GenDrdc GenConv.
Local Open Scope Z_scope.

Lemma offsets_complete dr dc : -1 <= dr <= 1 -> -1 <= dc <= 1 -> In (dr, dc) offsets.
Proof.
  intros H1 H2.
  assert (E1 : dr = -1 \/ dr = 0 \/ dr = 1) by lia.
  assert (E2 : dc = -1 \/ dc = 0 \/ dc = 1) by lia.
  destruct E1 as [E1|[E1|E1]], E2 as [E2|[E2|E2]]; subst; simpl; tauto.
Qed.

Lemma offsets_small dr dc : In (dr, dc) offsets -> -1 <= dr <= 1 /\ -1 <= dc <= 1.
Proof. simpl. intros H. repeat (destruct H as [H|H]; [inversion H; lia|]). contradiction. Qed.

(* sequence_opt over a map *)
Lemma sequence_opt_some {A B} (f : A -> option B) (l : list A) (l' : list B) (d0 : A) (d : B) :
  sequence_opt (map f l) = Some l' ->
  length l' = length l /\ forall k, (k < length l)%nat -> f (nth k l d0) = Some (nth k l' d).
Proof.
  revert l'. induction l as [|a l IH]; intros l' H; simpl in *.
  - inversion H; subst. split; auto. intros k Hk. lia.
  - destruct (f a) as [b|] eqn:Ea; [|discriminate].
    destruct (sequence_opt (map f l)) as [r|] eqn:Er; [|discriminate].
    inversion H; subst. destruct (IH r eq_refl) as [H1 H2]. split; [simpl; lia|].
    intros [|k] Hk; simpl; auto. apply H2. lia.
Qed.

Lemma sequence_opt_total {A B} (f : A -> option B) (l : list A) :
  (forall a, In a l -> exists b, f a = Some b) -> exists l', sequence_opt (map f l) = Some l'.
Proof.
  induction l as [|a l IH]; intros H; simpl; [eauto|].
  destruct (H a (or_introl eq_refl)) as [b Hb]. rewrite Hb.
  destruct IH as [r Hr]; [intros x Hx; apply H; right; auto|]. rewrite Hr. eauto.
Qed.

Section RT.
Variable table : list (list Z).
Variable drdc : Z -> Z * Z.
Variable mv : Z.
Hypothesis Hinv : forall dr dc, In (dr, dc) offsets -> drdc (table_at table dr dc) = (dr, dc).
Hypothesis Hnomv : forall dr dc, In (dr, dc) offsets -> table_at table dr dc <> mv.
Variables nrow ncol : nat.
Variable ds : list nat.
Let sz := (nrow * ncol)%nat.
Hypothesis Hsz : length ds = sz.
Hypothesis Hwf : wf ds.
Hypothesis Hcanon : forall i, (i < sz)%nat -> (nth i ds sz <= sz)%nat.

Lemma ncol_pos i : (i < nrow * ncol)%nat -> (0 < ncol)%nat.
Proof. intros H. destruct ncol; [rewrite Nat.mul_0_r in H; lia|lia]. Qed.

(* whenever the encoder succeeds, decoding the result gives the graph back *)
Theorem encode_decode y : encode table mv ncol ds = Some y -> decode drdc mv nrow ncol y = ds.
Proof.
  intros He. unfold sz in *. unfold encode in He. rewrite Hsz in He.
  destruct (sequence_opt_some _ _ _ 0%nat mv He) as [Hl Hy]. rewrite seq_length in Hl, Hy.
  apply (nth_ext_len _ _ (nrow * ncol)%nat).
  { unfold decode. rewrite map_length, seq_length. auto. }
  unfold decode at 1. rewrite map_length, seq_length. intros i Hi.
  rewrite (decode_nth drdc mv nrow ncol y i Hi).
  specialize (Hy i Hi). rewrite seq_nth in Hy by auto. simpl in Hy.
  unfold encode_cell in Hy. rewrite Hsz in Hy. 
  assert (Hnc : (0 < ncol)%nat) by (apply (ncol_pos i Hi)).
  unfold decode_cell, target_rc, cell.
  destruct (Nat.leb_spec (nrow * ncol)%nat (nth i ds (nrow * ncol)%nat)) as [Hnd|Hv].
  - (* nodata *)
    assert (E : nth i y mv = mv) by congruence. rewrite E, Z.eqb_refl. specialize (Hcanon i Hi). lia.
  - set (d := nth i ds (nrow * ncol)%nat) in *.
    set (dr := Z.of_nat (d / ncol) - Z.of_nat (i / ncol)) in *.
    set (dc := Z.of_nat (d mod ncol) - Z.of_nat (i mod ncol)) in *.
    destruct ((dr >=? -1) && (dr <=? 1) && (dc >=? -1) && (dc <=? 1)) eqn:Eb; [|discriminate].
    assert (E : table_at table dr dc = nth i y mv) by congruence. clear Hy.
    assert (Hb : -1 <= dr <= 1 /\ -1 <= dc <= 1).
    { rewrite !andb_true_iff, !Z.geb_le, !Z.leb_le in Eb. lia. }
    assert (Hoff : In (dr, dc) offsets) by (apply offsets_complete; tauto).
    rewrite <- E.
    destruct (Z.eqb_spec (table_at table dr dc) mv) as [Em|_]; [exfalso; apply (Hnomv dr dc Hoff Em)|].
    rewrite (Hinv dr dc Hoff).
    assert (Hr : Z.of_nat (i / ncol) + dr = Z.of_nat (d / ncol)) by (unfold dr; lia).
    assert (Hc : Z.of_nat (i mod ncol) + dc = Z.of_nat (d mod ncol)) by (unfold dc; lia).
    rewrite Hr, Hc.
    assert (Hd : Z.of_nat (d mod ncol) + Z.of_nat (d / ncol) * Z.of_nat ncol = Z.of_nat d).
    { rewrite <- Nat2Z.inj_mul, <- Nat2Z.inj_add. f_equal. rewrite (Nat.div_mod d ncol) at 3 by lia. lia. }
    rewrite Hd, Nat2Z.id.
    destruct ((dr =? 0) && (dc =? 0)) eqn:Ep; cbn [orb].
    + (* same row and column: the cell itself *)
      apply andb_true_iff in Ep. destruct Ep as [E1 E2]. apply Z.eqb_eq in E1, E2.
      assert (d / ncol = i / ncol)%nat by lia. assert (d mod ncol = i mod ncol)%nat by lia.
      rewrite (Nat.div_mod d ncol), (Nat.div_mod i ncol) by lia. lia.
    + assert (Hout : outside nrow ncol (Z.of_nat (d / ncol)) (Z.of_nat (d mod ncol)) = false).
      { apply outside_false. split.
        - split; [lia|]. apply Nat2Z.inj_lt. apply Nat.div_lt_upper_bound; [lia|]. lia.
        - split; [lia|]. apply Nat2Z.inj_lt. apply Nat.mod_upper_bound. lia. }
      rewrite Hout. cbn [orb].
      (* the target is a cell of the graph (wf), so it was not encoded as nodata *)
      assert (Hdv : valid ds d).
      { assert (Hiv : valid ds i) by (unfold valid, dsf, size; rewrite Hsz; fold d; lia).
        pose proof (Hwf i Hiv) as H. replace (dsf ds i) with d in H; [exact H|]. unfold d, dsf, size. rewrite Hsz. reflexivity. }
      assert (Hyd : nth d y mv <> mv).
      { assert (Hd2 : (d < nrow * ncol)%nat) by (fold d in Hv; exact Hv).
        pose proof He as He2. destruct (sequence_opt_some _ _ _ 0%nat mv He2) as [_ Hy2]. rewrite seq_length in Hy2.
        specialize (Hy2 d Hd2). rewrite seq_nth in Hy2 by auto. simpl in Hy2.
        unfold encode_cell in Hy2. rewrite Hsz in Hy2. 
        destruct Hdv as [_ Hdd]. unfold dsf, size in Hdd. rewrite Hsz in Hdd. 
        destruct (Nat.leb_spec (nrow * ncol)%nat (nth d ds (nrow * ncol)%nat)); [lia|].
        match type of Hy2 with (if ?b then _ else _) = _ => destruct b eqn:Eb2; [|discriminate] end.
        inversion Hy2 as [E2]. apply Hnomv. apply offsets_complete;
          rewrite !andb_true_iff, !Z.geb_le, !Z.leb_le in Eb2; lia. }
      destruct (Z.eqb_spec (nth d y mv) mv); [contradiction|]. reflexivity.
Qed.

(* links joining 8-neighbours always encode *)
Definition nb8 : Prop := forall i, (i < sz)%nat -> (nth i ds sz < sz)%nat ->
  -1 <= Z.of_nat (nth i ds sz / ncol) - Z.of_nat (i / ncol) <= 1 /\
  -1 <= Z.of_nat (nth i ds sz mod ncol) - Z.of_nat (i mod ncol) <= 1.

Theorem encode_total : nb8 -> exists y, encode table mv ncol ds = Some y.
Proof.
  intros Hn. unfold encode. apply sequence_opt_total. intros i Hi. rewrite Hsz in Hi. apply in_seq in Hi.
  unfold encode_cell. rewrite Hsz. fold sz.
  destruct (Nat.leb_spec sz (nth i ds sz)); [eauto|].
  destruct (Hn i) as [H1 H2]; [lia|auto|].
  assert (E : ((Z.of_nat (nth i ds sz / ncol) - Z.of_nat (i / ncol) >=? -1) &&
               (Z.of_nat (nth i ds sz / ncol) - Z.of_nat (i / ncol) <=? 1) &&
               (Z.of_nat (nth i ds sz mod ncol) - Z.of_nat (i mod ncol) >=? -1) &&
               (Z.of_nat (nth i ds sz mod ncol) - Z.of_nat (i mod ncol) <=? 1)) = true).
  { rewrite !andb_true_iff, !Z.geb_le, !Z.leb_le. lia. }
  rewrite E. eauto.
Qed.
End RT.

(* ---------- decoded graphs are canonical and join 8-neighbours ---------- *)
Section Decoded.
Variable drdc : Z -> Z * Z.
Variable mv : Z.
Variables nrow ncol : nat.
Variable flw : list Z.
Hypothesis Hlegal : forall i, (i < nrow * ncol)%nat -> nth i flw mv <> mv -> small_offset (drdc (nth i flw mv)) = true.
Let ds := decode drdc mv nrow ncol flw.

Lemma decoded_canon i : (i < nrow * ncol)%nat -> (nth i ds (nrow * ncol) <= nrow * ncol)%nat.
Proof.
  intros Hi. pose proof (decode_spec drdc mv nrow ncol flw i Hi) as H. fold ds in H.
  remember (nth i ds (nrow * ncol)%nat) as x eqn:Ex. clear Ex.
  destruct H as [Hm|dr dc Hm _ _|dr dc t Hm _ _ Ht _ _ _]; lia.
Qed.

Lemma decoded_nb8 : nb8 nrow ncol ds.
Proof.
  intros i Hi Hv. pose proof (decode_spec drdc mv nrow ncol flw i Hi) as H. fold ds in H.
  remember (nth i ds (nrow * ncol)%nat) as x eqn:Ex. clear Ex.
  destruct H as [Hm|dr dc Hm _ _|dr dc t Hm Hdr _ Ht Hr Hc _]; [lia|lia|].
  specialize (Hlegal i Hi Hm). unfold cell in Hdr. rewrite Hdr in Hlegal. unfold small_offset in Hlegal. simpl in Hlegal.
  rewrite !andb_true_iff, !Z.leb_le in Hlegal. lia.
Qed.
End Decoded.

(* ---------- instances ---------- *)
Lemma d8_nomv : forall dr dc, In (dr, dc) offsets -> table_at d8_ds dr dc <> d8_mv.
Proof.
  assert (H : forallb (fun o => negb (table_at d8_ds (fst o) (snd o) =? d8_mv)) offsets = true) by (vm_compute; reflexivity).
  rewrite forallb_forall in H. intros dr dc Hin. specialize (H _ Hin). simpl in H.
  apply negb_true_iff, Z.eqb_neq in H. exact H.
Qed.
Lemma ldd_nomv : forall dr dc, In (dr, dc) offsets -> table_at ldd_ds dr dc <> ldd_mv.
Proof.
  assert (H : forallb (fun o => negb (table_at ldd_ds (fst o) (snd o) =? ldd_mv)) offsets = true) by (vm_compute; reflexivity).
  rewrite forallb_forall in H. intros dr dc Hin. specialize (H _ Hin). simpl in H.
  apply negb_true_iff, Z.eqb_neq in H. exact H.
Qed.

Definition legal (all : list Z) (flw : list Z) (mv : Z) (sz : nat) : Prop :=
  forall i, (i < sz)%nat -> In (nth i flw mv) all.

Lemma d8_legal_small nrow ncol flw : legal d8_all flw d8_mv (nrow * ncol) ->
  forall i, (i < nrow * ncol)%nat -> nth i flw d8_mv <> d8_mv -> small_offset (d8_drdc (nth i flw d8_mv)) = true.
Proof. intros H i Hi Hne. apply d8_legal_offsets; auto. Qed.
Lemma ldd_legal_small nrow ncol flw : legal ldd_all flw ldd_mv (nrow * ncol) ->
  forall i, (i < nrow * ncol)%nat -> nth i flw ldd_mv <> ldd_mv -> small_offset (ldd_drdc (nth i flw ldd_mv)) = true.
Proof. intros H i Hi Hne. apply ldd_legal_offsets; auto. Qed.

(* Exporting a graph decoded from a legal D8 or LDD raster to D8 or LDD never fails, and parsing
   the export gives the identical graph (same downstream cell, pits, nodata for every cell). *)
Section SourceD8LDD.
Variables nrow ncol : nat.
Variable ds : list nat.
Hypothesis Hlen : length ds = (nrow * ncol)%nat.
Hypothesis Hwf : wf ds.
Hypothesis Hcanon : forall i, (i < nrow * ncol)%nat -> (nth i ds (nrow * ncol) <= nrow * ncol)%nat.

Theorem to_d8_roundtrip y : d8_to_array ncol ds = Some y -> d8_from_array nrow ncol y = ds.
Proof. apply (encode_decode d8_ds d8_drdc d8_mv d8_drdc_table d8_nomv nrow ncol ds Hlen Hwf Hcanon). Qed.
Theorem to_ldd_roundtrip y : ldd_to_array ncol ds = Some y -> ldd_from_array nrow ncol y = ds.
Proof. apply (encode_decode ldd_ds ldd_drdc ldd_mv ldd_drdc_table ldd_nomv nrow ncol ds Hlen Hwf Hcanon). Qed.
Theorem to_d8_total : nb8 nrow ncol ds -> exists y, d8_to_array ncol ds = Some y.
Proof. apply (encode_total d8_ds d8_mv nrow ncol ds Hlen). Qed.
Theorem to_ldd_total : nb8 nrow ncol ds -> exists y, ldd_to_array ncol ds = Some y.
Proof. apply (encode_total ldd_ds ldd_mv nrow ncol ds Hlen). Qed.

(* NEXTXY export is total and lossless for every closed graph (no neighbour condition) *)
Theorem to_nextxy_roundtrip :
  nextxy_from_array nrow ncol (fst (nextxy_to_array ncol ds)) (snd (nextxy_to_array ncol ds)) = ds.
Proof.
  unfold nextxy_to_array. rewrite Hlen.
  set (x := map fst (map (xy_cell ncol ds) (seq 0 (nrow * ncol)))).
  set (y := map snd (map (xy_cell ncol ds) (seq 0 (nrow * ncol)))).
  set (f := xy_cell ncol ds).
  assert (Hx : forall i, (i < nrow * ncol)%nat -> nth i x nextxy_mv = fst (f i)).
  { intros i Hi. unfold x, f. rewrite map_map.
    rewrite (nth_indep _ nextxy_mv (fst (xy_cell ncol ds 0%nat))) by (rewrite map_length, seq_length; auto).
    rewrite (map_nth (fun a => fst (xy_cell ncol ds a)) (seq 0 (nrow * ncol)) 0%nat i). rewrite seq_nth; auto. }
  assert (Hy : forall i, (i < nrow * ncol)%nat -> nth i y nextxy_mv = snd (f i)).
  { intros i Hi. unfold y, f. rewrite map_map.
    rewrite (nth_indep _ nextxy_mv (snd (xy_cell ncol ds 0%nat))) by (rewrite map_length, seq_length; auto).
    rewrite (map_nth (fun a => snd (xy_cell ncol ds a)) (seq 0 (nrow * ncol)) 0%nat i). rewrite seq_nth; auto. }
  clearbody x y. cbn [fst snd].
  apply (nth_ext_len _ _ (nrow * ncol)%nat).
  { unfold nextxy_from_array. rewrite map_length, seq_length. auto. }
  unfold nextxy_from_array at 1. rewrite map_length, seq_length. intros i Hi.
  rewrite (xy_nth nrow ncol x y i Hi). unfold xy_decode_cell.
  rewrite (Hx i Hi), (Hy i Hi). unfold f, xy_cell. rewrite Hlen.
  assert (Hnc : (0 < ncol)%nat) by (destruct ncol; [rewrite Nat.mul_0_r in Hi; lia|lia]).
  destruct (Nat.leb_spec (nrow * ncol) (nth i ds (nrow * ncol)%nat)) as [Hnd|Hv]; cbn [fst snd].
  - rewrite Z.eqb_refl. specialize (Hcanon i Hi). lia.
  - set (d := nth i ds (nrow * ncol)%nat) in *.
    destruct (Nat.eqb_spec i d) as [Ep|Hnp]; cbn [fst snd].
    + assert (E1 : (nth 0 nextxy_pv 0 =? nextxy_mv) = false) by (vm_compute; reflexivity). rewrite E1.
      assert (E2 : xy_ispit (nth 0 nextxy_pv 0) = true) by (vm_compute; reflexivity). rewrite E2. cbn [orb]. exact Ep.
    + assert (E1 : (Z.of_nat (d mod ncol) + 1 =? nextxy_mv) = false) by (apply Z.eqb_neq; unfold nextxy_mv; lia).
      rewrite E1.
      assert (E2 : forall v, 1 <= v -> xy_ispit v = false).
      { intros v Hv1. unfold xy_ispit, zmem. simpl. destruct (Z.eqb_spec v (-9)); [lia|]. destruct (Z.eqb_spec v (-10)); [lia|]. reflexivity. }
      rewrite !E2 by lia. cbn [orb].
      replace (Z.of_nat (d / ncol) + 1 - 1) with (Z.of_nat (d / ncol)) by lia.
      replace (Z.of_nat (d mod ncol) + 1 - 1) with (Z.of_nat (d mod ncol)) by lia.
      assert (Hd : Z.of_nat (d mod ncol) + Z.of_nat (d / ncol) * Z.of_nat ncol = Z.of_nat d).
      { rewrite <- Nat2Z.inj_mul, <- Nat2Z.inj_add. f_equal. rewrite (Nat.div_mod d ncol) at 3 by lia. lia. }
      rewrite Hd, Nat2Z.id.
      assert (Hout : outside nrow ncol (Z.of_nat (d / ncol)) (Z.of_nat (d mod ncol)) = false).
      { apply outside_false. split.
        - split; [lia|]. apply Nat2Z.inj_lt. apply Nat.div_lt_upper_bound; lia.
        - split; [lia|]. apply Nat2Z.inj_lt. apply Nat.mod_upper_bound. lia. }
      rewrite Hout. cbn [orb].
      assert (Hdv : valid ds d).
      { assert (Hiv : valid ds i) by (unfold valid, dsf, size; rewrite Hlen; fold d; lia).
        pose proof (Hwf i Hiv) as H. replace (dsf ds i) with d in H; [exact H|]. unfold d, dsf, size. rewrite Hlen. reflexivity. }
      destruct Hdv as [Hd1 Hd2]. unfold dsf, size in Hd1, Hd2. rewrite Hlen in Hd1, Hd2.
      rewrite (Hx d Hd1). unfold f, xy_cell. rewrite Hlen.
      destruct (Nat.leb_spec (nrow * ncol) (nth d ds (nrow * ncol)%nat)); [lia|].
      destruct (d =? nth d ds (nrow * ncol)%nat)%nat; cbn [fst].
      * assert (E3 : (nth 0 nextxy_pv 0 =? nextxy_mv) = false) by (vm_compute; reflexivity). rewrite E3. reflexivity.
      * destruct (Z.eqb_spec (Z.of_nat (nth d ds (nrow * ncol)%nat mod ncol) + 1) nextxy_mv) as [E3|E3]; [unfold nextxy_mv in E3; lia|]. reflexivity.
Qed.
End SourceD8LDD.

(* ---------- the nine (source, target) pairs ---------- *)
Section FromD8.
Variables nrow ncol : nat.
Variable flw : list Z.
Hypothesis Hlegal : legal d8_all flw d8_mv (nrow * ncol).
Let ds := d8_from_array nrow ncol flw.

Theorem roundtrip_from_d8 :
  (exists y, d8_to_array ncol ds = Some y /\ d8_from_array nrow ncol y = ds) /\
  (exists y, ldd_to_array ncol ds = Some y /\ ldd_from_array nrow ncol y = ds) /\
  nextxy_from_array nrow ncol (fst (nextxy_to_array ncol ds)) (snd (nextxy_to_array ncol ds)) = ds.
Proof.
  assert (Hl : length ds = (nrow * ncol)%nat) by apply decode_length.
  assert (Hw : wf ds) by apply decode_wf.
  assert (Hc : forall i, (i < nrow * ncol)%nat -> (nth i ds (nrow * ncol) <= nrow * ncol)%nat)
    by (apply decoded_canon).
  assert (Hn : nb8 nrow ncol ds) by (apply decoded_nb8; apply d8_legal_small; auto).
  split; [|split].
  - destruct (to_d8_total nrow ncol ds Hl Hn) as [y Hy]. exists y. split; auto. apply to_d8_roundtrip; auto.
  - destruct (to_ldd_total nrow ncol ds Hl Hn) as [y Hy]. exists y. split; auto. apply to_ldd_roundtrip; auto.
  - apply to_nextxy_roundtrip; auto.
Qed.
End FromD8.

Section FromLDD.
Variables nrow ncol : nat.
Variable flw : list Z.
Hypothesis Hlegal : legal ldd_all flw ldd_mv (nrow * ncol).
Let ds := ldd_from_array nrow ncol flw.

Theorem roundtrip_from_ldd :
  (exists y, d8_to_array ncol ds = Some y /\ d8_from_array nrow ncol y = ds) /\
  (exists y, ldd_to_array ncol ds = Some y /\ ldd_from_array nrow ncol y = ds) /\
  nextxy_from_array nrow ncol (fst (nextxy_to_array ncol ds)) (snd (nextxy_to_array ncol ds)) = ds.
Proof.
  assert (Hl : length ds = (nrow * ncol)%nat) by apply decode_length.
  assert (Hw : wf ds) by apply decode_wf.
  assert (Hc : forall i, (i < nrow * ncol)%nat -> (nth i ds (nrow * ncol) <= nrow * ncol)%nat)
    by (apply decoded_canon).
  assert (Hn : nb8 nrow ncol ds) by (apply decoded_nb8; apply ldd_legal_small; auto).
  split; [|split].
  - destruct (to_d8_total nrow ncol ds Hl Hn) as [y Hy]. exists y. split; auto. apply to_d8_roundtrip; auto.
  - destruct (to_ldd_total nrow ncol ds Hl Hn) as [y Hy]. exists y. split; auto. apply to_ldd_roundtrip; auto.
  - apply to_nextxy_roundtrip; auto.
Qed.
End FromLDD.

Section FromXY.
Variables nrow ncol : nat.
Variables nextx nexty : list Z.
Let ds := nextxy_from_array nrow ncol nextx nexty.

Lemma xy_canon i : (i < nrow * ncol)%nat -> (nth i ds (nrow * ncol) <= nrow * ncol)%nat.
Proof.
  intros Hi. pose proof (xy_decode_spec nrow ncol nextx nexty i Hi) as H. fold ds in H.
  remember (nth i ds (nrow * ncol)%nat) as x eqn:Ex. clear Ex.
  destruct H as [Hm|Hm _|t Hm _ _ Ht _ _ _]; lia.
Qed.

(* any NEXTXY network re-exports losslessly to NEXTXY; to D8/LDD whenever the export does not raise
   (i.e. whenever its links join 8-neighbours) *)
Theorem roundtrip_from_nextxy :
  (forall y, d8_to_array ncol ds = Some y -> d8_from_array nrow ncol y = ds) /\
  (forall y, ldd_to_array ncol ds = Some y -> ldd_from_array nrow ncol y = ds) /\
  (nb8 nrow ncol ds -> (exists y, d8_to_array ncol ds = Some y) /\ (exists y, ldd_to_array ncol ds = Some y)) /\
  nextxy_from_array nrow ncol (fst (nextxy_to_array ncol ds)) (snd (nextxy_to_array ncol ds)) = ds.
Proof.
  assert (Hl : length ds = (nrow * ncol)%nat) by (apply (xy_length nrow ncol)).
  assert (Hw : wf ds) by (apply (xy_decode_wf nrow ncol)).
  pose proof xy_canon as Hc.
  split; [|split; [|split]].
  - intros y. apply to_d8_roundtrip; auto.
  - intros y. apply to_ldd_roundtrip; auto.
  - intros Hn. split; [apply (to_d8_total nrow ncol)|apply (to_ldd_total nrow ncol)]; auto.
  - apply to_nextxy_roundtrip; auto.
Qed.
End FromXY.

(* ---------- export to the source format = documented canonicalisation ---------- *)
Section Canon.
Variable table : list (list Z).
Variable drdc : Z -> Z * Z.
Variable mv : Z.
Variable all : list Z.
Hypothesis Htab : forall v, In v all -> v <> mv ->
  drdc v = (0, 0) \/ table_at table (fst (drdc v)) (snd (drdc v)) = v.
Variables nrow ncol : nat.
Variable flw : list Z.
Hypothesis Hlegal : legal all flw mv (nrow * ncol).
Let ds := decode drdc mv nrow ncol flw.

(* nodata stays nodata; every pit variant, off-raster pointer and pointer into nodata becomes the
   primary pit code (the centre of the stencil); every other code is returned unchanged *)
Theorem export_canonical y : encode table mv ncol ds = Some y -> forall i, (i < nrow * ncol)%nat ->
  nth i y mv = if nth i flw mv =? mv then mv
               else if (nth i ds (nrow * ncol) =? i)%nat then table_at table 0 0 else nth i flw mv.
Proof.
  intros He i Hi. unfold encode in He.
  assert (Hl : length ds = (nrow * ncol)%nat) by apply decode_length. rewrite Hl in He.
  destruct (sequence_opt_some _ _ _ 0%nat mv He) as [_ Hy]. rewrite seq_length in Hy.
  specialize (Hy i Hi). rewrite seq_nth in Hy by auto. simpl in Hy. unfold encode_cell in Hy. rewrite Hl in Hy.
  assert (Hnc : (0 < ncol)%nat) by (destruct ncol; [rewrite Nat.mul_0_r in Hi; lia|lia]).
  pose proof (decode_spec drdc mv nrow ncol flw i Hi) as H. fold ds in H.
  remember (nth i ds (nrow * ncol)%nat) as x eqn:Ex.
  destruct H as [Hm|dr dc Hm Hdr Hp|dr dc t Hm Hdr Hnp Ht Hr Hc Hmt]; unfold cell in *.
  - rewrite Nat.leb_refl in Hy. apply Z.eqb_eq in Hm. rewrite Hm. congruence.
  - destruct (Nat.leb_spec (nrow * ncol) i); [lia|].
    replace (Z.of_nat (i / ncol) - Z.of_nat (i / ncol)) with 0 in Hy by lia.
    replace (Z.of_nat (i mod ncol) - Z.of_nat (i mod ncol)) with 0 in Hy by lia.
    simpl in Hy. apply Z.eqb_neq in Hm. rewrite Hm, Nat.eqb_refl. congruence.
  - destruct (Nat.leb_spec (nrow * ncol) t); [lia|].
    replace (Z.of_nat (t / ncol) - Z.of_nat (i / ncol)) with dr in Hy by lia.
    replace (Z.of_nat (t mod ncol) - Z.of_nat (i mod ncol)) with dc in Hy by lia.
    assert (Hin : In (nth i flw mv) all) by (apply Hlegal; auto).
    assert (Ht2 : t <> i).
    { intros ->. apply Hnp. split; lia. }
    apply Nat.eqb_neq in Ht2. rewrite Ht2. pose proof Hm as Hm'. apply Z.eqb_neq in Hm'. rewrite Hm'.
    destruct (Htab _ Hin Hm) as [E|E].
    + rewrite Hdr in E. inversion E; subst. exfalso. apply Hnp. auto.
    + rewrite Hdr in E. simpl in E.
      match type of Hy with (if ?b then _ else _) = _ => destruct b; [|discriminate] end. congruence.
Qed.
End Canon.

Lemma d8_tab : forall v, In v d8_all -> v <> d8_mv ->
  d8_drdc v = (0, 0) \/ table_at d8_ds (fst (d8_drdc v)) (snd (d8_drdc v)) = v.
Proof.
  assert (H : forallb (fun v => (v =? d8_mv) || pair_eqb (d8_drdc v) (0, 0)
                                || (table_at d8_ds (fst (d8_drdc v)) (snd (d8_drdc v)) =? v)) d8_all = true)
    by (vm_compute; reflexivity).
  rewrite forallb_forall in H. intros v Hin Hne. specialize (H v Hin).
  rewrite !orb_true_iff in H. destruct H as [[H|H]|H].
  - apply Z.eqb_eq in H. contradiction.
  - left. apply pair_eqb_eq; auto.
  - right. apply Z.eqb_eq; auto.
Qed.
Lemma ldd_tab : forall v, In v ldd_all -> v <> ldd_mv ->
  ldd_drdc v = (0, 0) \/ table_at ldd_ds (fst (ldd_drdc v)) (snd (ldd_drdc v)) = v.
Proof.
  assert (H : forallb (fun v => (v =? ldd_mv) || pair_eqb (ldd_drdc v) (0, 0)
                                || (table_at ldd_ds (fst (ldd_drdc v)) (snd (ldd_drdc v)) =? v)) ldd_all = true)
    by (vm_compute; reflexivity).
  rewrite forallb_forall in H. intros v Hin Hne. specialize (H v Hin).
  rewrite !orb_true_iff in H. destruct H as [[H|H]|H].
  - apply Z.eqb_eq in H. contradiction.
  - left. apply pair_eqb_eq; auto.
  - right. apply Z.eqb_eq; auto.
Qed.

(* ---------- direct D8 <-> LDD value remapping agrees with conversion through the graph ---------- *)
Section Remap.
Variables drdc1 drdc2 : Z -> Z * Z.
Variables mv1 mv2 : Z.
Variable all1 : list Z.
Variable f : Z -> Z.
Hypothesis Hmv : f mv1 = mv2.
Hypothesis Hf : forall v, In v all1 -> v <> mv1 -> f v <> mv2 /\ drdc2 (f v) = drdc1 v.
Variables nrow ncol : nat.
Variable flw : list Z.
Hypothesis Hlegal : legal all1 flw mv1 (nrow * ncol).

Theorem remap_decode : decode drdc2 mv2 nrow ncol (map f flw) = decode drdc1 mv1 nrow ncol flw.
Proof.
  unfold decode. apply map_ext_in. intros i Hi. apply in_seq in Hi.
  assert (Hn : forall j, nth j (map f flw) mv2 = f (nth j flw mv1)) by (intros j; rewrite <- Hmv; apply map_nth).
  assert (Hcell : forall j, (j < nrow * ncol)%nat -> (nth j (map f flw) mv2 =? mv2) = (nth j flw mv1 =? mv1)).
  { intros j Hj. rewrite Hn. destruct (Z.eqb_spec (nth j flw mv1) mv1) as [E|E].
    - rewrite E, Hmv. apply Z.eqb_refl.
    - apply Z.eqb_neq. apply Hf; auto. }
  unfold decode_cell, target_rc, cell. rewrite Hcell by lia.
  destruct (Z.eqb_spec (nth i flw mv1) mv1) as [E|E]; auto.
  rewrite Hn. destruct (Hf (nth i flw mv1)) as [_ Hd]; auto; [apply Hlegal; lia|]. rewrite Hd.
  destruct (drdc1 (nth i flw mv1)) as [dr dc].
  destruct ((dr =? 0) && (dc =? 0)); cbn [orb]; auto.
  destruct (outside nrow ncol (Z.of_nat (i / ncol) + dr) (Z.of_nat (i mod ncol) + dc)) eqn:Eo; cbn [orb]; auto.
  apply outside_false in Eo. destruct Eo as [Hr Hc].
  destruct (lin_index nrow ncol _ _ Hr Hc) as (Ht & _). rewrite Hcell by exact Ht. reflexivity.
Qed.
End Remap.

Lemma d8_to_ldd_ok : d8_to_ldd d8_mv = ldd_mv /\
  forall v, In v d8_all -> v <> d8_mv -> d8_to_ldd v <> ldd_mv /\ ldd_drdc (d8_to_ldd v) = d8_drdc v.
Proof.
  split; [vm_compute; reflexivity|].
  assert (H : forallb (fun v => (v =? d8_mv) || (negb (d8_to_ldd v =? ldd_mv) && pair_eqb (ldd_drdc (d8_to_ldd v)) (d8_drdc v))) d8_all = true)
    by (vm_compute; reflexivity).
  rewrite forallb_forall in H. intros v Hin Hne. specialize (H v Hin).
  apply orb_true_iff in H. destruct H as [H|H]; [apply Z.eqb_eq in H; contradiction|].
  apply andb_true_iff in H. destruct H as [H1 H2]. split; [apply Z.eqb_neq, negb_true_iff; auto|apply pair_eqb_eq; auto].
Qed.
Lemma ldd_to_d8_ok : ldd_to_d8 ldd_mv = d8_mv /\
  forall v, In v ldd_all -> v <> ldd_mv -> ldd_to_d8 v <> d8_mv /\ d8_drdc (ldd_to_d8 v) = ldd_drdc v.
Proof.
  split; [vm_compute; reflexivity|].
  assert (H : forallb (fun v => (v =? ldd_mv) || (negb (ldd_to_d8 v =? d8_mv) && pair_eqb (d8_drdc (ldd_to_d8 v)) (ldd_drdc v))) ldd_all = true)
    by (vm_compute; reflexivity).
  rewrite forallb_forall in H. intros v Hin Hne. specialize (H v Hin).
  apply orb_true_iff in H. destruct H as [H|H]; [apply Z.eqb_eq in H; contradiction|].
  apply andb_true_iff in H. destruct H as [H1 H2]. split; [apply Z.eqb_neq, negb_true_iff; auto|apply pair_eqb_eq; auto].
Qed.

(* bytes outside the source value set become nodata *)
Lemma assoc_none k l : ~ In k (map fst l) -> assoc k l = None.
Proof. induction l as [|[a b] t IH]; simpl; auto. intros H. destruct (Z.eqb_spec a k); [exfalso; apply H; auto|]. apply IH. tauto. Qed.

Lemma d8_to_ldd_unknown v : ~ In v d8_all -> d8_to_ldd v = ldd_mv.
Proof.
  intros H. unfold d8_to_ldd, remap_get.
  rewrite assoc_none; [rewrite assoc_none; [reflexivity|]|].
  - intros Hin. apply H. rewrite map_rev, <- in_rev in Hin. revert Hin. vm_compute. tauto.
  - intros Hin. apply H. revert Hin. vm_compute. tauto.
Qed.
Lemma ldd_to_d8_unknown v : ~ In v ldd_all -> ldd_to_d8 v = d8_mv.
Proof.
  intros H. unfold ldd_to_d8, remap_get.
  rewrite assoc_none; [rewrite assoc_none; [reflexivity|]|].
  - intros Hin. apply H. rewrite map_rev, <- in_rev in Hin. revert Hin. vm_compute. tauto.
  - intros Hin. apply H. revert Hin. vm_compute. tauto.
Qed.
