(* Models: core.fillnodata_upstream, basins.basins, regions.region_outlets. *)
From Coq Require Import List Arith ZArith Bool.
Import ListNotations.
From PF Require Import Arr Net SweepDown.
Open Scope Z_scope.

(* if data_out[idx0] == nodata and data_out[idx_ds] != nodata: data_out[idx0] = data_out[idx_ds] *)
Definition fill_f (nodata : Z) (_ : nat) (vds own : Z) : Z :=
  if (own =? nodata) && negb (vds =? nodata) then vds else own.

Definition fillnodata_upstream (ds : list nat) (seq : list nat) (data : list Z) (nodata : Z) : list Z :=
  sweep_down ds nodata (fill_f nodata) seq data.

(* basins[idxs_pit] = ids : sequential fancy assignment, later duplicates win *)
Definition seed (n : nat) (outs : list nat) (ids : list Z) : list Z :=
  fold_left (fun a p => upd a (fst p) (snd p)) (combine outs ids) (repeat 0 n).

Definition default_ids (k : nat) : list Z := map (fun i => Z.of_nat (S i)) (seq 0 k).

Definition basins (ds : list nat) (outs : list nat) (sq : list nat) (ids : list Z) : list Z :=
  fillnodata_upstream ds sq (seed (length ds) outs ids) 0.

(* FlwdirRaster.basins argument gate: 0 ok, 1 ValueError *)
Definition basins_gate (outs : list nat) (hasids : bool) (ids : list Z) : bool :=
  negb hasids || ((length ids =? length outs)%nat && forallb (fun v => negb (v =? 0)) ids).

(* regions.region_outlets: walk up- to downstream, keep cells whose downstream cell leaves
   the region (or that are pits), then order by label (stable insertion sort) *)
Fixpoint insert_lb (x : Z * nat) (l : list (Z * nat)) : list (Z * nat) :=
  match l with
  | [] => [x]
  | h :: t => if fst x <? fst h then x :: l else h :: insert_lb x t
  end.
Definition sort_lb (l : list (Z * nat)) : list (Z * nat) := fold_right insert_lb [] l.

Definition is_region_outlet (ds : list nat) (regions : list Z) (idx : nat) : bool :=
  let lb0 := nth idx regions 0 in
  let idx_ds := dsf ds idx in
  (lb0 >? 0) && ((idx_ds =? idx)%nat || negb (nth idx_ds regions 0 =? lb0)).

Definition region_outlets (ds : list nat) (regions : list Z) (sq : list nat) : list (Z * nat) :=
  sort_lb (map (fun idx => (nth idx regions 0, idx)) (filter (is_region_outlet ds regions) (rev sq))).
