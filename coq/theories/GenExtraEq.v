(* core.inflow_idxs, core.outflow_idxs, core.headwater_indices and core.confluence_indices, REGENERATED from the Python
   source (generated/GenLoops.v), equal the models of GenExtra.v.  The two index selections call the regenerated
   core.upstream_count, which equals the declarative count of Rank.v on a well-formed network (GenCountEq.v). *)
From Coq Require Import List Arith ZArith Bool Lia.
Import ListNotations.
From PF Require Import Arr Net Rank Stream GenExtra GenCountEq GenPitIndicesEq.
From PFG Require Import GenLoops.

Theorem gen_inflow_idxs_eq : forall ds sq region, gen_inflow_idxs ds sq region = inflow_idxs ds sq region.
Proof.
  intros ds sq region. unfold gen_inflow_idxs, inflow_idxs. cbv zeta.
  rewrite (fold_ext_all _ (inflow_step ds region)); [reflexivity|]. intros [out open] i. unfold gen_inflow_idxs_step, inflow_step.
  change (nth i ds (length ds)) with (dsf ds i). rewrite (Nat.eqb_sym i).
  destruct (dsf ds i =? i)%nat; cbn [negb]; [reflexivity|].
  reflexivity.
Qed.

Theorem gen_outflow_idxs_eq : forall ds sq region, gen_outflow_idxs ds sq region = outflow_idxs ds sq region.
Proof.
  intros ds sq region. unfold gen_outflow_idxs, outflow_idxs. cbv zeta.
  rewrite (fold_ext_all _ (outflow_step ds region)); [reflexivity|]. intros [out open] i. unfold gen_outflow_idxs_step, outflow_step.
  change (nth i ds (length ds)) with (dsf ds i).
  destruct (nth (dsf ds i) open false && nth i region false && ((dsf ds i =? i)%nat || negb (nth (dsf ds i) region false)));
    reflexivity.
Qed.

(* the entry of a cell in the declarative upstream count *)
Lemma nth_upstream_count ds mask j : (j < length ds)%nat ->
  nth j (upstream_count ds mask) 0%Z = if validb ds j then Z.of_nat (n_upstream ds mask j) else (-9)%Z.
Proof.
  intros Hj. unfold upstream_count, n_upstream, size.
  set (f := fun j => if validb ds j then Z.of_nat (length (filter (fun c => match mask with None => true | Some m => nth c m false end) (ups ds j))) else (-9)%Z).
  rewrite (nth_indep _ 0%Z (f 0%nat)) by (rewrite map_length, seq_length; exact Hj).
  rewrite (map_nth f), seq_nth by exact Hj. reflexivity.
Qed.

Lemma upstream_count_length ds mask : length (upstream_count ds mask) = length ds.
Proof. unfold upstream_count, size. rewrite map_length, seq_length. reflexivity. Qed.

Lemma filter_ext_seq (p q : nat -> bool) a n : (forall i, (a <= i < a + n)%nat -> p i = q i) -> filter p (seq a n) = filter q (seq a n).
Proof. intros H. apply filter_ext_in. intros i Hi. apply in_seq in Hi. apply H. exact Hi. Qed.

Theorem gen_headwater_indices_eq : forall ds mask, wf ds -> gen_headwater_indices ds mask = headwater_indices ds mask.
Proof.
  intros ds mask Hwf. unfold gen_headwater_indices, headwater_indices. cbv zeta.
  rewrite (gen_upstream_count_eq ds mask Hwf), upstream_count_length.
  apply filter_ext_seq. intros j Hj. rewrite nth_upstream_count by lia.
  destruct (validb ds j); cbn [andb]; [|reflexivity].
  destruct (Nat.eqb_spec (n_upstream ds mask j) 0) as [E|E]; [rewrite E; reflexivity|apply Z.eqb_neq; lia].
Qed.

Theorem gen_confluence_indices_eq : forall ds mask, wf ds -> gen_confluence_indices ds mask = confluence_indices ds mask.
Proof.
  intros ds mask Hwf. unfold gen_confluence_indices, confluence_indices. cbv zeta.
  rewrite (gen_upstream_count_eq ds mask Hwf), upstream_count_length.
  apply filter_ext_seq. intros j Hj. rewrite nth_upstream_count by lia.
  destruct (validb ds j); cbn [andb]; [|reflexivity].
  destruct (Nat.ltb_spec 1 (n_upstream ds mask j)) as [E|E]; [apply Z.gtb_lt|rewrite Z.gtb_ltb; apply Z.ltb_ge]; lia.
Qed.

Print Assumptions gen_inflow_idxs_eq.
Print Assumptions gen_outflow_idxs_eq.
Print Assumptions gen_headwater_indices_eq.
Print Assumptions gen_confluence_indices_eq.
