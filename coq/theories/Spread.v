(* Model: gis_utils.spread2d (nearest-source spreading with a lazy-deletion queue) over integer
   step costs, and the relabelling of regions.region_dissolve. *)
From Coq Require Import List Arith ZArith Bool.
Import ListNotations.
From PF Require Import Arr.
Local Open Scope Z_scope.

Definition nb8 : list (Z * Z) := [(-1,-1); (-1,0); (-1,1); (0,-1); (0,1); (1,-1); (1,0); (1,1)].

Section Spread.
Variables nrow ncol : nat.
Variable obs : list Z.
Variable msk : option (list bool).
Variable nodata : Z.
Variable frc : option (list Z).
Variables dx dy hyp : Z.        (* |dc*dx|, |dr*dy| and the diagonal step length (integers, e.g. 3-4-5) *)
Let sz := (nrow * ncol)%nat.

Definition mok (i : nat) : bool := match msk with None => true | Some m => nth i m false end.
Definition steplen (o : Z * Z) : Z := if fst o =? 0 then dx else if snd o =? 0 then dy else hyp.
Definition sinb (r c : Z) : bool := (0 <=? r) && (r <? Z.of_nat nrow) && (0 <=? c) && (c <? Z.of_nat ncol).

Record sstate := { s_out : list Z; s_src : list Z; s_dst : list Z; s_q : list (Z * nat) }.

Definition qlt (a b : Z * nat) : bool := (fst a <? fst b) || ((fst a =? fst b) && (snd a <? snd b)%nat).
Fixpoint qmin (q : list (Z * nat)) : option ((Z * nat) * list (Z * nat)) :=
  match q with
  | [] => None
  | x :: t => match qmin t with
              | None => Some (x, [])
              | Some (m, rest) => if qlt x m then Some (x, t) else Some (m, x :: rest)
              end
  end.

Definition relax (d0 : Z) (i0 : nat) (f0 : Z) (st : sstate) (o : Z * Z) : sstate :=
  let r1 := Z.of_nat (i0 / ncol) + fst o in let c1 := Z.of_nat (i0 mod ncol) + snd o in
  if negb (sinb r1 c1) then st else
  let j := Z.to_nat (r1 * Z.of_nat ncol + c1) in
  if negb (mok j) then st else
  let d := d0 + steplen o * f0 in
  if (nth j (s_src st) 0 =? -1) || (d <? nth j (s_dst st) 0) then
    let idx0 := nth i0 (s_src st) 0 in
    {| s_out := upd (s_out st) j (nth (Z.to_nat idx0) obs 0); s_src := upd (s_src st) j idx0;
       s_dst := upd (s_dst st) j d; s_q := (d, j) :: s_q st |}
  else st.

Fixpoint sloop (fuel : nat) (st : sstate) : sstate :=
  match fuel with
  | O => st
  | S f => match qmin (s_q st) with
           | None => st
           | Some ((d0, i0), rest) =>
             let st1 := {| s_out := s_out st; s_src := s_src st; s_dst := s_dst st; s_q := rest |} in
             if nth i0 (s_dst st) 0 <? d0 then sloop f st1      (* stale entry *)
             else sloop f (fold_left (relax d0 i0 (match frc with None => 1 | Some fr => nth i0 fr 1 end)) nb8 st1)
           end
  end.

Definition spread_init : sstate :=
  let cells := seq 0 sz in
  let isobs i := negb (nth i obs nodata =? nodata) in
  {| s_out := obs; s_src := map (fun i => if isobs i then Z.of_nat i else -1) cells; s_dst := map (fun _ => 0) cells;
     s_q := map (fun i => (0, i)) (filter (fun i => isobs i && mok i) cells) |}.

Definition spread2d : list Z * list Z * list Z :=
  let st := sloop (10 * sz + 10) spread_init in (s_out st, s_src st, s_dst st).
End Spread.

(* ---------- regions.region_dissolve ---------- *)
Fixpoint memz (x : Z) (l : list Z) : bool := match l with [] => false | y :: t => (x =? y) || memz x t end.
Fixpoint index_of (x : Z) (l : list Z) : option nat :=
  match l with [] => None | y :: t => if x =? y then Some O else match index_of x t with Some k => Some (S k) | None => None end end.

(* ndimage.minimum_position(dst, regions, label): a cell of the region with the smallest distance (the first one in
   row-major order; scipy's choice among equally distant cells is unspecified) *)
Definition argmin_region (regs dst : list Z) (lab : Z) : nat :=
  match fold_left (fun (best : option nat) i =>
                     if nth i regs 0 =? lab then
                       match best with
                       | None => Some i
                       | Some b => if nth i dst 0 <? nth b dst 0 then Some i else best
                       end
                     else best) (seq 0 (length regs)) None with
  | Some b => b | None => 0%nat end.

Definition dissolve_relabel (regs labels labels1 : list Z) : list Z :=
  map (fun x => match index_of x labels with Some k => nth k labels1 x | None => x end) regs.

(* pos = Some l: the caller's locations (idxs=...), labels are read there; pos = None: labels given, locations by
   smallest distance *)
Definition region_dissolve (nrow ncol : nat) (regs : list Z) (labels : list Z) (pos : option (list nat)) (dx dy hyp : Z) : list Z :=
  let labels := match pos with Some l => map (fun i => nth i regs 0) l | None => labels end in
  let regs0 := map (fun v => if memz v labels then 0 else v) regs in
  let '(out, _, dst) := spread2d nrow ncol regs0 None 0 None dx dy hyp in
  let idxs := match pos with Some l => l | None => map (argmin_region regs dst) labels end in
  dissolve_relabel regs labels (map (fun i => nth i out 0) idxs).
