(* C18: Pfafstetter codes use the digits 1-9 at every level (no zero digit, no carry into the next level). *)
From Coq Require Import List Arith ZArith Bool Lia.
Import ListNotations.
From PF Require Import Arr Net SweepDown Fill Rank Stream Subbas.
Local Open Scope Z_scope.

Definition digit (p v : Z) : Z := (v / 10 ^ p) mod 10.

Lemma pow10_pos p : 0 <= p -> 0 < 10 ^ p.
Proof. intros. apply Z.pow_pos_nonneg; lia. Qed.

Lemma pow10_split p q : 0 <= p <= q -> 10 ^ q = 10 ^ (q - p) * 10 ^ p.
Proof. intros H. rewrite <- Z.pow_add_r by lia. f_equal. lia. Qed.

(* adding c * 10^q leaves the digits below q alone *)
Lemma digit_add_low p q v c : 0 <= p < q -> digit p (v + c * 10 ^ q) = digit p v.
Proof.
  intros H. unfold digit. rewrite (pow10_split p q) by lia.
  replace (v + c * (10 ^ (q - p) * 10 ^ p)) with (v + (c * 10 ^ (q - p)) * 10 ^ p) by ring.
  rewrite Z.div_add by (pose proof (pow10_pos p); lia).
  replace (10 ^ (q - p)) with (10 * 10 ^ (q - p - 1)) by (rewrite <- Z.pow_succ_r by lia; f_equal; lia).
  replace (v / 10 ^ p + c * (10 * 10 ^ (q - p - 1))) with (v / 10 ^ p + (c * 10 ^ (q - p - 1)) * 10) by ring.
  apply Z.mod_add. lia.
Qed.

(* ... turns a digit 1 at position q into 1 + c when c <= 8 ... *)
Lemma digit_add_at q v c : 0 <= q -> digit q v = 1 -> 0 <= c <= 8 -> digit q (v + c * 10 ^ q) = 1 + c.
Proof.
  intros Hq Hd Hc. unfold digit in *. rewrite Z.div_add by (pose proof (pow10_pos q); lia).
  rewrite Z.add_mod by lia. rewrite Hd. rewrite (Z.mod_small c) by lia. apply Z.mod_small. lia.
Qed.

(* ... and, there being no carry, leaves the digits above q alone *)
Lemma digit_add_high p q v c : 0 <= q < p -> digit q v = 1 -> 0 <= c <= 8 -> digit p (v + c * 10 ^ q) = digit p v.
Proof.
  intros H Hd Hc. unfold digit in *.
  assert (HA : 0 < 10 ^ q) by (apply pow10_pos; lia).
  rewrite (pow10_split q p) by lia. rewrite (Z.mul_comm (10 ^ (p - q))).
  rewrite <- !Z.div_div by (try lia; apply pow10_pos; lia).
  rewrite Z.div_add by lia.
  set (w := v / 10 ^ q) in *.
  replace (10 ^ (p - q)) with (10 * 10 ^ (p - q - 1)) by (rewrite <- Z.pow_succ_r by lia; f_equal; lia).
  rewrite <- !Z.div_div by (try lia; apply pow10_pos; lia).
  f_equal. f_equal.
  (* (w + c) / 10 = w / 10 because w mod 10 = 1 and c <= 8 *)
  pose proof (Z.div_mod w 10 ltac:(lia)) as Hw. rewrite Hd in Hw.
  rewrite Hw at 1. replace (10 * (w / 10) + 1 + c) with ((1 + c) + (w / 10) * 10) by ring.
  rewrite Z.div_add by lia. rewrite (Z.div_small (1 + c)) by lia. lia.
Qed.

(* k ones: 1 + 10 + ... + 10^(k-1) *)
Fixpoint ones (k : nat) : Z := match k with O => 0 | S k' => ones k' + 10 ^ Z.of_nat k' end.

Lemma ones_bound k : 0 <= ones k < 10 ^ Z.of_nat k.
Proof.
  induction k as [|k IH]; [cbn; lia|]. cbn [ones]. rewrite Nat2Z.inj_succ, Z.pow_succ_r by lia.
  pose proof (pow10_pos (Z.of_nat k) ltac:(lia)). lia.
Qed.

Lemma ones_digit k p : 0 <= p < Z.of_nat k -> digit p (ones k) = 1.
Proof.
  induction k as [|k IH]; intros Hp; [lia|]. cbn [ones].
  destruct (Z.eq_dec p (Z.of_nat k)) as [->|Hne].
  - unfold digit. replace (ones k + 10 ^ Z.of_nat k) with (ones k + 1 * 10 ^ Z.of_nat k) by ring.
    rewrite Z.div_add by (pose proof (pow10_pos (Z.of_nat k)); lia).
    rewrite (Z.div_small (ones k)) by apply ones_bound. reflexivity.
  - replace (ones k + 10 ^ Z.of_nat k) with (ones k + 1 * 10 ^ Z.of_nat k) by ring.
    rewrite digit_add_low by lia. apply IH. lia.
Qed.

Lemma fold_ones len : forall s acc, acc = ones s ->
  fold_left (fun acc d0 => acc + pow10 (Z.of_nat d0)) (seq s len) acc = ones (s + len).
Proof.
  induction len as [|len IH]; intros s acc ->; cbn [seq fold_left]; [rewrite Nat.add_0_r; reflexivity|].
  rewrite (IH (S s)); [f_equal; lia|]. reflexivity.
Qed.

(* a label with digits 1-9 below `depth`; positions <= depth - d0 not yet refined (still 1) *)
Definition good (depth v : Z) : Prop := 0 <= v /\ forall p, 0 <= p < depth -> 1 <= digit p v <= 9.
Definition unrefined (depth d0 v : Z) : Prop := good depth v /\ forall p, 0 <= p <= depth - d0 -> digit p v = 1.

Lemma refine depth d0 v c : 1 <= d0 <= depth -> unrefined depth d0 v -> 1 <= c <= 8 ->
  good depth (v + c * pow10 (depth - d0)) /\ (d0 < depth -> unrefined depth (d0 + 1) (v + c * pow10 (depth - d0))).
Proof.
  intros Hd [[Hv Hg] Hu] Hc. unfold pow10. set (q := depth - d0).
  assert (Hq : 0 <= q < depth) by (unfold q; lia).
  assert (Hdq : digit q v = 1) by (apply Hu; unfold q; lia).
  assert (G : good depth (v + c * 10 ^ q)).
  { split; [pose proof (pow10_pos q); nia|]. intros p Hp.
    destruct (Z.lt_trichotomy p q) as [H|[->|H]].
    - rewrite digit_add_low by lia. apply Hg. lia.
    - rewrite digit_add_at by lia. lia.
    - rewrite digit_add_high by lia. apply Hg. lia. }
  split; [exact G|]. intros Hlt. split; [exact G|]. intros p Hp. rewrite digit_add_low by (unfold q; lia). apply Hu. lia.
Qed.

(* ---------- the invariant of the labelling loops ---------- *)
Definition okv (depth v : Z) : Prop := v = 0 \/ good depth v.
Definition allok (depth : Z) (l : list Z) : Prop := forall j, okv depth (nth j l 0).

Lemma allok_upd depth l i v : allok depth l -> okv depth v -> allok depth (upd l i v).
Proof. intros Hl Hv j. rewrite nth_upd. destruct ((j =? i)%nat && (i <? length l)%nat); auto. Qed.

Lemma allok_repeat depth n : allok depth (repeat 0 n).
Proof. intros j. left. destruct (Nat.lt_ge_cases j n); [apply nth_repeat|apply nth_overflow; rewrite repeat_length; auto]. Qed.

Lemma climb_ok depth fuel n main stop lab : okv depth lab -> forall branch cur, allok depth branch ->
  allok depth (climb fuel n main stop lab branch cur).
Proof.
  intros Hlab. induction fuel as [|f IH]; intros branch cur Hb; cbn [climb]; [exact Hb|].
  destruct ((n <=? nth cur main n)%nat || stop branch (nth cur main n)); [exact Hb|].
  apply IH. apply allok_upd; auto.
Qed.

Lemma insert_desc_length key x l : length (insert_desc key x l) = S (length l).
Proof. induction l as [|h t IH]; cbn [insert_desc]; [reflexivity|]. destruct (key h <=? key x); cbn [length]; [reflexivity|]. rewrite IH. reflexivity. Qed.
Lemma sort_desc_length key l : length (sort_desc key l) = length l.
Proof. induction l as [|h t IH]; cbn [sort_desc fold_right]; [reflexivity|]. fold (sort_desc key t). rewrite insert_desc_length, IH. reflexivity. Qed.

Section PfafInv.
Variable ds : list nat.
Variable main : list nat.
Variable uparea : list Z.
Variable strord : list Z.
Variable trib : list nat.
Variable depth : Z.
Hypothesis Hdepth : 1 <= depth.

Definition labsok (labs : list (Z * Z)) : Prop := forall pf d0, In (pf, d0) labs -> 1 <= d0 <= depth /\ unrefined depth d0 pf.

Lemma labsok_app l1 l2 : labsok l1 -> labsok l2 -> labsok (l1 ++ l2).
Proof. intros H1 H2 pf d0 Hin. apply in_app_iff in Hin. destruct Hin; [apply H1|apply H2]; auto. Qed.
Lemma labsok_one pf d0 : 1 <= d0 <= depth -> unrefined depth d0 pf -> labsok [(pf, d0)].
Proof. intros H1 H2 pf' d0' [E|[]]. inversion E; subst. auto. Qed.

Lemma pfaf_trib_ok d0 pfaf0 branch idxs labs pint i idx : 1 <= d0 <= depth -> unrefined depth d0 pfaf0 -> (i < 4)%nat ->
  allok depth branch -> labsok labs ->
  let r := pfaf_trib ds main strord depth d0 pfaf0 (branch, idxs, labs, pint) (i, idx) in
  allok depth (fst (fst (fst r))) /\ labsok (snd (fst r)).
Proof.
  intros Hd Hu Hi Hb Hl. cbn [pfaf_trib].
  destruct (refine depth d0 pfaf0 (Z.of_nat i * 2 + 1) Hd Hu ltac:(lia)) as [Gs Us].
  destruct (refine depth d0 pfaf0 ((Z.of_nat i + 1) * 2) Hd Hu ltac:(lia)) as [Gi Ui].
  set (psub := pfaf0 + (Z.of_nat i * 2 + 1) * pow10 (depth - d0)) in *.
  set (pint' := pfaf0 + (Z.of_nat i + 1) * 2 * pow10 (depth - d0)) in *.
  set (b1 := climb (length ds) (length ds) main (stop_so strord) psub (upd branch idx psub) idx).
  assert (Hb1 : allok depth b1) by (apply climb_ok; [right; exact Gs|apply allok_upd; [exact Hb|right; exact Gs]]).
  set (labs1 := if d0 <? depth then labs ++ [(psub, d0 + 1)] else labs).
  assert (Hl1 : labsok labs1).
  { unfold labs1. destruct (Z.ltb_spec d0 depth) as [Hlt|Hge]; [|exact Hl].
    apply labsok_app; [exact Hl|apply labsok_one; [lia|apply Us; exact Hlt]]. }
  destruct (negb (memb (nth (dsf ds idx) main (length ds)) (idxs ++ [idx]))); cbn [fst snd].
  - split.
    + apply climb_ok; [right; exact Gi|apply allok_upd; [exact Hb1|right; exact Gi]].
    + destruct (Z.ltb_spec d0 depth) as [Hlt|Hge]; [|exact Hl1].
      apply labsok_app; [exact Hl1|apply labsok_one; [lia|apply Ui; exact Hlt]].
  - split; [exact Hb1|exact Hl1].
Qed.

Lemma fold_trib_ok d0 pfaf0 : 1 <= d0 <= depth -> unrefined depth d0 pfaf0 ->
  forall (l : list (nat * nat)) st, (forall ix, In ix l -> (fst ix < 4)%nat) ->
  allok depth (fst (fst (fst st))) -> labsok (snd (fst st)) ->
  let r := fold_left (pfaf_trib ds main strord depth d0 pfaf0) l st in
  allok depth (fst (fst (fst r))) /\ labsok (snd (fst r)).
Proof.
  intros Hd Hu. induction l as [|[i idx] l IH]; intros st Hi Hb Hl; cbn [fold_left]; [split; auto|].
  destruct st as [[[branch idxs] labs] pint]. cbn [fst snd] in Hb, Hl.
  destruct (pfaf_trib_ok d0 pfaf0 branch idxs labs pint i idx Hd Hu (Hi (i, idx) (or_introl eq_refl)) Hb Hl) as [Hb' Hl'].
  apply IH; [intros ix Hix; apply Hi; right; exact Hix|exact Hb'|exact Hl'].
Qed.

Lemma pfaf_loop_ok fuel : forall branch idxs labs, allok depth branch -> labsok labs ->
  allok depth (fst (pfaf_loop ds main uparea strord trib depth fuel branch idxs labs)).
Proof.
  induction fuel as [|f IH]; intros branch idxs labs Hb Hl; cbn [pfaf_loop]; [exact Hb|].
  destruct labs as [|[pfaf0 d0] labs']; [exact Hb|].
  assert (Hl' : labsok labs') by (intros pf d Hin; apply Hl; right; exact Hin).
  destruct (Hl pfaf0 d0 (or_introl eq_refl)) as [Hd Hu].
  set (idxs0 := filter (fun idx => (nth idx branch 0 =? 0) && (nth (dsf ds idx) branch 0 =? pfaf0)) trib).
  destruct idxs0 as [|e0 rest] eqn:E0; [apply IH; auto|].
  set (top4 := firstn 4 (sort_desc (fun i => nth i uparea 0) (e0 :: rest))).
  set (ordered := sort_desc (fun i => nth (dsf ds i) uparea 0) top4).
  assert (Hlen : (length ordered <= 4)%nat) by (unfold ordered, top4; rewrite sort_desc_length, firstn_length; apply Nat.le_min_l).
  pose proof (fold_trib_ok d0 pfaf0 Hd Hu (combine (seq 0 (length ordered)) ordered) (branch, idxs, labs', pfaf0)) as HF.
  cbn [fst snd] in HF. specialize (HF ltac:(intros [i x] Hin; apply in_combine_l in Hin; apply in_seq in Hin; cbn [fst]; lia) Hb Hl').
  destruct (fold_left (pfaf_trib ds main strord depth d0 pfaf0) (combine (seq 0 (length ordered)) ordered) (branch, idxs, labs', pfaf0)) as [[[b ix] lb] pi].
  cbn [fst snd] in HF. destruct HF as [Hb2 Hl2]. apply IH; auto.
Qed.
End PfafInv.

(* ---------- the public result ---------- *)
Lemma digit_mod depth v p : 0 <= p < depth -> 0 <= v -> digit p (v mod 10 ^ depth) = digit p v.
Proof.
  intros Hp Hv. pose proof (pow10_pos depth ltac:(lia)) as HD.
  rewrite (Z.div_mod v (10 ^ depth)) at 2 by lia.
  rewrite (Z.add_comm (10 ^ depth * (v / 10 ^ depth))), (Z.mul_comm (10 ^ depth)).
  rewrite digit_add_low by lia. reflexivity.
Qed.

Lemma nth_map0 (f : Z -> Z) l j : f 0 = 0 -> nth j (map f l) 0 = f (nth j l 0).
Proof. intros H. rewrite <- H at 1. apply map_nth. Qed.

Theorem pfaf_digits ds pits sq main uparea mask depth : 1 <= depth -> forall j,
  let v := nth j (fst (subbasins_pfafstetter ds pits sq main uparea mask depth)) 0 in
  v = 0 \/ (0 < v < 10 ^ depth /\ forall p, 0 <= p < depth -> 1 <= digit p v <= 9).
Proof.
  intros Hdepth j. unfold subbasins_pfafstetter.
  set (n := length ds).
  set (so := map (fun v => if v <=? depth + 1 then v else 0) (stream_order ds sq main mask)).
  set (trib := filter (fun i => (nth i so 0 >? 0) && (nth i so 0 >? nth (dsf ds i) so 0)) sq).
  set (pfaf_base := fold_left (fun acc d0 => acc + pow10 (Z.of_nat d0)) (seq 1 (Z.to_nat depth - 1)) 1).
  assert (Hbase : pfaf_base = ones (Z.to_nat depth)).
  { unfold pfaf_base. rewrite (fold_ones (Z.to_nat depth - 1) 1 1) by (cbn; reflexivity). f_equal. lia. }
  (* the labels seeded at the pits *)
  assert (Hinit : forall (l : list (nat * nat)) st, allok depth (fst (fst st)) -> labsok depth (snd st) ->
     let r := fold_left (fun (st : list Z * list nat * list (Z * Z)) (ip : nat * nat) =>
                let '(branch, idxs, labs) := st in
                let '(i, idx) := ip in
                let pfaf1 := pfaf_base + (Z.of_nat i + 1) * pow10 depth in
                (climb n n main (stop_so so) pfaf1 (upd branch idx pfaf1) idx, idxs ++ [idx], labs ++ [(pfaf1, 1)])) l st in
     allok depth (fst (fst r)) /\ labsok depth (snd r)).
  { induction l as [|[i idx] l IH]; intros [[branch idxs] labs] Hb Hl; cbn [fold_left]; [split; auto|].
    cbn [fst snd] in Hb, Hl. apply IH; cbn [fst snd].
    - assert (G : good depth (pfaf_base + (Z.of_nat i + 1) * pow10 depth)).
      { split; [rewrite Hbase; pose proof (ones_bound (Z.to_nat depth)); pose proof (pow10_pos depth ltac:(lia)); unfold pow10; nia|].
        intros p Hp. unfold pow10. rewrite digit_add_low by lia. rewrite Hbase, ones_digit by lia. lia. }
      apply climb_ok; [right; exact G|apply allok_upd; [exact Hb|right; exact G]].
    - apply labsok_app; [exact Hl|]. apply labsok_one; [lia|]. split.
      + split; [rewrite Hbase; pose proof (ones_bound (Z.to_nat depth)); pose proof (pow10_pos depth ltac:(lia)); unfold pow10; nia|].
        intros p Hp. unfold pow10. rewrite digit_add_low by lia. rewrite Hbase, ones_digit by lia. lia.
      + intros p Hp. unfold pow10. rewrite digit_add_low by lia. rewrite Hbase, ones_digit by lia. reflexivity. }
  specialize (Hinit (combine (seq 0 (length pits)) pits) (repeat 0 n, [], []) (allok_repeat depth n) ltac:(intros pf d0 [])).
  cbv zeta in Hinit.
  destruct (fold_left _ (combine (seq 0 (length pits)) pits) (repeat 0 n, [], [])) as [[branch0 idxs0] labs0].
  cbn [fst snd] in Hinit. destruct Hinit as [Hb0 Hl0].
  pose proof (pfaf_loop_ok ds main uparea so trib depth (4 * n + 8) branch0 idxs0 labs0 Hb0 Hl0) as Hloop.
  destruct (pfaf_loop ds main uparea so trib depth (4 * n + 8) branch0 idxs0 labs0) as [branch idxs]. cbn [fst] in *.
  (* filling upstream only copies labels *)
  assert (Hfill : allok depth (fillnodata_upstream ds sq branch 0)).
  { unfold fillnodata_upstream, sweep_down. generalize branch Hloop. induction sq as [|i l IH]; intros a Ha; cbn [fold_left]; [exact Ha|].
    apply IH. unfold dstep. apply allok_upd; [exact Ha|]. unfold fill_f. destruct ((nth i a 0 =? 0) && negb (nth (dsf ds i) a 0 =? 0)); apply Ha. }
  cbv zeta.
  rewrite (nth_map0 (fun v => v mod pow10 depth)) by (cbv beta; apply Z.mod_0_l; pose proof (pow10_pos depth ltac:(lia)); unfold pow10; lia).
  cbv beta. unfold pow10.
  destruct (Hfill j) as [E|[Hv Hg]]; [left; rewrite E; apply Z.mod_0_l; pose proof (pow10_pos depth ltac:(lia)); lia|].
  right. pose proof (pow10_pos depth ltac:(lia)) as HD.
  pose proof (Z.mod_pos_bound (nth j (fillnodata_upstream ds sq branch 0) 0) (10 ^ depth) HD) as Hmb.
  assert (Hdig : forall p, 0 <= p < depth -> 1 <= digit p (nth j (fillnodata_upstream ds sq branch 0) 0 mod 10 ^ depth) <= 9)
    by (intros p Hp; rewrite digit_mod by lia; apply Hg; exact Hp).
  split; [|exact Hdig].
  assert (Hnz : nth j (fillnodata_upstream ds sq branch 0) 0 mod 10 ^ depth <> 0).
  { intros E. specialize (Hdig 0 ltac:(lia)). rewrite E in Hdig. unfold digit in Hdig. cbn in Hdig. lia. }
  lia.
Qed.
