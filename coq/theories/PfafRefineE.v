(* Pfafstetter refinement, part E (phase 1): the run at depth d and the run at depth d + 1 proceed in lockstep while
   the shallower run still has work; the labels of the deeper run are the images under v |-> 10 v + 1. *)
From Coq Require Import List Arith ZArith Bool Lia.
Import ListNotations.
From PF Require Import Arr Net SweepDown Fill FillSpec Rank Stream Subbas PfafDigits.
From PF Require Import PfafClosureA PfafClosureB PfafClosureC PfafClosureD PfafClosureE PfafClosureF PfafClosure.
From PF Require Import PfafRefineA PfafRefineB PfafRefineC PfafRefineD.
Local Open Scope Z_scope.

(* ---------- the cut of the stream order at depth + 1 and at depth + 2 ---------- *)
Lemma cut0 d : cut d 0 = 0.
Proof. unfold cut. destruct (0 <=? d + 1); reflexivity. Qed.

Lemma cut_zero_eq d x : x <> d + 2 -> (cut (d + 1) x =? 0) = (cut d x =? 0).
Proof.
  intros H. unfold cut. destruct (Z.leb_spec x (d + 1 + 1)) as [A|A]; destruct (Z.leb_spec x (d + 1)) as [B|B];
    try reflexivity; lia.
Qed.

Lemma cut_pos_le d x : 0 < cut d x -> x <= d + 1 /\ cut d x = x.
Proof. unfold cut. destruct (Z.leb_spec x (d + 1)) as [A|A]; intros H; [split; [exact A|reflexivity]|lia]. Qed.

Lemma gtb_self_false c : (c >? 0) && (c >? c) = false.
Proof. rewrite (Z.gtb_ltb c c), Z.ltb_irrefl. apply andb_false_r. Qed.

Lemma cut_test_eq d a w : 1 <= d -> a = 0 \/ a = w \/ a = w + 1 -> cut d w <= d ->
  (cut (d + 1) a >? 0) && (cut (d + 1) a >? cut (d + 1) w) = (cut d a >? 0) && (cut d a >? cut d w).
Proof.
  intros Hd Ha Hw. destruct Ha as [-> | [-> | ->]].
  - rewrite !cut0. reflexivity.
  - rewrite !gtb_self_false. reflexivity.
  - revert Hw. unfold cut.
    destruct (Z.leb_spec (w + 1) (d + 1 + 1)) as [A|A]; destruct (Z.leb_spec (w + 1) (d + 1)) as [B|B];
      destruct (Z.leb_spec w (d + 1 + 1)) as [C|C]; destruct (Z.leb_spec w (d + 1)) as [D|D]; intros Hw;
      try reflexivity; lia.
Qed.

Section Sim.
Variables (ds main : list nat) (uparea : list Z) (sq : list nat) (O : list Z) (depth : Z).
Let n := length ds.
Notation mn x := (nth x main n).
Notation dsf := (dsf ds).
Notation ord c := (nth c O 0).
Hypothesis Hdepth : 1 <= depth.
Hypothesis HO1 : forall c, ord (mn c) = 0 \/ ord (mn c) = ord c.
Hypothesis HO2 : forall t, In t sq -> dsf t <> t -> ord t = 0 \/ ord t = ord (dsf t) \/ ord t = ord (dsf t) + 1.

Definition so1 := map (cut depth) O.
Definition so2 := map (cut (depth + 1)) O.
Definition trib_test (so : list Z) (i : nat) : bool := (nth i so 0 >? 0) && (nth i so 0 >? nth (dsf i) so 0).
Definition trib1 := filter (trib_test so1) sq.
Definition trib2 := filter (trib_test so2) sq.

Lemma so1_nth c : nth c so1 0 = cut depth (ord c).
Proof. unfold so1. apply nth_map0. apply cut0. Qed.
Lemma so2_nth c : nth c so2 0 = cut (depth + 1) (ord c).
Proof. unfold so2. apply nth_map0. apply cut0. Qed.

Lemma HSO1_1 : forall c, nth (mn c) so1 0 = 0 \/ nth (mn c) so1 0 = nth c so1 0.
Proof. intros c. rewrite !so1_nth. destruct (HO1 c) as [E|E]; rewrite E; [left; apply cut0|right; reflexivity]. Qed.

Lemma trib1_in t : In t trib1 -> In t sq /\ dsf t <> t /\ ord t <= depth + 1 /\ ord t <> depth + 2 /\
  nth t so1 0 <= nth (dsf t) so1 0 + 1.
Proof.
  intros H. unfold trib1 in H. apply filter_In in H. destruct H as [Hs Hc]. unfold trib_test in Hc.
  apply andb_true_iff in Hc. destruct Hc as [C1 C2]. apply Z.gtb_lt in C1. apply Z.gtb_lt in C2.
  rewrite !so1_nth in *. destruct (cut_pos_le depth (ord t) C1) as [L1 L2].
  assert (Hnp : dsf t <> t) by (intros E; rewrite E in C2; lia).
  split; [exact Hs|]. split; [exact Hnp|]. split; [exact L1|]. split; [lia|].
  destruct (HO2 t Hs Hnp) as [E|[E|E]].
  - rewrite E, cut0 in C1. lia.
  - rewrite E in C2. lia.
  - rewrite L2. rewrite E. unfold cut. destruct (Z.leb_spec (ord (dsf t)) (depth + 1)) as [A|A]; lia.
Qed.

Lemma HSOT_1 : forall t, In t trib1 -> nth t so1 0 <= nth (dsf t) so1 0 + 1.
Proof. intros t H. apply (trib1_in t H). Qed.

(* ---------- the same tributaries pass the filter in both runs ---------- *)
Lemma trib_filter_eq b p d0 : Q2 so1 depth b -> unrefined depth d0 p -> 1 <= d0 <= depth -> 0 < p ->
  filter (fun idx => (nth idx (map fz b) 0 =? 0) && (nth (dsf idx) (map fz b) 0 =? fz p)) trib2 =
  filter (fun idx => (nth idx b 0 =? 0) && (nth (dsf idx) b 0 =? p)) trib1.
Proof.
  intros HQ Hu Hd Hp. unfold trib1, trib2. apply filter_filter_ext. intros x Hx.
  rewrite !nth_map_fz, fz_eqb0, fz_eqb.
  destruct ((lab b x =? 0) && (lab b (dsf x) =? p)) eqn:Eg; [|rewrite !andb_false_r; reflexivity].
  rewrite !andb_true_r. apply andb_true_iff in Eg. destruct Eg as [_ Eg]. apply Z.eqb_eq in Eg.
  unfold trib_test. rewrite !so1_nth, !so2_nth.
  destruct (Nat.eq_dec (dsf x) x) as [Ep|Enp]; [rewrite Ep, !gtb_self_false; reflexivity|].
  apply cut_test_eq; [exact Hdepth|apply HO2; assumption|].
  rewrite <- so1_nth.
  assert (H : nth (dsf x) so1 0 <= d0).
  { apply (okv_pop depth d0 p); [exact Hu|lia|lia|]. rewrite <- Eg. apply HQ. }
  lia.
Qed.

Lemma ordered_eq b p d0 : Q2 so1 depth b -> unrefined depth d0 p -> 1 <= d0 <= depth -> 0 < p ->
  ordered_of ds uparea trib2 (map fz b) (fz p) = ordered_of ds uparea trib1 b p.
Proof. intros HQ Hu Hd Hp. unfold ordered_of. rewrite (trib_filter_eq b p d0 HQ Hu Hd Hp). reflexivity. Qed.

(* ---------- the climbs ---------- *)
Lemma climb_sim_so v : forall fuel b cur, ord cur <> depth + 2 ->
  climb fuel n main (stop_so so2) (fz v) (map fz b) cur = map fz (climb fuel n main (stop_so so1) v b cur).
Proof.
  induction fuel as [|f IH]; intros b cur Hc; cbn [climb]; [reflexivity|].
  assert (Hu : ord (mn cur) <> depth + 2) by (destruct (HO1 cur) as [E|E]; rewrite E; lia).
  unfold stop_so at 1 3. rewrite so1_nth, so2_nth, (cut_zero_eq depth _ Hu).
  destruct ((n <=? mn cur)%nat || (cut depth (ord (mn cur)) =? 0)); [reflexivity|].
  rewrite <- map_upd. apply IH. exact Hu.
Qed.

Lemma climb_sim_X X v : forall fuel b cur,
  climb fuel n main (stopX (fz X)) (fz v) (map fz b) cur = map fz (climb fuel n main (stopX X) v b cur).
Proof.
  induction fuel as [|f IH]; intros b cur; cbn [climb]; [reflexivity|].
  unfold stopX at 1 3. rewrite nth_map_fz, fz_eqb.
  destruct ((n <=? mn cur)%nat || negb (lab b (mn cur) =? X)); [reflexivity|].
  rewrite <- map_upd. apply IH.
Qed.

Lemma trib_core_sim psub pint b idxs X t : ord t <> depth + 2 ->
  trib_core ds main so2 (fz psub) (fz pint) (map fz b) idxs (fz X) t =
  let '(b', idxs', X', cr) := trib_core ds main so1 psub pint b idxs X t in (map fz b', idxs', fz X', cr).
Proof.
  intros Ht. unfold trib_core. fold n. rewrite <- (map_upd fz b t psub).
  rewrite (climb_sim_so psub n (upd b t psub) t Ht).
  destruct (negb (memb (mn (dsf t)) (idxs ++ [t]))); [|reflexivity].
  rewrite <- map_upd, climb_sim_X. reflexivity.
Qed.

(* ---------- one tributary step ---------- *)
Lemma child_label p k d0 : 0 < p -> 0 <= k -> 1 <= d0 <= depth ->
  fz p + k * pow10 (depth + 1 - d0) = fz (p + k * pow10 (depth - d0)).
Proof.
  intros Hp Hk Hd. replace (depth + 1 - d0) with (depth - d0 + 1) by lia. rewrite pow10_S by lia.
  assert (Hq : 0 < pow10 (depth - d0)) by (unfold pow10; apply Z.pow_pos_nonneg; lia).
  rewrite fz_add by lia. reflexivity.
Qed.

Lemma pfaf_trib_sim_lt d0 p b idxs labs1 X i t : 1 <= d0 < depth -> 0 < p -> ord t <> depth + 2 ->
  pfaf_trib ds main so2 (depth + 1) d0 (fz p) (map fz b, idxs, map FE labs1, fz X) (i, t) =
  let '(b', idxs', labs1', X') := pfaf_trib ds main so1 depth d0 p (b, idxs, labs1, X) (i, t) in
  (map fz b', idxs', map FE labs1', fz X').
Proof.
  intros Hd Hp Ht.
  pose proof (pfaf_trib_core ds main so2 (depth + 1) d0 (fz p) (map fz b) idxs (map FE labs1) (fz X) i t) as E2.
  pose proof (pfaf_trib_core ds main so1 depth d0 p b idxs labs1 X i t) as E1.
  cbv zeta in E1, E2. rewrite E1, E2. clear E1 E2.
  rewrite (child_label p (Z.of_nat i * 2 + 1) d0) by lia.
  rewrite (child_label p ((Z.of_nat i + 1) * 2) d0) by lia.
  rewrite (trib_core_sim _ _ b idxs X t Ht).
  destruct (trib_core ds main so1 _ _ b idxs X t) as [[[b' idxs'] X'] cr].
  destruct (Z.ltb_spec d0 (depth + 1)) as [A|A]; [|lia]. destruct (Z.ltb_spec d0 depth) as [B|B]; [|lia].
  destruct cr; rewrite ?map_app; reflexivity.
Qed.

Lemma pfaf_trib_sim_eq p b idxs labs1 L2 X i t : 0 < p -> ord t <> depth + 2 ->
  exists ch, (forall e, In e ch -> snd e = depth + 1) /\
  pfaf_trib ds main so2 (depth + 1) depth (fz p) (map fz b, idxs, L2, fz X) (i, t) =
  (let '(b', idxs', labs1', X') := pfaf_trib ds main so1 depth depth p (b, idxs, labs1, X) (i, t) in
   (map fz b', idxs', L2 ++ ch, fz X')) /\
  snd (fst (pfaf_trib ds main so1 depth depth p (b, idxs, labs1, X) (i, t))) = labs1.
Proof.
  intros Hp Ht.
  pose proof (pfaf_trib_core ds main so2 (depth + 1) depth (fz p) (map fz b) idxs L2 (fz X) i t) as E2.
  pose proof (pfaf_trib_core ds main so1 depth depth p b idxs labs1 X i t) as E1.
  cbv zeta in E1, E2. rewrite E1, E2. clear E1 E2.
  rewrite (child_label p (Z.of_nat i * 2 + 1) depth) by lia.
  rewrite (child_label p ((Z.of_nat i + 1) * 2) depth) by lia.
  rewrite (trib_core_sim _ _ b idxs X t Ht).
  destruct (trib_core ds main so1 _ _ b idxs X t) as [[[b' idxs'] X'] cr].
  destruct (Z.ltb_spec depth (depth + 1)) as [A|A]; [|lia]. rewrite Z.ltb_irrefl.
  destruct cr; cbn [fst snd].
  - eexists [_; _]. split; [|split; [rewrite <- app_assoc; reflexivity|reflexivity]].
    intros e [<-|[<-|[]]]; reflexivity.
  - eexists [_]. split; [|split; reflexivity]. intros e [<-|[]]; reflexivity.
Qed.

(* ---------- the fold over the tributaries of one pop ---------- *)
Lemma fold_sim_lt d0 p : 1 <= d0 < depth -> 0 < p -> forall (l : list (nat * nat)) b idxs labs1 X,
  (forall i t, In (i, t) l -> ord t <> depth + 2) ->
  fold_left (pfaf_trib ds main so2 (depth + 1) d0 (fz p)) l (map fz b, idxs, map FE labs1, fz X) =
  let '(b', idxs', labs1', X') := fold_left (pfaf_trib ds main so1 depth d0 p) l (b, idxs, labs1, X) in
  (map fz b', idxs', map FE labs1', fz X').
Proof.
  intros Hd Hp. induction l as [|[i t] l IH]; intros b idxs labs1 X Hl; cbn [fold_left]; [reflexivity|].
  rewrite (pfaf_trib_sim_lt d0 p b idxs labs1 X i t Hd Hp (Hl i t (or_introl eq_refl))).
  destruct (pfaf_trib ds main so1 depth d0 p (b, idxs, labs1, X) (i, t)) as [[[b1 ix1] lb1] X1].
  apply IH. intros i' t' H. apply (Hl i'). right. exact H.
Qed.

Lemma fold_sim_eq p : 0 < p -> forall (l : list (nat * nat)) b idxs labs1 L2 X,
  (forall i t, In (i, t) l -> ord t <> depth + 2) ->
  exists ch, (forall e, In e ch -> snd e = depth + 1) /\
  fold_left (pfaf_trib ds main so2 (depth + 1) depth (fz p)) l (map fz b, idxs, L2, fz X) =
  (let '(b', idxs', labs1', X') := fold_left (pfaf_trib ds main so1 depth depth p) l (b, idxs, labs1, X) in
   (map fz b', idxs', L2 ++ ch, fz X')) /\
  snd (fst (fold_left (pfaf_trib ds main so1 depth depth p) l (b, idxs, labs1, X))) = labs1.
Proof.
  intros Hp. induction l as [|[i t] l IH]; intros b idxs labs1 L2 X Hl; cbn [fold_left].
  - exists []. split; [intros e []|]. split; [rewrite app_nil_r; reflexivity|reflexivity].
  - destruct (pfaf_trib_sim_eq p b idxs labs1 L2 X i t Hp (Hl i t (or_introl eq_refl))) as (ch1 & C1 & E1 & N1).
    rewrite E1. clear E1.
    destruct (pfaf_trib ds main so1 depth depth p (b, idxs, labs1, X) (i, t)) as [[[b1 ix1] lb1] X1].
    cbn [fst snd] in N1. subst lb1.
    destruct (IH b1 ix1 labs1 (L2 ++ ch1) X1 ltac:(intros i' t' H; apply (Hl i'); right; exact H)) as (ch2 & C2 & E2 & N2).
    exists (ch1 ++ ch2). split; [|split; [|exact N2]].
    + intros e He. apply in_app_or in He. destruct He as [He|He]; [apply C1|apply C2]; exact He.
    + rewrite E2. destruct (fold_left _ l (b1, ix1, labs1, X1)) as [[[b' ix'] lb'] X']. rewrite app_assoc. reflexivity.
Qed.

(* ---------- one pop ---------- *)
Lemma ordered_ord b p t : In t (ordered_of ds uparea trib1 b p) -> ord t <> depth + 2.
Proof. intros H. apply ordered_in in H. destruct H as [H _]. apply (trib1_in t H). Qed.

Lemma pop_sim_lt b idxs p d0 rest1 : Q2 so1 depth b -> unrefined depth d0 p -> 1 <= d0 < depth -> 0 < p ->
  pfaf_pop ds main uparea so2 trib2 (depth + 1) (map fz b) idxs (fz p) d0 (map FE rest1) =
  let '(b', ix, lb) := pfaf_pop ds main uparea so1 trib1 depth b idxs p d0 rest1 in (map fz b', ix, map FE lb).
Proof.
  intros HQ Hu Hd Hp. rewrite !pfaf_pop_eq. cbv zeta. rewrite (ordered_eq b p d0 HQ Hu ltac:(lia) Hp).
  set (ordered := ordered_of ds uparea trib1 b p).
  rewrite (fold_sim_lt d0 p Hd Hp (combine (seq 0 (length ordered)) ordered) b idxs rest1 p).
  - destruct (fold_left _ _ (b, idxs, rest1, p)) as [[[b' ix] lb] X']. reflexivity.
  - intros i t H. apply combine_seq_in in H. apply (ordered_ord b p t). apply H.
Qed.

Lemma pop_sim_eq b idxs p rest1 L2 : Q2 so1 depth b -> unrefined depth depth p -> 0 < p ->
  exists ch, (forall e, In e ch -> snd e = depth + 1) /\
  pfaf_pop ds main uparea so2 trib2 (depth + 1) (map fz b) idxs (fz p) depth L2 =
  (let '(b', ix, lb) := pfaf_pop ds main uparea so1 trib1 depth b idxs p depth rest1 in (map fz b', ix, L2 ++ ch)) /\
  snd (pfaf_pop ds main uparea so1 trib1 depth b idxs p depth rest1) = rest1.
Proof.
  intros HQ Hu Hp. rewrite !pfaf_pop_eq. cbv zeta. rewrite (ordered_eq b p depth HQ Hu ltac:(lia) Hp).
  set (ordered := ordered_of ds uparea trib1 b p).
  destruct (fold_sim_eq p Hp (combine (seq 0 (length ordered)) ordered) b idxs rest1 L2 p) as (ch & C & E & N).
  { intros i t H. apply combine_seq_in in H. apply (ordered_ord b p t). apply H. }
  exists ch. split; [exact C|]. rewrite E.
  destruct (fold_left _ _ (b, idxs, rest1, p)) as [[[b' ix] lb] X']. cbn [fst snd] in *. split; [reflexivity|exact N].
Qed.

(* ---------- the loop over the pits ---------- *)
Lemma pit_step_sim base b idxs labs i p : 0 <= base -> ord p <> depth + 2 ->
  pit_step n main so2 (depth + 1) (10 * base + 1) (map fz b, idxs, map FE labs) (i, p) =
  let '(b', ix, lb) := pit_step n main so1 depth base (b, idxs, labs) (i, p) in (map fz b', ix, map FE lb).
Proof.
  intros Hb Hp. unfold pit_step.
  assert (Hq : 0 < pow10 depth) by (unfold pow10; apply Z.pow_pos_nonneg; lia).
  assert (E : 10 * base + 1 + (Z.of_nat i + 1) * pow10 (depth + 1) = fz (base + (Z.of_nat i + 1) * pow10 depth)).
  { rewrite pow10_S by lia. rewrite fz_pos by nia. ring. }
  rewrite E. rewrite <- map_upd. rewrite (climb_sim_so _ n _ p Hp). rewrite map_app. reflexivity.
Qed.

Lemma pit_fold_sim base : 0 <= base -> forall (l : list (nat * nat)) b idxs labs,
  (forall i p, In (i, p) l -> ord p <> depth + 2) ->
  fold_left (pit_step n main so2 (depth + 1) (10 * base + 1)) l (map fz b, idxs, map FE labs) =
  let '(b', ix, lb) := fold_left (pit_step n main so1 depth base) l (b, idxs, labs) in (map fz b', ix, map FE lb).
Proof.
  intros Hb. induction l as [|[i p] l IH]; intros b idxs labs Hl; cbn [fold_left]; [reflexivity|].
  rewrite (pit_step_sim base b idxs labs i p Hb (Hl i p (or_introl eq_refl))).
  destruct (pit_step n main so1 depth base (b, idxs, labs) (i, p)) as [[b1 ix1] lb1].
  apply IH. intros i' p' H. apply (Hl i'). right. exact H.
Qed.

(* ---------- the two work loops ---------- *)
Variable rk : nat -> nat.
Hypothesis Hrk : forall c, (c < n)%nat -> (dsf c < n)%nat -> dsf c <> c -> (rk (dsf c) < rk c)%nat.
Hypothesis Hrkn : forall c, (c < n)%nat -> (dsf c < n)%nat -> (rk c < n)%nat.
Hypothesis HM : forall x, (mn x < n)%nat -> dsf (mn x) = x /\ mn x <> x.
Notation ua c := (nth c uparea 0).
Hypothesis Hua : forall c, (c < n)%nat -> (dsf c < n)%nat -> dsf c <> c -> ua c < ua (dsf c).
Hypothesis HT2 : forall t, In t trib2 ->
  (t < n)%nat /\ (dsf t < n)%nat /\ dsf t <> t /\ mn (dsf t) <> t /\ (mn (dsf t) < n)%nat.
Hypothesis Ht : topo ds sq.
Hypothesis Hcomp : forall c, (c < n)%nat -> (dsf c < n)%nat -> In c sq.

Lemma trib2_NoDup : NoDup trib2.
Proof. unfold trib2. apply NoDup_filter. apply (topo_NoDup ds). exact Ht. Qed.

Lemma Estep_True b0 idxs0 pfaf0 d0 : Estep ds main so2 uparea trib2 (depth + 1) (fun _ => True) b0 idxs0 pfaf0 d0.
Proof. unfold Estep. intros. exact I. Qed.

Lemma labsok_FE_head p d0 rest L : labsok (depth + 1) (map FE ((p, d0) :: rest) ++ L) -> labsok (depth + 1) (map FE rest ++ L).
Proof. intros H pf d Hin. apply H. cbn [map app]. right. exact Hin. Qed.

Lemma phase1 fuel : forall b1 idxs labs1 ex,
  allok depth b1 -> labsok depth labs1 -> Q2 so1 depth b1 -> bfs labs1 ->
  LINV ds main (depth + 1) (map fz b1) idxs (map FE labs1 ++ ex) ->
  allok (depth + 1) (map fz b1) -> labsok (depth + 1) (map FE labs1 ++ ex) ->
  (forall e, In e ex -> snd e = depth + 1) -> (ex = [] \/ forall e, In e labs1 -> snd e = depth) ->
  let r1 := pfaf_loop ds main uparea so1 trib1 depth fuel b1 idxs labs1 in
  let r2 := pfaf_loop ds main uparea so2 trib2 (depth + 1) fuel (map fz b1) idxs (map FE labs1 ++ ex) in
  length (fst r1) = length ds /\ REF ds sq (fst r1) (fst r2).
Proof.
  induction fuel as [|f IH]; intros b1 idxs labs1 ex Hb1 Hl1 HQ Hbfs HL2 Hb2 Hl2 Hex Hor; cbv zeta.
  - cbn [pfaf_loop fst].
    assert (Hlen : length b1 = length ds).
    { destruct HL2 as (HI & _). pose proof (inv_len _ _ _ _ HI) as H. rewrite map_length in H. exact H. }
    split; [exact Hlen|]. apply REF_map; assumption.
  - assert (Hlen : length b1 = length ds).
    { destruct HL2 as (HI & _). pose proof (inv_len _ _ _ _ HI) as H. rewrite map_length in H. exact H. }
    destruct labs1 as [|[p d0] rest1].
    + (* the shallower run has finished: phase 2 *)
      cbn [map app]. rewrite pfaf_loop_nil. cbn [fst]. split; [exact Hlen|].
      apply (phase2 ds main so2 rk Hrk Hrkn HM uparea Hua trib2 HT2 trib2_NoDup (depth + 1) sq b1 Ht Hcomp Hlen
               (S f) (map fz b1) idxs ex HL2 Hb2 Hl2 Hex).
      apply REF_map; assumption.
    + cbn [map app]. unfold FE at 1. cbn [fst snd]. rewrite !pfaf_loop_S.
      destruct (Hl1 p d0 (or_introl eq_refl)) as [Hd Hu].
      assert (Hp : 0 < p).
      { destruct Hu as [[G0 G1] _]. specialize (G1 0 ltac:(lia)).
        destruct (Z.eq_dec p 0) as [->|N]; [unfold digit in G1; cbn in G1; lia|lia]. }
      (* facts about the pop of run 1 *)
      pose proof (pop_ok ds main uparea so1 trib1 depth b1 idxs p d0 rest1 Hb1 Hl1) as [P1 P2].
      pose proof (pop_Q2 ds main uparea so1 trib1 depth HSO1_1 HSOT_1 b1 idxs p d0 rest1 Hd Hu Hp HQ) as P3.
      destruct (pop_labs ds main uparea so1 trib1 depth b1 idxs p d0 rest1) as (ch1 & P4 & P5 & P6).
      (* facts about the pop of run 2 *)
      pose proof (pop_linvE ds main so2 rk Hrk Hrkn HM uparea Hua trib2 HT2 trib2_NoDup (depth + 1) (fun _ => True)
                    (map fz b1) idxs (fz p) d0 (map FE rest1 ++ ex) HL2 I (Estep_True _ _ _ _)) as [S1 _].
      pose proof (pop_ok ds main uparea so2 trib2 (depth + 1) (map fz b1) idxs (fz p) d0 (map FE rest1 ++ ex) Hb2 Hl2) as [S2 S3].
      cbv zeta in P1, P2, P4, S1, S2, S3.
      destruct (Z.lt_ge_cases d0 depth) as [Hlt|Hge].
      * (* an entry above the deepest level of run 1: both runs queue the children *)
        assert (Eex : ex = []).
        { destruct Hor as [E|E]; [exact E|]. specialize (E (p, d0) (or_introl eq_refl)). cbn [snd] in E. lia. }
        subst ex. rewrite app_nil_r in *.
        pose proof (pop_sim_lt b1 idxs p d0 rest1 HQ Hu ltac:(lia) Hp) as ES.
        destruct (pfaf_pop ds main uparea so1 trib1 depth b1 idxs p d0 rest1) as [[b1' ix1] lb1]. cbn [fst snd] in *.
        rewrite ES in *. cbn [fst snd] in *.
        specialize (IH b1' ix1 lb1 []). rewrite app_nil_r in IH. cbv zeta in IH.
        apply IH; [exact P1|exact P2|exact P3| |exact S1|exact S2|exact S3|exact Hex|left; reflexivity].
        rewrite P4. apply (bfs_pop (p, d0) rest1 ch1 Hbfs). intros c Hc. cbn [snd]. apply P5. exact Hc.
      * (* an entry of the deepest level of run 1: only run 2 queues the children *)
        assert (Ed : d0 = depth) by lia. subst d0.
        destruct (pop_sim_eq b1 idxs p rest1 (map FE rest1 ++ ex) HQ Hu Hp) as (ch & C & ES & N).
        destruct (pfaf_pop ds main uparea so1 trib1 depth b1 idxs p depth rest1) as [[b1' ix1] lb1]. cbn [fst snd] in *.
        clear N. rewrite (P6 ltac:(lia)), app_nil_r in P4. subst lb1.
        rewrite ES in *. cbn [fst snd] in *.
        rewrite <- app_assoc in *.
        specialize (IH b1' ix1 rest1 (ex ++ ch)). cbv zeta in IH.
        assert (Hlev : forall x, In x rest1 -> snd x = depth).
        { apply (bfs_head_max (p, depth) rest1 Hbfs). intros x Hx. destruct x as [px dx].
          destruct (Hl1 px dx (or_intror Hx)) as [Hdx _]. cbn [snd]. lia. }
        apply IH; [exact P1|exact P2|exact P3| |exact S1|exact S2|exact S3| |right; exact Hlev].
        -- destruct Hbfs as [[_ B1] B2]. split; [exact B1|].
           intros e e' He He'. apply B2; right; assumption.
        -- intros e He. apply in_app_or in He. destruct He as [He|He]; [apply Hex|apply C]; exact He.
Qed.

End Sim.
