(* C18: sub-basin maps are upstream-closed partitions consistent with their outlets. *)
From Coq Require Import List Arith ZArith Lia Bool.
Import ListNotations.
From PF Require Import Arr Net SweepDown Fill FillSpec Rank Stream Subbas.
Local Open Scope Z_scope.

(* sb carries k+1 at the k-th returned outlet and 0 everywhere else *)
Definition seeded (n : nat) (sb : list Z) (idxs : list nat) : Prop :=
  length sb = n /\ NoDup idxs /\
  (forall k, (k < length idxs)%nat -> (nth k idxs 0 < n)%nat /\ nth (nth k idxs 0%nat) sb 0 = Z.of_nat k + 1) /\
  (forall j, ~ In j idxs -> nth j sb 0 = 0).

Lemma seeded_init n : seeded n (repeat 0 n) [].
Proof. split; [apply repeat_length|]. split; [constructor|]. split; [intros k Hk; simpl in Hk; lia|].
  intros j _. clear. revert j. induction n as [|n IH]; intros [|j]; simpl; auto. Qed.

Lemma seeded_add n sb idxs x : seeded n sb idxs -> ~ In x idxs -> (x < n)%nat ->
  seeded n (upd sb x (Z.of_nat (length idxs) + 1)) (idxs ++ [x]).
Proof.
  intros (Hl & Hnd & Hin & Hout) Hx Hxn. split; [rewrite upd_length; auto|]. split.
  - apply NoDup_snoc; auto.
  - split.
    + intros k Hk. rewrite app_length in Hk. simpl in Hk.
      destruct (Nat.eq_dec k (length idxs)) as [->|Hne].
      * rewrite app_nth2 by lia. rewrite Nat.sub_diag. simpl. split; auto. apply nth_upd_eq. lia.
      * assert (Hk' : (k < length idxs)%nat) by lia. rewrite app_nth1 by auto.
        destruct (Hin k Hk') as [H1 H2]. split; auto. rewrite nth_upd_neq; auto.
        intros E. apply Hx. rewrite <- E. apply nth_In. auto.
    + intros j Hj. rewrite nth_upd_neq; [apply Hout|]; intros H; apply Hj; apply in_or_app; [left; auto|right; left; auto].
Qed.

(* with seeds of that form, filling nodata upstream gives the closure property of the statement *)
Section Closure.
Variable ds : list nat.
Variables (sq : list nat) (sb : list Z) (idxs : list nat).
Hypothesis Ht : topo ds sq.
Hypothesis Hs : seeded (length ds) sb idxs.
Hypothesis Hin : forall x, In x idxs -> In x sq.
Let L := fillnodata_upstream ds sq sb 0.

(* every returned outlet carries its own label *)
Theorem outlet_own_label k : (k < length idxs)%nat -> nth (nth k idxs 0%nat) L 0 = Z.of_nat k + 1.
Proof.
  intros Hk. destruct Hs as (Hl & Hnd & Hi & Ho). destruct (Hi k Hk) as [Hn Hv].
  destruct (fill_up_spec ds 0 sb sq) as (_ & H2 & _); auto.
  assert (Hq : In (nth k idxs 0%nat) sq) by (apply Hin, nth_In; auto).
  destruct (H2 _ Hq) as (m & Hm1 & Hm2). fold L in Hm2.
  destruct m as [|m].
  - simpl in Hm2. destruct Hm2 as [[_ E]|(E & _)]; [rewrite E; exact Hv|rewrite Hv in E; lia].
  - exfalso. destruct (Hm1 0%nat ltac:(lia)) as [E _]. simpl in E. rewrite Hv in E. lia.
Qed.

(* every ordered cell has the label of the first returned outlet on its downstream path (itself
   included), and label 0 exactly when the walk ends in a pit without meeting one *)
Theorem label_first_outlet i : In i sq ->
  exists m, (forall j, (j < m)%nat -> ~ In (iter ds j i) idxs /\ dsf ds (iter ds j i) <> iter ds j i) /\
    ((exists k, (k < length idxs)%nat /\ iter ds m i = nth k idxs 0%nat /\ nth i L 0 = Z.of_nat k + 1) \/
     (~ In (iter ds m i) idxs /\ dsf ds (iter ds m i) = iter ds m i /\ nth i L 0 = 0)).
Proof.
  intros Hi. destruct Hs as (Hl & Hnd & Hix & Ho).
  destruct (fill_up_spec ds 0 sb sq) as (_ & H2 & _); auto.
  destruct (H2 i Hi) as (m & Hm1 & Hm2). fold L in Hm2. exists m. split.
  - intros j Hj. destruct (Hm1 j Hj) as [E Hnp]. split; auto.
    intros Hc. destruct (In_nth _ _ 0%nat Hc) as (k & Hk & Ek). destruct (Hix k Hk) as [_ Hv].
    rewrite Ek in Hv. rewrite Hv in E. lia.
  - destruct Hm2 as [[Hnz E]|(Hz & Hp & E)].
    + left. destruct (in_dec Nat.eq_dec (iter ds m i) idxs) as [Y|N]; [|rewrite (Ho _ N) in Hnz; contradiction].
      destruct (In_nth _ _ 0%nat Y) as (k & Hk & Ek). exists k. split; auto. split; auto.
      rewrite E. rewrite <- Ek. apply Hix. auto.
    + right. split; [|auto]. intros Hc. destruct (In_nth _ _ 0%nat Hc) as (k & Hk & Ek). destruct (Hix k Hk) as [_ Hv].
      rewrite Ek in Hv. rewrite Hv in Hz. lia.
Qed.
End Closure.

(* ---------- the two methods produce seeds of that form ---------- *)
Lemma sto_fold_seeded ds strord mask ms l : forall sb idxs, NoDup l -> (forall x, In x l -> (x < length ds)%nat) ->
  seeded (length ds) sb idxs -> (forall x, In x idxs -> ~ In x l) ->
  let st := fold_left (sto_step ds strord mask ms) l (sb, idxs) in
  seeded (length ds) (fst st) (snd st) /\ (forall x, In x (snd st) -> In x idxs \/ In x l).
Proof.
  induction l as [|i l IH]; intros sb idxs Hnd Hb Hs Hd; cbn [fold_left].
  - simpl. split; auto.
  - inversion Hnd as [|x l' Hni Hnd']; subst.
    assert (Hstep : exists sb' idxs', sto_step ds strord mask ms (sb, idxs) i = (sb', idxs') /\ seeded (length ds) sb' idxs' /\
              (forall x, In x idxs' -> In x idxs \/ x = i)).
    { unfold sto_step. destruct (negb (mget mask i) || (nth i strord 0 <? ms)); [exists sb, idxs; auto|].
      destruct (negb (nth i strord 0 =? nth (dsf ds i) strord 0) || (dsf ds i =? i)%nat); [|exists sb, idxs; auto].
      exists (upd sb i (Z.of_nat (length idxs) + 1)), (idxs ++ [i]). split; auto. split.
      - apply seeded_add; auto. intros H. apply (Hd i H). left; auto. apply Hb. left; auto.
      - intros x Hx. apply in_app_or in Hx. destruct Hx as [Hx|[Hx|[]]]; auto. }
    destruct Hstep as (sb' & idxs' & E & Hs' & Hsub). rewrite E.
    destruct (IH sb' idxs' Hnd' (fun x Hx => Hb x (or_intror Hx)) Hs') as [H1 H2].
    + intros x Hx Hl. destruct (Hsub x Hx) as [H| ->]; [apply (Hd x H); right; auto|contradiction].
    + split; auto. intros x Hx. destruct (H2 x Hx) as [H|H]; [|right; right; auto].
      destruct (Hsub x H) as [H'| ->]; [left; auto|right; left; auto].
Qed.

Theorem streamorder_seeded ds sq strord mask min_sto : topo ds sq ->
  let ms := if min_sto <? 0 then fold_right Z.max 0 strord + min_sto else min_sto in
  let st := fold_left (sto_step ds strord mask ms) (rev sq) (repeat 0 (length ds), []) in
  seeded (length ds) (fst st) (snd st) /\ (forall x, In x (snd st) -> In x sq) /\
  subbasins_streamorder ds sq strord mask min_sto = (fillnodata_upstream ds sq (fst st) 0, snd st).
Proof.
  intros Ht ms st.
  destruct (sto_fold_seeded ds strord mask ms (rev sq) (repeat 0 (length ds)) []) as [H1 H2].
  - apply NoDup_rev. apply (topo_NoDup ds); auto.
  - intros x Hx. rewrite <- in_rev in Hx. destruct (topo_valid ds sq x Ht Hx); auto.
  - apply seeded_init.
  - intros x [].
  - split; [exact H1|]. split.
    + intros x Hx. destruct (H2 x Hx) as [[]|H]. rewrite <- in_rev in H. auto.
    + unfold subbasins_streamorder. fold ms. fold st. destruct st as [a b]. reflexivity.
Qed.

Lemma area_fold_seeded ds main uparea amin l : forall upa sb idxs, NoDup l -> (forall x, In x l -> (x < length ds)%nat) ->
  seeded (length ds) sb idxs -> (forall x, In x idxs -> ~ In x l) ->
  let st := fold_left (area_step ds main uparea amin) l (upa, sb, idxs) in
  seeded (length ds) (snd (fst st)) (snd st) /\ (forall x, In x (snd st) -> In x idxs \/ In x l).
Proof.
  induction l as [|i l IH]; intros upa sb idxs Hnd Hb Hs Hd; cbn [fold_left].
  - simpl. split; auto.
  - inversion Hnd as [|x l' Hni Hnd']; subst.
    assert (Hadd : seeded (length ds) (upd sb i (Z.of_nat (length idxs) + 1)) (idxs ++ [i])).
    { apply seeded_add; auto. intros H. apply (Hd i H). left; auto. apply Hb. left; auto. }
    assert (Hsubadd : forall x, In x (idxs ++ [i]) -> In x idxs \/ x = i).
    { intros x Hx. apply in_app_or in Hx. destruct Hx as [Hx|[Hx|[]]]; auto. }
    assert (Hstep : exists upa' sb' idxs', area_step ds main uparea amin (upa, sb, idxs) i = (upa', sb', idxs') /\
              seeded (length ds) sb' idxs' /\ (forall x, In x idxs' -> In x idxs \/ x = i)).
    { unfold area_step. destruct (dsf ds i =? i)%nat; [eexists; eexists; eexists; split; [reflexivity|auto]|].
      destruct ((nth (dsf ds i) upa 0 - nth i uparea 0 >? amin) && (nth i uparea 0 >? amin));
        [|eexists; eexists; eexists; split; [reflexivity|auto]].
      destruct (negb (nth (dsf ds i) uparea 0 - nth i uparea 0 >? amin) || negb (nth (dsf ds i) main (length ds) =? i)%nat);
        destruct (negb (nth (dsf ds i) main (length ds) =? i)%nat);
        eexists; eexists; eexists; (split; [reflexivity|auto]). }
    destruct Hstep as (upa' & sb' & idxs' & E & Hs' & Hsub). rewrite E.
    destruct (IH upa' sb' idxs' Hnd' (fun x Hx => Hb x (or_intror Hx)) Hs') as [H1 H2].
    + intros x Hx Hl. destruct (Hsub x Hx) as [H| ->]; [apply (Hd x H); right; auto|contradiction].
    + split; auto. intros x Hx. destruct (H2 x Hx) as [H|H]; [|right; right; auto].
      destruct (Hsub x H) as [H'| ->]; [left; auto|right; left; auto].
Qed.

Theorem area_seeded ds sq main uparea amin : topo ds sq ->
  let st := fold_left (area_step ds main uparea amin) sq (uparea, repeat 0 (length ds), []) in
  seeded (length ds) (snd (fst st)) (snd st) /\ (forall x, In x (snd st) -> In x sq) /\
  subbasins_area ds sq main uparea amin = (fillnodata_upstream ds sq (snd (fst st)) 0, snd st).
Proof.
  intros Ht st.
  destruct (area_fold_seeded ds main uparea amin sq uparea (repeat 0 (length ds)) []) as [H1 H2].
  - apply (topo_NoDup ds); auto.
  - intros x Hx. destruct (topo_valid ds sq x Ht Hx); auto.
  - apply seeded_init.
  - intros x [].
  - split; [exact H1|]. split.
    + intros x Hx. destruct (H2 x Hx) as [[]|H]. auto.
    + unfold subbasins_area. fold st. destruct st as [[a b] c]. reflexivity.
Qed.

(* stream-order sub-basins start where the order changes downstream (or at a pit), at cells where the mask holds *)
Theorem sto_outlet_condition ds strord mask ms l : forall sb idxs x,
  In x (snd (fold_left (sto_step ds strord mask ms) l (sb, idxs))) -> In x idxs \/
  (In x l /\ mget mask x = true /\ ms <= nth x strord 0 /\ (nth x strord 0 <> nth (dsf ds x) strord 0 \/ dsf ds x = x)).
Proof.
  induction l as [|i l IH]; intros sb idxs x Hx; cbn [fold_left] in Hx; [left; exact Hx|].
  unfold sto_step at 2 in Hx.
  destruct (mget mask i) eqn:Em; cbn [negb orb] in Hx;
    [|destruct (IH _ _ _ Hx) as [H|(H1 & H2)]; [left; auto|right; split; [right; auto|auto]]].
  destruct (Z.ltb_spec (nth i strord 0) ms) as [Hlt|Hge].
  - destruct (IH _ _ _ Hx) as [H|(H1 & H2)]; [left; auto|right; split; [right; auto|auto]].
  - destruct (negb (nth i strord 0 =? nth (dsf ds i) strord 0) || (dsf ds i =? i)%nat) eqn:Ec.
    + destruct (IH _ _ _ Hx) as [H|(H1 & H2)]; [|right; split; [right; auto|auto]].
      apply in_app_or in H. destruct H as [H|[<-|[]]]; [left; auto|right].
      split; [left; auto|]. split; [exact Em|]. split; [lia|]. apply orb_true_iff in Ec. destruct Ec as [Ec|Ec].
      * left. apply negb_true_iff, Z.eqb_neq in Ec. auto.
      * right. apply Nat.eqb_eq. auto.
    + destruct (IH _ _ _ Hx) as [H|(H1 & H2)]; [left; auto|right; split; [right; auto|auto]].
Qed.

(* mask: consider only True cells -- every outlet returned under a mask `Some m` is a cell where m holds *)
Theorem streamorder_outlets_masked ds sq strord m min_sto x :
  In x (snd (subbasins_streamorder ds sq strord (Some m) min_sto)) -> nth x m false = true.
Proof.
  unfold subbasins_streamorder. cbv zeta.
  set (ms := if min_sto <? 0 then fold_right Z.max 0 strord + min_sto else min_sto).
  destruct (fold_left (sto_step ds strord (Some m) ms) (rev sq) (repeat 0 (length ds), [])) as [sb ix] eqn:E.
  cbn [snd]. intros Hx.
  destruct (sto_outlet_condition ds strord (Some m) ms (rev sq) (repeat 0 (length ds)) [] x) as [[]|(_ & Hm & _)].
  - rewrite E. exact Hx.
  - exact Hm.
Qed.

(* minimum-area sub-basins that do not end at a pit drain more than the area threshold, and cutting them off leaves
   more than the threshold in the basin downstream *)
Theorem area_outlet_condition ds main uparea amin l : forall upa sb idxs x,
  In x (snd (fold_left (area_step ds main uparea amin) l (upa, sb, idxs))) -> In x idxs \/
  (In x l /\ (dsf ds x = x \/ amin < nth x uparea 0)).
Proof.
  induction l as [|i l IH]; intros upa sb idxs x Hx; cbn [fold_left] in Hx; [left; exact Hx|].
  assert (Hstep : exists upa' sb' idxs', area_step ds main uparea amin (upa, sb, idxs) i = (upa', sb', idxs') /\
            (forall y, In y idxs' -> In y idxs \/ (y = i /\ (dsf ds i = i \/ amin < nth i uparea 0)))).
  { unfold area_step. destruct (Nat.eqb_spec (dsf ds i) i) as [Ep|Np].
    - eexists; eexists; eexists; split; [reflexivity|]. intros y Hy. apply in_app_or in Hy.
      destruct Hy as [Hy|[<-|[]]]; auto.
    - destruct ((nth (dsf ds i) upa 0 - nth i uparea 0 >? amin) && (nth i uparea 0 >? amin)) eqn:Ec;
        [|eexists; eexists; eexists; split; [reflexivity|auto]].
      apply andb_true_iff in Ec. destruct Ec as [_ Ec]. apply Z.gtb_lt in Ec.
      destruct (negb (nth (dsf ds i) uparea 0 - nth i uparea 0 >? amin) || negb (nth (dsf ds i) main (length ds) =? i)%nat);
        destruct (negb (nth (dsf ds i) main (length ds) =? i)%nat);
        eexists; eexists; eexists; (split; [reflexivity|]); auto;
        intros y Hy; apply in_app_or in Hy; destruct Hy as [Hy|[<-|[]]]; auto. }
  destruct Hstep as (upa' & sb' & idxs' & E & Hsub). rewrite E in Hx.
  destruct (IH _ _ _ _ Hx) as [H|(H1 & H2)]; [|right; split; [right; auto|auto]].
  destruct (Hsub x H) as [H'|(-> & H')]; [left; auto|right; split; [left; auto|auto]].
Qed.
