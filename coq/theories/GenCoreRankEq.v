(* core.rank and core.loop_indices REGENERATED from the Python source (generated/GenCore.v: the outer `for`, the inner
   `while True` walk with its explicit stack and the two `while len(idxs_lst) > 0` loops that pop it, each `while` a
   Fixpoint over explicit fuel, None when the fuel is used up) ARE the hand-written models Rank.rank / Rank.loop_indices
   (walk, assign, mark) that the theorems of C03 / C13 are about, on every closed network (wf), loops included: the fuel
   the generated definition passes (the number of cells for the walk, the height of the stack for the pops) is never used
   up.  The node count is a Python integer in the generated text and a nat in the model.  No axiom. *)
From Coq Require Import List Arith ZArith Bool Lia.
Import ListNotations.
From PF Require Import Arr Net Rank RankSpec GenCoreBaseEq.
From PFG Require Import GenCore.
Local Open Scope Z_scope.

Section RankEq.
Variable ds : list nat.
Notation n := (size ds).

(* while len(idxs_lst) > 0: ranks[idxs_lst.pop(-1)] = -1     -- no hypothesis *)
Lemma loop3_mark : forall stack ranks,
  gen_rank_loop3 ds (length stack) (ranks, stack) = Some (mark ranks stack, []).
Proof.
  induction stack as [|c t IH]; intros ranks; [reflexivity|].
  cbn [length]. cbn [gen_rank_loop3].
  replace (Z.of_nat (length (c :: t)) >? 0) with true by (symmetry; apply Z.gtb_lt; cbn [length]; lia).
  rewrite IH. reflexivity.
Qed.

(* while len(idxs_lst) > 0: rnk += 1; n += 1; ranks[idxs_lst.pop(-1)] = rnk     -- no hypothesis *)
Lemma loop4_assign : forall stack ranks cnt r,
  gen_rank_loop4 ds (length stack) (ranks, cnt, stack, r) =
  Some (assign ranks stack (r + 1), cnt + Z.of_nat (length stack), [], r + Z.of_nat (length stack)).
Proof.
  induction stack as [|c t IH]; intros ranks cnt r.
  - cbn. rewrite !Z.add_0_r. reflexivity.
  - cbn [length]. cbn [gen_rank_loop4].
    replace (Z.of_nat (length (c :: t)) >? 0) with true by (symmetry; apply Z.gtb_lt; cbn [length]; lia).
    rewrite IH. cbn [assign length].
    replace (cnt + Z.of_nat (S (length t))) with (cnt + 1 + Z.of_nat (length t)) by lia.
    replace (r + Z.of_nat (S (length t))) with (r + 1 + Z.of_nat (length t)) by lia. reflexivity.
Qed.

Hypothesis Hwf : wf ds.

(* the `while True` walk followed by the assignment loop is Rank.walk; the fuel is not used up *)
Lemma loop2_walk : forall fuel ranks rest cur,
  rinv ds ranks -> chain ds (cur :: rest) -> NoDup (cur :: rest) ->
  (forall c, In c (cur :: rest) -> valid ds c /\ nth c ranks RU = RU) ->
  (n <= fuel + length (cur :: rest))%nat ->
  exists ranks' stack' c' d' rnk,
    gen_rank_loop2 ds fuel (ranks, cur :: rest, cur, dsf ds cur) = Some (ranks', stack', c', d', rnk) /\
    walk ds fuel ranks (cur :: rest) cur = (assign ranks' stack' (rnk + 1), length stack').
Proof.
  induction fuel as [|f IH]; intros ranks rest cur Hr Hc Hnd Hst Hfuel;
    pose proof (walk_stop_ok ds ranks rest cur cur Hr Hc Hnd Hst (or_introl eq_refl)) as Hs;
    (assert (Hcv : valid ds cur) by (apply Hst; left; auto));
    (assert (Hd : (dsf ds cur < length ranks)%nat) by (destruct Hr as [Hl _]; destruct Hcv; unfold size in *; lia));
    cbn [gen_rank_loop2 walk]; unfold walk_stop in *;
    rewrite (nth_indep ranks 0 RU Hd);
    (destruct (nth (dsf ds cur) ranks RU >=? 0); [eexists _, _, _, _, _; split; reflexivity|]);
    (destruct (dsf ds cur =? cur)%nat; [eexists _, _, _, _, _; split; reflexivity|]);
    (destruct ((nth (dsf ds cur) ranks RU =? -1) || memb (dsf ds cur) (cur :: rest));
      [rewrite loop3_mark; eexists _, _, _, _, _; split; reflexivity|]);
    destruct Hs as (Ed & Em & Hnp).
  - (* out of fuel: impossible, the stack would hold more than n distinct cells *)
    exfalso.
    assert (Hl : (length (dsf ds cur :: cur :: rest) <= length (seq 0 n))%nat).
    { apply NoDup_incl_length; [constructor; auto|].
      intros y [<-|Hy]; apply in_seq; [destruct Hcv; lia|]. destruct (Hst y Hy) as [[H _] _]. lia. }
    rewrite seq_length in Hl. cbn [length] in *. lia.
  - apply (IH ranks (cur :: rest) (dsf ds cur)); auto.
    + cbn [chain]. split; auto.
    + constructor; auto.
    + intros c [<-|Hc0]; [split; auto; apply Hwf; auto|apply Hst; auto].
    + cbn [length] in *. lia.
Qed.

(* one iteration of the outer loop *)
Lemma step_eq : forall ranks cnt i, (i < n)%nat -> rinv ds ranks ->
  gen_rank_loop1_step ds (ranks, Z.of_nat cnt, []) i =
  Some (let '(r', c') := rank_outer ds (ranks, cnt) i in (r', Z.of_nat c', [])).
Proof.
  intros ranks cnt i Hi Hr. unfold gen_rank_loop1_step, rank_outer. cbv zeta.
  assert (Hl : length ranks = n) by (destruct Hr; auto).
  rewrite (nth_indep ranks 0 RU) by (unfold size in *; lia).
  unfold validb. replace (i <? n)%nat with true by (symmetry; apply Nat.ltb_lt; auto). cbn [andb].
  change (nth i ds (length ds)) with (dsf ds i). change (length ds) with n.
  destruct (Nat.leb_spec n (dsf ds i)) as [Hge|Hlt].
  - replace (dsf ds i <? n)%nat with false by (symmetry; apply Nat.ltb_ge; auto). reflexivity.
  - replace (dsf ds i <? n)%nat with true by (symmetry; apply Nat.ltb_lt; auto). cbn [orb andb].
    change (-9999) with RU. destruct (Z.eqb_spec (nth i ranks RU) RU) as [E|E]; cbn [negb]; [|reflexivity].
    destruct (loop2_walk n ranks [] i) as (r' & s' & c' & d' & rnk & E2 & Ew); auto.
    + exact I.
    + constructor; [intros []|constructor].
    + intros c [<-|[]]. split; [split; auto|exact E].
    + cbn [length]. lia.
    + rewrite E2. rewrite loop4_assign. rewrite Ew.
      rewrite Nat2Z.inj_add. reflexivity.
Qed.

Lemma fold_eq k : forall st a, (a + k <= n)%nat -> oinv ds st a ->
  ofold (gen_rank_loop1_step ds) (seq a k) (fst st, Z.of_nat (snd st), []) =
  Some (let r := fold_left (rank_outer ds) (seq a k) st in (fst r, Z.of_nat (snd r), [])).
Proof.
  induction k as [|k IH]; intros [ranks cnt] a Hk Hi; [reflexivity|].
  cbn [seq fold_left fst snd]. rewrite ofold_cons. rewrite step_eq by (try apply Hi; lia).
  pose proof (outer_step ds Hwf (ranks, cnt) a ltac:(lia) Hi) as Hi'.
  destruct (rank_outer ds (ranks, cnt) a) as [r' c'] eqn:Eo.
  apply (IH (r', c') (S a)); [lia|exact Hi'].
Qed.

(* core.rank *)
Theorem gen_rank_eq : gen_rank ds = Some (fst (rank ds), Z.of_nat (snd (rank ds))).
Proof.
  unfold gen_rank. cbv zeta.
  pose proof (fold_eq n (repeat RU n, 0%nat) 0%nat) as H. cbn [fst snd] in H.
  change (length ds) with n. change (-9999) with RU. change 0 with (Z.of_nat 0). rewrite H.
  - reflexivity.
  - lia.
  - split; [apply rinv_init|intros j Hj; lia].
Qed.

(* core.loop_indices *)
Theorem gen_loop_indices_eq : gen_loop_indices ds = Some (loop_indices ds).
Proof.
  unfold gen_loop_indices. cbv zeta. rewrite gen_rank_eq. cbn [fst]. f_equal. unfold loop_indices.
  assert (Hl : length (fst (rank ds)) = n) by (destruct (rank_oinv ds Hwf) as [[H _] _]; exact H).
  change (length ds) with n. rewrite <- Hl.
  generalize (fst (rank ds)) as ranks. intros ranks.
  assert (G : forall l acc, (forall i, In i l -> (i < length ranks)%nat) ->
    fold_left (gen_loop_indices_loop1_step ds ranks) l acc = acc ++ filter (fun i => nth i ranks RU =? -1) l).
  { induction l as [|x l IH]; intros acc Hb; cbn [fold_left filter]; [rewrite app_nil_r; reflexivity|].
    rewrite IH by (intros; apply Hb; right; auto). unfold gen_loop_indices_loop1_step.
    rewrite (nth_indep ranks 0 RU) by (apply Hb; left; auto).
    destruct (nth x ranks RU =? -1); [rewrite <- app_assoc|]; reflexivity. }
  rewrite G; [reflexivity|]. intros i Hi. apply in_seq in Hi. lia.
Qed.
End RankEq.

Print Assumptions gen_rank_eq.
Print Assumptions gen_loop_indices_eq.

(* non-vacuity: the network of C03's example (a 2-cycle {1,2} with tributary 3, a pit 0 with tributary 4) *)
Example gen_rank_example : wf [0;2;1;1;0]%nat /\ gen_rank [0;2;1;1;0]%nat = Some ([0; -1; -1; -1; 1], 2) /\
                           gen_loop_indices [0;2;1;1;0]%nat = Some [1;2;3]%nat.
Proof. split; [apply wfb_wf; vm_compute; reflexivity|vm_compute; auto]. Qed.
