(* C13 / termination, target 3: the `while True` trace of upscale.ihu_nextidx, `ihu_walk` (Upscale.v), called by
   `ihu_nextidx` with fuel S nsub.  On a loop-free fine network the fuel is never exhausted: the walk leaves through its
   own exit (outlet pixel of a coarse cell / pit) after k < nsub steps, and its value is given in closed form.
   The value None (-> ERR) is then exactly the "no answer" exit: the exit cell is not a D8 neighbour AND no
   effective-area pixel was met.  That case is NOT excluded by loop-freeness for an arbitrary effective-area map
   (which is an input of the model): see ihu_walk_some_refuted at the end. *)
From Coq Require Import List Arith ZArith Bool Lia.
Import ListNotations.
From PF Require Import Arr Net Elev Upscale UpscaleSpec NetBound.

Section TermIhu.
Variable sds : list nat.
Variables subncol cs nrow ncol : nat.
Variable ea : list bool.
Notation nsub := (length sds).
Notation nc := (nrow * ncol).
Notation cellof := (cellof subncol cs ncol).
Notation walk := (ihu_walk sds subncol cs ncol ea).

(* the loop's own exit test at pixel s: the downstream pixel is the outlet pixel of its cell, or s is a pit *)
Definition istop (out : list nat) (s : nat) : bool :=
  (nth (cellof (dsf sds s)) out nsub =? dsf sds s) || (dsf sds s =? s).

(* the remembered first effective-area pixel after k more steps *)
Definition fe_next (fe : option nat) (s1 : nat) : option nat :=
  match fe with Some _ => fe | None => if eaf ea s1 then Some s1 else None end.
Fixpoint fe_after (k : nat) (fe : option nat) (s : nat) : option nat :=
  match k with O => fe | S k' => fe_after k' (fe_next fe (dsf sds s)) (dsf sds s) end.

Definition exit_value (out : list nat) (idx0 : nat) (k : nat) (fe : option nat) (s : nat) : option nat :=
  if in_d8 idx0 (cellof (iter sds (S k) s)) ncol then Some (iter sds (S k) s) else fe_after k fe s.

Lemma walk_exit_gen out idx0 : forall fuel k s fe, k < fuel ->
  (forall j, j < k -> istop out (iter sds j s) = false) -> istop out (iter sds k s) = true ->
  walk fuel out idx0 s fe = exit_value out idx0 k fe s.
Proof.
  induction fuel as [|f IH]; intros k s fe Hk Hns Hs; [lia|].
  cbn [ihu_walk]. change (Upscale.sd sds s) with (dsf sds s).
  destruct k as [|k].
  - cbn [iter] in Hs. unfold istop in Hs. rewrite Hs. unfold exit_value. cbn [iter fe_after]. reflexivity.
  - assert (H0 : istop out s = false) by (apply (Hns 0); lia). unfold istop in H0. rewrite H0.
    change (match fe with Some _ => fe | None => if eaf ea (dsf sds s) then Some (dsf sds s) else None end)
      with (fe_next fe (dsf sds s)).
    rewrite (IH k (dsf sds s) (fe_next fe (dsf sds s))); [|lia| |exact Hs].
    + unfold exit_value. cbn [iter fe_after]. reflexivity.
    + intros j Hj. apply (Hns (S j)). lia.
Qed.

Lemma fe_after_some k : forall fe s x, fe = Some x -> fe_after k fe s = Some x.
Proof. induction k as [|k IH]; intros fe s x ->; [reflexivity|]. cbn [fe_after fe_next]. apply (IH _ _ x). reflexivity. Qed.

Lemma fe_after_none k : forall s, fe_after k None s = None <-> forall j, 1 <= j <= k -> eaf ea (iter sds j s) = false.
Proof.
  induction k as [|k IH]; intros s; cbn [fe_after fe_next].
  - split; [intros _ j Hj; lia|reflexivity].
  - destruct (eaf ea (dsf sds s)) eqn:E.
    + rewrite (fe_after_some k _ _ (dsf sds s) eq_refl). split; [discriminate|].
      intros H. specialize (H 1 ltac:(lia)). cbn [iter] in H. congruence.
    + rewrite IH. split.
      * intros H j Hj. destruct j as [|j]; [lia|]. destruct j as [|j]; [exact E|]. cbn [iter]. apply (H (S j)). lia.
      * intros H j Hj. apply (H (S j)). lia.
Qed.

Variable sq : list nat.
Hypothesis Ht : topo sds sq.

(* exit index k < nsub, the value in closed form for every fuel > k *)
Theorem ihu_walk_exit out idx0 s fe : In s sq ->
  exists k, k < nsub /\ (forall j, j < k -> istop out (iter sds j s) = false) /\ istop out (iter sds k s) = true /\
            forall fuel, k < fuel -> walk fuel out idx0 s fe = exit_value out idx0 k fe s.
Proof.
  intros Hs. destruct (path_bound sds sq Ht s Hs) as [kp [Hkp [[_ Hp] _]]].
  assert (Hstop : istop out (iter sds kp s) = true) by (unfold istop; rewrite Hp, Nat.eqb_refl, orb_true_r; reflexivity).
  destruct (ElevSpec.least_witness (fun j => istop out (iter sds j s)) kp Hstop) as [k [Hk [Hsk Hnk]]].
  exists k. split; [lia|]. split; [exact Hnk|]. split; [exact Hsk|].
  intros fuel Hf. apply walk_exit_gen; auto.
Qed.

(* the fuel S nsub passed by ihu_nextidx is never exhausted: more fuel, same result *)
Theorem ihu_walk_fuel out idx0 s fe extra : In s sq ->
  walk (S nsub + extra) out idx0 s fe = walk (S nsub) out idx0 s fe.
Proof.
  intros Hs. destruct (ihu_walk_exit out idx0 s fe Hs) as [k [Hk [_ [_ Hf]]]].
  rewrite (Hf (S nsub + extra)) by lia. rewrite (Hf (S nsub)) by lia. reflexivity.
Qed.

(* None is never the fuel case: it is exactly "exit cell not a D8 neighbour and no effective-area pixel met" *)
Theorem ihu_walk_none_iff out idx0 s : In s sq ->
  exists k, k < nsub /\ (forall j, j < k -> istop out (iter sds j s) = false) /\ istop out (iter sds k s) = true /\
    (walk (S nsub) out idx0 s None = None <->
     in_d8 idx0 (cellof (iter sds (S k) s)) ncol = false /\ forall j, 1 <= j <= k -> eaf ea (iter sds j s) = false).
Proof.
  intros Hs. destruct (ihu_walk_exit out idx0 s None Hs) as [k [Hk [Hns [Hsk Hf]]]].
  exists k. split; [exact Hk|]. split; [exact Hns|]. split; [exact Hsk|].
  rewrite (Hf (S nsub)) by lia. unfold exit_value.
  destruct (in_d8 idx0 (cellof (iter sds (S k) s)) ncol).
  - split; [discriminate|intros [H _]; discriminate].
  - rewrite fe_after_none. tauto.
Qed.

(* ... hence a pixel is returned as soon as the exit cell is a D8 neighbour or an effective-area pixel lies on the way *)
Theorem ihu_walk_some out idx0 s : In s sq ->
  (forall k, istop out (iter sds k s) = true -> in_d8 idx0 (cellof (iter sds (S k) s)) ncol = true \/
             exists j, 1 <= j <= k /\ eaf ea (iter sds j s) = true) ->
  exists t, walk (S nsub) out idx0 s None = Some t.
Proof.
  intros Hs Hans. destruct (ihu_walk_none_iff out idx0 s Hs) as [k [_ [_ [Hsk Hiff]]]].
  destruct (walk (S nsub) out idx0 s None) as [t|] eqn:E; [exists t; reflexivity|]. exfalso.
  destruct Hiff as [Hiff _]. destruct (Hiff eq_refl) as [Hd Hno].
  destruct (Hans k Hsk) as [H|[j [Hj He]]]; [congruence|]. rewrite (Hno j Hj) in He. discriminate.
Qed.
End TermIhu.

(* the public entry with a fuel parameter *)
Definition ihu_nextidx_fuel (fuel : nat) (sds : list nat) (subncol cs nrow ncol : nat) (ea : list bool) (out : list nat) :=
  per_cell sds nrow ncol out (fun idx0 s => match ihu_walk sds subncol cs ncol ea fuel out idx0 s None with
                                            | Some sd' => cellof subncol cs ncol sd' | None => ERR nrow ncol end).

Theorem ihu_nextidx_terminates sds sq : topo sds sq -> forall subncol cs nrow ncol ea out,
  (forall idx0, nth idx0 out (length sds) < length sds -> In (nth idx0 out (length sds)) sq) ->
  forall extra, ihu_nextidx_fuel (S (length sds) + extra) sds subncol cs nrow ncol ea out
                = ihu_nextidx sds subncol cs nrow ncol ea out.
Proof.
  intros Ht subncol cs nrow ncol ea out Hout extra. unfold ihu_nextidx_fuel, ihu_nextidx, per_cell.
  apply map_ext. intros idx0. cbv zeta.
  destruct (Nat.leb_spec (length sds) (nth idx0 out (length sds))) as [H|H]; [reflexivity|].
  rewrite (ihu_walk_fuel sds subncol cs ncol ea sq Ht out idx0 _ None extra (Hout idx0 H)). reflexivity.
Qed.

(* the whole model pipeline up_eam_plus = repcell -> ihu_outlets -> ihu_nextidx on a loop-free fine network: the outlet
   pixels handed to ihu_nextidx are cells of the network, so the hypothesis above holds and no trace runs out of fuel *)
Lemma out_walk_in sds sq subncol cs ncol idx0 : topo sds sq -> forall fuel s, In s sq ->
  out_walk sds subncol cs ncol fuel idx0 s = S (length sds) \/ In (out_walk sds subncol cs ncol fuel idx0 s) sq.
Proof.
  intros Ht. induction fuel as [|f IH]; intros s Hs; cbn [out_walk]; [left; reflexivity|].
  destruct (negb (idx0 =? cellof subncol cs ncol (sd sds s)) || (sd sds s =? s)); [right; exact Hs|].
  apply IH. apply (topo_closed sds sq s Ht Hs).
Qed.

Theorem ihu_outlets_in_sq sds sq : topo sds sq -> complete sds sq -> forall upa subncol cs nrow ncol sel idx0,
  let out := ihu_outlets sds subncol cs nrow ncol (repcell sds upa subncol cs nrow ncol sel) in
  nth idx0 out (length sds) < length sds -> In (nth idx0 out (length sds)) sq.
Proof.
  intros Ht Hc upa subncol cs nrow ncol sel idx0 out Hlt.
  destruct (Nat.lt_ge_cases idx0 (nrow * ncol)) as [Hi|Hi].
  - unfold out, ihu_outlets in *.
    set (g := fun idx0 => let s := nth idx0 (repcell sds upa subncol cs nrow ncol sel) (length sds) in
                          if length sds <=? s then length sds else out_walk sds subncol cs ncol (S (length sds)) idx0 s) in *.
    rewrite (nth_indep _ (length sds) (g 0)) in * by (rewrite map_length, seq_length; exact Hi).
    rewrite (map_nth g) in *. rewrite seq_nth in * by exact Hi. unfold g in *. cbv zeta in *. cbn [Nat.add] in *.
    destruct (Nat.leb_spec (length sds) (nth idx0 (repcell sds upa subncol cs nrow ncol sel) (length sds))) as [H|H]; [lia|].
    destruct (repcell_spec sds upa subncol cs nrow ncol sel) as (_ & Hin & _).
    destruct (Hin idx0 Hi) as [E|[[H1 [H2 _]] _]]; [lia|].
    assert (Hs : In (nth idx0 (repcell sds upa subncol cs nrow ncol sel) (length sds)) sq) by (apply Hc; split; [exact H1|exact H2]).
    destruct (out_walk_in sds sq subncol cs ncol idx0 Ht (S (length sds)) _ Hs) as [E|E]; [lia|exact E].
  - exfalso. unfold out in Hlt. rewrite nth_overflow in Hlt; [lia|].
    unfold ihu_outlets. rewrite map_length, seq_length. exact Hi.
Qed.

Definition up_eam_plus_fuel (fuel : nat) (sds : list nat) (upa : list Z) (subnrow subncol cs : nat) (ea : list bool) :=
  let nrow := cdiv subnrow cs in let ncol := cdiv subncol cs in
  let rep := repcell sds upa subncol cs nrow ncol (eaf ea) in
  let out := ihu_outlets sds subncol cs nrow ncol rep in
  (ihu_nextidx_fuel fuel sds subncol cs nrow ncol ea out, out, (nrow, ncol)).

Theorem up_eam_plus_terminates sds sq : topo sds sq -> complete sds sq -> forall upa subnrow subncol cs ea extra,
  up_eam_plus_fuel (S (length sds) + extra) sds upa subnrow subncol cs ea = up_eam_plus sds upa subnrow subncol cs ea.
Proof.
  intros Ht Hc upa subnrow subncol cs ea extra. unfold up_eam_plus_fuel, up_eam_plus. cbv zeta.
  rewrite (ihu_nextidx_terminates sds sq Ht); [reflexivity|].
  intros idx0. apply (ihu_outlets_in_sq sds sq Ht Hc).
Qed.

(* satisfiable: one row of three pixels 0 -> 1 -> 2 (pit), cell size 1, every pixel in the effective area *)
Example ihu_example :
  topo [1;2;2] [2;1;0] /\ In 0 [2;1;0] /\
  ihu_walk [1;2;2] 3 1 3 [true;true;true] 4 [0;1;2] 0 0 None = Some 1 /\
  ihu_nextidx [1;2;2] 3 1 1 3 [true;true;true] [0;1;2] = [1;2;2].
Proof. split; [apply check_topo_sound; vm_compute; reflexivity|]. vm_compute. auto. Qed.

(* FINDING (for the model as written, where the effective-area map is a free input): "ihu_walk returns Some on every
   loop-free fine network" is FALSE.  Same three pixels, only pixel 0 in the effective area: the complete model pipeline
   up_eam_plus (repcell -> ihu_outlets -> ihu_nextidx) gives outlets [0; -; 2], and the trace from pixel 0 leaves at the
   pit in cell 2, which is not a D8 neighbour of cell 0, with no effective-area pixel met: None, i.e. ERR = 4 in nextidx.
   The fuel is not the cause (the network is loop-free and the walk exits after 2 of its 4 units of fuel). *)
Theorem ihu_walk_some_refuted :
  exists sds sq upa subnrow subncol cs ea,
    topo sds sq /\ complete sds sq /\
    let nrow := cdiv subnrow cs in let ncol := cdiv subncol cs in
    let out := ihu_outlets sds subncol cs nrow ncol (repcell sds upa subncol cs nrow ncol (eaf ea)) in
    nth 0 out (length sds) = 0 /\ In 0 sq /\
    ihu_walk sds subncol cs ncol ea (S (length sds)) out 0 0 None = None /\
    ihu_walk sds subncol cs ncol ea 2 out 0 0 None = None /\
    fst (fst (up_eam_plus sds upa subnrow subncol cs ea)) = [ERR nrow ncol; nrow * ncol; 2].
Proof.
  exists [1;2;2], [2;1;0], [1;2;3]%Z, 1, 3, 1, [true;false;false].
  split; [apply check_topo_sound; vm_compute; reflexivity|].
  split; [apply check_complete_sound; vm_compute; reflexivity|].
  vm_compute. auto 10.
Qed.

Print Assumptions ihu_walk_exit.
Print Assumptions ihu_walk_fuel.
Print Assumptions ihu_walk_none_iff.
Print Assumptions ihu_walk_some.
Print Assumptions ihu_nextidx_terminates.
Print Assumptions up_eam_plus_terminates.
Print Assumptions ihu_walk_some_refuted.
