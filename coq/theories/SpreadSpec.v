(* C20: soundness invariants of spread2d. *)
From Coq Require Import List Arith ZArith Lia Bool.
Import ListNotations.
From PF Require Import Arr Spread.
Local Open Scope Z_scope.

Section SpreadSpec.
Variables nrow ncol : nat.
Variable obs : list Z.
Variable msk : option (list bool).
Variable nodata : Z.
Variable frc : option (list Z).
Variables dx dy hyp : Z.
Hypothesis Hdx : 0 <= dx.
Hypothesis Hdy : 0 <= dy.
Hypothesis Hhyp : 0 <= hyp.
Hypothesis Hfrc : forall i, 0 <= match frc with None => 1 | Some fr => nth i fr 1 end.
Hypothesis Hobs : length obs = (nrow * ncol)%nat.
Notation sz := (nrow * ncol)%nat.
Notation isobs i := (negb (nth i obs nodata =? nodata)).
Notation mok := (mok msk).

(* every cell is either untouched (source -1, distance 0, own value) or carries the value of an observation
   cell recorded as its source; observation cells keep value, themselves as source and distance 0;
   cells outside the mask are never written; distances and queued keys are non-negative *)
Definition sinv (st : sstate) : Prop :=
  length (s_out st) = sz /\ length (s_src st) = sz /\ length (s_dst st) = sz /\
  (forall j, 0 <= nth j (s_dst st) 0) /\
  (forall e, In e (s_q st) -> 0 <= fst e /\ (snd e < sz)%nat /\ nth (snd e) (s_src st) 0 <> -1) /\
  (forall j, (j < sz)%nat ->
     (nth j (s_src st) 0 = -1 /\ nth j (s_dst st) 0 = 0 /\ nth j (s_out st) 0 = nth j obs 0 /\ isobs j = false) \/
     (exists s, nth j (s_src st) 0 = Z.of_nat s /\ (s < sz)%nat /\ isobs s = true /\ nth j (s_out st) 0 = nth s obs 0 /\
                (isobs j = true -> s = j /\ nth j (s_dst st) 0 = 0) /\ (mok j = false -> s = j))).

Lemma relax_sinv d0 i0 st o : sinv st -> 0 <= d0 -> (i0 < sz)%nat -> nth i0 (s_src st) 0 <> -1 ->
  sinv (relax nrow ncol obs msk dx dy hyp d0 i0 (match frc with None => 1 | Some fr => nth i0 fr 1 end) st o).
Proof.
  intros (L1 & L2 & L3 & Hd & Hq & Hc) Hd0 Hi0 Hs0.
  pose proof (conj L1 (conj L2 (conj L3 (conj Hd (conj Hq Hc))))) as Hall.
  unfold relax. set (f0 := match frc with None => 1 | Some fr => nth i0 fr 1 end).
  set (r1 := Z.of_nat (i0 / ncol) + fst o). set (c1 := Z.of_nat (i0 mod ncol) + snd o).
  destruct (sinb nrow ncol r1 c1) eqn:Eb; [|exact Hall]. cbn [negb].
  set (j := Z.to_nat (r1 * Z.of_nat ncol + c1)).
  assert (Hj : (j < sz)%nat).
  { unfold sinb in Eb. rewrite !andb_true_iff, !Z.leb_le, !Z.ltb_lt in Eb. unfold j.
    apply Nat2Z.inj_lt. rewrite Z2Nat.id by nia. rewrite Nat2Z.inj_mul. nia. }
  destruct (mok j) eqn:Em; [|exact Hall]. cbn [negb].
  assert (Hstep : 0 <= steplen dx dy hyp o) by (unfold steplen; destruct (fst o =? 0), (snd o =? 0); auto).
  assert (Hf0 : 0 <= f0) by (apply Hfrc).
  set (d := d0 + steplen dx dy hyp o * f0). assert (Hdpos : 0 <= d) by (unfold d; nia).
  destruct ((nth j (s_src st) 0 =? -1) || (d <? nth j (s_dst st) 0)) eqn:Eu; [|exact Hall].
  (* the source of i0 *)
  destruct (Hc i0 Hi0) as [(A & _)|(s & As & Hs & Hso & Aout & Aobs & Amsk)]; [contradiction|].
  (* j is not an observation cell: those have source <> -1 and distance 0 <= d *)
  assert (Hjobs : isobs j = false).
  { destruct (Hc j Hj) as [(_ & _ & _ & E)|(s' & As' & _ & _ & _ & Aobs' & _)]; auto.
    destruct (isobs j) eqn:Ej; auto. exfalso. destruct (Aobs' eq_refl) as [-> Ez].
    apply orb_true_iff in Eu. destruct Eu as [Eu|Eu].
    - apply Z.eqb_eq in Eu. rewrite As' in Eu. lia.
    - apply Z.ltb_lt in Eu. lia. }
  unfold sinv; simpl. rewrite !upd_length.
  split; [auto|]. split; [auto|]. split; [auto|]. split; [|split].
  - intros x. rewrite nth_upd. destruct ((x =? j)%nat && (j <? length (s_dst st))%nat); auto.
  - intros e [<-|He]; simpl.
    + repeat split; auto. rewrite nth_upd_eq by lia. rewrite As. lia.
    + destruct (Hq e He) as (Q1 & Q2 & Q3). repeat split; auto.
      destruct (Nat.eq_dec (snd e) j) as [->|Hne]; [rewrite nth_upd_eq by lia; rewrite As; lia|rewrite nth_upd_neq; auto].
  - intros x Hx. destruct (Nat.eq_dec x j) as [->|Hne].
    + right. exists s. rewrite !nth_upd_eq by lia. rewrite As, Nat2Z.id.
      split; [auto|]. split; [auto|]. split; [auto|]. split; [auto|]. split.
      * intros E. rewrite Hjobs in E. discriminate.
      * intros E. congruence.
    + rewrite !nth_upd_neq by auto. apply Hc; auto.
Qed.

Lemma fold_relax_sinv d0 i0 l : forall st, sinv st -> 0 <= d0 -> (i0 < sz)%nat -> nth i0 (s_src st) 0 <> -1 ->
  sinv (fold_left (relax nrow ncol obs msk dx dy hyp d0 i0 (match frc with None => 1 | Some fr => nth i0 fr 1 end)) l st) /\
  nth i0 (s_src (fold_left (relax nrow ncol obs msk dx dy hyp d0 i0 (match frc with None => 1 | Some fr => nth i0 fr 1 end)) l st)) 0 <> -1.
Proof.
  induction l as [|o l IH]; intros st H Hd0 Hi0 Hs0; simpl; auto.
  assert (H1 : sinv (relax nrow ncol obs msk dx dy hyp d0 i0 (match frc with None => 1 | Some fr => nth i0 fr 1 end) st o))
    by (apply relax_sinv; auto).
  apply IH; auto.
  (* the source of i0 stays set *)
  unfold relax. destruct (negb (sinb nrow ncol _ _)); auto. destruct (negb (mok _)); auto.
  destruct (_ || _) eqn:E; auto. simpl.
  destruct H as (L1 & L2 & L3 & Hd & Hq & Hc). destruct (Hc i0 Hi0) as [(A & _)|(s & As & _)]; [contradiction|].
  rewrite nth_upd. destruct (_ && _); [rewrite As; lia|auto].
Qed.

Lemma qmin_In q m rest : qmin q = Some (m, rest) -> In m q /\ forall e, In e rest -> In e q.
Proof.
  revert m rest. induction q as [|x t IH]; intros m rest H; simpl in H; [discriminate|].
  destruct (qmin t) as [[m' r']|] eqn:E.
  - destruct (IH m' r' eq_refl) as [I1 I2]. destruct (qlt x m'); inversion H; subst.
    + split; [left; auto|intros e He; right; auto].
    + split; [right; auto|]. intros e [<-|He]; [left; auto|right; auto].
  - inversion H; subst. split; [left; auto|intros e []].
Qed.

Lemma sloop_sinv fuel : forall st, sinv st -> sinv (sloop nrow ncol obs msk frc dx dy hyp fuel st).
Proof.
  induction fuel as [|f IH]; intros st H; cbn [sloop]; auto.
  destruct (qmin (s_q st)) as [[[d0 i0] rest]|] eqn:E; auto.
  destruct (qmin_In _ _ _ E) as [Hm Hrest].
  destruct H as (L1 & L2 & L3 & Hd & Hq & Hc).
  destruct (Hq _ Hm) as (Q1 & Q2 & Q3). simpl in Q1, Q2, Q3.
  assert (H1 : sinv {| s_out := s_out st; s_src := s_src st; s_dst := s_dst st; s_q := rest |}).
  { unfold sinv; simpl. split; [auto|]. split; [auto|]. split; [auto|]. split; [auto|]. split; [|auto]. intros e He. apply Hq. auto. }
  destruct (nth i0 (s_dst st) 0 <? d0); [apply IH; auto|].
  apply IH. apply (proj1 (fold_relax_sinv d0 i0 nb8 _ H1 Q1 Q2 Q3)).
Qed.

Lemma map_seq_nth' {A} (f : nat -> A) n i d : (i < n)%nat -> nth i (map f (seq 0 n)) d = f i.
Proof. intros H. rewrite (nth_indep _ d (f 0%nat)) by (rewrite map_length, seq_length; auto).
  rewrite (map_nth f). rewrite seq_nth by auto. reflexivity. Qed.

Lemma init_sinv : sinv (spread_init nrow ncol obs msk nodata).
Proof.
  unfold spread_init, sinv; simpl. rewrite !map_length, !seq_length.
  split; [auto|]. split; [auto|]. split; [auto|]. split; [|split].
  - intros j. destruct (Nat.lt_ge_cases j sz); [rewrite map_seq_nth' by auto; lia|rewrite nth_overflow by (rewrite map_length, seq_length; auto); lia].
  - intros e H. apply in_map_iff in H. destruct H as (i & <- & Hi). apply filter_In in Hi. destruct Hi as [Hi Ho]. apply in_seq in Hi. simpl.
    split; [lia|]. split; [lia|]. rewrite map_seq_nth' by lia. apply andb_true_iff in Ho. destruct Ho as [Ho _]. rewrite Ho. lia.
  - intros j Hj. rewrite !map_seq_nth' by auto. destruct (isobs j) eqn:Ej.
    + right. exists j. repeat split; auto.
    + left. repeat split; auto.
Qed.

(* soundness: observation cells keep value, source = self, distance 0; cells outside the mask are never
   written; every other cell is either untouched or carries the value of the observation cell reported as
   its source; distances are non-negative *)
Theorem spread_sound : let '(out, src, dst) := spread2d nrow ncol obs msk nodata frc dx dy hyp in
  length out = sz /\ length src = sz /\ length dst = sz /\
  forall j, (j < sz)%nat -> 0 <= nth j dst 0 /\
    ((nth j src 0 = -1 /\ nth j dst 0 = 0 /\ nth j out 0 = nth j obs 0 /\ isobs j = false) \/
     (exists s, nth j src 0 = Z.of_nat s /\ (s < sz)%nat /\ isobs s = true /\ nth j out 0 = nth s obs 0 /\
                (isobs j = true -> s = j /\ nth j dst 0 = 0) /\ (mok j = false -> s = j))).
Proof.
  unfold spread2d. pose proof (sloop_sinv (10 * sz + 10) _ init_sinv) as (L1 & L2 & L3 & Hd & _ & Hc).
  split; [auto|]. split; [auto|]. split; [auto|]. intros j Hj. split; [apply Hd|apply Hc; auto].
Qed.
End SpreadSpec.
