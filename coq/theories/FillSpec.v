(* Theorems about fillnodata_upstream and basins (C05; reused by C10, C14, C18). *)
From Coq Require Import List Arith ZArith Lia Bool Sorted Permutation.
Import ListNotations.
From PF Require Import Arr Net SweepDown Fill.
Open Scope Z_scope.

Section FillUp.
Variable ds : list nat.
Variable nodata : Z.
Variable data : list Z.
Notation dsf := (dsf ds).
Notation D i := (nth i data nodata).

(* "value of the nearest non-nodata cell downstream (including the cell itself);
    nodata if the walk ends in a pit without meeting one" *)
Inductive fillv : nat -> Z -> Prop :=
| fv_own i : D i <> nodata -> fillv i (D i)
| fv_pit i : D i = nodata -> dsf i = i -> fillv i nodata
| fv_step i v : D i = nodata -> dsf i <> i -> fillv (dsf i) v -> fillv i v.

Lemma val_fillv i v : val ds nodata (fill_f nodata) data i v -> fillv i v.
Proof.
  induction 1 as [i Hp|i v Hn Hv IH]; unfold fill_f.
  - destruct (Z.eqb_spec (D i) nodata) as [E|E]; cbn [andb negb].
    + rewrite E. apply fv_pit; auto.
    + apply fv_own; auto.
  - destruct (Z.eqb_spec (D i) nodata) as [E|E]; cbn [andb negb].
    + destruct (Z.eqb_spec v nodata) as [E2|E2]; cbn [andb negb].
      * rewrite E, <- E2. apply fv_step; auto.
      * apply fv_step; auto.
    + apply fv_own; auto.
Qed.

(* the same as a statement about the downstream walk *)
Definition first_on_path (i : nat) (v : Z) : Prop :=
  exists k, (forall m, (m < k)%nat -> D (iter ds m i) = nodata /\ dsf (iter ds m i) <> iter ds m i) /\
            ((D (iter ds k i) <> nodata /\ v = D (iter ds k i)) \/
             (D (iter ds k i) = nodata /\ dsf (iter ds k i) = iter ds k i /\ v = nodata)).

Lemma fillv_path i v : fillv i v -> first_on_path i v.
Proof.
  induction 1 as [i H|i H Hp|i v H Hn Hf IH].
  - exists 0%nat. split; [intros m Hm; lia|]. left. simpl. auto.
  - exists 0%nat. split; [intros m Hm; lia|]. right. simpl. auto.
  - destruct IH as (k & Hk1 & Hk2). exists (S k). split.
    + intros [|m] Hm; simpl; auto. apply Hk1. lia.
    + simpl. exact Hk2.
Qed.

Theorem fill_up_spec sq : length data = size ds -> topo ds sq ->
  let out := fillnodata_upstream ds sq data nodata in
  length out = length data /\
  (forall i, In i sq -> first_on_path i (nth i out nodata)) /\
  (forall i, ~ In i sq -> nth i out nodata = D i).
Proof.
  intros Hl Ht out. split; [apply sweep_down_length|].
  destruct (sweep_down_spec ds nodata (fill_f nodata) sq data Hl Ht) as [H1 H2].
  split; auto. intros i Hi. apply fillv_path, val_fillv, H1. exact Hi.
Qed.

(* a filled value is either a value that was there or nodata: nothing is invented *)
Lemma first_on_path_passthrough i v : first_on_path i v -> v = nodata \/ exists j, v = D j /\ D j <> nodata.
Proof. intros (k & _ & [[H1 H2]|(H1 & H2 & H3)]); [right; eauto|left; auto]. Qed.

End FillUp.

(* ---------- seeding ---------- *)
Lemma fold_upd_length (l : list (nat * Z)) a :
  length (fold_left (fun a p => upd a (fst p) (snd p)) l a) = length a.
Proof. revert a; induction l as [|h t IH]; intros a; simpl; auto. rewrite IH. apply upd_length. Qed.

Lemma seed_length n outs ids : length (seed n outs ids) = n.
Proof. unfold seed. rewrite fold_upd_length. apply repeat_length. Qed.

Lemma fold_upd_notin (l : list (nat * Z)) a j :
  ~ In j (map fst l) -> nth j (fold_left (fun a p => upd a (fst p) (snd p)) l a) 0 = nth j a 0.
Proof. revert a; induction l as [|[p v] t IH]; intros a H; simpl in *; auto.
  rewrite IH by tauto. apply nth_upd_neq. intros ->. tauto. Qed.

Lemma nth_repeat0 j n : nth j (repeat 0 n) 0 = 0.
Proof. revert j; induction n as [|n IH]; intros [|j]; simpl; auto. Qed.

(* cells that are not outlets are not seeded *)
Lemma seed_notin n outs ids j : ~ In j outs -> nth j (seed n outs ids) 0 = 0.
Proof.
  intros H. unfold seed. rewrite fold_upd_notin; [apply nth_repeat0|].
  intros Hin. apply H. apply in_map_iff in Hin. destruct Hin as ([p v] & <- & Hp).
  apply in_combine_l in Hp. auto.
Qed.

Lemma fold_upd_in (outs : list nat) : forall (ids : list Z) k a n, NoDup outs -> length ids = length outs ->
  (k < length outs)%nat -> length a = n -> (nth k outs 0%nat < n)%nat ->
  nth (nth k outs 0%nat) (fold_left (fun a p => upd a (fst p) (snd p)) (combine outs ids) a) 0 = nth k ids 0.
Proof.
  induction outs as [|o outs IH]; intros ids k a n Hnd Hl Hk Ha Hn; simpl in *; [lia|].
  destruct ids as [|v ids]; simpl in *; [lia|].
  inversion Hnd as [|x l Hni Hnd']; subst.
  destruct k as [|k]; simpl in *.
  - rewrite fold_upd_notin.
    + apply nth_upd_eq. lia.
    + intros Hin. apply Hni. apply in_map_iff in Hin. destruct Hin as ([p w] & <- & Hp).
      apply in_combine_l in Hp. auto.
  - apply (IH ids k (upd a o v) (length a)); auto; try lia. apply upd_length.
Qed.

(* an outlet listed once carries its own id *)
Lemma seed_in n outs ids k : NoDup outs -> length ids = length outs -> (k < length outs)%nat ->
  (nth k outs 0%nat < n)%nat -> nth (nth k outs 0%nat) (seed n outs ids) 0 = nth k ids 0.
Proof. intros. unfold seed. apply (fold_upd_in outs ids k (repeat 0 n) n); auto. apply repeat_length. Qed.

(* every seeded value is 0 or one of the ids *)
Lemma fold_upd_values (l : list (nat * Z)) a j :
  let r := nth j (fold_left (fun a p => upd a (fst p) (snd p)) l a) 0 in
  r = nth j a 0 \/ In r (map snd l).
Proof.
  revert a. induction l as [|[p v] t IH]; intros a; simpl; auto.
  destruct (IH (upd a p v)) as [H|H]; [|right; right; exact H].
  rewrite H. rewrite nth_upd.
  destruct ((j =? p)%nat && (p <? length a)%nat); [right; left; reflexivity|left; reflexivity].
Qed.

Lemma seed_values n outs ids j : nth j (seed n outs ids) 0 = 0 \/ In (nth j (seed n outs ids) 0) ids.
Proof.
  unfold seed. destruct (fold_upd_values (combine outs ids) (repeat 0 n) j) as [H|H].
  - left. rewrite H. apply nth_repeat0.
  - right. apply in_map_iff in H. destruct H as ([p v] & E & Hp). simpl in E. rewrite <- E.
    apply in_combine_r in Hp. exact Hp.
Qed.

(* ---------- basins ---------- *)
Section Basins.
Variable ds : list nat.
Variables (outs : list nat) (ids : list Z) (sq : list nat).
Hypothesis Ht : topo ds sq.
Let S := seed (length ds) outs ids.
Let B := basins ds outs sq ids.

(* label of i = seeded id of the first outlet cell on the downstream walk of i, 0 if the walk
   reaches a pit without meeting one; cells outside the order keep their seed (0 unless listed) *)
Theorem basins_spec :
  length B = length ds /\
  (forall i, In i sq -> first_on_path ds 0 S i (nth i B 0)) /\
  (forall i, ~ In i sq -> nth i B 0 = nth i S 0).
Proof.
  unfold B, basins. fold S.
  destruct (fill_up_spec ds 0 S sq) as (H1 & H2 & H3); auto.
  - unfold S. rewrite seed_length. reflexivity.
  - split; [|split]; auto. rewrite H1. unfold S. apply seed_length.
Qed.

(* ids pass through: every label is 0 or one of the given ids *)
Theorem basins_ids_passthrough i : In i sq -> nth i B 0 = 0 \/ In (nth i B 0) ids.
Proof.
  intros Hi. destruct basins_spec as (_ & H & _).
  destruct (first_on_path_passthrough ds 0 S i _ (H i Hi)) as [E|(j & E & _)]; [left; auto|].
  rewrite E. unfold S. apply seed_values.
Qed.

(* basins are closed under "upstream of": a non-outlet cell has the label of its downstream cell *)
Theorem basins_upstream_closed i : In i sq -> nth i S 0 = 0 -> dsf ds i <> i ->
  In (dsf ds i) sq -> nth i B 0 = nth (dsf ds i) B 0.
Proof.
  intros Hi Hs Hn Hd.
  unfold B, basins, fillnodata_upstream. fold S.
  assert (Hl : length S = size ds) by (unfold S; rewrite seed_length; reflexivity).
  destruct (sweep_down_spec ds 0 (fill_f 0) sq S Hl Ht) as [H1 _].
  pose proof (H1 i Hi) as Vi. pose proof (H1 _ Hd) as Vd.
  inversion Vi as [j Hp|j v Hnp Hv]; subst; [contradiction|].
  rewrite (val_fun ds 0 (fill_f 0) S _ _ _ Vd Hv).
  unfold fill_f. rewrite Hs. rewrite Z.eqb_refl. cbn [andb].
  destruct (Z.eqb_spec v 0) as [->|E]; reflexivity.
Qed.
End Basins.

(* ---------- default outlets: all pits ---------- *)
Section BasinsDefault.
Variable ds : list nat.
Variables (outs : list nat) (ids : list Z) (sq : list nat).
Hypothesis Ht : topo ds sq.
Hypothesis Houts : forall p, In p outs <-> (p < size ds)%nat /\ dsf ds p = p.
Hypothesis Hnd : NoDup outs.
Hypothesis Hlen : length ids = length outs.
Hypothesis Hnz : forall v, In v ids -> v <> 0.

(* every ordered cell gets the id of the unique pit at which its walk ends *)
Theorem basins_default_pits i : In i sq ->
  exists k idx, (idx < length outs)%nat /\ iter ds k i = nth idx outs 0%nat /\ dsf ds (iter ds k i) = iter ds k i /\
    (forall m, (m < k)%nat -> dsf ds (iter ds m i) <> iter ds m i) /\
    nth i (basins ds outs sq ids) 0 = nth idx ids 0 /\ nth idx ids 0 <> 0.
Proof.
  intros Hi. destruct (basins_spec ds outs ids sq Ht) as (_ & H & _).
  destruct (H i Hi) as (k & Hk1 & Hk2).
  set (c := iter ds k i) in *.
  assert (Hc : In c sq) by (apply topo_closed_iter; auto).
  assert (Hcv : valid ds c) by (apply (topo_valid ds sq); auto).
  destruct Hk2 as [[Hs Hv]|(Hs & Hp & Hv)].
  - (* c carries a seed, so it is a listed outlet, i.e. a pit *)
    assert (Hin : In c outs).
    { destruct (in_dec Nat.eq_dec c outs) as [Y|N]; auto. exfalso. apply Hs. apply seed_notin; auto. }
    destruct (In_nth outs c 0%nat Hin) as (idx & Hidx & Eidx).
    exists k, idx. repeat split; auto.
    + apply Houts; auto.
    + intros m Hm. apply Hk1; auto.
    + rewrite Hv. rewrite <- Eidx. apply seed_in; auto. rewrite Eidx. destruct Hcv; auto.
    + apply Hnz. apply nth_In. lia.
  - (* a pit is always a listed outlet: its seed cannot be 0 *)
    exfalso. assert (Hin : In c outs) by (apply Houts; split; auto; destruct Hcv; auto).
    destruct (In_nth outs c 0%nat Hin) as (idx & Hidx & Eidx).
    rewrite <- Eidx in Hs. rewrite seed_in in Hs; auto.
    + apply (Hnz (nth idx ids 0)); auto. apply nth_In. lia.
    + rewrite Eidx. destruct Hcv; auto.
Qed.
End BasinsDefault.

(* ---------- region outlets ---------- *)
Lemma insert_lb_In x l y : In y (insert_lb x l) <-> y = x \/ In y l.
Proof. induction l as [|h t IH]; simpl; [intuition|].
  destruct (fst x <? fst h); simpl; rewrite ?IH; intuition. Qed.

Lemma sort_lb_In l y : In y (sort_lb l) <-> In y l.
Proof. induction l as [|h t IH]; simpl; [tauto|]. rewrite insert_lb_In, IH. intuition. Qed.

Definition le_lb (a b : Z * nat) : Prop := fst a <= fst b.

Lemma insert_lb_sorted x l : StronglySorted le_lb l -> StronglySorted le_lb (insert_lb x l).
Proof.
  induction 1 as [|h t Hs IH Hf]; simpl; [repeat constructor|].
  destruct (Z.ltb_spec (fst x) (fst h)) as [Hlt|Hge].
  - constructor; [constructor; auto|]. constructor; [unfold le_lb; lia|].
    apply Forall_forall. intros y Hy. rewrite Forall_forall in Hf. specialize (Hf y Hy). unfold le_lb in *. lia.
  - constructor; auto. apply Forall_forall. intros y Hy. apply insert_lb_In in Hy.
    destruct Hy as [->|Hy]; [unfold le_lb; lia|]. rewrite Forall_forall in Hf. auto.
Qed.

Lemma sort_lb_sorted l : StronglySorted le_lb (sort_lb l).
Proof. induction l as [|h t IH]; simpl; [constructor|apply insert_lb_sorted; auto]. Qed.

Theorem region_outlets_spec ds regions sq lb idx :
  In (lb, idx) (region_outlets ds regions sq) <->
  In idx sq /\ nth idx regions 0 = lb /\ lb > 0 /\ (dsf ds idx = idx \/ nth (dsf ds idx) regions 0 <> lb).
Proof.
  unfold region_outlets. rewrite sort_lb_In, in_map_iff. split.
  - intros (x & E & Hx). inversion E; subst. apply filter_In in Hx. destruct Hx as [Hx Ho].
    rewrite <- in_rev in Hx. unfold is_region_outlet in Ho.
    apply andb_true_iff in Ho. destruct Ho as [H1 H2]. apply Z.gtb_lt in H1.
    apply orb_true_iff in H2. repeat split; auto; try lia.
    destruct H2 as [H2|H2]; [left; apply Nat.eqb_eq; auto|right].
    apply negb_true_iff, Z.eqb_neq in H2. auto.
  - intros (Hs & <- & Hp & Ho). exists idx. split; auto. apply filter_In. split; [rewrite <- in_rev; auto|].
    unfold is_region_outlet. apply andb_true_iff. split; [apply Z.gtb_lt; lia|].
    apply orb_true_iff. destruct Ho as [Ho|Ho]; [left; apply Nat.eqb_eq; auto|right].
    apply negb_true_iff, Z.eqb_neq. auto.
Qed.

Theorem region_outlets_sorted ds regions sq : StronglySorted le_lb (region_outlets ds regions sq).
Proof. apply sort_lb_sorted. Qed.

(* on a map produced by `basins` (distinct outlets in the order, distinct positive ids) the outlet
   query returns exactly the outlet cells with their ids: one per basin *)
Section Roundtrip.
Variable ds : list nat.
Variables (outs : list nat) (ids : list Z) (sq : list nat).
Hypothesis Ht : topo ds sq.
Hypothesis Hnd : NoDup outs.
Hypothesis Hndi : NoDup ids.
Hypothesis Hlen : length ids = length outs.
Hypothesis Hpos : forall v, In v ids -> v > 0.
Hypothesis Hin : forall p, In p outs -> In p sq.
Let B := basins ds outs sq ids.
Let S := seed (length ds) outs ids.

Lemma basins_at_outlet k : (k < length outs)%nat -> nth (nth k outs 0%nat) B 0 = nth k ids 0.
Proof.
  intros Hk. set (o := nth k outs 0%nat).
  assert (Ho : In o sq) by (apply Hin, nth_In; auto).
  assert (Hov : valid ds o) by (apply (topo_valid ds sq); auto).
  assert (HS : nth o S 0 = nth k ids 0) by (apply seed_in; auto; destruct Hov; auto).
  assert (Hl : length S = size ds) by (unfold S; rewrite seed_length; reflexivity).
  destruct (sweep_down_spec ds 0 (fill_f 0) sq S Hl Ht) as [H1 _].
  pose proof (H1 o Ho) as V. unfold B, basins, fillnodata_upstream. fold S.
  assert (Hnz : nth o S 0 <> 0).
  { rewrite HS. assert (nth k ids 0 > 0) by (apply Hpos, nth_In; lia). lia. }
  inversion V as [j Hp E|j v Hnp Hv E]; subst; unfold fill_f;
    (destruct (Z.eqb_spec (nth o S 0) 0); [contradiction|]); cbn [andb]; auto.
Qed.

Theorem basin_outlets_roundtrip lb idx :
  In (lb, idx) (region_outlets ds B sq) <-> exists k, (k < length outs)%nat /\ idx = nth k outs 0%nat /\ lb = nth k ids 0.
Proof.
  rewrite region_outlets_spec. split.
  - intros (Hs & HB & Hp & Ho).
    destruct (in_dec Nat.eq_dec idx outs) as [Y|N].
    + destruct (In_nth outs idx 0%nat Y) as (k & Hk & Ek). exists k. repeat split; auto.
      rewrite <- HB, <- Ek. apply basins_at_outlet; auto.
    + exfalso. assert (HS : nth idx S 0 = 0) by (apply seed_notin; auto).
      destruct Ho as [Ho|Ho].
      * (* a pit that is not an outlet keeps label 0 *)
        assert (Hl : length S = size ds) by (unfold S; rewrite seed_length; reflexivity).
        destruct (sweep_down_spec ds 0 (fill_f 0) sq S Hl Ht) as [H1 _].
        pose proof (H1 idx Hs) as V. fold (fillnodata_upstream ds sq S 0) in V.
        change (fillnodata_upstream ds sq S 0) with B in V.
        inversion V as [j Hpp E|j v Hnp Hv E]; subst; [|contradiction].
        unfold fill_f in *. rewrite HS in *. simpl in *. lia.
      * destruct (Nat.eq_dec (dsf ds idx) idx) as [E|E].
        -- rewrite E in Ho. contradiction.
        -- apply Ho. rewrite <- HB. symmetry. apply basins_upstream_closed; auto. apply topo_closed; auto.
  - intros (k & Hk & -> & ->). set (o := nth k outs 0%nat).
    assert (Ho : In o sq) by (apply Hin, nth_In; auto).
    assert (HB : nth o B 0 = nth k ids 0) by (apply basins_at_outlet; auto).
    assert (Hp : nth k ids 0 > 0) by (apply Hpos, nth_In; lia).
    repeat split; auto.
    destruct (Nat.eq_dec (dsf ds o) o) as [E|E]; [left; auto|right].
    intros Heq.
    (* the label of ds o is the id of an outlet c strictly downstream; equal ids force c = o: a cycle *)
    destruct (basins_spec ds outs ids sq Ht) as (_ & Hsp & _).
    assert (Hd : In (dsf ds o) sq) by (apply topo_closed; auto).
    destruct (Hsp _ Hd) as (m & Hm1 & Hm2). fold B in Hm2. rewrite Heq in Hm2.
    destruct Hm2 as [[Hs Hv]|(_ & _ & Hv)]; [|lia].
    set (c := iter ds m (dsf ds o)) in *.
    assert (Hc : In c outs).
    { destruct (in_dec Nat.eq_dec c outs) as [Y|N]; auto. exfalso. apply Hs. apply seed_notin; auto. }
    destruct (In_nth outs c 0%nat Hc) as (k2 & Hk2 & Ek2).
    assert (Hcv : valid ds c) by (apply (topo_valid ds sq); auto).
    assert (HSc : nth c (seed (length ds) outs ids) 0 = nth k2 ids 0)
      by (rewrite <- Ek2; apply seed_in; auto; rewrite Ek2; destruct Hcv; auto).
    rewrite HSc in Hv.
    assert (k = k2).
    { rewrite NoDup_nth in Hndi. apply Hndi; try lia. exact Hv. }
    subst k2. assert (c = o) by (rewrite <- Ek2; reflexivity).
    apply E. apply (topo_acyclic ds sq o m); auto.
Qed.
End Roundtrip.
