(* C20: regions.region_dissolve relabels each dissolved region, and only those, with the label carried by the spreading
   result at the region's location -- which (SpreadOpt) is the label of the surviving cell at least accumulated cost. *)
From Coq Require Import List Arith ZArith Bool Lia.
Import ListNotations.
From PF Require Import Arr Spread SpreadSpec SpreadOpt.
Local Open Scope Z_scope.

Lemma memz_In x l : memz x l = true <-> In x l.
Proof. induction l as [|y t IH]; cbn [memz In]; [split; [discriminate|tauto]|].
  rewrite orb_true_iff, IH, Z.eqb_eq. split; intros [H|H]; auto. Qed.

Lemma index_of_none x l : index_of x l = None <-> memz x l = false.
Proof. induction l as [|y t IH]; cbn [index_of memz]; [tauto|].
  destruct (x =? y); cbn [orb]; [split; discriminate|]. destruct (index_of x t); [split; [discriminate|]|tauto].
  intros H. apply IH in H. discriminate. Qed.

Lemma index_of_nth l : NoDup l -> forall k, (k < length l)%nat -> index_of (nth k l 0) l = Some k.
Proof.
  induction 1 as [|y t Hy Hnd IH]; intros k Hk; [simpl in Hk; lia|].
  destruct k as [|k]; cbn [nth index_of]; [rewrite Z.eqb_refl; reflexivity|].
  simpl in Hk. destruct (Z.eqb_spec (nth k t 0) y) as [E|E]; [exfalso; apply Hy; rewrite <- E; apply nth_In; lia|].
  rewrite IH by lia. reflexivity.
Qed.

(* ---------- the relabelling ---------- *)
Lemma relabel_length regs labels labels1 : length (dissolve_relabel regs labels labels1) = length regs.
Proof. apply map_length. Qed.

Lemma relabel_other regs labels labels1 j : memz (nth j regs 0) labels = false ->
  nth j (dissolve_relabel regs labels labels1) 0 = nth j regs 0.
Proof.
  intros H. unfold dissolve_relabel. destruct (Nat.lt_ge_cases j (length regs)) as [Hj|Hj].
  - rewrite (nth_indep _ 0 ((fun x => match index_of x labels with Some k => nth k labels1 x | None => x end) 0)) by (rewrite map_length; auto).
    rewrite (map_nth (fun x => match index_of x labels with Some k => nth k labels1 x | None => x end)).
    apply index_of_none in H. rewrite H. reflexivity.
  - rewrite !nth_overflow by (rewrite ?map_length; auto). reflexivity.
Qed.

Lemma relabel_region regs labels labels1 k j : NoDup labels -> (k < length labels)%nat -> length labels1 = length labels ->
  (j < length regs)%nat -> nth j regs 0 = nth k labels 0 ->
  nth j (dissolve_relabel regs labels labels1) 0 = nth k labels1 0.
Proof.
  intros Hnd Hk Hl Hj E. unfold dissolve_relabel.
  rewrite (nth_indep _ 0 ((fun x => match index_of x labels with Some k => nth k labels1 x | None => x end) 0)) by (rewrite map_length; auto).
  rewrite (map_nth (fun x => match index_of x labels with Some k => nth k labels1 x | None => x end)).
  rewrite E, (index_of_nth labels Hnd k Hk). apply nth_indep. lia.
Qed.

(* ---------- the location chosen when only labels are given ---------- *)
Lemma argmin_region_spec regs dst lab : (exists i, (i < length regs)%nat /\ nth i regs 0 = lab) ->
  let p := argmin_region regs dst lab in
  (p < length regs)%nat /\ nth p regs 0 = lab /\ forall q, (q < length regs)%nat -> nth q regs 0 = lab -> nth p dst 0 <= nth q dst 0.
Proof.
  intros Hex. unfold argmin_region.
  set (f := fun (best : option nat) i => if nth i regs 0 =? lab then match best with None => Some i | Some b => if nth i dst 0 <? nth b dst 0 then Some i else best end else best).
  assert (G : forall n, (n <= length regs)%nat ->
     match fold_left f (seq 0 n) None with
     | None => forall q, (q < n)%nat -> nth q regs 0 <> lab
     | Some b => (b < n)%nat /\ nth b regs 0 = lab /\ forall q, (q < n)%nat -> nth q regs 0 = lab -> nth b dst 0 <= nth q dst 0
     end).
  { induction n as [|n IH]; intros Hn; [cbn; intros; lia|].
    rewrite seq_S, fold_left_app. cbn [fold_left Nat.add]. specialize (IH ltac:(lia)).
    destruct (fold_left f (seq 0 n) None) as [b|]; unfold f at 1.
    - destruct IH as (Hb & Hlab & Hmin). destruct (Z.eqb_spec (nth n regs 0) lab) as [E|E].
      + destruct (Z.ltb_spec (nth n dst 0) (nth b dst 0)) as [Hlt|Hge].
        * split; [lia|]. split; [auto|]. intros q Hq Hql. destruct (Nat.eq_dec q n) as [->|Hne]; [lia|]. specialize (Hmin q ltac:(lia) Hql). lia.
        * split; [lia|]. split; [auto|]. intros q Hq Hql. destruct (Nat.eq_dec q n) as [->|Hne]; [lia|]. apply Hmin; auto; lia.
      + split; [lia|]. split; [auto|]. intros q Hq Hql. destruct (Nat.eq_dec q n) as [->|Hne]; [congruence|]. apply Hmin; auto; lia.
    - destruct (Z.eqb_spec (nth n regs 0) lab) as [E|E].
      + split; [lia|]. split; [auto|]. intros q Hq Hql. destruct (Nat.eq_dec q n) as [->|Hne]; [lia|]. exfalso. apply (IH q); auto; lia.
      + intros q Hq. destruct (Nat.eq_dec q n) as [->|Hne]; [auto|]. apply IH. lia. }
  specialize (G (length regs) (le_n _)).
  destruct (fold_left f (seq 0 (length regs)) None) as [b|]; [exact G|].
  destruct Hex as [i [Hi Hl]]. exfalso. apply (G i Hi Hl).
Qed.

(* ---------- the whole operation ---------- *)
Section Dissolve.
Variables nrow ncol : nat.
Variable regs labels : list Z.
Variables dx dy hyp : Z.
Hypothesis Hdx : 0 <= dx.
Hypothesis Hdy : 0 <= dy.
Hypothesis Hhyp : 0 <= hyp.
Hypothesis Hlen : length regs = (nrow * ncol)%nat.
Hypothesis Hnd : NoDup labels.

Definition regs0 : list Z := map (fun v => if memz v labels then 0 else v) regs.
Notation sp := (spread2d nrow ncol regs0 None 0 None dx dy hyp).

Lemma regs0_len : length regs0 = (nrow * ncol)%nat.
Proof. unfold regs0. rewrite map_length. exact Hlen. Qed.

Lemma regs0_nth j : nth j regs0 0 = if memz (nth j regs 0) labels then 0 else nth j regs 0.
Proof.
  unfold regs0. destruct (Nat.lt_ge_cases j (length regs)) as [Hj|Hj].
  - rewrite (nth_indep _ 0 ((fun v => if memz v labels then 0 else v) 0)) by (rewrite map_length; auto).
    rewrite (map_nth (fun v => if memz v labels then 0 else v)). reflexivity.
  - rewrite !nth_overflow by (rewrite ?map_length; auto). destruct (memz 0 labels); reflexivity.
Qed.

(* labels given: every dissolved region gets the label found by the spreading at its nearest cell, nothing else changes;
   that label belongs to a surviving region, and no surviving cell is closer to that location *)
Theorem dissolve_labels_spec :
  let '(out, src, dst) := sp in
  let R := region_dissolve nrow ncol regs labels None dx dy hyp in
  length R = length regs /\
  (forall j, ~ In (nth j regs 0) labels -> nth j R 0 = nth j regs 0) /\
  (forall k, (k < length labels)%nat -> (exists i, (i < length regs)%nat /\ nth i regs 0 = nth k labels 0) ->
     let p := argmin_region regs dst (nth k labels 0) in
     (p < length regs)%nat /\ nth p regs 0 = nth k labels 0 /\
     (forall q, (q < length regs)%nat -> nth q regs 0 = nth k labels 0 -> nth p dst 0 <= nth q dst 0) /\
     (forall j, (j < length regs)%nat -> nth j regs 0 = nth k labels 0 -> nth j R 0 = nth p out 0) /\
     (nth p src 0 <> -1 ->
        let s := Z.to_nat (nth p src 0) in
        nth p out 0 = nth s regs 0 /\ ~ In (nth s regs 0) labels /\ nth s regs 0 <> 0 /\
        apath nrow ncol regs0 None 0 None dx dy hyp s p (nth p dst 0) /\
        forall s' D, apath nrow ncol regs0 None 0 None dx dy hyp s' p D -> nth p dst 0 <= D)).
Proof.
  pose proof (SpreadSpec.spread_sound nrow ncol regs0 None 0 None dx dy hyp Hdx Hdy Hhyp (fun _ => Z.le_0_1) regs0_len) as Hs.
  assert (Hu : let '(out, src, dst) := sp in
               forall s j D, apath nrow ncol regs0 None 0 None dx dy hyp s j D -> nth j src 0 <> -1 /\ nth j dst 0 <= D)
    by exact (SpreadOpt.spread_upper nrow ncol regs0 None 0 None dx dy hyp Hdx Hdy Hhyp (fun _ => Z.le_0_1) regs0_len).
  assert (Ha : let '(out, src, dst) := sp in
               forall j, (j < nrow * ncol)%nat -> nth j src 0 <> -1 -> mok None j = true ->
                 apath nrow ncol regs0 None 0 None dx dy hyp (Z.to_nat (nth j src 0)) j (nth j dst 0))
    by exact (SpreadOpt.spread_attained nrow ncol regs0 None 0 None dx dy hyp Hdx Hdy Hhyp (fun _ => Z.le_0_1) regs0_len).
  unfold region_dissolve. fold regs0.
  destruct sp as [[out src] dst]. destruct Hs as (Lo & Ls & Ld & Hc). cbv zeta.
  split; [apply relabel_length|]. split.
  - intros j Hj. apply relabel_other. destruct (memz (nth j regs 0) labels) eqn:E; auto. apply memz_In in E. contradiction.
  - intros k Hk Hex. destruct (argmin_region_spec regs dst (nth k labels 0) Hex) as (Hp & Hpl & Hmin). cbv zeta in Hp, Hpl, Hmin.
    split; [exact Hp|]. split; [exact Hpl|]. split; [exact Hmin|]. split.
    + intros j Hj Hjl. rewrite (relabel_region regs labels _ k j Hnd Hk); auto; [|rewrite !map_length; reflexivity].
      rewrite (nth_indep _ 0 ((fun i => nth i out 0) 0%nat)) by (rewrite !map_length; auto).
      rewrite (map_nth (fun i => nth i out 0)).
      rewrite (nth_indep _ 0%nat (argmin_region regs dst 0)) by (rewrite map_length; auto).
      rewrite (map_nth (argmin_region regs dst)). reflexivity.
    + intros Hsrc. set (p := argmin_region regs dst (nth k labels 0)) in *.
      assert (Hpz : (p < nrow * ncol)%nat) by (rewrite <- Hlen; exact Hp).
      destruct (Hc p Hpz) as [_ [(Hm1 & _)|(s & Hs1 & Hs2 & Hobs & Hout & _)]]; [congruence|].
      rewrite Hs1, Nat2Z.id. rewrite Hout.
      assert (Hr0 : nth s regs0 0 <> 0).
      { intros E0. rewrite E0 in Hobs. discriminate. }
      rewrite regs0_nth in *. destruct (memz (nth s regs 0) labels) eqn:Em; [congruence|].
      split; [reflexivity|]. split; [intros Hin; apply memz_In in Hin; congruence|]. split; [exact Hr0|]. split.
      * specialize (Ha p Hpz Hsrc eq_refl). rewrite Hs1, Nat2Z.id in Ha. exact Ha.
      * intros s' D Hp'. apply (Hu s' p D Hp').
Qed.
End Dissolve.

(* locations given (idxs=...): the labels are read at the locations, each dissolved region gets the label the spreading
   result carries at ITS location *)
Section DissolveAt.
Variables nrow ncol : nat.
Variable regs : list Z.
Variable pos : list nat.
Variables dx dy hyp : Z.
Hypothesis Hdx : 0 <= dx.
Hypothesis Hdy : 0 <= dy.
Hypothesis Hhyp : 0 <= hyp.
Hypothesis Hlen : length regs = (nrow * ncol)%nat.
Notation labels := (map (fun i => nth i regs 0) pos).
Hypothesis Hnd : NoDup labels.
Hypothesis Hpos : forall p, In p pos -> (p < length regs)%nat.

Notation regs0' := (regs0 regs labels).
Notation sp := (spread2d nrow ncol regs0' None 0 None dx dy hyp).

Theorem dissolve_idxs_spec :
  let '(out, src, dst) := sp in
  let R := region_dissolve nrow ncol regs [] (Some pos) dx dy hyp in
  length R = length regs /\
  (forall j, ~ In (nth j regs 0) labels -> nth j R 0 = nth j regs 0) /\
  (forall k, (k < length pos)%nat ->
     let p := nth k pos 0%nat in
     (forall j, (j < length regs)%nat -> nth j regs 0 = nth p regs 0 -> nth j R 0 = nth p out 0) /\
     (nth p src 0 <> -1 ->
        let s := Z.to_nat (nth p src 0) in
        nth p out 0 = nth s regs 0 /\ ~ In (nth s regs 0) labels /\ nth s regs 0 <> 0 /\
        apath nrow ncol regs0' None 0 None dx dy hyp s p (nth p dst 0) /\
        forall s' D, apath nrow ncol regs0' None 0 None dx dy hyp s' p D -> nth p dst 0 <= D)).
Proof.
  pose proof (regs0_len nrow ncol regs labels Hlen) as Hl0.
  pose proof (SpreadSpec.spread_sound nrow ncol regs0' None 0 None dx dy hyp Hdx Hdy Hhyp (fun _ => Z.le_0_1) Hl0) as Hs.
  assert (Hu : let '(out, src, dst) := sp in
               forall s j D, apath nrow ncol regs0' None 0 None dx dy hyp s j D -> nth j src 0 <> -1 /\ nth j dst 0 <= D)
    by exact (SpreadOpt.spread_upper nrow ncol regs0' None 0 None dx dy hyp Hdx Hdy Hhyp (fun _ => Z.le_0_1) Hl0).
  assert (Ha : let '(out, src, dst) := sp in
               forall j, (j < nrow * ncol)%nat -> nth j src 0 <> -1 -> mok None j = true ->
                 apath nrow ncol regs0' None 0 None dx dy hyp (Z.to_nat (nth j src 0)) j (nth j dst 0))
    by exact (SpreadOpt.spread_attained nrow ncol regs0' None 0 None dx dy hyp Hdx Hdy Hhyp (fun _ => Z.le_0_1) Hl0).
  unfold region_dissolve. fold regs0'.
  destruct sp as [[out src] dst]. destruct Hs as (Lo & Ls & Ld & Hc). cbv zeta.
  split; [apply relabel_length|]. split.
  - intros j Hj. apply relabel_other. destruct (memz (nth j regs 0) labels) eqn:E; auto. apply memz_In in E. contradiction.
  - intros k Hk. set (p := nth k pos 0%nat).
    assert (Hp : (p < length regs)%nat) by (apply Hpos; apply nth_In; auto).
    assert (Hlabk : nth k labels 0 = nth p regs 0).
    { rewrite (nth_indep _ 0 ((fun i => nth i regs 0) 0%nat)) by (rewrite map_length; auto).
      rewrite (map_nth (fun i => nth i regs 0)). reflexivity. }
    split.
    + intros j Hj Hjl. rewrite (relabel_region regs labels _ k j Hnd); auto; [|rewrite map_length; auto|rewrite !map_length; reflexivity|congruence].
      rewrite (nth_indep _ 0 ((fun i => nth i out 0) 0%nat)) by (rewrite !map_length; auto).
      rewrite (map_nth (fun i => nth i out 0)). reflexivity.
    + intros Hsrc.
      assert (Hpz : (p < nrow * ncol)%nat) by (rewrite <- Hlen; exact Hp).
      destruct (Hc p Hpz) as [_ [(Hm1 & _)|(s & Hs1 & Hs2 & Hobs & Hout & _)]]; [congruence|].
      rewrite Hs1, Nat2Z.id. rewrite Hout.
      assert (Hr0 : nth s regs0' 0 <> 0) by (intros E0; rewrite E0 in Hobs; discriminate).
      rewrite (regs0_nth regs labels) in *. destruct (memz (nth s regs 0) labels) eqn:Em; [congruence|].
      split; [reflexivity|]. split; [intros Hin; apply memz_In in Hin; congruence|]. split; [exact Hr0|]. split.
      * specialize (Ha p Hpz Hsrc eq_refl). rewrite Hs1, Nat2Z.id in Ha. exact Ha.
      * intros s' D Hp'. apply (Hu s' p D Hp').
Qed.
End DissolveAt.
