(* Models: core.rank, core.upstream_count, core.idxs_seq (BFS from the pits),
   Flwdir.order_cells('sort'), core.loop_indices, Flwdir.isvalid, add_pits / repair_loops. *)
From Coq Require Import List Arith ZArith Bool.
Import ListNotations.
From PF Require Import Arr Net.
Local Open Scope Z_scope.

Definition RU : Z := -9999.       (* not ranked yet / nodata *)

(* while len(idxs_lst) > 0: rnk += 1; ranks[idxs_lst.pop(-1)] = rnk      (stack: top first) *)
Fixpoint assign (ranks : list Z) (stack : list nat) (r : Z) : list Z :=
  match stack with [] => ranks | c :: t => assign (upd ranks c r) t (r + 1) end.
(* while len(idxs_lst) > 0: ranks[idxs_lst.pop(-1)] = -1 *)
Fixpoint mark (ranks : list Z) (stack : list nat) : list Z :=
  match stack with [] => ranks | c :: t => mark (upd ranks c (-1)) t end.

Section RankModel.
Variable ds : list nat.
Notation n := (size ds).

(* one iteration of the inner `while True` of core.rank (cur = top of the stack):
   Some result when the loop breaks here, None when it moves on to the downstream cell *)
Definition walk_stop (ranks : list Z) (stack : list nat) (cur : nat) : option (list Z * nat) :=
  let d := dsf ds cur in
  let rnk := nth d ranks RU in
  if rnk >=? 0 then Some (assign ranks stack (rnk + 1), length stack)
  else if (d =? cur)%nat then Some (assign ranks stack 0, length stack)
  else if (rnk =? -1) || memb d stack then Some (mark ranks stack, 0%nat)
  else None.

Fixpoint walk (fuel : nat) (ranks : list Z) (stack : list nat) (cur : nat) : list Z * nat :=
  match walk_stop ranks stack cur with
  | Some r => r
  | None => match fuel with
            | O => (ranks, 0%nat)            (* out of fuel: excluded by walk_ok *)
            | S f => walk f ranks (dsf ds cur :: stack) (dsf ds cur)
            end
  end.

Definition rank_outer (st : list Z * nat) (i : nat) : list Z * nat :=
  let '(ranks, cnt) := st in
  if validb ds i && (nth i ranks RU =? RU) then
    let '(r', c) := walk n ranks [i] i in (r', (cnt + c)%nat)
  else st.

Definition rank : list Z * nat := fold_left rank_outer (seq 0 n) (repeat RU n, 0%nat).

(* upstream cells of x in ascending index order (a row of core.upstream_matrix) *)
Definition ups (x : nat) : list nat :=
  filter (fun c => (dsf ds c =? x)%nat && negb (c =? x)%nat) (seq 0 n).

Definition upstream_count (mask : option (list bool)) : list Z :=
  map (fun j => if validb ds j then
                  Z.of_nat (length (filter (fun c => match mask with None => true | Some m => nth c m false end) (ups j)))
                else -9) (seq 0 n).

(* core.idxs_seq: array used as a FIFO queue, seeded with the pits *)
Fixpoint bfs (fuel : nat) (queue : list nat) (acc : list nat) : list nat :=
  match fuel with
  | O => rev acc
  | S f => match queue with
           | [] => rev acc
           | x :: q => bfs f (q ++ ups x) (x :: acc)
           end
  end.
Definition idxs_seq (pits : list nat) : list nat := bfs n pits [].

(* order_cells('sort'): argsort(rank)[-n:]  = the ranked cells in non-decreasing rank order
   (ties are left to the sorting routine; the model uses a stable insertion sort) *)
Fixpoint insert_rk (rk : nat -> Z) (x : nat) (l : list nat) : list nat :=
  match l with
  | [] => [x]
  | h :: t => if rk x <? rk h then x :: l else h :: insert_rk rk x t
  end.
Definition order_sort : list nat :=
  let ranks := fst rank in
  let rk i := nth i ranks RU in
  fold_right (insert_rk rk) [] (filter (fun i => rk i >=? 0) (seq 0 n)).

Definition loop_indices : list nat := filter (fun i => nth i (fst rank) RU =? -1) (seq 0 n).
Definition isvalid : bool := forallb (fun v => negb (v =? -1)) (fst rank).
End RankModel.

(* add_pits(idxs): idxs_ds[idxs] = idxs ; pits = unique(concat(pits, idxs)) (sorted, distinct) *)
Definition add_pits (ds : list nat) (idxs : list nat) : list nat :=
  fold_left (fun a i => upd a i i) idxs ds.
Definition repair_loops (ds : list nat) : list nat := add_pits ds (loop_indices ds).
