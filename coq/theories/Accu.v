(* Models: streams.accuflux, streams.accuflux_ds, streams.upstream_area (accumulation part),
   Flwdir.upstream_area post-processing. *)
From Coq Require Import List Arith ZArith Bool.
Import ListNotations.
From PF Require Import Arr Net SweepDown.
Open Scope Z_scope.

(* for idx0 in seq[::-1]:
     if idx0 != idx_ds and data[idx_ds] != nodata and data[idx0] != nodata: accu[idx_ds] += accu[idx0] *)
Definition accu_step (ds : list nat) (nodata : Z) (data : list Z) (a : list Z) (i : nat) : list Z :=
  let d := dsf ds i in
  if negb (d =? i)%nat && negb (nth d data 0 =? nodata) && negb (nth i data 0 =? nodata)
  then upd a d (nth d a 0 + nth i a 0) else a.
Definition accuflux (ds : list nat) (sq : list nat) (data : list Z) (nodata : Z) : list Z :=
  fold_left (accu_step ds nodata data) (rev sq) data.

(* for idx0 in seq: if idx0 != idx_ds and data[idx_ds] != nodata and data[idx0] != nodata: accu[idx0] += accu[idx_ds] *)
Definition accu_ds_f (ds : list nat) (nodata : Z) (data : list Z) (i : nat) (vds own : Z) : Z :=
  if negb (dsf ds i =? i)%nat && negb (nth (dsf ds i) data 0 =? nodata) && negb (nth i data 0 =? nodata)
  then own + vds else own.
Definition accuflux_ds (ds : list nat) (sq : list nat) (data : list Z) (nodata : Z) : list Z :=
  sweep_down ds 0 (accu_ds_f ds nodata data) sq data.

(* streams.upstream_area: uparea = nodata everywhere, cell area on seq, then ungated accumulation *)
Definition plain_step (ds : list nat) (a : list Z) (i : nat) : list Z :=
  let d := dsf ds i in
  if (d =? i)%nat then a else upd a d (nth d a 0 + nth i a 0).
Definition upstream_area (ds : list nat) (sq : list nat) (area : list Z) (nodata : Z) : list Z :=
  let init := fold_left (fun a i => upd a i (nth i area 0)) sq (repeat nodata (length ds)) in
  fold_left (plain_step ds) (rev sq) init.

(* Flwdir.upstream_area: accuflux(area, nodata=-9999) then uparea[~mask] = -9999 *)
Definition flwdir_upstream_area (ds : list nat) (sq : list nat) (area : list Z) : list Z :=
  let acc := accuflux ds sq area (-9999) in
  map (fun i => if validb ds i then nth i acc 0 else -9999) (seq 0 (length ds)).
