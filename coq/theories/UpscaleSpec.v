(* C09: what is proved of the non-iterative upscaling kernels and of the connection check. *)
From Coq Require Import List Arith ZArith Bool Lia.
Import ListNotations.
From PF Require Import Arr Net Elev ElevSpec Upscale.

(* ---------- shape: every fine pixel falls into a coarse cell of the ceil-shaped raster ---------- *)

Lemma cdiv_bound a b : (0 < b)%nat -> (a <= cdiv a b * b)%nat /\ (forall x, x < a -> x / b < cdiv a b)%nat.
Proof.
  intros Hb. unfold cdiv.
  assert (H1 : (a <= (a + b - 1) / b * b)%nat).
  { pose proof (Nat.div_mod (a + b - 1) b ltac:(lia)) as Hd.
    pose proof (Nat.mod_upper_bound (a + b - 1) b ltac:(lia)) as Hm. nia. }
  split; auto. intros x Hx.
  apply Nat.div_lt_upper_bound; [lia|]. lia.
Qed.

Theorem coarse_shape_covers subnrow subncol cs subidx : (0 < cs)%nat -> (0 < subncol)%nat ->
  (subidx < subnrow * subncol)%nat ->
  (sub2idx subidx subncol cs (cdiv subncol cs) < cdiv subnrow cs * cdiv subncol cs)%nat.
Proof.
  intros Hcs Hnc Hs. unfold sub2idx.
  assert (Hr : (subidx / subncol < subnrow)%nat) by (apply Nat.div_lt_upper_bound; lia).
  assert (Hc : (subidx mod subncol < subncol)%nat) by (apply Nat.mod_upper_bound; lia).
  destruct (cdiv_bound subnrow cs Hcs) as [_ H1]. destruct (cdiv_bound subncol cs Hcs) as [_ H2].
  specialize (H1 _ Hr). specialize (H2 _ Hc). nia.
Qed.

Section UpSpec.
Variable sds : list nat.
Variable upa : list Z.
Variable subncol cs nrow ncol : nat.
Let nsub := length sds.
Let nc := (nrow * ncol)%nat.
Notation sd := (sd sds).
Notation cellof := (cellof subncol cs ncol).

(* ---------- representative pixel ---------- *)

Definition candidate (sel : nat -> bool) (t : nat) : Prop :=
  (t < nsub)%nat /\ (sd t < nsub)%nat /\ (sd t = t \/ sel t = true).

Record rep_inv (sel : nat -> bool) (k : nat) (rep : list nat) (ua : list Z) : Prop := {
  ri_len : length rep = nc /\ length ua = nc;
  ri_nonneg : forall idx, (0 <= nth idx ua 0)%Z;
  ri_rep : forall idx, (idx < nc)%nat ->
     let s := nth idx rep nsub in
     (s = nsub /\ nth idx ua 0%Z = 0%Z) \/
     (candidate sel s /\ (s < k)%nat /\ cellof s = idx /\ nth idx ua 0%Z = nth s upa 0%Z /\ (0 < nth s upa 0)%Z);
  ri_max : forall t, candidate sel t -> (t < k)%nat -> (cellof t < nc)%nat -> (nth t upa 0 <= nth (cellof t) ua 0)%Z }.

Lemma nth_repeat_gen {A} (x d : A) n i : (i < n)%nat -> nth i (repeat x n) d = x.
Proof. revert i; induction n as [|n IH]; intros [|i] H; simpl; auto; try lia. apply IH. lia. Qed.

Lemma rep_step_inv sel k rep ua : (k < nsub)%nat -> rep_inv sel k rep ua ->
  rep_inv sel (S k) (fst (rep_step sds upa subncol cs ncol sel (rep, ua) k)) (snd (rep_step sds upa subncol cs ncol sel (rep, ua) k)).
Proof.
  intros Hk [[L1 L2] Hnn Hrep Hmax]. unfold rep_step. fold nsub.
  assert (Hkeep : rep_inv sel k rep ua -> ~ (candidate sel k /\ (cellof k < nc)%nat /\ (nth (cellof k) ua 0 < nth k upa 0)%Z) ->
                  rep_inv sel (S k) rep ua).
  { intros [[_ _] _ _ _] Hno. constructor; auto.
    - intros idx Hi. destruct (Hrep idx Hi) as [H|[H1 [H2 H3]]]; [left; auto|right; split; [exact H1|]; split; [lia|exact H3]].
    - intros t Ht Htk Hct. destruct (Nat.eq_dec t k) as [->|Hne]; [|apply Hmax; auto; lia].
      destruct (Z_le_gt_dec (nth k upa 0%Z) (nth (cellof k) ua 0%Z)); auto. exfalso. apply Hno. split; auto. split; auto. lia. }
  assert (HI : rep_inv sel k rep ua) by (constructor; auto).
  destruct (nsub <=? sd k) eqn:E1.
  { simpl. apply Hkeep; auto. intros [[_ [H _]] _]. apply Nat.leb_le in E1. lia. }
  apply Nat.leb_gt in E1.
  destruct ((sd k =? k) || sel k) eqn:E2.
  2:{ simpl. apply Hkeep; auto. intros [[_ [_ H]] _]. apply orb_false_iff in E2. destruct E2 as [E2 E3].
      apply Nat.eqb_neq in E2. destruct H; congruence. }
  assert (Hcand : candidate sel k).
  { split; [auto|]. split; [auto|]. apply orb_true_iff in E2. destruct E2 as [E2|E2]; [left; apply Nat.eqb_eq; auto|right; auto]. }
  destruct (nth (cellof k) ua 0 <? nth k upa 0)%Z eqn:E3.
  2:{ simpl. apply Hkeep; auto. intros [_ [_ H]]. apply Z.ltb_ge in E3. lia. }
  apply Z.ltb_lt in E3. simpl.
  constructor.
  - rewrite !upd_length. auto.
  - intros idx. rewrite nth_upd. destruct ((idx =? cellof k)%nat && (cellof k <? length ua)%nat); auto.
    specialize (Hnn (cellof k)). lia.
  - intros idx Hi. cbv zeta. rewrite !nth_upd. rewrite L1, L2.
    destruct (Nat.eqb_spec idx (cellof k)) as [->|Hne]; simpl.
    + assert (Hlt : (cellof k <? nc)%nat = true) by (apply Nat.ltb_lt; auto). rewrite Hlt.
      right. split; auto. split; [lia|]. split; auto. split; auto. specialize (Hnn (cellof k)). lia.
    + destruct (Hrep idx Hi) as [H|[H1 [H2 H3]]]; [left; auto|right; split; [exact H1|]; split; [lia|exact H3]].
  - intros t Ht Htk Hct. rewrite nth_upd. rewrite L2.
    destruct (Nat.eqb_spec (cellof t) (cellof k)) as [Heq|Hne]; simpl.
    + assert (Hlt : (cellof k <? nc)%nat = true) by (apply Nat.ltb_lt; rewrite <- Heq; auto). rewrite Hlt.
      destruct (Nat.eq_dec t k) as [->|Hne]; [lia|].
      assert (nth t upa 0 <= nth (cellof t) ua 0)%Z by (apply Hmax; auto; lia). rewrite Heq in H. lia.
    + destruct (Nat.eq_dec t k) as [->|Hne2]; [congruence|]. apply Hmax; auto. lia.
Qed.

Theorem repcell_spec sel : let rep := repcell sds upa subncol cs nrow ncol sel in
  length rep = nc /\
  (forall idx, (idx < nc)%nat -> let s := nth idx rep nsub in
     s = nsub \/ (candidate sel s /\ cellof s = idx /\ (0 < nth s upa 0)%Z)) /\
  (forall t, candidate sel t -> (cellof t < nc)%nat -> (0 < nth t upa 0)%Z ->
     let s := nth (cellof t) rep nsub in (s < nsub)%nat /\ (nth t upa 0 <= nth s upa 0)%Z).
Proof.
  unfold repcell. fold nsub. fold nc.
  assert (G : forall len k rep ua, (k + len = nsub)%nat -> rep_inv sel k rep ua ->
            let st := fold_left (rep_step sds upa subncol cs ncol sel) (seq k len) (rep, ua) in
            rep_inv sel nsub (fst st) (snd st)).
  { induction len as [|len IH]; intros k rep ua Hk HI; cbn [seq fold_left].
    - replace nsub with k by lia. auto.
    - pose proof (rep_step_inv sel k rep ua ltac:(lia) HI) as HI'.
      destruct (rep_step sds upa subncol cs ncol sel (rep, ua) k) as [rep' ua']. apply IH; auto. lia. }
  assert (H0 : rep_inv sel 0 (repeat nsub nc) (repeat 0%Z nc)).
  { constructor.
    - rewrite !repeat_length. auto.
    - intros idx. destruct (Nat.lt_ge_cases idx nc); [rewrite nth_repeat_gen; auto; lia|rewrite nth_overflow; [lia|rewrite repeat_length; auto]].
    - intros idx Hi. left. rewrite !nth_repeat_gen; auto.
    - intros t _ Ht. lia. }
  pose proof (G nsub 0%nat _ _ eq_refl H0) as HI.
  destruct (fold_left _ _ _) as [rep ua]. simpl in *.
  destruct HI as [[L1 L2] Hnn Hrep Hmax].
  split; auto. split.
  - intros idx Hi. destruct (Hrep idx Hi) as [[H _]|[H1 [_ [H3 [_ H5]]]]]; [left; auto|right; auto].
  - intros t Ht Hct Hpos. cbv zeta.
    assert (Hle : (nth t upa 0 <= nth (cellof t) ua 0)%Z) by (apply Hmax; auto; destruct Ht; auto).
    destruct (Hrep (cellof t) Hct) as [[_ H0']|[[H1 _] [_ [_ [H4 _]]]]]; [lia|]. split; auto. lia.
Qed.

(* ---------- per-cell loops: a coarse cell is valid exactly where a pixel is reported ---------- *)

Lemma per_cell_spec (pix : list nat) f idx0 : (idx0 < nc)%nat ->
  nth idx0 (per_cell sds nrow ncol pix f) 0%nat =
  (if (nsub <=? nth idx0 pix nsub)%nat then nc else f idx0 (nth idx0 pix nsub)).
Proof.
  intros Hi. unfold per_cell. fold nsub. fold nc.
  rewrite (nth_indep _ 0%nat ((fun idx0 => if (nsub <=? nth idx0 pix nsub)%nat then nc else f idx0 (nth idx0 pix nsub)) 0%nat))
    by (rewrite map_length, seq_length; auto).
  rewrite (map_nth (fun idx0 => if (nsub <=? nth idx0 pix nsub)%nat then nc else f idx0 (nth idx0 pix nsub))).
  rewrite seq_nth by auto. reflexivity.
Qed.

(* hypotheses on sizes: every pixel has a coarse cell; the fine network is closed *)
Hypothesis Hcell : forall t, (t < nsub)%nat -> (cellof t < nc)%nat.
Hypothesis Hwf : forall t, (t < nsub)%nat -> (sd t < nsub)%nat -> (sd (sd t) < nsub)%nat.

Lemma dmm_walk_ne fuel idx0 s0 : forall s idx, (idx < nc)%nat -> (s < nsub)%nat -> (sd s < nsub)%nat ->
  dmm_walk sds subncol cs nrow ncol fuel idx0 s0 s idx <> nc.
Proof.
  induction fuel as [|f IH]; intros s idx Hi Hs Hd; cbn [dmm_walk]; fold nc; [unfold ERR; fold nc; lia|].
  destruct (sd s =? s)%nat; [lia|].
  destruct (negb (cellof (sd s) =? idx0)%nat && dmm_outside subncol cs ncol idx0 s0 s); [lia|].
  apply IH; auto.
Qed.

Lemma eam_walk_ne ea fuel idx0 : forall s, (s < nsub)%nat -> (sd s < nsub)%nat ->
  eam_walk sds subncol cs nrow ncol ea fuel idx0 s <> nc.
Proof.
  induction fuel as [|f IH]; intros s Hs Hd; cbn [eam_walk]; fold nc; [unfold ERR; fold nc; lia|].
  pose proof (Hcell _ Hd) as Hc.
  destruct (sd s =? s)%nat; [lia|].
  destruct (negb (cellof (sd s) =? idx0)%nat && eaf ea (sd s)); [lia|].
  apply IH; auto.
Qed.

(* the pixel the eam_plus link is derived from: the next outlet pixel / pit when its cell is an 8-neighbour,
   otherwise the first effective-area pixel met on the way *)
Lemma ihu_walk_spec ea out fuel idx0 : forall s fe t, (s < nsub)%nat -> (sd s < nsub)%nat ->
  (forall x, fe = Some x -> (x < nsub)%nat /\ eaf ea x = true) ->
  ihu_walk sds subncol cs ncol ea fuel out idx0 s fe = Some t ->
  (t < nsub)%nat /\
  ((in_d8 idx0 (cellof t) ncol = true /\ (nth (cellof t) out nsub = t \/ exists p, sd p = p /\ t = p)) \/ eaf ea t = true).
Proof.
  induction fuel as [|f IH]; intros s fe t Hs Hd Hfe; cbn [ihu_walk]; fold nsub; [discriminate|].
  destruct ((nth (cellof (sd s)) out nsub =? sd s)%nat || (sd s =? s)%nat) eqn:E.
  - destruct (in_d8 idx0 (cellof (sd s)) ncol) eqn:Ed.
    + intros H; inversion H; subst. split; auto. left. split; auto.
      apply orb_true_iff in E. destruct E as [E|E]; apply Nat.eqb_eq in E; [left; auto|right; exists s; split; auto].
    + intros H. destruct (Hfe t H) as [H1 H2]. split; auto.
  - apply IH; auto.
    intros x Hx. destruct fe as [y|]; [apply Hfe; auto|].
    destruct (eaf ea (sd s)) eqn:Ee; [|discriminate]. inversion Hx; subst. split; auto.
Qed.

Theorem valid_iff_outlet_dmm rep idx0 : (idx0 < nc)%nat ->
  (forall i, (nth i rep nsub < nsub)%nat -> (sd (nth i rep nsub) < nsub)%nat) ->
  (nth idx0 (dmm_nextidx sds subncol cs nrow ncol rep) 0%nat = nc <-> (nsub <= nth idx0 rep nsub)%nat).
Proof.
  intros Hi Hrep. unfold dmm_nextidx. rewrite per_cell_spec by auto. fold nsub.
  destruct (Nat.leb_spec nsub (nth idx0 rep nsub)) as [H|H]; [tauto|].
  split; [|lia]. intros Heq. exfalso. revert Heq. apply dmm_walk_ne; auto.
Qed.

Theorem valid_iff_outlet_eam ea rep idx0 : (idx0 < nc)%nat ->
  (forall i, (nth i rep nsub < nsub)%nat -> (sd (nth i rep nsub) < nsub)%nat) ->
  (nth idx0 (eam_nextidx sds subncol cs nrow ncol ea rep) 0%nat = nc <-> (nsub <= nth idx0 rep nsub)%nat).
Proof.
  intros Hi Hrep. unfold eam_nextidx. rewrite per_cell_spec by auto. fold nsub.
  destruct (Nat.leb_spec nsub (nth idx0 rep nsub)) as [H|H]; [tauto|].
  split; [|lia]. intros Heq. exfalso. revert Heq. apply eam_walk_ne; auto.
Qed.

Theorem valid_iff_outlet_eam_plus ea out idx0 : (idx0 < nc)%nat ->
  (forall i, (nth i out nsub < nsub)%nat -> (sd (nth i out nsub) < nsub)%nat) ->
  (nth idx0 (ihu_nextidx sds subncol cs nrow ncol ea out) 0%nat = nc <-> (nsub <= nth idx0 out nsub)%nat).
Proof.
  intros Hi Hout. unfold ihu_nextidx. rewrite per_cell_spec by auto. fold nsub. fold nc.
  destruct (Nat.leb_spec nsub (nth idx0 out nsub)) as [H|H]; [tauto|].
  split; [|lia]. intros Heq. exfalso.
  destruct (ihu_walk sds subncol cs ncol ea (S nsub) out idx0 (nth idx0 out nsub) None) as [t|] eqn:Ew.
  - apply ihu_walk_spec in Ew; auto; [|intros x Hx; discriminate]. destruct Ew as [Ht _].
    pose proof (Hcell _ Ht). lia.
  - unfold ERR in Heq. fold nc in Heq. lia.
Qed.

(* ---------- the outlet pixel of eam_plus / ihu step 1 ---------- *)

Lemma out_walk_spec fuel idx0 : forall s o, (s < nsub)%nat -> (sd s < nsub)%nat -> cellof s = idx0 ->
  out_walk sds subncol cs ncol fuel idx0 s = o -> (o <= nsub)%nat ->
  (o < nsub)%nat /\ cellof o = idx0 /\ (exists k, iter sds k s = o) /\ (sd o = o \/ cellof (sd o) <> idx0).
Proof.
  induction fuel as [|f IH]; intros s o Hs Hd Hc; cbn [out_walk]; fold nsub; [intros <- H; lia|].
  destruct (negb (idx0 =? cellof (sd s))%nat || (sd s =? s)%nat) eqn:E.
  - intros <- _. split; auto. split; auto. split; [exists 0%nat; reflexivity|].
    apply orb_true_iff in E. destruct E as [E|E].
    + right. apply negb_true_iff, Nat.eqb_neq in E. auto.
    + left. apply Nat.eqb_eq; auto.
  - apply orb_false_iff in E. destruct E as [E1 E2]. apply negb_false_iff, Nat.eqb_eq in E1.
    intros Ho Hle.
    destruct (IH (sd s) o Hd (Hwf _ Hs Hd) (eq_sym E1) Ho Hle) as [H1 [H2 [[k Hk] H4]]].
    split; auto. split; auto. split; auto. exists (S k). exact Hk.
Qed.
End UpSpec.

(* ---------- the connection check ---------- *)
Section ErrSpec.
Variable sds : list nat.
Let nsub := length sds.
Notation sd := (Upscale.sd sds).

Lemma outlet_map_spec out t : nth t (outlet_map sds out) false = true <-> (In t out /\ (t < nsub)%nat).
Proof.
  unfold outlet_map. fold nsub.
  assert (G : forall l m, length m = nsub ->
            (nth t (fold_left (fun m s => if (nsub <=? s)%nat then m else upd m s true) l m) false = true <->
             ((In t l /\ (t < nsub)%nat) \/ nth t m false = true))).
  { induction l as [|s l IH]; intros m Hm; simpl; [tauto|].
    destruct (Nat.leb_spec nsub s) as [Hs|Hs].
    - rewrite IH by auto. intuition (subst; auto; try lia).
    - rewrite IH by (rewrite upd_length; auto). rewrite nth_upd, Hm.
      destruct (Nat.eqb_spec t s) as [->|Hne]; simpl.
      + assert (Hlt : (s <? nsub)%nat = true) by (apply Nat.ltb_lt; auto). rewrite Hlt. split; auto.
      + intuition (subst; auto; try congruence). }
  rewrite G by apply repeat_length.
  split; [intros [H|H]; auto|auto].
  rewrite nth_repeat_false in H. discriminate.
Qed.

(* err_walk returns the first pixel STRICTLY downstream that is an outlet pixel or at which the walk stands still (pit) *)
Lemma err_walk_spec om fuel : forall s t, err_walk sds fuel om s = t -> (t <= nsub)%nat ->
  exists k, t = iter sds (S k) s /\
    (nth t om false = true \/ iter sds (S k) s = iter sds k s) /\
    (forall j, (j < k)%nat -> nth (iter sds (S j) s) om false = false /\ iter sds (S j) s <> iter sds j s).
Proof.
  induction fuel as [|f IH]; intros s t; cbn [err_walk]; fold nsub; [intros <- H; lia|].
  destruct (nth (sd s) om false || (sd s =? s)%nat) eqn:E.
  - intros <- _. exists 0%nat. split; [reflexivity|]. split.
    + apply orb_true_iff in E. destruct E as [E|E]; [left; auto|right; apply Nat.eqb_eq in E; simpl; auto].
    + intros j Hj. lia.
  - intros Ht Hle. destruct (IH (sd s) t Ht Hle) as [k [H1 [H2 H3]]].
    apply orb_false_iff in E. destruct E as [E1 E2]. apply Nat.eqb_neq in E2.
    exists (S k). split; [exact H1|]. split; [exact H2|].
    intros [|j] Hj.
    + simpl. split; auto.
    + apply (H3 j). lia.
Qed.

Theorem upscale_error_spec out cds idx0 : (idx0 < length cds)%nat ->
  let n := length cds in
  let flag := nth idx0 (upscale_error sds out cds) 0%Z in
  let s := nth idx0 out nsub in
  let d := nth idx0 cds n in
  ((n <= d)%nat \/ (nsub <= s)%nat -> flag = 255%Z) /\
  ((d < n)%nat -> (s < nsub)%nat ->
     (flag = 1%Z <-> err_walk sds (S nsub) (outlet_map sds out) s = nth d out nsub) /\ (flag = 1%Z \/ flag = 0%Z)).
Proof.
  intros Hi. cbv zeta. unfold upscale_error. fold nsub.
  set (g := fun idx0 : nat => if ((length cds <=? nth idx0 cds (length cds))%nat || (nsub <=? nth idx0 out nsub)%nat) then 255%Z
             else if (err_walk sds (S nsub) (outlet_map sds out) (nth idx0 out nsub) =? nth (nth idx0 cds (length cds)) out nsub)%nat then 1%Z else 0%Z).
  rewrite (nth_indep _ 0%Z (g 0%nat)) by (rewrite map_length, seq_length; auto).
  rewrite (map_nth g). rewrite seq_nth by auto. unfold g. cbn [Nat.add].
  split.
  - intros [H|H]; [apply Nat.leb_le in H; rewrite H; reflexivity|apply Nat.leb_le in H; rewrite H, orb_true_r; reflexivity].
  - intros Hd Hs. apply Nat.leb_gt in Hd. apply Nat.leb_gt in Hs. rewrite Hd, Hs. cbn [orb].
    destruct (Nat.eqb_spec (err_walk sds (S nsub) (outlet_map sds out) (nth idx0 out nsub)) (nth (nth idx0 cds (length cds)) out nsub)) as [He|He].
    + split; [split; [intros _; exact He|reflexivity]|auto].
    + split; [split; [discriminate|intros Hx; contradiction]|auto].
Qed.
End ErrSpec.
