(* C06: the directions derived by the priority flood form a forest rooted at the outlets; every step goes to a
   neighbour allowed by the connectivity, is coded with the matching D8 value and never goes uphill on the
   filled surface. *)
From Coq Require Import List Arith ZArith Lia Bool.
Import ListNotations.
From PF Require Import Arr Codec Flood FloodSpec.
From PFG Require Import GenTables GenDrdc.
Local Open Scope Z_scope.

(* ---------- extract_min ---------- *)
Lemma extract_min_spec q m rest : extract_min q = Some (m, rest) ->
  (forall x, In x q <-> x = m \/ In x rest) /\ (forall x, In x rest -> key_lt x m = false).
Proof.
  revert m rest. induction q as [|a t IH]; intros m rest H; simpl in H; [discriminate|].
  destruct (extract_min t) as [[m' r']|] eqn:E.
  - destruct (IH m' r' eq_refl) as [H1 H2].
    destruct (key_lt a m') eqn:Ek; inversion H; subst.
    + split.
      * intros x. simpl. split; [intros [Hx|Hx]; auto|intros [Hx|Hx]; auto].
      * intros x Hx. apply H1 in Hx. destruct Hx as [->|Hx].
        -- (* m' vs a : a < m' so m' is not < a *)
           destruct m as [[za ba] ia], m' as [[zb bb] ib]. unfold key_lt in *.
           rewrite !orb_true_iff, !andb_true_iff, !orb_true_iff, !andb_true_iff in Ek.
           apply orb_false_iff. split.
           ++ apply Z.ltb_ge. destruct Ek as [Ek|[Ek _]]; [apply Z.ltb_lt in Ek; lia|apply Z.eqb_eq in Ek; lia].
           ++ destruct Ek as [Ek|[Ek1 Ek2]]; [apply Z.ltb_lt in Ek; apply andb_false_iff; left; apply Z.eqb_neq; lia|].
              apply Z.eqb_eq in Ek1. subst zb. rewrite Z.eqb_refl. simpl.
              apply orb_false_iff. destruct Ek2 as [Ek2|[Ek2 Ek3]].
              ** apply Z.ltb_lt in Ek2. split; [apply Z.ltb_ge; lia|apply andb_false_iff; left; apply Z.eqb_neq; lia].
              ** apply Z.eqb_eq in Ek2. subst bb. rewrite Z.ltb_irrefl, Z.eqb_refl. simpl. split; auto.
                 apply Nat.ltb_lt in Ek3. apply Nat.ltb_ge. lia.
        -- (* x in r' : not < m', and a < m' : transitivity on the first component is enough for our use, but we
              prove the full statement *)
           specialize (H2 x Hx).
           destruct m as [[za ba] ia], m' as [[zb bb] ib], x as [[zx bx] ix]. unfold key_lt in *.
           rewrite !orb_true_iff, !andb_true_iff, !orb_true_iff, !andb_true_iff in Ek.
           rewrite !orb_false_iff, !andb_false_iff, !orb_false_iff, !andb_false_iff in H2.
           rewrite !orb_false_iff, !andb_false_iff, !orb_false_iff, !andb_false_iff.
           rewrite ?Z.ltb_lt, ?Z.eqb_eq, ?Nat.ltb_lt in Ek.
           rewrite ?Z.ltb_ge, ?Z.eqb_neq, ?Nat.ltb_ge in H2. rewrite ?Z.ltb_ge, ?Z.eqb_neq, ?Nat.ltb_ge.
           lia.
    + split.
      * intros x. simpl. rewrite H1. clear. intuition auto.
      * intros x [<-|Hx]; auto.
  - inversion H; subst. split.
    + intros x. simpl. destruct t as [|b t']; [intuition congruence|]. simpl in E. destruct (extract_min t') as [[? ?]|]; [destruct (key_lt b p); discriminate|discriminate].
    + intros x [].
Qed.

Lemma key_lt_false_z x m : key_lt x m = false -> fst (fst m) <= fst (fst x).
Proof. destruct x as [[zx bx] ix], m as [[zm bm] im]. unfold key_lt. simpl. intros H.
  apply orb_false_iff in H. destruct H as [H _]. apply Z.ltb_ge in H. lia. Qed.

(* the upstream-looking code at offset o decodes to the step -o *)
Lemma us_points_back o : In o offs8 -> d8_drdc (table_at d8_us (fst o) (snd o)) = (- fst o, - snd o).
Proof. unfold offs8. simpl. intros H. repeat (destruct H as [<-|H]; [vm_compute; reflexivity|]). destruct H. Qed.

Section FloodTree.
Variables nrow ncol : nat.
Variable elv : list Z.
Variable nodata : Z.
Variable conn : Z.
Notation sz := (nrow * ncol)%nat.
Notation visit := (visit nrow ncol elv).
Notation isnd := (isnodata elv nodata).
Notation inb := (inb nrow ncol).
Notation row := (row ncol).
Notation col := (col ncol).
Notation lin := (lin ncol).
Definition filledv (st : fstate) (j : nat) : Z := nth j elv 0 + nth j (fdelv st) 0.
Definition doneb (st : fstate) (j : nat) : bool := nth j (fdone st) true.

(* index arithmetic *)
Lemma lin_bound r c : inb r c = true -> (lin r c < sz)%nat /\ row (lin r c) = r /\ col (lin r c) = c.
Proof.
  unfold Flood.inb, Flood.lin, Flood.row, Flood.col. rewrite !andb_true_iff, !Z.leb_le, !Z.ltb_lt.
  intros [[[H1 H2] H3] H4].
  assert (Hn : (0 < ncol)%nat) by lia.
  set (rn := Z.to_nat r). set (cn := Z.to_nat c).
  assert (Hr : r = Z.of_nat rn) by (unfold rn; lia). assert (Hc : c = Z.of_nat cn) by (unfold cn; lia).
  assert (E : Z.to_nat (r * Z.of_nat ncol + c) = (rn * ncol + cn)%nat) by (rewrite Hr, Hc; lia).
  rewrite E.
  assert (Hcn : (cn < ncol)%nat) by lia. assert (Hrn : (rn < nrow)%nat) by lia.
  split; [nia|]. split.
  - rewrite Nat.div_add_l by lia. rewrite Nat.div_small by lia. lia.
  - rewrite Nat.add_comm, Nat.mod_add by lia. rewrite Nat.mod_small by lia. lia.
Qed.

Lemma lin_row_col i : (i < sz)%nat -> inb (row i) (col i) = true /\ lin (row i) (col i) = i.
Proof.
  intros Hi. assert (Hn : (0 < ncol)%nat) by (destruct ncol; lia).
  unfold Flood.inb, Flood.lin, Flood.row, Flood.col.
  pose proof (Nat.div_mod i ncol ltac:(lia)) as Hd. pose proof (Nat.mod_upper_bound i ncol ltac:(lia)) as Hm.
  assert (Hq : (i / ncol < nrow)%nat) by (apply Nat.div_lt_upper_bound; lia).
  split.
  - rewrite !andb_true_iff, !Z.leb_le, !Z.ltb_lt. lia.
  - rewrite <- Nat2Z.inj_mul, <- Nat2Z.inj_add, Nat2Z.id. lia.
Qed.

(* p --o--> j : j is the neighbour of p at offset o, inside the raster *)
Definition geom (j : nat) (o : Z * Z) (p : nat) : Prop :=
  (p < sz)%nat /\ inb (row p + fst o) (col p + snd o) = true /\ j = lin (row p + fst o) (col p + snd o).

Inductive reach (root : nat -> Prop) (st : fstate) : nat -> Prop :=
| reach_root j : root j -> reach root st j
| reach_step j o p : In o (offs conn) -> o <> (0, 0) -> geom j o p -> doneb st j = true -> isnd j = false ->
    nth j (fd8 st) 0 = table_at d8_us (fst o) (snd o) -> filledv st j = Z.max (nth j elv 0) (filledv st p) ->
    reach root st p -> reach root st j.

Definition pitroot (st : fstate) (j : nat) : Prop := (j < sz)%nat /\ doneb st j = true /\ nth j (fd8 st) 0 = 0.

(* st' agrees with st on everything that is final in st *)
Definition frozen (st st' : fstate) : Prop :=
  forall x, doneb st x = true -> doneb st' x = true /\ nth x (fd8 st') 0 = nth x (fd8 st) 0 /\ nth x (fdelv st') 0 = nth x (fdelv st) 0.

Lemma reach_mono (root root' : nat -> Prop) st st' :
  (forall x, root x -> root' x) -> frozen st st' ->
  (forall x, root x -> nth x (fdelv st') 0 = nth x (fdelv st) 0) ->
  forall j, reach root st j -> reach root' st' j.
Proof.
  intros Hr Hf Hrd j H. induction H as [j Hj|j o p Ho Hne Hg Hd Hnj H8 Hle Hp IH].
  - apply reach_root. auto.
  - destruct (Hf j Hd) as (Hd' & H8' & Hv').
    apply (reach_step root' st' j o p); auto; [congruence|].
    assert (Hpv : nth p (fdelv st') 0 = nth p (fdelv st) 0).
    { inversion Hp as [? Hrp|? ? ? _ _ _ Hdp _ _ _ _]; subst; [apply Hrd; auto|apply (Hf p Hdp)]. }
    unfold filledv in *. rewrite Hpv, Hv'. exact Hle.
Qed.

(* ---------- the invariant inside one pop ---------- *)
Section Pop.
Variable z0 : Z.
Variable i0 : nat.
Hypothesis Hi0 : (i0 < sz)%nat.

Definition root_in (st : fstate) (x : nat) : Prop := pitroot st x \/ (x = i0 /\ doneb st i0 = false).

Record pinv (st : fstate) : Prop := {
  p_binv : binv nrow ncol elv nodata st;
  p_queue : forall z b j, In (z, b, j) (fq st) -> (j < sz)%nat /\ nth j (fqd st) false = true /\ isnd j = false /\
                                              z = filledv st j /\ z0 <= z;
  p_fresh : forall j, doneb st j = false -> nth j (fdelv st) 0 = 0;
  p_z0 : filledv st i0 = z0;
  p_i0 : isnd i0 = false;
  p_reach : forall j, (j < sz)%nat -> doneb st j = true -> isnd j = false -> reach (root_in st) st j }.

Lemma visit_frozen st o : frozen st (visit z0 i0 st o).
Proof.
  intros x Hx. unfold Flood.visit.
  destruct (negb (inb (row i0 + fst o) (col i0 + snd o))); [auto|].
  set (jj := lin (row i0 + fst o) (col i0 + snd o)).
  destruct (nth jj (fdone st) true) eqn:Ed; [auto|].
  assert (Hxj : x <> jj) by (intros ->; unfold doneb in Hx; congruence).
  destruct (nth jj (fqd st) false); unfold doneb; simpl; rewrite !nth_upd_neq by auto;
    (split; [exact Hx|]; split; [reflexivity|]);
    destruct (z0 - nth jj elv 0 >? 0); auto; apply nth_upd_neq; auto.
Qed.

Lemma visit_pinv st o : In o (offs conn) -> pinv st -> pinv (visit z0 i0 st o).
Proof.
  intros Ho HI. pose proof (visit_frozen st o) as Hfr.
  pose proof (visit_binv nrow ncol elv nodata z0 i0 st o (p_binv st HI)) as Hb'.
  unfold Flood.visit in *.
  destruct (negb (inb (row i0 + fst o) (col i0 + snd o))) eqn:Einb; [exact HI|].
  apply negb_false_iff in Einb.
  set (jj := lin (row i0 + fst o) (col i0 + snd o)) in *.
  destruct (lin_bound _ _ Einb) as (Hjj & Hrj & Hcj). fold jj in Hjj, Hrj, Hcj.
  destruct (nth jj (fdone st) true) eqn:Ed; [exact HI|].
  assert (Hdv0 : nth jj (fdelv st) 0 = 0) by (apply (p_fresh st HI); exact Ed).
  destruct (p_binv st HI) as (L1 & L2 & L3 & L4 & Hpos & Hnd).
  assert (Hjnd : isnd jj = false).
  { destruct (isnd jj) eqn:E; auto. destruct (Hnd jj Hjj E) as (A & _). congruence. }
  set (z1 := nth jj elv 0) in *.
  set (dv := if z0 - z1 >? 0 then upd (fdelv st) jj (z0 - z1) else fdelv st) in *.
  assert (Hdv_other : forall x, x <> jj -> nth x dv 0 = nth x (fdelv st) 0).
  { intros x Hx. unfold dv. destruct (z0 - z1 >? 0); auto. apply nth_upd_neq; auto. }
  assert (Hdv_jj : z1 + nth jj dv 0 = Z.max z1 z0).
  { unfold dv. destruct (Z.gtb_spec (z0 - z1) 0).
    - rewrite nth_upd_eq by (rewrite L3; auto). lia.
    - rewrite Hdv0. lia. }
  (* a seed that is still queued is not raised *)
  assert (Hseed : nth jj (fqd st) false = true -> (jj = i0 \/ True) -> True) by auto.
  set (st' := match (if nth jj (fqd st) false then (fq st, fqd st) else ((if z0 - z1 >? 0 then z1 + (z0 - z1) else z1, 0, jj) :: fq st, upd (fqd st) jj true)) with
              | (q', qd') => {| fdone := upd (fdone st) jj true; fqd := qd'; fdelv := dv;
                                fd8 := upd (fd8 st) jj (table_at d8_us (fst o) (snd o)); fq := q' |} end) in *.
  assert (Hdone' : forall x, doneb st' x = if (x =? jj)%nat then true else doneb st x).
  { intros x. unfold st', doneb. destruct (nth jj (fqd st) false); simpl; rewrite nth_upd, L1;
      destruct (Nat.eqb_spec x jj) as [->|Hne]; simpl; auto; apply Nat.ltb_lt in Hjj; rewrite Hjj; auto. }
  assert (Hdelv' : fdelv st' = dv) by (unfold st'; destruct (nth jj (fqd st) false); reflexivity).
  assert (Hd8' : fd8 st' = upd (fd8 st) jj (table_at d8_us (fst o) (snd o))) by (unfold st'; destruct (nth jj (fqd st) false); reflexivity).
  (* i0 keeps its level *)
  assert (Hi0lev : filledv st' i0 = z0).
  { unfold filledv. rewrite Hdelv'. destruct (Nat.eq_dec i0 jj) as [E|E].
    - rewrite E. fold z1. rewrite Hdv_jj. pose proof (p_z0 st HI) as Hz. unfold filledv in Hz. rewrite E in Hz. fold z1 in Hz.
      rewrite Hdv0 in Hz. lia.
    - rewrite Hdv_other by auto. apply (p_z0 st HI). }
  assert (Hlevjj : filledv st' jj = Z.max z1 z0) by (unfold filledv; rewrite Hdelv'; exact Hdv_jj).
  (* queued-but-not-done cells are at least z0 high *)
  constructor.
  - exact Hb'.
  - intros z b j Hin.
    assert (Hold : In (z, b, j) (fq st) -> (j < sz)%nat /\ nth j (fqd st') false = true /\ isnd j = false /\ z = filledv st' j /\ z0 <= z).
    { intros Hq. destruct (p_queue st HI z b j Hq) as (A & B & C & D & E).
      split; auto. split.
      - unfold st'. destruct (nth jj (fqd st) false) eqn:Eq; simpl; auto.
        rewrite nth_upd. destruct ((j =? jj)%nat && (jj <? length (fqd st))%nat); auto.
      - split; auto. split; auto.
        unfold filledv. rewrite Hdelv'. destruct (Nat.eq_dec j jj) as [->|Hne].
        + fold z1. rewrite Hdv_jj. unfold filledv in D. fold z1 in D. rewrite Hdv0 in D. lia.
        + rewrite Hdv_other by auto. exact D. }
    unfold st' in Hin. destruct (nth jj (fqd st) false) eqn:Eq; simpl in Hin; [auto|].
    destruct Hin as [Hin|Hin]; [|auto].
    inversion Hin; subst z b j. split; auto. split.
    + unfold st'. simpl. apply nth_upd_eq. rewrite L2; auto.
    + split; auto. rewrite Hlevjj. split; destruct (Z.gtb_spec (z0 - z1) 0); lia.
  - intros j Hj. rewrite Hdone' in Hj. destruct (Nat.eq_dec j jj) as [Ej|Hne]; [subst j; rewrite Nat.eqb_refl in Hj; discriminate|].
    apply Nat.eqb_neq in Hne as Hne'. rewrite Hne' in Hj.
    rewrite Hdelv', Hdv_other by auto. apply (p_fresh st HI). exact Hj.
  - exact Hi0lev.
  - apply (p_i0 st HI).
  - intros j Hj Hd Hn.
    assert (Hroots : forall x, root_in st x -> root_in st' x).
    { intros x [[A [B C]]|[A B]].
      - left. destruct (Hfr x B) as (B' & C' & _). split; [exact A|]. split; [exact B'|]. rewrite C'. exact C.
      - subst x. destruct (doneb st' i0) eqn:E'; [|right; auto].
        left. rewrite Hdone' in E'. destruct (Nat.eqb_spec i0 jj) as [E|E]; [|congruence].
        (* the centre visit *)
        split; auto. split; [rewrite Hdone', E, Nat.eqb_refl; reflexivity|].
        rewrite Hd8'. rewrite <- E. rewrite nth_upd_eq by (rewrite L4; auto).
        assert (Ho0 : o = (0, 0)).
        { destruct (lin_row_col i0 Hi0) as [_ Hl].
          rewrite E in Hrj, Hcj. destruct o as [dr dc]. simpl in *.
          assert (dr = 0) by lia. assert (dc = 0) by lia. subst. reflexivity. }
        rewrite Ho0. reflexivity. }
    assert (Hrootdelv : forall x, root_in st x -> nth x (fdelv st') 0 = nth x (fdelv st) 0).
    { intros x [[A [B C]]|[A B]].
      - apply (Hfr x B).
      - subst x. pose proof Hi0lev as H1. pose proof (p_z0 st HI) as H2. unfold filledv in H1, H2. lia. }
    rewrite Hdone' in Hd. destruct (Nat.eqb_spec j jj) as [->|Hne].
    + (* the newly done cell *)
      destruct (Nat.eq_dec jj i0) as [E|E].
      * apply reach_root. destruct (doneb st' i0) eqn:E'.
        -- apply Hroots. right. split; auto. rewrite <- E. exact Ed.
        -- rewrite Hdone', <- E, Nat.eqb_refl in E'. discriminate.
      * assert (Hone : o <> (0, 0)).
        { intros ->. simpl in *. destruct (lin_row_col i0 Hi0) as [_ Hl]. unfold jj in E.
          rewrite !Z.add_0_r in E. contradiction. }
        apply (reach_step _ st' jj o i0); auto.
        -- split; auto.
        -- rewrite Hdone', Nat.eqb_refl. reflexivity.
        -- rewrite Hd8'. apply nth_upd_eq. rewrite L4; auto.
        -- rewrite Hi0lev, Hlevjj. reflexivity.
        -- destruct (doneb st i0) eqn:Edi.
           ++ apply (reach_mono (root_in st) (root_in st') st st'); auto. apply (p_reach st HI); auto. apply (p_i0 st HI).
           ++ apply reach_root. apply Hroots. right. auto.
    + apply (reach_mono (root_in st) (root_in st') st st'); auto. apply (p_reach st HI); auto.
Qed.

Lemma fold_visit_pinv l : (forall o, In o l -> In o (offs conn)) -> forall st, pinv st -> pinv (fold_left (visit z0 i0) l st).
Proof. induction l as [|o l IH]; intros Hl st H; simpl; auto. apply IH; [intros; apply Hl; right; auto|].
  apply visit_pinv; auto. apply Hl. left; auto. Qed.

Lemma visit_done_mono st o x : doneb st x = true -> doneb (visit z0 i0 st o) x = true.
Proof. intros H. apply (visit_frozen st o x H). Qed.

Lemma fold_done_mono l : forall st x, doneb st x = true -> doneb (fold_left (visit z0 i0) l st) x = true.
Proof. induction l as [|o l IH]; intros st x H; simpl; auto. apply IH. apply visit_done_mono. auto. Qed.

Lemma visit_centre st : length (fdone st) = sz -> doneb (visit z0 i0 st (0, 0)) i0 = true.
Proof.
  intros L1. unfold Flood.visit. simpl. rewrite !Z.add_0_r.
  destruct (lin_row_col i0 Hi0) as [Hin Hl]. rewrite Hin, Hl. simpl.
  destruct (nth i0 (fdone st) true) eqn:Ed; [exact Ed|].
  destruct (nth i0 (fqd st) false); unfold doneb; simpl; apply nth_upd_eq; rewrite L1; auto.
Qed.
End Pop.

(* ---------- the invariant between pops ---------- *)
Record linv (st : fstate) : Prop := {
  l_binv : binv nrow ncol elv nodata st;
  l_queue : forall z b j, In (z, b, j) (fq st) -> (j < sz)%nat /\ nth j (fqd st) false = true /\ isnd j = false /\ z = filledv st j;
  l_fresh : forall j, doneb st j = false -> nth j (fdelv st) 0 = 0;
  l_reach : forall j, (j < sz)%nat -> doneb st j = true -> isnd j = false -> reach (pitroot st) st j }.

Lemma frozen_refl st : frozen st st.
Proof. intros x Hx. auto. Qed.

Lemma offs_centre : exists pre post, offs conn = pre ++ (0, 0) :: post.
Proof. unfold offs. destruct (conn =? 4).
  - exists [(-1,0); (0,-1)], [(0,1); (1,0)]. reflexivity.
  - exists [(-1,-1); (-1,0); (-1,1); (0,-1)], [(0,1); (1,-1); (1,0); (1,1)]. reflexivity. Qed.

Definition popped (st : fstate) (rest : list (Z * Z * nat)) : fstate :=
  {| fdone := fdone st; fqd := fqd st; fdelv := fdelv st; fd8 := fd8 st; fq := rest |}.

Lemma pop_pinv st z0 b0 i0 rest : linv st -> extract_min (fq st) = Some ((z0, b0, i0), rest) ->
  (i0 < sz)%nat /\ pinv z0 i0 (popped st rest).
Proof.
  intros HL Hex. destruct (extract_min_spec _ _ _ Hex) as [Hperm Hmin].
  assert (Hm : In (z0, b0, i0) (fq st)) by (apply Hperm; left; reflexivity).
  destruct (l_queue st HL z0 b0 i0 Hm) as (Hi0 & _ & Hnd0 & Hz0).
  split; auto. constructor.
  - destruct (l_binv st HL) as (L1 & L2 & L3 & L4 & Hp & Hn). exact (conj L1 (conj L2 (conj L3 (conj L4 (conj Hp Hn))))).
  - intros z b j Hin. simpl in Hin.
    destruct (l_queue st HL z b j) as (A & B & C & D); [apply Hperm; right; exact Hin|].
    split; auto. split; auto. split; auto. split; auto.
    pose proof (key_lt_false_z _ _ (Hmin _ Hin)) as Hk. simpl in Hk. exact Hk.
  - intros j Hj. apply (l_fresh st HL). exact Hj.
  - symmetry. exact Hz0.
  - exact Hnd0.
  - intros j Hj Hd Hn.
    apply (reach_mono (pitroot st) (root_in i0 (popped st rest)) st (popped st rest));
      [intros x Hx; left; exact Hx|intros x Hx; unfold doneb in *; simpl; auto|auto|].
    apply (l_reach st HL); auto.
Qed.

Lemma fold_done_i0 z0 i0 st : (i0 < sz)%nat -> binv nrow ncol elv nodata st ->
  doneb (fold_left (visit z0 i0) (offs conn) st) i0 = true.
Proof.
  intros Hi0 Hb. destruct offs_centre as [pre [post Hof]]. rewrite Hof, fold_left_app. cbn [fold_left].
  apply fold_done_mono. apply visit_centre; auto.
  assert (Hb' : binv nrow ncol elv nodata (fold_left (visit z0 i0) pre st)) by (apply fold_visit_binv; exact Hb).
  destruct Hb' as (L1 & _). exact L1.
Qed.

Lemma pop_linv st z0 b0 i0 rest : linv st -> extract_min (fq st) = Some ((z0, b0, i0), rest) ->
  linv (fold_left (visit z0 i0) (offs conn) (popped st rest)).
Proof.
  intros HL Hex. destruct (pop_pinv st z0 b0 i0 rest HL Hex) as [Hi0 HP].
  pose proof (fold_visit_pinv z0 i0 Hi0 (offs conn) (fun o H => H) _ HP) as HP2.
  pose proof (fold_done_i0 z0 i0 _ Hi0 (p_binv z0 i0 _ HP)) as Hdone_i0.
  set (st2 := fold_left (visit z0 i0) (offs conn) (popped st rest)) in *.
  constructor.
  - apply (p_binv z0 i0 st2 HP2).
  - intros z b j Hin. destruct (p_queue z0 i0 st2 HP2 z b j Hin) as (A & B & C & D & _). auto.
  - apply (p_fresh z0 i0 st2 HP2).
  - intros j Hj Hd Hn.
    apply (reach_mono (root_in i0 st2) (pitroot st2) st2 st2); [|apply frozen_refl|auto|apply (p_reach z0 i0 st2 HP2); auto].
    intros x [Hx|[_ Hx]]; [exact Hx|congruence].
Qed.

Lemma loop_linv fuel : forall st, linv st -> linv (flood_loop nrow ncol elv conn fuel st).
Proof.
  induction fuel as [|f IH]; intros st HL; simpl; auto.
  destruct (extract_min (fq st)) as [[[[z0 b0] i0] rest]|] eqn:E; auto.
  apply IH. apply (pop_linv st z0 b0 i0 rest); auto.
Qed.

Lemma init_linv mode pits : (mode = 2 -> forall p, In p pits -> isnd p = false) ->
  linv (flood_init nrow ncol elv nodata conn mode pits).
Proof.
  intros Hpits. pose proof (init_binv nrow ncol elv nodata conn mode pits) as Hb.
  unfold flood_init in *.
  set (cells := seq 0 sz) in *.
  set (qd0 := if mode =? 2 then map (fun i => memb i pits) cells else map (is_edge nrow ncol elv nodata conn) cells) in *.
  set (q0 := map (fun i => (nth i elv 0, 1, i)) (filter (fun i => nth i qd0 false) cells)) in *.
  assert (Hq0 : forall z b j, In (z, b, j) q0 -> (j < sz)%nat /\ nth j qd0 false = true /\ isnd j = false /\ z = nth j elv 0).
  { intros z b j Hin. unfold q0 in Hin. apply in_map_iff in Hin. destruct Hin as [i [Heq Hi]]. inversion Heq; subst.
    apply filter_In in Hi. destruct Hi as [Hi Hq]. apply in_seq in Hi. split; [lia|]. split; auto. split; auto.
    unfold qd0, cells in Hq. destruct (Z.eqb_spec mode 2) as [Hm|Hm].
    - rewrite map_seq_nth in Hq by lia. apply Hpits; auto. apply memb_In. exact Hq.
    - rewrite map_seq_nth in Hq by lia. unfold is_edge in Hq. apply andb_true_iff in Hq. destruct Hq as [Hq _].
      apply negb_true_iff in Hq. exact Hq. }
  assert (Hzero : forall j, nth j (map (fun _ : nat => 0) cells) 0 = 0).
  { intros j. destruct (Nat.lt_ge_cases j sz) as [Hj|Hj]; [unfold cells; rewrite map_seq_nth; auto|].
    apply nth_overflow. unfold cells. rewrite map_length, seq_length. auto. }
  destruct (mode =? 1) eqn:Em1.
  - destruct (extract_min q0) as [[[[z b] i] r]|] eqn:Ex.
    + constructor; simpl.
      * exact Hb.
      * intros z' b' j [Heq|[]]. inversion Heq; subst.
        destruct (extract_min_spec _ _ _ Ex) as [Hperm _].
        destruct (Hq0 z' b' j) as (A & B & C & D); [apply Hperm; left; reflexivity|].
        split; auto. split; [unfold cells; rewrite map_seq_nth by auto; apply Nat.eqb_refl|].
        split; auto. unfold filledv. simpl. rewrite Hzero. lia.
      * intros j _. apply Hzero.
      * intros j Hj Hd Hn. unfold doneb in Hd. simpl in Hd. unfold cells in Hd. rewrite map_seq_nth in Hd by auto. congruence.
    + constructor; simpl.
      * exact Hb.
      * intros z' b' j [].
      * intros j _. apply Hzero.
      * intros j Hj Hd Hn. unfold doneb in Hd. simpl in Hd. unfold cells in Hd. rewrite map_seq_nth in Hd by auto. congruence.
  - constructor; simpl.
    + exact Hb.
    + intros z b j Hin. destruct (Hq0 z b j Hin) as (A & B & C & D). split; auto. split; auto. split; auto.
      unfold filledv. simpl. rewrite Hzero. lia.
    + intros j _. apply Hzero.
    + intros j Hj Hd Hn. unfold doneb in Hd. simpl in Hd. unfold cells in Hd. rewrite map_seq_nth in Hd by auto. congruence.
Qed.

Definition flood_state (mode : Z) (pits : list nat) : fstate :=
  flood_loop nrow ncol elv conn (S sz) (flood_init nrow ncol elv nodata conn mode pits).

Theorem flood_forest_sec mode pits : (mode = 2 -> forall p, In p pits -> isnd p = false) ->
  let st := flood_state mode pits in
  fill_depressions nrow ncol elv nodata conn mode pits = (map (filledv st) (seq 0 sz), fd8 st) /\
  forall j, (j < sz)%nat -> doneb st j = true -> isnd j = false -> reach (pitroot st) st j.
Proof.
  intros Hp st. split; [reflexivity|].
  apply (l_reach st). unfold st, flood_state. apply loop_linv. apply init_linv. exact Hp.
Qed.
End FloodTree.
