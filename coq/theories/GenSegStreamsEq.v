(* streams.streams, REGENERATED from the Python source (generated/GenSeg.v: gen_streams, with its inner `while True`
   gen_streams_loop2 and the cutting loop gen_streams_loop3_step), equals the hand model Vect.streams.
   - partial correctness (no termination hypothesis): gen_streams ... = Some r -> r = streams ...
   - total form: on a loop-free stored order (topo ds sq) the fuel (length ds) of the inner walk is never exhausted. *)
From Coq Require Import List Arith ZArith QArith Qround Bool Lia.
Import ListNotations.
From PF Require Import Arr Net Rank Stream Vect VectSpec NetBound GenCoreBaseEq GenCountEq.
From PFG Require Import GenLoops GenCore GenSeg.
Local Open Scope Z_scope.

(* ---------- arithmetic of the cut ---------- *)
Lemma qdiv_pos (l : Z) (p : positive) : (inject_Z l / inject_Z (Zpos p))%Q = (l # p)%Q.
Proof. unfold Qdiv, Qinv, Qmult, inject_Z. cbn [Qnum Qden]. rewrite Z.mul_1_r. reflexivity. Qed.

Lemma qdiv_to_pos (l k : Z) : 1 <= k -> (inject_Z l / inject_Z k)%Q = (l # Z.to_pos k)%Q.
Proof. intros H. destruct k as [|p|p]; try lia. apply qdiv_pos. Qed.

Lemma py_round_nonneg q : (0 <= q)%Q -> 0 <= py_round q.
Proof. intros H. pose proof (py_round_ge_floor q). assert (Qfloor 0 <= Qfloor q) by (apply Qfloor_resp_le; auto).
  change (Qfloor 0) with 0 in H1. lia. Qed.

Lemma to_nat_mul i n : Z.to_nat (Z.of_nat i * n) = (i * Z.to_nat n)%nat.
Proof.
  destruct (Z.le_gt_cases 0 n) as [H|H].
  - rewrite Z2Nat.inj_mul by lia. rewrite Nat2Z.id. reflexivity.
  - replace (Z.to_nat n) with 0%nat by lia. rewrite Nat.mul_0_r.
    assert (Z.of_nat i * n <= 0) by nia. lia.
Qed.

Lemma to_nat_end i n : 0 <= n -> Z.to_nat (n * (Z.of_nat i + 1) + 1) = (Z.to_nat n * (i + 1) + 1)%nat.
Proof.
  intros H. rewrite Z2Nat.inj_add by nia. rewrite Z2Nat.inj_mul by lia.
  rewrite Z2Nat.inj_add by lia. rewrite Nat2Z.id. reflexivity.
Qed.

Lemma fold_snoc_map {A B} (f : B -> A) (l : list B) : forall out : list A,
  fold_left (fun st i => st ++ [f i]) l out = out ++ map f l.
Proof.
  induction l as [|x l IH]; intros out; cbn [fold_left map]; [rewrite app_nil_r; reflexivity|].
  rewrite IH, <- app_assoc. reflexivity.
Qed.

Lemma fold_left_ext_in' {A B} (f g : A -> B -> A) (l : list B) : (forall a x, In x l -> f a x = g a x) ->
  forall a, fold_left f l a = fold_left g l a.
Proof.
  induction l as [|x l IH]; intros H a; [reflexivity|]. cbn [fold_left]. rewrite H by (left; reflexivity).
  apply IH. intros a' y Hy. apply H. right. exact Hy.
Qed.

Section Eq.
Variable ds : list nat.
Variable sq : list nat.
Variable mask : option (list bool).
Variable max_len : Z.
Variable nup : list Z.

(* the text executed after the `break` of the inner loop *)
Definition finish (out : list (list nat)) (idxs : list nat) (pit : bool) (d : nat) : list (list nat) :=
  let l := Z.of_nat (length idxs) in
  if (l >? max_len) && (max_len >? 0) then
    let '(n, k) := if negb (Qle_bool (inject_Z l / inject_Z max_len)%Q (3 # 2)%Q)
                   then (py_round (inject_Z l / inject_Z (py_round (inject_Z l / inject_Z max_len)%Q))%Q,
                         py_round (inject_Z l / inject_Z max_len)%Q)
                   else (l, 1) in
    let s := fold_left (gen_streams_loop3_step ds sq mask max_len idxs n k) (seq 0 (Z.to_nat k)) out in
    if pit then s ++ [[d; d]] else s
  else
    let s := out ++ [idxs] in
    if pit then s ++ [[d; d]] else s.

Lemma loop2_unfold fuel out done cur idxs :
  gen_streams_loop2 ds sq mask max_len nup fuel (out, done, cur, idxs) =
  let done' := upd done cur true in
  let d := dsf ds cur in
  let pit := (d =? cur)%nat in
  let idxs' := if negb pit then idxs ++ [d] else idxs in
  if (nth d nup 0 >? 1) || pit then Some (finish out idxs' pit d, done', cur, idxs')
  else match fuel with
       | O => None
       | S f => gen_streams_loop2 ds sq mask max_len nup f (out, done', d, idxs')
       end.
Proof.
  unfold finish, dsf, size.
  destruct fuel; cbn [gen_streams_loop2]; cbv zeta;
  destruct (nth cur ds (length ds) =? cur)%nat; cbn [negb];
  destruct (nth (nth cur ds (length ds)) nup 0 >? 1); cbn [orb];
  repeat match goal with |- context [if ?c then _ else _] => destruct c end; reflexivity.
Qed.

Lemma finish_cut out idxs pit d :
  finish out idxs pit d = out ++ cut idxs max_len ++ (if pit then [[d; d]] else []).
Proof.
  assert (E : (if (Z.of_nat (length idxs) >? max_len) && (max_len >? 0) then
     let '(n, k) := if negb (Qle_bool (inject_Z (Z.of_nat (length idxs)) / inject_Z max_len)%Q (3 # 2)%Q)
                   then (py_round (inject_Z (Z.of_nat (length idxs)) / inject_Z (py_round (inject_Z (Z.of_nat (length idxs)) / inject_Z max_len)%Q))%Q,
                         py_round (inject_Z (Z.of_nat (length idxs)) / inject_Z max_len)%Q)
                   else (Z.of_nat (length idxs), 1) in
     fold_left (gen_streams_loop3_step ds sq mask max_len idxs n k) (seq 0 (Z.to_nat k)) out
     else out ++ [idxs]) = out ++ cut idxs max_len).
  { unfold cut. set (l := Z.of_nat (length idxs)).
    destruct ((l >? max_len) && (max_len >? 0)) eqn:Ec; [|reflexivity].
    apply andb_prop in Ec. destruct Ec as [Ec1 Ec2].
    assert (Hm : 1 <= max_len) by lia. assert (Hl : 0 <= l) by (unfold l; lia).
    rewrite (qdiv_to_pos l max_len Hm).
    set (ratio := (l # Z.to_pos max_len)%Q).
    assert (Hkn : (if negb (Qle_bool ratio (3 # 2))
                   then (py_round (inject_Z l / inject_Z (py_round ratio)), py_round ratio) else (l, 1)) =
                  (let '(k, n) := if Qlt_le_dec (3 # 2) ratio then (py_round ratio, py_round (l # Z.to_pos (py_round ratio))%Q)
                                  else (1, l) in (n, k))).
    { destruct (Qlt_le_dec (3 # 2) ratio) as [H|H].
      - assert (Hb : Qle_bool ratio (3 # 2) = false).
        { destruct (Qle_bool ratio (3 # 2)) eqn:E; [|reflexivity]. apply Qle_bool_iff in E.
          exfalso. apply (Qlt_irrefl ratio). eapply Qle_lt_trans; eauto. }
        rewrite Hb. cbn [negb].
        assert (Hk : 1 <= py_round ratio).
        { apply py_round_pos. apply Qlt_le_weak. apply Qle_lt_trans with (y := (3 # 2)%Q); auto. unfold Qle; simpl; lia. }
        rewrite (qdiv_to_pos l _ Hk). reflexivity.
      - apply Qle_bool_iff in H. rewrite H. reflexivity. }
    rewrite Hkn. clear Hkn.
    assert (Hn : 0 <= snd (if Qlt_le_dec (3 # 2) ratio then (py_round ratio, py_round (l # Z.to_pos (py_round ratio))%Q) else (1, l))).
    { destruct (Qlt_le_dec (3 # 2) ratio); cbn [snd]; [|exact Hl]. apply py_round_nonneg. unfold Qle; simpl; lia. }
    destruct (if Qlt_le_dec (3 # 2) ratio then (py_round ratio, py_round (l # Z.to_pos (py_round ratio))%Q) else (1, l)) as [k n].
    cbn [snd] in Hn.
    rewrite (fold_left_ext_in' _ (fun st i => st ++ [if (Z.of_nat i + 1 =? k) then skipn (i * Z.to_nat n) idxs
                  else slice idxs (i * Z.to_nat n) (Z.to_nat n * (i + 1) + 1)])).
    - rewrite fold_snoc_map. reflexivity.
    - intros a x _. unfold gen_streams_loop3_step, slice. cbv zeta. rewrite to_nat_mul, (to_nat_end x n Hn).
      destruct (Z.of_nat x + 1 =? k); reflexivity. }
  unfold finish. cbv zeta.
  destruct ((Z.of_nat (length idxs) >? max_len) && (max_len >? 0)).
  - rewrite app_assoc, <- E.
    destruct (if negb (Qle_bool (inject_Z (Z.of_nat (length idxs)) / inject_Z max_len) (3 # 2)) then _ else _) as [n k].
    destruct pit; [reflexivity|rewrite app_nil_r; reflexivity].
  - rewrite app_assoc, <- E. destruct pit; [reflexivity|rewrite app_nil_r; reflexivity].
Qed.

(* ---------- the inner walk ---------- *)
Lemma loop2_spec : forall fuel out done cur pre x r,
  gen_streams_loop2 ds sq mask max_len nup fuel (out, done, cur, pre ++ [cur]) = Some r ->
  let '(dn, vs, pit) := swalk ds nup fuel cur in
  let c := last ((pre ++ [cur]) ++ vs) x in
  exists c',
  r = (out ++ cut ((pre ++ [cur]) ++ vs) max_len ++ (if pit then [[c; c]] else []),
       fold_left (fun a c => upd a c true) (cur :: dn) done, c', (pre ++ [cur]) ++ vs).
Proof.
  induction fuel as [|f IH]; intros out done cur pre x r; rewrite loop2_unfold; cbv zeta; cbn [swalk].
  - destruct (dsf ds cur =? cur)%nat eqn:Ep.
    + rewrite orb_true_r. cbn [negb]. intros H. injection H as <-. exists cur.
      rewrite finish_cut, app_nil_r, last_last. apply Nat.eqb_eq in Ep. rewrite Ep. reflexivity.
    + rewrite orb_false_r. cbn [negb]. destruct (nth (dsf ds cur) nup 0 >? 1); [|discriminate].
      intros H. injection H as <-. exists cur. rewrite finish_cut. reflexivity.
  - destruct (dsf ds cur =? cur)%nat eqn:Ep.
    + rewrite orb_true_r. cbn [negb]. intros H. injection H as <-. exists cur.
      rewrite finish_cut, app_nil_r, last_last. apply Nat.eqb_eq in Ep. rewrite Ep. reflexivity.
    + rewrite orb_false_r. cbn [negb]. destruct (nth (dsf ds cur) nup 0 >? 1).
      * intros H. injection H as <-. exists cur. rewrite finish_cut. reflexivity.
      * intros H. rewrite <- app_assoc in H. specialize (IH out (upd done cur true) (dsf ds cur) (pre ++ [cur]) x r).
        rewrite <- app_assoc in IH. specialize (IH H).
        destruct (swalk ds nup f (dsf ds cur)) as [[dn vs] pit].
        cbv zeta in IH. destruct IH as [c' ->]. exists c'. cbn [fold_left].
        rewrite <- !app_assoc. cbn [app]. reflexivity.
Qed.

(* the walk does not run out of fuel when a pit lies within `fuel` steps *)
Lemma loop2_total : forall fuel kp out done cur idxs, dsf ds (iter ds kp cur) = iter ds kp cur -> (kp <= fuel)%nat ->
  exists r, gen_streams_loop2 ds sq mask max_len nup fuel (out, done, cur, idxs) = Some r.
Proof.
  induction fuel as [|f IH]; intros kp out done cur idxs Hp Hk; rewrite loop2_unfold; cbv zeta.
  - assert (kp = 0)%nat by lia. subst kp. cbn [iter] in Hp. rewrite Hp, Nat.eqb_refl, orb_true_r. eexists; reflexivity.
  - destruct (dsf ds cur =? cur)%nat eqn:Ep; [rewrite orb_true_r; eexists; reflexivity|].
    rewrite orb_false_r. destruct (nth (dsf ds cur) nup 0 >? 1); [eexists; reflexivity|].
    destruct kp as [|kp]; [cbn [iter] in Hp; rewrite Hp, Nat.eqb_refl in Ep; discriminate|].
    apply (IH kp); [exact Hp|lia].
Qed.

(* ---------- one cell of the outer loop ---------- *)
Definition swap (st : list bool * list (list nat)) : list (list nat) * list bool := (snd st, fst st).

Lemma step_spec out done idx0 r :
  gen_streams_loop1_step ds sq mask max_len nup (out, done) idx0 = Some r ->
  r = swap (sstep ds nup mask max_len (done, out) idx0).
Proof.
  unfold gen_streams_loop1_step, sstep. cbv zeta.
  replace (match mask with None => false | Some mask_ => negb (nth idx0 mask_ false) end) with (negb (mget mask idx0))
    by (destruct mask; reflexivity).
  destruct (nth idx0 done false || negb (mget mask idx0)); [intros H; injection H as <-; reflexivity|].
  destruct (gen_streams_loop2 ds sq mask max_len nup (length ds) (out, done, idx0, [idx0])) as [r2|] eqn:E; [|discriminate].
  pose proof (loop2_spec (length ds) out done idx0 [] idx0 r2 E) as H.
  destruct (swalk ds nup (length ds) idx0) as [[dn vs] pit]. cbv zeta in H. destruct H as [c' ->].
  intros H. injection H as <-. reflexivity.
Qed.

Lemma step_total out done idx0 kp : dsf ds (iter ds kp idx0) = iter ds kp idx0 -> (kp <= length ds)%nat ->
  exists r, gen_streams_loop1_step ds sq mask max_len nup (out, done) idx0 = Some r.
Proof.
  intros Hp Hk. unfold gen_streams_loop1_step. cbv zeta.
  destruct (nth idx0 done false || _); [eexists; reflexivity|].
  destruct (loop2_total (length ds) kp out done idx0 [idx0] Hp Hk) as [[[[o d] c] i] ->]. eexists; reflexivity.
Qed.

Lemma outer_spec : forall l out done r,
  ofold (gen_streams_loop1_step ds sq mask max_len nup) l (out, done) = Some r ->
  r = swap (fold_left (sstep ds nup mask max_len) l (done, out)).
Proof.
  induction l as [|x l IH]; intros out done r; [rewrite ofold_nil; intros H; injection H as <-; reflexivity|].
  rewrite ofold_cons. destruct (gen_streams_loop1_step ds sq mask max_len nup (out, done) x) as [s|] eqn:E; [|discriminate].
  apply step_spec in E. subst s. cbn [fold_left]. destruct (sstep ds nup mask max_len (done, out) x) as [d' o'].
  unfold swap at 1. cbn [fst snd]. apply IH.
Qed.

Lemma outer_total : forall l out done,
  (forall c, In c l -> exists k, (k <= length ds)%nat /\ dsf ds (iter ds k c) = iter ds k c) ->
  exists r, ofold (gen_streams_loop1_step ds sq mask max_len nup) l (out, done) = Some r.
Proof.
  induction l as [|x l IH]; intros out done H; [eexists; apply ofold_nil|].
  rewrite ofold_cons. destruct (H x (or_introl eq_refl)) as [k [Hk Hp]].
  destruct (step_total out done x k Hp Hk) as [[o d] ->]. apply IH. intros c Hc. apply H. right. exact Hc.
Qed.
End Eq.

(* ---------- main theorems ---------- *)
(* partial correctness: whatever the generated function returns is the model's value *)
Theorem gen_streams_partial ds sq mask max_len r : wf ds ->
  gen_streams ds sq mask max_len = Some r -> r = streams ds sq mask max_len.
Proof.
  intros Hwf. unfold gen_streams, streams. cbv zeta. rewrite (gen_upstream_count_eq ds mask Hwf).
  destruct (ofold _ (rev sq) _) as [[o d]|] eqn:E; [|discriminate].
  apply outer_spec in E. intros H. injection H as <-.
  destruct (fold_left _ (rev sq) _) as [d' o']. unfold swap in E. cbn [fst snd] in *. congruence.
Qed.

(* total: every cell of the stored order reaches a pit within length ds steps *)
Theorem gen_streams_eq_walk ds sq mask max_len : wf ds ->
  (forall c, In c sq -> exists k, (k <= length ds)%nat /\ dsf ds (iter ds k c) = iter ds k c) ->
  gen_streams ds sq mask max_len = Some (streams ds sq mask max_len).
Proof.
  intros Hwf Hw. destruct (gen_streams ds sq mask max_len) as [r|] eqn:E.
  - f_equal. apply gen_streams_partial; auto.
  - exfalso. unfold gen_streams in E. cbv zeta in E.
    destruct (outer_total ds sq mask max_len (gen_upstream_count ds mask) (rev sq) [] (repeat false (length ds))) as [[o d] Hr].
    + intros c Hc. apply Hw. apply in_rev. exact Hc.
    + rewrite Hr in E. discriminate.
Qed.

Theorem gen_streams_eq ds sq mask max_len : wf ds -> topo ds sq ->
  gen_streams ds sq mask max_len = Some (streams ds sq mask max_len).
Proof.
  intros Hwf Ht. apply gen_streams_eq_walk; auto.
  intros c Hc. destruct (path_bound ds sq Ht c Hc) as [k [Hk [[_ Hp] _]]]. exists k. split; [lia|exact Hp].
Qed.

(* satisfiable: 0 pit; 1 -> 0; 2 -> 1; 3 -> 1; 4 -> 3; 5 -> 4; 6 -> 5; 7 -> 6 (a long headwater stream that is cut) *)
Example gen_streams_example :
  wf [0;0;1;1;3;4;5;6]%nat /\ topo [0;0;1;1;3;4;5;6]%nat [0;1;2;3;4;5;6;7]%nat /\
  gen_streams [0;0;1;1;3;4;5;6]%nat [0;1;2;3;4;5;6;7]%nat None 2 = Some [[7;6;5]; [5;4;3]; [3;1]; [2;1]; [1;0]; [0;0]]%nat /\
  streams [0;0;1;1;3;4;5;6]%nat [0;1;2;3;4;5;6;7]%nat None 2 = [[7;6;5]; [5;4;3]; [3;1]; [2;1]; [1;0]; [0;0]]%nat /\
  gen_streams [0;0;1;1;3;4;5;6]%nat [0;1;2;3;4;5;6;7]%nat (Some [true;true;false;true;true;true;true;true]) 0 =
    Some (streams [0;0;1;1;3;4;5;6]%nat [0;1;2;3;4;5;6;7]%nat (Some [true;true;false;true;true;true;true;true]) 0).
Proof.
  split; [apply wfb_wf; vm_compute; reflexivity|].
  split; [apply check_topo_sound; vm_compute; reflexivity|]. vm_compute. auto.
Qed.

Print Assumptions gen_streams_partial.
Print Assumptions gen_streams_eq_walk.
Print Assumptions gen_streams_eq.
