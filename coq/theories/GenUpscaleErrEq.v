(* upscale.upscale_error, REGENERATED from the Python source (generated/GenUpscale.v), equals the hand model
   Upscale.upscale_error that the theorems of C09 are about.  The generated function returns an option: None is the
   AssertionError of `assert subidxs_out.size == idxs_ds.size`; under that equality of sizes (the only hypothesis) it returns
   the connection map of the model and, as second result (idxs_fix), the cells whose entry in that map is 0, in ascending
   order.  Any networks (loops included: both sides run out of the same fuel and report a disconnected cell).  No axioms. *)
From Coq Require Import List Arith ZArith Bool Lia.
Import ListNotations.
From PF Require Import Arr Net Elev Upscale GenCodecBaseEq GenUpscaleBaseEq GenUpscaleIhuEq.
From PFG Require Import GenUpscale.

Section Err.
Variable sds out cds : list nat.
Notation nsub := (length sds).
Notation n := (length cds).

Lemma outlets_eq :
  fold_left (gen_up_upscale_error_step1 out cds sds) out (repeat false nsub) = outlet_map sds out.
Proof. reflexivity. Qed.

Lemma err_walk_eq om idx0 d : forall fuel cm fixl subidx,
  gen_up_upscale_error_walk out cds sds om fuel idx0 d cm fixl subidx
  = if (err_walk sds fuel om subidx =? nth d out nsub)%nat then (cm, fixl) else (upd cm idx0 0%Z, fixl ++ [idx0]).
Proof.
  induction fuel as [|f IH]; intros cm fixl subidx; cbn [gen_up_upscale_error_walk err_walk]; cbv beta iota zeta.
  - destruct (_ =? _)%nat; reflexivity.
  - fold (sd sds subidx). destruct (_ || _); [|apply IH]. destruct (_ =? _)%nat; reflexivity.
Qed.

(* the entry of the connection map of the model *)
Definition err_val (i : nat) : Z :=
  let s := nth i out nsub in
  let d := nth i cds n in
  if (n <=? d)%nat || (nsub <=? s)%nat then 255%Z
  else if (err_walk sds (S nsub) (outlet_map sds out) s =? nth d out nsub)%nat then 1%Z else 0%Z.

Lemma err_step_eq st i :
  gen_up_upscale_error_step2 out cds sds (outlet_map sds out) st i
  = ((if (err_val i =? 1)%Z then fst st else upd (fst st) i (err_val i)),
     (if (err_val i =? 0)%Z then snd st ++ [i] else snd st)).
Proof.
  destruct st as [cm fixl]. unfold gen_up_upscale_error_step2, err_val. cbv beta iota zeta. cbn [fst snd].
  destruct (n <=? _)%nat; cbn [negb andb orb]; [reflexivity|].
  destruct (nsub <=? _)%nat; cbn [negb andb orb]; [reflexivity|].
  rewrite err_walk_eq. destruct (_ =? _)%nat; reflexivity.
Qed.

Lemma gen_up_upscale_error_pair : length out = n ->
  gen_up_upscale_error out cds sds
  = Some (upscale_error sds out cds, filter (fun i => (err_val i =? 0)%Z) (seq 0 n)).
Proof.
  intros Hlen. unfold gen_up_upscale_error. cbv beta iota zeta. rewrite Hlen, Nat.eqb_refl. f_equal.
  rewrite outlets_eq.
  rewrite (fold_ext_in _ _ _ (fun st i _ => err_step_eq st i)).
  rewrite (fold_pair (fun a i => if (err_val i =? 1)%Z then a else upd a i (err_val i))
                     (fun b i => if (err_val i =? 0)%Z then b ++ [i] else b)).
  rewrite fold_filter. cbn [app]. f_equal.
  pose proof (ffold (fun i => (err_val i =? 1)%Z) err_val 1%Z n 0%nat [] eq_refl) as E.
  unfold fstep in E. cbn [app] in E. rewrite E. unfold upscale_error. cbv zeta.
  apply map_ext. intros i. fold (err_val i). destruct (Z.eqb_spec (err_val i) 1) as [->|]; reflexivity.
Qed.

(* upscale_error(subidxs_out, idxs_ds, subidxs_ds)[0] *)
Theorem gen_up_upscale_error_eq : length out = n ->
  option_map fst (gen_up_upscale_error out cds sds) = Some (upscale_error sds out cds).
Proof. intros H. rewrite gen_up_upscale_error_pair by exact H. reflexivity. Qed.

(* upscale_error(...)[1]: the cells reported as disconnected (0), in ascending order *)
Theorem gen_up_upscale_error_fix_eq : length out = n ->
  option_map snd (gen_up_upscale_error out cds sds)
  = Some (filter (fun i => (nth i (upscale_error sds out cds) 1 =? 0)%Z) (seq 0 n)).
Proof.
  intros H. rewrite gen_up_upscale_error_pair by exact H. cbn [option_map snd]. f_equal.
  apply filter_ext_in. intros i Hi. apply in_seq in Hi. unfold upscale_error. cbv zeta. fold err_val.
  rewrite (nth_indep _ 1%Z (err_val 0%nat)) by (rewrite map_length, seq_length; lia).
  rewrite (map_nth err_val (seq 0 n) 0%nat i), seq_nth by lia. reflexivity.
Qed.

(* the AssertionError *)
Theorem gen_up_upscale_error_assert : length out <> n -> gen_up_upscale_error out cds sds = None.
Proof.
  intros H. unfold gen_up_upscale_error. cbv beta iota zeta.
  destruct (Nat.eqb_spec (length out) n); [contradiction|reflexivity].
Qed.
End Err.

(* non-vacuity: the fine raster of the other examples with outlet pixels 1 and 3: cell 0 -> 1 is connected, the pit cell 1 is
   connected to itself; with cell 0 pointing to itself it is reported; sizes that differ are the AssertionError *)
Example gen_up_upscale_error_ex :
  gen_up_upscale_error [1; 3]%nat [1; 1]%nat [1; 2; 3; 3; 0; 1; 2; 3]%nat = Some ([1; 1]%Z, [])
  /\ gen_up_upscale_error [1; 3]%nat [0; 1]%nat [1; 2; 3; 3; 0; 1; 2; 3]%nat = Some ([0; 1]%Z, [0]%nat)
  /\ gen_up_upscale_error [1; 3]%nat [1]%nat [1; 2; 3; 3; 0; 1; 2; 3]%nat = None.
Proof. vm_compute. auto. Qed.

Print Assumptions gen_up_upscale_error_eq.
Print Assumptions gen_up_upscale_error_fix_eq.
Print Assumptions gen_up_upscale_error_assert.
