(* Models of four small kernels of core.py that no property file needed so far: inflow_idxs, outflow_idxs,
   headwater_indices, confluence_indices.  No proofs in this file; GenExtraEq.v proves the definitions REGENERATED from
   the Python source equal to these. *)
From Coq Require Import List Arith ZArith Bool.
Import ListNotations.
From PF Require Import Arr Net Rank Stream.

(* core.inflow_idxs: the cells are visited from up- to downstream; `open` tells for every cell whether no inflow cell
   has been found yet on the path (of the upstream neighbour visited last) that leads to it.  A cell outside the region
   that drains into the region and is still open is an inflow cell and closes its downstream cell. *)
Definition inflow_step (ds : list nat) (region : list bool) (st : list nat * list bool) (i : nat) : list nat * list bool :=
  let '(out, open) := st in
  let d := dsf ds i in
  if (d =? i)%nat then st
  else if nth i open false && nth d region false && negb (nth i region false)
       then (out ++ [i], upd open d false)
       else (out, upd open d (nth i open false)).
Definition inflow_idxs (ds : list nat) (sq : list nat) (region : list bool) : list nat :=
  fst (fold_left (inflow_step ds region) (rev sq) ([], repeat true (length ds))).

(* core.outflow_idxs: the cells are visited from down- to upstream; a cell of the region whose downstream cell is
   still open and that is a pit or drains out of the region is an outflow cell and closes everything upstream of it. *)
Definition outflow_step (ds : list nat) (region : list bool) (st : list nat * list bool) (i : nat) : list nat * list bool :=
  let '(out, open) := st in
  let d := dsf ds i in
  if nth d open false && nth i region false && ((d =? i)%nat || negb (nth d region false))
  then (out ++ [i], upd open i false)
  else (out, upd open i (nth d open false)).
Definition outflow_idxs (ds : list nat) (sq : list nat) (region : list bool) : list nat :=
  fst (fold_left (outflow_step ds region) sq ([], repeat true (length ds))).

(* the number of upstream neighbours of a cell that are selected by the optional mask *)
Definition n_upstream (ds : list nat) (mask : option (list bool)) (j : nat) : nat :=
  length (filter (mget mask) (ups ds j)).

(* core.headwater_indices: the cells of the network without a (masked) upstream neighbour, ascending *)
Definition headwater_indices (ds : list nat) (mask : option (list bool)) : list nat :=
  filter (fun j => validb ds j && (n_upstream ds mask j =? 0)%nat) (seq 0 (length ds)).

(* core.confluence_indices: the cells of the network with two or more (masked) upstream neighbours, ascending *)
Definition confluence_indices (ds : list nat) (mask : option (list bool)) : list nat :=
  filter (fun j => validb ds j && (1 <? n_upstream ds mask j)%nat) (seq 0 (length ds)).
