(* C15, D4 digging: never raises an elevation, never alters a nodata cell, changes only cells that are
   side-adjacent (by index arithmetic) to a considered cell or to its pit. *)
From Coq Require Import List Arith ZArith Bool Lia.
Import ListNotations.
From PF Require Import Arr Net Elev.
Local Open Scope Z_scope.

Definition adj4 (ncol c j : nat) : Prop :=
  (j = c - 1 \/ j = c + 1 \/ j = c - ncol \/ j = c + ncol)%nat.

Lemma apply_mods_length m : forall e, length (apply_mods e m) = length e.
Proof. unfold apply_mods. induction m as [|p m IH]; intros e; simpl; auto. rewrite IH, upd_length. auto. Qed.

Lemma apply_mods_char m : forall e j,
  zn (apply_mods e m) j = zn e j \/ exists v, In (j, v) m /\ zn (apply_mods e m) j = v.
Proof.
  unfold apply_mods. induction m as [|[k v] m IH]; intros e j; simpl; auto.
  destruct (IH (upd e k v) j) as [H|[w [Hin Hw]]].
  - unfold zn in H at 2. rewrite nth_upd in H.
    destruct ((j =? k)%nat && (k <? length e)%nat) eqn:E.
    + apply andb_true_iff in E. destruct E as [E _]. apply Nat.eqb_eq in E. subst k.
      right. exists v. split; auto.
    + left. exact H.
  - right. exists w. split; auto.
Qed.

Lemma digv_le mode e z0 : digv mode e z0 <= e.
Proof. unfold digv. destruct mode.
  - destruct (z0 <? e) eqn:E1; [apply Z.ltb_lt in E1; lia|]. destruct (0 <? e); lia.
  - lia. Qed.

Lemma local_d4_adj i ids ncol a b : local_d4 i ids ncol = Some (a, b) -> adj4 ncol i a /\ adj4 ncol i b.
Proof. unfold local_d4, adj4.
  destruct (ids + ncol + 1 =? i)%nat; [intros H; inversion H; subst; lia|].
  destruct (ids + 1 =? i + ncol)%nat; [intros H; inversion H; subst; lia|].
  destruct (ids =? i + ncol + 1)%nat; [intros H; inversion H; subst; lia|].
  destruct (ids + ncol =? i + 1)%nat; [intros H; inversion H; subst; lia|]. discriminate. Qed.

Section DigSpec.
Variable ds : list nat.
Variable nrow ncol : nat.
Variable mask : option (list bool).
Variable nodata : Z.
Variable mode : bool.

(* what one step may do to the array *)
Definition step_ok (i : nat) (e e' : list Z) : Prop :=
  length e' = length e /\
  (forall j, zn e' j <= zn e j) /\
  (forall j, zn e j = nodata -> zn e' j = nodata) /\
  (forall j, zn e' j <> zn e j -> adj4 ncol i j \/ adj4 ncol (dsf ds i) j).

Lemma step_ok_refl i e : step_ok i e e.
Proof. repeat split; auto; try lia; intros j H; congruence. Qed.

Lemma step_ok_trans i e1 e2 e3 : step_ok i e1 e2 -> step_ok i e2 e3 -> step_ok i e1 e3.
Proof. intros [L1 [A1 [B1 C1]]] [L2 [A2 [B2 C2]]]. repeat split.
  - congruence.
  - intros j. specialize (A1 j). specialize (A2 j). lia.
  - intros j H. auto.
  - intros j H. destruct (Z.eq_dec (zn e2 j) (zn e1 j)) as [E|E]; [apply C2; congruence|apply C1; auto]. Qed.

Lemma upd_step_ok i e k v : v <= zn e k -> zn e k <> nodata -> adj4 ncol i k \/ adj4 ncol (dsf ds i) k ->
  step_ok i e (upd e k v).
Proof.
  intros Hle Hnd Hadj. repeat split.
  - apply upd_length.
  - intros j. unfold zn. rewrite nth_upd. destruct ((j =? k)%nat && (k <? length e)%nat) eqn:E; [|lia].
    apply andb_true_iff in E. destruct E as [E _]. apply Nat.eqb_eq in E. subst. exact Hle.
  - intros j Hj. unfold zn. rewrite nth_upd. destruct ((j =? k)%nat && (k <? length e)%nat) eqn:E; auto.
    apply andb_true_iff in E. destruct E as [E _]. apply Nat.eqb_eq in E. subst. contradiction.
  - intros j Hj. unfold zn in Hj. rewrite nth_upd in Hj.
    destruct ((j =? k)%nat && (k <? length e)%nat) eqn:E; [|congruence].
    apply andb_true_iff in E. destruct E as [E _]. apply Nat.eqb_eq in E. subst. exact Hadj.
Qed.

Lemma dig_diag_ok e i e' : dig_diag ds ncol nodata mode e i = Some e' -> step_ok i e e'.
Proof.
  unfold dig_diag.
  destruct ((1 <? absdiff i (dsf ds i))%nat && negb (absdiff i (dsf ds i) =? ncol)%nat);
    [|intros H; inversion H; apply step_ok_refl].
  destruct (local_d4 i (dsf ds i) ncol) as [[a b]|] eqn:El; [|discriminate].
  destruct (local_d4_adj _ _ _ _ _ El) as [Ha Hb].
  destruct (negb (zn e a =? nodata)) eqn:Va; destruct (negb (zn e b =? nodata)) eqn:Vb; simpl;
    try (apply negb_true_iff in Va; apply Z.eqb_neq in Va);
    try (apply negb_true_iff in Vb; apply Z.eqb_neq in Vb).
  - destruct (zn e b <? zn e a); intros H; inversion H; apply upd_step_ok; auto using digv_le.
  - intros H; inversion H; apply upd_step_ok; auto using digv_le.
  - intros H; inversion H; apply upd_step_ok; auto using digv_le.
  - intros H; inversion H; apply step_ok_refl.
Qed.

Lemma dig_pit_ok e i : step_ok i e (dig_pit ds nrow ncol nodata e i).
Proof.
  unfold dig_pit. set (p := dsf ds i).
  destruct (dsf ds p =? p)%nat; [|apply step_ok_refl].
  destruct ((p / ncol =? 0)%nat || (p / ncol =? nrow - 1)%nat || (p mod ncol =? 0)%nat || (p mod ncol =? ncol - 1)%nat);
    [apply step_ok_refl|].
  set (nb := [(p - 1)%nat; (p + ncol)%nat; (p + 1)%nat; (p - ncol)%nat]).
  destruct (existsb (fun k => zn e k =? nodata) nb) eqn:Ex; [apply step_ok_refl|].
  set (m := map (fun k => (k, Z.min (zn e p) (zn e k))) (filter (fun k => negb (k =? i)%nat) nb)).
  assert (Hm : forall j v, In (j, v) m -> In j nb /\ v = Z.min (zn e p) (zn e j)).
  { intros j v Hin. unfold m in Hin. apply in_map_iff in Hin. destruct Hin as [k [Heq Hk]].
    inversion Heq; subst. apply filter_In in Hk. tauto. }
  assert (Hnb : forall j, In j nb -> zn e j <> nodata /\ adj4 ncol p j).
  { intros j Hj. split.
    - intros Heq. assert (existsb (fun k => zn e k =? nodata) nb = true); [|congruence].
      apply existsb_exists. exists j. split; auto. apply Z.eqb_eq. auto.
    - unfold nb in Hj. simpl in Hj. unfold adj4. intuition. }
  repeat split.
  - apply apply_mods_length.
  - intros j. destruct (apply_mods_char m e j) as [H|[v [Hin H]]]; [lia|].
    destruct (Hm _ _ Hin) as [_ ->]. lia.
  - intros j Hj. destruct (apply_mods_char m e j) as [H|[v [Hin H]]]; [congruence|].
    destruct (Hm _ _ Hin) as [Hinb _]. destruct (Hnb _ Hinb) as [Hn _]. contradiction.
  - intros j Hj. destruct (apply_mods_char m e j) as [H|[v [Hin H]]]; [congruence|].
    destruct (Hm _ _ Hin) as [Hinb _]. destruct (Hnb _ Hinb) as [_ Ha]. right. exact Ha.
Qed.

Lemma dig_step_ok e i e' : dig_step ds nrow ncol mask nodata mode (Some e) i = Some e' ->
  e' = e \/ (considered mask i = true /\ step_ok i e e').
Proof.
  unfold dig_step. destruct (considered mask i); [|intros H; inversion H; auto].
  destruct (dig_diag ds ncol nodata mode e i) as [e1|] eqn:Ed; [|discriminate].
  pose proof (dig_diag_ok _ _ _ Ed) as H1.
  match goal with |- (if ?c then _ else _) = _ -> _ => destruct c end; intros H; inversion H; subst; right; split; auto.
  eapply step_ok_trans; [exact H1|apply dig_pit_ok].
Qed.

Lemma dig_fold_none P : fold_left (dig_step ds nrow ncol mask nodata mode) P None = None.
Proof. induction P; simpl; auto. Qed.

Theorem dig_d4_spec_sec sq elv out : dig_d4 ds nrow ncol mask nodata mode sq elv = Some out ->
  length out = length elv /\
  (forall j, zn out j <= zn elv j) /\
  (forall j, zn elv j = nodata -> zn out j = nodata) /\
  (forall j, zn out j <> zn elv j ->
     exists i, In i sq /\ considered mask i = true /\ (adj4 ncol i j \/ adj4 ncol (dsf ds i) j)).
Proof.
  unfold dig_d4.
  assert (G : forall P e, fold_left (dig_step ds nrow ncol mask nodata mode) P (Some e) = Some out ->
    length out = length e /\ (forall j, zn out j <= zn e j) /\ (forall j, zn e j = nodata -> zn out j = nodata) /\
    (forall j, zn out j <> zn e j -> exists i, In i P /\ considered mask i = true /\ (adj4 ncol i j \/ adj4 ncol (dsf ds i) j))).
  { induction P as [|i P IH]; intros e H; cbn [fold_left] in H.
    - inversion H; subst. repeat split; auto; try lia; intros j Hj; congruence.
    - destruct (dig_step ds nrow ncol mask nodata mode (Some e) i) as [e1|] eqn:Es; [|rewrite dig_fold_none in H; discriminate].
      destruct (IH e1 H) as [L [A [B C]]].
      destruct (dig_step_ok _ _ _ Es) as [->|[Hcons [L1 [A1 [B1 C1]]]]].
      + repeat split; auto. intros j Hj. destruct (C j Hj) as [i' [Hi' Hr]]. exists i'. split; [right; auto|auto].
      + repeat split.
        * congruence.
        * intros j. specialize (A j). specialize (A1 j). lia.
        * intros j Hj. auto.
        * intros j Hj. destruct (Z.eq_dec (zn out j) (zn e1 j)) as [E|E].
          -- exists i. split; [left; auto|]. split; auto. apply C1. congruence.
          -- destruct (C j E) as [i' [Hi' Hr]]. exists i'. split; [right; auto|auto]. }
  intros H. destruct (G _ _ H) as [L [A [B C]]]. repeat split; auto.
  intros j Hj. destruct (C j Hj) as [i [Hi Hr]]. exists i. split; auto. apply in_rev. auto.
Qed.
End DigSpec.
