(* basins.subbasins_area, REGENERATED from the Python source, equals the hand-written model Subbas.subbasins_area that the
   theorems of C18 are about (the source appends the outlet first and stores len(idxs); the model stores length + 1 and
   appends). *)
From Coq Require Import List Arith ZArith Bool Lia.
Import ListNotations.
From PF Require Import Arr Net SweepDown Fill Rank Stream Subbas AccuSpec GenLoopsEq.
From PFG Require Import GenLoops.
Local Open Scope Z_scope.

Lemma len_snoc (l : list nat) x : Z.of_nat (length (l ++ [x])) = Z.of_nat (length l) + 1.
Proof. rewrite app_length. cbn [length]. lia. Qed.

Lemma gen_area_step_eq ds sq main uparea amin st i :
  gen_subbasins_area_step ds sq main uparea amin st i = area_step ds main uparea amin st i.
Proof.
  destruct st as [[u sb] ix]. unfold gen_subbasins_area_step, area_step.
  change (nth i ds (length ds)) with (dsf ds i). rewrite !len_snoc.
  destruct (dsf ds i =? i)%nat; [reflexivity|].
  destruct ((nth (dsf ds i) u 0 - nth i uparea 0 >? amin) && (nth i uparea 0 >? amin)); [|reflexivity].
  destruct (negb (nth (dsf ds i) uparea 0 - nth i uparea 0 >? amin) || negb (nth (dsf ds i) main (length ds) =? i)%nat);
    destruct (negb (nth (dsf ds i) main (length ds) =? i)%nat); reflexivity.
Qed.

Lemma area_step_len ds main uparea amin st i : length (snd (fst (area_step ds main uparea amin st i))) = length (snd (fst st)).
Proof.
  destruct st as [[u sb] ix]. unfold area_step. cbn [fst snd].
  destruct (dsf ds i =? i)%nat; cbn [fst snd]; [apply upd_length|].
  destruct ((nth (dsf ds i) u 0 - nth i uparea 0 >? amin) && (nth i uparea 0 >? amin)); cbn [fst snd]; [|reflexivity].
  destruct (negb (nth (dsf ds i) uparea 0 - nth i uparea 0 >? amin) || negb (nth (dsf ds i) main (length ds) =? i)%nat);
    destruct (negb (nth (dsf ds i) main (length ds) =? i)%nat); cbn [fst snd]; rewrite ?upd_length; reflexivity.
Qed.

Theorem gen_subbasins_area_eq ds sq main uparea amin : (forall i, In i sq -> valid ds i) ->
  gen_subbasins_area ds sq main uparea amin = subbasins_area ds sq main uparea amin.
Proof.
  intros Hv. unfold gen_subbasins_area, subbasins_area. cbv zeta.
  rewrite (fold_ext _ (area_step ds main uparea amin)) by (intros; apply gen_area_step_eq).
  assert (Hlen : forall l st, length (snd (fst (fold_left (area_step ds main uparea amin) l st))) = length (snd (fst st))).
  { induction l as [|x l IH]; intros st; cbn [fold_left]; [reflexivity|]. rewrite IH. apply area_step_len. }
  specialize (Hlen sq (uparea, repeat 0 (length ds), [])). cbn [fst snd] in Hlen. rewrite repeat_length in Hlen.
  destruct (fold_left (area_step ds main uparea amin) sq (uparea, repeat 0 (length ds), [])) as [[u sb] ix]. cbn [fst snd] in *.
  rewrite gen_fillnodata_upstream_eq by auto. reflexivity.
Qed.

(* basins.subbasins_streamorder, with its optional mask (`mask is not None and mask[idx0] == False` skips the cell) *)
Lemma gen_sto_step_eq ds sq strord mask ms st i :
  gen_subbasins_streamorder_step ds sq strord mask ms st i = sto_step ds strord mask ms st i.
Proof.
  destruct st as [sb ix]. unfold gen_subbasins_streamorder_step, sto_step.
  change (nth i ds (length ds)) with (dsf ds i). rewrite !len_snoc.
  destruct (negb (mget mask i) || (nth i strord 0 <? ms)); [reflexivity|].
  destruct (negb (nth i strord 0 =? nth (dsf ds i) strord 0) || (dsf ds i =? i)%nat); reflexivity.
Qed.

Lemma sto_step_len ds strord mask ms st i : length (fst (sto_step ds strord mask ms st i)) = length (fst st).
Proof.
  destruct st as [sb ix]. unfold sto_step. cbn [fst].
  destruct (negb (mget mask i) || (nth i strord 0 <? ms)); [reflexivity|].
  destruct (negb (nth i strord 0 =? nth (dsf ds i) strord 0) || (dsf ds i =? i)%nat); cbn [fst]; rewrite ?upd_length; reflexivity.
Qed.

Theorem gen_subbasins_streamorder_eq ds sq strord mask min_sto : (forall i, In i sq -> valid ds i) ->
  gen_subbasins_streamorder ds sq strord mask min_sto = subbasins_streamorder ds sq strord mask min_sto.
Proof.
  intros Hv. unfold gen_subbasins_streamorder, subbasins_streamorder. cbv zeta.
  set (ms := if min_sto <? 0 then fold_right Z.max 0 strord + min_sto else min_sto).
  rewrite (fold_ext _ (sto_step ds strord mask ms)) by (intros; apply gen_sto_step_eq).
  assert (Hlen : forall l st, length (fst (fold_left (sto_step ds strord mask ms) l st)) = length (fst st)).
  { induction l as [|x l IH]; intros st; cbn [fold_left]; [reflexivity|]. rewrite IH. apply sto_step_len. }
  specialize (Hlen (rev sq) (repeat 0 (length ds), [])). cbn [fst] in Hlen. rewrite repeat_length in Hlen.
  destruct (fold_left (sto_step ds strord mask ms) (rev sq) (repeat 0 (length ds), [])) as [sb ix]. cbn [fst snd] in *.
  rewrite gen_fillnodata_upstream_eq by auto. reflexivity.
Qed.
