(* C13 / termination, target 1: the upstream-to-downstream trace `tracem` of dem.adjust_elevation (Elev.v).
   `adj_step` calls it with fuel n = length ds.  On a loop-free network the trace started at any ordered cell stops because
   its own exit condition fires (masked cell / pit / nodata link) after k < n steps: the fuel n is never exhausted. *)
From Coq Require Import List Arith ZArith Bool Lia.
Import ListNotations.
From PF Require Import Arr Net Elev ElevSpec NetBound.

Section TermTracem.
Variable ds : list nat.
Variable sq : list nat.
Hypothesis Ht : topo ds sq.
Notation n := (length ds).

(* the exit index: the first cell of the downstream walk where the loop's own `break` test is true *)
Theorem tracem_exit mask i : In i sq ->
  exists k, k < n /\ (forall j, j < k -> stopb ds mask (iter ds j i) = false) /\ stopb ds mask (iter ds k i) = true /\
            forall fuel, k <= fuel -> tracem ds fuel mask i = pathof ds i k.
Proof.
  intros Hi. destruct (path_bound ds sq Ht i Hi) as [kp [Hkp [Hp _]]].
  assert (Hstop : stopb ds mask (iter ds kp i) = true).
  { unfold stopb. destruct Hp as [_ Hp]. rewrite Hp, Nat.eqb_refl, orb_true_r. reflexivity. }
  destruct (least_witness (fun j => stopb ds mask (iter ds j i)) kp Hstop) as [k [Hk [Hsk Hnk]]].
  exists k. split; [lia|]. split; [exact Hnk|]. split; [exact Hsk|].
  intros fuel Hf. apply tracem_spec; auto.
Qed.

(* the fuel the model passes (n) is never the reason to stop: any larger amount of fuel gives the same trace *)
Theorem tracem_fuel mask i extra : In i sq -> tracem ds (n + extra) mask i = tracem ds n mask i.
Proof.
  intros Hi. destruct (tracem_exit mask i Hi) as [k [Hk [_ [_ Hf]]]].
  rewrite (Hf (n + extra)) by lia. rewrite (Hf n) by lia. reflexivity.
Qed.

(* the trace is a duplicate-free downstream path of at most n cells, it ends at a cell where the exit test holds and
   the exit test fails at all its earlier cells *)
Theorem tracem_bound mask i : In i sq ->
  let p := tracem ds n mask i in
  1 <= length p <= n /\ NoDup p /\ (forall x, In x p -> x < n) /\
  stopb ds mask (last p i) = true /\
  (forall j, S j < length p -> stopb ds mask (nth j p 0) = false /\ nth (S j) p 0 = dsf ds (nth j p 0)).
Proof.
  intros Hi p. destruct (tracem_exit mask i Hi) as [k [Hk [Hns [Hs Hf]]]].
  assert (Hp : p = pathof ds i k) by (apply Hf; lia).
  assert (Hl : length p = S k) by (rewrite Hp; unfold pathof; rewrite map_length, seq_length; reflexivity).
  assert (Hin : forall x, In x p -> x < n).
  { intros x Hx. rewrite Hp in Hx. unfold pathof in Hx. apply in_map_iff in Hx. destruct Hx as [j [<- _]].
    assert (Hv : valid ds (iter ds j i)) by (apply (topo_valid ds sq); auto; apply topo_closed_iter; auto).
    destruct Hv as [Hv _]. exact Hv. }
  split; [lia|]. split; [|split; [exact Hin|split]].
  - rewrite Hp. unfold pathof. apply (orbit_nodup ds sq Ht i k Hi).
    intros j Hj. specialize (Hns j Hj). unfold stopb in Hns. rewrite !orb_false_iff in Hns.
    destruct Hns as [[_ H2] _]. apply Nat.eqb_neq in H2. exact H2.
  - assert (Hlast : last p i = nth k p 0).
    { rewrite <- (nth_indep p i 0) by lia. replace k with (length p - 1) by lia. symmetry.
      destruct p as [|a p']; [simpl in Hl; lia|]. clear. revert a. induction p' as [|b t IH]; intros a; [reflexivity|].
      change (last (a :: b :: t) i) with (last (b :: t) i). rewrite <- IH. simpl. rewrite Nat.sub_0_r. reflexivity. }
    rewrite Hlast, Hp, path_nth by lia. exact Hs.
  - intros j Hj. rewrite Hp, !path_nth by lia. split; [apply Hns; lia|]. apply iter_S.
Qed.
End TermTracem.

(* the caller: dem.adjust_elevation (`adjust`, one `adj_step` per cell of the reversed order, each with fuel n).
   With a fuel parameter for the inner trace, any larger fuel gives the same result -- for every 1-D fixer F. *)
Definition adj_step_fuel (fuel : nat) (F : list Z -> list Z) (ds : list nat) (st : list Z * list bool) (i0 : nat)
  : list Z * list bool :=
  let '(e, mask) := st in
  if nth i0 mask false then st
  else let p := tracem ds fuel mask i0 in (scatter e p (F (map (zn e) p)), setmask mask p).
Definition adjust_fuel (fuel : nat) (F : list Z -> list Z) (ds : list nat) (sq : list nat) (elv : list Z) : list Z :=
  fst (fold_left (adj_step_fuel fuel F ds) (rev sq) (elv, repeat false (length ds))).

Lemma fold_left_ext_in {A B} (f g : A -> B -> A) (l : list B) : (forall a x, In x l -> f a x = g a x) ->
  forall a, fold_left f l a = fold_left g l a.
Proof.
  induction l as [|x l IH]; intros H a; [reflexivity|]. cbn [fold_left]. rewrite H by (left; reflexivity).
  apply IH. intros a' y Hy. apply H. right. exact Hy.
Qed.

Theorem adjust_terminates F ds sq : topo ds sq -> forall elv extra,
  adjust_fuel (length ds + extra) F ds sq elv = adjust F ds sq elv.
Proof.
  intros Ht elv extra. unfold adjust_fuel, adjust. f_equal. apply fold_left_ext_in.
  intros [e mask] x Hx. apply in_rev in Hx. unfold adj_step_fuel, adj_step.
  rewrite (tracem_fuel ds sq Ht mask x extra Hx). reflexivity.
Qed.

(* the hypotheses are satisfiable: a 5-cell network (pit 0; 1 -> 0; 2 -> 1; 3 -> 1; cell 4 nodata), cell 1 already masked *)
Example tracem_example :
  topo [0;0;1;1;5] [0;1;2;3] /\ In 3 [0;1;2;3] /\
  tracem [0;0;1;1;5] 5 [false;true;false;false;false] 3 = [3;1] /\
  tracem [0;0;1;1;5] 5 [false;false;false;false;false] 2 = [2;1;0].
Proof. split; [apply check_topo_sound; vm_compute; reflexivity|]. vm_compute. auto 10. Qed.

Print Assumptions tracem_exit.
Print Assumptions tracem_fuel.
Print Assumptions tracem_bound.
Print Assumptions adjust_terminates.
